/* c11_hist.c - history driver for C11 (stateful layer: spec/KernelHist.tla, spec/TraceKernelHist.tla).
 * usage: c11_hist <out.ndjson> <group> <seed> <tier 0=quick 1=thorough>
 *
 * Every kernel is run several times in ONE process on objects that live in numbered slots: same shape with other data written
 * in place (same addresses), another shape through the library's resize, the first data again in freshly allocated objects;
 * outputs fresh, re-zeroed, left stale, filled with junk, sized for another call.  Operands are integer mantissas times a
 * power-of-two unit (per history, per row, per column), so that every product kernel is exact; the units are divided out of
 * what the library returns and the mantissas are logged.  TLC replays the log against the store machine and judges every call.
 *
 * Events (one JSON object per line):
 *   Reset | Put{s,t,how,row,col,d} | Free{s} | Call/CallM{fn,in,out,h,om,im,cls,key,np,sh,pc,exact,row,col,d[,ua,ub]} | Law{law,s,cls}
 *   (pc = 1: the harness prepared the output as the kernel's contract asks - TLC insists on it, so that no call is judged vacuously)
 *   Crash{fn,h,om,im,cls}  (sanitizer death callback / signal)      Done{group,hist,calls}
 * Input classes (INPUT-CLASSES.md) are carried in "cls" and counted by the check.
 */
#include "scientific.h"
#include "verif_rt.h"
#include <stdarg.h>

/* ---------------------------------------------------------------- slots */
#define NS 8
enum { ABSENT = 0, MAT = 1, VEC = 2, TEN = 3 };
typedef struct { int kind; matrix *m; dvector *v; tensor *t; int e; int ru[80], cu[80]; } slot;   /* value = mantissa * 2^(e + ru[i] + cu[j]) */
static slot S[NS];
static vrng G;
static int TIER = 0;
static long n_hist = 0, n_calls = 0;

/* ---------------------------------------------------------------- JSON buffer */
static char *jb = NULL; static size_t jlen = 0, jcap = 0;
static void jput(const char *fmt, ...){
  va_list ap;
  for(;;){
    va_start(ap, fmt);
    int w = vsnprintf(jb ? jb + jlen : NULL, jb ? jcap - jlen : 0, fmt, ap);
    va_end(ap);
    if(jb && (size_t)w < jcap - jlen){ jlen += w; return; }
    jcap = (jcap ? jcap * 2 : 1 << 16) + w; jb = realloc(jb, jcap);
  }
}
static void jflush(void){ VRT_EMIT("%s", jb); jlen = 0; jb[0] = 0; }

/* ---------------------------------------------------------------- mantissas */
static int inexact = 0;
/* exact mantissa of x in unit 2^e (flags inexact when x is not a multiple of the unit or does not fit) */
static long mant(double x, int e){
  double y = ldexp(x, -e);
  if(!vfinite(y) || fabs(y) > 1.9e9){ inexact = 1; return y > 0 ? 1999999999L : (y < 0 ? -1999999999L : 1999999998L); }
  double ry = nearbyint(y);
  if(ry != y) inexact = 1;
  return (long)ry;
}
/* x rounded to sh fractional bits of unit 2^e */
static long mant_round(double x, int e, int sh){
  double y = ldexp(x, sh - e);
  if(!vfinite(y) || fabs(y) > 1.9e9){ inexact = 1; return y > 0 ? 1999999999L : (y < 0 ? -1999999999L : 1999999998L); }
  return (long)llround(y);
}
/* "row":..,"col":..,"d":[[..]] of a slot; sh < 0: exact mantissas, else rounded with sh fractional bits */
static void j_obj(slot *s, int sh){
  if(s->kind == MAT){
    jput("\"row\":%zu,\"col\":%zu,\"d\":[", s->m->row, s->m->col);
    for(size_t i = 0; i < s->m->row; i++){
      jput("%s[", i ? "," : "");
      for(size_t j = 0; j < s->m->col; j++){
        int u = s->e + s->ru[i < 80 ? i : 79] + s->cu[j < 80 ? j : 79];
        jput("%s%ld", j ? "," : "", sh < 0 ? mant(s->m->data[i][j], u) : mant_round(s->m->data[i][j], u, sh));
      }
      jput("]");
    }
    jput("]");
  }
  else if(s->kind == VEC){
    jput("\"row\":%zu,\"col\":1,\"d\":[", s->v->size);
    for(size_t i = 0; i < s->v->size; i++){
      int u = s->e + s->ru[i < 80 ? i : 79];
      jput("%s[%ld]", i ? "," : "", sh < 0 ? mant(s->v->data[i], u) : mant_round(s->v->data[i], u, sh));
    }
    jput("]");
  }
  else if(s->kind == TEN){
    size_t c = s->t->order ? s->t->m[0]->col : 0;
    jput("\"row\":%zu,\"col\":%zu,\"d\":[", s->t->order, c);
    for(size_t k = 0; k < s->t->order; k++){
      jput("%s[", k ? "," : "");
      for(size_t i = 0; i < s->t->m[k]->row; i++){
        jput("%s[", i ? "," : "");
        for(size_t j = 0; j < s->t->m[k]->col; j++) jput("%s%ld", j ? "," : "", mant(s->t->m[k]->data[i][j], s->e));
        jput("]");
      }
      jput("]");
    }
    jput("]");
  }
  else jput("\"row\":-1,\"col\":-1,\"d\":[]");
}
static void units_clear(slot *s){ memset(s->ru, 0, sizeof s->ru); memset(s->cu, 0, sizeof s->cu); }
static void emit_put(int i, const char *how){
  inexact = 0;
  jput("{\"e\":\"Put\",\"s\":%d,\"t\":\"%s\",\"how\":\"%s\",", i, S[i].kind == MAT ? "m" : (S[i].kind == VEC ? "v" : "t"), how);
  j_obj(&S[i], -1);
  jput("}");
  if(inexact){ fprintf(stderr, "c11_hist: a Put operand is not exact (harness bug)\n"); exit(2); }
  jflush();
}
static void s_free(int i, int emit){
  if(S[i].kind == MAT) DelMatrix(&S[i].m);
  else if(S[i].kind == VEC) DelDVector(&S[i].v);
  else if(S[i].kind == TEN) DelTensor(&S[i].t);
  else return;
  S[i].kind = ABSENT; S[i].m = NULL; S[i].v = NULL; S[i].t = NULL;
  if(emit) VRT_EMIT("{\"e\":\"Free\",\"s\":%d}", i);
}
static void reset_all(void){ for(int i = 0; i < NS; i++) s_free(i, 0); VRT_EMIT("{\"e\":\"Reset\"}"); n_hist++; }

/* ---------------------------------------------------------------- current call, for crash reports */
static struct { const char *fn; int h; const char *om, *im; char cls[256]; int live; } cur;
static void crash_line(void){
  if(vrt_out && cur.live){
    fprintf(vrt_out, "{\"e\":\"Crash\",\"fn\":\"%s\",\"h\":%d,\"om\":\"%s\",\"im\":\"%s\",\"cls\":[%s]}\n", cur.fn, cur.h, cur.om, cur.im, cur.cls);
    fflush(vrt_out);
  }
}
static void on_signal(int sig){ crash_line(); _exit(128 + sig); }
#if defined(__has_feature)
#if __has_feature(address_sanitizer)
void __sanitizer_set_death_callback(void (*cb)(void));
#define HAVE_DEATH_CB 1
#endif
#endif

/* ---------------------------------------------------------------- value generators */
enum { G_SMALL, G_WIDE, G_TIES, G_COLDIV, G_ROWDIV, G_POS, G_DUPROW, G_DUPCOL, G_CONSTCOL, G_SORTED, G_REVSORTED, G_ALLEQ, G_ZERO };
static long WIDE = 1000;                 /* bound of the wide-mantissa fill, set per history from the inner dimension */
static long gen_val(int g){
  switch(g){
    case G_WIDE: { long x = vr_int(&G, -WIDE, WIDE); return (x % 2 == 0 && x != 0) ? x + (x > 0 ? -1 : 1) : x; }   /* odd: every low bit matters */
    case G_TIES: return vr_int(&G, -1, 1);
    case G_POS: return vr_int(&G, 1, 6);
    case G_ZERO: return 0;
    default: return vr_int(&G, -5, 5);
  }
}
static double val_at(slot *s, long mantissa, size_t i, size_t j){ return ldexp((double)mantissa, s->e + s->ru[i < 80 ? i : 79] + s->cu[j < 80 ? j : 79]); }
static void fill_mat(slot *s, int g){
  matrix *m = s->m; size_t r = m->row, c = m->col;
  long *a = malloc(sizeof(long) * (r * c + 1));
  for(size_t i = 0; i < r; i++) for(size_t j = 0; j < c; j++) a[i * c + j] = gen_val(g);
  if(g == G_COLDIV && r >= 1) for(size_t j = 0; j < c; j++){ long sum = 0; for(size_t i = 0; i < r; i++) sum += a[i * c + j]; long md = ((sum % (long)r) + (long)r) % (long)r; a[(r - 1) * c + j] -= md; }
  if(g == G_ROWDIV && c >= 1) for(size_t i = 0; i < r; i++){ long sum = 0; for(size_t j = 0; j < c; j++) sum += a[i * c + j]; long md = ((sum % (long)c) + (long)c) % (long)c; a[i * c + c - 1] -= md; }
  if(g == G_DUPROW && r >= 2) for(size_t j = 0; j < c; j++) a[(r - 1) * c + j] = a[j];                 /* last row = first row */
  if(g == G_DUPCOL && c >= 2) for(size_t i = 0; i < r; i++) a[i * c + c - 1] = a[i * c];                /* last column = first column */
  if(g == G_CONSTCOL && c >= 1) for(size_t i = 0; i < r; i++) a[i * c + (c / 2)] = 3;                   /* a constant column among informative ones */
  if(g == G_ALLEQ) for(size_t i = 0; i < r; i++) for(size_t j = 0; j < c; j++) if(j == 0) a[i * c + j] = 2;   /* constant first column (every key ties) */
  if(g == G_SORTED || g == G_REVSORTED) for(size_t i = 0; i < r; i++) for(size_t j = 0; j < c; j++) a[i * c + j] = (g == G_SORTED ? (long)i / 2 : -(long)i / 2) + (j ? gen_val(G_SMALL) : 0);
  for(size_t i = 0; i < r; i++) for(size_t j = 0; j < c; j++) m->data[i][j] = val_at(s, a[i * c + j], i, j);
  free(a);
}
static void fill_vec(slot *s, int g){
  dvector *v = s->v; size_t n = v->size;
  long sum = 0;
  for(size_t i = 0; i < n; i++){ long x = gen_val(g); if(g == G_COLDIV && i == n - 1){ long md = (((sum + x) % (long)n) + (long)n) % (long)n; x -= md; } sum += x; v->data[i] = val_at(s, x, i, 0); }
}
static void junk_mat(matrix *m, int e){ for(size_t i = 0; i < m->row; i++) for(size_t j = 0; j < m->col; j++) m->data[i][j] = ldexp((double)(7 + (long)((3 * i + 5 * j) % 4)), e); }
static void junk_vec(dvector *v, int e){ for(size_t i = 0; i < v->size; i++) v->data[i] = ldexp((double)(7 + (long)(i % 3)), e); }

/* place a matrix / vector in slot i.  how: "new" (delete + allocate), "inplace" (same object, cells overwritten; needs the same shape),
   "resize" (the library's ResizeMatrix / DVectorResize, then filled) */
static void put_mat(int i, size_t r, size_t c, int e, int g, const char *how){
  if(S[i].kind != MAT || (!strcmp(how, "inplace") && (S[i].m->row != r || S[i].m->col != c))) how = "new";
  if(!strcmp(how, "new")){ s_free(i, 0); NewMatrix(&S[i].m, r, c); S[i].kind = MAT; }
  else if(!strcmp(how, "resize")) ResizeMatrix(S[i].m, r, c);
  S[i].e = e;
  if(g >= 0) fill_mat(&S[i], g);
  emit_put(i, how);
}
static void put_vec(int i, size_t n, int e, int g, const char *how){
  if(S[i].kind != VEC || (!strcmp(how, "inplace") && S[i].v->size != n)) how = "new";
  if(!strcmp(how, "new")){ s_free(i, 0); NewDVector(&S[i].v, n); S[i].kind = VEC; }
  else if(!strcmp(how, "resize")) DVectorResize(S[i].v, n);
  S[i].e = e;
  if(g >= 0) fill_vec(&S[i], g);
  emit_put(i, how);
}

/* ---------------------------------------------------------------- class tags */
static char CLS[256];
static void cls_reset(void){ CLS[0] = 0; }
static void cls_add(const char *t){ if(strstr(CLS, t)) return; size_t n = strlen(CLS); snprintf(CLS + n, sizeof(CLS) - n, "%s\"%s\"", n ? "," : "", t); }
static void cls_shape(size_t r, size_t c){
  if(r == 0 || c == 0) cls_add("K1:empty");
  else if(r == 1 && c == 1) cls_add("K1:1x1");
  else if(r == 1) cls_add("K1:single-row");
  else if(c == 1) cls_add("K1:single-col");
  else if(r == c) cls_add("K1:square");
  else if(r + 1 == c || c + 1 == r) cls_add(r > c ? "K1:tall-by-1" : "K1:wide-by-1");
  else cls_add(r > c ? "K1:tall" : "K1:wide");
}
static void cls_block(size_t n){
  if(n >= 3 && (n % 4 == 0)) cls_add("K2:mult4"); else if(n >= 3 && (n % 4 == 1)) cls_add("K2:mult4+1"); else if(n >= 3 && (n % 4 == 3)) cls_add("K2:mult4-1");
  if(n == 15 || n == 16 || n == 17) cls_add("K2:around16");
  if(n == 31 || n == 32 || n == 33) cls_add("K2:around32");
  if(n == 63 || n == 64 || n == 65) cls_add("K2:around64");
}
static void cls_scale(int e){ cls_add(e < 0 ? "K4:scale2^-19" : (e > 0 ? "K4:scale2^17" : "K4:unit")); }

/* ---------------------------------------------------------------- calls */
typedef struct { const char *fn; int nin; int in[3]; int out; int key; int np; int h; const char *om, *im; int miss; } callrec;
static int pick_sh(double maxabs, double den, double cap){
  /* largest sh with maxabs * 2^sh * den <= 2^29 (and maxabs * 2^sh <= cap), at most 24 */
  int sh = 0;
  if(maxabs < 1e-300) maxabs = 1e-300;
  while(sh < 24 && ldexp(maxabs, sh + 1) * den <= 536870912.0 && ldexp(maxabs, sh + 1) <= cap) sh++;
  return sh;
}
static int pick_sh_sqrt(double maxabs, double den){
  int sh = 0;
  if(maxabs < 1e-300) maxabs = 1e-300;
  while(sh < 15 && (ldexp(maxabs, sh + 1) + 2.0) * (ldexp(maxabs, sh + 1) + 2.0) * den <= 536870912.0 && ldexp(maxabs, sh + 1) <= 30000.0) sh++;
  return sh;
}
static void emit_call(callrec *q, int sh, const int *ua, const int *ub, int nu){
  inexact = 0;
  jput("{\"e\":\"%s\",\"fn\":\"%s\",\"in\":[", q->miss ? "CallM" : "Call", q->fn);
  for(int i = 0; i < q->nin; i++) jput("%s%d", i ? "," : "", q->in[i]);
  jput("],\"out\":%d,\"h\":%d,\"om\":\"%s\",\"im\":\"%s\",\"cls\":[%s],\"key\":%d,\"np\":%d,\"sh\":%d,\"pc\":%d,", q->out, q->h, q->om, q->im, CLS, q->key, q->np, sh < 0 ? 0 : sh, strcmp(q->om, "append") ? 1 : 0);
  if(ua){ jput("\"ua\":["); for(int i = 0; i < nu; i++) jput("%s%d", i ? "," : "", ua[i]); jput("],\"ub\":["); for(int i = 0; i < nu; i++) jput("%s%d", i ? "," : "", ub[i]); jput("],"); }
  j_obj(&S[q->out], sh);
  jput(",\"exact\":%d}", inexact ? 0 : 1);
  jflush();
  n_calls++;
}
static void begin_call(callrec *q){ cur.fn = q->fn; cur.h = q->h; cur.om = q->om; cur.im = q->im; snprintf(cur.cls, sizeof cur.cls, "%s", CLS); cur.live = 1; }
static void end_call(void){ cur.live = 0; }

/* scalar result into a fresh 1 x 1 matrix in slot o */
static void put_scalar(int o, double x, int e){ s_free(o, 0); NewMatrix(&S[o].m, 1, 1); S[o].kind = MAT; S[o].e = e; units_clear(&S[o]); S[o].m->data[0][0] = x; }
static double maxabs_of(slot *s){
  double mx = 0.0;
  if(s->kind == MAT) for(size_t i = 0; i < s->m->row; i++) for(size_t j = 0; j < s->m->col; j++){ double a = fabs(ldexp(s->m->data[i][j], -s->e)); if(a > mx && vfinite(a)) mx = a; }
  if(s->kind == VEC) for(size_t i = 0; i < s->v->size; i++){ double a = fabs(ldexp(s->v->data[i], -s->e)); if(a > mx && vfinite(a)) mx = a; }
  return mx;
}

/* run library function q->fn on the slots; the output slot must have been prepared by the caller (except scalars) */
static void do_call(callrec *q){
  const char *fn = q->fn; slot *a = &S[q->in[0]], *b = q->nin > 1 ? &S[q->in[1]] : NULL, *o = &S[q->out];
  int sh = -1, nu = 0; int ua[80], ub[80]; int have_u = 0;
  begin_call(q);
  if(!strncmp(fn, "MatrixDotProduct", 16)){
    if(!strcmp(fn, "MatrixDotProduct_")) MatrixDotProduct_(a->m, b->m, o->m);                                   /* the plain loop, any inner dimension */
    else if(!strcmp(fn, "MatrixDotProduct_LOOP_UNROLLING")) MatrixDotProduct_LOOP_UNROLLING(a->m, b->m, o->m);   /* the unrolled loop, inner dimension >= 4 */
    else MatrixDotProduct(a->m, b->m, o->m);
    o->e = a->e + b->e; units_clear(o); memcpy(o->ru, a->ru, sizeof o->ru); memcpy(o->cu, b->cu, sizeof o->cu);
    nu = (int)a->m->col; for(int k = 0; k < nu && k < 80; k++){ ua[k] = a->cu[k]; ub[k] = b->ru[k]; } have_u = 1;
  }
  else if(!strcmp(fn, "MatrixDVectorDotProduct") || !strcmp(fn, "MT_MatrixDVectorDotProduct")){
    if(fn[1] == 'T'){ vrt_force_nproc((size_t)q->np); MT_MatrixDVectorDotProduct(a->m, b->v, o->v); vrt_force_nproc(1); }
    else MatrixDVectorDotProduct(a->m, b->v, o->v);
    o->e = a->e + b->e; units_clear(o); memcpy(o->ru, a->ru, sizeof o->ru);
    nu = (int)a->m->col; for(int k = 0; k < nu && k < 80; k++){ ua[k] = a->cu[k]; ub[k] = b->ru[k]; } have_u = 1;
  }
  else if(!strcmp(fn, "DVectorMatrixDotProduct") || !strcmp(fn, "MT_DVectorMatrixDotProduct")){
    if(fn[1] == 'T'){ vrt_force_nproc((size_t)q->np); MT_DVectorMatrixDotProduct(a->m, b->v, o->v); vrt_force_nproc(1); }
    else DVectorMatrixDotProduct(a->m, b->v, o->v);
    o->e = a->e + b->e; units_clear(o); memcpy(o->ru, a->cu, sizeof o->ru);         /* result entry j carries the unit of column j */
    nu = (int)a->m->row; for(int k = 0; k < nu && k < 80; k++){ ua[k] = a->ru[k]; ub[k] = b->ru[k]; } have_u = 1;
  }
  else if(!strcmp(fn, "RowColOuterProduct") || !strcmp(fn, "DVectorTrasposedDVectorDotProduct")){
    if(fn[0] == 'R') RowColOuterProduct(a->v, b->v, o->m); else DVectorTrasposedDVectorDotProduct(a->v, b->v, o->m);
    o->e = a->e + b->e; units_clear(o); memcpy(o->ru, a->ru, sizeof o->ru); memcpy(o->cu, b->ru, sizeof o->cu);
  }
  else if(!strcmp(fn, "MatrixTranspose")){
    MatrixTranspose(a->m, o->m);
    o->e = a->e; units_clear(o); memcpy(o->ru, a->cu, sizeof o->ru); memcpy(o->cu, a->ru, sizeof o->cu);
  }
  else if(!strcmp(fn, "MatrixTrace")){ double x = MatrixTrace(a->m); put_scalar(q->out, x, a->e); }
  else if(!strcmp(fn, "Matrixnorm")){ double x = Matrixnorm(a->m); put_scalar(q->out, x, a->e); sh = pick_sh_sqrt(ldexp(fabs(x), -a->e), 1.0); }
  else if(!strcmp(fn, "DVectorDVectorDotProd")){ double x = DVectorDVectorDotProd(a->v, b->v); put_scalar(q->out, x, a->e + b->e); }
  else if(!strcmp(fn, "DvectorModule")){ double x = DvectorModule(a->v); put_scalar(q->out, x, a->e); sh = pick_sh_sqrt(ldexp(fabs(x), -a->e), 1.0); }
  else if(!strcmp(fn, "DVectorMean")){ double x = 0; DVectorMean(a->v, &x); put_scalar(q->out, x, a->e); sh = pick_sh(ldexp(fabs(x), -a->e) + 1.0, (double)a->v->size, 1e9); }
  else if(!strcmp(fn, "DVectorSDEV")){ double x = 0; DVectorSDEV(a->v, &x); put_scalar(q->out, x, a->e); sh = pick_sh_sqrt(ldexp(fabs(x), -a->e), (double)a->v->size * (double)a->v->size); }
  else if(!strcmp(fn, "MatrixColAverage") || !strcmp(fn, "MatrixRowAverage") || !strcmp(fn, "MatrixColVar") || !strcmp(fn, "MatrixColSDEV") || !strcmp(fn, "MatrixColRMS")){
    double n = (double)a->m->row, den = n; int deg = 1, sq = 0;
    if(!strcmp(fn, "MatrixColAverage")) MatrixColAverage(a->m, o->v);
    else if(!strcmp(fn, "MatrixRowAverage")){ MatrixRowAverage(a->m, o->v); den = (double)a->m->col; }
    else if(!strcmp(fn, "MatrixColVar")){ MatrixColVar(a->m, o->v); den = n * (n - 1.0); deg = 2; }
    else if(!strcmp(fn, "MatrixColSDEV")){ MatrixColSDEV(a->m, o->v); den = n * (n - 1.0); sq = 1; }
    else { MatrixColRMS(a->m, o->v); sq = 1; }
    o->e = a->e * deg; units_clear(o);
    double mx = maxabs_of(o);
    sh = sq ? pick_sh_sqrt(mx, den) : pick_sh(mx + 1.0, den, 1e9);
  }
  else if(!strcmp(fn, "MatrixCovariance")){
    MatrixCovariance(a->m, o->m);
    o->e = 2 * a->e; units_clear(o);
    double n = (double)a->m->row;
    sh = pick_sh(maxabs_of(o) + 1.0, n * (n - 1.0), 30000.0);
  }
  else if(!strcmp(fn, "TransposedTensorDVectorProduct")){ TransposedTensorDVectorProduct(a->t, b->v, o->m); o->e = a->e + b->e; units_clear(o); }
  else if(!strcmp(fn, "DvectorTensorDotProduct")){ DvectorTensorDotProduct(a->t, b->v, o->m); o->e = a->e + b->e; units_clear(o); }
  else if(!strcmp(fn, "TensorMatrixDotProduct")){ TensorMatrixDotProduct(a->t, b->m, o->v); o->e = a->e + b->e; units_clear(o); }
  else if(!strcmp(fn, "MatrixSort")) MatrixSort(a->m, (size_t)(q->key - 1));
  else if(!strcmp(fn, "MatrixReverseSort")) MatrixReverseSort(a->m, (size_t)(q->key - 1));
  else { fprintf(stderr, "c11_hist: unknown function %s\n", fn); exit(2); }
  end_call();
  emit_call(q, sh, have_u ? ua : NULL, ub, nu);
}

/* ---------------------------------------------------------------- shapes */
typedef struct { size_t r, k, c; } shp;
static const int EXPS[3] = { 0, -19, 17 };
static const int NPS[6] = { 2, 3, 5, 16, 24, 1 };

/* per-row / per-column units (K4): exponents in -9..8 so that every value stays inside 1e-6 .. 1e6 */
static void rand_units(int *u, size_t n, int lo, int hi){ for(size_t i = 0; i < n && i < 80; i++) u[i] = (int)vr_int(&G, lo, hi); }

/* inner units: term k of every sum in unit 2^t_k, t_k in {0, 8, 20}, split evenly between the two factors */
static void inner_units(int *ua, int *ub, size_t n){
  static const int T[3] = { 0, 8, 20 };
  for(size_t k = 0; k < n && k < 80; k++){ int t = T[vr_int(&G, 0, 2)]; ua[k] = t / 2; ub[k] = t - t / 2; }
}

/* ---------------------------------------------------------------- histories */
/* Slots: 0, 1 operands; 2 third operand; 3 output; 4..7 law temporaries */
enum { ACC, OVW, RSZ, APP };
typedef struct { const char *fn; int ctr; int a_kind, b_kind; int outk; int gen; } kdesc;
/* operand shapes from (r,k,c):  MatrixDotProduct A r x k, B k x c -> r x c;  MatVec M r x c, v c -> r;  VecMat M r x c, v r -> c;
   Outer a r, b c -> r x c;  Transpose M r x c -> c x r;  stats M r x c;  Covariance M r x c -> c x c */
static void shape_of(const char *fn, shp s, size_t *ar, size_t *ac, size_t *bn, size_t *orow, size_t *ocol){
  *ar = s.r; *ac = s.c; *bn = 0; *orow = 0; *ocol = 0;
  if(!strncmp(fn, "MatrixDotProduct", 16)){ *ar = s.r; *ac = s.k; *orow = s.r; *ocol = s.c; }
  else if(strstr(fn, "MatrixDVectorDotProduct")){ *bn = s.c; *orow = s.r; *ocol = 1; }
  else if(strstr(fn, "DVectorMatrixDotProduct")){ *bn = s.r; *orow = s.c; *ocol = 1; }
  else if(!strcmp(fn, "RowColOuterProduct") || !strcmp(fn, "DVectorTrasposedDVectorDotProduct")){ *orow = s.r; *ocol = s.c; }
  else if(!strcmp(fn, "MatrixTranspose")){ *orow = s.c; *ocol = s.r; }
  else if(!strcmp(fn, "MatrixCovariance")){ *orow = s.c; *ocol = s.c; }
  else if(!strcmp(fn, "MatrixRowAverage")){ *orow = s.r; *ocol = 1; }
  else { *orow = s.c; *ocol = 1; }
}
static int ctr_of(const char *fn){
  if(!strncmp(fn, "MatrixDotProduct", 16) || strstr(fn, "MatrixDVectorDotProduct") || strstr(fn, "DVectorMatrixDotProduct")) return ACC;
  if(!strcmp(fn, "RowColOuterProduct") || !strcmp(fn, "MatrixTranspose")) return OVW;
  if(!strcmp(fn, "DVectorTrasposedDVectorDotProduct") || !strcmp(fn, "MatrixCovariance")) return RSZ;
  return APP;
}
static int is_outer(const char *fn){ return !strcmp(fn, "RowColOuterProduct") || !strcmp(fn, "DVectorTrasposedDVectorDotProduct"); }
static int out_is_vec(const char *fn){ return strstr(fn, "MatrixDVectorDotProduct") || strstr(fn, "DVectorMatrixDotProduct") || ctr_of(fn) == APP; }

/* prepare the operands of one step */
static void prep_inputs(const char *fn, shp s, int e, int g, const char *im, int mixed){
  size_t ar, ac, bn, orow, ocol; shape_of(fn, s, &ar, &ac, &bn, &orow, &ocol);
  if(is_outer(fn)){
    for(int i = 0; i < 2; i++){ units_clear(&S[i]); }
    if(mixed){ rand_units(S[0].ru, s.r, -9, 8); rand_units(S[1].ru, s.c, -9, 8); cls_add("K4:mixed-outer-units"); }
    put_vec(0, s.r, e, g, im); put_vec(1, s.c, e, g, im);
    return;
  }
  units_clear(&S[0]); units_clear(&S[1]);
  if(!strncmp(fn, "MatrixDotProduct", 16)){
    if(mixed){                                  /* term k in unit 2^t, t in {0, 8, 20}: one sum mixes magnitudes 1 : 2^20 and stays exact; outer units free */
      inner_units(S[0].cu, S[1].ru, s.k);
      rand_units(S[0].ru, s.r, -5, 4); rand_units(S[1].cu, s.c, -5, 4);
      cls_add("K4:mixed-inner-units");
    }
    put_mat(0, s.r, s.k, e, g, im); put_mat(1, s.k, s.c, e, g, im);
    return;
  }
  if(strstr(fn, "MatrixDVectorDotProduct")){
    if(mixed){ inner_units(S[0].cu, S[1].ru, s.c); rand_units(S[0].ru, s.r, -5, 4); cls_add("K4:mixed-inner-units"); }
    put_mat(0, s.r, s.c, e, g, im); put_vec(1, s.c, e, g, im);
    return;
  }
  if(strstr(fn, "DVectorMatrixDotProduct")){
    if(mixed){ inner_units(S[0].ru, S[1].ru, s.r); rand_units(S[0].cu, s.c, -5, 4); cls_add("K4:mixed-inner-units"); }
    put_mat(0, s.r, s.c, e, g, im); put_vec(1, s.r, e, g, im);
    return;
  }
  if(!strcmp(fn, "MatrixTranspose") && mixed){ rand_units(S[0].ru, s.r, -9, 8); rand_units(S[0].cu, s.c, -9, 8); cls_add("K4:mixed-outer-units"); }
  put_mat(0, s.r, s.c, e, g, im);
}

/* prepare the output slot 3 of one step; om: fresh | rezero | resize | stale | junk | misshaped | append */
static void prep_output(const char *fn, shp s, shp other, int e_out, const char *om){
  size_t ar, ac, bn, orow, ocol; shape_of(fn, s, &ar, &ac, &bn, &orow, &ocol);
  size_t xr, xc; { size_t t1, t2, t3; shape_of(fn, other, &t1, &t2, &t3, &xr, &xc); }
  int ctr = ctr_of(fn), vec = out_is_vec(fn);
  units_clear(&S[3]);
  if(!strcmp(om, "fresh")){
    s_free(3, 1);
    if(vec){ if(ctr == APP) initDVector(&S[3].v); else NewDVector(&S[3].v, orow); S[3].kind = VEC; }
    else { if(ctr == RSZ) initMatrix(&S[3].m); else NewMatrix(&S[3].m, orow, ocol); S[3].kind = MAT; }
    S[3].e = e_out; emit_put(3, "fresh");
  }
  else if(!strcmp(om, "rezero")){            /* the same object, zeroed through the library's setter */
    if(vec) DVectorSet(S[3].v, 0.0); else MatrixSet(S[3].m, 0.0);
    S[3].e = e_out; emit_put(3, "rezero");
  }
  else if(!strcmp(om, "resize")){            /* the same object, resized by the library (zero-fills) */
    if(vec) DVectorResize(S[3].v, orow); else ResizeMatrix(S[3].m, orow, ocol);
    S[3].e = e_out; emit_put(3, "resize");
  }
  else if(!strcmp(om, "stale")){             /* the object of the previous call, same shape, now holding other data */
    if(vec) junk_vec(S[3].v, e_out); else junk_mat(S[3].m, e_out);
    S[3].e = e_out; emit_put(3, "stale");
  }
  else if(!strcmp(om, "junk")){              /* right shape, other data */
    if(vec){ if(S[3].kind != VEC){ s_free(3, 1); NewDVector(&S[3].v, orow); S[3].kind = VEC; } else if(S[3].v->size != orow) DVectorResize(S[3].v, orow); junk_vec(S[3].v, e_out); }
    else { if(S[3].kind != MAT){ s_free(3, 1); NewMatrix(&S[3].m, orow, ocol); S[3].kind = MAT; } else if(S[3].m->row != orow || S[3].m->col != ocol) ResizeMatrix(S[3].m, orow, ocol); junk_mat(S[3].m, e_out); }
    S[3].e = e_out; emit_put(3, "junk");
  }
  else if(!strcmp(om, "misshaped")){         /* sized for ANOTHER call (shape `other`) and holding its data */
    if(S[3].kind != MAT){ s_free(3, 1); NewMatrix(&S[3].m, xr, xc); S[3].kind = MAT; } else if(S[3].m->row != xr || S[3].m->col != xc) ResizeMatrix(S[3].m, xr, xc);
    junk_mat(S[3].m, e_out); S[3].e = e_out; emit_put(3, "misshaped");
  }
  else if(!strcmp(om, "append")){            /* a non-empty vector (appending kernels): Impl layer only */
    s_free(3, 1); NewDVector(&S[3].v, 2); S[3].kind = VEC; junk_vec(S[3].v, e_out);
    S[3].e = e_out; emit_put(3, "append");
  }
}

static int deg_of(const char *fn){ return (!strcmp(fn, "MatrixColVar") || !strcmp(fn, "MatrixCovariance")) ? 2 : ((ctr_of(fn) == APP || !strcmp(fn, "MatrixTranspose")) ? 1 : 2); }

/* one history of kernel fn: shapes A, A (other data, in place), B (library resize), A again (fresh objects) */
static void history(const char *fn, shp A, shp B, int e, int g, int mixed, int npbase){
  int ctr = ctr_of(fn);
  static const char *OM[4][4] = {
    /* ACC */ { "fresh", "rezero", "resize", "fresh" },
    /* OVW */ { "fresh", "stale", "junk", "junk" },
    /* RSZ */ { "fresh", "stale", "misshaped", "misshaped" },
    /* APP */ { "fresh", "fresh", "fresh", "append" } };
  static const char *IM[4] = { "new", "inplace", "resize", "new" };
  reset_all();
  uint64_t seed0 = G.s;
  for(int h = 0; h < 4; h++){
    shp s = (h == 2) ? B : A, prev = (h == 2) ? A : B;
    uint64_t keep = G.s;
    if(h == 3) G.s = seed0;                                           /* the first data again */
    cls_reset();
    size_t ar, ac, bn, orow, ocol; shape_of(fn, s, &ar, &ac, &bn, &orow, &ocol);
    cls_shape(ar, ac); cls_scale(e);
    if(!strncmp(fn, "MatrixDotProduct", 16)) cls_block(s.k); else if(strstr(fn, "MatrixDVectorDotProduct")) cls_block(s.c); else cls_block(s.r);
    if(g == G_WIDE) cls_add("K4:wide-mantissa"); if(g == G_DUPROW) cls_add("K8:duplicate-rows"); if(g == G_DUPCOL) cls_add("K8:duplicate-cols"); if(g == G_CONSTCOL) cls_add("K8:constant-col");
    if(g == G_TIES) cls_add("K8:ties");
    const char *om = OM[ctr][h], *im = IM[h];
    if(h == 1) cls_add("K7:same-shape-other-data"); if(h == 2) cls_add("K7:other-shape"); if(h == 3) cls_add("K7:first-again");
    if(strcmp(om, "fresh")){ char t[48]; snprintf(t, sizeof t, "K7:out-%s", om); cls_add(t); }
    if(!strcmp(im, "inplace")) cls_add("K7:in-place-same-address");
    int np = 1;
    if(fn[0] == 'M' && fn[1] == 'T'){
      np = NPS[(npbase + h) % 6]; char t[32]; snprintf(t, sizeof t, "K6:nproc%d", np); cls_add(t);
      size_t n = strstr(fn, "MatrixDVector") ? s.r : s.c;
      if((size_t)np > n) cls_add("K6:empty-slices"); else if(n % (size_t)np) cls_add("K6:not-dividing"); else cls_add("K6:dividing");
    }
    WIDE = 1; while((double)(WIDE * 2) * (double)(WIDE * 2) * (double)((!strncmp(fn, "MatrixDotProduct", 16) ? s.k : (s.r > s.c ? s.r : s.c)) + 1) < 536870912.0 && WIDE < 8192) WIDE *= 2;
    WIDE -= 1;
    prep_inputs(fn, s, e, g, im, mixed);
    prep_output(fn, s, prev, deg_of(fn) * e, om);
    callrec q = { fn, is_outer(fn) || !strncmp(fn, "MatrixDotProduct", 16) || strstr(fn, "DotProduct") ? 2 : 1, { 0, 1, 2 }, 3, 0, np, h, om, im, 0 };
    if(!strcmp(fn, "MatrixTranspose") || ctr == APP || !strcmp(fn, "MatrixCovariance")) q.nin = 1;
    do_call(&q);
    if(h == 3) G.s = keep + 0x9E3779B97F4A7C15ULL;
    if(!strcmp(fn, "MatrixCovariance")){
      cls_add("LAW:CovSymPSD");
      VRT_EMIT("{\"e\":\"Law\",\"law\":\"CovSymPSD\",\"s\":[3],\"cls\":[%s]}", CLS);
    }
  }
}

/* the product laws on the code's own results: (AB)' = B'A', A(B+C) = AB + AC, (M')' = M */
static void law_history(shp s, int e, int g){
  reset_all(); cls_reset(); cls_shape(s.r, s.k); cls_scale(e); cls_block(s.k); cls_add("LAW:ProductTranspose");
  for(int i = 0; i < NS; i++) units_clear(&S[i]);
  WIDE = 63;
  put_mat(0, s.r, s.k, e, g, "new"); put_mat(1, s.k, s.c, e, g, "new");
  put_mat(3, s.r, s.c, 2 * e, -1, "new");
  callrec q = { "MatrixDotProduct", 2, { 0, 1, 0 }, 3, 0, 1, 0, "fresh", "new", 0 }; do_call(&q);                 /* 3 = AB */
  put_mat(4, s.k, s.r, e, -1, "new"); callrec t1 = { "MatrixTranspose", 1, { 0, 0, 0 }, 4, 0, 1, 1, "fresh", "new", 0 }; do_call(&t1);   /* 4 = A' */
  put_mat(5, s.c, s.k, e, -1, "new"); callrec t2 = { "MatrixTranspose", 1, { 1, 0, 0 }, 5, 0, 1, 2, "fresh", "new", 0 }; do_call(&t2);   /* 5 = B' */
  put_mat(6, s.c, s.r, 2 * e, -1, "new"); callrec p2 = { "MatrixDotProduct", 2, { 5, 4, 0 }, 6, 0, 1, 3, "fresh", "new", 0 }; do_call(&p2);  /* 6 = B'A' */
  put_mat(7, s.c, s.r, 2 * e, -1, "new"); callrec t3 = { "MatrixTranspose", 1, { 3, 0, 0 }, 7, 0, 1, 4, "fresh", "new", 0 }; do_call(&t3);  /* 7 = (AB)' */
  VRT_EMIT("{\"e\":\"Law\",\"law\":\"ProductTranspose\",\"s\":[7,6],\"cls\":[%s]}", CLS);
  /* involution: transpose 4 (= A') back into a junk-filled object */
  cls_reset(); cls_shape(s.r, s.k); cls_scale(e); cls_add("LAW:Involution"); cls_add("K7:out-junk");
  s_free(5, 1); NewMatrix(&S[5].m, s.r, s.k); S[5].kind = MAT; S[5].e = e; junk_mat(S[5].m, e); emit_put(5, "junk");
  callrec t4 = { "MatrixTranspose", 1, { 4, 0, 0 }, 5, 0, 1, 5, "junk", "new", 0 }; do_call(&t4);
  VRT_EMIT("{\"e\":\"Law\",\"law\":\"Involution\",\"s\":[5,0],\"cls\":[%s]}", CLS);
  /* distributive: C in slot 2, B + C in slot 4 (formed here: integer mantissas add exactly), A(B+C) in 5, AC in 6 */
  cls_reset(); cls_shape(s.r, s.k); cls_scale(e); cls_block(s.k); cls_add("LAW:Distributive");
  put_mat(2, s.k, s.c, e, g, "new");
  s_free(4, 1); NewMatrix(&S[4].m, s.k, s.c); S[4].kind = MAT; S[4].e = e;
  for(size_t i = 0; i < s.k; i++) for(size_t j = 0; j < s.c; j++) S[4].m->data[i][j] = S[1].m->data[i][j] + S[2].m->data[i][j];
  emit_put(4, "new");
  put_mat(5, s.r, s.c, 2 * e, -1, "new"); callrec d1 = { "MatrixDotProduct", 2, { 0, 4, 0 }, 5, 0, 1, 6, "fresh", "new", 0 }; do_call(&d1);
  put_mat(6, s.r, s.c, 2 * e, -1, "new"); callrec d2 = { "MatrixDotProduct", 2, { 0, 2, 0 }, 6, 0, 1, 7, "fresh", "new", 0 }; do_call(&d2);
  VRT_EMIT("{\"e\":\"Law\",\"law\":\"Distributive\",\"s\":[5,3,6],\"cls\":[%s]}", CLS);
}

/* K7 aliasing: the same object as both operands (A A for a square A, v . v, v v') */
static void alias_history(size_t n, int e, int g){
  reset_all();
  for(int i = 0; i < NS; i++) units_clear(&S[i]);
  WIDE = 1; while((double)(WIDE * 2) * (double)(WIDE * 2) * (double)(n + 1) < 536870912.0 && WIDE < 8192) WIDE *= 2;
  WIDE -= 1;
  cls_reset(); cls_shape(n, n); cls_scale(e); cls_block(n); cls_add("K7:aliased-operands"); if(g == G_WIDE) cls_add("K4:wide-mantissa");
  put_mat(0, n, n, e, g, "new"); put_mat(3, n, n, 2 * e, -1, "new");
  callrec q = { "MatrixDotProduct", 2, { 0, 0, 0 }, 3, 0, 1, 0, "fresh", "new", 0 }; do_call(&q);
  put_vec(1, n, e, g, "new");
  s_free(4, 1); NewMatrix(&S[4].m, 1, 1); S[4].kind = MAT; S[4].e = 2 * e; emit_put(4, "fresh");
  callrec d = { "DVectorDVectorDotProd", 2, { 1, 1, 0 }, 4, 0, 1, 1, "fresh", "new", 0 }; do_call(&d);
  s_free(5, 1); NewMatrix(&S[5].m, n, n); S[5].kind = MAT; S[5].e = 2 * e; junk_mat(S[5].m, 2 * e); emit_put(5, "junk");
  cls_add("K7:out-junk");
  callrec o = { "RowColOuterProduct", 2, { 1, 1, 0 }, 5, 0, 1, 2, "junk", "new", 0 }; do_call(&o);
}

/* scalar-returning kernels, several calls on objects rewritten in place */
static void scalar_history(const char *fn, size_t n, size_t n2, int e, int g){
  reset_all();
  uint64_t seed0 = G.s;
  static const char *IM[4] = { "new", "inplace", "resize", "new" };
  for(int h = 0; h < 4; h++){
    size_t m = (h == 2) ? n2 : n;
    if(h == 3) G.s = seed0;
    cls_reset(); cls_scale(e); cls_block(m);
    if(g == G_WIDE) cls_add("K4:wide-mantissa"); if(g == G_ZERO) cls_add("K8:zero-operand");
    if(h == 1) cls_add("K7:same-shape-other-data"); if(h == 2) cls_add("K7:other-shape"); if(h == 3) cls_add("K7:first-again");
    if(h == 1) cls_add("K7:in-place-same-address");
    double cells = !strcmp(fn, "Matrixnorm") ? (double)(m + 1) * (double)(m + 1) : (double)(m + 1);
    WIDE = 1; while((double)(WIDE * 2) * (double)(WIDE * 2) * cells < 268435456.0 && WIDE < 8192) WIDE *= 2;
    WIDE -= 1;
    units_clear(&S[0]); units_clear(&S[1]);
    int two = !strcmp(fn, "DVectorDVectorDotProd");
    if(!strcmp(fn, "MatrixTrace")){ cls_shape(m, m); put_mat(0, m, m, e, g, IM[h]); }
    else if(!strcmp(fn, "Matrixnorm")){ size_t c = (h % 2) ? m + 1 : (m > 1 ? m - 1 : m); cls_shape(m, c); put_mat(0, m, c, e, g, IM[h]); }
    else { cls_shape(m, 1); put_vec(0, m, e, g, IM[h]); if(two) put_vec(1, m, e, g, IM[h]); }
    callrec q = { fn, two ? 2 : 1, { 0, 1, 0 }, 3, 0, 1, h, "fresh", IM[h], 0 };
    s_free(3, 1); NewMatrix(&S[3].m, 1, 1); S[3].kind = MAT; S[3].e = e; S[3].m->data[0][0] = ldexp(7.0, e); emit_put(3, "junk");
    do_call(&q);
  }
}

/* sorting: K8 (ties, duplicates, constant key), already sorted / reverse sorted input, n = 0, 1, 2 */
static void sort_history(size_t r, size_t c, int key, int e, int g){
  reset_all(); units_clear(&S[0]);
  for(int h = 0; h < 4; h++){
    cls_reset(); cls_shape(r, c); cls_scale(e);
    if(r <= 2){ char t[24]; snprintf(t, sizeof t, "K8:n=%zu", r); cls_add(t); }
    if(g == G_TIES) cls_add("K8:ties"); if(g == G_ALLEQ) cls_add("K8:constant-key"); if(g == G_DUPROW) cls_add("K8:duplicate-rows");
    if(g == G_SORTED) cls_add("K8:already-sorted"); if(g == G_REVSORTED) cls_add("K8:reverse-sorted");
    const char *fn = (h == 0 || h == 1) ? "MatrixSort" : "MatrixReverseSort";
    const char *im = "new";
    if(h == 0) put_mat(0, r, c, e, g, "new");
    if(h == 1){ cls_add("K8:already-sorted"); im = "inplace"; emit_put(0, "stale"); }              /* sort the sorted matrix again */
    if(h == 2){ cls_add("K8:reverse-sorted"); im = "inplace"; emit_put(0, "stale"); }              /* reverse sort of an ascending matrix */
    if(h == 3){ cls_add("K8:already-sorted"); im = "inplace"; emit_put(0, "stale"); }              /* reverse sort of a descending matrix */
    callrec q = { fn, 1, { 0, 0, 0 }, 0, key, 1, h, "inplace", im, 0 };
    do_call(&q);
  }
  /* ascending sort of the descending result */
  cls_reset(); cls_shape(r, c); cls_scale(e); cls_add("K8:reverse-sorted");
  emit_put(0, "stale");
  callrec q = { "MatrixSort", 1, { 0, 0, 0 }, 0, key, 1, 4, "inplace", "inplace", 0 }; do_call(&q);
}

/* tensor contractions: 1..4 slices, slices of different row counts where the kernel allows it */
static void tensor_history(const char *fn, size_t order, size_t r, size_t c, int e, int g, int ragged){
  reset_all();
  for(int h = 0; h < 3; h++){
    cls_reset(); cls_scale(e); { char t[24]; snprintf(t, sizeof t, "K1:slices%zu", order); cls_add(t); }
    size_t rr = (h == 1) ? r + 1 : r, cc = (h == 2) ? (c > 1 ? c - 1 : c + 1) : c;
    cls_shape(rr, cc); cls_block(cc);
    if(ragged && strcmp(fn, "DvectorTensorDotProduct")) cls_add("K1:slices-of-different-shapes");
    if(g == G_WIDE) cls_add("K4:wide-mantissa");
    if(h == 1) cls_add("K7:other-shape"); if(h == 2) cls_add("K7:other-shape");
    WIDE = 1; while((double)(WIDE * 2) * (double)(WIDE * 2) * (double)(cc * order + rr + 1) < 536870912.0 && WIDE < 8192) WIDE *= 2;
    WIDE -= 1;
    s_free(0, 1); NewTensor(&S[0].t, order); S[0].kind = TEN; S[0].e = e; units_clear(&S[0]);
    size_t rmax = 0;
    for(size_t k = 0; k < order; k++){
      size_t rk = (ragged && strcmp(fn, "DvectorTensorDotProduct")) ? (rr + k) % (rr + 2) : rr;
      if(rk > rmax) rmax = rk;
      NewTensorMatrix(S[0].t, k, rk, cc);
      for(size_t i = 0; i < rk; i++) for(size_t j = 0; j < cc; j++) S[0].t->m[k]->data[i][j] = ldexp((double)gen_val(g), e);
    }
    emit_put(0, "new");
    units_clear(&S[1]);
    const char *om = h == 0 ? "fresh" : (h == 1 ? "resize" : "fresh");
    if(!strcmp(fn, "TransposedTensorDVectorProduct")){
      put_vec(1, cc, e, g, h ? "resize" : "new");
      if(h == 1 && S[3].kind == MAT){ ResizeMatrix(S[3].m, order, rmax); S[3].e = 2 * e; units_clear(&S[3]); emit_put(3, "resize"); } else { put_mat(3, order, rmax, 2 * e, -1, "new"); om = "fresh"; }
    }
    else if(!strcmp(fn, "DvectorTensorDotProduct")){
      put_vec(1, rr, e, g, h ? "resize" : "new");
      if(h == 1 && S[3].kind == MAT){ ResizeMatrix(S[3].m, cc, order); S[3].e = 2 * e; units_clear(&S[3]); emit_put(3, "resize"); } else { put_mat(3, cc, order, 2 * e, -1, "new"); om = "fresh"; }
    }
    else{
      put_mat(1, cc, order, e, g, h ? "resize" : "new");
      if(h == 1 && S[3].kind == VEC){ DVectorResize(S[3].v, rmax); S[3].e = 2 * e; units_clear(&S[3]); emit_put(3, "resize"); } else { put_vec(3, rmax, 2 * e, -1, "new"); om = "fresh"; }
    }
    if(strcmp(om, "fresh")) cls_add("K7:out-resize");
    callrec q = { fn, 2, { 0, 1, 0 }, 3, 0, 1, h, om, h ? "resize" : "new", 0 };
    do_call(&q);
  }
}

/* K9 (EXTRA layer): operands holding the MISSING code in the first row, the last row, both */
static void miss_history(const char *fn, shp s, int where){
  reset_all(); cls_reset(); cls_shape(s.r, s.c);
  cls_add(where == 0 ? "K9:missing-first-row" : (where == 1 ? "K9:missing-last-row" : "K9:missing-first-and-last"));
  size_t ar, ac, bn, orow, ocol; shape_of(fn, s, &ar, &ac, &bn, &orow, &ocol);
  prep_inputs(fn, s, 0, G_SMALL, "new", 0);
  /* plant the code */
  if(S[0].kind == MAT){
    matrix *m = S[0].m;
    for(size_t j = 0; j < m->col; j++){
      if(j % 2 == 0 && m->row >= 1 && where != 1) m->data[0][j] = MISSING;
      if(j % 2 == 0 && m->row >= 1 && where != 0) m->data[m->row - 1][j] = MISSING;
    }
    if(!strcmp(fn, "MatrixRowAverage") && m->col >= 1){ for(size_t i = 0; i < m->row; i++){ if(where != 1) m->data[i][0] = (i % 2 == 0) ? MISSING : m->data[i][0]; if(where != 0) m->data[i][m->col - 1] = (i % 2 == 0) ? MISSING : m->data[i][m->col - 1]; } }
    emit_put(0, "inplace");
  }
  if(S[0].kind == VEC && S[0].v->size >= 1){ if(where != 1) S[0].v->data[0] = MISSING; if(where != 0) S[0].v->data[S[0].v->size - 1] = MISSING; emit_put(0, "inplace"); }
  if(S[1].kind == VEC && S[1].v->size >= 2 && where == 2){ S[1].v->data[S[1].v->size - 1] = MISSING; emit_put(1, "inplace"); }
  shp none = { 0, 0, 0 };
  prep_output(fn, s, none, 0, "fresh");
  callrec q = { fn, (ctr_of(fn) == APP) ? 1 : 2, { 0, 1, 0 }, 3, 0, 1, 0, "fresh", "new", 1 };
  if(fn[0] == 'M' && fn[1] == 'T') q.np = 3;
  do_call(&q);
}
static void miss_scalar(const char *fn, size_t n, int where){
  reset_all(); cls_reset(); cls_shape(n, 1);
  cls_add(where == 0 ? "K9:missing-first-row" : (where == 1 ? "K9:missing-last-row" : "K9:missing-first-and-last"));
  units_clear(&S[0]); units_clear(&S[1]);
  put_vec(0, n, 0, G_SMALL, "new"); int two = !strcmp(fn, "DVectorDVectorDotProd"); if(two) put_vec(1, n, 0, G_SMALL, "new");
  if(where != 1) S[0].v->data[0] = MISSING; if(where != 0) S[two ? 1 : 0].v->data[n - 1] = MISSING;
  emit_put(0, "inplace"); if(two) emit_put(1, "inplace");
  s_free(3, 1); NewMatrix(&S[3].m, 1, 1); S[3].kind = MAT; S[3].e = 0; emit_put(3, "fresh");
  callrec q = { fn, two ? 2 : 1, { 0, 1, 0 }, 3, 0, 1, 0, "fresh", "new", 1 };
  do_call(&q);
}

/* run fn(arg) in a forked child when the call may die in the sanitizer (self-sizing outputs handed a mis-shaped object) */
typedef struct { const char *fn; shp A, B; int e, g, mixed, np; } hargs;
static int hist_child(void *p){ hargs *a = p; history(a->fn, a->A, a->B, a->e, a->g, a->mixed, a->np); return 0; }
static void history_guarded(const char *fn, shp A, shp B, int e, int g, int mixed, int np){
  if(ctr_of(fn) != RSZ){ history(fn, A, B, e, g, mixed, np); return; }
  hargs a = { fn, A, B, e, g, mixed, np };
  uint64_t s0 = G.s;
  int rc = vrt_run_child(hist_child, &a, 120);
  G.s = s0 + 0x9E3779B97F4A7C15ULL * 64;
  n_hist++; n_calls += 4;
  if(rc == 124){ VRT_EMIT("{\"e\":\"Crash\",\"fn\":\"%s\",\"h\":-1,\"om\":\"timeout\",\"im\":\"\",\"cls\":[]}", fn); }
  /* any other non-zero status: the child's death callback already wrote its Crash line */
  if(rc != 0 && rc != 124) VRT_EMIT("{\"e\":\"ChildExit\",\"fn\":\"%s\",\"rc\":%d}", fn, rc);
}

/* ---------------------------------------------------------------- groups */
static const shp QA[] = { {3,5,2}, {2,4,5}, {5,3,5}, {4,7,3}, {1,6,4}, {6,9,1}, {1,1,1}, {0,3,2}, {3,0,2}, {2,3,0}, {5,16,4}, {4,17,5}, {17,2,16}, {16,3,17}, {2,15,3}, {7,8,6}, {3,3,3}, {9,13,2}, {33,2,3}, {3,2,33}, {2,33,2}, {18,5,20} };
static const shp TA[] = { {3,31,2}, {2,32,3}, {3,33,2}, {2,63,2}, {1,64,3}, {2,65,2}, {33,4,3}, {3,5,33}, {65,2,2}, {2,3,65}, {32,6,31}, {64,1,3}, {12,12,12}, {17,17,17}, {11,10,9}, {8,14,13} };
static shp alt_shape(shp a, int variant){
  shp b = a;
  switch(variant % 6){
    case 0: b.c = a.c + 1; break;                       /* one dimension kept, the other grows */
    case 1: b.r = a.r + 2; break;
    case 2: b.r = a.c; b.c = a.r; b.k = a.k + 1; break; /* transposed relation */
    case 3: b.r = a.r > 1 ? a.r - 1 : a.r + 1; b.c = a.c + 2; b.k = a.k > 4 ? a.k - 3 : a.k + 4; break;
    case 4: b.c = a.c > 1 ? a.c - 1 : a.c + 1; break;   /* one dimension kept, the other shrinks (an output that is too LARGE) */
    default: b.r = a.r > 1 ? a.r - 1 : a.r + 1; b.k = a.k + 2; break;
  }
  return b;
}

static void group_kernels(const char **fns, int nf, int stats){
  int v = 0;
  for(int f = 0; f < nf; f++){
    const char *fn = fns[f];
    int nq = (int)(sizeof QA / sizeof QA[0]), nt = TIER ? (int)(sizeof TA / sizeof TA[0]) : 0;
    int reps = TIER ? 8 : 1;
    for(int rep = 0; rep < reps; rep++)
    for(int i = 0; i < nq + nt; i++){
      shp A = i < nq ? QA[i] : TA[i - nq];
      if(stats){
        if((!strcmp(fn, "MatrixColVar") || !strcmp(fn, "MatrixColSDEV") || !strcmp(fn, "MatrixCovariance")) && A.r < 2) A.r += 2;
        if(A.r < 1) A.r = 1;
        if(!strcmp(fn, "MatrixRowAverage") && A.c < 1) A.c = 1;
        if(!strcmp(fn, "MatrixCovariance") && A.c > 17) A.c = 17;
      }
      if(!strcmp(fn, "MatrixDotProduct_LOOP_UNROLLING") && A.k < 4) A.k += 4;
      shp B = alt_shape(A, v);
      if(!strcmp(fn, "MatrixDotProduct_LOOP_UNROLLING") && B.k < 4) B.k += 4;
      if(stats && B.r < 2) B.r = 2;
      int e = EXPS[(v + rep) % 3];
      int g;
      if(stats){ static const int GS[5] = { G_SMALL, G_COLDIV, G_DUPCOL, G_CONSTCOL, G_DUPROW }; g = GS[(v + rep) % 5]; if(!strcmp(fn, "MatrixRowAverage") && g == G_COLDIV) g = G_ROWDIV; }
      else { static const int GP[4] = { G_WIDE, G_SMALL, G_WIDE, G_TIES }; g = GP[(v + rep) % 4]; }
      int mixed = !stats && e == 0 && (((v + rep) / 3) % 2 == 0);
      if((mixed || e > 0) && g == G_WIDE) g = G_SMALL;
      history_guarded(fn, A, B, e, g, mixed, v);
      v++;
    }
  }
}

int main(int argc, char **argv){
  if(argc < 5){ fprintf(stderr, "usage: c11_hist out.ndjson group seed tier\n"); return 2; }
  const char *group = argv[2];
  G.s = (uint64_t)atoll(argv[3]) * 0x9E3779B97F4A7C15ULL + 12345; TIER = atoi(argv[4]);
  for(const char *p = group; *p; p++) G.s = G.s * 131 + (unsigned char)*p;
  vrt_open(argv[1]);
  signal(SIGABRT, on_signal); signal(SIGFPE, on_signal);
#ifdef HAVE_DEATH_CB
  __sanitizer_set_death_callback(crash_line);
#else
  signal(SIGSEGV, on_signal); signal(SIGBUS, on_signal);
#endif
  vrt_force_nproc(1);
  jput("%s", ""); jlen = 0;
  if(!strcmp(group, "prod")){
    const char *f[] = { "MatrixDotProduct", "MatrixDotProduct_", "MatrixDotProduct_LOOP_UNROLLING" }; group_kernels(f, 3, 0);
    int nq = (int)(sizeof QA / sizeof QA[0]);
    { static const size_t AN[] = { 1, 2, 3, 4, 5, 8, 9, 16, 17 }; for(int i = 0; i < 9; i++) alias_history(AN[i], EXPS[i % 3], (i % 2 && EXPS[i % 3] <= 0) ? G_WIDE : G_SMALL); }
    for(int i = 0; i < nq + (TIER ? (int)(sizeof TA / sizeof TA[0]) : 0); i++){ shp s = i < nq ? QA[i] : TA[i - nq]; law_history(s, EXPS[i % 3], ((i % 2) || EXPS[i % 3] > 0) ? G_SMALL : G_WIDE); }
  }
  else if(!strcmp(group, "mv")){ const char *f[] = { "MatrixDVectorDotProduct", "DVectorMatrixDotProduct" }; group_kernels(f, 2, 0); }
  else if(!strcmp(group, "mt")){ const char *f[] = { "MT_MatrixDVectorDotProduct", "MT_DVectorMatrixDotProduct" }; group_kernels(f, 2, 0); }
  else if(!strcmp(group, "outer")){ const char *f[] = { "RowColOuterProduct", "MatrixTranspose" }; group_kernels(f, 2, 0); }
  else if(!strcmp(group, "outer2")){ const char *f[] = { "DVectorTrasposedDVectorDotProduct" }; group_kernels(f, 1, 0); }
  else if(!strcmp(group, "stats")){ const char *f[] = { "MatrixColAverage", "MatrixRowAverage", "MatrixColVar", "MatrixColSDEV", "MatrixColRMS" }; group_kernels(f, 5, 1); }
  else if(!strcmp(group, "cov")){ const char *f[] = { "MatrixCovariance" }; group_kernels(f, 1, 1); }
  else if(!strcmp(group, "scalar")){
    const char *f[] = { "MatrixTrace", "Matrixnorm", "DVectorDVectorDotProd", "DvectorModule", "DVectorMean", "DVectorSDEV" };
    static const size_t NSZ[] = { 1, 2, 3, 4, 5, 7, 8, 9, 15, 16, 17, 0 }, TSZ[] = { 31, 32, 33, 63, 64, 65 };
    int v = 0;
    for(int fi = 0; fi < 6; fi++) for(int i = 0; i < 12 + (TIER ? 6 : 0); i++){
      size_t n = i < 12 ? NSZ[i] : TSZ[i - 12];
      int needs1 = !strcmp(f[fi], "DVectorMean") || !strcmp(f[fi], "DVectorSDEV");
      if(n == 0 && needs1) continue;
      if(fi <= 1 && n > 17 && fi == 0) n = n;       /* trace: n x n up to 65 is fine */
      int stat = fi >= 4;
      if((fi == 1 || fi == 3) && i % 4 == 2){ scalar_history(f[fi], n, n + 1, EXPS[v % 3], G_ZERO); v++; continue; }      /* K8: the zero matrix / vector has norm 0 */
      scalar_history(f[fi], n, n + 1 + (v % 3), EXPS[v % 3], stat ? ((v % 2) ? G_COLDIV : G_SMALL) : (((v % 2) && EXPS[v % 3] <= 0) ? G_WIDE : G_SMALL));
      v++;
    }
  }
  else if(!strcmp(group, "sort")){
    static const int GS[] = { G_SMALL, G_TIES, G_ALLEQ, G_DUPROW, G_SORTED, G_REVSORTED };
    static const size_t RS[] = { 0, 1, 2, 3, 4, 5, 7, 8, 9, 12, 16, 17, 18, 20, 24, 33 };
    static const size_t CS[] = { 1, 2, 3, 4, 5, 8, 9, 17 };
    int v = 0;
    for(int gi = 0; gi < 6; gi++) for(int ri = 0; ri < 16; ri++){
      if(!TIER && ri >= 6 && (ri + gi) % 2) continue;
      size_t c = CS[v % 8]; int key = 1 + ((v / 8 + v) % (int)c);
      sort_history(RS[ri], c, key, EXPS[v % 3], GS[gi]); v++;
    }
    if(TIER) for(int gi = 0; gi < 6; gi++){ sort_history(33, 3, 2, 0, GS[gi]); sort_history(64, 2, 1, -19, GS[gi]); }
  }
  else if(!strcmp(group, "tensor")){
    const char *f[] = { "TransposedTensorDVectorProduct", "DvectorTensorDotProduct", "TensorMatrixDotProduct" };
    static const size_t RC[][2] = { {2,3}, {3,2}, {1,4}, {4,1}, {3,3}, {0,2}, {2,0}, {5,4}, {2,5}, {4,7}, {3,8}, {2,9}, {16,3}, {3,17} };
    int v = 0;
    for(int fi = 0; fi < 3; fi++) for(size_t order = 1; order <= 4; order++) for(int i = 0; i < 14; i++){
      if(!TIER && (i + (int)order) % 2) continue;
      tensor_history(f[fi], order, RC[i][0], RC[i][1], EXPS[v % 3], ((v % 2) && EXPS[v % 3] <= 0) ? G_WIDE : G_SMALL, v % 3 != 0); v++;
    }
  }
  else if(!strcmp(group, "miss")){
    const char *f[] = { "MatrixDVectorDotProduct", "DVectorMatrixDotProduct", "MT_MatrixDVectorDotProduct", "MT_DVectorMatrixDotProduct", "RowColOuterProduct",
                        "DVectorTrasposedDVectorDotProduct", "MatrixColAverage", "MatrixRowAverage", "MatrixColVar", "MatrixColSDEV", "MatrixColRMS" };
    static const shp MS[] = { {4,0,3}, {5,0,5}, {3,0,6}, {7,0,2}, {6,0,1} };
    for(int fi = 0; fi < 11; fi++) for(int i = 0; i < 5; i++) for(int w = 0; w < 3; w++){
      shp s = MS[i]; if(fi >= 6 && w == 2 && s.r < 5) s.r = 5;       /* statistics keep >= 2 entries per column */
      if(!strcmp(f[fi], "MatrixRowAverage") && s.c < 3) s.c = 4;
      miss_history(f[fi], s, w);
    }
    for(int w = 0; w < 3; w++) for(size_t n = 3; n <= 6; n++){ miss_scalar("DVectorDVectorDotProd", n, w); miss_scalar("DvectorModule", n, w); }
  }
  else { fprintf(stderr, "c11_hist: unknown group %s\n", group); return 2; }
  VRT_EMIT("{\"e\":\"Done\",\"group\":\"%s\",\"hist\":%ld,\"calls\":%ld}", group, n_hist, n_calls);
  vrt_close();
  return 0;
}
