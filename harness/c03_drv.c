/* c03_drv.c - conformance driver for C03 (PLS structural identities, every X / Y / scaling / LV count).
 * usage: c03_drv <out.ndjson> <seed> <first> <count>
 * Every case is generated from its own stream (seed, index), fitted by the real PLS() in a child process (one processor,
 * NIPALS iteration budget, watchdog) and projected onto the ledger of spec/Pls.tla.  All numbers are integers:
 * residuals in units of 1e-12 (saturating at 2e9), table cells of integer-valued cases in units of 1e-6.
 *   Reset{case,tries}
 *   Fit{n,p,ny,nlv,xs,ys,noise,intc,cond}
 *   Lv{a,tortho,wortho,recon,reproj, pnorm,qnorm,udefl,binner}      (last four: implementation-shaped layer)
 *   Col{a,j,col,found,recalcErr,allErr}     found = column of recalculated_y that really holds (a,j), located by value
 *   Resid{a,j,col,against,residErr}         against = response the stored residual column was really taken against
 *   Tab{n,ny,nlv,y,rec,res}                 integer-valued cases: the three tables, so that TLC recomputes rec - y itself
 *   End{lvs,cols,full,xfull}
 *   Skip{case} (no admissible draw) / Abort{case,rc} (child died: budget 97, watchdog 124, signal 1000+n)
 */
#include "scientific.h"
#include "verif_rt.h"
#include "pls_common.h"

static unsigned long g_seed;

static void draw_params(pc_case *c, int *nlv, vrng *r, long idx){
  c->intcase = (idx % 5 == 4);
  if(c->intcase){
    c->n = (int)vr_int(r, 6, 9); c->p = (int)vr_int(r, 2, 3); c->ny = (int)vr_int(r, 2, 3);
    c->noise = (int)vr_int(r, 0, 2); *nlv = (int)vr_int(r, 2, c->p);
  } else {
    c->n = (int)vr_int(r, 6, 40);
    int pmax = c->n - 2 < 12 ? c->n - 2 : 12;
    c->p = (int)vr_int(r, 1, pmax);
    c->ny = (int)vr_int(r, 1, 4);
    c->noise = (int)vr_int(r, 0, 3);
    *nlv = (idx % 3 == 0) ? c->p : (int)vr_int(r, 1, c->p);
  }
  c->xs = (int)vr_int(r, -1, 5); c->ys = (int)vr_int(r, -1, 5);
  c->nnew = 0;
}

static void emit_table(char *buf, size_t cap, int *pp, const char *name, double **M, int rows, int cols){
  int p = *pp;
  p += snprintf(buf + p, cap - p, ",\"%s\":[", name);
  for(int i = 0; i < rows; i++){
    p += snprintf(buf + p, cap - p, "%s[", i ? "," : "");
    for(int j = 0; j < cols; j++) p += snprintf(buf + p, cap - p, "%s%ld", j ? "," : "", vqs_unit(M[i][j], 1e-6));
    p += snprintf(buf + p, cap - p, "]");
  }
  p += snprintf(buf + p, cap - p, "]");
  *pp = p;
}

static int one_case(void *arg){
  long idx = *(long *)arg;
  vrng r = pc_stream(g_seed, (unsigned long)idx, 3);
  pc_case c; int nlv = 1, tries = 0, ok = 0; double cond = 0;
  for(tries = 1; tries <= 30; tries++){
    draw_params(&c, &nlv, &r, idx);
    if(c.intcase) pc_gen_int(&c, &r, 5, 20);
    else {
      int norm = (c.xs == 1 || c.xs == 2 || c.xs == 4 || c.xs == 5);
      pc_gen_real(&c, &r, norm ? -1.0 : 0.0, norm ? 2.0 : 1.0, c.xs == -1 ? 0.5 : 4.0, c.ys == -1 ? 0.5 : 5.0);
    }
    if(pc_admit(&c, 1e3, &cond)){ ok = 1; break; }
    pc_case_free(&c);
  }
  if(!ok){ VRT_EMIT("{\"e\":\"Skip\",\"case\":%ld}", idx); return 0; }
  int n = c.n, p = c.p, ny = c.ny;
  VRT_EMIT("{\"e\":\"Reset\",\"case\":%ld,\"tries\":%d}", idx, tries);
  VRT_EMIT("{\"e\":\"Fit\",\"n\":%d,\"p\":%d,\"ny\":%d,\"nlv\":%d,\"xs\":%d,\"ys\":%d,\"noise\":%d,\"intc\":%d,\"cond\":%ld}",
           n, p, ny, nlv, c.xs, c.ys, c.noise, c.intcase, (long)ceil(cond));

  PLSMODEL *m; NewPLSModel(&m);
  PLS(c.X, c.Y, (size_t)nlv, c.xs, c.ys, m, NULL);

  /* shapes the rest of the projection relies on; a wrong shape is reported as an unmatched event */
  if(m->xscores->row != (size_t)n || m->xscores->col != (size_t)nlv || m->xloadings->row != (size_t)p || m->xweights->col != (size_t)nlv ||
     m->yloadings->row != (size_t)ny || m->b->size != (size_t)nlv || m->recalculated_y->row != (size_t)n || m->recalculated_y->col != (size_t)(ny * nlv) ||
     m->recalc_residuals->row != (size_t)n || m->recalc_residuals->col != (size_t)(ny * nlv)){
    VRT_EMIT("{\"e\":\"Shape\",\"trow\":%zu,\"tcol\":%zu,\"reccol\":%zu,\"rescol\":%zu,\"b\":%zu}", m->xscores->row, m->xscores->col, m->recalculated_y->col, m->recalc_residuals->col, m->b->size);
    return 0;
  }
  double **T = m->xscores->data, **P = m->xloadings->data, **W = m->xweights->data, **U = m->yscores->data, **Q = m->yloadings->data;
  double *B = m->b->data;

  /* harness's own preprocessing from the stored centring / scaling vectors */
  double **E = pc_alloc(n, p), **F = pc_alloc(n, ny);
  double e0 = 0;
  for(int i = 0; i < n; i++) for(int j = 0; j < p; j++){ E[i][j] = pc_prep(c.X->data[i][j], m->xcolaverage, m->xcolscaling, j); e0 += E[i][j] * E[i][j]; }
  for(int i = 0; i < n; i++) for(int j = 0; j < ny; j++) F[i][j] = pc_prep(c.Y->data[i][j], m->ycolaverage, m->ycolscaling, j);
  e0 = sqrt(e0);

  matrix *ps; initMatrix(&ps); PLSScorePredictor(c.X, m, (size_t)nlv, ps);
  matrix *all; initMatrix(&all); PLSYPredictorAllLV(c.X, m, NULL, all);

  for(int a = 0; a < nlv; a++){
    double nt = pc_colnorm(T, a, n), nw = pc_colnorm(W, a, p);
    double tortho = 0, wortho = 0;
    for(int k = 0; k < a; k++){
      double d = fabs(pc_coldot(T, k, T, a, n)) / (pc_colnorm(T, k, n) * nt); if(!(d <= tortho)) tortho = d;
      double e = fabs(pc_coldot(W, k, W, a, p)) / (pc_colnorm(W, k, p) * nw); if(!(e <= wortho)) wortho = e;
    }
    /* implementation-shaped: u_a = F_{a-1} q_a / q'q on the DEFLATED response block, |p| = 1, |q| = 1, b = u't / t't */
    double qq = 0; for(int j = 0; j < ny; j++) qq += Q[j][a] * Q[j][a];
    double du = 0, nu = 0;
    for(int i = 0; i < n; i++){ double v = 0; for(int j = 0; j < ny; j++) v += F[i][j] * Q[j][a]; v /= qq; du += (v - U[i][a]) * (v - U[i][a]); nu += U[i][a] * U[i][a]; }
    double udefl = sqrt(du) / sqrt(nu);
    double pnorm = fabs(pc_colnorm(P, a, p) - 1.0), qnorm = fabs(sqrt(qq) - 1.0);
    double binner = fabs(B[a] - pc_coldot(U, a, T, a, n) / (nt * nt)) / (fabs(B[a]) > 1e-300 ? fabs(B[a]) : 1e-300);
    /* deflate */
    for(int i = 0; i < n; i++) for(int j = 0; j < p; j++) E[i][j] -= T[i][a] * P[j][a];
    for(int i = 0; i < n; i++) for(int j = 0; j < ny; j++) F[i][j] -= B[a] * T[i][a] * Q[j][a];
    /* preprocessed X = T P' + E_a with E_a orthogonal to every extracted score (the decomposition is a projection) */
    double recon = 0;
    for(int k = 0; k <= a; k++){
      double s2 = 0;
      for(int j = 0; j < p; j++){ double v = 0; for(int i = 0; i < n; i++) v += E[i][j] * T[i][k]; s2 += v * v; }
      double d = sqrt(s2) / (pc_colnorm(T, k, n) * e0); if(!(d <= recon)) recon = d;
    }
    double rp = 0; for(int i = 0; i < n; i++){ double d = ps->data[i][a] - T[i][a]; rp += d * d; }
    double reproj = (ps->row == (size_t)n && ps->col == (size_t)nlv) ? sqrt(rp) / nt : NAN;
    VRT_EMIT("{\"e\":\"Lv\",\"a\":%d,\"tortho\":%ld,\"wortho\":%ld,\"recon\":%ld,\"reproj\":%ld,\"pnorm\":%ld,\"qnorm\":%ld,\"udefl\":%ld,\"binner\":%ld}",
             a + 1, pc_q12("tortho", tortho), pc_q12("wortho", wortho), pc_q12("recon", recon), pc_q12("reproj", reproj), pc_q12("pnorm", pnorm), pc_q12("qnorm", qnorm), pc_q12("udefl", udefl), pc_q12("binner", binner));
  }
  double xfull = 0; for(int i = 0; i < n; i++) for(int j = 0; j < p; j++) xfull += E[i][j] * E[i][j];
  xfull = sqrt(xfull) / e0;

  /* recalculated responses and residual columns */
  double **R = m->recalculated_y->data, **S = m->recalc_residuals->data;
  double *fit = malloc(sizeof(double) * n);
  int ncol = ny * nlv;
  for(int a = 1; a <= nlv; a++) for(int j = 0; j < ny; j++){
    int col = ny * (a - 1) + j;
    double yn = pc_colcnorm(c.Y->data, j, n);
    for(int i = 0; i < n; i++){ double v = 0; for(int k = 0; k < a; k++) v += B[k] * T[i][k] * Q[j][k]; fit[i] = pc_back(v, m->ycolaverage, m->ycolscaling, j); }
    double best = -1; int found = col;
    double errc = 0;
    for(int cc = 0; cc < ncol; cc++){
      double d = 0; for(int i = 0; i < n; i++) d += (R[i][cc] - fit[i]) * (R[i][cc] - fit[i]);
      d = sqrt(d) / yn;
      if(cc == col) errc = d;
      if(best < 0 || d < best){ best = d; found = cc; }
    }
    if(errc <= 1e-9 || !(best < errc)) found = col;
    double da = 0;
    int allok = (all->row == (size_t)n && all->col == (size_t)ncol);
    if(allok) for(int i = 0; i < n; i++) da += (all->data[i][col] - R[i][col]) * (all->data[i][col] - R[i][col]);
    VRT_EMIT("{\"e\":\"Col\",\"a\":%d,\"j\":%d,\"col\":%d,\"found\":%d,\"recalcErr\":%ld,\"allErr\":%ld}", a, j, col, found, pc_q12("recalcErr", errc), allok ? pc_q12("allErr", sqrt(da) / yn) : VQ_MAX);
    /* residual column = recalculated column - the SAME response */
    double rbest = -1, rown = 0; int against = j;
    for(int jj = 0; jj < ny; jj++){
      double d = 0; for(int i = 0; i < n; i++){ double v = S[i][col] - (R[i][col] - c.Y->data[i][jj]); d += v * v; }
      d = sqrt(d) / yn;
      if(jj == j) rown = d;
      if(rbest < 0 || d < rbest){ rbest = d; against = jj; }
    }
    if(rown <= 1e-9 || !(rbest < rown)) against = j;
    VRT_EMIT("{\"e\":\"Resid\",\"a\":%d,\"j\":%d,\"col\":%d,\"against\":%d,\"residErr\":%ld}", a, j, col, against, pc_q12("residErr", rown));
  }
  if(c.intcase){
    static char buf[262144]; int q = 0;
    q += snprintf(buf + q, sizeof(buf) - q, "{\"e\":\"Tab\",\"n\":%d,\"ny\":%d,\"nlv\":%d", n, ny, nlv);
    emit_table(buf, sizeof(buf), &q, "y", c.Y->data, n, ny);
    emit_table(buf, sizeof(buf), &q, "rec", R, n, ncol);
    emit_table(buf, sizeof(buf), &q, "res", S, n, ncol);
    q += snprintf(buf + q, sizeof(buf) - q, "}");
    VRT_EMIT("%s", buf);
  }
  VRT_EMIT("{\"e\":\"End\",\"lvs\":%d,\"cols\":%d,\"full\":%d,\"xfull\":%ld}", nlv, ncol, nlv == p ? 1 : 0, nlv == p ? pc_q12("xfull", xfull) : 0L);
  pc_max_print();
  free(fit); pc_free(E, n); pc_free(F, n);
  DelMatrix(&ps); DelMatrix(&all); DelPLSModel(&m); pc_case_free(&c);
  return 0;
}

int main(int argc, char **argv){
  if(argc < 5){ fprintf(stderr, "usage: c03_drv out seed first count\n"); return 2; }
  vrt_open(argv[1]);
  g_seed = strtoul(argv[2], 0, 10);
  long first = atol(argv[3]), count = atol(argv[4]);
  vrt_force_nproc(1);
  vrt_install_iter_budget(20000, 0);
  for(long idx = first; idx < first + count; idx++){
    int rc = vrt_run_child(one_case, &idx, 60);
    if(rc != 0) VRT_EMIT("{\"e\":\"Abort\",\"case\":%ld,\"rc\":%d}", idx, rc);
  }
  vrt_close();
  return 0;
}
