/* c03_drv.c - conformance driver for C03 (PLS structural identities, every X / Y / scaling / LV count).
 * usage: c03_drv <out.ndjson> <seed> <first> <count>
 * Every case is generated from its own stream (seed, index), fitted by the real PLS() in a child process (one processor,
 * NIPALS iteration budget, watchdog) and projected onto the ledger of spec/Pls.tla.  All numbers are integers:
 * residuals in units of 1e-12 (saturating at 2e9), table cells of integer-valued cases in units of 1e-6.
 *
 * The case index selects the input class (idx % 16, table KD_SCHED): the original tall problems, the shape relations
 * n = p+1 / n = p / n = p-1 / n < p-1 with up to rank = min(p, n-1 | n) latent variables, block-size boundaries, large
 * offsets, whole-block magnitudes, tied non-representable values, degenerate-but-admissible data, and in-process histories
 * (fit A, fit A' of the same shape with other data, fit B of another shape, fit A again in ONE process; predictor outputs that already hold other data).
 *
 *   Reset{case,tries,sub}
 *   Fit{n,p,ny,nlv,xs,ys,noise,intc,cond,rank,offx,offy,lgx,lgy,shape,kind,tag,reuse,inst}   inst = rank is the largest the shape allows
 *   Prep{xavg,yavg,xscl,yscl}               stored centring against the column means of this data; stored scale factors against the option's definition (impl layer)
 *   Lv{a,tortho,wortho,recon,reproj, pnorm,qnorm,udefl,binner, prows,wrows}   (pnorm..binner: implementation-shaped layer;
 *                                                      prows/wrows: rows of xloadings/xweights that hold a stored number)
 *   Score{req,got,err}                      PLSScorePredictor asked for req LVs (req may exceed the model): columns it returned, worst column error
 *   YPred{a,src,err}                        PLSYPredictor(scores, a): src 0 = stored scores, 1 = re-projected scores; a may exceed the model
 *   AllLv{cols,scols,scoreErr,err}          PLSYPredictorAllLV with the score output requested
 *   VarExp{a,err}                           xvarexp[a] against 100 t't / ss(X)        (outside the statement: extra layer)
 *   Col{a,j,col,found,recalcErr,allErr}     found = column of recalculated_y that really holds (a,j), located by value
 *   Resid{a,j,col,against,residErr}         against = response the stored residual column was really taken against
 *   Tab{n,ny,nlv,y,rec,res}                 integer-valued cases: the three tables, so that TLC recomputes rec - y itself
 *   Hist{fits,same}                         history cases: the model of the last fit is bitwise the model of the first   (extra layer)
 *   Refit{rc,bsize,reccols,varexp,same} (rc: 0 returned, 99/98 sanitizer abort, 1000+n signal)       history cases: PLS() once more into the model object that already holds this fit   (extra layer)
 *   End{lvs,cols,full,xfull}
 *   Skip{case} (no admissible draw) / Abort{case,rc} (child died: budget 97, watchdog 124, signal 1000+n)
 */
#include "scientific.h"
#include "verif_rt.h"
#include "pls_common.h"
#include "c03_gen.h"
#include <fcntl.h>

static unsigned long g_seed;

enum { KD_BASE = 0, KD_WIDE, KD_INT, KD_SQUARE, KD_WIDE1, KD_TALL1, KD_OFFSET, KD_INTWIDE, KD_MAGN, KD_TIES, KD_BLOCK, KD_DEGEN, KD_HIST, KD_WIDERANK, KD_N };
static const char *KD_NAME[KD_N] = {"base", "wide", "int", "square", "wide1", "tall1", "offset", "intwide", "magn", "ties", "block", "degen", "hist", "widerank"};
static const int KD_SCHED[16] = {KD_BASE, KD_BASE, KD_BASE, KD_WIDE, KD_INT, KD_SQUARE, KD_WIDE1, KD_TALL1,
                                 KD_OFFSET, KD_INTWIDE, KD_MAGN, KD_TIES, KD_BLOCK, KD_DEGEN, KD_HIST, KD_WIDERANK};

typedef struct {
  pc_case c; int kind, nlv, rank, tries, reuse, lgx, lgy; long skipx; double cond; char tag[40];
} c3_prob;

/* one admissible problem of the given kind; shape < 0: drawn by the kind.  returns 0 when 40 draws were all refused */
static int draw_problem(c3_prob *q, vrng *r, long idx, int kind, int shape){
  pc_case *c = &q->c;
  for(q->tries = 1; q->tries <= 40; q->tries++){
    int lvrank = 0, lvmin = 1; double lvu = vr_unif(r);
    int degen = -1;
    q->kind = kind; q->skipx = -1; q->lgx = q->lgy = 0; q->reuse = (int)vr_int(r, 0, 1); strcpy(q->tag, "-");
    c->intcase = (kind == KD_INT || kind == KD_INTWIDE); c->nnew = 0;
    c->xs = (int)vr_int(r, -1, 5); c->ys = (int)vr_int(r, -1, 5);
    c->ny = (int)vr_int(r, 1, 4); c->noise = (int)vr_int(r, 0, 3);
    lvrank = ((idx / 16 + idx) % 3 == 0);
    switch(kind){
      case KD_BASE:   c3_draw_shape(r, SH_TALL, &c->n, &c->p); lvrank = (idx % 3 == 0); break;
      case KD_INT:    c->n = (int)vr_int(r, 6, 9); c->p = (int)vr_int(r, 2, 3); c->ny = (int)vr_int(r, 2, 3); c->noise = (int)vr_int(r, 0, 2); lvmin = 2; lvrank = 0; break;
      case KD_INTWIDE:c->n = (int)vr_int(r, 6, 7); c->p = (int)vr_int(r, c->n - 1, c->n + 2); c->ny = (int)vr_int(r, 2, 3); c->noise = (int)vr_int(r, 0, 2); lvmin = 2; lvrank = (idx / 16) % 2; break;
      case KD_WIDE:   c3_draw_shape(r, SH_WIDE, &c->n, &c->p); break;
      case KD_SQUARE: c3_draw_shape(r, SH_SQUARE, &c->n, &c->p); break;
      case KD_WIDE1:  c3_draw_shape(r, SH_WIDE1, &c->n, &c->p); break;
      case KD_TALL1:  c3_draw_shape(r, SH_TALL1, &c->n, &c->p); break;
      case KD_WIDERANK: c3_draw_shape(r, (int)vr_int(r, SH_SQUARE, SH_WIDE), &c->n, &c->p); c->ny = (int)vr_int(r, 2, 4); lvrank = 1; break;
      case KD_BLOCK: {
        static const int NB[] = {7, 8, 9, 15, 16, 17, 31, 32, 33, 39, 40, 12, 24}, PB[] = {3, 4, 5, 7, 8, 9, 11, 12};
        c->n = NB[vr_int(r, 0, 12)]; c->p = PB[vr_int(r, 0, 7)]; break; }
      case KD_DEGEN:  degen = (int)vr_int(r, 0, 4);
                      /* duplicate objects keep the largest rank only while objects - duplicates - 1 >= variables: mostly tall there */
                      c3_draw_shape(r, (degen <= 1 && vr_int(r, 0, 3)) ? SH_TALL : (int)vr_int(r, 0, SH_N - 1), &c->n, &c->p); break;
      default:        c3_draw_shape(r, shape >= 0 ? shape : (int)vr_int(r, 0, SH_N - 1), &c->n, &c->p); break;
    }
    if(kind == KD_MAGN){
      q->lgx = q->lgy = 0;
      int small = (int)vr_int(r, 0, 1), which = (int)vr_int(r, 0, 2), lg = small ? -(int)vr_int(r, 3, 6) : (int)vr_int(r, 3, 5);
      if(which != 1) q->lgx = lg;
      if(which != 0) q->lgy = lg;
      if(q->lgx < 0) c->xs = (int)vr_int(r, -1, 0);       /* a block in tiny units can only be centred: scaled options meet the zero-scale guard (C10) */
      if(q->lgy < 0) c->ys = (int)vr_int(r, -1, 0);
    }
    if(kind == KD_DEGEN){ if(degen == 3) c->xs = 0; if(degen == 4 && c->ny < 2) c->ny = 2; if((degen == 2 || degen == 3) && c->p < 2) degen = 0; /* a constant / duplicated predictor needs an informative one beside it: a single constant predictor is X of rank 0, outside the quantifier (nlv in 1..rank is empty) */ }
    /* K3 moves CENTRED blocks only.  On a block used as it is (option -1) the offset is signal: cond(X) grows with it, and an uncentred
     * response c*1 + s on centred predictors makes X'u cancel down to the rounding of c (error ~ eps*c/|remaining s|, unbounded as the
     * LVs exhaust s) - no bound computable from the input holds there, so such blocks keep the <= 0.5 spreads of the base generator */
    if(kind == KD_OFFSET && c->xs == -1 && c->ys == -1){ if(vr_int(r, 0, 1)) c->xs = (int)vr_int(r, 0, 5); else c->ys = (int)vr_int(r, 0, 5); }

    if(c->intcase) pc_gen_int(c, r, 5, 20);
    else {
      int norm = (c->xs == 1 || c->xs == 2 || c->xs == 4 || c->xs == 5);
      pc_gen_real(c, r, norm ? -1.0 : 0.0, norm ? 2.0 : 1.0, c->xs == -1 ? 0.5 : 4.0, c->ys == -1 ? 0.5 : 5.0);
    }
    int n = c->n, p = c->p;
    if(kind == KD_OFFSET){
      int which = c->xs == -1 ? 1 : c->ys == -1 ? 0 : (int)vr_int(r, 0, 2);
      if(which != 1){ c3_shrink(c->X, r); c3_add_offset(c->X, r, 2.0, 8.0); }
      if(which != 0){ c3_shrink(c->Y, r); c3_add_offset(c->Y, r, 2.0, 8.0); }
      snprintf(q->tag, sizeof(q->tag), "K3:%s", which == 0 ? "x" : which == 1 ? "y" : "xy");
    }
    if(kind == KD_MAGN){
      if(q->lgx) c3_scale(c->X, pow(10.0, q->lgx));
      if(q->lgy) c3_scale(c->Y, pow(10.0, q->lgy));
      snprintf(q->tag, sizeof(q->tag), "K4:%s", (q->lgx < 0 || q->lgy < 0) ? "small" : "large");
    }
    if(kind == KD_TIES){
      static const double ST[3] = {0.1, 1.0 / 3.0, 1e-3};
      int sx = (int)vr_int(r, 0, 2), sy = (int)vr_int(r, 0, 2);
      c3_snap(c->X, ST[sx], 3.0 + 3.0 * vr_int(r, 0, 1)); c3_snap(c->Y, ST[sy], sy == 2 ? 400.0 : 6.0);
      if(ST[sx] < 0.01 && c->xs >= 1) c3_scale(c->X, 1000.0);          /* keep scaled blocks away from the zero-scale guard */
      if(ST[sy] < 0.01 && c->ys >= 1) c3_scale(c->Y, 1000.0);
      snprintf(q->tag, sizeof(q->tag), "K5:grid");
    }
    if(kind == KD_DEGEN){
      if(degen == 0 || degen == 1){                                 /* duplicate objects (with or without their responses) */
        int pairs = n >= 10 ? 2 : 1;
        for(int k = 0; k < pairs; k++){
          int i1 = (int)vr_int(r, 0, n - 1), i2 = (int)vr_int(r, 0, n - 1); if(i1 == i2) i2 = (i1 + 1) % n;
          for(int j = 0; j < p; j++) c->X->data[i2][j] = c->X->data[i1][j];
          if(degen == 0) for(int j = 0; j < c->ny; j++) c->Y->data[i2][j] = c->Y->data[i1][j];
        }
        snprintf(q->tag, sizeof(q->tag), "K8:%s", degen == 0 ? "dup-rows" : "dup-xrows");
      } else if(degen == 2){                                        /* duplicate predictor */
        int j1 = (int)vr_int(r, 0, p - 1), j2 = (j1 + 1 + (int)vr_int(r, 0, p - 2)) % p;
        for(int i = 0; i < n; i++) c->X->data[i][j2] = c->X->data[i][j1];
        snprintf(q->tag, sizeof(q->tag), "K8:dup-col");
      } else if(degen == 3){                                        /* constant predictor with a non-representable value among informative ones */
        int j1 = (int)vr_int(r, 0, p - 1); double v = 0.1 * (double)vr_int(r, 1, 30);
        for(int i = 0; i < n; i++) c->X->data[i][j1] = v;
        q->skipx = j1;
        snprintf(q->tag, sizeof(q->tag), "K8:const-col");
      } else {                                                      /* responses with exactly tied variances: mirrored / duplicated response */
        double sg = vr_int(r, 0, 1) ? -1.0 : 1.0;
        for(int i = 0; i < n; i++) c->Y->data[i][1] = sg * c->Y->data[i][0];
        snprintf(q->tag, sizeof(q->tag), "K8:y-tie");
      }
    }
    if(kind == KD_BLOCK) snprintf(q->tag, sizeof(q->tag), "K2:block");
    if(kind == KD_HIST) snprintf(q->tag, sizeof(q->tag), "K7:hist");

    int rank = 0;
    if(c3_admit(c, 1e3, &q->cond, &rank, q->skipx)){
      int bound = c3_rank_bound(n, p, c->xs);
      /* only the degenerate kind may sit below the largest rank its shape allows */
      if((rank == bound || kind == KD_DEGEN) && rank >= lvmin){
        q->rank = rank;
        q->nlv = lvrank ? rank : lvmin + (int)(lvu * (rank - lvmin + 1));
        if(q->nlv > rank) q->nlv = rank;
        if(c->intcase && q->nlv > 4) q->nlv = 4;
        return 1;
      }
    }
    pc_case_free(c);
  }
  return 0;
}

static void emit_table(char *buf, size_t cap, int *pp, const char *name, double **M, int rows, int cols){
  int p = *pp;
  p += snprintf(buf + p, cap - p, ",\"%s\":[", name);
  for(int i = 0; i < rows; i++){
    p += snprintf(buf + p, cap - p, "%s[", i ? "," : "");
    for(int j = 0; j < cols; j++) p += snprintf(buf + p, cap - p, "%s%ld", j ? "," : "", vqs_unit(M[i][j], 1e-6));
    p += snprintf(buf + p, cap - p, "]");
  }
  p += snprintf(buf + p, cap - p, "]");
  *pp = p;
}

/* an output object that already holds other data of another shape (K7) or a fresh one */
static matrix *out_matrix(int reuse, int rows, int cols){
  matrix *m;
  if(!reuse){ initMatrix(&m); return m; }
  NewMatrix(&m, rows, cols); MatrixSet(m, 7.25);
  return m;
}
static int last_nonzero(double **M, int rows, int col){ int k = 0; for(int i = 0; i < rows; i++) if(M[i][col] != 0.0) k = i + 1; return k; }
static long cap9(double x){ return x >= 2e9 ? 2000000000L : (long)ceil(x); }

/* stored centring / scaling vectors of one block against their definitions.  *avg: worst |stored average - column mean| / rms spread
 * (NaN when a vector has the wrong length for the option); *scl: worst relative deviation of the stored scale factor from the option's
 * definition (1 sample sd, 2 rms about 0, 3 sqrt(sd), 4 range, 5 mean, 0 one) */
static void prep_check(matrix *M, int opt, dvector *avg, dvector *scal, double *avgerr, double *sclerr){
  *avgerr = 0; *sclerr = 0;
  if(opt < 0){ if(avg->size != 0 || scal->size != 0){ *avgerr = NAN; *sclerr = NAN; } return; }
  if(avg->size != M->col || scal->size != M->col){ *avgerr = NAN; *sclerr = NAN; return; }
  size_t n = M->row;
  for(size_t j = 0; j < M->col; j++){
    long double sum = 0, ss = 0, s2 = 0; double mn = M->data[0][j], mx = mn;
    for(size_t i = 0; i < n; i++){ double v = M->data[i][j]; sum += v; s2 += (long double)v * v; if(v < mn) mn = v; if(v > mx) mx = v; }
    long double mean = sum / n;
    for(size_t i = 0; i < n; i++){ long double d = M->data[i][j] - mean; ss += d * d; }
    double spread = (double)sqrtl(ss / n), sd = (double)sqrtl(ss / (n - 1));
    /* a constant column (admitted among informative ones, K8) has no spread: there the deviation is taken relative to the value itself */
    double amax = fabs(mn) > fabs(mx) ? fabs(mn) : fabs(mx);
    double den = spread > 1e-9 * amax ? spread : fabs((double)mean) > 0 ? fabs((double)mean) : 1.0;
    double a = fabs((double)(avg->data[j] - mean)) / den;
    if(!(a <= *avgerr)) *avgerr = a;
    double def = opt == 1 ? sd : opt == 2 ? (double)sqrtl(s2 / n) : opt == 3 ? sqrt(sd) : opt == 4 ? mx - mn : opt == 5 ? (double)mean : 1.0;
    double e = def != 0 ? fabs(scal->data[j] - def) / fabs(def) : (scal->data[j] == 0 ? 0 : NAN);
    if(!(e <= *sclerr)) *sclerr = e;
  }
}

/* every number of the fitted model the ledger looks at, flattened (history comparison) */
static size_t flatten(PLSMODEL *m, double **out){
  matrix *M[] = {m->xscores, m->xloadings, m->xweights, m->yscores, m->yloadings, m->recalculated_y, m->recalc_residuals};
  size_t tot = m->b->size + m->xvarexp->size;
  for(int k = 0; k < 7; k++) tot += M[k]->row * M[k]->col;
  double *v = malloc(sizeof(double) * (tot + 1)); size_t o = 0;
  for(int k = 0; k < 7; k++) for(size_t i = 0; i < M[k]->row; i++) for(size_t j = 0; j < M[k]->col; j++) v[o++] = M[k]->data[i][j];
  for(size_t i = 0; i < m->b->size; i++) v[o++] = m->b->data[i];
  for(size_t i = 0; i < m->xvarexp->size; i++) v[o++] = m->xvarexp->data[i];
  *out = v; return tot;
}

typedef struct { c3_prob *q; PLSMODEL *m; } refit_arg;
static int refit_child(void *arg){
  refit_arg *ra = arg; pc_case c = ra->q->c; PLSMODEL *m = ra->m;
  int fd = open("/dev/null", O_WRONLY); if(fd >= 0) dup2(fd, 2);
  double *before = NULL, *after = NULL; size_t nb = flatten(m, &before);
  PLS(c.X, c.Y, (size_t)ra->q->nlv, c.xs, c.ys, m, NULL);
  size_t na = flatten(m, &after);
  VRT_EMIT("{\"e\":\"Refit\",\"rc\":0,\"bsize\":%zu,\"reccols\":%zu,\"varexp\":%zu,\"same\":%d}", m->b->size, m->recalculated_y->col, m->xvarexp->size,
           (na == nb && memcmp(before, after, sizeof(double) * nb) == 0) ? 1 : 0);
  return 0;
}

/* Fit .. End for one fitted model */
static void project(c3_prob *q, PLSMODEL *m, int hist_fits, int hist_same, int refit){
  pc_case c = q->c; int nlv = q->nlv;
  int n = c.n, p = c.p, ny = c.ny;
  VRT_EMIT("{\"e\":\"Fit\",\"n\":%d,\"p\":%d,\"ny\":%d,\"nlv\":%d,\"xs\":%d,\"ys\":%d,\"noise\":%d,\"intc\":%d,\"cond\":%ld,\"rank\":%d,\"offx\":%ld,\"offy\":%ld,"
           "\"lgx\":%d,\"lgy\":%d,\"shape\":\"%s\",\"kind\":\"%s\",\"tag\":\"%s\",\"reuse\":%d,\"inst\":%d}",
           n, p, ny, nlv, c.xs, c.ys, c.noise, c.intcase, (long)ceil(q->cond), q->rank, cap9(c3_offset(c.X, q->skipx)), cap9(c3_offset(c.Y, -1)),
           q->lgx, q->lgy, C3_SHAPE[c3_shape_of(n, p)], KD_NAME[q->kind], q->tag, q->reuse, q->rank == c3_rank_bound(n, p, c.xs) ? 1 : 0);

  /* shapes the rest of the projection relies on; a wrong shape is reported as an unmatched event */
  if(m->xscores->row != (size_t)n || m->xscores->col != (size_t)nlv || m->xloadings->row != (size_t)p || m->xloadings->col != (size_t)nlv ||
     m->xweights->row != (size_t)p || m->xweights->col != (size_t)nlv || m->yscores->row != (size_t)n || m->yscores->col != (size_t)nlv ||
     m->yloadings->row != (size_t)ny || m->yloadings->col != (size_t)nlv || m->b->size != (size_t)nlv ||
     m->recalculated_y->row != (size_t)n || m->recalculated_y->col != (size_t)(ny * nlv) ||
     m->recalc_residuals->row != (size_t)n || m->recalc_residuals->col != (size_t)(ny * nlv)){
    VRT_EMIT("{\"e\":\"Shape\",\"trow\":%zu,\"tcol\":%zu,\"prow\":%zu,\"wrow\":%zu,\"reccol\":%zu,\"rescol\":%zu,\"b\":%zu}", m->xscores->row, m->xscores->col,
             m->xloadings->row, m->xweights->row, m->recalculated_y->col, m->recalc_residuals->col, m->b->size);
    return;
  }
  double **T = m->xscores->data, **P = m->xloadings->data, **W = m->xweights->data, **U = m->yscores->data, **Q = m->yloadings->data;
  double *B = m->b->data;

  /* the stored centring is the column mean of THIS data (relative to the column's spread), the stored scale factor is what the
   * option defines (implementation-shaped layer): both from the data alone, in extended precision */
  {
    double xa, xsf, ya, ysf;
    prep_check(c.X, c.xs, m->xcolaverage, m->xcolscaling, &xa, &xsf);
    prep_check(c.Y, c.ys, m->ycolaverage, m->ycolscaling, &ya, &ysf);
    VRT_EMIT("{\"e\":\"Prep\",\"xavg\":%ld,\"yavg\":%ld,\"xscl\":%ld,\"yscl\":%ld}", pc_q12("xavgErr", xa), pc_q12("yavgErr", ya), pc_q12("xsclErr", xsf), pc_q12("ysclErr", ysf));
  }

  /* harness's own preprocessing from the stored centring / scaling vectors */
  double **E = pc_alloc(n, p), **F = pc_alloc(n, ny);
  double e0 = 0;
  for(int i = 0; i < n; i++) for(int j = 0; j < p; j++){ E[i][j] = pc_prep(c.X->data[i][j], m->xcolaverage, m->xcolscaling, j); e0 += E[i][j] * E[i][j]; }
  for(int i = 0; i < n; i++) for(int j = 0; j < ny; j++) F[i][j] = pc_prep(c.Y->data[i][j], m->ycolaverage, m->ycolscaling, j);
  double ssx = e0;
  e0 = sqrt(e0);

  matrix *ps = out_matrix(q->reuse, n + 1, nlv + 2); PLSScorePredictor(c.X, m, (size_t)nlv, ps);
  matrix *all = out_matrix(q->reuse, n + 2, ny * nlv + 1); PLSYPredictorAllLV(c.X, m, NULL, all);

  for(int a = 0; a < nlv; a++){
    double nt = pc_colnorm(T, a, n), nw = pc_colnorm(W, a, p);
    double tortho = 0, wortho = 0;
    for(int k = 0; k < a; k++){
      double d = fabs(pc_coldot(T, k, T, a, n)) / (pc_colnorm(T, k, n) * nt); if(!(d <= tortho)) tortho = d;
      double e = fabs(pc_coldot(W, k, W, a, p)) / (pc_colnorm(W, k, p) * nw); if(!(e <= wortho)) wortho = e;
    }
    /* implementation-shaped: u_a = F_{a-1} q_a / q'q on the DEFLATED response block, |p| = 1, |q| = 1, b = u't / t't */
    double qq = 0; for(int j = 0; j < ny; j++) qq += Q[j][a] * Q[j][a];
    double du = 0, nu = 0;
    for(int i = 0; i < n; i++){ double v = 0; for(int j = 0; j < ny; j++) v += F[i][j] * Q[j][a]; v /= qq; du += (v - U[i][a]) * (v - U[i][a]); nu += U[i][a] * U[i][a]; }
    double udefl = sqrt(du) / sqrt(nu);
    double pnorm = fabs(pc_colnorm(P, a, p) - 1.0), qnorm = fabs(sqrt(qq) - 1.0);
    double binner = fabs(B[a] - pc_coldot(U, a, T, a, n) / (nt * nt)) / (fabs(B[a]) > 1e-300 ? fabs(B[a]) : 1e-300);
    /* deflate */
    for(int i = 0; i < n; i++) for(int j = 0; j < p; j++) E[i][j] -= T[i][a] * P[j][a];
    for(int i = 0; i < n; i++) for(int j = 0; j < ny; j++) F[i][j] -= B[a] * T[i][a] * Q[j][a];
    /* preprocessed X = T P' + E_a with E_a orthogonal to every extracted score (the decomposition is a projection) */
    double recon = 0;
    for(int k = 0; k <= a; k++){
      double s2 = 0;
      for(int j = 0; j < p; j++){ double v = 0; for(int i = 0; i < n; i++) v += E[i][j] * T[i][k]; s2 += v * v; }
      double d = sqrt(s2) / (pc_colnorm(T, k, n) * e0); if(!(d <= recon)) recon = d;
    }
    double rp = 0; for(int i = 0; i < n; i++){ double d = ps->data[i][a] - T[i][a]; rp += d * d; }
    double reproj = (ps->row == (size_t)n && ps->col == (size_t)nlv) ? sqrt(rp) / nt : NAN;
    VRT_EMIT("{\"e\":\"Lv\",\"a\":%d,\"tortho\":%ld,\"wortho\":%ld,\"recon\":%ld,\"reproj\":%ld,\"pnorm\":%ld,\"qnorm\":%ld,\"udefl\":%ld,\"binner\":%ld,\"prows\":%d,\"wrows\":%d}",
             a + 1, pc_q12("tortho", tortho), pc_q12("wortho", wortho), pc_q12("recon", recon), pc_q12("reproj", reproj), pc_q12("pnorm", pnorm), pc_q12("qnorm", qnorm),
             pc_q12("udefl", udefl), pc_q12("binner", binner), last_nonzero(P, p, a), last_nonzero(W, p, a));
  }
  double xfull = 0; for(int i = 0; i < n; i++) for(int j = 0; j < p; j++) xfull += E[i][j] * E[i][j];
  xfull = sqrt(xfull) / e0;

  /* re-projection with another requested LV count (fewer than, and more than, the model has) */
  {
    int reqs[3] = {1, nlv + 2, nlv >= 3 ? nlv - 1 : 0};
    for(int k = 0; k < 3; k++){
      int req = reqs[k]; if(req < 1) continue;
      matrix *s2 = out_matrix(q->reuse, n, nlv);        /* same shape as a full re-projection: the resize path that only clears */
      PLSScorePredictor(c.X, m, (size_t)req, s2);
      int got = s2->row == (size_t)n ? (int)s2->col : -1;
      double worst = 0;
      for(int a = 0; a < got && a < nlv; a++){
        double d = 0; for(int i = 0; i < n; i++) d += (s2->data[i][a] - T[i][a]) * (s2->data[i][a] - T[i][a]);
        d = sqrt(d) / pc_colnorm(T, a, n); if(!(d <= worst)) worst = d;
      }
      VRT_EMIT("{\"e\":\"Score\",\"req\":%d,\"got\":%d,\"err\":%ld}", req, got, pc_q12("scoreErr", worst));
      DelMatrix(&s2);
    }
  }
  /* responses from scores at every LV count, one output object used again and again; a = nlv+1 asks for more than the model has */
  double *fit = malloc(sizeof(double) * n);
  {
    matrix *yp = out_matrix(q->reuse, n + 1, ny + 2);
    for(int src = 0; src < 2; src++){
      double **S = src == 0 ? T : ps->data;
      matrix *sm = src == 0 ? m->xscores : ps;
      int psok = (ps->row == (size_t)n && ps->col == (size_t)nlv);      /* a re-projection of the wrong shape is a failed event, never a missing one */
      for(int a = (src == 0 ? 1 : nlv); a <= nlv + (src == 0 ? 1 : 0); a++){
        int eff = a > nlv ? nlv : a;
        if(src == 1 && !psok){ VRT_EMIT("{\"e\":\"YPred\",\"a\":%d,\"src\":%d,\"err\":%ld}", a, src, VQ_MAX); continue; }
        PLSYPredictor(sm, m, (size_t)a, yp);
        double worst = 0;
        if(yp->row != (size_t)n || yp->col != (size_t)ny) worst = NAN;
        else for(int j = 0; j < ny; j++){
          double yn = pc_colcnorm(c.Y->data, j, n), d = 0;
          for(int i = 0; i < n; i++){ double v = 0; for(int k = 0; k < eff; k++) v += B[k] * S[i][k] * Q[j][k]; v = pc_back(v, m->ycolaverage, m->ycolscaling, j); d += (yp->data[i][j] - v) * (yp->data[i][j] - v); }
          d = sqrt(d) / yn; if(!(d <= worst)) worst = d;
        }
        VRT_EMIT("{\"e\":\"YPred\",\"a\":%d,\"src\":%d,\"err\":%ld}", a, src, pc_q12("ypredErr", worst));
      }
    }
    DelMatrix(&yp);
  }
  /* all-LV predictor with the scores requested */
  double **R = m->recalculated_y->data, **S = m->recalc_residuals->data;
  int ncol = ny * nlv;
  {
    matrix *tsc = out_matrix(q->reuse, n + 3, nlv + 1), *all2 = out_matrix(q->reuse, n, ncol);
    PLSYPredictorAllLV(c.X, m, tsc, all2);
    double sworst = 0, worst = 0;
    int sok = (tsc->row == (size_t)n && tsc->col == (size_t)nlv), aok = (all2->row == (size_t)n && all2->col == (size_t)ncol);
    if(sok) for(int a = 0; a < nlv; a++){
      double d = 0; for(int i = 0; i < n; i++) d += (tsc->data[i][a] - T[i][a]) * (tsc->data[i][a] - T[i][a]);
      d = sqrt(d) / pc_colnorm(T, a, n); if(!(d <= sworst)) sworst = d;
    }
    if(aok) for(int cc = 0; cc < ncol; cc++){
      double yn = pc_colcnorm(c.Y->data, cc % ny, n), d = 0;
      for(int i = 0; i < n; i++) d += (all2->data[i][cc] - R[i][cc]) * (all2->data[i][cc] - R[i][cc]);
      d = sqrt(d) / yn; if(!(d <= worst)) worst = d;
    }
    VRT_EMIT("{\"e\":\"AllLv\",\"cols\":%d,\"scols\":%d,\"scoreErr\":%ld,\"err\":%ld}", aok ? (int)all2->col : -1, sok ? (int)tsc->col : -1,
             sok ? pc_q12("allScoreErr", sworst) : VQ_MAX, aok ? pc_q12("all2Err", worst) : VQ_MAX);
    DelMatrix(&tsc); DelMatrix(&all2);
  }
  /* explained X variance per LV (field xvarexp; not part of the statement) */
  for(int a = 0; a < nlv; a++){
    double tt = pc_coldot(T, a, T, a, n);
    double err = m->xvarexp->size == (size_t)nlv ? fabs(m->xvarexp->data[a] - 100.0 * tt / ssx) / 100.0 : NAN;
    VRT_EMIT("{\"e\":\"VarExp\",\"a\":%d,\"err\":%ld}", a + 1, pc_q12("varexpErr", err));
  }

  /* recalculated responses and residual columns */
  for(int a = 1; a <= nlv; a++) for(int j = 0; j < ny; j++){
    int col = ny * (a - 1) + j;
    double yn = pc_colcnorm(c.Y->data, j, n);
    for(int i = 0; i < n; i++){ double v = 0; for(int k = 0; k < a; k++) v += B[k] * T[i][k] * Q[j][k]; fit[i] = pc_back(v, m->ycolaverage, m->ycolscaling, j); }
    double best = -1; int found = col;
    double errc = 0;
    for(int cc = 0; cc < ncol; cc++){
      double d = 0; for(int i = 0; i < n; i++) d += (R[i][cc] - fit[i]) * (R[i][cc] - fit[i]);
      d = sqrt(d) / yn;
      if(cc == col) errc = d;
      if(best < 0 || d < best){ best = d; found = cc; }
    }
    if(errc <= 1e-9 || !(best < errc)) found = col;
    double da = 0;
    int allok = (all->row == (size_t)n && all->col == (size_t)ncol);
    if(allok) for(int i = 0; i < n; i++) da += (all->data[i][col] - R[i][col]) * (all->data[i][col] - R[i][col]);
    VRT_EMIT("{\"e\":\"Col\",\"a\":%d,\"j\":%d,\"col\":%d,\"found\":%d,\"recalcErr\":%ld,\"allErr\":%ld}", a, j, col, found, pc_q12("recalcErr", errc), allok ? pc_q12("allErr", sqrt(da) / yn) : VQ_MAX);
    /* residual column = recalculated column - the SAME response */
    double rbest = -1, rown = 0; int against = j;
    for(int jj = 0; jj < ny; jj++){
      double d = 0; for(int i = 0; i < n; i++){ double v = S[i][col] - (R[i][col] - c.Y->data[i][jj]); d += v * v; }
      d = sqrt(d) / yn;
      if(jj == j) rown = d;
      if(rbest < 0 || d < rbest){ rbest = d; against = jj; }
    }
    if(rown <= 1e-9 || !(rbest < rown)) against = j;
    VRT_EMIT("{\"e\":\"Resid\",\"a\":%d,\"j\":%d,\"col\":%d,\"against\":%d,\"residErr\":%ld}", a, j, col, against, pc_q12("residErr", rown));
  }
  if(c.intcase){
    static char buf[262144]; int qn = 0;
    qn += snprintf(buf + qn, sizeof(buf) - qn, "{\"e\":\"Tab\",\"n\":%d,\"ny\":%d,\"nlv\":%d", n, ny, nlv);
    emit_table(buf, sizeof(buf), &qn, "y", c.Y->data, n, ny);
    emit_table(buf, sizeof(buf), &qn, "rec", R, n, ncol);
    emit_table(buf, sizeof(buf), &qn, "res", S, n, ncol);
    qn += snprintf(buf + qn, sizeof(buf) - qn, "}");
    VRT_EMIT("%s", buf);
  }
  if(hist_fits > 0) VRT_EMIT("{\"e\":\"Hist\",\"fits\":%d,\"same\":%d}", hist_fits, hist_same);
  if(refit){
    /* the same problem fitted once more INTO THE SAME model object (a model that already holds a fit), in a child of its own with a
     * silenced stderr: outside the statement, so neither a sanitizer abort nor a wrong size there may end or taint this case */
    refit_arg ra = {q, m};
    int rc = vrt_run_child(refit_child, &ra, 30);
    if(rc != 0) VRT_EMIT("{\"e\":\"Refit\",\"rc\":%d,\"bsize\":0,\"reccols\":0,\"varexp\":0,\"same\":0}", rc);
  }
  int full = (nlv == q->rank);
  VRT_EMIT("{\"e\":\"End\",\"lvs\":%d,\"cols\":%d,\"full\":%d,\"xfull\":%ld}", nlv, ncol, full, full ? pc_q12("xfull", xfull) : 0L);
  free(fit); pc_free(E, n); pc_free(F, n);
  DelMatrix(&ps); DelMatrix(&all);
}

/* another problem with the shape, options, noise class and LV count of `a` but other data (history class: same shape, different data) */
static int same_shape_problem(c3_prob *q, c3_prob *a, vrng *r){
  *q = *a; q->c.X = q->c.Y = q->c.Xn = q->c.Yn = NULL;
  for(q->tries = 1; q->tries <= 40; q->tries++){
    pc_case *c = &q->c;
    int norm = (c->xs == 1 || c->xs == 2 || c->xs == 4 || c->xs == 5);
    pc_gen_real(c, r, norm ? -1.0 : 0.0, norm ? 2.0 : 1.0, c->xs == -1 ? 0.5 : 4.0, c->ys == -1 ? 0.5 : 5.0);
    int rank = 0;
    if(c3_admit(c, 1e3, &q->cond, &rank, -1) && rank == a->rank){ q->rank = rank; return 1; }
    pc_case_free(c);
  }
  return 0;
}

static PLSMODEL *fit(c3_prob *q){
  PLSMODEL *m; NewPLSModel(&m);
  PLS(q->c.X, q->c.Y, (size_t)q->nlv, q->c.xs, q->c.ys, m, NULL);
  return m;
}

static int one_case(void *arg){
  long idx = *(long *)arg;
  int kind = KD_SCHED[idx % 16];
  vrng r = pc_stream(g_seed, (unsigned long)idx, 3);
  c3_prob A;
  if(!draw_problem(&A, &r, idx, kind, -1)){ VRT_EMIT("{\"e\":\"Skip\",\"case\":%ld}", idx); return 0; }
  if(kind != KD_HIST){
    VRT_EMIT("{\"e\":\"Reset\",\"case\":%ld,\"tries\":%d,\"sub\":0}", idx, A.tries);
    PLSMODEL *m = fit(&A);
    project(&A, m, 0, 0, 0);
    DelPLSModel(&m);
  } else {
    /* fit A, fit A' (same shape and options, other data), fit B (another shape class), fit A again - all in this one process;
     * A', B and the second A are projected */
    c3_prob A2, B;
    vrng r2 = pc_stream(g_seed, (unsigned long)idx, 5), r3 = pc_stream(g_seed, (unsigned long)idx, 7);
    int shA = c3_shape_of(A.c.n, A.c.p), shB = shA <= SH_TALL1 ? (int)vr_int(&r2, SH_SQUARE, SH_WIDE) : (int)vr_int(&r2, SH_TALL, SH_TALL1);
    int haveB = draw_problem(&B, &r2, idx, KD_HIST, shB);
    int haveA2 = same_shape_problem(&A2, &A, &r3);
    int fits = 1;
    PLSMODEL *m1 = fit(&A);
    double *snap1 = NULL, *snap2 = NULL; size_t n1 = flatten(m1, &snap1);
    DelPLSModel(&m1);
    if(haveA2){
      VRT_EMIT("{\"e\":\"Reset\",\"case\":%ld,\"tries\":%d,\"sub\":1}", idx, A2.tries);
      PLSMODEL *mA2 = fit(&A2);
      project(&A2, mA2, 0, 0, 0);
      DelPLSModel(&mA2);
      pc_case_free(&A2.c); fits++;
    }
    if(haveB){
      VRT_EMIT("{\"e\":\"Reset\",\"case\":%ld,\"tries\":%d,\"sub\":2}", idx, B.tries);
      PLSMODEL *mB = fit(&B);
      project(&B, mB, 0, 0, 0);
      DelPLSModel(&mB);
      pc_case_free(&B.c); fits++;
    }
    PLSMODEL *m2 = fit(&A); fits++;
    size_t n2 = flatten(m2, &snap2);
    int same = (n1 == n2) && memcmp(snap1, snap2, sizeof(double) * n1) == 0;
    VRT_EMIT("{\"e\":\"Reset\",\"case\":%ld,\"tries\":%d,\"sub\":3}", idx, A.tries);
    project(&A, m2, fits, same, 1);
    DelPLSModel(&m2); free(snap1); free(snap2);
  }
  pc_max_print();
  pc_case_free(&A.c);
  return 0;
}

int main(int argc, char **argv){
  if(argc < 5){ fprintf(stderr, "usage: c03_drv out seed first count\n"); return 2; }
  vrt_open(argv[1]);
  g_seed = strtoul(argv[2], 0, 10);
  long first = atol(argv[3]), count = atol(argv[4]);
  vrt_force_nproc(1);
  vrt_install_iter_budget(20000, 0);
  for(long idx = first; idx < first + count; idx++){
    int rc = vrt_run_child(one_case, &idx, 60);
    if(rc != 0) VRT_EMIT("{\"e\":\"Abort\",\"case\":%ld,\"rc\":%d}", idx, rc);
  }
  vrt_close();
  return 0;
}
