/* c17_drv.c - conformance driver for C17 (object selection and k-means).
 *
 * usage: c17_drv <out.ndjson> grid <pointsfile> <seed> <kmstride> <full>
 *        c17_drv <out.ndjson> rand <seed> <first> <count>
 *
 * grid: every line of <pointsfile> is a TLC-generated point set "id n d distinct x_11 .. x_nd" (small integer grid, ties
 *       everywhere): MaxDis and MaxDis_Fast for every size 1..n and metrics 0/1, MDC, and (distinct points only)
 *       KMeansppCenters and KMeans.
 * rand: seeded integer point sets in general position (distinct rows, no zero row), 3..80 objects x 1..6 variables:
 *       selections for a sample of sizes, all three metrics, 1..8 threads; KMeans for k <= min(6, n), initialisers 0..3,
 *       1..8 threads.  Up to 12 objects TLC recomputes the distances from the logged points (exact = 1); beyond, and for
 *       the cosine metric, it works on the logged dense RANKS of the distances.
 * Requests outside the property's quantifier (more selections than objects, duplicate rows for k-means++) are never made.
 * All library calls for one point set run in one child process under a watchdog; a crash or hang becomes a Crash event.
 * Events: see spec/TraceSelect.tla.
 */
#include "scientific.h"
#include "verif_rt.h"
#include <sys/mman.h>

typedef struct { long id; int n, d, exact, distinct, grid, kmstride, full, kmonly; long *x; uint64_t seed; } pset;

typedef struct { char call[96]; } shared_t;
static shared_t *g_sh;
#define STAGE(...) snprintf(g_sh->call, sizeof g_sh->call, __VA_ARGS__)

static long g_iters = 0;
static void slice_cb(const char *site, size_t th, size_t from, size_t to, size_t nn){ (void)from; (void)to; (void)nn; if(th == 0 && !strcmp(site, "getLabels_")) g_iters++; }

static matrix *mkm(pset *p){ matrix *m; NewMatrix(&m, p->n, p->d); for(int i = 0; i < p->n; i++) for(int j = 0; j < p->d; j++) m->data[i][j] = (double)p->x[i * p->d + j]; return m; }

static void emit_sel(const char *method, int metric, int n, int th, uivector *s, int nobj){
  static char buf[4096]; int p = snprintf(buf, sizeof buf, "{\"e\":\"Sel\",\"method\":\"%s\",\"metric\":%d,\"n\":%d,\"th\":%d,\"seq\":[", method, metric, n, th);
  for(size_t i = 0; i < s->size && i < 400; i++) p += snprintf(buf + p, sizeof buf - p, "%s%ld", i ? "," : "", s->data[i] < (size_t)nobj ? (long)s->data[i] + 1 : 0L);
  snprintf(buf + p, sizeof buf - p, "]}");
  VRT_EMIT("%s", buf);
}

typedef void (*selfn)(matrix *, size_t, int, uivector *, size_t);
static void do_sel(const char *name, selfn f, matrix *m, int n, int metric, int th){
  uivector *s; initUIVector(&s);
  STAGE("%s(n=%d,metric=%d,threads=%d)", name, n, metric, th);
  f(m, (size_t)n, metric, s, (size_t)th);
  emit_sel(name, metric, n, th, s, (int)m->row);
  DelUIVector(&s);
}
static void do_kmpp(matrix *m, int n, int th, uint32_t seed){
  uivector *s; initUIVector(&s);
  STAGE("KMeansppCenters(n=%d,threads=%d,seed=%u)", n, th, seed);
  srand_(seed);
  KMeansppCenters(m, (size_t)n, s, th);
  emit_sel("KMeansppCenters", 0, n, th, s, (int)m->row);
  DelUIVector(&s);
}

static int dcmp(const void *a, const void *b){ double x = *(const double *)a, y = *(const double *)b; return x < y ? -1 : x > y; }
/* dense ranks (1..) of v[0..cnt) by exact double comparison */
static void dense_rank(const double *v, long cnt, long *rk){
  double *s = malloc(sizeof(double) * cnt); memcpy(s, v, sizeof(double) * cnt); qsort(s, cnt, sizeof(double), dcmp);
  long u = 0; for(long i = 0; i < cnt; i++) if(i == 0 || s[i] != s[u - 1]) s[u++] = s[i];
  for(long i = 0; i < cnt; i++){ long lo = 0, hi = u - 1; while(lo < hi){ long mid = (lo + hi) / 2; if(s[mid] < v[i]) lo = mid + 1; else hi = mid; } rk[i] = lo + 1; }
  free(s);
}
/* the library's definition of the three "distances" (C13 pins CalculateDistance to these) */
static double libdist(pset *p, int i, int k, int metric){
  double s = 0, da = 0, db = 0;
  for(int j = 0; j < p->d; j++){ double a = (double)p->x[i * p->d + j], b = (double)p->x[k * p->d + j];
    if(metric == 0) s += (a - b) * (a - b); else if(metric == 1) s += fabs(a - b); else { s += a * b; da += a * a; db += b * b; } }
  if(metric == 0) return sqrt(s); if(metric == 1) return s; return s / (sqrt(da) * sqrt(db));
}
static void emit_ranks(pset *p, int metric){
  long n = p->n; double *v = malloc(sizeof(double) * n * n); long *rk = malloc(sizeof(long) * n * n);
  for(int i = 0; i < n; i++) for(int k = 0; k < n; k++) v[i * n + k] = i == k ? (metric == 2 ? 1.0 : 0.0) : (i < k ? libdist(p, i, k, metric) : libdist(p, k, i, metric));
  dense_rank(v, n * n, rk);
  /* distance to the centroid: n^2 d^2 exactly in 64-bit integers */
  double *c = malloc(sizeof(double) * n); long *cr = malloc(sizeof(long) * n);
  for(int i = 0; i < n; i++){ int64_t acc = 0; for(int j = 0; j < p->d; j++){ int64_t S = 0; for(int r = 0; r < n; r++) S += p->x[r * p->d + j]; int64_t t = (int64_t)n * p->x[i * p->d + j] - S; acc += t * t; } c[i] = (double)acc; }
  dense_rank(c, n, cr);
  size_t cap = (size_t)n * n * 8 + n * 8 + 256; char *buf = malloc(cap); size_t q = 0;
  q += snprintf(buf + q, cap - q, "{\"e\":\"Ranks\",\"metric\":%d,\"R\":[", metric);
  for(int i = 0; i < n; i++){ q += snprintf(buf + q, cap - q, "%s[", i ? "," : ""); for(int k = 0; k < n; k++) q += snprintf(buf + q, cap - q, "%s%ld", k ? "," : "", rk[i * n + k]); q += snprintf(buf + q, cap - q, "]"); }
  q += snprintf(buf + q, cap - q, "],\"c\":[");
  for(int i = 0; i < n; i++) q += snprintf(buf + q, cap - q, "%s%ld", i ? "," : "", cr[i]);
  snprintf(buf + q, cap - q, "]}");
  VRT_EMIT("%s", buf);
  free(buf); free(v); free(rk); free(c); free(cr);
}

typedef struct { uivector *lab; matrix *cen; long iters; } kmres;
static void km_run(matrix *m, int k, int init, int th, uint32_t seed, kmres *r){
  initUIVector(&r->lab); initMatrix(&r->cen);
  STAGE("KMeans(k=%d,init=%d,threads=%d,seed=%u)", k, init, th, seed);
  srand_(seed); g_iters = 0;
  KMeans(m, (size_t)k, init, r->lab, r->cen, (size_t)th);
  r->iters = g_iters;
}
static void km_free(kmres *r){ DelUIVector(&r->lab); DelMatrix(&r->cen); }
static int km_same(kmres *a, kmres *b){
  if(a->lab->size != b->lab->size || a->cen->row != b->cen->row || a->cen->col != b->cen->col) return 0;
  for(size_t i = 0; i < a->lab->size; i++) if(a->lab->data[i] != b->lab->data[i]) return 0;
  for(size_t i = 0; i < a->cen->row; i++) for(size_t j = 0; j < a->cen->col; j++) if(memcmp(&a->cen->data[i][j], &b->cen->data[i][j], 8)) return 0;
  return 1;
}
static void emit_km(pset *p, int k, int init, int th, kmres *r){
  int n = p->n, d = p->d; size_t cap = (size_t)n * 12 + (size_t)k * d * 24 + 512; char *buf = malloc(cap); size_t q = 0;
  long *cnt = calloc(k, sizeof(long));
  q += snprintf(buf + q, cap - q, "{\"e\":\"Km\",\"k\":%d,\"init\":%d,\"th\":%d,\"labels\":[", k, init, th);
  for(size_t i = 0; i < r->lab->size; i++){ size_t v = r->lab->data[i]; if(v < (size_t)k) cnt[v]++; q += snprintf(buf + q, cap - q, "%s%ld", i ? "," : "", v < 2000000000UL ? (long)v : 2000000000L); }
  q += snprintf(buf + q, cap - q, "],\"cnt\":[");
  for(int c = 0; c < k; c++) q += snprintf(buf + q, cap - q, "%s%ld", c ? "," : "", cnt[c]);
  q += snprintf(buf + q, cap - q, "],\"cnum\":[");
  double cerr = 0; int shape_ok = (int)r->cen->row == k && (int)r->cen->col == d;
  for(int c = 0; c < k; c++){ q += snprintf(buf + q, cap - q, "%s[", c ? "," : "");
    for(int j = 0; j < d; j++){ double v = shape_ok ? r->cen->data[c][j] * (double)cnt[c] : NAN; long iv = (v == v && fabs(v) < 1.9e9) ? (long)llround(v) : 2000000000L;
      double e = fabs(v - (double)iv) / fmax(1.0, fabs((double)iv)); if(!(e == e)) e = 1e300; if(cnt[c] > 0 && e > cerr) cerr = e;
      q += snprintf(buf + q, cap - q, "%s%ld", j ? "," : "", iv); }
    q += snprintf(buf + q, cap - q, "]"); }
  /* nearest-centroid slack (Euclidean), units of 1e-6, saturating at 40000 */
  double slack = 0;
  if(shape_ok && (int)r->lab->size == n) for(int i = 0; i < n; i++){ size_t lb = r->lab->data[i]; if(lb >= (size_t)k){ slack = 1e300; break; }
    double dl = 0, dm = 1e300; for(int c = 0; c < k; c++){ double s = 0; for(int j = 0; j < d; j++){ double t = (double)p->x[i * d + j] - r->cen->data[c][j]; s += t * t; } s = sqrt(s); if(c == (int)lb) dl = s; if(s < dm) dm = s; }
    if(dl - dm > slack) slack = dl - dm; }
  else slack = 1e300;
  long sq = vq_unit(slack, 1e-6); if(sq > 40000) sq = 40000;
  int empty = 0; for(int c = 0; c < k; c++) if(cnt[c] == 0) empty++;
  snprintf(buf + q, cap - q, "],\"cerr\":%ld,\"slack\":%ld,\"iters\":%ld,\"conv\":%d,\"empty\":%d}", vq12(cerr), sq, r->iters, r->iters <= 100 ? 1 : 0, empty);
  VRT_EMIT("%s", buf);
  free(buf); free(cnt);
}

static int run_set(void *arg){
  pset *p = (pset *)arg; matrix *m = mkm(p); int n = p->n; vrng R = { p->seed };
#ifdef LIBSCIENTIFIC_VERIF
  libsci_verif_slice = slice_cb;
#endif
  if(p->kmonly){
    /* translated copy whose object farthest from the centroid sits at the origin: k-means must not depend on the origin */
    for(int k = 1; k <= 2 && k <= n; k++) for(int init = 2; init < 4; init++){
      kmres a; km_run(m, k, init, 1, 1, &a); emit_km(p, k, init, 1, &a); km_free(&a);
    }
  }
  else if(p->grid){
    /* both implementations for every size (metric 1 in the reduced mode: size n only), a second thread count at full size */
    for(int metric = 0; metric < 2; metric++) for(int k = 1; k <= n; k++){
      if(!p->full && metric == 1 && k != n) continue;
      do_sel("MaxDis", MaxDis, m, k, metric, 1);
      do_sel("MaxDis_Fast", MaxDis_Fast, m, k, metric, 1);
      if(k == n && (p->full || metric == 0)) do_sel("MaxDis_Fast", MaxDis_Fast, m, k, metric, 2 + (int)(p->id % 3));
    }
    if(p->full || p->id % 2 == 0) do_sel("MDC", MDC, m, p->id % 4 < 2 ? n : 1 + (int)(p->id % n), (int)((p->id / 2) % 2), 1 + (int)(p->id % 3 == 0));
    if(p->full) do_sel("MDC", MDC, m, 1 + (int)((p->id + 1) % n), (int)((p->id + 1) % 2), 1);
    if(p->distinct){
      if(p->full || p->id % 2 == 1) do_kmpp(m, p->id % 4 < 2 ? n : 1 + (int)(p->id % n), 1 + (int)(p->id % 3 == 0), (uint32_t)(p->seed + 1));
      if(p->full) do_kmpp(m, 1 + (int)((p->id + 1) % n), 1, (uint32_t)(p->seed + 2));
      /* k-means on every kmstride-th distinct point set: every k, every initialiser, one and several threads */
      if(p->kmstride > 0 && p->id % p->kmstride == 0)
        for(int k = 1; k <= n && k <= 6; k++) for(int init = 0; init < 4; init++){
          kmres a, b; uint32_t sd = (uint32_t)(p->seed * 31 + k * 4 + init);
          km_run(m, k, init, 1, sd, &a); emit_km(p, k, init, 1, &a);
          int th = 2 + (k + init) % 3;
          km_run(m, k, init, th, sd, &b);
          VRT_EMIT("{\"e\":\"KmTh\",\"k\":%d,\"init\":%d,\"th\":%d,\"same\":%d}", k, init, th, km_same(&a, &b));
          km_free(&a); km_free(&b);
        }
    }
  }
  else{
    for(int metric = 0; metric < 3; metric++) emit_ranks(p, metric);
    int sizes[8], ns = 0; sizes[ns++] = 1; sizes[ns++] = 2; sizes[ns++] = n; sizes[ns++] = n - 1;
    for(int i = 0; i < 3; i++) sizes[ns++] = (int)vr_int(&R, 1, n);
    for(int metric = 0; metric < 3; metric++) for(int s = 0; s < ns; s++){
      int k = sizes[s];
      do_sel("MaxDis", MaxDis, m, k, metric, (int)vr_int(&R, 1, 8));
      do_sel("MaxDis_Fast", MaxDis_Fast, m, k, metric, (int)vr_int(&R, 1, 8));
      if(s < 3) do_sel("MaxDis_Fast", MaxDis_Fast, m, k, metric, (int)vr_int(&R, 1, 8));
    }
    for(int metric = 0; metric < 3; metric++) for(int s = 0; s < ns; s += 2) do_sel("MDC", MDC, m, sizes[s], metric, (int)vr_int(&R, 1, 8));
    for(int s = 0; s < ns; s++) do_kmpp(m, sizes[s], (int)vr_int(&R, 1, 8), (uint32_t)vr_next(&R));
    int kmax = n < 6 ? n : 6;
    for(int init = 0; init < 4; init++) for(int rep = 0; rep < 2; rep++){
      int k = rep == 0 ? (int)vr_int(&R, 1, kmax) : 1 + (init + (int)p->id) % kmax;
      kmres a, b; uint32_t sd = (uint32_t)vr_next(&R);
      km_run(m, k, init, 1, sd, &a); emit_km(p, k, init, 1, &a);
      for(int t = 0; t < 2; t++){ int th = (int)vr_int(&R, 2, 8);
        km_run(m, k, init, th, sd, &b);
        VRT_EMIT("{\"e\":\"KmTh\",\"k\":%d,\"init\":%d,\"th\":%d,\"same\":%d}", k, init, th, km_same(&a, &b));
        km_free(&b); }
      km_free(&a);
    }
  }
  DelMatrix(&m);
  return 0;
}

static void drive(pset *p){
  size_t cap = (size_t)p->n * p->d * 8 + 256; char *buf = malloc(cap); size_t q = 0;
  VRT_EMIT("{\"e\":\"Reset\"}");
  q += snprintf(buf + q, cap - q, "{\"e\":\"Points\",\"id\":%ld,\"exact\":%d,\"grid\":%d,\"distinct\":%d,\"shifted\":%d,\"X\":[", p->id, p->exact, p->grid, p->distinct, p->kmonly);
  for(int i = 0; i < p->n; i++){ q += snprintf(buf + q, cap - q, "%s[", i ? "," : ""); for(int j = 0; j < p->d; j++) q += snprintf(buf + q, cap - q, "%s%ld", j ? "," : "", p->x[i * p->d + j]); q += snprintf(buf + q, cap - q, "]"); }
  snprintf(buf + q, cap - q, "]}");
  VRT_EMIT("%s", buf); free(buf);
  STAGE("none");
  int rc = vrt_run_child(run_set, p, 120);
  if(rc != 0) VRT_EMIT("{\"e\":\"Crash\",\"id\":%ld,\"rc\":%d,\"call\":\"%s\"}", p->id, rc, g_sh->call);
}

static void gen_rand(uint64_t seed, long idx, pset *p){
  vrng R = { seed * 0x9E3779B97F4A7C15ULL + (uint64_t)idx * 104729 + 5 };
  static const int NS[] = {3, 4, 5, 7, 9, 12, 13, 20, 33, 50, 80};
  int n = (idx % 3 == 0) ? NS[(idx / 3) % 11] : (int)vr_int(&R, 3, idx % 3 == 1 ? 12 : 80);
  int d = 1 + (int)(idx % 6);
  long lim = n <= 12 ? 300 : 1000;
  p->id = idx; p->n = n; p->d = d; p->exact = n <= 12; p->distinct = 1; p->grid = 0; p->x = malloc(sizeof(long) * n * d); p->seed = vr_next(&R);
  for(int i = 0; i < n; i++){
    for(;;){ int ok = 0; for(int j = 0; j < d; j++){ p->x[i * d + j] = vr_int(&R, -lim, lim); if(p->x[i * d + j] != 0) ok = 1; }
      for(int r = 0; r < i && ok; r++){ int eq = 1; for(int j = 0; j < d; j++) if(p->x[r * d + j] != p->x[i * d + j]) eq = 0; if(eq) ok = 0; }
      if(ok) break; }
  }
}

int main(int argc, char **argv){
  if(argc < 5){ fprintf(stderr, "usage: c17_drv out grid pointsfile seed | out rand seed first count\n"); return 2; }
  vrt_open(argv[1]);
  g_sh = mmap(NULL, sizeof(shared_t), PROT_READ | PROT_WRITE, MAP_SHARED | MAP_ANONYMOUS, -1, 0);
  if(g_sh == MAP_FAILED){ perror("mmap"); return 2; }
#ifdef LIBSCIENTIFIC_VERIF
  vrt_force_nproc(1);
#endif
  if(!strcmp(argv[2], "grid")){
    FILE *fp = fopen(argv[3], "r"); if(!fp){ perror(argv[3]); return 2; }
    uint64_t seed = (uint64_t)atoll(argv[4]); long id; int n, d, dis; int kmstride = argc > 5 ? atoi(argv[5]) : 1, full = argc > 6 ? atoi(argv[6]) : 1;
    while(fscanf(fp, "%ld %d %d %d", &id, &n, &d, &dis) == 4){
      pset p; memset(&p, 0, sizeof p); p.id = id; p.n = n; p.d = d; p.exact = 1; p.grid = 1; p.kmstride = kmstride; p.full = full; p.distinct = dis; p.seed = seed + (uint64_t)id; p.x = malloc(sizeof(long) * n * d);
      for(int i = 0; i < n * d; i++) if(fscanf(fp, "%ld", &p.x[i]) != 1) return 2;
      drive(&p); free(p.x);
    }
    fclose(fp);
  }
  else if(!strcmp(argv[2], "rand") && argc >= 6){
    uint64_t seed = (uint64_t)atoll(argv[3]); long first = atol(argv[4]), count = atol(argv[5]);
    for(long idx = first; idx < first + count; idx++){
      pset p; memset(&p, 0, sizeof p); gen_rand(seed, idx, &p); drive(&p);
      /* the same points translated so that the object farthest from the centroid is the origin (k-means only) */
      int far = 0; int64_t best = -1;
      for(int i = 0; i < p.n; i++){ int64_t acc = 0; for(int j = 0; j < p.d; j++){ int64_t S = 0; for(int r = 0; r < p.n; r++) S += p.x[r * p.d + j]; int64_t t = (int64_t)p.n * p.x[i * p.d + j] - S; acc += t * t; } if(acc > best){ best = acc; far = i; } }
      long *o = malloc(sizeof(long) * p.d); memcpy(o, p.x + far * p.d, sizeof(long) * p.d);
      for(int i = 0; i < p.n; i++) for(int j = 0; j < p.d; j++) p.x[i * p.d + j] -= o[j];
      p.kmonly = 1; p.exact = 0; drive(&p);
      free(o); free(p.x);
    }
  }
  else { fprintf(stderr, "bad mode\n"); return 2; }
  vrt_close();
  return 0;
}
