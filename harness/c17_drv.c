/* c17_drv.c - conformance driver for C17 (object selection and k-means).
 *
 * usage: c17_drv <out.ndjson> grid <pointsfile> <seed> <kmstride> <full> [<affstride>]
 *        c17_drv <out.ndjson> rand <seed> <first> <count>
 *        c17_drv <out.ndjson> cls  <seed> <first> <count>
 *        c17_drv <out.ndjson> corner <seed> <first> <count>
 *
 * grid: every line of <pointsfile> is a TLC-generated point set "id n d distinct x_11 .. x_nd" (small integer grid, ties
 *       everywhere): MaxDis and MaxDis_Fast for every size 1..n and metrics 0/1, MDC, and (distinct points only)
 *       KMeansppCenters and KMeans.  Every KMeans run with one thread also records its Lloyd iterations through hook H6
 *       (KmStart / KmIt / KmEnd).  Every <affstride>-th point set is run a second time TRANSLATED / SCALED UP by exactly
 *       representable amounts (classes K3/K4: offsets 1e3, 1e5, 1e6 per column with signs, scale 10^0..10^3).
 * rand: seeded integer point sets in general position (distinct rows, no zero row), 3..80 objects x 1..6 variables:
 *       selections for a sample of sizes, all three metrics, 1..8 threads; KMeans for k <= min(6, n), initialisers 0..3,
 *       1..8 threads.  Up to 12 objects TLC recomputes the distances from the logged points (exact = 1); beyond, and for
 *       the cosine metric, it works on the logged dense RANKS of the distances.
 * cls:  class-directed seeded point sets (INPUT-CLASSES.md): index -> (shape class K1/K2, affine class K3/K4/K5, history
 *       class K7, tiny sets whose Lloyd iterations TLC replays exactly).  The matrix handed to the library is
 *       a_ij = off_j + x_ij * 10^sexp  (x integer, general position); the trace carries x, off and sexp, all tolerances are
 *       computed by the specification from them.
 * corner: many small tight point sets at the far corner of K3 x K4 (offset / resolution 1e7..1e9) with a light call set: first
 *       pick + one greedy step of both max-min implementations (metrics 0/1), every k-means initialiser once.
 * Requests outside the property's quantifier (more selections than objects, duplicate rows for k-means++) are never made.
 * All library calls for one point set (one history in the K7 class) run in one child process under a watchdog; a crash
 * or hang becomes a Crash event.
 * Events: see spec/TraceSelect.tla and spec/TraceLloyd.tla.
 */
#include "scientific.h"
#include "verif_rt.h"
#include <sys/mman.h>

typedef struct { long id; int n, d, exact, distinct, grid, kmstride, full, kmonly; long *x; uint64_t seed;
                 int affine, sexp; long off[8]; double *a;     /* a_ij = off_j + x_ij * 10^sexp: what the library sees */
                 int tiny, hist, chain, shape, corner; } pset;

typedef struct { char call[96]; } shared_t;
static shared_t *g_sh;
#define STAGE(...) snprintf(g_sh->call, sizeof g_sh->call, __VA_ARGS__)

static long g_iters = 0;
static void slice_cb(const char *site, size_t th, size_t from, size_t to, size_t nn){ (void)from; (void)to; (void)nn; if(th == 0 && !strcmp(site, "getLabels_")) g_iters++; }

static long double p10(int e){ long double r = 1; for(int i = 0; i < (e < 0 ? -e : e); i++) r *= 10; return r; }
/* x * 10^sexp correctly rounded (10^|sexp| is exact in double up to 10^22; one multiplication or one division) */
static double scalex(long x, int sexp){ double P = (double)p10(sexp); return sexp >= 0 ? (double)x * P : (double)x / P; }
static void fill_actual(pset *p){
  p->a = malloc(sizeof(double) * p->n * p->d);
  for(int i = 0; i < p->n; i++) for(int j = 0; j < p->d; j++) p->a[i * p->d + j] = (double)p->off[j] + scalex(p->x[i * p->d + j], p->sexp);
}
static matrix *mkm(pset *p){ matrix *m; NewMatrix(&m, p->n, p->d); for(int i = 0; i < p->n; i++) for(int j = 0; j < p->d; j++) m->data[i][j] = p->a[i * p->d + j]; return m; }
/* (v - off_j) / 10^sexp in extended precision: the centroid coordinate in the units of the logged integer points */
static long double tox(pset *p, int j, double v){ long double t = (long double)v - (long double)p->off[j]; return p->sexp >= 0 ? t / p10(p->sexp) : t * p10(p->sexp); }

static void emit_sel(const char *method, int metric, int n, int th, uivector *s, int nobj){
  static char buf[4096]; int p = snprintf(buf, sizeof buf, "{\"e\":\"Sel\",\"method\":\"%s\",\"metric\":%d,\"n\":%d,\"th\":%d,\"seq\":[", method, metric, n, th);
  for(size_t i = 0; i < s->size && i < 400; i++) p += snprintf(buf + p, sizeof buf - p, "%s%ld", i ? "," : "", s->data[i] < (size_t)nobj ? (long)s->data[i] + 1 : 0L);
  snprintf(buf + p, sizeof buf - p, "]}");
  VRT_EMIT("%s", buf);
}

typedef void (*selfn)(matrix *, size_t, int, uivector *, size_t);
static void do_sel(const char *name, selfn f, matrix *m, int n, int metric, int th){
  uivector *s; initUIVector(&s);
  STAGE("%s(n=%d,metric=%d,threads=%d)", name, n, metric, th);
  f(m, (size_t)n, metric, s, (size_t)th);
  emit_sel(name, metric, n, th, s, (int)m->row);
  DelUIVector(&s);
}
static void do_kmpp(matrix *m, int n, int th, uint32_t seed){
  uivector *s; initUIVector(&s);
  STAGE("KMeansppCenters(n=%d,threads=%d,seed=%u)", n, th, seed);
  srand_(seed);
  KMeansppCenters(m, (size_t)n, s, th);
  emit_sel("KMeansppCenters", 0, n, th, s, (int)m->row);
  DelUIVector(&s);
}

static int dcmp(const void *a, const void *b){ double x = *(const double *)a, y = *(const double *)b; return x < y ? -1 : x > y; }
/* dense ranks (1..) of v[0..cnt) by exact double comparison */
static void dense_rank(const double *v, long cnt, long *rk){
  double *s = malloc(sizeof(double) * cnt); memcpy(s, v, sizeof(double) * cnt); qsort(s, cnt, sizeof(double), dcmp);
  long u = 0; for(long i = 0; i < cnt; i++) if(i == 0 || s[i] != s[u - 1]) s[u++] = s[i];
  for(long i = 0; i < cnt; i++){ long lo = 0, hi = u - 1; while(lo < hi){ long mid = (lo + hi) / 2; if(s[mid] < v[i]) lo = mid + 1; else hi = mid; } rk[i] = lo + 1; }
  free(s);
}
/* the library's definition of the three "distances" (C13 pins CalculateDistance to these), on the matrix the library sees */
static double libdist(pset *p, int i, int k, int metric){
  double s = 0, da = 0, db = 0;
  for(int j = 0; j < p->d; j++){ double a = p->a[i * p->d + j], b = p->a[k * p->d + j];
    if(metric == 0) s += (a - b) * (a - b); else if(metric == 1) s += fabs(a - b); else { s += a * b; da += a * a; db += b * b; } }
  if(metric == 0) return sqrt(s); if(metric == 1) return s; return s / (sqrt(da) * sqrt(db));
}
static void emit_ranks(pset *p, int metric){
  long n = p->n; double *v = malloc(sizeof(double) * n * n); long *rk = malloc(sizeof(long) * n * n);
  for(int i = 0; i < n; i++) for(int k = 0; k < n; k++) v[i * n + k] = i == k ? (metric == 2 ? 1.0 : 0.0) : (i < k ? libdist(p, i, k, metric) : libdist(p, k, i, metric));
  dense_rank(v, n * n, rk);
  double *c = malloc(sizeof(double) * n); long *cr = malloc(sizeof(long) * n);
  if(!p->affine){
    /* distance to the centroid: n^2 d^2 exactly in 64-bit integers */
    for(int i = 0; i < n; i++){ int64_t acc = 0; for(int j = 0; j < p->d; j++){ int64_t S = 0; for(int r = 0; r < n; r++) S += p->x[r * p->d + j]; int64_t t = (int64_t)n * p->x[i * p->d + j] - S; acc += t * t; } c[i] = (double)acc; }
    dense_rank(c, n, cr);
  }
  else{
    /* translated / scaled data: the distances to the centroid of the matrix the library sees, in extended precision,
       as integers on a scale on which the largest is 10^9 (the spec accepts a first pick within its tolerance of the top) */
    long double *dq = malloc(sizeof(long double) * n), dmax = 0;
    for(int i = 0; i < n; i++){ long double acc = 0; for(int j = 0; j < p->d; j++){ long double S = 0; for(int r = 0; r < n; r++) S += (long double)p->a[r * p->d + j]; long double t = (long double)p->a[i * p->d + j] - S / (long double)n; acc += t * t; } dq[i] = sqrtl(acc); if(dq[i] > dmax) dmax = dq[i]; }
    for(int i = 0; i < n; i++) cr[i] = dmax > 0 ? (long)llroundl(dq[i] / dmax * 1e9L) : 0;
    free(dq);
  }
  size_t cap = (size_t)n * n * 8 + n * 12 + 256; char *buf = malloc(cap); size_t q = 0;
  q += snprintf(buf + q, cap - q, "{\"e\":\"Ranks\",\"metric\":%d,\"R\":[", metric);
  for(int i = 0; i < n; i++){ q += snprintf(buf + q, cap - q, "%s[", i ? "," : ""); for(int k = 0; k < n; k++) q += snprintf(buf + q, cap - q, "%s%ld", k ? "," : "", rk[i * n + k]); q += snprintf(buf + q, cap - q, "]"); }
  q += snprintf(buf + q, cap - q, "],\"c\":[");
  for(int i = 0; i < n; i++) q += snprintf(buf + q, cap - q, "%s%ld", i ? "," : "", cr[i]);
  snprintf(buf + q, cap - q, "]}");
  VRT_EMIT("%s", buf);
  free(buf); free(v); free(rk); free(c); free(cr);
}

/* ---------------------------------------------------------------- k-means */
typedef struct { uivector *lab; matrix *cen; long iters; } kmres;

/* Lloyd iterations through hook H6 (VERIF_STATE at the end of every iteration of KMeans) */
static pset *g_chain = NULL; static int g_chain_k = 0;
static long match_row(pset *p, const double *row){   /* object (1..) whose row is bit-identical to the centroid, 0 if none */
  for(int i = 0; i < p->n; i++) if(!memcmp(p->a + (size_t)i * p->d, row, sizeof(double) * p->d)) return i + 1;
  return 0;
}
/* centroid rows * member counts as integers in the units of the logged points; res = largest rounding residual (1e-9 units) */
static size_t put_cnum(pset *p, char *buf, size_t cap, size_t q, matrix *cen, const long *cnt, int k, long *resq){
  int d = p->d; long double worst = 0;
  for(int c = 0; c < k; c++){ q += snprintf(buf + q, cap - q, "%s[", c ? "," : "");
    for(int j = 0; j < d; j++){ long double v = tox(p, j, cen->data[c][j]) * (long double)cnt[c]; long iv = (v == v && fabsl(v) < 1.9e9L) ? (long)llroundl(v) : 2000000000L;
      long double e = fabsl(v - (long double)iv); if(!(e == e)) e = 1e300L; if(cnt[c] > 0 && e > worst) worst = e;
      q += snprintf(buf + q, cap - q, "%s%ld", j ? "," : "", iv); }
    q += snprintf(buf + q, cap - q, "]"); }
  *resq = vq9((double)worst);
  return q;
}
static void state_cb(const char *site, size_t step, const void *a, const void *b, const void *c){
  if(!g_chain || strcmp(site, "KMeans")) return;
  pset *p = g_chain; const matrix *cen = a, *old = b; const uivector *lab = c; int k = g_chain_k, n = p->n, d = p->d;
  if((int)cen->row != k || (int)cen->col != d || (int)old->row != k || (int)old->col != d || (int)lab->size != n){ VRT_EMIT("{\"e\":\"KmIt\",\"it\":%zu,\"bad\":1}", step); return; }
  size_t cap = (size_t)n * 12 + (size_t)k * d * 24 + 512; char *buf = malloc(cap); size_t q = 0;
  if(step == 1){   /* the centroids the first assignment step used are the start objects */
    q += snprintf(buf + q, cap - q, "{\"e\":\"KmInit\",\"obj\":[");
    for(int cc = 0; cc < k; cc++) q += snprintf(buf + q, cap - q, "%s%ld", cc ? "," : "", match_row(p, old->data[cc]));
    snprintf(buf + q, cap - q, "]}"); VRT_EMIT("%s", buf); q = 0;
  }
  long *cnt = calloc(k, sizeof(long));
  q += snprintf(buf + q, cap - q, "{\"e\":\"KmIt\",\"it\":%zu,\"labels\":[", step);
  for(int i = 0; i < n; i++){ size_t v = lab->data[i]; if(v < (size_t)k) cnt[v]++; q += snprintf(buf + q, cap - q, "%s%ld", i ? "," : "", v < 2000000000UL ? (long)v : 2000000000L); }
  q += snprintf(buf + q, cap - q, "],\"cnt\":[");
  for(int cc = 0; cc < k; cc++) q += snprintf(buf + q, cap - q, "%s%ld", cc ? "," : "", cnt[cc]);
  q += snprintf(buf + q, cap - q, "],\"cnum\":[");
  long resq; q = put_cnum(p, buf, cap, q, (matrix *)cen, cnt, k, &resq);
  q += snprintf(buf + q, cap - q, "],\"re\":[");       /* an empty cluster is restarted at an object: which one */
  for(int cc = 0; cc < k; cc++) q += snprintf(buf + q, cap - q, "%s%ld", cc ? "," : "", cnt[cc] == 0 ? match_row(p, cen->data[cc]) : 0L);
  snprintf(buf + q, cap - q, "],\"res\":%ld}", resq);
  VRT_EMIT("%s", buf);
  free(buf); free(cnt);
}

static void km_call(pset *p, matrix *m, int k, int init, int th, uint32_t seed, kmres *r, int chain){
  STAGE("KMeans(k=%d,init=%d,threads=%d,seed=%u)", k, init, th, seed);
  srand_(seed); g_iters = 0;
#ifdef LIBSCIENTIFIC_VERIF
  if(chain){ g_chain = p; g_chain_k = k; libsci_verif_state = state_cb; VRT_EMIT("{\"e\":\"KmStart\",\"k\":%d,\"init\":%d,\"th\":%d}", k, init, th); }
#endif
  KMeans(m, (size_t)k, init, r->lab, r->cen, (size_t)th);
  r->iters = g_iters;
#ifdef LIBSCIENTIFIC_VERIF
  if(chain){ libsci_verif_state = 0; g_chain = NULL;
    size_t cap = (size_t)p->n * 12 + 256; char *buf = malloc(cap); size_t q = 0;
    q += snprintf(buf + q, cap - q, "{\"e\":\"KmEnd\",\"iters\":%ld,\"labels\":[", r->iters);
    for(size_t i = 0; i < r->lab->size; i++){ size_t v = r->lab->data[i]; q += snprintf(buf + q, cap - q, "%s%ld", i ? "," : "", v < 2000000000UL ? (long)v : 2000000000L); }
    snprintf(buf + q, cap - q, "]}"); VRT_EMIT("%s", buf); free(buf); }
#endif
}
static void km_run(pset *p, matrix *m, int k, int init, int th, uint32_t seed, kmres *r){
  initUIVector(&r->lab); initMatrix(&r->cen);
  km_call(p, m, k, init, th, seed, r, p->chain && th == 1);
}
static void km_free(kmres *r){ DelUIVector(&r->lab); DelMatrix(&r->cen); }
static int km_same(kmres *a, kmres *b){
  if(a->lab->size != b->lab->size || a->cen->row != b->cen->row || a->cen->col != b->cen->col) return 0;
  for(size_t i = 0; i < a->lab->size; i++) if(a->lab->data[i] != b->lab->data[i]) return 0;
  for(size_t i = 0; i < a->cen->row; i++) for(size_t j = 0; j < a->cen->col; j++) if(memcmp(&a->cen->data[i][j], &b->cen->data[i][j], 8)) return 0;
  return 1;
}
static void emit_km(pset *p, int k, int init, int th, kmres *r, int reuse){
  int n = p->n, d = p->d; size_t cap = (size_t)n * 12 + (size_t)k * d * 24 + (size_t)k * 12 + 512; char *buf = malloc(cap); size_t q = 0;
  long *cnt = calloc(k, sizeof(long));
  q += snprintf(buf + q, cap - q, "{\"e\":\"Km\",\"k\":%d,\"init\":%d,\"th\":%d,\"labels\":[", k, init, th);
  for(size_t i = 0; i < r->lab->size; i++){ size_t v = r->lab->data[i]; if(v < (size_t)k) cnt[v]++; q += snprintf(buf + q, cap - q, "%s%ld", i ? "," : "", v < 2000000000UL ? (long)v : 2000000000L); }
  q += snprintf(buf + q, cap - q, "],\"cnt\":[");
  for(int c = 0; c < k; c++) q += snprintf(buf + q, cap - q, "%s%ld", c ? "," : "", cnt[c]);
  q += snprintf(buf + q, cap - q, "],\"cnum\":[");
  double cerr = 0; int shape_ok = (int)r->cen->row == k && (int)r->cen->col == d;
  long *cres = calloc(k, sizeof(long));     /* per cluster: largest |centroid*count - integer| in 1e-9 units of the logged points */
  for(int c = 0; c < k; c++){ q += snprintf(buf + q, cap - q, "%s[", c ? "," : "");
    for(int j = 0; j < d; j++){
      long iv; double e;
      if(!p->affine){ double v = shape_ok ? r->cen->data[c][j] * (double)cnt[c] : NAN; iv = (v == v && fabs(v) < 1.9e9) ? (long)llround(v) : 2000000000L;
        e = fabs(v - (double)iv) / fmax(1.0, fabs((double)iv)); if(!(e == e)) e = 1e300; if(cnt[c] > 0 && e > cerr) cerr = e; }
      else{ long double v = shape_ok ? tox(p, j, r->cen->data[c][j]) * (long double)cnt[c] : (long double)NAN; iv = (v == v && fabsl(v) < 1.9e9L) ? (long)llroundl(v) : 2000000000L;
        long double ea = fabsl(v - (long double)iv); if(!(ea == ea)) ea = 1e300L; long eq = vq9((double)ea); if(cnt[c] > 0 && eq > cres[c]) cres[c] = eq; }
      q += snprintf(buf + q, cap - q, "%s%ld", j ? "," : "", iv); }
    q += snprintf(buf + q, cap - q, "]"); }
  q += snprintf(buf + q, cap - q, "],\"cres\":[");
  for(int c = 0; c < k; c++) q += snprintf(buf + q, cap - q, "%s%ld", c ? "," : "", cres[c]);
  /* nearest-centroid slack (Euclidean, in the units of the matrix the library sees), units of 1e-6, saturating at 40000 */
  double slack = 0;
  if(shape_ok && (int)r->lab->size == n) for(int i = 0; i < n; i++){ size_t lb = r->lab->data[i]; if(lb >= (size_t)k){ slack = 1e300; break; }
    double dl = 0, dm = 1e300; for(int c = 0; c < k; c++){ double s = 0; for(int j = 0; j < d; j++){ double t = p->a[i * d + j] - r->cen->data[c][j]; s += t * t; } s = sqrt(s); if(c == (int)lb) dl = s; if(s < dm) dm = s; }
    if(dl - dm > slack) slack = dl - dm; }
  else slack = 1e300;
  long sq = vq_unit(slack, 1e-6); if(sq > 40000) sq = 40000;
  int empty = 0; for(int c = 0; c < k; c++) if(cnt[c] == 0) empty++;
  snprintf(buf + q, cap - q, "],\"cerr\":%ld,\"slack\":%ld,\"iters\":%ld,\"conv\":%d,\"empty\":%d,\"reuse\":%d}", vq12(cerr), sq, r->iters, r->iters <= 100 ? 1 : 0, empty, reuse);
  VRT_EMIT("%s", buf);
  free(buf); free(cnt); free(cres);
}

/* a thread count of the wanted relation to the number of objects (class K6): 0 dividing, 1 not dividing, 2 more threads than objects */
static int th_class(int n, int cls, vrng *R){
  if(cls == 2 && n < 8) return (int)vr_int(R, n + 1, 8);
  for(int t = 0; t < 40; t++){ int th = (int)vr_int(R, 2, n < 8 ? n : 8); if((n % th == 0) == (cls == 0)) return th; }
  return cls == 0 ? 1 : 2 + (n % 2 == 0);
}

static void run_calls(pset *p){
  matrix *m = mkm(p); int n = p->n; vrng R = { p->seed };
  if(p->kmonly){
    /* translated copy whose object farthest from the centroid sits at the origin: k-means must not depend on the origin */
    for(int k = 1; k <= 2 && k <= n; k++) for(int init = 2; init < 4; init++){
      kmres a; km_run(p, m, k, init, 1, 1, &a); emit_km(p, k, init, 1, &a, 0); km_free(&a);
    }
  }
  else if(p->grid){
    /* both implementations for every size (metric 1 in the reduced mode: size n only), a second thread count at full size */
    for(int metric = 0; metric < 2; metric++) for(int k = 1; k <= n; k++){
      if(!p->full && metric == 1 && k != n) continue;
      if(p->affine && !(k == n || k == 2)) continue;
      do_sel("MaxDis", MaxDis, m, k, metric, 1);
      do_sel("MaxDis_Fast", MaxDis_Fast, m, k, metric, 1);
      if(k == n && (p->full || metric == 0)) do_sel("MaxDis_Fast", MaxDis_Fast, m, k, metric, 2 + (int)(p->id % 3));
    }
    if(p->full || p->id % 2 == 0) do_sel("MDC", MDC, m, p->id % 4 < 2 ? n : 1 + (int)(p->id % n), (int)((p->id / 2) % 2), 1 + (int)(p->id % 3 == 0));
    if(p->full) do_sel("MDC", MDC, m, 1 + (int)((p->id + 1) % n), (int)((p->id + 1) % 2), 1);
    if(p->distinct){
      if(p->full || p->id % 2 == 1) do_kmpp(m, p->id % 4 < 2 ? n : 1 + (int)(p->id % n), 1 + (int)(p->id % 3 == 0), (uint32_t)(p->seed + 1));
      if(p->full) do_kmpp(m, 1 + (int)((p->id + 1) % n), 1, (uint32_t)(p->seed + 2));
      /* k-means on every kmstride-th distinct point set: every k, every initialiser, one and several threads */
      if(p->kmstride > 0 && p->id % p->kmstride == 0)
        for(int k = 1; k <= n && k <= 6; k++) for(int init = 0; init < 4; init++){
          kmres a, b; uint32_t sd = (uint32_t)(p->seed * 31 + k * 4 + init);
          km_run(p, m, k, init, 1, sd, &a); emit_km(p, k, init, 1, &a, 0);
          int th = 2 + (k + init) % 3;
          km_run(p, m, k, init, th, sd, &b);
          VRT_EMIT("{\"e\":\"KmTh\",\"k\":%d,\"init\":%d,\"th\":%d,\"same\":%d}", k, init, th, km_same(&a, &b));
          km_free(&a); km_free(&b);
        }
    }
  }
  else if(p->corner == 2){
    /* light call set on a far-corner point set */
    for(int metric = 0; metric < 2; metric++) emit_ranks(p, metric);
    for(int metric = 0; metric < 2; metric++){
      do_sel("MaxDis", MaxDis, m, 2, metric, 1); do_sel("MaxDis_Fast", MaxDis_Fast, m, 2, metric, 1);
    }
    do_sel("MaxDis", MaxDis, m, n, 0, 1); do_sel("MaxDis_Fast", MaxDis_Fast, m, n, 0, 2);
    int kmax = n < 6 ? n : 6;
    for(int init = 0; init < 4; init++){
      int k = init == 3 ? 2 : (init == 0 ? (kmax < 3 ? kmax : 3) : (init == 2 ? kmax : 2 + (int)(p->id % (kmax - 1))));
      kmres a; uint32_t sd = (uint32_t)vr_next(&R);
      km_run(p, m, k, init, 1, sd, &a); emit_km(p, k, init, 1, &a, 0);
      if(init == (int)(p->id % 4)){ kmres b; km_run(p, m, k, init, 2, sd, &b); VRT_EMIT("{\"e\":\"KmTh\",\"k\":%d,\"init\":%d,\"th\":%d,\"same\":%d}", k, init, 2, km_same(&a, &b)); km_free(&b); }
      km_free(&a);
    }
  }
  else if(p->shape){
    /* class-directed set: selections at the boundary sizes for the three metrics with one thread count of every relation to
       the number of objects, k-means for EVERY initialiser at two cluster counts, reuse of already sized outputs */
    for(int metric = 0; metric < 3; metric++) emit_ranks(p, metric);
    int sizes[4], ns = 0; sizes[ns++] = n; sizes[ns++] = 1; if(n > 2) sizes[ns++] = 2 + (int)vr_int(&R, 0, n - 3); if(!p->hist) sizes[ns++] = n - 1;
    for(int metric = 0; metric < 3; metric++) for(int s = 0; s < ns; s++){
      int k = sizes[s]; if(p->hist && s > 0 && metric != (int)(p->id % 3)) continue;
      do_sel("MaxDis", MaxDis, m, k, metric, th_class(n, (metric + s) % 3, &R));
      do_sel("MaxDis_Fast", MaxDis_Fast, m, k, metric, th_class(n, (metric + s + 1) % 3, &R));
      if(s == 0) do_sel("MaxDis_Fast", MaxDis_Fast, m, k, metric, 1);
    }
    for(int metric = 0; metric < 3; metric++) do_sel("MDC", MDC, m, sizes[metric % ns], metric, th_class(n, metric, &R));
    do_sel("MDC", MDC, m, n, (int)(p->id % 3), th_class(n, 2 - (int)(p->id % 2), &R));
    do_kmpp(m, n, th_class(n, (int)(p->id % 3), &R), (uint32_t)vr_next(&R));
    do_kmpp(m, sizes[ns - 1], 1, (uint32_t)vr_next(&R));
    int kmax = n < 6 ? n : 6;
    kmres keep; int have = 0;
    for(int init = 0; init < 4; init++) for(int rep = 0; rep < 2; rep++){
      int k = rep == 0 ? (kmax >= 2 ? 2 + (int)((p->id + init) % (kmax - 1)) : 1) : (init % 2 ? kmax : 1 + (int)vr_int(&R, 0, kmax - 1));
      if(p->hist && rep == 1 && init < 2) continue;
      kmres a, b; uint32_t sd = (uint32_t)vr_next(&R);
      km_run(p, m, k, init, 1, sd, &a); emit_km(p, k, init, 1, &a, 0);
      int th = th_class(n, (init + rep) % 3, &R);
      km_run(p, m, k, init, th, sd, &b);
      VRT_EMIT("{\"e\":\"KmTh\",\"k\":%d,\"init\":%d,\"th\":%d,\"same\":%d}", k, init, th, km_same(&a, &b));
      km_free(&b);
      if(init >= 2 && rep == 0){
        /* class K7: the same call into outputs that are already sized for another k and hold another result */
        if(have){ kmres fresh = a; km_call(p, m, k, init, 1, sd, &keep, 0); emit_km(p, k, init, 1, &keep, 1);
          VRT_EMIT("{\"e\":\"KmRe\",\"k\":%d,\"init\":%d,\"same\":%d}", k, init, km_same(&fresh, &keep)); km_free(&a); }
        else { keep = a; have = 1; }
      }
      else km_free(&a);
    }
    if(have) km_free(&keep);
  }
  else{
    for(int metric = 0; metric < 3; metric++) emit_ranks(p, metric);
    int sizes[8], ns = 0; sizes[ns++] = 1; sizes[ns++] = 2; sizes[ns++] = n; sizes[ns++] = n - 1;
    for(int i = 0; i < 3; i++) sizes[ns++] = (int)vr_int(&R, 1, n);
    for(int metric = 0; metric < 3; metric++) for(int s = 0; s < ns; s++){
      int k = sizes[s];
      do_sel("MaxDis", MaxDis, m, k, metric, (int)vr_int(&R, 1, 8));
      do_sel("MaxDis_Fast", MaxDis_Fast, m, k, metric, (int)vr_int(&R, 1, 8));
      if(s < 3) do_sel("MaxDis_Fast", MaxDis_Fast, m, k, metric, (int)vr_int(&R, 1, 8));
    }
    for(int metric = 0; metric < 3; metric++) for(int s = 0; s < ns; s += 2) do_sel("MDC", MDC, m, sizes[s], metric, (int)vr_int(&R, 1, 8));
    for(int s = 0; s < ns; s++) do_kmpp(m, sizes[s], (int)vr_int(&R, 1, 8), (uint32_t)vr_next(&R));
    int kmax = n < 6 ? n : 6;
    for(int init = 0; init < 4; init++) for(int rep = 0; rep < 2; rep++){
      int k = rep == 0 ? (int)vr_int(&R, 1, kmax) : 1 + (init + (int)p->id) % kmax;
      kmres a, b; uint32_t sd = (uint32_t)vr_next(&R);
      km_run(p, m, k, init, 1, sd, &a); emit_km(p, k, init, 1, &a, 0);
      for(int t = 0; t < 2; t++){ int th = (int)vr_int(&R, 2, 8);
        km_run(p, m, k, init, th, sd, &b);
        VRT_EMIT("{\"e\":\"KmTh\",\"k\":%d,\"init\":%d,\"th\":%d,\"same\":%d}", k, init, th, km_same(&a, &b));
        km_free(&b); }
      km_free(&a);
    }
  }
  DelMatrix(&m);
}

static void emit_points(pset *p){
  size_t cap = (size_t)p->n * p->d * 8 + 512; char *buf = malloc(cap); size_t q = 0;
  VRT_EMIT("{\"e\":\"Reset\"}");
  q += snprintf(buf + q, cap - q, "{\"e\":\"Points\",\"id\":%ld,\"exact\":%d,\"grid\":%d,\"distinct\":%d,\"shifted\":%d,\"affine\":%d,\"sexp\":%d,\"off\":[", p->id, p->exact, p->grid, p->distinct, p->kmonly, p->affine, p->sexp);
  for(int j = 0; j < p->d; j++) q += snprintf(buf + q, cap - q, "%s%ld", j ? "," : "", p->off[j]);
  q += snprintf(buf + q, cap - q, "],\"shape\":%d,\"hist\":%d,\"tiny\":%d,\"corner\":%d,\"X\":[", p->shape, p->hist, p->tiny, p->corner);
  for(int i = 0; i < p->n; i++){ q += snprintf(buf + q, cap - q, "%s[", i ? "," : ""); for(int j = 0; j < p->d; j++) q += snprintf(buf + q, cap - q, "%s%ld", j ? "," : "", p->x[i * p->d + j]); q += snprintf(buf + q, cap - q, "]"); }
  snprintf(buf + q, cap - q, "]}");
  VRT_EMIT("%s", buf); free(buf);
}

/* one child: one point set, or (class K7) a history of point sets in ONE process: A, B (another shape), A again */
typedef struct { pset *p[3]; int np; } job;
static int run_job(void *arg){
  job *jb = (job *)arg;
#ifdef LIBSCIENTIFIC_VERIF
  libsci_verif_slice = slice_cb;
#endif
  for(int i = 0; i < jb->np; i++){ if(i > 0) emit_points(jb->p[i]); run_calls(jb->p[i]); }
  return 0;
}
static void drive_job(job *jb){
  for(int i = 0; i < jb->np; i++) if(!jb->p[i]->a) fill_actual(jb->p[i]);
  emit_points(jb->p[0]);
  STAGE("none");
  int rc = vrt_run_child(run_job, jb, 120);
  if(rc != 0) VRT_EMIT("{\"e\":\"Crash\",\"id\":%ld,\"rc\":%d,\"call\":\"%s\"}", jb->p[0]->id, rc, g_sh->call);
}
static void drive(pset *p){ job jb; jb.p[0] = p; jb.np = 1; drive_job(&jb); }

static void gen_points(vrng *R, pset *p, int n, int d, long lim){
  p->n = n; p->d = d; p->distinct = 1; p->x = malloc(sizeof(long) * n * d);
  for(int i = 0; i < n; i++){
    for(;;){ int ok = 0; for(int j = 0; j < d; j++){ p->x[i * d + j] = vr_int(R, -lim, lim); if(p->x[i * d + j] != 0) ok = 1; }
      for(int r = 0; r < i && ok; r++){ int eq = 1; for(int j = 0; j < d; j++) if(p->x[r * d + j] != p->x[i * d + j]) eq = 0; if(eq) ok = 0; }
      if(ok) break; }
  }
}
static void gen_rand(uint64_t seed, long idx, pset *p){
  vrng R = { seed * 0x9E3779B97F4A7C15ULL + (uint64_t)idx * 104729 + 5 };
  static const int NS[] = {3, 4, 5, 7, 9, 12, 13, 20, 33, 50, 80};
  int n = (idx % 3 == 0) ? NS[(idx / 3) % 11] : (int)vr_int(&R, 3, idx % 3 == 1 ? 12 : 80);
  int d = 1 + (int)(idx % 6);
  long lim = n <= 12 ? 300 : 1000;
  p->id = idx; p->exact = n <= 12; p->grid = 0; p->seed = vr_next(&R);
  p->n = n; p->d = d; p->distinct = 1; p->x = malloc(sizeof(long) * n * d);
  for(int i = 0; i < n; i++){
    for(;;){ int ok = 0; for(int j = 0; j < d; j++){ p->x[i * d + j] = vr_int(&R, -lim, lim); if(p->x[i * d + j] != 0) ok = 1; }
      for(int r = 0; r < i && ok; r++){ int eq = 1; for(int j = 0; j < d; j++) if(p->x[r * d + j] != p->x[i * d + j]) eq = 0; if(eq) ok = 0; }
      if(ok) break; }
  }
}

/* ---- class-directed sets.  Shapes (class K1 relations between objects and variables, class K2 block / slice boundaries): */
static const int SHAPES[][2] = {
  {3, 6}, {4, 6}, {5, 6},                 /* wide: fewer objects than variables            (shape codes 1..3)   */
  {3, 3}, {4, 4}, {6, 6},                 /* square                                          4..6                */
  {5, 4}, {6, 5}, {7, 6}, {4, 5},         /* objects = variables +- 1                        7..10               */
  {3, 1}, {17, 1}, {80, 1},               /* a single variable                               11..13              */
  {12, 2}, {24, 3}, {40, 5}, {80, 6},     /* tall                                            14..17              */
  {8, 2}, {15, 3}, {16, 4}, {17, 2},      /* multiples of 4 / 8 / 16 and +-1                 18..21              */
  {31, 3}, {32, 2}, {33, 4},              /* 32 +- 1                                         22..24              */
  {63, 2}, {64, 3}, {65, 1},              /* 64 +- 1                                         25..27              */
  {7, 2}, {9, 3}, {10, 2},                /* k * threads +- 1 for small thread counts        28..30              */
};
#define NSHAPES ((int)(sizeof SHAPES / sizeof SHAPES[0]))
/* affine classes: K3 translation (offset 1e3, 1e5, 1e6 with per-column signs, one column left in place when there are
   several) x scale 10^-3..10^3; K4 pure scale 10^-6..10^6; (0, 0) = the plain integer points */
static const long AFF[][2] = {
  {1000000, 0}, {1000000, -3}, {100000, -2}, {1000, -1}, {1000000, 3}, {100000, 1}, {1000, 2}, {1000000, -1},
  {100000, -3}, {1000, -3}, {1000000, -2}, {100000, 0}, {1000, 0}, {1000000, 1}, {100000, -1}, {1000, 1},
  {1000000, 2}, {100000, 2}, {1000, -2}, {100000, 3}, {1000, 3},
  {0, -6}, {0, -3}, {0, -1}, {0, 3}, {0, 6}, {0, -2}, {0, 1}, {0, 2}, {0, 0},
};
#define NAFF ((int)(sizeof AFF / sizeof AFF[0]))
static void set_affine(pset *p, long off, int sexp, vrng *R){
  p->affine = (off != 0 || sexp != 0); p->sexp = sexp;
  int keep = p->d >= 2 ? (int)vr_int(R, 0, 2 * p->d) : -1;     /* sometimes one column stays where it is */
  for(int j = 0; j < p->d; j++) p->off[j] = (j == keep) ? 0 : (vr_int(R, 0, 3) == 0 ? -off : off);
  if(off != 0){ int any = 0; for(int j = 0; j < p->d; j++) if(p->off[j] != 0) any = 1; if(!any) p->off[0] = off; }
  if(p->affine) p->exact = 0;
}
static void gen_cls(uint64_t seed, long idx, pset *p, int variant){
  vrng R = { seed * 0x9E3779B97F4A7C15ULL + (uint64_t)idx * 7919 + 77 + (uint64_t)variant * 1000003ULL };
  memset(p, 0, sizeof *p);
  int tiny = (idx % 5 == 4);
  int shape = (int)((idx * 7 + idx / NSHAPES) % NSHAPES);
  int n = SHAPES[shape][0], d = SHAPES[shape][1];
  if(variant == 1){ shape = (shape + 11) % NSHAPES; n = SHAPES[shape][0] > 20 ? 9 : SHAPES[shape][0]; d = SHAPES[shape][1]; }   /* the other shape of a history */
  long lim = n <= 12 ? 300 : 1000;
  if(tiny){ n = 3 + (int)vr_int(&R, 0, 4); d = 1 + (int)vr_int(&R, 0, 2); lim = 20; shape = -1; }
  /* the far corner of K3 x K4: the largest offset / resolution ratios the specification's arithmetic admits (1e7..1e9), on small
     tight point sets (cancellation in one-pass distance / variance formulas, single-precision accumulators, relative thresholds) */
  int corner = (!tiny && idx % 5 == 2 && variant == 0);
  if(corner){ n = 6 + (int)((idx / 5) % 9); d = 1 + (int)((idx / 5 + idx / 45) % 6); lim = 60 + 40 * (long)((idx / 5) % 4); shape = -1; }
  p->id = idx; p->grid = 0; p->seed = vr_next(&R); p->exact = 0; p->shape = shape + 2;      /* shape code > 0 marks the mode */
  gen_points(&R, p, n, d, lim);
  static const long CORNER[][2] = { {1000000, -3}, {1000000, -2}, {100000, -3}, {1000000, -3}, {100000, -2}, {1000000, -1}, {1000000, -3}, {100000, -3} };
  const long *af = corner ? CORNER[(idx / 5) % 8] : AFF[(idx * 11 + idx / NAFF) % NAFF];
  set_affine(p, af[0], (int)af[1], &R);
  if(corner){ for(int j = 0; j < p->d; j++) if(p->off[j] == 0) p->off[j] = af[0]; }      /* every column far away */
  if(!p->affine && n <= 12) p->exact = 1;
  p->tiny = tiny;
  /* TLC replays the Lloyd iterations of tiny sets in exact arithmetic; a non-representable scale far from the origin
     would leave too little room between rounding and the smallest centroid movement: not recorded there */
  p->chain = tiny && (p->sexp >= 0 || af[0] <= 100000);
  p->hist = (!tiny && !corner && idx % 4 == 1 && n <= 40);
  p->corner = corner;
}

int main(int argc, char **argv){
  if(argc < 5){ fprintf(stderr, "usage: c17_drv out grid pointsfile seed [kmstride full affstride] | out rand seed first count | out cls seed first count\n"); return 2; }
  vrt_open(argv[1]);
  g_sh = mmap(NULL, sizeof(shared_t), PROT_READ | PROT_WRITE, MAP_SHARED | MAP_ANONYMOUS, -1, 0);
  if(g_sh == MAP_FAILED){ perror("mmap"); return 2; }
#ifdef LIBSCIENTIFIC_VERIF
  vrt_force_nproc(1);
#endif
  if(!strcmp(argv[2], "grid")){
    FILE *fp = fopen(argv[3], "r"); if(!fp){ perror(argv[3]); return 2; }
    uint64_t seed = (uint64_t)atoll(argv[4]); long id; int n, d, dis; int kmstride = argc > 5 ? atoi(argv[5]) : 1, full = argc > 6 ? atoi(argv[6]) : 1;
    int affstride = argc > 7 ? atoi(argv[7]) : 0;
    while(fscanf(fp, "%ld %d %d %d", &id, &n, &d, &dis) == 4){
      pset p; memset(&p, 0, sizeof p); p.id = id; p.n = n; p.d = d; p.exact = 1; p.grid = 1; p.kmstride = kmstride; p.full = full; p.distinct = dis; p.seed = seed + (uint64_t)id; p.x = malloc(sizeof(long) * n * d);
      for(int i = 0; i < n * d; i++) if(fscanf(fp, "%ld", &p.x[i]) != 1) return 2;
      p.chain = 1;
      drive(&p); free(p.a); p.a = NULL;
      if(affstride < 0 || (affstride > 0 && id % affstride == affstride / 2)){   /* < 0: always (replay of one set) */
        /* the same point set translated (and scaled up) by exactly representable amounts: K3 / K4 on tie-rich data */
        static const long GOFF[] = {1000000, 100000, 1000, 1000000, 0, 100000}; static const int GSEXP[] = {0, 1, 3, 2, 3, 0};
        vrng R = { seed * 77 + (uint64_t)id }; int c = (int)((((uint64_t)id * 2654435761ULL) >> 16) % 6);
        set_affine(&p, GOFF[c], GSEXP[c], &R); p.exact = 1; p.kmstride = 1; p.full = 0;
        drive(&p); free(p.a);
      }
      free(p.x);
    }
    fclose(fp);
  }
  else if(!strcmp(argv[2], "rand") && argc >= 6){
    uint64_t seed = (uint64_t)atoll(argv[3]); long first = atol(argv[4]), count = atol(argv[5]);
    for(long idx = first; idx < first + count; idx++){
      pset p; memset(&p, 0, sizeof p); gen_rand(seed, idx, &p); drive(&p); free(p.a); p.a = NULL;
      /* the same points translated so that the object farthest from the centroid is the origin (k-means only) */
      int far = 0; int64_t best = -1;
      for(int i = 0; i < p.n; i++){ int64_t acc = 0; for(int j = 0; j < p.d; j++){ int64_t S = 0; for(int r = 0; r < p.n; r++) S += p.x[r * p.d + j]; int64_t t = (int64_t)p.n * p.x[i * p.d + j] - S; acc += t * t; } if(acc > best){ best = acc; far = i; } }
      long *o = malloc(sizeof(long) * p.d); memcpy(o, p.x + far * p.d, sizeof(long) * p.d);
      for(int i = 0; i < p.n; i++) for(int j = 0; j < p.d; j++) p.x[i * p.d + j] -= o[j];
      p.kmonly = 1; p.exact = 0; drive(&p);
      free(o); free(p.x); free(p.a);
    }
  }
  else if(!strcmp(argv[2], "cls") && argc >= 6){
    uint64_t seed = (uint64_t)atoll(argv[3]); long first = atol(argv[4]), count = atol(argv[5]);
    for(long idx = first; idx < first + count; idx++){
      pset a, b, a2; gen_cls(seed, idx, &a, 0);
      job jb; jb.p[0] = &a; jb.np = 1;
      if(a.hist){
        /* class K7: A, then another shape with its own data in the SAME process, then A again */
        gen_cls(seed, idx, &b, 1); b.hist = 2; b.tiny = 0; b.chain = 0;
        a2 = a; a2.a = NULL; a2.hist = 3;
        jb.p[1] = &b; jb.p[2] = &a2; jb.np = 3;
      }
      drive_job(&jb);
      free(a.x); free(a.a); if(jb.np == 3){ free(b.x); free(b.a); free(a2.a); }
    }
  }
  else if(!strcmp(argv[2], "corner") && argc >= 6){
    uint64_t seed = (uint64_t)atoll(argv[3]); long first = atol(argv[4]), count = atol(argv[5]);
    static const long CORNER2[][2] = { {1000000, -3}, {1000000, -2}, {100000, -3}, {1000000, -3}, {100000, -2}, {1000000, -1}, {1000000, -3}, {100000, -3} };
    for(long idx = first; idx < first + count; idx++){
      pset p; memset(&p, 0, sizeof p);
      vrng R = { seed * 0x9E3779B97F4A7C15ULL + (uint64_t)idx * 6151 + 991 };
      int n = 6 + (int)(idx % 9), d = 1 + (int)((idx / 3) % 6); long lim = 40 + 30 * (long)(idx % 5);
      p.id = idx; p.seed = vr_next(&R); p.shape = 1; p.corner = 2;
      gen_points(&R, &p, n, d, lim);
      const long *af = CORNER2[(idx / 2) % 8];
      set_affine(&p, af[0], (int)af[1], &R);
      for(int j = 0; j < p.d; j++) if(p.off[j] == 0) p.off[j] = af[0];
      drive(&p); free(p.x); free(p.a);
    }
  }
  else { fprintf(stderr, "bad mode\n"); return 2; }
  vrt_close();
  return 0;
}
