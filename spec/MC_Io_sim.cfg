SPECIFICATION SimSpec
CONSTANTS
  Paths = {"p1", "p2"}
  MaxHist = 5
  DropTables = TRUE
  SaveAll = TRUE
CONSTRAINT Emit
CHECK_DEADLOCK FALSE
