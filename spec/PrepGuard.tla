---- MODULE PrepGuard ----
(* C10: the zero-scale guard of MatrixPreprocess as the property sees it (model level, no code involved).           *)
(* The code decides "this column has no spread -> write exact zeros" by |stored scaling| < Theta.  The property      *)
(* ("columns without spread become exactly zero", "arbitrary offsets" up to 1e6, rows 2..60, genuine spreads >= 0.02, *)
(* non-zero means >= 1e-3) is deliverable by such a guard iff Theta lies in the window                               *)
(*        rounding noise of a constant column  <  Theta  <=  smallest admissible genuine scale.                      *)
(* GuardSound is checked for every (rows, magnitude) of the quantifier.  With Theta = 1e-3 (EPSILON of numeric.h)     *)
(* it holds; with Theta = DBL_EPSILON (2.2e-16, i.e. 0 in 1e-9 units) it fails for every magnitude, with 1e-6 it fails for       *)
(* Pareto scaling from magnitudes of about 100 on, with 1.4e-3 it zeroes genuine level scalings: those               *)
(* configurations are kept as negative self-tests (MC_PrepGuard_eps / _1e6 / _1p4e3.cfg must be violated).             *)
EXTENDS PrepRound
CONSTANTS Theta9,             \* the guard's threshold in 1e-9 units (<= 1.4e-3)
          MaxRows, Mags       \* rows 2..MaxRows, real magnitudes |c| of the constant column
VARIABLES n, mag
Init == n \in 2..MaxRows /\ mag \in Mags
Next == FALSE /\ UNCHANGED <<n, mag>>
Spec == Init /\ [][Next]_<<n, mag>>
MinScale9 == 1000000                                           \* 1e-3: smallest admissible |mean| (level scaling); sdev, range, rms >= 0.0141
ThetaSq15 == MulDivQ(Theta9, Theta9, 1000)                     \* Theta^2 in 1e-15 units: Pareto scaling stores sqrt(sdev)
Noise15 == NoiseSdev15(n, mag)                                 \* largest sdev rounding noise can fake for a constant column, 1e-15 units
GuardRecognisesConstant == Noise15 \div 1000000 < Theta9 /\ Noise15 < ThetaSq15      \* noise < Theta  and  sqrt(noise) < Theta
GuardKeepsGenuine == Theta9 <= MinScale9
GuardSound == GuardRecognisesConstant /\ GuardKeepsGenuine
====
