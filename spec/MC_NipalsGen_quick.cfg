SPECIFICATION Spec
CONSTANTS
  MaxR = 3
  MaxC = 3
  FullCells = 4
  SampleMod = 41
  SampleRes = 7
  Ex = 3
  YNorm = FALSE
  Kinds = {"mat", "pert", "resp"}
  ProdTier = "quick"
  Seed = 1
INVARIANT Theorems
CONSTRAINT Emit
CHECK_DEADLOCK FALSE
