---- MODULE MlrDefs ----
(* C07.  Definitions and theorems of ordinary least squares with intercept over the rationals (no variables, no constants):   *)
(* shared by the case generator Mlr.tla, the trace specification TraceMlr.tla and the history model MlrHist.tla.             *)
(*   D = [1 X],  B = Solve(D'D, D'y),  fitted = D B,  resid = fitted - y (the library's sign),                              *)
(*   RSS = sum resid^2,  TSS = sum (y - mean y)^2,  R2 = 1 - RSS/TSS,  SDEC^2 = RSS/n.                                       *)
(* Bounds: entries in -2..2 (shifted predictors up to |5|), n <= 5, p <= 2: |det D'D| <= 2000 for the unshifted cases,        *)
(* every intermediate stays below 2^31 (an overflow is an error of TLC, never a verdict).                                    *)
EXTENDS RatLA
Vals == -2..2

\* ---- definitions --------------------------------------------------------------------------------------------------
RECURSIVE ISumTo(_, _)
ISumTo(f, m) == IF m = 0 THEN 0 ELSE f[m] + ISumTo(f, m - 1)
SumInt(f) == ISumTo(f, Len(f))
Design(X) == [i \in 1..Len(X) |-> <<1>> \o X[i]]
Gram(D) == [a \in 1..Len(D[1]) |-> [b \in 1..Len(D[1]) |-> SumInt([i \in 1..Len(D) |-> D[i][a] * D[i][b]])]]
Moment(D, y) == [a \in 1..Len(D[1]) |-> SumInt([i \in 1..Len(D) |-> D[i][a] * y[i]])]
\* reference definition: rational Gauss-Jordan with row exchange (RatLA)
CoefGJ(X, y) == LET D == Design(X)  v == Moment(D, y)  S == SolveInt(Gram(D), [a \in 1..Len(v) |-> <<v[a]>>]) IN [a \in 1..Len(v) |-> S[2][a][1]]
\* second, independent exact solver used for the bulk of the work: Cramer's rule in integer arithmetic; the coefficients are
\* kept over the common denominator det(D'D) > 0:  b[a] = num[a] / det
Det2(A) == A[1][1] * A[2][2] - A[1][2] * A[2][1]
Det3(A) == A[1][1] * (A[2][2] * A[3][3] - A[2][3] * A[3][2]) - A[1][2] * (A[2][1] * A[3][3] - A[2][3] * A[3][1])
           + A[1][3] * (A[2][1] * A[3][2] - A[2][2] * A[3][1])
Det(A) == IF Len(A) = 1 THEN A[1][1] ELSE IF Len(A) = 2 THEN Det2(A) ELSE Det3(A)
Repl(A, c, v) == [i \in 1..Len(A) |-> [j \in 1..Len(A) |-> IF j = c THEN v[i] ELSE A[i][j]]]
\* least squares on an arbitrary design matrix D (1..3 columns, with or without a column of ones): direct OrdinaryLeastSquares()
CoefD(D, y) == LET G == Gram(D)  v == Moment(D, y) IN [num |-> [c \in 1..Len(G) |-> Det(Repl(G, c, v))], det |-> Det(G)]
CoefCD(X, y) == CoefD(Design(X), y)
FullRankD(D) == Det(Gram(D)) # 0
FullRank(X) == Det(Gram(Design(X))) # 0
Rat(cd) == [a \in 1..Len(cd.num) |-> Norm(cd.num[a], cd.det)]
Coef(X, y) == Rat(CoefCD(X, y))
PredNum(cd, x) == cd.num[1] + SumInt([j \in 1..Len(x) |-> cd.num[j + 1] * x[j]])            \* (intercept + x . slopes) * det
FittedNum(X, cd) == [i \in 1..Len(X) |-> PredNum(cd, X[i])]
ResidNum(X, y, cd) == [i \in 1..Len(X) |-> PredNum(cd, X[i]) - y[i] * cd.det]                \* the library's sign: fitted - observed
Fitted(X, cd) == [i \in 1..Len(X) |-> Norm(PredNum(cd, X[i]), cd.det)]
Resid(X, y, cd) == LET r == ResidNum(X, y, cd) IN [i \in 1..Len(X) |-> Norm(r[i], cd.det)]
RssOf(r) == RSum([i \in 1..Len(r) |-> RSq(r[i])])
Rss(X, y, cd) == RssOf(Resid(X, y, cd))
Tss(y) == LET n == Len(y)  s == SumInt(y)  q == SumInt([i \in 1..n |-> y[i] * y[i]]) IN Norm(n * q - s * s, n)   \* sum y^2 - (sum y)^2/n
R2Of(rss, tss) == RSub(ROne, RDiv(rss, tss))
Sdec2Of(rss, n) == RDiv(rss, RI(n))

\* ---- theorems (each takes the case and its coefficients cd = CoefCD(X, y)) -----------------------------------------
ThSolvers(X, y, cd) == CoefGJ(X, y) = Rat(cd)
ThNormal(X, y, cd) == LET r == ResidNum(X, y, cd) IN
   /\ SumInt(r) = 0
   /\ \A j \in 1..Len(X[1]) : SumInt([i \in 1..Len(X) |-> r[i] * X[i][j]]) = 0
\* least-squares optimality against every competing coefficient vector over {-1,0,1}
Competitors(p) == [1..(p + 1) -> {-1, 0, 1}]
LinearIn(X, c) == [i \in 1..Len(X) |-> c[1] + SumInt([j \in 1..Len(X[1]) |-> c[j + 1] * X[i][j]])]
IntRss(X, y, c) == LET f == LinearIn(X, c) IN SumInt([i \in 1..Len(X) |-> (f[i] - y[i]) * (f[i] - y[i])])
ThMinimal(X, y, cd) == LET best == Rss(X, y, cd) IN \A c \in Competitors(Len(X[1])) : RLeq(best, RI(IntRss(X, y, c)))
\* y exactly linear in X is recovered exactly
RecoverSet(p) == IF p = 1 THEN { <<-1, 2>>, <<2, -1>> } ELSE { <<-1, 2, 2>>, <<2, -1, 1>> }
ThRecover(X) == \A c \in RecoverSet(Len(X[1])) :
   LET yl == LinearIn(X, c)  cd == CoefCD(X, yl) IN
   /\ Rat(cd) = [a \in 1..(Len(X[1]) + 1) |-> RI(c[a])]
   /\ \A i \in 1..Len(X) : ResidNum(X, yl, cd)[i] = 0
AffinePairs == {<<2, 1>>, <<-1, 3>>}
ThAffine(X, y, cd) == LET b == Rat(cd)  rss == Rss(X, y, cd)  t == Tss(y) IN \A k \in AffinePairs :
   LET y2 == [i \in 1..Len(y) |-> k[1] * y[i] + k[2]]  cd2 == CoefCD(X, y2)  rss2 == Rss(X, y2, cd2) IN
   /\ Rat(cd2) = [a \in 1..Len(b) |-> IF a = 1 THEN RAdd(RMul(RI(k[1]), b[1]), RI(k[2])) ELSE RMul(RI(k[1]), b[a])]
   /\ rss2 = RMul(RI(k[1] * k[1]), rss)                                                   \* so SDEC scales by |c|
   /\ (IsZ(t) \/ R2Of(rss2, Tss(y2)) = R2Of(rss, t))                                      \* R2 unchanged
\* invertible integer re-mixings of the predictors
Mixes(p) == IF p = 1 THEN { <<<<2>>>>, <<<<-1>>>> } ELSE { <<<<2, 1>>, <<1, 1>>>>, <<<<1, -1>>, <<1, 1>>>> }
MixX(X, M) == [i \in 1..Len(X) |-> [j \in 1..Len(M[1]) |-> SumInt([h \in 1..Len(M) |-> X[i][h] * M[h][j]])]]
ThRemix(X, y, cd) == LET f == Fitted(X, cd)  b == Rat(cd) IN \A M \in Mixes(Len(X[1])) :
   LET X2 == MixX(X, M)  cd2 == CoefCD(X2, y)  b2 == Rat(cd2) IN
   /\ Fitted(X2, cd2) = f
   /\ b2[1] = b[1]
   /\ \A h \in 1..Len(M) : b[h + 1] = RSum([j \in 1..Len(M[1]) |-> RMul(RI(M[h][j]), b2[j + 1])])      \* slopes = M . new slopes
ThR2Range(X, y, cd) == IsZ(Tss(y)) \/ LET r == R2Of(Rss(X, y, cd), Tss(y)) IN RLeq(RZero, r) /\ RLeq(r, ROne)

\* ---- further theorems (location, kernel, regression through the origin) --------------------------------------------------
\* the two ways of writing TSS agree over the rationals (the one-pass form is only wrong in floating point), and TSS does not move with y
TssTwoPass(y) == LET n == Len(y)  m == Norm(SumInt(y), n) IN RSum([i \in 1..n |-> RSq(RSub(RI(y[i]), m))])
ThTss(y) == /\ Tss(y) = TssTwoPass(y)
            /\ \A d \in {3, 0 - 7} : Tss([i \in 1..Len(y) |-> y[i] + d]) = Tss(y)
\* moving the predictors: X[i][j] + h[j] spans the same space with the column of ones: same fitted values and slopes, intercept b0 - h.b
XShifts(p) == IF p = 1 THEN { <<1>>, <<0 - 3>> } ELSE { <<1, 0 - 2>>, <<0 - 3, 0>> }
ShiftX(X, h) == [i \in 1..Len(X) |-> [j \in 1..Len(X[1]) |-> X[i][j] + h[j]]]
ThShiftX(X, y, cd) == LET b == Rat(cd)  f == Fitted(X, cd) IN \A h \in XShifts(Len(X[1])) :
   LET X2 == ShiftX(X, h)  cd2 == CoefCD(X2, y)  b2 == Rat(cd2) IN
   /\ Fitted(X2, cd2) = f
   /\ \A j \in 1..Len(h) : b2[j + 1] = b[j + 1]
   /\ b2[1] = RSub(b[1], RSum([j \in 1..Len(h) |-> RMul(RI(h[j]), b[j + 1])]))
\* the kernel the library runs: explicit inverse of Z'Z (here by Cramer, column by column) times Z'y
Unit(m, c) == [i \in 1..m |-> IF i = c THEN 1 ELSE 0]
InvInt(G) == LET d == Det(G) IN [a \in 1..Len(G) |-> [c \in 1..Len(G) |-> Norm(Det(Repl(G, a, Unit(Len(G), c))), d)]]
MatVecR(M, v) == [a \in 1..Len(M) |-> RSum([c \in 1..Len(v) |-> RMul(M[a][c], RI(v[c]))])]
ThKernel(X, y, cd) == LET D == Design(X) IN MatVecR(InvInt(Gram(D)), Moment(D, y)) = Rat(cd)
\* regression through the origin on the predictors alone (direct OrdinaryLeastSquares on X): residuals orthogonal to every column
ThOrigin(X, y) == FullRankD(X) => LET cd == CoefD(X, y) IN
   \A j \in 1..Len(X[1]) : SumInt([i \in 1..Len(X) |-> (SumInt([q \in 1..Len(X[1]) |-> cd.num[q] * X[i][q]]) - y[i] * cd.det) * X[i][j]]) = 0
====
