---- MODULE CvClassify ----
(* C05.  Evaluates the class definitions of CvDomain.tla on RECORDED Run events (ndjson file named by environment variable RUNS),  *)
(* so that the evidence counts the input classes of what was really executed, as TLC classifies it (coverage.classes).            *)
EXTENDS CvDomain, Json, IOUtils
VARIABLE x
Runs == ndJsonDeserialize(IOEnv.RUNS)
AsCase(r) == [scheme |-> r.scheme, algo |-> r.algo, n |-> r.n, p |-> r.p, ny |-> r.ny, nlv |-> r.nlv, xs |-> r.xs, ys |-> r.ys, k |-> r.k, groups |-> r.groups,
              iters |-> r.iters, nth |-> r.nth, dcls |-> r.dcls, sens |-> r.sensall, nproc |-> r.nproc, dseed |-> 0, lab |-> r.lab]
CInit == x = 0
CNext == UNCHANGED x
CSpec == CInit /\ [][CNext]_x
Emit == PrintT("@@" \o ToJson([cls |-> [i \in 1..Len(Runs) |-> IF Admissible(AsCase(Runs[i])) THEN Classes(AsCase(Runs[i])) ELSE {"OUTSIDE"}]]))
====
