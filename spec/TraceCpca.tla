---- MODULE TraceCpca ----
(* Trace specification for C09, recorded by c09_drv.c.                                                                *)
(* One model = Reset, Fit, Spectrum, Shares, Oracle, then per component k: Cpca, Truth, PcaRef; scaling 0: a final Scale. *)
(* From the logged oracle spectrum TLC computes the number of separated leading components and two bound sequences:   *)
(* for CPCA's criterion (eps = sqrt(n*1e-18), floor 1e-7) and for PCA's (eps = sqrt(n*1e-10)).                         *)
EXTENDS Cpca, TraceBase
CONSTANT PropOnly
VARIABLES l, sig, ncmp, bTc, bTp
tvars == <<cvars, l, sig, ncmp, bTc, bTp>>
Ev == Tr[l]
Step == l' = l + 1 /\ UNCHANGED <<left, cok>>
OracleTolC == 1000000

TInit == CInit /\ l = 1 /\ sig = <<>> /\ ncmp = 0 /\ bTc = <<>> /\ bTp = <<>>

TReset == /\ l <= Len(Tr) /\ Ev.e = "Reset" /\ Step
          /\ cphase \in {"Idle", "Comp", "Dropped"} /\ (cphase = "Comp" => ck = cnpc)       \* exactly npc components were reported
          /\ cphase' = "Idle" /\ ck' = 0 /\ sumTotal' = 0 /\ lastTotal' = One /\ curTotal' = 0
          /\ UNCHANGED <<cn, nb, cnpc, prevBlock, share, sig, ncmp, bTc, bTp>>
TDropped == /\ l <= Len(Tr) /\ Ev.e = "Dropped" /\ Step /\ cphase \in {"Fit", "Spectrum"}
            /\ cphase' = "Dropped"
            /\ UNCHANGED <<cn, nb, cnpc, ck, prevBlock, share, lastTotal, sumTotal, curTotal, sig, ncmp, bTc, bTp>>
TFit == /\ l <= Len(Tr) /\ Ev.e = "Fit" /\ Step /\ cphase = "Idle"
        /\ PropFitC(Ev)
        /\ cn' = Ev.n /\ nb' = Ev.blocks /\ cnpc' = Ev.npc /\ ck' = 0
        /\ prevBlock' = [b \in 1..Ev.blocks |-> 0] /\ share' = [b \in 1..Ev.blocks |-> 0]
        /\ lastTotal' = One /\ sumTotal' = 0 /\ curTotal' = 0 /\ cphase' = "Fit"
        /\ UNCHANGED <<sig, ncmp, bTc, bTp>>
TSpectrum == /\ l <= Len(Tr) /\ Ev.e = "Spectrum" /\ Step /\ cphase = "Fit"
             /\ Len(Ev.sig2) >= 1 /\ Ev.sig2[1] = One
             /\ \A i \in 2..Len(Ev.sig2) : Ev.sig2[i] >= 0 /\ Ev.sig2[i] <= Ev.sig2[i-1]
             /\ LET m  == NCmp(Ev.sig2, 1, MinSC, MaxCmpC)
                    bc == BoundsPT(Ev.sig2, KKc * EpsCpca9(cn), m)
                    bp == BoundsPT(Ev.sig2, KKc * EpsPca9(cn), m)
                IN ncmp' = m /\ bTc' = Floored(bc.t, CpcaFloor9) /\ bTp' = bp.t
             /\ sig' = Ev.sig2 /\ cphase' = "Spectrum"
             /\ UNCHANGED <<cn, nb, cnpc, ck, prevBlock, share, lastTotal, sumTotal, curTotal>>
TShares == /\ l <= Len(Tr) /\ Ev.e = "Shares" /\ Step /\ cphase = "Spectrum"
           /\ Len(Ev.share) = nb /\ \A b \in 1..nb : Ev.share[b] >= 0 /\ Ev.share[b] <= One
           /\ share' = Ev.share /\ cphase' = "Shares"
           /\ UNCHANGED <<cn, nb, cnpc, ck, prevBlock, lastTotal, sumTotal, curTotal, sig, ncmp, bTc, bTp>>
TOracle == /\ l <= Len(Tr) /\ Ev.e = "Oracle" /\ Step /\ cphase = "Shares"
           /\ Ev.err <= OracleTolC
           /\ cphase' = "Comp"
           /\ UNCHANGED <<cn, nb, cnpc, ck, prevBlock, share, lastTotal, sumTotal, curTotal, sig, ncmp, bTc, bTp>>

TCpca == /\ l <= Len(Tr) /\ Ev.e = "Cpca" /\ Step /\ cphase = "Comp"
         /\ ck < cnpc /\ Ev.k = ck + 1
         /\ PropCpca(nb, prevBlock, share, lastTotal, sumTotal, Ev)
         /\ PropReproj(ncmp, bTc, Ev)
         /\ (PropOnly \/ ImplCpca(Ev))
         /\ ck' = ck + 1 /\ prevBlock' = Ev.blockVar /\ lastTotal' = Ev.totalVar /\ sumTotal' = sumTotal + Ev.totalVar /\ curTotal' = Ev.totalVar
         /\ cphase' = "Truth"
         /\ UNCHANGED <<cn, nb, cnpc, share, sig, ncmp, bTc, bTp>>
TTruth == /\ l <= Len(Tr) /\ Ev.e = "Truth" /\ Step /\ cphase = "Truth" /\ Ev.k = ck
          /\ PropTruth(cn, sig, ncmp, bTc, Ev)
          /\ cphase' = "PcaRef"
          /\ UNCHANGED <<cn, nb, cnpc, ck, prevBlock, share, lastTotal, sumTotal, curTotal, sig, ncmp, bTc, bTp>>
TPcaRef == /\ l <= Len(Tr) /\ Ev.e = "PcaRef" /\ Step /\ cphase = "PcaRef" /\ Ev.k = ck
           /\ PropPcaRef(cn, ncmp, bTc, bTp, curTotal, Ev)
           /\ cphase' = "Comp"
           /\ UNCHANGED <<cn, nb, cnpc, ck, prevBlock, share, lastTotal, sumTotal, curTotal, sig, ncmp, bTc, bTp>>

TScale == /\ l <= Len(Tr) /\ Ev.e = "Scale" /\ Step /\ cphase = "Comp" /\ ck = cnpc
          /\ Len(Ev.terr) = cnpc
          /\ PropScale(cn, sig, ncmp, bTc, Ev)
          /\ UNCHANGED <<cn, nb, cnpc, ck, prevBlock, share, lastTotal, sumTotal, curTotal, cphase, sig, ncmp, bTc, bTp>>

TNext == TScale \/ TReset \/ TDropped \/ TFit \/ TSpectrum \/ TShares \/ TOracle \/ TCpca \/ TTruth \/ TPcaRef
TSpec == TInit /\ [][TNext]_tvars
TraceAccepted == Accepted
Diag == ShowCursor(l)
====
