---- MODULE TraceCpca ----
(* Trace specification for C09, recorded by c09_drv.c.                                                                *)
(* One model = Reset, Fit, Spectrum, Shares, Oracle, Proj, Proj2*, Mt, Slices*, Iters, then per component k: Cpca, Truth, *)
(* PcaRef; scaling 0: a Scale; histories: a final Again.  Refit mode (outside the statement of C09, validated in a     *)
(* trace of its own and reported as EXTRA-FINDING only): Reset, Fit, Refit.                                            *)
(* From the logged oracle spectrum TLC computes the number of separated leading components and two bound sequences:   *)
(* for CPCA's criterion (eps = sqrt(n*1e-18), floor 1e-7) and for PCA's (eps = sqrt(n*1e-10)).                         *)
EXTENDS Cpca, TraceBase
CONSTANT PropOnly
VARIABLES l, sig, ncmp, bTc, bTp, cproc
tvars == <<cvars, l, sig, ncmp, bTc, bTp, cproc>>
Ev == Tr[l]
Step == l' = l + 1 /\ UNCHANGED <<left, cok>>
OracleTolC == 1000000

TInit == CInit /\ l = 1 /\ sig = <<>> /\ ncmp = 0 /\ bTc = <<>> /\ bTp = <<>> /\ cproc = 1

TReset == /\ l <= Len(Tr) /\ Ev.e = "Reset" /\ Step
          /\ cphase \in {"Idle", "Comp", "Dropped", "Refitted"} /\ (cphase = "Comp" => ck = cnpc)       \* exactly npc components were reported
          /\ cphase' = "Idle" /\ ck' = 0 /\ sumTotal' = 0 /\ lastTotal' = One /\ curTotal' = 0
          /\ UNCHANGED <<cn, nb, cnpc, prevBlock, share, nz, sig, ncmp, bTc, bTp, cproc>>
TDropped == /\ l <= Len(Tr) /\ Ev.e = "Dropped" /\ Step /\ cphase \in {"Fit", "Spectrum"}
            /\ cphase' = "Dropped"
            /\ UNCHANGED <<cn, nb, cnpc, ck, prevBlock, share, nz, lastTotal, sumTotal, curTotal, sig, ncmp, bTc, bTp, cproc>>
TFit == /\ l <= Len(Tr) /\ Ev.e = "Fit" /\ Step /\ cphase = "Idle"
        /\ PropFitC(Ev)
        /\ cn' = Ev.n /\ nb' = Ev.blocks /\ cnpc' = Ev.npc /\ ck' = 0 /\ cproc' = Ev.nproc
        /\ prevBlock' = [b \in 1..Ev.blocks |-> 0] /\ share' = [b \in 1..Ev.blocks |-> 0] /\ nz' = [b \in 1..Ev.blocks |-> 1]
        /\ lastTotal' = One /\ sumTotal' = 0 /\ curTotal' = 0 /\ cphase' = "Fit"
        /\ UNCHANGED <<sig, ncmp, bTc, bTp>>
TSpectrum == /\ l <= Len(Tr) /\ Ev.e = "Spectrum" /\ Step /\ cphase = "Fit"
             /\ Len(Ev.sig2) >= 1 /\ Ev.sig2[1] = One
             /\ \A i \in 2..Len(Ev.sig2) : Ev.sig2[i] >= 0 /\ Ev.sig2[i] <= Ev.sig2[i-1]
             /\ LET m  == NCmp(Ev.sig2, 1, MinSC, MaxCmpC)
                    bc == BoundsPT(Ev.sig2, KKc * EpsCpca9(cn), m)
                    bp == BoundsPT(Ev.sig2, KKc * EpsPca9(cn), m)
                IN ncmp' = m /\ bTc' = Floored(bc.t, CpcaFloor9) /\ bTp' = bp.t
             /\ sig' = Ev.sig2 /\ cphase' = "Spectrum"
             /\ UNCHANGED <<cn, nb, cnpc, ck, prevBlock, share, nz, lastTotal, sumTotal, curTotal, cproc>>
TShares == /\ l <= Len(Tr) /\ Ev.e = "Shares" /\ Step /\ cphase = "Spectrum"
           /\ Len(Ev.share) = nb /\ \A b \in 1..nb : Ev.share[b] >= 0 /\ Ev.share[b] <= One
           /\ Len(Ev.nz) = nb /\ \A b \in 1..nb : Ev.nz[b] \in {0, 1} /\ (Ev.nz[b] = 0 => Ev.share[b] = 0)
           /\ \E b \in 1..nb : Ev.nz[b] = 1
           /\ share' = Ev.share /\ nz' = Ev.nz /\ cphase' = "Shares"
           /\ UNCHANGED <<cn, nb, cnpc, ck, prevBlock, lastTotal, sumTotal, curTotal, sig, ncmp, bTc, bTp, cproc>>
TOracle == /\ l <= Len(Tr) /\ Ev.e = "Oracle" /\ Step /\ cphase = "Shares"
           /\ Ev.err <= OracleTolC
           /\ cphase' = "Proj"
           /\ UNCHANGED <<cn, nb, cnpc, ck, prevBlock, share, nz, lastTotal, sumTotal, curTotal, sig, ncmp, bTc, bTp, cproc>>
TProj == /\ l <= Len(Tr) /\ Ev.e = "Proj" /\ Step /\ cphase = "Proj"
         /\ PropProj(cn, cnpc, nb, Ev)
         /\ (PropOnly \/ ImplProj(cn, cnpc, nb, Ev))
         /\ cphase' = "Mt"
         /\ UNCHANGED <<cn, nb, cnpc, ck, prevBlock, share, nz, lastTotal, sumTotal, curTotal, sig, ncmp, bTc, bTp, cproc>>
TProj2 == /\ l <= Len(Tr) /\ Ev.e = "Proj2" /\ Step /\ cphase = "Mt"
          /\ PropProj2(cn, cnpc, ncmp, bTc, Ev)
          /\ (PropOnly \/ ImplProj2(cnpc, Ev))
          /\ UNCHANGED <<cn, nb, cnpc, ck, prevBlock, share, nz, lastTotal, sumTotal, curTotal, cphase, sig, ncmp, bTc, bTp, cproc>>
TMt == /\ l <= Len(Tr) /\ Ev.e = "Mt" /\ Step /\ cphase = "Mt"
       /\ (PropOnly \/ ImplMt(cproc, Ev))
       /\ cphase' = "Slices"
       /\ UNCHANGED <<cn, nb, cnpc, ck, prevBlock, share, nz, lastTotal, sumTotal, curTotal, sig, ncmp, bTc, bTp, cproc>>
TSlices == /\ l <= Len(Tr) /\ Ev.e = "Slices" /\ Step /\ cphase = "Slices"
           /\ PropSlices(Ev)                                       \* every index of the result has exactly one worker, however the code cuts
           /\ (PropOnly \/ ImplSlices(cproc, Ev))                  \* and it cuts as KernelSlices says
           /\ UNCHANGED <<cn, nb, cnpc, ck, prevBlock, share, nz, lastTotal, sumTotal, curTotal, cphase, sig, ncmp, bTc, bTp, cproc>>
TIters == /\ l <= Len(Tr) /\ Ev.e = "Iters" /\ Step /\ cphase = "Slices"
          /\ (PropOnly \/ ImplIters(cnpc, Ev))
          /\ cphase' = "Comp"
          /\ UNCHANGED <<cn, nb, cnpc, ck, prevBlock, share, nz, lastTotal, sumTotal, curTotal, sig, ncmp, bTc, bTp, cproc>>

TCpca == /\ l <= Len(Tr) /\ Ev.e = "Cpca" /\ Step /\ cphase = "Comp"
         /\ ck < cnpc /\ Ev.k = ck + 1
         /\ PropCpca(nb, prevBlock, nz, share, lastTotal, sumTotal, Ev)
         /\ PropReproj(ncmp, bTc, Ev)
         /\ (PropOnly \/ ImplCpca(ncmp, bTc, Ev))
         /\ ck' = ck + 1 /\ prevBlock' = Ev.blockVar /\ lastTotal' = Ev.totalVar /\ sumTotal' = sumTotal + Ev.totalVar /\ curTotal' = Ev.totalVar
         /\ cphase' = "Truth"
         /\ UNCHANGED <<cn, nb, cnpc, share, nz, sig, ncmp, bTc, bTp, cproc>>
TTruth == /\ l <= Len(Tr) /\ Ev.e = "Truth" /\ Step /\ cphase = "Truth" /\ Ev.k = ck
          /\ PropTruth(cn, sig, ncmp, bTc, Ev)
          /\ PropTruthBlocks(nb, nz, prevBlock, ncmp, bTc, Ev)        \* prevBlock = the block variances the Cpca event of this component reported
          /\ cphase' = "PcaRef"
          /\ UNCHANGED <<cn, nb, cnpc, ck, prevBlock, share, nz, lastTotal, sumTotal, curTotal, sig, ncmp, bTc, bTp, cproc>>
TPcaRef == /\ l <= Len(Tr) /\ Ev.e = "PcaRef" /\ Step /\ cphase = "PcaRef" /\ Ev.k = ck
           /\ PropPcaRef(cn, ncmp, bTc, bTp, curTotal, Ev)
           /\ cphase' = "Comp"
           /\ UNCHANGED <<cn, nb, cnpc, ck, prevBlock, share, nz, lastTotal, sumTotal, curTotal, sig, ncmp, bTc, bTp, cproc>>

TScale == /\ l <= Len(Tr) /\ Ev.e = "Scale" /\ Step /\ cphase = "Comp" /\ ck = cnpc
          /\ Len(Ev.terr) = cnpc
          /\ PropScale(cn, sig, ncmp, bTc, Ev)
          /\ UNCHANGED <<cn, nb, cnpc, ck, prevBlock, share, nz, lastTotal, sumTotal, curTotal, cphase, sig, ncmp, bTc, bTp, cproc>>
TAgain == /\ l <= Len(Tr) /\ Ev.e = "Again" /\ Step /\ cphase = "Comp" /\ ck = cnpc
          /\ Len(Ev.terr) = cnpc
          /\ PropAgain(cn, sig, ncmp, bTc, Ev)
          /\ (PropOnly \/ ImplAgain(Ev))
          /\ UNCHANGED <<cn, nb, cnpc, ck, prevBlock, share, nz, lastTotal, sumTotal, curTotal, cphase, sig, ncmp, bTc, bTp, cproc>>
(* outside the statement of C09 (EXTRA-FINDING only): CPCA() into a model object that already holds a fit gives the model a fresh object gets *)
TRefit == /\ l <= Len(Tr) /\ Ev.e = "Refit" /\ Step /\ cphase = "Fit"
          /\ Ev.shape = 1 /\ Len(Ev.terr) = cnpc /\ Len(Ev.verr) = cnpc /\ Len(Ev.berr) = cnpc
          /\ \A i \in 1..cnpc : Ev.terr[i] <= 1000 /\ Ev.verr[i] <= 1000 /\ Ev.berr[i] <= 1000      \* 1e-6: same data, same algorithm
          /\ cphase' = "Refitted"
          /\ UNCHANGED <<cn, nb, cnpc, ck, prevBlock, share, nz, lastTotal, sumTotal, curTotal, sig, ncmp, bTc, bTp, cproc>>

TNext == TScale \/ TAgain \/ TReset \/ TDropped \/ TFit \/ TSpectrum \/ TShares \/ TOracle \/ TProj \/ TProj2 \/ TMt \/ TSlices \/ TIters
         \/ TCpca \/ TTruth \/ TPcaRef \/ TRefit
TSpec == TInit /\ [][TNext]_tvars
TraceAccepted == Accepted
Diag == ShowCursor(l)
====
