---- MODULE TraceNipals ----
(* Trace specification for C18: the iteration events of the real NIPALS loops (hook H4) and the returned     *)
(* model, validated against the Guarded model of Nipals.tla.                                               *)
(*   Prop layer: every fit returns (a `Diverge` / `Hang` / `Crash` event matches no action), the returned   *)
(*     components are "pos" up to the exact rank and finite zeros with zero explained variance beyond it    *)
(*     (BeyondRankZero, evaluated on the recorded state), the ledger residuals of the components within     *)
(*     the rank are inside TolAlg, explained variance is finite and never exceeds 100 %.                   *)
(*   Impl layer (off when PropOnly): every Start / Iter / Null event is a step of the Guarded model with    *)
(*     exactly the value classes the model predicts - under the processor count the case was run with      *)
(*     (NipalsMT.tla: both kernels filter non-finite products, so no pass may report a NaN normaliser).     *)
(* The verdict on a returned component is taken HERE, not in the harness: the harness logs the explained   *)
(* variance of every component (vx, 1e-12 percent units) and a non-finite flag (nf); ClsOf classifies with *)
(* VarZeroQ, a function of the logged column offset (class K3: centring data that sit on an offset 2^offl   *)
(* leaves a rounding residue ~ 2^(offl-52) in every cell, i.e. a variance ~ 4^(offl-52) next to unit-size data). *)
EXTENDS NipalsMT, TraceBase, Integers
CONSTANTS PropOnly,
          TolAlg,      \* ledger bound in 1e-12 units (1e-8)
          TolVar,      \* explained-variance excess bound in 1e-9 units
          TolGap       \* |sum of explained variance - 100 %| when the whole rank was extracted, 1e-9 units
VARIABLES l, lastit,
          cert,        \* 1 once the trace has shown a PLS latent variable that ran into the pass ceiling with two DISTINCT convergence values in its
                       \* last two passes (the class of C18-adv4); never reset: the Certify line at the end of the certification trace asks for it
          meta         \* what the Reset line says about the input beyond the model's own variables: offl (log2 of the column offset, 0 = none),
                       \* sc (log2 of the whole-input scale divisor), nr (objects), hist (1: other fits ran first in the same process), warmed (their Warm line was seen)
tvars == <<mvars, l, lastit, cert, meta>>
Ev == Tr[l]
Step == l' = l + 1
IsEv(name) == l <= Len(Tr) /\ Ev.e = name
Same == UNCHANGED <<nproc, meta, capleft, cphase>>          \* capleft: the pass ceiling is not followed line by line (a capped latent variable shows as k passes)

KMeansCap == 100                                      \* clustering.c: shouldStop(centroids, oldcentroids, it, 100)
NMCap(dim, it) == (dim + 1) + it * (dim + 3)          \* optimization.c: dim + 1 start vertices, per round at most reflection + one more point + dim + 1 (shrink)
\* ---- tolerances as functions of the logged input (class K3: location, K4: magnitude).  meta.offl = log2 of the column offset (0 = none),
\* meta.sc = log2 of the factor the whole input was divided by, meta.nr = number of objects.
\* Centring residue: the mean of n values below 3*2^offl + 2^21 is off by at most (n-1) roundings of partial sums below n*3*2^offl, divided by n:
\*   rho <= 3 (n-1) 2^(offl-52)            (attained: offl = 26, n = 3 gives 8.94e-8, the largest residual the harness has logged there).
\* Every centred cell carries up to rho, a rank-one disturbance outside the mathematically defined components.  Residuals are taken relative to
\* max(2^-sc, max|X_c|), so the reconstruction residual may exceed TolAlg by rho * 2^sc;  in 1e-12 units  3 (n-1) 2^(offl+sc-52) 10^12
\* = 699 (n-1) 2^(offl+sc-20)  (10^12 2^(20-52) = 232.8, rounded up to 233;  offl = 26, n = 3: 89472).
\* The variance such a disturbance can show: 100 n rho^2 / ss percent with ss >= 4^-sc / 2 (a non-constant integer column has a centred sum of
\* squares of at least (n-1)/n), i.e. <= 1800 n (n-1)^2 4^(offl+sc-52) percent = 1800 n (n-1)^2 2^(2(offl+sc)-64) in 1e-12 percent units.
SatMul(x, y) == IF x = 0 \/ y = 0 THEN 0 ELSE IF x > 2000000000 \div y THEN 2000000000 ELSE x * y
RECURSIVE Pow2(_)
Pow2(k) == IF k <= 0 THEN 1 ELSE IF k >= 31 THEN 2000000000 ELSE 2 * Pow2(k - 1)
Scaled(c, k) == IF k >= 0 THEN SatMul(c, Pow2(k)) ELSE (c \div Pow2(-k)) + 1
CentringQ == IF meta.offl = 0 THEN 0 ELSE Scaled(699 * (meta.nr - 1), meta.offl + meta.sc - 20)
NoiseVarQ == IF meta.offl = 0 THEN 0 ELSE Scaled(1800 * meta.nr * (meta.nr - 1) * (meta.nr - 1), 2 * (meta.offl + meta.sc) - 64)
SatAdd(x, y) == IF x > 2000000000 - y THEN 2000000000 ELSE x + y
\* explained variance (1e-12 percent units) at or below which a component counts as "zero": 1e-9 percent (rounding noise left by an exact
\* deflation is ~1e-28) plus what the centring residue of offset data can show
VarZeroQ == SatAdd(1000, NoiseVarQ)
TolRecon == SatAdd(TolAlg, SatMul(2, CentringQ))
TolVarQ == SatAdd(TolVar, NoiseVarQ \div 10000)          \* excess over 100 % in 1e-9 (relative) units: 1e-12 percent = 1e-14 relative, ten-fold margin
ClsOf(ev, i) == IF ev.nf[i] = 1 THEN "nan" ELSE IF ev.vx[i] <= VarZeroQ THEN "zero" ELSE "pos"

TInit == /\ l = 1 /\ lastit = 0 /\ site = "PCA" /\ rank = 0 /\ npc = 1 /\ noise = FALSE /\ cblk = FALSE
         /\ pc = 1 /\ phase = "done" /\ tcls = "Zero" /\ first = TRUE /\ a = "Fin" /\ b = "Fin" /\ conv = "Big"
         /\ left = 0 /\ tick = 0 /\ evals = [i \in 1..MaxNpc |-> IF i = 1 THEN "zero" ELSE "unset"] /\ bvar = "fin"
         /\ nproc = 1 /\ capleft = CapIter /\ cphase = 0 /\ cert = 0 /\ meta = [offl |-> 0, sc |-> 0, nr |-> 1, hist |-> 0, warmed |-> 0]

\* rank = exact number of defined components (PCA/CPCA: rank of the centred matrix; PLS1: Krylov dimension; two responses: only a
\* lower bound 0/1 is known, see c18.py); rlo = rank except where TLC has to search a consistent count
TReset == /\ IsEv("Reset") /\ Step /\ phase = "done" /\ lastit' = 0
          /\ site' = Ev.site /\ rank' \in Ev.rlo..Ev.rank /\ npc' = Ev.npc /\ noise' = (Ev.noise = 1) /\ cblk' = (Ev.cblk = 1)
          /\ pc' = 0 /\ phase' = "start" /\ tcls' = "Zero" /\ first' = TRUE /\ a' = "Fin" /\ b' = "Fin" /\ conv' = "Big"
          /\ left' = 0 /\ tick' = 0 /\ evals' = [i \in 1..MaxNpc |-> "unset"] /\ bvar' = "fin"
          /\ Ev.nproc >= 1 /\ nproc' = Ev.nproc /\ Ev.offl \in 0..36 /\ Ev.hist \in {0, 1} /\ Ev.sc \in -30..30 /\ Ev.nr >= 1
          /\ meta' = [offl |-> Ev.offl, sc |-> Ev.sc, nr |-> Ev.nr, hist |-> Ev.hist, warmed |-> 0] /\ UNCHANGED <<capleft, cphase, cert>>

\* K7: the harness ran two other fits of the same routine in this process before the case (their passes are counted, not logged)
TWarm == /\ IsEv("Warm") /\ Step /\ Ev.site = site /\ phase = "start" /\ pc = 0 /\ lastit' = 0
         /\ meta.hist = 1 /\ meta.warmed = 0 /\ Ev.n = 2 /\ Ev.passes >= 0
         /\ meta' = [meta EXCEPT !.warmed = 1]
         /\ UNCHANGED <<vars, nproc, capleft, cphase, cert>>
Warmed == meta.hist = 1 => meta.warmed = 1

Cls(c) == IF c \in {"Fin", "Zero", "XZero"} THEN c ELSE "NaN"          \* "Inf" counts as non-finite
TStart == /\ IsEv("Start") /\ Step /\ Ev.site = site /\ Ev.pc = pc /\ lastit' = 0 /\ Same /\ UNCHANGED cert /\ Warmed
          /\ IF PropOnly THEN StartAny("Fin") ELSE Start(Cls(Ev.tcls))

\* passes lastit+1 .. Ev.it of the current component; the last logged pass of a component is the one that converged
PLSMaxIter == 10000                                   \* pls.h: PLSMAXITER
\* the logged pass is at or past the ceiling and its convergence value differs from that of the pass before (3-limb codes of the two doubles)
CeilingAlternating(ev) == ev.site = "PLS" /\ ev.it >= PLSMaxIter /\ ev.cq # ev.cqp
TIter == /\ IsEv("Iter") /\ Step /\ Ev.site = site /\ Ev.pc = pc /\ Ev.it > lastit /\ Same
         /\ cert' = (IF CeilingAlternating(Ev) THEN 1 ELSE cert)
         /\ LET k == Ev.it - lastit IN
            IF PropOnly
            THEN \/ /\ phase = "iter" /\ lastit' = Ev.it
                    /\ UNCHANGED vars
                 \/ /\ phase = "iter" /\ lastit' = 0 /\ Store(IF pc < rank THEN "pos" ELSE "zero")
                    /\ UNCHANGED <<site, rank, npc, noise, cblk, tcls, first, a, b, conv, left, tick, bvar>>
            ELSE /\ Ev.a = "Fin" /\ Ev.b = "Fin" /\ Ev.conv \in {"Fin", "Zero"} /\ ~PoisonNow
                 /\ \/ IterCont(k) /\ lastit' = Ev.it
                    \/ IterConv(k) /\ lastit' = 0
                    \/ IterDie(k) /\ lastit' = 0

\* a component returned without a single pass: the null-component guard
TNull == /\ IsEv("Null") /\ Step /\ Ev.site = site /\ Ev.pc = pc /\ lastit' = 0 /\ Same /\ UNCHANGED cert
         /\ IF PropOnly
            THEN /\ phase = "iter" /\ Store(IF pc < rank THEN "pos" ELSE "zero")
                 /\ UNCHANGED <<site, rank, npc, noise, cblk, tcls, first, a, b, conv, left, tick, bvar>>
            ELSE GuardStop

\* what the property states about a returned model
\* PLS: a latent variable past the exact count is not defined mathematically; when X still has rank left the code may return a
\* finite component built on rounding noise there (DESIGN Appendix C caveat) - only finiteness is claimed for it
Allowed(i) == IF site = "PLS" /\ evals[i] = "zero" THEN {"pos", "zero"} ELSE {evals[i]}
PropDone(ev) == /\ Len(ev.vx) = npc /\ Len(ev.nf) = npc
                /\ \A i \in 1..npc : ClsOf(ev, i) \in Allowed(i)
                /\ ev.fin = 1 /\ ev.bvar = "fin"
                /\ ev.ortho \in 0..TolAlg /\ ev.recon \in -1..TolRecon
                /\ ev.vsum \in 0..TolVarQ /\ ev.vgap \in -1..TolGap
                /\ ev.bgap \in -1..TolGap                         \* CPCA: every non-constant block is explained completely once the defined components are out
                /\ ev.hdev = (IF meta.hist = 1 THEN 0 ELSE -1)    \* K7: a fit made after other fits equals, bit for bit, the fit a fresh process makes
TDone == /\ IsEv("Done") /\ Step /\ Ev.site = site /\ Finish /\ PropDone(Ev) /\ lastit' = 0 /\ Same /\ UNCHANGED cert /\ Warmed

\* counter-bounded routines observed as a whole: CntStart, CntPass*, CntExhaust collapse into "it returned" - with the counter
\* inside its cap (k-means: Lloyd iterations seen through hook H6; Nelder-Mead: objective evaluations seen by the callback)
TReturned == /\ IsEv("Returned") /\ Step /\ Ev.site = site /\ site \in CounterSites /\ phase = "start" /\ Same /\ UNCHANGED cert
             /\ Ev.n >= 0
             /\ (site = "NM" => Ev.n \in (Ev.nc + 1)..NMCap(Ev.nc, Ev.iter))
             /\ (site = "KMEANS" => Ev.n \in 1..KMeansCap)
             /\ phase' = "done" /\ lastit' = 0
             /\ UNCHANGED <<site, rank, npc, noise, cblk, pc, tcls, first, a, b, conv, left, tick, evals, bvar>>

\* Outside the statement of C18 (c18.py reports a rejection here as EXTRA-FINDING, never as a verdict): the score predictor of a NIPALS site applied
\* to the training data of a fitted degenerate model.  These lines are validated in a trace of their own: Reset, Pred, Reset, Pred, ...
\* The predicted scores have the shape of the model's scores, are finite in every component - those beyond the rank are null components, their
\* predicted scores are zeros, not 0/0 - and reproduce the model's own scores over the mathematically defined components.
PredOK(ev) == ev.shape = 1 /\ ev.nfw = 0 /\ ev.nfb = 0 /\ ev.dev \in 0..TolRecon
TPred == /\ IsEv("Pred") /\ Step /\ Ev.site = site /\ site \in NipalsSites /\ phase = "start" /\ pc = 0 /\ Same /\ UNCHANGED cert
         /\ PredOK(Ev)
         /\ phase' = "done" /\ lastit' = 0 /\ pc' = npc           \* the fit itself was validated in the main trace: here it counts as finished as the model says
         /\ evals' = [i \in 1..MaxNpc |-> IF i > npc THEN "unset" ELSE IF i <= rank THEN "pos" ELSE "zero"]
         /\ UNCHANGED <<site, rank, npc, noise, cblk, tcls, first, a, b, conv, left, tick, bvar>>

\* Vacuity certificate (c18.py puts this line at the end of a trace made of the fits that reached the ceiling): the class that tells a ceiling on
\* the passes from a ceiling on the passes without progress was really exercised on this tree
TCertify == /\ IsEv("Certify") /\ Step /\ phase = "done" /\ cert = 1 /\ lastit' = 0 /\ Same
            /\ UNCHANGED <<vars, cert>>

TNext == TCertify \/ TReset \/ TWarm \/ TStart \/ TIter \/ TNull \/ TDone \/ TReturned \/ TPred
TSpec == TInit /\ [][TNext]_tvars
TraceAccepted == Accepted
Diag == ShowCursor(l)
====
