---- MODULE TraceNipals ----
(* Trace specification for C18: the iteration events of the real NIPALS loops (hook H4) and the returned     *)
(* model, validated against the Guarded model of Nipals.tla.                                               *)
(*   Prop layer: every fit returns (a `Diverge` / `Hang` / `Crash` event matches no action), the returned   *)
(*     components are "pos" up to the exact rank and finite zeros with zero explained variance beyond it    *)
(*     (BeyondRankZero, evaluated on the recorded state), the ledger residuals of the components within     *)
(*     the rank are inside TolAlg, explained variance is finite and never exceeds 100 %.                   *)
(*   Impl layer (off when PropOnly): every Start / Iter / Null event is a step of the Guarded model with    *)
(*     exactly the value classes the model predicts.                                                       *)
EXTENDS Nipals, TraceBase, Integers
CONSTANTS PropOnly,
          TolAlg,      \* ledger bound in 1e-12 units (1e-8)
          TolVar,      \* explained-variance excess bound in 1e-9 units
          TolGap       \* |sum of explained variance - 100 %| when the whole rank was extracted, 1e-9 units
VARIABLES l, lastit
tvars == <<vars, l, lastit>>
Ev == Tr[l]
Step == l' = l + 1
IsEv(name) == l <= Len(Tr) /\ Ev.e = name

TInit == /\ l = 1 /\ lastit = 0 /\ site = "PCA" /\ rank = 0 /\ npc = 1 /\ noise = FALSE /\ cblk = FALSE
         /\ pc = 1 /\ phase = "done" /\ tcls = "Zero" /\ first = TRUE /\ a = "Fin" /\ b = "Fin" /\ conv = "Big"
         /\ left = 0 /\ tick = 0 /\ evals = [i \in 1..MaxNpc |-> IF i = 1 THEN "zero" ELSE "unset"] /\ bvar = "fin"

\* rank = exact number of defined components (PCA/CPCA: rank of the centred matrix; PLS1: Krylov dimension; two responses: only a
\* lower bound 0/1 is known, see c18.py); rlo = rank except where TLC has to search a consistent count
TReset == /\ IsEv("Reset") /\ Step /\ phase = "done" /\ lastit' = 0
          /\ site' = Ev.site /\ rank' \in Ev.rlo..Ev.rank /\ npc' = Ev.npc /\ noise' = (Ev.noise = 1) /\ cblk' = (Ev.cblk = 1)
          /\ pc' = 0 /\ phase' = "start" /\ tcls' = "Zero" /\ first' = TRUE /\ a' = "Fin" /\ b' = "Fin" /\ conv' = "Big"
          /\ left' = 0 /\ tick' = 0 /\ evals' = [i \in 1..MaxNpc |-> "unset"] /\ bvar' = "fin"

Cls(c) == IF c \in {"Fin", "Zero", "XZero"} THEN c ELSE "NaN"          \* "Inf" counts as non-finite
TStart == /\ IsEv("Start") /\ Step /\ Ev.site = site /\ Ev.pc = pc /\ lastit' = 0
          /\ IF PropOnly THEN StartAny("Fin") ELSE Start(Cls(Ev.tcls))

\* passes lastit+1 .. Ev.it of the current component; the last logged pass of a component is the one that converged
TIter == /\ IsEv("Iter") /\ Step /\ Ev.site = site /\ Ev.pc = pc /\ Ev.it > lastit
         /\ LET k == Ev.it - lastit IN
            IF PropOnly
            THEN \/ /\ phase = "iter" /\ lastit' = Ev.it
                    /\ UNCHANGED vars
                 \/ /\ phase = "iter" /\ lastit' = 0 /\ Store(IF pc < rank THEN "pos" ELSE "zero")
                    /\ UNCHANGED <<site, rank, npc, noise, cblk, tcls, first, a, b, conv, left, tick, bvar>>
            ELSE /\ Ev.a = "Fin" /\ Ev.b = "Fin" /\ Ev.conv \in {"Fin", "Zero"}
                 /\ \/ IterCont(k) /\ lastit' = Ev.it
                    \/ IterConv(k) /\ lastit' = 0

\* a component returned without a single pass: the null-component guard
TNull == /\ IsEv("Null") /\ Step /\ Ev.site = site /\ Ev.pc = pc /\ lastit' = 0
         /\ IF PropOnly
            THEN /\ phase = "iter" /\ Store(IF pc < rank THEN "pos" ELSE "zero")
                 /\ UNCHANGED <<site, rank, npc, noise, cblk, tcls, first, a, b, conv, left, tick, bvar>>
            ELSE GuardStop

\* what the property states about a returned model
\* PLS: a latent variable past the exact count is not defined mathematically; when X still has rank left the code may return a
\* finite component built on rounding noise there (DESIGN Appendix C caveat) - only finiteness is claimed for it
Allowed(i) == IF site = "PLS" /\ evals[i] = "zero" THEN {"pos", "zero"} ELSE {evals[i]}
PropDone(ev) == /\ Len(ev.evals) = npc
                /\ \A i \in 1..npc : ev.evals[i] \in Allowed(i)
                /\ ev.fin = 1 /\ ev.bvar = "fin"
                /\ ev.ortho \in 0..TolAlg /\ ev.recon \in -1..TolAlg
                /\ ev.vsum \in 0..TolVar /\ ev.vgap \in -1..TolGap
TDone == /\ IsEv("Done") /\ Step /\ Ev.site = site /\ Finish /\ PropDone(Ev) /\ lastit' = 0

\* counter-bounded routines observed as a whole: CntStart, CntPass*, CntExhaust collapse into "it returned"
TReturned == /\ IsEv("Returned") /\ Step /\ Ev.site = site /\ site \in CounterSites /\ phase = "start"
             /\ Ev.n >= 0 /\ (site = "NM" => Ev.n <= Ev.cap)
             /\ phase' = "done" /\ lastit' = 0
             /\ UNCHANGED <<site, rank, npc, noise, cblk, pc, tcls, first, a, b, conv, left, tick, evals, bvar>>

TNext == TReset \/ TStart \/ TIter \/ TNull \/ TDone \/ TReturned
TSpec == TInit /\ [][TNext]_tvars
TraceAccepted == Accepted
Diag == ShowCursor(l)
====
