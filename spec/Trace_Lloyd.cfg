SPECIFICATION TLSpec
CONSTANTS
  NPts = 3
  Dim = 1
  Grid = 1
  KMax = 1
  DistinctStart = FALSE
  IterCap = 8
  Variant = "dowhile"
  Off = 0
  SExp = 0
  PropOnly = FALSE
CONSTRAINT Diag
POSTCONDITION TraceAccepted
CHECK_DEADLOCK FALSE
