SPECIFICATION Spec
CONSTANTS
  NKs = {3, 4, 5, 39, 40}
  MaxFits = 4
  Policy = "resize"
  PreRows = {0, 2, 45}
INVARIANT TableIsCurrent
CHECK_DEADLOCK FALSE
