---- MODULE TracePls ----
(* Trace specification for C03 and C04: the events recorded by harness/c03_drv.c and harness/c04_drv.c from real   *)
(* PLS models drive the ledger actions of Pls.tla.  Prop conjuncts = what the properties state; Impl conjuncts =  *)
(* normalisation conventions of the present code (|p| = 1, |q| = 1, y-scores on the deflated Y block, b = u't/t't) *)
(* and are switched off by PropOnly (spec-drift re-validation).                                                 *)
EXTENDS Pls, TraceBase
CONSTANT PropOnly
VARIABLE l
tvars == <<ny, nlv, phase, nobj, nvar, xsc, ysc, k, colsSeen, residSeen, prev, lastA, floorRss, l>>
Ev == Tr[l]
Step == l' = l + 1
At(name) == l <= Len(Tr) /\ Ev.e = name

TInit == l = 1 /\ PInit
TReset == At("Reset") /\ Step /\ phase' = "idle" /\ UNCHANGED <<ny, nlv, nobj, nvar, xsc, ysc, k, colsSeen, residSeen, prev, lastA, floorRss>>
TSkip == At("Skip") /\ Step /\ UNCHANGED pvars
TFit == At("Fit") /\ Step /\ PFit(Ev.n, Ev.p, Ev.ny, Ev.nlv, Ev.xs, Ev.ys)
TLv == /\ At("Lv") /\ Step /\ PLv(Ev.a, Ev.tortho, Ev.wortho, Ev.recon, Ev.reproj)
       /\ (PropOnly \/ ImplLv(Ev.pnorm, Ev.qnorm, Ev.udefl, Ev.binner))
TCol == At("Col") /\ Step /\ PCol(Ev.a, Ev.j, Ev.col, Ev.found, Ev.recalcErr, Ev.allErr)
TResid == At("Resid") /\ Step /\ PResid(Ev.a, Ev.j, Ev.col, Ev.against, Ev.residErr)
TTab == At("Tab") /\ Step /\ PTab(Ev.n, Ev.ny, Ev.nlv, Ev.y, Ev.rec, Ev.res)
TEnd == At("End") /\ Step /\ PEnd(Ev.lvs, Ev.cols, Ev.full, Ev.xfull)
TRss == At("Rss") /\ Step /\ PRss(Ev.a, Ev.j, Ev.rss, Ev.r2gap)
TOls == At("Ols") /\ Step /\ POls(Ev.j, Ev.rssPls, Ev.rssOls, Ev.err, Ev.full)
TBeta == At("Beta") /\ Step /\ PBeta(Ev.a, Ev.errTrain, Ev.errNew)
TStat == At("Stat") /\ Step /\ PStat(Ev.a, Ev.j, Ev.r2gap, Ev.rmsegap)
TAffine == At("Affine") /\ Step /\ PAffine(Ev.c, Ev.d, Ev.errTrain, Ev.errNew)
TXScale == At("XScale") /\ Step /\ PXScale(Ev.lg, Ev.errTrain, Ev.errNew)
TReuse == At("Reuse") /\ Step /\ PReuse(Ev.calls, Ev.err)

TNext == TReset \/ TSkip \/ TFit \/ TLv \/ TCol \/ TResid \/ TTab \/ TEnd \/ TRss \/ TOls \/ TBeta \/ TStat \/ TAffine \/ TXScale \/ TReuse
TSpec == TInit /\ [][TNext]_tvars
TraceAccepted == Accepted
Diag == ShowCursor(l)
====
