---- MODULE TracePls ----
(* Trace specification for C03 and C04: the events recorded by harness/c03_drv.c and harness/c04_drv.c from real   *)
(* PLS models drive the ledger actions of Pls.tla.  Prop conjuncts = what the properties state; Impl conjuncts =  *)
(* normalisation conventions of the present code (|p| = 1, |q| = 1, y-scores on the deflated Y block, b = u't/t't) *)
(* and are switched off by PropOnly (spec-drift re-validation).                                                 *)
EXTENDS Pls, TraceBase
CONSTANT PropOnly
VARIABLE l
tvars == <<pvars, l>>
Ev == Tr[l]
Step == l' = l + 1
At(name) == l <= Len(Tr) /\ Ev.e = name

TInit == l = 1 /\ PInit
TReset == At("Reset") /\ Step /\ phase' = "idle" /\ UNCHANGED <<shapeV, k, colsSeen, residSeen, prev, lastA, floorRss>>
TSkip == At("Skip") /\ Step /\ UNCHANGED pvars
\* a Fit event of the C04 driver carries no rank / offsets (tall full-column-rank problems, offsets below 10 spreads): rank = p, offsets 0.
\* The class tags the evidence counts are re-derived here: the shape tag must be ShapeOf(n, p), the magnitude decades within +-6
FRank == IF Has(Ev, "rank") THEN Ev.rank ELSE Ev.p
FOffx == IF Has(Ev, "offx") THEN Ev.offx ELSE 0
FOffy == IF Has(Ev, "offy") THEN Ev.offy ELSE 0
TFit == /\ At("Fit") /\ Step /\ PFit(Ev.n, Ev.p, Ev.ny, Ev.nlv, Ev.xs, Ev.ys, FRank, FOffx, FOffy)
        /\ (Has(Ev, "shape") => Ev.shape = ShapeOf(Ev.n, Ev.p))
        /\ (Has(Ev, "lgx") => Ev.lgx \in -6..6 /\ Ev.lgy \in -6..6)
        /\ (Has(Ev, "inst") => ((Ev.inst = 1) <=> (FRank = RankBound(Ev.n, Ev.p, Ev.xs))))     \* inside / outside the statement: decided here
TLv == /\ At("Lv") /\ Step /\ PLv(Ev.a, Ev.tortho, Ev.wortho, Ev.recon, Ev.reproj)
       /\ (PropOnly \/ ImplLv(Ev.pnorm, Ev.qnorm, Ev.udefl, Ev.binner))
TCol == At("Col") /\ Step /\ PCol(Ev.a, Ev.j, Ev.col, Ev.found, Ev.recalcErr, Ev.allErr)
TResid == At("Resid") /\ Step /\ PResid(Ev.a, Ev.j, Ev.col, Ev.against, Ev.residErr)
TTab == At("Tab") /\ Step /\ PTab(Ev.n, Ev.ny, Ev.nlv, Ev.y, Ev.rec, Ev.res)
TEnd == At("End") /\ Step /\ PEnd(Ev.lvs, Ev.cols, Ev.full, Ev.xfull)
TScore == At("Score") /\ Step /\ PScore(Ev.req, Ev.got, Ev.err)
TYPred == At("YPred") /\ Step /\ PYPred(Ev.a, Ev.src, Ev.err)
TAllLv == At("AllLv") /\ Step /\ PAllLv(Ev.cols, Ev.scols, Ev.scoreErr, Ev.err)
TVarExp == At("VarExp") /\ Step /\ PVarExp(Ev.a, Ev.err)
TPrep == /\ At("Prep") /\ Step /\ PPrep(Ev.xavg, Ev.yavg)
         /\ (PropOnly \/ ImplPrep(Ev.xscl, Ev.yscl))
THist == At("Hist") /\ Step /\ PHist(Ev.fits, Ev.same)
TRefit == At("Refit") /\ Step /\ PRefit(Ev.rc, Ev.bsize, Ev.reccols, Ev.varexp, Ev.same)
TRss == At("Rss") /\ Step /\ PRss(Ev.a, Ev.j, Ev.rss, Ev.r2gap)
TOls == At("Ols") /\ Step /\ POls(Ev.j, Ev.rssPls, Ev.rssOls, Ev.err, Ev.full)
TBeta == At("Beta") /\ Step /\ PBeta(Ev.a, Ev.errTrain, Ev.errNew)
TStat == At("Stat") /\ Step /\ PStat(Ev.a, Ev.j, Ev.r2gap, Ev.rmsegap)
TAffine == At("Affine") /\ Step /\ PAffine(Ev.c, Ev.d, Ev.errTrain, Ev.errNew)
TXScale == At("XScale") /\ Step /\ PXScale(Ev.lg, Ev.errTrain, Ev.errNew)
TReuse == At("Reuse") /\ Step /\ PReuse(Ev.calls, Ev.err)

TNext == TReset \/ TSkip \/ TFit \/ TLv \/ TCol \/ TResid \/ TTab \/ TEnd \/ TScore \/ TYPred \/ TAllLv \/ TVarExp \/ TPrep \/ THist \/ TRefit \/ TRss \/ TOls \/ TBeta \/ TStat \/ TAffine \/ TXScale \/ TReuse
TSpec == TInit /\ [][TNext]_tvars
TraceAccepted == Accepted
Diag == ShowCursor(l)
====
