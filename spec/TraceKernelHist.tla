---- MODULE TraceKernelHist ----
(* C11, validate direction of the stateful layer: a recorded history of kernel calls over an object store       *)
(* (harness/c11_hist.c), replayed against KernelHist.tla.  Events:                                               *)
(*   Reset                       a new history: every slot absent                                               *)
(*   Put{s,row,col,d}            the harness placed an object in slot s (fresh allocation, cells overwritten in   *)
(*                               place, library resize + fill, library zero-fill, junk left from another call)   *)
(*   Free{s}                     the object of slot s was deleted                                                *)
(*   Call{fn,in,out,row,col,d,exact,sh,key,np[,ua,ub]}   a library kernel ran on the objects of slots `in`; the   *)
(*                               output object of slot `out` holds row x col cells d afterwards                  *)
(*   CallM{...}                  the same with operands holding the MISSING code (K9; outside the statement of    *)
(*                               C11: validated in a trace of its own, rejections are EXTRA-FINDINGs)             *)
(*   Law{law,s}                  an algebraic law of the property on slots the library filled                     *)
(* The model's store always continues from what the library really returned, so one wrong result is one rejected  *)
(* event, and everything computed from it later is judged against the value the code itself used.               *)
EXTENDS KernelHist, TraceBase
VARIABLE l
tvars == <<store, steps, l>>
Ev == Tr[l]
Fwd == l <= Len(Tr) /\ l' = l + 1 /\ UNCHANGED steps

TInit == l = 1 /\ store = EmptyStore /\ steps = 0
TReset == Fwd /\ Ev.e = "Reset" /\ store' = EmptyStore
PutOK(ev) == ev.s \in Slots /\ (IF ev.t = "t" THEN IsTen(Obj(ev.row, ev.col, ev.d)) ELSE IsObj(Obj(ev.row, ev.col, ev.d))) /\ (ev.t = "v" => ev.col = 1)
TPut == Fwd /\ Ev.e = "Put" /\ PutOK(Ev) /\ store' = [store EXCEPT ![Ev.s] = Obj(Ev.row, Ev.col, Ev.d)]
TFree == Fwd /\ Ev.e = "Free" /\ Ev.s \in Slots /\ store' = [store EXCEPT ![Ev.s] = Absent]
TCall == Fwd /\ Ev.e = "Call" /\ PropCall(Ev) /\ ImplCall(Ev) /\ store' = [store EXCEPT ![Ev.out] = ResOf(Ev)]
TCallM == Fwd /\ Ev.e = "CallM" /\ MissCall(Ev) /\ store' = [store EXCEPT ![Ev.out] = ResOf(Ev)]
TLaw == Fwd /\ Ev.e = "Law" /\ LawOK(Ev) /\ UNCHANGED store

TNext == TReset \/ TPut \/ TFree \/ TCall \/ TCallM \/ TLaw
TSpec == TInit /\ [][TNext]_tvars
TraceAccepted == Accepted
Diag == ShowCursor(l)
====
