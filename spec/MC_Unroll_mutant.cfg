SPECIFICATION Spec
CONSTANTS
  MaxCol = 17
  TailFrom = "mod"
INVARIANT EachTermOnce
CHECK_DEADLOCK FALSE
