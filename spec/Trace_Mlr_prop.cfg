SPECIFICATION TSpec
CONSTANTS
  Mode = "trace"
  NN = 3
  PP = 1
  Samples = 1
  Chains = 1
  PropOnly = TRUE
CONSTRAINT Diag
POSTCONDITION TraceAccepted
CHECK_DEADLOCK FALSE
