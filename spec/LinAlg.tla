---- MODULE LinAlg ----
(* C12.  Exact linear algebra over the rationals (module Rat) for small integer matrices - the oracle - and models,   *)
(* on the zero pattern of the exact computation, of the two elimination schemes of the library:                     *)
(*   NoPivotOK(A)   MatrixInversion (matrix.c): Gauss-Jordan on [A|I] that never exchanges rows                      *)
(*   PrePivotOK(A)  SolveLSE (algebra.c): one pre-pass that swaps row k with the FIRST row i (searched from row 1!)    *)
(*                  having a non-zero in column k whenever A[k][k] = 0, then plain forward elimination               *)
(*   PivotOK(A)     the repaired scheme: row exchange at every step (succeeds on every non-singular matrix)          *)
(* The determinant has three definitions that the invariants prove equal on every enumerated matrix: product of the  *)
(* Gauss-Jordan pivots (DetOf), Laplace expansion (Lap) and the fraction-free Bareiss LU over the integers (BDet,     *)
(* LUPivots: "the product of the pivots of an independent LU factorisation"); BDet is what the trace spec uses to     *)
(* judge logged integer determinants up to 8 x 8 exactly.                                                             *)
(* A matrix is a sequence of rows; its size is a parameter of every operator, so 1x1 .. 5x5 live in one model.       *)
(* TLC does not memoise and evaluates [i \in S |-> e] lazily: all matrices are built as explicit sequences (SeqOf).   *)
EXTENDS Integers, Sequences, FiniteSets, TLC, Json, Rat
CONSTANTS Families,        \* which input families Init enumerates (strings, see Init)
          Pivoting,        \* BOOLEAN: which variant of the eliminations the invariant ElimDefined talks about
          Mod, Res         \* residue class of the two large families "all3" and "ptri4": keep matrices whose code is congruent
                           \* Res modulo Mod (the classes partition the family: running all residues is exhaustive)

RECURSIVE SeqOf(_, _)
SeqOf(Op(_), n) == IF n = 0 THEN <<>> ELSE Append(SeqOf(Op, n - 1), Op(n))
Mat(Op(_, _), r, c) == SeqOf(LAMBDA i : SeqOf(LAMBDA j : Op(i, j), c), r)

(* ---------- integer matrices ---------- *)
Dim(A) == Len(A)
IdI(n) == Mat(LAMBDA i, j : IF i = j THEN 1 ELSE 0, n, n)
RECURSIVE DotI(_, _, _, _, _)
DotI(A, B, i, j, k) == IF k = 0 THEN 0 ELSE A[i][k] * B[k][j] + DotI(A, B, i, j, k - 1)
MulI(A, B) == Mat(LAMBDA i, j : DotI(A, B, i, j, Len(B)), Len(A), Len(B[1]))
TrI(A) == Mat(LAMBDA i, j : A[j][i], Len(A[1]), Len(A))
\* Laplace expansion along the first row: the second, independent definition of the determinant (what MatrixDeterminant does)
MinorI(A, n, col) == Mat(LAMBDA i, j : A[i + 1][IF j < col THEN j ELSE j + 1], n - 1, n - 1)
RECURSIVE Lap(_, _)
RECURSIVE LapSum(_, _, _)
LapSum(A, n, k) == IF k = 0 THEN 0
                   ELSE LapSum(A, n, k - 1) + (IF A[1][k] = 0 THEN 0 ELSE (IF k % 2 = 1 THEN 1 ELSE -1) * A[1][k] * Lap(MinorI(A, n, k), n - 1))
Lap(A, n) == IF n = 1 THEN A[1][1] ELSE IF n = 2 THEN A[1][1] * A[2][2] - A[2][1] * A[1][2] ELSE LapSum(A, n, n)
\* Third, independent definition: fraction-free (Bareiss) LU elimination WITH row exchange over the integers.  After step k the entry
\* M[i][j] (i, j > k) is the (k+1)-minor of the row-exchanged matrix built on rows 1..k,i and columns 1..k,j (Sylvester's identity: the
\* division by the previous pivot is exact), so the k-th diagonal entry is the k-th leading minor p_k, the LU pivots are u_kk = p_k / p_(k-1)
\* and  det = sign * u_11 * ... * u_nn = sign * p_n : "the product of the pivots of an LU factorisation".
SwapRowsI(M, a, b) == SeqOf(LAMBDA i : IF i = a THEN M[b] ELSE IF i = b THEN M[a] ELSE M[i], Len(M))
RECURSIVE FirstNZI(_, _, _)
FirstNZI(M, k, from) == IF from > Len(M) THEN 0 ELSE IF M[from][k] # 0 THEN from ELSE FirstNZI(M, k, from + 1)
BarStep(S, n, k, prev) == SeqOf(LAMBDA i : IF i <= k THEN S[i]
                                          ELSE SeqOf(LAMBDA j : IF j <= k THEN 0 ELSE (S[k][k] * S[i][j] - S[i][k] * S[k][j]) \div prev, n), n)
\* [piv |-> <<p_1, .., p_n>> (leading minors of the row-exchanged matrix), sgn |-> sign of the row permutation, ok |-> non-singular]
RECURSIVE Bar(_, _, _, _, _, _)
Bar(M, n, k, prev, sgn, pivs) ==
   IF k > n THEN [piv |-> pivs, sgn |-> sgn, ok |-> TRUE]
   ELSE LET p == FirstNZI(M, k, k) IN
        IF p = 0 THEN [piv |-> pivs, sgn |-> sgn, ok |-> FALSE]
        ELSE LET S == SwapRowsI(M, k, p) IN Bar(BarStep(S, n, k, prev), n, k + 1, S[k][k], IF p = k THEN sgn ELSE -sgn, Append(pivs, S[k][k]))
Bareiss(A) == Bar(A, Len(A), 1, 1, 1, <<>>)
BDet(A) == LET b == Bareiss(A) IN IF b.ok THEN b.sgn * b.piv[Len(A)] ELSE 0
\* the LU pivots as rationals u_kk = p_k / p_(k-1) and their product
LUPivots(A) == LET b == Bareiss(A) IN SeqOf(LAMBDA k : IF k = 1 THEN RI(b.piv[1]) ELSE RDiv(RI(b.piv[k]), RI(b.piv[k - 1])), Len(b.piv))
RECURSIVE RProdSeq(_, _)
RProdSeq(s, k) == IF k = 0 THEN ROne ELSE RMul(s[k], RProdSeq(s, k - 1))

(* ---------- rational matrices, Gauss-Jordan with row exchange ---------- *)
ToR(A) == Mat(LAMBDA i, j : RI(A[i][j]), Len(A), Len(A[1]))
RECURSIVE DotR(_, _, _, _, _)
DotR(A, B, i, j, k) == IF k = 0 THEN RZero ELSE RAdd(RMul(A[i][k], B[k][j]), DotR(A, B, i, j, k - 1))
MulR(A, B) == Mat(LAMBDA i, j : DotR(A, B, i, j, Len(B)), Len(A), Len(B[1]))
IdR(n) == Mat(LAMBDA i, j : IF i = j THEN ROne ELSE RZero, n, n)
\* [A | B] with A n x n integer, B n x m integer
Aug(A, B) == Mat(LAMBDA i, j : IF j <= Len(A[1]) THEN RI(A[i][j]) ELSE RI(B[i][j - Len(A[1])]), Len(A), Len(A[1]) + Len(B[1]))
SwapRows(M, a, b) == SeqOf(LAMBDA i : IF i = a THEN M[b] ELSE IF i = b THEN M[a] ELSE M[i], Len(M))
\* make column k the k-th unit vector using row k as pivot row (M[k][k] # 0)
ElimCol(M, k) == LET piv == M[k][k]
                     rowk == SeqOf(LAMBDA j : RDiv(M[k][j], piv), Len(M[k]))
                 IN SeqOf(LAMBDA i : IF i = k THEN rowk
                                      ELSE IF RIsZero(M[i][k]) THEN M[i]
                                      ELSE SeqOf(LAMBDA j : RSub(M[i][j], RMul(M[i][k], rowk[j])), Len(M[i])), Len(M))
\* first row >= from with a non-zero in column k, 0 if none
RECURSIVE FirstNZ(_, _, _)
FirstNZ(M, k, from) == IF from > Len(M) THEN 0 ELSE IF ~RIsZero(M[from][k]) THEN from ELSE FirstNZ(M, k, from + 1)
\* reference elimination on the first n columns: [M |-> reduced, rank, sgn, piv |-> product of pivots]
RECURSIVE GJ(_, _, _, _, _, _)
GJ(M, n, k, rank, sgn, pp) ==
   IF k > n THEN [M |-> M, rank |-> rank, sgn |-> sgn, piv |-> pp]
   ELSE LET p == FirstNZ(M, k, k) IN
        IF p = 0 THEN GJ(M, n, k + 1, rank, sgn, RZero)               \* singular in this column (enough for inverse/det of square A)
        ELSE LET S == SwapRows(M, k, p) IN GJ(ElimCol(S, k), n, k + 1, rank + 1, IF p = k THEN sgn ELSE -sgn, RMul(pp, S[k][k]))
Red(A, B) == GJ(Aug(A, B), Len(A), 1, 0, 1, ROne)
NonSingular(A) == Red(A, IdI(Len(A))).rank = Len(A)
DetOf(red) == IF red.rank < Len(red.M) THEN RZero ELSE RMul(RI(red.sgn), red.piv)
Det(A) == DetOf(Red(A, IdI(Len(A))))
RightPart(red, n, m) == Mat(LAMBDA i, j : red.M[i][n + j], n, m)
Inverse(A) == RightPart(Red(A, IdI(Len(A))), Len(A), Len(A))             \* A non-singular
ColVec(b) == SeqOf(LAMBDA i : <<b[i]>>, Len(b))
Solve(A, b) == LET r == RightPart(Red(A, ColVec(b)), Len(A), 1) IN SeqOf(LAMBDA i : r[i][1], Len(A))
\* least squares by the normal equations (X of full column rank): beta = (X'X)^-1 X'y ; pseudo-inverse (X'X)^-1 X'
LeastSquares(X, y) == LET Xt == TrI(X) IN Solve(MulI(Xt, X), SeqOf(LAMBDA i : DotI(Xt, ColVec(y), i, 1, Len(y)), Len(Xt)))
PseudoInverse(X) == LET Xt == TrI(X) IN MulR(Inverse(MulI(Xt, X)), ToR(Xt))

(* ---------- the library's schemes on the zero pattern ---------- *)
RECURSIVE NoPivot(_, _, _)
NoPivot(M, n, k) == IF k > n THEN TRUE ELSE IF RIsZero(M[k][k]) THEN FALSE ELSE NoPivot(ElimCol(M, k), n, k + 1)
NoPivotOK(A) == NoPivot(Aug(A, IdI(Len(A))), Len(A), 1)
RECURSIVE PrePass(_, _, _)
PrePass(M, n, k) == IF k > n THEN M
                    ELSE IF RIsZero(M[k][k]) THEN LET i == FirstNZ(M, k, 1) IN PrePass(IF i = 0 THEN M ELSE SwapRows(M, i, k), n, k + 1)
                    ELSE PrePass(M, n, k + 1)
PrePivotOK(A) == NoPivot(PrePass(Aug(A, IdI(Len(A))), Len(A), 1), Len(A), 1)
PivotOK(A) == Red(A, IdI(Len(A))).rank = Len(A)

(* ---------- input families ---------- *)
SmallVals == -2..2
Vals3 == -1..2
DiagVals == {-2, -1, 1, 2, 3}
SymVals == -1..1
Perms(n) == {p \in [1..n -> 1..n] : \A i, j \in 1..n : i # j => p[i] # p[j]}
PermMat(p, n) == Mat(LAMBDA i, j : IF p[i] = j THEN 1 ELSE 0, n, n)
\* 0/1 triangular matrices with unit diagonal (upper: up = TRUE); f maps the strict triangle to 0/1
TriIdx(n) == {<<i, j>> \in (1..n) \X (1..n) : i < j}
TriMat(f, n, up) == Mat(LAMBDA i, j : IF i = j THEN 1 ELSE IF up /\ i < j THEN f[<<i, j>>] ELSE IF ~up /\ j < i THEN f[<<j, i>>] ELSE 0, n, n)
SquareOver(n, S) == {Mat(LAMBDA i, j : g[i][j], n, n) : g \in [1..n -> [1..n -> S]]}
RECURSIVE CodeSeq(_, _, _)
CodeSeq(s, k, h) == IF k = 0 THEN h ELSE CodeSeq(s, k - 1, (h * 5 + s[k] + 2) % 1000003)
RECURSIVE CodeRows(_, _, _)
CodeRows(M, k, h) == IF k = 0 THEN h ELSE CodeRows(M, k - 1, CodeSeq(M[k], Len(M[k]), h))
CodeMat(M) == CodeRows(M, Len(M), 11)
Family(name) ==
  CASE name = "all1"  -> SquareOver(1, SmallVals)
    [] name = "all2"  -> SquareOver(2, SmallVals)
    [] name = "bin3"  -> SquareOver(3, {0, 1})
    [] name = "all3"  -> {M \in SquareOver(3, Vals3) : CodeMat(M) % Mod = Res}
    [] name = "perm3" -> {PermMat(p, 3) : p \in Perms(3)}
    [] name = "perm4" -> {PermMat(p, 4) : p \in Perms(4)}
    [] name = "tri3"  -> {TriMat(f, 3, up) : f \in [TriIdx(3) -> {0, 1}], up \in BOOLEAN}
    [] name = "tri4"  -> {TriMat(f, 4, up) : f \in [TriIdx(4) -> {0, 1}], up \in BOOLEAN}
    [] name = "ptri3" -> {MulI(PermMat(p, 3), TriMat(f, 3, TRUE)) : p \in Perms(3), f \in [TriIdx(3) -> {0, 1}]}   \* zero leading minors
    [] name = "ptri4" -> {M \in {MulI(PermMat(p, 4), TriMat(f, 4, TRUE)) : p \in Perms(4), f \in [TriIdx(4) -> {0, 1}]} : CodeMat(M) % Mod = Res}
    \* the structured cases the quantifier names that the families above do not reach: diagonal, symmetric positive definite (L L' with L unit
    \* lower triangular 0/1, optionally scaled by a positive diagonal), triangular with a non-unit diagonal, symmetric, 5 x 5 permutations
    [] name = "diag3" -> {Mat(LAMBDA i, j : IF i = j THEN d[i] ELSE 0, 3, 3) : d \in [1..3 -> DiagVals]}
    [] name = "diag4" -> {M \in {Mat(LAMBDA i, j : IF i = j THEN d[i] ELSE 0, 4, 4) : d \in [1..4 -> DiagVals]} : CodeMat(M) % Mod = Res}
    [] name = "spd3"  -> {MulI(MulI(TriMat(f, 3, FALSE), Mat(LAMBDA i, j : IF i = j THEN d[i] ELSE 0, 3, 3)), TriMat(f, 3, TRUE)) : f \in [TriIdx(3) -> {0, 1}], d \in [1..3 -> {1, 2}]}
    [] name = "spd4"  -> {MulI(TriMat(f, 4, FALSE), TriMat(f, 4, TRUE)) : f \in [TriIdx(4) -> {0, 1}]}
    [] name = "trid3" -> {MulI(Mat(LAMBDA i, j : IF i = j THEN d[i] ELSE 0, 3, 3), TriMat(f, 3, up)) : f \in [TriIdx(3) -> {0, 1}], up \in BOOLEAN, d \in [1..3 -> {-1, 2}]}
    [] name = "sym3"  -> {M \in SquareOver(3, SymVals) : \A i, j \in 1..3 : M[i][j] = M[j][i]}
    [] name = "sym4"  -> {M \in {Mat(LAMBDA i, j : IF i <= j THEN f[<<i, j>>] ELSE f[<<j, i>>], 4, 4) : f \in [{<<i, j>> \in (1..4) \X (1..4) : i <= j} -> SymVals]} : CodeMat(M) % Mod = Res}
    [] name = "perm5" -> {M \in {PermMat(p, 5) : p \in Perms(5)} : CodeMat(M) % Mod = Res}
    [] OTHER -> {}

VARIABLES A, fam
vars == <<A, fam>>
Init == /\ fam \in Families
        /\ A \in Family(fam)
Next == FALSE /\ UNCHANGED vars
Spec == Init /\ [][Next]_vars

(* ---------- theorems on the exact semantics (invariants over every enumerated matrix) ---------- *)
N == Len(A)
\* fixed partner for multiplicativity and the fixed right-hand side
Partner(n) == Mat(LAMBDA i, j : IF i = j THEN 2 ELSE IF j = i + 1 THEN 1 ELSE IF i = n /\ j = 1 THEN -1 ELSE 0, n, n)
Rhs(n) == SeqOf(LAMBDA i : 2 * i - 3, n)                                   \* -1, 1, 3, 5
\* tall least-squares problem built from A: A stacked on the row (1, -1, 1, ..); full column rank iff A is non-singular or the row helps
Tall(M) == SeqOf(LAMBDA i : IF i <= Len(M) THEN M[i] ELSE SeqOf(LAMBDA j : IF j % 2 = 1 THEN 1 ELSE -1, Len(M)), Len(M) + 1)
RhsTall(n) == SeqOf(LAMBDA i : IF i % 3 = 0 THEN -1 ELSE i, n + 1)
DetAgree == LET red == Red(A, IdI(N)) IN DetOf(red) = RI(Lap(A, N))                         \* elimination = Laplace expansion
\* the determinant is the (signed) product of the pivots of an independent LU factorisation - three definitions agree
BareissAgree == /\ BDet(A) = Lap(A, N)
                /\ LET b == Bareiss(A) IN b.ok <=> NonSingular(A)
                /\ LET b == Bareiss(A) IN b.ok => RMul(RI(b.sgn), RProdSeq(LUPivots(A), N)) = RI(Lap(A, N))
DetMul == Lap(MulI(A, Partner(N)), N) = Lap(A, N) * Lap(Partner(N), N) /\ Lap(MulI(A, TrI(A)), N) = Lap(A, N) * Lap(A, N)
InverseLaw == LET red == Red(A, IdI(N)) IN red.rank = N =>
                 LET inv == RightPart(red, N, N) IN MulR(ToR(A), inv) = IdR(N) /\ MulR(inv, ToR(A)) = IdR(N)
SolveLaw == NonSingular(A) => LET x == Solve(A, Rhs(N)) IN \A i \in 1..N : RSum(SeqOf(LAMBDA j : RMul(RI(A[i][j]), x[j]), N)) = RI(Rhs(N)[i])
LsLaw == NonSingular(A) =>                                                                  \* normal equations X'(X beta - y) = 0
           LET X == Tall(A) y == RhsTall(N) beta == LeastSquares(X, y)
               res == SeqOf(LAMBDA i : RSub(RSum(SeqOf(LAMBDA j : RMul(RI(X[i][j]), beta[j]), N)), RI(y[i])), N + 1)
           IN \A j \in 1..N : RIsZero(RSum(SeqOf(LAMBDA i : RMul(RI(X[i][j]), res[i]), N + 1)))
PenroseLaw == NonSingular(A) =>
           LET X == Tall(A) XR == ToR(X) P == PseudoInverse(X) XP == MulR(XR, P) PX == MulR(P, XR) IN
           /\ MulR(XP, XR) = XR /\ MulR(PX, P) = P
           /\ \A i, j \in 1..(N + 1) : XP[i][j] = XP[j][i]
           /\ \A i, j \in 1..N : PX[i][j] = PX[j][i]
\* pivot case analysis: the repaired scheme is defined on every non-singular matrix; the library's schemes are not
ElimDefined == NonSingular(A) => IF Pivoting THEN PivotOK(A) ELSE NoPivotOK(A)               \* MatrixInversion
SolveDefined == NonSingular(A) => IF Pivoting THEN PivotOK(A) ELSE PrePivotOK(A)            \* SolveLSE
\* (not a theorem: the pre-pass searches from row 1 and can move a zero onto an earlier diagonal position, e.g.
\*  <<<<1,0,1>>, <<0,1,1>>, <<0,1,0>>>> needs no exchange at all but is broken by the pre-pass)
PrePassCanBreak == NoPivotOK(A) => PrePivotOK(A)
\* symmetric input: the inverse is symmetric, and positive definite input (all leading minors positive without any exchange) has a positive determinant
IsSym(M) == \A i, j \in 1..Len(M) : M[i][j] = M[j][i]
SymLaw == (IsSym(A) /\ NonSingular(A)) => LET inv == Inverse(A) IN \A i, j \in 1..N : inv[i][j] = inv[j][i]
SpdLaw == fam \in {"spd3", "spd4"} => LET b == Bareiss(A) IN b.ok /\ b.sgn = 1 /\ \A k \in 1..N : b.piv[k] > 0
Theorems == DetAgree /\ BareissAgree /\ DetMul /\ InverseLaw /\ SolveLaw /\ LsLaw /\ PenroseLaw /\ SymLaw /\ SpdLaw

(* ---------- emission: every matrix with the exact results the replay driver compares against ---------- *)
CaseRec == LET red == Red(A, IdI(N)) ns == red.rank = N IN
           IF ~ns THEN [n |-> N, fam |-> fam, A |-> A, ns |-> 0, det |-> 0]
           ELSE LET X == Tall(A) y == RhsTall(N) IN
                [n |-> N, fam |-> fam, A |-> A, ns |-> 1, det |-> Lap(A, N), inv |-> RightPart(red, N, N),
                 b |-> Rhs(N), x |-> Solve(A, Rhs(N)),
                 nopiv |-> IF NoPivotOK(A) THEN 1 ELSE 0, prepiv |-> IF PrePivotOK(A) THEN 1 ELSE 0, lead0 |-> IF A[1][1] = 0 THEN 1 ELSE 0,
                 X |-> X, y |-> y, beta |-> LeastSquares(X, y), pinv |-> PseudoInverse(X)]
Emit == PrintT("@@" \o ToJson(CaseRec))
====
