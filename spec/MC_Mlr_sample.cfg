SPECIFICATION Spec
CONSTANTS
  Mode = "sample"
  NN = 3
  PP = 1
  Samples = 300
INVARIANT Theorems
CONSTRAINT Emit
CHECK_DEADLOCK FALSE
