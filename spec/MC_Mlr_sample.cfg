SPECIFICATION Spec
CONSTANTS
  Mode = "sample"
  NN = 3
  PP = 1
  Samples = 200
  Slice = 0
  Chains = 6
INVARIANT Theorems
CONSTRAINT Emit
CHECK_DEADLOCK FALSE
