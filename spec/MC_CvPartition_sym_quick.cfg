SPECIFICATION Spec
CONSTANTS
  MaxN = 20
VIEW SymView
INVARIANT Partition
INVARIANT NoDupEver
INVARIANT SplitsSound
INVARIANT TestSizesSumToN
INVARIANT EveryObjectOnce
INVARIANT CounterBounded
INVARIANT UnplacedUntouched
