SPECIFICATION MSpec
CONSTANTS
  MaxRows = 4
  MaxThreads = 3
  MaxCond = 4
  MaxCalls = 2
  KernSet = {"lab", "mxv", "vxm", "dist", "cond"}
  GuardBeforeResize = FALSE
  CallerZeroes = TRUE
INVARIANT WriteOnce
INVARIANT InBounds
INVARIANT DoneIsDef
INVARIANT NeedsZero
CHECK_DEADLOCK FALSE
