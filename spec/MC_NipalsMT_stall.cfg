SPECIFICATION MFairSpec
CONSTANTS
  MaxRank = 3
  MaxNpc = 5
  MaxIter = 3
  Guarded = TRUE
  Sites = {"PLS"}
  NProcs = {1}
  FilterSerial = TRUE
  FilterMT = TRUE
  Capped = TRUE
  CapIter = 2
  CapRule = "stall"
PROPERTY Terminates
INVARIANT BeyondRankZero
CHECK_DEADLOCK FALSE
