SPECIFICATION Spec
CONSTANTS
  Paths = {"p1", "p2"}
  MaxHist = 5
  DropTables = TRUE
  SaveAll = TRUE
INVARIANT ReadsLast
INVARIANT EmptyStaysEmpty
INVARIANT SizesDiffer
VIEW MCView
CHECK_DEADLOCK FALSE
