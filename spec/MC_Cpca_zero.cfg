SPECIFICATION CSpec
CONSTANTS
  Bud <- BudZero
  Quanta = 4
  MaxPc = 2
  CFault = "none"
INVARIANT CLedgerAccepts
INVARIANT BlockWithin
INVARIANT TotalWithin
INVARIANT TotalIsWeightedBlocks
INVARIANT ZeroBlockStaysZero
INVARIANT ExhaustedIsAll
INVARIANT SlicesSound
CHECK_DEADLOCK FALSE
