---- MODULE PcaStart ----
(* C01, round 3.  Two small models on top of the ledger of Pca.tla (which they extend without changing it):                              *)
(*                                                                                                                                        *)
(* Section "Start"  : (M) the ideal NIPALS extraction with the DOCUMENTED stopping rule.  A component is normally the dominant remaining   *)
(*                    axis; when its start column is (nearly) orthogonal to the dominant axis - Pca!PrematureStop, the condition implied   *)
(*                    by the rule - a non-dominant axis may be returned first.  Invariants: the ledger WITH the classified waiver          *)
(*                    (TracePca!OrderOrKnown, restated as Accept2) accepts every such run; the variance budget and the closure at full     *)
(*                    rank do not depend on the order; theorems about the classification predicate over a grid (StartTheorems).            *)
(*                    Fault2 injects what the classification must NOT excuse: "wellstarted_swap" (a well-started component returned out    *)
(*                    of order), "incoherent_ratio" (a logged eigenvalue ratio that does not explain the later eigenvalue).                *)
(* Section "Outputs": (M) the output objects of PCAScorePredictor / GetResidualMatrix / PCAIndVarPredictor under every prior content       *)
(*                    (INPUT-CLASSES K7).  ResizeMatrix(m, r, c) zero-fills - also when m already is r x c; PCAIndVarPredictor             *)
(*                    ACCUMULATES into its output after ResizeMatrix, the other two assign every cell.  Invariant AnswersRight: the        *)
(*                    answer never depends on what the output held before.  With ResizeZeroes = FALSE (ResizeMatrix returns early for an   *)
(*                    equally shaped matrix) TLC refutes it: back-transformation into an equally shaped, non-zero output.                  *)
EXTENDS Pca

CONSTANTS Fault2,          \* "none" | "wellstarted_swap" | "incoherent_ratio"
          ResizeZeroes     \* TRUE: ResizeMatrix zero-fills an equally shaped matrix (the library) | FALSE: it returns early

VARIABLES m, o
pvars == <<m, o>>
allv == <<lvars, svars, m, o>>
Frozen == UNCHANGED lvars /\ UNCHANGED svars
PInit0 == LInit /\ spectrum = {} /\ remaining = {} /\ extracted = <<>> /\ shape = <<0, 0, 1>>

(* ===================================================================================== Start *)
NoPrev == [has |-> FALSE, eval |-> 0, sc12 |-> 0, sc9 |-> 0, r9 |-> 0]
(* start-column classes <<cos^2 in 1e-12 units, cos^2 in 1e-9 units>>: exactly orthogonal, nearly (the recorded seed-6 case), at the saturation of the 1e-12 reading, well started *)
ScClasses == {<<0, 0>>, <<31771, 32>>, <<SatQ, 2000000>>, <<SatQ, 400000000>>}
WellStarted == <<SatQ, 400000000>>
DropAt(s, j) == [i \in 1..(Len(s) - 1) |-> IF i < j THEN s[i] ELSE s[i + 1]]
LastEval2 == IF Len(m.evals) = 0 THEN One ELSE m.evals[Len(m.evals)]
(* the trace specification's acceptance of an Extract event (TracePca!TExtract without the Impl layer) *)
Accept2(ev) == /\ PropExtractNoOrder(m.n, m.ssLeft, ev)
               /\ (PropEvalOrder(m.n, LastEval2, ev) \/ (m.prev.has /\ StartOrthogonal(m.n, m.prev, ev)))

MInit2 == m = [n |-> 2, npc |-> 0, rank |-> 0, rem |-> <<>>, k |-> 0, ssLeft |-> One, evals |-> <<>>, prev |-> NoPrev, phase |-> "Idle", ok |-> TRUE, waived |-> 0]
M2Fit == /\ m.phase = "Idle"
         /\ \E nn \in Ns, sp \in Spectra, np \in 1..MaxRank :
              /\ np <= Len(sp)
              /\ m' = [m EXCEPT !.n = nn, !.npc = np, !.rank = Len(sp), !.rem = sp, !.k = 0, !.ssLeft = One, !.evals = <<>>, !.prev = NoPrev, !.phase = "Fit", !.waived = 0]
         /\ o' = o /\ Frozen
M2Extract ==
  /\ m.phase = "Fit" /\ m.k < m.npc
  /\ \E j \in 1..Len(m.rem), sc \in ScClasses :
       LET dom   == m.rem[1] * Unit
           got   == m.rem[j] * Unit
           rTrue == IF m.rem[j] = m.rem[1] THEN One ELSE MulDiv(m.rem[j] * Unit, One, dom)
           rLog  == IF Fault2 = "incoherent_ratio" /\ rTrue < One THEN rTrue + ((One - rTrue) \div 10) * 9 ELSE rTrue
           ev    == [k |-> m.k + 1, eval |-> got, resid |-> m.ssLeft - got, ortho |-> 0, proj |-> 0, recon |-> 0, rorth |-> 0, dmodx |-> 0,
                     sc12 |-> sc[1], sc9 |-> sc[2], r9 |-> rLog]
           inv   == ~PropEvalOrder(m.n, LastEval2, ev)
       IN /\ \/ m.rem[j] = m.rem[1]                                                     \* the dominant axis (or one of several equal ones)
             \/ PrematureStop(m.n, sc[1], sc[2], rTrue)                                  \* what the documented rule permits
             \/ (Fault2 = "wellstarted_swap" /\ sc = WellStarted /\ j = 2)
          /\ m' = [m EXCEPT !.k = m.k + 1, !.ssLeft = ev.resid, !.evals = Append(m.evals, got), !.rem = DropAt(m.rem, j),
                            !.prev = [has |-> TRUE, eval |-> got, sc12 |-> sc[1], sc9 |-> sc[2], r9 |-> rLog],
                            !.ok = (m.ok /\ Accept2(ev)), !.waived = m.waived + (IF inv THEN 1 ELSE 0)]
  /\ o' = o /\ Frozen
M2Finish == /\ m.phase = "Fit" /\ m.k = m.npc
            /\ m' = [m EXCEPT !.phase = "Idle", !.ok = (m.ok /\ PropFinishW(m.n, m.evals, m.ssLeft, m.npc = m.rank, m.evals))]
            /\ o' = o /\ Frozen
Next2 == M2Fit \/ M2Extract \/ M2Finish
Spec2 == (PInit0 /\ MInit2 /\ o = [kind |-> "none"]) /\ [][Next2]_allv

LedgerAccepts2 == m.ok
(* the order of extraction changes neither the budget nor the closure *)
BudgetExact2 == m.ssLeft + SeqSum(m.evals) = One
Closure2 == (m.phase = "Fit" /\ m.k = m.rank) => m.ssLeft = 0
NoWaiver == m.waived = 0                        \* must be VIOLATED (MC_Pca2_waiver.cfg): inversions excused by the classification do occur in the model
Type2 == m.k = Len(m.evals) /\ m.k <= m.npc /\ m.phase \in {"Idle", "Fit"} /\ m.waived <= m.k
(* theorems about the classification, evaluated once (initial state) over a grid *)
RGrid == {0, 1, 100000000, 500000000, 900000000, 964742031, 990000000, 999000000, 999900000, 999999999}
ScGrid == {<<0, 0>>, <<1, 0>>, <<31771, 32>>, <<1000000, 1000>>, <<1999999999, 2000000>>, <<SatQ, 2000000>>, <<SatQ, 10000000>>, <<SatQ, 400000000>>, <<SatQ, One>>}
ScLeq(a, b) == a[1] <= b[1] /\ a[2] <= b[2]
StartTheorems == (m.phase = "Idle" /\ m.npc = 0) =>
  /\ \A nn \in 2..60 : \A r \in RGrid : PrematureStop(nn, 0, 0, r)                                              \* an exactly orthogonal start always stops early (r < 1)
  /\ \A nn \in {2, 8, 38, 60} : \A r \in RGrid : \A a \in ScGrid, b \in ScGrid :
        (ScLeq(a, b) /\ PrematureStop(nn, b[1], b[2], r)) => PrematureStop(nn, a[1], a[2], r)                    \* monotone in cos^2
  /\ \A nn \in {2, 8, 38} : \A r \in RGrid : \A a \in ScGrid :
        PrematureStop(nn, a[1], a[2], r) => PrematureStop(60, a[1], a[2], r)                                     \* monotone in n (the rule divides by n)
  /\ \A nn \in 2..60 : \A r \in {x \in RGrid : x <= 950000000} : \A a \in {x \in ScGrid : x[2] >= 10000000} :
        ~PrematureStop(nn, a[1], a[2], r)                                                                        \* cos^2 >= 1e-2 never excuses an inversion of 5 % or more
  /\ \A nn \in 2..60 : ~PrematureStop(nn, 0, 0, One)                                                             \* the dominant axis itself is never "premature"
  /\ PrematureStop(38, 31771, 32, 964742031)                                                                     \* the recorded seed-6 case (n = 38) is the known finding
  /\ PrematureStop(8, 0, 0, 888888889)                                                                           \* the 8 x 3 witness

(* ===================================================================================== Outputs *)
(* an output object: its shape ("none" = initMatrix, "other", "nxa" with a, "nxc") and what it holds ("zero", "data" = anything else, "answer") *)
OShapes == {"none", "other", "nxc"} \cup {"nx1", "nx2", "nx3"}
Npc3 == 3
ScoreShape(a) == IF a = 1 THEN "nx1" ELSE IF a = 2 THEN "nx2" ELSE "nx3"
(* ResizeMatrix(out, shape): a matrix of another shape is re-allocated and zero-filled; an equally shaped one is zero-filled iff ResizeZeroes *)
Resized(out, shp) == IF out.shape = shp THEN (IF ResizeZeroes THEN [out EXCEPT !.holds = "zero"] ELSE out)
                     ELSE [shape |-> shp, holds |-> "zero"]
OInit == o = [kind |-> "out", shape |-> "none", holds |-> "zero", right |-> TRUE, calls |-> 0, last |-> "none"]
(* the harness (or any caller) hands the output over in any state *)
OStage == /\ o.calls < 4
          /\ \E shp \in OShapes, h \in {"zero", "data"} :
               o' = [o EXCEPT !.shape = shp, !.holds = IF shp = "none" THEN "zero" ELSE h, !.last = "stage"]
          /\ m' = m /\ Frozen
(* PCAScorePredictor(x, model, a, out): ResizeMatrix(out, n, a), then every cell is ASSIGNED *)
OScore == /\ o.calls < 4 /\ \E a \in 1..Npc3 :
               LET r == Resized([shape |-> o.shape, holds |-> o.holds], ScoreShape(a))
               IN o' = [o EXCEPT !.shape = r.shape, !.holds = "answer", !.calls = o.calls + 1, !.right = o.right, !.last = "score"]
          /\ m' = m /\ Frozen
(* GetResidualMatrix(x, model, a, out): ResizeMatrix(out, n, c), every cell assigned (centred data), then the components subtracted *)
OResid == /\ o.calls < 4
          /\ LET r == Resized([shape |-> o.shape, holds |-> o.holds], "nxc")
             IN o' = [o EXCEPT !.shape = r.shape, !.holds = "answer", !.calls = o.calls + 1, !.right = o.right, !.last = "resid"]
          /\ m' = m /\ Frozen
(* PCAIndVarPredictor(t, p, mean, scale, a, out): ResizeMatrix(out, n, c), then out += t p' component by component, then out = out * scale + mean *)
OBack == /\ o.calls < 4
         /\ LET r == Resized([shape |-> o.shape, holds |-> o.holds], "nxc")
            IN o' = [o EXCEPT !.shape = r.shape, !.holds = IF r.holds = "zero" THEN "answer" ELSE "data", !.calls = o.calls + 1,
                              !.right = (o.right /\ r.holds = "zero"), !.last = "back"]
         /\ m' = m /\ Frozen
ONext == OStage \/ OScore \/ OResid \/ OBack
OSpec == (PInit0 /\ MInit2 /\ OInit) /\ [][ONext]_allv
AnswersRight == o.right
OType == o.shape \in OShapes /\ o.holds \in {"zero", "data", "answer"} /\ o.calls \in 0..4
====
