SPECIFICATION Spec
CONSTANTS
  NW = 2
  K = 1
  PerThread = TRUE
  Shape = "foreign"
CONSTRAINT Emit
CHECK_DEADLOCK FALSE
