SPECIFICATION Spec
CONSTANTS
  NW = 1
  K = 2
  PerThread = TRUE
  Shape = "foreign"
CONSTRAINT Emit
CHECK_DEADLOCK FALSE
