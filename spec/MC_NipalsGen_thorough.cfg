SPECIFICATION Spec
CONSTANTS
  MaxR = 3
  MaxC = 3
  FullCells = 9
  SampleMod = 1
  SampleRes = 0
  Ex = 3
  YNorm = TRUE
  Kinds = {"mat", "pert", "resp"}
  ProdTier = "thorough"
  Seed = 1
INVARIANT Theorems
CONSTRAINT Emit
CHECK_DEADLOCK FALSE
