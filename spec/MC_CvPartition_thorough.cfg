SPECIFICATION Spec
CONSTANTS
  MaxN = 7
INVARIANT Partition
INVARIANT NoDupEver
INVARIANT SplitsSound
INVARIANT TestSizesSumToN
INVARIANT EveryObjectOnce
INVARIANT CounterBounded
