\* 3 points on {0..3}^2 scaled by 1e3
SPECIFICATION Spec
CONSTANTS
  NPts = 3
  Dim = 2
  Grid = 3
  KMax = 3
  DistinctStart = FALSE
  IterCap = 8
  Variant = "dowhile"
  Off = 0
  SExp = 3
INVARIANT TypeOK
INVARIANT PostHolds
INVARIANT CostMonotone
INVARIANT CapNeedsRestart
INVARIANT StopIsFixedPoint
CHECK_DEADLOCK FALSE
