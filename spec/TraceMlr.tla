---- MODULE TraceMlr ----
(* Trace specification for C07 (validate direction): ledger of an MLR model recorded by harness/c07_drv.c on real      *)
(* regression problems (X 4..50 x 1..10, cond([1 X]) <= 1e4, 1..4 responses).  Residuals are in units of 1e-12,         *)
(* R2 and RSS/TSS in units of 1e-9.  The bound of every identity is a function of the logged condition number:           *)
(*   Bound = (1e-8 + 2e-13 * kappa^2) * amp, capped at 1e-3                                                              *)
(* (normal equations solved by explicit inversion lose about kappa^2 * machine epsilon relative to |y|; amp = |y| /      *)
(*  |y - mean| converts that to the centred norm the identities are stated in; surveyed on the unchanged tree over       *)
(*  3000 models with cond up to 1e4: worst observed / bound = 7e-3, see c07.py).  Index, sign, denominator and          *)
(*  intercept mistakes have relative effect >= 1e-2 and saturate the quantiser (2e-3) above the cap.                    *)
(* For tiny integer-valued cases (event Tiny) TLC recomputes the exact coefficients with the operators of Mlr.tla.       *)
(*                                                                                                                       *)
(* LOCATION class (K3, loc = 1 in the Case event; paired runs of kind "shift"): responses with |mean| / sdev up to 1e9.   *)
(* There amp ~ |mean|/sdev and the algorithmic floor 1e-8 must not be multiplied by it (1e-8 * 1e8 = 1 bounds nothing):   *)
(*   BoundLoc = 1e-8 + 2e-13 * (kappa^2 + 1) * amp      (first order: fitted values, coefficients, normal equations)    *)
(* and the generator stays where BoundLoc < Cap (TCase / TPair refuse a saturated bound, so nothing is judged where the  *)
(* tolerance has lost its meaning).  The statistics have tolerances that follow from representability alone:             *)
(*   reported R2 / SDEC^2 against 1 - RSS/TSS / RSS/n of the model's OWN fitted values, RSS and TSS summed two-pass in    *)
(*   long double by the harness (its own error bound refb is logged and added): TolAlg + refb + RepR2(n, off), where      *)
(*   RepR2 = (n eps off)^2 is the effect of the rounded mean on a two-pass TSS - a one-pass TSS is off by eps * off^2;    *)
(*   R2 under a shift of the response: TolAlg + BoundLoc^2 (second order: the fit is at a minimum of RSS) + 8 eps amp;    *)
(*   R2 >= 0 up to BoundLoc^2.                                                                                          *)
(* TinyU: tiny integer problems run with the response moved by H = 2^17 .. 2^30 of its own units (exactly, in double);   *)
(* TLC recomputes the exact R2, SDEC^2 and coefficients; tolerance 1e-8 + 16 eps H.                                       *)
(* HISTORIES (K7): Hist / HFit events order several fits made in ONE process; every fit is judged against its own data   *)
(* by the same actions as a single fit, the relation of a fit to its predecessor is recomputed here from the logged      *)
(* shapes and data digests.  Ols / OlsCase: direct OrdinaryLeastSquares() calls.  Refit: MLR() into a used model.         *)
EXTENDS Mlr, TraceBase
CONSTANT PropOnly
VARIABLES l, kappa, amp, nresp, seenStat, nobj, loc, hprev, hseen
tvars == <<cid, X, y, ok, l, kappa, amp, nresp, seenStat, nobj, loc, hprev, hseen>>
LA == INSTANCE LedgerArith
Ev == Tr[l]
Step == l' = l + 1
At(name) == l <= Len(Tr) /\ Ev.e = name
Same == UNCHANGED <<cid, X, y, ok, kappa, amp, nresp, seenStat, nobj, loc, hprev, hseen>>

TolAlg == 10000
One == 1000000000
Cap == 1000000000                                \* 1e-3: below the quantiser's saturation value, so a saturated residual is always rejected
TolK(kp) == TolAlg + (kp * kp) \div 5            \* 1e-12 units; kp <= 10000 so kp*kp fits 32 bits
Bound(kp, am) == IF am > Cap \div TolK(kp) THEN Cap ELSE TolK(kp) * am                  \* the product is formed only when it is <= Cap
Tol9(kp, am) == Bound(kp, am) \div 1000 + 2      \* the same bound in 1e-9 units, plus the two roundings
AbsI(v) == IF v < 0 THEN -v ELSE v
RespOK(j) == j \in 0..(nresp - 1)
Sq(v) == v * v

\* ---- location class ---------------------------------------------------------------------------------------------------
KK(kp) == kp * kp + 1
LocSat(kp, am) == (am \div 5 + 1) > (Cap - TolAlg) \div KK(kp)                            \* 2e-13 (kappa^2+1) amp would pass 1e-3: nothing can be judged
BoundLoc(kp, am) == IF LocSat(kp, am) THEN Cap ELSE TolAlg + KK(kp) * (am \div 5 + 1)     \* the product is formed only when it is < Cap
Bnd == IF loc = 1 THEN BoundLoc(kappa, amp) ELSE Bound(kappa, amp)                      \* first-order bound of the current case
Sec(b) == Sq(b \div 1000000 + 1)                                                          \* b^2 in 1e-12 units (b in 1e-12 units, b <= Cap)
RepMean(n, off) == (n * (off \div 1000 + 1)) \div 4                                       \* n eps off (mean of n doubles of size off sdev), 1e-12 units of sdev, x 2.2
RepR2(n, off) == Sq((n * (off \div 1000 + 1)) \div 9000000 + 1) + 2                        \* (n eps off)^2: a rounded mean moves a two-pass TSS by n delta^2
RepShift(am) == am \div 500 + 2                                                           \* 8 eps amp: cross term of the rounding of fitted values of size amp sdev
OffOK(off) == off \in 0..1000000000

\* ---- histories ----------------------------------------------------------------------------------------------------------
NoFit == [n |-> 0, p |-> 0, ny |-> 0, dig |-> 0 - 1]
RelOf(prev, seen, ev) ==
   IF prev = NoFit THEN "first"
   ELSE IF prev.n = ev.n /\ prev.p = ev.p /\ prev.ny = ev.ny /\ prev.dig = ev.dig THEN "same-data"
   ELSE IF ev.dig \in seen THEN "again"
   ELSE IF prev.n = ev.n /\ prev.p = ev.p THEN "same-shape"
   ELSE IF prev.p = ev.p THEN "same-cols"
   ELSE "other-shape"

TInit == l = 1 /\ cid = 0 /\ X = <<>> /\ y = <<>> /\ ok = FALSE /\ kappa = 1 /\ amp = 1 /\ nresp = 0 /\ seenStat = {} /\ nobj = 0 /\ loc = 0
         /\ hprev = NoFit /\ hseen = {}
TReset == At("Reset") /\ Step /\ nresp' = 0 /\ kappa' = 1 /\ amp' = 1 /\ seenStat' = {} /\ nobj' = 0 /\ loc' = 0 /\ UNCHANGED <<cid, X, y, ok, hprev, hseen>>
TSkip == At("Skip") /\ Step /\ Same
\* the quantifier of the property
TCase == /\ At("Case") /\ Step
         /\ Ev.n \in 4..50 /\ Ev.p \in 1..10 /\ Ev.p + 1 <= Ev.n /\ Ev.ny \in 1..4 /\ Ev.kappa \in 1..10000 /\ Ev.amp >= 1
         /\ Ev.loc \in {0, 1} /\ OffOK(Ev.off)
         /\ (Ev.loc = 1 => ~LocSat(Ev.kappa, Ev.amp))                   \* the location class is only generated where its bound means something
         /\ nresp' = Ev.ny /\ kappa' = Ev.kappa /\ amp' = Ev.amp /\ seenStat' = {} /\ nobj' = Ev.n /\ loc' = Ev.loc
         /\ UNCHANGED <<cid, X, y, ok, hprev, hseen>>
TCoef == At("Coef") /\ Step /\ Same /\ RespOK(Ev.j) /\ Ev.err <= Bnd
TNormal == At("Normal") /\ Step /\ Same /\ RespOK(Ev.j) /\ Ev.err <= Bnd
\* reported R2 and SDEC are the definitions, R2 inside [0,1], residuals sum to zero, residual table = fitted - observed
R2Low == IF loc = 1 THEN 10 + Sec(Bnd) \div 1000 + 2 ELSE Tol9(kappa, amp)      \* R2 >= 0: first-order slack for the classes that existed, second order for K3
TStat == /\ At("Stat") /\ Step /\ RespOK(Ev.j) /\ Ev.j \notin seenStat
         /\ Ev.r2 >= 0 - R2Low /\ Ev.r2 <= One + Tol9(kappa, amp)
         /\ AbsI(Ev.r2 - (One - Ev.rssn)) <= Tol9(kappa, amp)
         /\ Ev.r2gap <= Bnd /\ Ev.sdecgap <= Bnd /\ Ev.sumres <= Bnd /\ Ev.residgap <= TolAlg
         \* against the long double reference: independent of conditioning and of the offset except through representability
         /\ OffOK(Ev.off) /\ Ev.refb \in 0..100
         /\ Ev.r2x <= TolAlg + Ev.refb + RepR2(nobj, Ev.off)
         /\ Ev.sdx <= TolAlg + Ev.refb + RepR2(nobj, Ev.off)
         /\ Ev.ymgap <= TolAlg + RepMean(nobj, Ev.off)                  \* MLRMODEL.ymean is the column mean of the training responses
         /\ (PropOnly \/ Ev.residsign = 1)              \* Impl: the stored residual is fitted - observed (sign convention of the present code)
         /\ seenStat' = seenStat \cup {Ev.j} /\ UNCHANGED <<cid, X, y, ok, kappa, amp, nresp, nobj, loc, hprev, hseen>>
TRecover == At("Recover") /\ Step /\ Same /\ RespOK(Ev.j) /\ Ev.err <= Bnd
TPred == At("Pred") /\ Step /\ Same /\ Ev.shape = 1 /\ Ev.err <= TolAlg
TNewStat == At("NewStat") /\ Step /\ Same /\ RespOK(Ev.j) /\ Ev.r2gap <= TolAlg /\ Ev.rmsegap <= TolAlg
\* what MLRPredictY reports for unseen objects: R2 about the training mean as the model holds it (MLRMODEL.ymean, judged in Stat), SDEP^2 = RSS/m
TPredStat == /\ At("PredStat") /\ Step /\ Same /\ RespOK(Ev.j) /\ OffOK(Ev.off)
             /\ Ev.r2gap <= TolAlg + RepR2(nobj, Ev.off) /\ Ev.sdgap <= TolAlg
\* paired runs; the second model has its own condition number (logged), both inside the quantifier; a change of units of the
\* predictors (xscale, 1e-8..1e8) or of the responses (affine, 1e-8..1e8) keeps the condition number of the equilibrated problem
TPair == /\ At("Pair") /\ Step /\ Same
         /\ Ev.kind \in {"affine", "remix", "xscale", "xshift", "shift"} /\ Ev.kappa2 \in 1..10000 /\ Ev.amp2 >= 1
         /\ IF Ev.kind = "shift"
            THEN /\ ~LocSat(kappa, Ev.amp2) /\ Ev.amp2 >= amp
                 /\ Ev.err <= BoundLoc(kappa, Ev.amp2)
                 /\ Ev.r2d <= TolAlg + Sec(BoundLoc(kappa, Ev.amp2)) + RepShift(Ev.amp2)
            ELSE Ev.err <= Bound(IF Ev.kappa2 > kappa THEN Ev.kappa2 ELSE kappa, Ev.amp2)
TReuse == At("Reuse") /\ Step /\ Same /\ Ev.shape = 1 /\ Ev.err <= TolAlg
\* tiny integer case: b4 = coefficients reported by the library in units of 1e-4; exact coefficients recomputed here
TTiny == /\ At("Tiny") /\ Step /\ Same
         /\ FullRank(Ev.X)
         /\ LET cd == CoefCD(Ev.X, Ev.y) IN
            /\ Len(Ev.b4) = Len(cd.num)
            /\ \A a \in 1..Len(cd.num) : AbsI(Ev.b4[a] * cd.det - cd.num[a] * 10000) <= AbsI(cd.det)
            /\ ThNormal(Ev.X, Ev.y, cd)
\* tiny integer case in a LOCATION unit system: the library saw predictors (X + hx) 2^e and the response y 2^f + sg 2^G, H = 2^(G-f); the
\* results come back mapped to the units of (X + hx, y): slopes unchanged, intercept b0 - hx * (sum of slopes), R2 unchanged, SDEC^2 unchanged
Floor4(num, det) == LET q == LA!MulDiv(AbsI(num), 10000, AbsI(det)) IN IF (num < 0) = (det < 0) THEN q ELSE 0 - q      \* num/det in 1e-4 units, towards zero
TolU9(H) == 12 + H \div 250000                   \* 1e-8 + 16 eps H + roundings, 1e-9 units
TolU8(H) == 3 + H \div 600000                    \* SDEC^2 (<= 4), 1e-8 units
TTinyU == /\ At("TinyU") /\ Step /\ Same
          /\ FullRank(Ev.X) /\ Ev.shape = 1 /\ Ev.H \in 1..1073741824 /\ Ev.hx \in (0 - 64)..64
          /\ LET cd == CoefCD(Ev.X, Ev.y)
                 sl == SumInt([j \in 1..Len(Ev.X[1]) |-> cd.num[j + 1]])
                 num == [a \in 1..Len(cd.num) |-> IF a = 1 THEN cd.num[1] - Ev.hx * sl ELSE cd.num[a]]
                 rss == Rss(Ev.X, Ev.y, cd)
                 tss == Tss(Ev.y)
                 s2 == Sdec2Of(rss, Len(Ev.X))
             IN /\ Len(Ev.b4) = Len(num)
                /\ \A a \in 1..Len(num) : AbsI(Ev.b4[a]) <= One /\ AbsI(Ev.b4[a] - Floor4(num[a], cd.det)) <= 3      \* (range first: saturated values must not overflow the difference)
                /\ Ev.sd2 \in 0..One /\ AbsI(Ev.sd2 - LA!MulDiv(s2[1], 100000000, s2[2])) <= TolU8(Ev.H)
                /\ (IsZ(tss) \/ LET r == R2Of(rss, tss) IN Ev.r2 \in (0 - One)..(One + One) /\ AbsI(Ev.r2 - LA!MulDiv(r[1], One, r[2])) <= TolU9(Ev.H))
\* ---- in-process histories --------------------------------------------------------------------------------------------------
THist == /\ At("Hist") /\ Step
         /\ Ev.same \in {0, 1} /\ Ev.pat \in 0..4
         /\ (Ev.step = 0) = (Ev.rel = "first") /\ (Ev.step = 0 => Ev.same = 0)
         /\ LET prev == IF Ev.step = 0 THEN NoFit ELSE hprev
                seen == IF Ev.step = 0 THEN {} ELSE hseen
            IN /\ Ev.rel = RelOf(prev, seen, Ev)
               /\ hprev' = [n |-> Ev.n, p |-> Ev.p, ny |-> Ev.ny, dig |-> Ev.dig]
               /\ hseen' = IF prev = NoFit THEN {} ELSE seen \cup {prev.dig}
         /\ UNCHANGED <<cid, X, y, ok, kappa, amp, nresp, seenStat, nobj, loc>>
THFit == At("HFit") /\ Step /\ Same /\ Ev.same \in {0, 1} /\ Ev.want \in {0, 1} /\ Ev.step >= 0
\* direct OrdinaryLeastSquares() on a design matrix (with or without a column of ones): coefficients against LAPACK, normal equations
TOlsCase == /\ At("OlsCase") /\ Step
            /\ Ev.n \in 4..50 /\ Ev.k \in 1..11 /\ Ev.k < Ev.n /\ Ev.icpt \in {0, 1} /\ Ev.kappa \in 1..10000 /\ Ev.amp >= 1
            /\ kappa' = Ev.kappa /\ amp' = Ev.amp /\ nobj' = Ev.n /\ loc' = 0 /\ nresp' = 1 /\ seenStat' = {}
            /\ UNCHANGED <<cid, X, y, ok, hprev, hseen>>
TOls == At("Ols") /\ Step /\ Same /\ nresp = 1 /\ Ev.shape = 1 /\ Ev.err <= Bound(kappa, amp) /\ Ev.nerr <= Bound(kappa, amp)
\* MLR() into a model that already holds a fit must give the model of the new data (the tables of a fresh fit)
TRefit == At("Refit") /\ Step /\ Same /\ Ev.shape = 1 /\ Ev.kappa \in 1..10000 /\ Ev.amp >= 1 /\ Ev.err <= Bound(Ev.kappa, Ev.amp)
TEnd == At("End") /\ Step /\ Same

TNext == TReset \/ TSkip \/ TCase \/ TCoef \/ TNormal \/ TStat \/ TRecover \/ TPred \/ TNewStat \/ TPredStat \/ TPair \/ TReuse \/ TTiny \/ TTinyU
         \/ THist \/ THFit \/ TOlsCase \/ TOls \/ TRefit \/ TEnd
TSpec == TInit /\ [][TNext]_tvars
TraceAccepted == Accepted
Diag == ShowCursor(l)
====
