---- MODULE TraceMlr ----
(* Trace specification for C07 (validate direction): ledger of an MLR model recorded by harness/c07_drv.c on real      *)
(* regression problems (X 4..50 x 1..10, cond([1 X]) <= 1e4, 1..4 responses).  Residuals are in units of 1e-12,         *)
(* R2 and RSS/TSS in units of 1e-9.  The bound of every identity is a function of the logged condition number:           *)
(*   Bound = (1e-8 + 2e-13 * kappa^2) * amp, capped at 1e-3                                                              *)
(* (normal equations solved by explicit inversion lose about kappa^2 * machine epsilon relative to |y|; amp = |y| /      *)
(*  |y - mean| converts that to the centred norm the identities are stated in; surveyed on the unchanged tree over       *)
(*  3000 models with cond up to 1e4: worst observed / bound = 7e-3, see c07.py).  Index, sign, denominator and          *)
(*  intercept mistakes have relative effect >= 1e-2 and saturate the quantiser (2e-3) above the cap.                    *)
(* For tiny integer-valued cases (event Tiny) TLC recomputes the exact coefficients with the operators of Mlr.tla.       *)
EXTENDS Mlr, TraceBase
CONSTANT PropOnly
VARIABLES l, kappa, amp, nresp, seenStat
tvars == <<cid, X, y, ok, l, kappa, amp, nresp, seenStat>>
Ev == Tr[l]
Step == l' = l + 1
At(name) == l <= Len(Tr) /\ Ev.e = name
Same == UNCHANGED <<cid, X, y, ok, kappa, amp, nresp, seenStat>>

TolAlg == 10000
One == 1000000000
Cap == 1000000000                                \* 1e-3: below the quantiser's saturation value, so a saturated residual is always rejected
TolK(kp) == TolAlg + (kp * kp) \div 5            \* 1e-12 units; kp <= 10000 so kp*kp fits 32 bits
Bound(kp, am) == IF am > Cap \div TolK(kp) THEN Cap ELSE TolK(kp) * am                  \* the product is formed only when it is <= Cap
Tol9(kp, am) == Bound(kp, am) \div 1000 + 2      \* the same bound in 1e-9 units, plus the two roundings
AbsI(v) == IF v < 0 THEN -v ELSE v
RespOK(j) == j \in 0..(nresp - 1)

TInit == l = 1 /\ cid = 0 /\ X = <<>> /\ y = <<>> /\ ok = FALSE /\ kappa = 1 /\ amp = 1 /\ nresp = 0 /\ seenStat = {}
TReset == At("Reset") /\ Step /\ nresp' = 0 /\ kappa' = 1 /\ amp' = 1 /\ seenStat' = {} /\ UNCHANGED <<cid, X, y, ok>>
TSkip == At("Skip") /\ Step /\ Same
\* the quantifier of the property
TCase == /\ At("Case") /\ Step
         /\ Ev.n \in 4..50 /\ Ev.p \in 1..10 /\ Ev.p + 1 < Ev.n /\ Ev.ny \in 1..4 /\ Ev.kappa \in 1..10000 /\ Ev.amp >= 1
         /\ nresp' = Ev.ny /\ kappa' = Ev.kappa /\ amp' = Ev.amp /\ seenStat' = {} /\ UNCHANGED <<cid, X, y, ok>>
TCoef == At("Coef") /\ Step /\ Same /\ RespOK(Ev.j) /\ Ev.err <= Bound(kappa, amp)
TNormal == At("Normal") /\ Step /\ Same /\ RespOK(Ev.j) /\ Ev.err <= Bound(kappa, amp)
\* reported R2 and SDEC are the definitions, R2 inside [0,1], residuals sum to zero, residual table = fitted - observed
TStat == /\ At("Stat") /\ Step /\ RespOK(Ev.j) /\ Ev.j \notin seenStat
         /\ Ev.r2 >= 0 - Tol9(kappa, amp) /\ Ev.r2 <= One + Tol9(kappa, amp)
         /\ AbsI(Ev.r2 - (One - Ev.rssn)) <= Tol9(kappa, amp)
         /\ Ev.r2gap <= Bound(kappa, amp) /\ Ev.sdecgap <= Bound(kappa, amp) /\ Ev.sumres <= Bound(kappa, amp) /\ Ev.residgap <= TolAlg
         /\ (PropOnly \/ Ev.residsign = 1)              \* Impl: the stored residual is fitted - observed (sign convention of the present code)
         /\ seenStat' = seenStat \cup {Ev.j} /\ UNCHANGED <<cid, X, y, ok, kappa, amp, nresp>>
TRecover == At("Recover") /\ Step /\ Same /\ RespOK(Ev.j) /\ Ev.err <= Bound(kappa, amp)
TPred == At("Pred") /\ Step /\ Same /\ Ev.shape = 1 /\ Ev.err <= TolAlg
TNewStat == At("NewStat") /\ Step /\ Same /\ RespOK(Ev.j) /\ Ev.r2gap <= TolAlg /\ Ev.rmsegap <= TolAlg
\* paired runs; the second model has its own condition number (logged), both inside the quantifier; a change of units of the
\* predictors (xscale, 1e-8..1e8) or of the responses (affine, 1e-8..1e8) keeps the condition number of the equilibrated problem
TPair == /\ At("Pair") /\ Step /\ Same
         /\ Ev.kind \in {"affine", "remix", "xscale"} /\ Ev.kappa2 \in 1..10000 /\ Ev.amp2 >= 1
         /\ Ev.err <= Bound(IF Ev.kappa2 > kappa THEN Ev.kappa2 ELSE kappa, Ev.amp2)
TReuse == At("Reuse") /\ Step /\ Same /\ Ev.shape = 1 /\ Ev.err <= TolAlg
\* tiny integer case: b4 = coefficients reported by the library in units of 1e-4; exact coefficients recomputed here
TTiny == /\ At("Tiny") /\ Step /\ Same
         /\ FullRank(Ev.X)
         /\ LET cd == CoefCD(Ev.X, Ev.y) IN
            /\ Len(Ev.b4) = Len(cd.num)
            /\ \A a \in 1..Len(cd.num) : AbsI(Ev.b4[a] * cd.det - cd.num[a] * 10000) <= AbsI(cd.det)
            /\ ThNormal(Ev.X, Ev.y, cd)
TEnd == At("End") /\ Step /\ Same

TNext == TReset \/ TSkip \/ TCase \/ TCoef \/ TNormal \/ TStat \/ TRecover \/ TPred \/ TNewStat \/ TPair \/ TReuse \/ TTiny \/ TEnd
TSpec == TInit /\ [][TNext]_tvars
TraceAccepted == Accepted
Diag == ShowCursor(l)
====
