---- MODULE StatsHist ----
(* C15, class K7: histories of calls into ONE output container.  Every call k produces the entries Fresh(k, len)    *)
(* (entry i of the table of call k, abstractly <<k, i>>).  The caller may pre-size the container (New*(len): junk    *)
(* entries <<0, i>>), re-initialise it, or simply call again with other data and another shape.                      *)
(*   TableIsLatest : after a call the container IS the table of that call (the property's reading for the tables).    *)
(*   TailIsLatest  : the entries of the latest call are the tail of the container (all that "append" gives).         *)
(*   FreshBlind    : as long as every call found an EMPTY container, both contracts give TableIsLatest - this is     *)
(*                   why a generator that only ever hands fresh outputs cannot tell "assign" from "append"           *)
(*                   (the seeded change MLRRegressionStatistics -> DVectorAppend was missed exactly so).              *)
(* Checked: Contract = "assign": all three hold over every history; Contract = "append": TailIsLatest and FreshBlind *)
(* hold, TableIsLatest FAILS (shortest counterexample Presize ; Call) - the check insists on that counterexample.    *)
EXTENDS StatsOut, TLC
CONSTANTS Contract, MaxCalls, Lens
VARIABLES out, last, k, dirty
hvars == <<out, last, k, dirty>>
Fresh(c, len) == [i \in 1..len |-> <<c, i>>]
HInit == out = <<>> /\ last = <<0, 0>> /\ k = 0 /\ dirty = FALSE
Call(len) == /\ k < MaxCalls /\ k' = k + 1 /\ last' = <<k + 1, len>>
             /\ out' = After(Contract, out, Fresh(k + 1, len))
             /\ dirty' = (dirty \/ out # <<>>)
Presize(len) == /\ out = <<>> /\ k < MaxCalls /\ out' = Fresh(0, len) /\ UNCHANGED <<last, k, dirty>>
Reinit == out # <<>> /\ out' = <<>> /\ UNCHANGED <<last, k, dirty>>
HNext == (\E len \in Lens : Call(len) \/ Presize(len)) \/ Reinit
HSpec == HInit /\ [][HNext]_hvars
Called == k > 0 /\ last[1] = k
TableIsLatest == (Called /\ out # <<>> /\ out[Len(out)][1] = k) => out = Fresh(last[1], last[2])
TailIsLatest == (Called /\ out # <<>> /\ out[Len(out)][1] = k) =>
                   Len(out) >= last[2] /\ SubSeq(out, Len(out) - last[2] + 1, Len(out)) = Fresh(last[1], last[2])
FreshBlind == ~dirty => TableIsLatest
CountLaw == \A r \in Routines, pre \in 0..3, nw \in 1..3 :
               CountAfter(r, pre, nw) = (IF ContractOf(r) = "assign" THEN nw ELSE pre + nw)
ASSUME CountLaw
====
