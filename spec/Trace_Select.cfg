SPECIFICATION TSpec
CONSTANTS
  NMin = 3
  NMax = 3
  Dim = 1
  Grid = 1
  EmitMod = 1
  PropOnly = FALSE
  TolExact = 1000
  EpsUnits = 1000
CONSTRAINT Diag
POSTCONDITION TraceAccepted
CHECK_DEADLOCK FALSE
