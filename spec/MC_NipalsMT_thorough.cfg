SPECIFICATION MFairSpec
CONSTANTS
  MaxRank = 4
  MaxNpc = 6
  MaxIter = 5
  Guarded = TRUE
  Sites = {"PCA", "PLS", "CPCA", "KMEANS", "NM", "MLRLOO"}
  NProcs = {1, 2, 3, 5, 16, 24}
  FilterSerial = TRUE
  FilterMT = TRUE
  Capped = TRUE
  CapIter = 3
  CapRule = "passes"
PROPERTY Terminates
INVARIANT BeyondRankZero
INVARIANT NprocInvisible
INVARIANT MTypeOK
CHECK_DEADLOCK FALSE
