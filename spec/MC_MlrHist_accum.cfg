SPECIFICATION Spec
CONSTANTS
  Fault = "accum"
  MaxOps = 3
INVARIANT TypeOK
INVARIANT OwnSolution
INVARIANT StaleAddrSeen
CHECK_DEADLOCK FALSE
