SPECIFICATION MSpec
CONSTANTS
  NSlot = 3
  PropOnly = FALSE
  MCFns = {"MatrixDotProduct", "MatrixDVectorDotProduct", "MatrixTranspose", "RowColOuterProduct", "DVectorTrasposedDVectorDotProduct", "MatrixCovariance", "MatrixColAverage"}
  MCShapes = {1, 2}
  MCMax = 3
INVARIANT TypeOK
INVARIANT ZeroContract
INVARIANT NoHiddenState
INVARIANT Idempotent
INVARIANT AccumulateTwice
CHECK_DEADLOCK FALSE
