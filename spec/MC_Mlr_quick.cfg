SPECIFICATION Spec
CONSTANTS
  Mode = "all"
  NN = 3
  PP = 1
  Samples = 0
INVARIANT Theorems
CONSTRAINT Emit
CHECK_DEADLOCK FALSE
