SPECIFICATION Spec
CONSTANTS
  Mode = "all"
  NN = 3
  PP = 1
  Samples = 1
  Slice = 0
  Chains = 1
INVARIANT Theorems
CONSTRAINT Emit
CHECK_DEADLOCK FALSE
