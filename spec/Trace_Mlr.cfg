SPECIFICATION TSpec
CONSTANTS
  Mode = "trace"
  NN = 3
  PP = 1
  Samples = 1
  Slice = 0
  Chains = 1
  PropOnly = FALSE
CONSTRAINT Diag
POSTCONDITION TraceAccepted
CHECK_DEADLOCK FALSE
