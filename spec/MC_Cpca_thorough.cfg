SPECIFICATION CSpec
CONSTANTS
  NBlocks = 3
  Quanta = 4
  MaxPc = 3
  CFault = "none"
INVARIANT CLedgerAccepts
INVARIANT BlockWithin
INVARIANT TotalWithin
INVARIANT TotalIsWeightedBlocks
CHECK_DEADLOCK FALSE
