SPECIFICATION TSpec
CONSTANTS
  Paths = {"p1", "p2"}
  MaxHist = 0
  DropTables = TRUE
  SaveAll = TRUE
  PropOff = FALSE
  ImplOff = TRUE
  Tol = 1000
  TolPred = 1000000
CONSTRAINT Diag
POSTCONDITION TraceAccepted
CHECK_DEADLOCK FALSE
