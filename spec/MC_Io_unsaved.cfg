SPECIFICATION Spec
CONSTANTS
  Paths = {"p1", "p2"}
  MaxHist = 4
  DropTables = TRUE
  SaveAll = FALSE
INVARIANT ReadsLast
VIEW MCView
CHECK_DEADLOCK FALSE
