SPECIFICATION Spec
CONSTANTS
  Rule = "textbook"
  StopRule = "values"
  K = 10
  MaxIter = 5
  Box <- BoxConst
  DoEmit = FALSE
INVARIANT NoFalseStop
CHECK_DEADLOCK FALSE
