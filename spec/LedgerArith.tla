---- MODULE LedgerArith ----
(* Integer arithmetic shared by the ledger specifications (C01, C02, C09).                                  *)
(* TLC integers are 32-bit and TLC aborts on overflow, so every product that could leave +-2^31 goes through *)
(* MulDiv (exact floor(a*b/c) by doubling on the remainder) and every sum that could through SatAdd.        *)
(* Units: "9" suffix = 1e-9 (fractions of ss0, relative errors, bounds), "12" = 1e-12 (algebraic residuals),  *)
(*        "6" = 1e-6, "3" = 1e-3.                                                                          *)
EXTENDS Integers, Sequences

One == 1000000000          \* 1.0 in 1e-9 units; also ss0
TolAlg == 10000            \* 1e-8 in 1e-12 units: orthonormality, projection, reconstruction, residual orthogonality, back-transform
Cap == 1000000000          \* a bound of 1.0 (100 %) constrains nothing: recurrences saturate here

Abs(x) == IF x < 0 THEN -x ELSE x
Min2(a, b) == IF a < b THEN a ELSE b
Max2(a, b) == IF a < b THEN b ELSE a
SatAdd(x, y) == IF x >= Cap - y THEN Cap ELSE x + y          \* for 0 <= x, y <= Cap

(* ceiling integer square root by bisection, argument in 0..2147395600 *)
RECURSIVE SqrtBis(_, _, _)
SqrtBis(x, lo, hi) == IF lo >= hi THEN lo
                      ELSE LET mid == (lo + hi) \div 2
                           IN IF mid * mid >= x THEN SqrtBis(x, lo, mid) ELSE SqrtBis(x, mid + 1, hi)
CeilSqrt(x) == SqrtBis(x, 0, 46340)

(* <<q, r>> with q*c + r = a*b for 0 <= a < c <= 10^9, b >= 0 (q < b+1 always fits) *)
RECURSIVE MDr(_, _, _)
MDr(a, b, c) ==
  IF b = 0 THEN <<0, 0>>
  ELSE LET h  == MDr(a, b \div 2, c)
           d  == 2 * h[2]
           q2 == IF d >= c THEN 2 * h[1] + 1 ELSE 2 * h[1]
           r2 == IF d >= c THEN d - c ELSE d
       IN IF b % 2 = 0 THEN <<q2, r2>>
          ELSE IF r2 + a >= c THEN <<q2 + 1, r2 + a - c>> ELSE <<q2, r2 + a>>
(* floor(a*b/c); the caller guarantees (a \div c) * b and the result fit *)
MulDiv(a, b, c) == (a \div c) * b + MDr(a % c, b, c)[1]

(* ---- tolerances that inherit a stopping rule  |dt|^2 / (n |t|^2) < crit ------------------------------- *)
(* eps = sqrt(n * crit) is what the rule bounds (|dt|/|t|).  PCA: crit = 1e-10, CPCA: crit = 1e-18.          *)
EpsPca9(n)  == 10 * CeilSqrt(n * 1000000)        \* sqrt(n*1e-10) in 1e-9 units  (n <= 2000)
EpsCpca9(n) == CeilSqrt(n)                       \* sqrt(n*1e-18) in 1e-9 units
RelEig9(n)  == 4 * EpsPca9(n)                    \* C01 TolEig, relative part: 4*sqrt(n*1e-10)
(* TolEig in 1e-9 units of ss0 for an eigenvalue ev (same units): relative part + 1e-9*ss0 absolute (1 unit) + 2 units for the   *)
(* rounding of the logged integers                                                                               *)
TolEigRel(rel9, ev) == MulDiv(Abs(ev), rel9, One) + 3
TolEig(n, ev) == TolEigRel(RelEig9(n), ev)

(* ---- C02 criterion-implied bounds on the loading and score error of component k ------------------------ *)
(* s = spectrum (squared singular values, any common positive scale, each <= 10^9, descending), eps as above.    *)
(* Power iteration on E'E stopped by the rule |dt|/|t| < eps: with rho_k = s[k+1]/s[k] (the contraction) the     *)
(* loading is off by at most eps sqrt(rho)/(1-rho) and the score by eps rho/(1-rho) (a theorem for k = 1).       *)
(* A loading error d_j of an earlier component j tilts the deflated matrix: it re-appears in the loading of       *)
(* component k unamplified and in its score multiplied by sigma_j/sigma_k.  With the calibrated constant K        *)
(* (DESIGN C02) and a floor of 0.05 on the iteration factor:                                                     *)
(*   bp_k = K eps max(sqrt(rho_k)/(1-rho_k), 0.05) + (SUM_{j<k} bp_j) / (1-rho_k)                  loadings       *)
(*   bt_k = K eps max(rho_k/(1-rho_k), 0.05)       + (SUM_{j<k} bp_j sigma_j/sigma_k) / (1-rho_k)  scores         *)
(* (DESIGN C02 states one recurrence with the score factor for both; over 4,000 conforming fits that form left    *)
(* only 6.8x slack for loadings and 8.6x for second scores at small rho, exactly where sqrt(rho) >> rho; the     *)
(* two-sequence form leaves 30x uniformly with the same K = 30, so K was not touched.)                            *)
(* All in 1e-9 units, saturating at Cap.                                                                          *)
RhoMax9 == 722500000                                \* 0.85^2: the property's quantifier on singular-value ratios
Rho9(s, k) == IF k < Len(s) THEN (IF s[k+1] >= s[k] THEN One ELSE MulDiv(s[k+1], One, s[k])) ELSE 0
SqrtRho6(rho9) == MulDiv(CeilSqrt(rho9), 1000000, 31622)                         \* sqrt(rho) in 1e-6 units (rounded up)
Gt6(rho9) == Max2(50000, MulDiv(rho9, 1000000, One - rho9))                      \* max(rho/(1-rho), 0.05) in 1e-6 units, rho <= RhoMax
Gp6(rho9) == Max2(50000, MulDiv(SqrtRho6(rho9), One, One - rho9))                \* max(sqrt(rho)/(1-rho), 0.05) in 1e-6 units
SR3(s, j, k) == IF s[j] \div s[k] >= 2000 THEN 45000 ELSE CeilSqrt(MulDiv(s[j], 1000000, s[k]))   \* sigma_j/sigma_k in 1e-3 units (j < k)
SatMul3(b, sr3) == IF b >= Cap \div ((sr3 \div 1000) + 1) THEN Cap ELSE MulDiv(b, sr3, 1000)
RECURSIVE LeakP(_, _)
LeakP(bp, j) == IF j = 0 THEN 0 ELSE SatAdd(LeakP(bp, j - 1), bp[j])
RECURSIVE LeakT(_, _, _, _)
LeakT(s, bp, k, j) == IF j = 0 THEN 0 ELSE SatAdd(LeakT(s, bp, k, j - 1), SatMul3(bp[j], SR3(s, j, k)))
Amp(leak, rho) == IF leak >= 250000000 THEN Cap ELSE MulDiv(leak, One, One - rho)
StepP(s, keps9, bp, k) == LET rho == Rho9(s, k) IN SatAdd(Min2(MulDiv(keps9, Gp6(rho), 1000000), Cap), Amp(LeakP(bp, k - 1), rho))
StepT(s, keps9, bp, k) == LET rho == Rho9(s, k) IN SatAdd(Min2(MulDiv(keps9, Gt6(rho), 1000000), Cap), Amp(LeakT(s, bp, k, k - 1), rho))
(* bounds for components 1..m (every rho_k, k <= m, must be <= RhoMax9): record of two sequences *)
RECURSIVE BoundsPT(_, _, _)
BoundsPT(s, keps9, m) == IF m = 0 THEN [p |-> <<>>, t |-> <<>>]
                         ELSE LET b == BoundsPT(s, keps9, m - 1)
                              IN [p |-> Append(b.p, StepP(s, keps9, b.p, m)), t |-> Append(b.t, StepT(s, keps9, b.p, m))]
(* never below floor9 (CPCA: comparisons against an independent oracle are not meaningful below 1e-7) *)
Floored(b, floor9) == [i \in 1..Len(b) |-> Max2(b[i], floor9)]
(* number of leading components the property speaks about: up to the first rho_k > 0.7225, spectrum entry still *)
(* resolved by the 1e-9 quantisation (>= MinS), at most MaxCmp                                                 *)
RECURSIVE NCmp(_, _, _, _)
NCmp(s, k, minS, maxCmp) == IF k > Len(s) \/ k > maxCmp THEN k - 1
                            ELSE IF s[k] < minS \/ Rho9(s, k) > RhoMax9 THEN k - 1
                            ELSE NCmp(s, k + 1, minS, maxCmp)
====
