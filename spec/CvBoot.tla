---- MODULE CvBoot ----
(* C05.  The accumulators of BootstrapRandomGroupsCV (modelvalidation.c:604-700) over TWO CALLS in one process.                 *)
(*  One call: for(it_ = 0; it_ < iters; it_ += nth){ create nth workers (work item it_ + th) ; join all ; merge th = 0..nth-1 :    *)
(*  sum_ypredictions += worker's predicted_y, predictcounter += worker's predictioncounter } ; predicted_y = sum / counter.        *)
(*  Every worker pass predicts every object exactly once (CvPartition!EveryObjectOnce), so its contribution to object i is one      *)
(*  prediction P(call, item, i) - an integer token here - and one visit.  Workers of a batch finish in any order.                  *)
(*  The reported value is kept as the exact pair <<numerator, denominator>>.                                                      *)
(*  Clear  = "fresh": sum / counter start from zero in every call (NewMatrix / NewUIVector) ; "stale": they survive the call       *)
(*           (accumulators made static / cached by shape / not re-zeroed) - refuted by SecondCallIndependent.                      *)
(*  Divide = "counter": division by the per-object visit counter ; "requested": by the requested iteration count - refuted by      *)
(*           AverageIsMean whenever nth does not divide iters (extra iterations run).                                              *)
EXTENDS Integers, Sequences, FiniteSets, TLC
CONSTANTS N, MaxIt, MaxTh, Clear, Divide
VARIABLES call, iters, nth, base, running, done, joined, sum, cnt, merged, out, phase
vars == <<call, iters, nth, base, running, done, joined, sum, cnt, merged, out, phase>>
Obj == 0..(N - 1)
P(c, item, i) == 1 + ((5 * c + 3 * item + 7 * i) % 13)
Zero == [i \in Obj |-> 0]
CeilDiv(a, b) == (a + b - 1) \div b
RECURSIVE SumSet(_, _, _)
SumSet(S, c, i) == IF S = {} THEN 0 ELSE LET s == CHOOSE x \in S : TRUE IN P(c, s, i) + SumSet(S \ {s}, c, i)
RECURSIVE Asc(_)
Asc(S) == IF S = {} THEN <<>> ELSE LET m == CHOOSE x \in S : \A y \in S : x <= y IN <<m>> \o Asc(S \ {m})
Init == /\ call = 1 /\ iters \in [1..2 -> 1..MaxIt] /\ nth \in [1..2 -> 1..MaxTh]
        /\ base = 0 /\ running = {} /\ done = {} /\ joined = {} /\ sum = Zero /\ cnt = Zero /\ merged = <<>>
        /\ out = [i \in Obj |-> <<0, 0>>] /\ phase = "create"
Create == /\ phase = "create" /\ base < iters[call]
          /\ running' = {base + th : th \in 0..(nth[call] - 1)} /\ done' = {} /\ joined' = {} /\ phase' = "run"
          /\ UNCHANGED <<call, iters, nth, base, sum, cnt, merged, out>>
Finish(s) == /\ phase = "run" /\ s \in running \ done /\ done' = done \cup {s}
             /\ UNCHANGED <<call, iters, nth, base, running, joined, sum, cnt, merged, out, phase>>
Join == /\ phase = "run" /\ joined # running
        /\ LET nxt == CHOOSE s \in running \ joined : \A q \in running \ joined : s <= q
           IN nxt \in done /\ joined' = joined \cup {nxt}
        /\ phase' = IF joined' = running THEN "merge" ELSE "run"
        /\ UNCHANGED <<call, iters, nth, base, running, done, sum, cnt, merged, out>>
Merge == /\ phase = "merge"
         /\ sum' = [i \in Obj |-> sum[i] + SumSet(running, call, i)]
         /\ cnt' = [i \in Obj |-> cnt[i] + Cardinality(running)]
         /\ merged' = merged \o Asc(running)
         /\ base' = base + nth[call] /\ phase' = "create" /\ running' = {} /\ done' = {} /\ joined' = {}
         /\ UNCHANGED <<call, iters, nth, out>>
Finalize == /\ phase = "create" /\ base >= iters[call]
            /\ out' = [i \in Obj |-> <<sum[i], IF Divide = "counter" THEN cnt[i] ELSE iters[call]>>]     \* resize + assign every cell
            /\ phase' = "done"
            /\ UNCHANGED <<call, iters, nth, base, running, done, joined, sum, cnt, merged>>
NextCall == /\ phase = "done" /\ call = 1
            /\ call' = 2 /\ base' = 0 /\ merged' = <<>> /\ phase' = "create"
            /\ sum' = IF Clear = "fresh" THEN Zero ELSE sum
            /\ cnt' = IF Clear = "fresh" THEN Zero ELSE cnt
            /\ UNCHANGED <<iters, nth, running, done, joined, out>>     \* the caller's output still holds the FIRST call's values
Stop == phase = "done" /\ call = 2 /\ UNCHANGED vars
Next == Create \/ (\E s \in running : Finish(s)) \/ Join \/ Merge \/ Finalize \/ NextCall \/ Stop
Spec == Init /\ [][Next]_vars
FairSpec == Spec /\ WF_vars(Next)

RECURSIVE SumSeq(_, _, _)
SumSeq(s, c, i) == IF s = <<>> THEN 0 ELSE P(c, s[1], i) + SumSeq(Tail(s), c, i)
Passes(c) == CeilDiv(iters[c], nth[c]) * nth[c]
Expected(c, i) == <<SumSet(0..(Passes(c) - 1), c, i), Passes(c)>>
NoMergeBeforeJoin == phase = "merge" => joined = running /\ done = running
CounterIsPasses == phase = "done" => \A i \in Obj : cnt[i] = Len(merged)
AverageIsMean == phase = "done" => \A i \in Obj : out[i] = <<SumSeq(merged, call, i), Len(merged)>>
FirstCallExpected == (call = 1 /\ phase = "done") => \A i \in Obj : out[i] = Expected(1, i)
SecondCallIndependent == (call = 2 /\ phase = "done") => \A i \in Obj : out[i] = Expected(2, i)
SequentialWhenDividing == (phase = "done" /\ iters[call] % nth[call] = 0) =>
                             /\ merged = [q \in 1..iters[call] |-> q - 1]
                             /\ \A i \in Obj : out[i] = <<SumSet(0..(iters[call] - 1), call, i), iters[call]>>
ExtraPassesOtherwise == (phase = "done" /\ iters[call] % nth[call] # 0) => Len(merged) > iters[call]
Terminates == <>(call = 2 /\ phase = "done")
====
