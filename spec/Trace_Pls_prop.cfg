SPECIFICATION TSpec
CONSTANTS
  MaxNy = 4
  MaxNlv = 12
  ResidualIndex = "mod_ny"
  PropOnly = TRUE
CONSTRAINT Diag
POSTCONDITION TraceAccepted
CHECK_DEADLOCK FALSE
