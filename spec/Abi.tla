---- MODULE Abi ----
(***********************************************************************************************************)
(* C20 - the Python bindings describe exactly the C structures and functions they call.                    *)
(*                                                                                                         *)
(* The facts come from the generated module AbiData (written on every run from the CURRENT tree):          *)
(*   CStructs  - every struct/union defined in src/*.h (clang JSON AST), each field with its canonical     *)
(*               kind and the offset/size the C compiler itself assigns (offsetof/sizeof program, run);    *)
(*   PyStructs - every ctypes.Structure the package defines, fields in _fields_ order with the kind of the *)
(*               declared ctypes type and the offset/size ctypes computes;                                 *)
(*   Funcs     - every lsci.<name> the package references: whether argtypes/restype were assigned, their   *)
(*               kinds, whether <name> is exported by the fresh libsci.so (nm -D), and the C prototype.    *)
(* This module states what "describes exactly" means and TLC evaluates it for every declaration.           *)
(*                                                                                                         *)
(* A kind is the flat record  [k, d, w, sg, n, a]:                                                         *)
(*   k base kind "int" | "float" | "void" | "struct" | "fnptr";  d pointer depth;  w width in bits;        *)
(*   sg signedness class "s" | "u" | "c" (plain char) | "e" (enum: compiler-chosen) | "-";                 *)
(*   n struct name;  a array length of an array member (0 = not an array).                                 *)
(***********************************************************************************************************)
EXTENDS Naturals, Sequences, FiniteSets, TLC, Json, AbiData

VARIABLE decl

---------------------------------------------------------------------------------------------------------
(* Type kinds *)
Kind(k, d, w, sg, n, a) == [k |-> k, d |-> d, w |-> w, sg |-> sg, n |-> n, a |-> a]
Void          == Kind("void", 0, 0, "-", "", 0)
Int(w, sg)    == Kind("int", 0, w, sg, "", 0)
Float(w)      == Kind("float", 0, w, "-", "", 0)
Struct(n)     == Kind("struct", 0, 0, "-", n, 0)
FnPtr         == Kind("fnptr", 0, 0, "-", "", 0)
Ptr(depth, b) == [b EXCEPT !.d = depth]
Arr(n, b)     == [b EXCEPT !.a = n]

Range(s) == {s[i] : i \in DOMAIN s}
Max(S)   == CHOOSE x \in S : \A y \in S : y <= x
RoundUp(x, al) == ((x + al - 1) \div al) * al
Pick(S, i) == CHOOSE j \in S : Cardinality({x \in S : x < j}) = i - 1      \* i-th smallest element of a set of numbers

CNames  == {CStructs[i].name : i \in DOMAIN CStructs}
PyNames == {PyStructs[i].name : i \in DOMAIN PyStructs}
CS(n) == CStructs[CHOOSE i \in DOMAIN CStructs : CStructs[i].name = n]
PS(n) == PyStructs[CHOOSE i \in DOMAIN PyStructs : PyStructs[i].name = n]

---------------------------------------------------------------------------------------------------------
(* LP64 System V: size and alignment of a kind, layout of a field sequence.  A struct by value takes the   *)
(* size/alignment the same rule gives to its own fields (recursively).                                     *)
RECURSIVE Size(_), Align(_), LayoutAcc(_, _, _, _, _), StructSize(_, _), StructAlign(_)
ScalarSize(kd) ==
    IF kd.d > 0 THEN 8
    ELSE CASE kd.k = "int"    -> kd.w \div 8
           [] kd.k = "float"  -> kd.w \div 8
           [] kd.k = "fnptr"  -> 8
           [] kd.k = "void"   -> 1
           [] kd.k = "struct" -> IF kd.n \in CNames THEN StructSize([i \in DOMAIN CS(kd.n).fields |-> CS(kd.n).fields[i].kind], CS(kd.n).union) ELSE 0
Align(kd) ==
    IF kd.d > 0 THEN 8
    ELSE CASE kd.k = "int"    -> kd.w \div 8
           [] kd.k = "float"  -> kd.w \div 8
           [] kd.k = "fnptr"  -> 8
           [] kd.k = "void"   -> 1
           [] kd.k = "struct" -> IF kd.n \in CNames THEN StructAlign([i \in DOMAIN CS(kd.n).fields |-> CS(kd.n).fields[i].kind]) ELSE 1
Size(kd) == IF kd.a > 0 THEN kd.a * ScalarSize(kd) ELSE ScalarSize(kd)

(* Layout(kinds, isUnion) = sequence of (offset, size, kind): every member at the lowest offset, not below *)
(* the end of its predecessor, that is a multiple of its alignment; union members all at offset 0.         *)
LayoutAcc(ks, isUnion, i, end, acc) ==
    IF i > Len(ks) THEN acc
    ELSE LET off == RoundUp(end, Align(ks[i]))
             sz  == Size(ks[i])
         IN  LayoutAcc(ks, isUnion, i + 1, IF isUnion THEN 0 ELSE off + sz, Append(acc, [off |-> off, size |-> sz, kind |-> ks[i]]))
Layout(ks, isUnion) == LayoutAcc(ks, isUnion, 1, 0, << >>)
StructAlign(ks) == IF Len(ks) = 0 THEN 1 ELSE Max({Align(ks[i]) : i \in DOMAIN ks})
StructSize(ks, isUnion) ==
    IF Len(ks) = 0 THEN 0
    ELSE LET L == Layout(ks, isUnion)
             end == IF isUnion THEN Max({L[i].size : i \in DOMAIN L}) ELSE L[Len(L)].off + L[Len(L)].size
         IN  RoundUp(end, StructAlign(ks))

KindsOf(s) == [i \in DOMAIN s.fields |-> s.fields[i].kind]

(* (M) sanity: the rule above reproduces what the compiler did for a C struct of the library *)
LayoutIssues(c) ==
    LET L == Layout(KindsOf(c), c.union)
        bad == {i \in DOMAIN c.fields : L[i].off # c.fields[i].off \/ L[i].size # c.fields[i].size}
    IN  [x \in 1..Cardinality(bad) |-> [what |-> "layout-rule", sub |-> "field", i |-> Pick(bad, x)]]
        \o (IF StructSize(KindsOf(c), c.union) # c.size THEN << [what |-> "layout-rule", sub |-> "sizeof", i |-> 0] >> ELSE << >>)
        \o (IF StructAlign(KindsOf(c)) # c.align THEN << [what |-> "layout-rule", sub |-> "alignof", i |-> 0] >> ELSE << >>)

---------------------------------------------------------------------------------------------------------
(* Struct correspondence is established, not assumed.                                                      *)
(* Stage 1: a Python structure pairs with the C struct of the same name, else with the only C struct of   *)
(*          the same case-insensitive name.                                                                *)
(* Stage 2: otherwise with the UNIQUE not-yet-paired C struct of identical field signature (same number of *)
(*          fields, same kinds - pointee structs seen through stage 1 - and same offsets).                 *)
ByName(p) == {c \in CNames : CS(c).lname = PS(p).lname}
Pair1(p)  == IF p \notin PyNames THEN "?"
             ELSE IF p \in CNames THEN p                                   \* identical name wins (C has both `node` and `NODE`)
             ELSE IF Cardinality(ByName(p)) = 1 THEN CHOOSE c \in ByName(p) : TRUE
             ELSE "?"
Via1(kd)  == IF kd.k = "struct" THEN [kd EXCEPT !.n = Pair1(kd.n)] ELSE kd
Taken1    == {Pair1(p) : p \in PyNames}
SameSignature(c, p) ==
    /\ Len(CS(c).fields) = Len(PS(p).fields)
    /\ CS(c).union = PS(p).union
    /\ \A i \in DOMAIN CS(c).fields : /\ Via1(PS(p).fields[i].kind) = CS(c).fields[i].kind
                                      /\ PS(p).fields[i].off = CS(c).fields[i].off
BySignature(p) == {c \in CNames \ Taken1 : SameSignature(c, p)}
(* Stage 3 (only so that a permuted struct is reported as a field mismatch of the right pair rather than as  *)
(*          "corresponds to nothing"): the unique not-yet-paired C struct with the same multiset of kinds.   *)
SameKindsUnordered(c, p) ==
    LET ck == [i \in DOMAIN CS(c).fields |-> CS(c).fields[i].kind]
        pk == [i \in DOMAIN PS(p).fields |-> Via1(PS(p).fields[i].kind)]
    IN  /\ Len(ck) = Len(pk)
        /\ \A k \in Range(ck) \cup Range(pk) : Cardinality({i \in DOMAIN ck : ck[i] = k}) = Cardinality({i \in DOMAIN pk : pk[i] = k})
ByKinds(p) == {c \in CNames \ Taken1 : SameKindsUnordered(c, p)}
Pair(p) == IF p \notin PyNames THEN "?"
           ELSE IF Pair1(p) # "?" THEN Pair1(p)
           ELSE IF Cardinality(BySignature(p)) = 1 THEN CHOOSE c \in BySignature(p) : TRUE
           ELSE IF BySignature(p) = {} /\ Cardinality(ByKinds(p)) = 1 THEN CHOOSE c \in ByKinds(p) : TRUE
           ELSE "?"
PairedHow(p) == IF Pair1(p) # "?" THEN "name"
                ELSE IF Cardinality(BySignature(p)) = 1 THEN "signature"
                ELSE IF Pair(p) # "?" THEN "kinds-unordered" ELSE "none"

(* a Python-side kind expressed in C names *)
ToC(kd) == IF kd.k = "struct" THEN [kd EXCEPT !.n = Pair(kd.n)] ELSE kd

(* same kind: pointer depth, base kind, width, signedness class (an enum is whatever integer the compiler  *)
(* chose for it, so it agrees with either class of its width), pointee/value struct through the pairing,   *)
(* array length                                                                                            *)
SameKind(c, py) ==
    LET q == ToC(py)
    IN  /\ c.k = q.k /\ c.d = q.d /\ c.w = q.w /\ c.a = q.a
        /\ (c.sg = q.sg \/ (c.k = "int" /\ "e" \in {c.sg, q.sg}))
        /\ (c.k = "struct" => (c.n = q.n /\ q.n # "?"))

(* Field names: equal up to case.  A name that differs is a mismatch when it shows that members were      *)
(* permuted (the Python name is the name of ANOTHER member of the C struct, or vice versa); a member that  *)
(* is merely called differently on the two sides (DVECTLIST.dvector / dvectorlist.d) describes the same    *)
(* storage and is not an ABI difference.                                                                   *)
NameOk(c, p, i) ==
    \/ c.fields[i].lname = p.fields[i].lname
    \/ /\ \A j \in DOMAIN c.fields : c.fields[j].lname # p.fields[i].lname
       /\ \A j \in DOMAIN p.fields : p.fields[j].lname # c.fields[i].lname

FieldIssue(c, p, i) ==
    IF ~NameOk(c, p, i) THEN "name"
    ELSE IF ~SameKind(c.fields[i].kind, p.fields[i].kind) THEN "kind"
    ELSE IF c.fields[i].off # p.fields[i].off THEN "offset"
    ELSE IF c.fields[i].size # p.fields[i].size THEN "size"
    ELSE "ok"

SameStructIssues(p) ==
    IF Pair(p.name) = "?" THEN << [what |-> "unpaired", sub |-> "", i |-> 0] >>
    ELSE LET c == CS(Pair(p.name)) IN
         IF Len(c.fields) # Len(p.fields) \/ c.union # p.union THEN << [what |-> "field", sub |-> "count", i |-> Len(c.fields)] >>
         ELSE LET bad == {i \in DOMAIN c.fields : FieldIssue(c, p, i) # "ok"}
              IN  [x \in 1..Cardinality(bad) |-> [what |-> "field", sub |-> FieldIssue(c, p, Pick(bad, x)), i |-> Pick(bad, x)]]
                  \o (IF bad = {} /\ c.size # p.size THEN << [what |-> "field", sub |-> "sizeof", i |-> 0] >> ELSE << >>)
SameStruct(p) == SameStructIssues(p) = << >>

---------------------------------------------------------------------------------------------------------
(* Foreign functions.  "declared": argtypes and restype were assigned (argtypes may stay unset only for a  *)
(* function without parameters) and the name is exported by the built library.  An unset restype behaves   *)
(* as ctypes' default c_int and is compared as such (the data module already carries that kind in .ret).   *)
DeclaredIssues(f) ==
    (IF ~f.exported THEN << [what |-> "missing-symbol", sub |-> "", i |-> 0] >> ELSE << >>)
    \o (IF ~f.hasproto /\ f.exported THEN << [what |-> "no-prototype", sub |-> "", i |-> 0] >> ELSE << >>)
    \o (IF (~f.argset /\ ~f.retset) \/ (~f.argset /\ f.hasproto /\ Len(f.cargs) > 0)
        THEN << [what |-> "undeclared", sub |-> IF f.argset THEN "restype" ELSE "argtypes", i |-> 0] >> ELSE << >>)

CompatibleIssues(f) ==
    IF ~f.hasproto \/ ~f.argset THEN
        (IF f.hasproto /\ (f.retset \/ (Len(f.cargs) = 0)) /\ ~SameKind(f.cret, f.ret) THEN << [what |-> "ret", sub |-> "", i |-> 0] >> ELSE << >>)
    ELSE IF Len(f.cargs) # Len(f.args) THEN
        << [what |-> "arity", sub |-> "", i |-> Len(f.cargs)] >>
        \o (IF ~SameKind(f.cret, f.ret) THEN << [what |-> "ret", sub |-> "", i |-> 0] >> ELSE << >>)
    ELSE LET bad == {i \in DOMAIN f.cargs : ~SameKind(f.cargs[i], f.args[i])}
         IN  [x \in 1..Cardinality(bad) |-> [what |-> "param", sub |-> "", i |-> Pick(bad, x)]]
             \o (IF ~SameKind(f.cret, f.ret) THEN << [what |-> "ret", sub |-> "", i |-> 0] >> ELSE << >>)
Declared(f)   == DeclaredIssues(f) = << >>
Compatible(f) == CompatibleIssues(f) = << >>

---------------------------------------------------------------------------------------------------------
(* One state per declaration; the verdict of each is also printed (so that one run lists every mismatch). *)
AllDecls == {[t |-> "layout", i |-> i] : i \in DOMAIN CStructs}
            \cup {[t |-> "struct", i |-> i] : i \in DOMAIN PyStructs}
            \cup {[t |-> "func", i |-> i] : i \in DOMAIN Funcs}
Decls == IF OnlyDecls = {} THEN AllDecls ELSE OnlyDecls        \* OnlyDecls # {} : replay of one declaration
Start == [t |-> "start", i |-> 0]
Init == decl = Start
Next == decl = Start /\ decl' \in Decls
Spec == Init /\ [][Next]_decl

Issues(d) == CASE d.t = "layout" -> LayoutIssues(CStructs[d.i])
               [] d.t = "struct" -> SameStructIssues(PyStructs[d.i])
               [] d.t = "func"   -> DeclaredIssues(Funcs[d.i]) \o CompatibleIssues(Funcs[d.i])
               [] OTHER          -> << >>
NameOfDecl(d) == CASE d.t = "layout" -> CStructs[d.i].name [] d.t = "struct" -> PyStructs[d.i].name [] d.t = "func" -> Funcs[d.i].name [] OTHER -> ""
Verdict(d) == [t |-> d.t, name |-> NameOfDecl(d), issues |-> Issues(d),
               pair |-> IF d.t = "struct" THEN Pair(PyStructs[d.i].name) ELSE "",
               how  |-> IF d.t = "struct" THEN PairedHow(PyStructs[d.i].name) ELSE ""]
Emit == decl = Start \/ PrintT("@@" \o ToJson(Verdict(decl)))

(* the invariants *)
LayoutRule      == decl.t = "layout" => LayoutIssues(CStructs[decl.i]) = << >>
StructsAgree    == decl.t = "struct" => SameStruct(PyStructs[decl.i])
FuncsDeclared   == decl.t = "func"   => Declared(Funcs[decl.i])
FuncsCompatible == decl.t = "func"   => Compatible(Funcs[decl.i])
====
