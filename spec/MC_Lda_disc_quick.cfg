\* round 3 theorems about the exact discriminant (quick scope): differences of ONE score per class, some row is never beaten,
\* mirror data tie exactly, renumbering moves labels not rows, confusion counts partition the objects
SPECIFICATION Spec
CONSTANTS
  MaxN = 5
  MaxK = 3
  NPat = 2
  LabelMap = "plus_start"
INVARIANT InQuantifier
INVARIANT DiscTheorems
INVARIANT StartSgn
INVARIANT ConfusionModel
