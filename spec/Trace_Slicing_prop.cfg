SPECIFICATION TSpec
CONSTANTS
  MaxRows = 0
  MaxThreads = 1
  MaxCond = 0
  PropOnly = TRUE
CONSTRAINT Diag
POSTCONDITION TraceAccepted
CHECK_DEADLOCK FALSE
