SPECIFICATION Spec
CONSTANTS
  Mode = "sample"
  NN = 3
  PP = 1
  Samples = 1500
  Slice = 0
  Chains = 16
INVARIANT Theorems
CONSTRAINT Emit
CHECK_DEADLOCK FALSE
