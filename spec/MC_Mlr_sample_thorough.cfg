SPECIFICATION Spec
CONSTANTS
  Mode = "sample"
  NN = 3
  PP = 1
  Samples = 1500
  Chains = 16
INVARIANT Theorems
CONSTRAINT Emit
CHECK_DEADLOCK FALSE
