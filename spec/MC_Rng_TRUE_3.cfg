SPECIFICATION Spec
CONSTANTS
  NW = 3
  K = 1
  PerThread = TRUE
  Shape = "seedDraw"
INVARIANT StreamIsolation
INVARIANT NoClock
INVARIANT SeedDrawStream
CHECK_DEADLOCK FALSE
