SPECIFICATION Spec
CONSTANTS
  NW = 3
  K = 1
  PerThread = TRUE
INVARIANT StreamIsolation
CHECK_DEADLOCK FALSE
