SPECIFICATION Spec
CONSTANTS
  NW = 3
  K = 1
  PerThread = TRUE
  Shape = "seedDraw"
INVARIANT StreamIsolation
INVARIANT NoClock
INVARIANT WordPrivate
INVARIANT EqualsSequential
INVARIANT SeedDrawStream
CHECK_DEADLOCK FALSE
