SPECIFICATION Spec
CONSTANTS
  NK = 4
  XMax = 4
  YMax = 0
  Scales = {0, 1, 2, 3, 4, 5, 6, 7, 8}
  LookupTol = "abs1e-2"
  DoEmit = FALSE
INVARIANT Theorems
INVARIANT LookupRight
CHECK_DEADLOCK FALSE
