SPECIFICATION GSpec
CONSTANTS
  Tier = "thorough"
CONSTRAINT Emit
