SPECIFICATION Spec
CONSTANTS
  NW = 2
  K = 2
  PerThread = FALSE
  Shape = "forkjoin"
INVARIANT StreamIsolation
VIEW NoSched
CHECK_DEADLOCK FALSE
