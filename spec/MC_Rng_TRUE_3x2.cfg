SPECIFICATION Spec
CONSTANTS
  NW = 3
  K = 2
  PerThread = TRUE
  Shape = "seedDraw"
INVARIANT StreamIsolation
INVARIANT NoClock
INVARIANT SeedDrawStream
INVARIANT EqualsSequential
INVARIANT WordPrivate
VIEW NoSched
CHECK_DEADLOCK FALSE
