---- MODULE MlrHist ----
(* C07, class K7: HISTORIES of fits made in one process.  The property speaks about every fit on its own data, so a fit must not   *)
(* depend on what the process did before.  This module is a small program-shaped model of a process that calls MLR() several      *)
(* times: an allocator that hands out the most recently freed header first (the design matrix [1 X] is the first allocation of    *)
(* MLR() and its last free), models that a client allocates and keeps between two fits (they take the freed header), and the      *)
(* least-squares kernel  b = (Z'Z)^-1 Z'y  run once per response column - in four variants:                                        *)
(*   "none"   the kernel as the property needs it (nothing survives a call)                                                        *)
(*   "addr"   (Z'Z)^-1 kept between calls, keyed on the ADDRESS of the design matrix and its column count                          *)
(*   "shape"  (Z'Z)^-1 kept between calls, keyed on the shape of the design matrix                                                 *)
(*   "accum"  Z'y accumulated into a buffer that is only cleared when its length changes                                           *)
(* The model executes all four side by side; the invariant OwnSolution says that the variant named by the constant Fault gives     *)
(* every fit the exact least-squares solution of its own data (CoefCD of MlrDefs).  TLC proves it for "none" over every history    *)
(* of at most MaxOps operations over the catalogue, and must REFUTE it for each of the other three (the check insists on that:     *)
(* the histories are able to expose each of these defect classes).  Every maximal history is emitted with the set of variants      *)
(* it exposes and is replayed into the real library in one process (harness/c07_drv.c --histreplay); TraceMlr.tla then recomputes  *)
(* the exact solution of every fit of the recorded history (Tiny events).                                                          *)
EXTENDS MlrDefs, TLC, Json
CONSTANTS Fault,         \* the variant whose correctness the invariant asserts
          MaxOps
Faults == {"none", "addr", "shape", "accum"}

\* catalogue of tiny problems (X n x p, Y = responses): same shape with other data, other column count, two responses, other row count
Cat == << [X |-> <<<<0>>, <<1>>, <<2>>>>,                     Y |-> << <<1, 0, 2>> >>],
          [X |-> <<<<-1>>, <<2>>, <<1>>>>,                    Y |-> << <<2, -1, 0>> >>],
          [X |-> <<<<1, 0>>, <<0, 1>>, <<-1, -1>>, <<2, 1>>>>, Y |-> << <<1, 2, 0, -1>> >>],
          [X |-> <<<<2>>, <<-2>>, <<0>>>>,                    Y |-> << <<1, 1, -2>>, <<0, 2, 1>> >>],
          [X |-> <<<<1>>, <<-1>>, <<2>>, <<0>>>>,             Y |-> << <<0, 1, 2, 2>> >>] >>
Probs == 1..Len(Cat)
Exact(k, j) == Rat(CoefCD(Cat[k].X, Cat[k].Y[j]))

VARIABLES ops,      \* the history so far: sequence of [op |-> "F", k |-> problem] / [op |-> "A"]
          free,     \* freed headers of the size class of a matrix header, most recently freed first
          nxt,      \* next never-used address
          last,     \* address the design matrix of the previous fit had (0: no fit yet)
          st,       \* per variant: what its kernel keeps between calls
          log       \* per fit: problem, whether its design matrix got the address of the previous one, coefficients per variant and response
hvars == <<ops, free, nxt, last, st, log>>

NoSt == [valid |-> FALSE, addr |-> 0, k |-> 0, n |-> 0, inv |-> <<>>, acc |-> <<>>]
\* one call of the kernel of variant f on design D (at address a) and response yv, with kept state s
Kernel(f, s, a, D, yv) ==
   LET G == Gram(D)
       v == Moment(D, yv)
       hit == s.valid /\ s.k = Len(G) /\ ((f = "addr" /\ s.addr = a) \/ (f = "shape" /\ s.n = Len(D)))
       inv == IF hit THEN s.inv ELSE InvInt(G)
       v2 == IF f = "accum" /\ Len(s.acc) = Len(v) THEN [c \in 1..Len(v) |-> s.acc[c] + v[c]] ELSE v
   IN [b |-> MatVecR(inv, v2),
       s |-> [valid |-> TRUE, addr |-> IF hit THEN s.addr ELSE a, k |-> Len(G), n |-> Len(D), inv |-> inv, acc |-> v2]]
\* MLR(): one kernel call per response column, in order
RECURSIVE RunResp(_, _, _, _, _, _)
RunResp(f, s, a, D, Ys, j) ==
   IF j > Len(Ys) THEN [s |-> s, bs |-> <<>>]
   ELSE LET r == Kernel(f, s, a, D, Ys[j])
            rest == RunResp(f, r.s, a, D, Ys, j + 1)
        IN [s |-> rest.s, bs |-> <<r.b>> \o rest.bs]

Init == ops = <<>> /\ free = <<>> /\ nxt = 1 /\ last = 0 /\ st = [f \in Faults |-> NoSt] /\ log = <<>>
Top == IF free = <<>> THEN nxt ELSE Head(free)
Fit(k) == /\ Len(ops) < MaxOps
          /\ LET a == Top
                 D == Design(Cat[k].X)
                 run == [f \in Faults |-> RunResp(f, st[f], a, D, Cat[k].Y, 1)]
             IN /\ st' = [f \in Faults |-> run[f].s]
                /\ log' = Append(log, [k |-> k, want |-> IF last # 0 /\ a = last THEN 1 ELSE 0, b |-> [f \in Faults |-> run[f].bs]])
                /\ last' = a
                /\ free' = IF free = <<>> THEN <<a>> ELSE free            \* allocated first, freed last: back on top
                /\ nxt' = IF free = <<>> THEN nxt + 1 ELSE nxt
          /\ ops' = Append(ops, [op |-> "F", k |-> k])
\* the client allocates a model and keeps it: it takes the most recently freed header
Hold == /\ Len(ops) < MaxOps
        /\ free' = IF free = <<>> THEN free ELSE Tail(free)
        /\ nxt' = IF free = <<>> THEN nxt + 1 ELSE nxt
        /\ ops' = Append(ops, [op |-> "A", k |-> 0])
        /\ UNCHANGED <<last, st, log>>
Next == (\E k \in Probs : Fit(k)) \/ Hold
Spec == Init /\ [][Next]_hvars

\* every fit of the history is the exact solution of its own data (for the variant under test)
OwnSolution == \A i \in 1..Len(log) : \A j \in 1..Len(Cat[log[i].k].Y) : log[i].b[Fault][j] = Exact(log[i].k, j)
Exposes(f) == \E i \in 1..Len(log) : \E j \in 1..Len(Cat[log[i].k].Y) : log[i].b[f][j] # Exact(log[i].k, j)
TypeOK == /\ Len(ops) <= MaxOps /\ Len(log) <= Len(ops) /\ nxt \in 1..(MaxOps + 1) /\ last \in 0..MaxOps
          /\ \A i \in 1..Len(log) : log[i].want \in {0, 1}
\* the histories in which an address-keyed cache goes stale are exactly those in which a fit follows, at the same address, a fit of another
\* problem with the same column count whose inverse is still the cached one (theorem about the model, checked on every state)
StaleAddrSeen == Exposes("addr") => \E i \in 2..Len(log) : log[i].want = 1

HistRecord == [ops |-> ops,
               fits |-> [i \in 1..Len(log) |-> [k |-> log[i].k, X |-> Cat[log[i].k].X, Y |-> Cat[log[i].k].Y, want |-> log[i].want]],
               exposes |-> [f \in {"addr", "shape", "accum"} |-> IF Exposes(f) THEN 1 ELSE 0]]
Emit == IF Len(ops) = MaxOps /\ Len(log) > 0 THEN PrintT("@@" \o ToJson(HistRecord)) ELSE TRUE
====
