---- MODULE StatsOut ----
(* C15: what the routines that assemble figures of merit do with an OUTPUT container that is not empty on entry    *)
(* (class K7 of INPUT-CLASSES.md).  Read off the unchanged library, routine by routine:                             *)
(*   PLSRegressionStatistics   ResizeMatrix(out, nlv, ny) then out[lv][j] = ...            -> "assign"              *)
(*   MLRRegressionStatistics   DVectorResize(out, ny)   then out[j] = ...                  -> "assign"              *)
(*   ROC, PrecisionRecall      MatrixAppendRow(curve, point) for every point               -> "append"              *)
(*   PLSDiscriminantAnalysisStatistics   AddTensorMatrix / MatrixAppendRow per latent variable -> "append"          *)
(* (the library's own callers hand fresh containers to the "append" routines and NULL or used ones to the "assign"  *)
(* routines: modelvalidation.c, epls.c).  The property's statement - "the tables ARE those functions applied per    *)
(* response and latent variable" - is about the table the caller holds after the call, so for an "assign" routine   *)
(* the previous content must not survive; for an "append" routine nothing is promised about a used output and the   *)
(* observed behaviour is only recorded in the implementation-shaped layer of TraceStats.tla.                        *)
(* An output is abstracted to the sequence of its entries; StatsHist.tla model-checks the histories.                *)
EXTENDS Integers, Sequences
Routines == {"PLSRegressionStatistics", "MLRRegressionStatistics", "PLSDiscriminantAnalysisStatistics", "ROC", "PrecisionRecall"}
ContractOf(r) == IF r \in {"PLSRegressionStatistics", "MLRRegressionStatistics"} THEN "assign" ELSE "append"
After(c, before, new) == IF c = "assign" THEN new ELSE before \o new
\* number of entries the caller finds after a call that produces newcnt entries into an output that held pre entries
CountAfter(r, pre, newcnt) == Len(After(ContractOf(r), [q \in 1..pre |-> 0], [q \in 1..newcnt |-> 1]))
====
