SPECIFICATION Spec
CONSTANTS
  Mode = "all"
  NN = 4
  PP = 1
  Samples = 1
  Chains = 1
INVARIANT Theorems
CONSTRAINT Emit
CHECK_DEADLOCK FALSE
