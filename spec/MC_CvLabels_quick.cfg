SPECIFICATION LSpec
CONSTANTS
  MaxN = 5
  MaxLab = 3
INVARIANT LabelFolds
