SPECIFICATION Spec
CONSTANTS
  MaxN = 7
  MaxK = 3
  NPat = 1
  LabelMap = "plus_pos"
INVARIANT PredictionIsALabel
INVARIANT TableIndexInRange
