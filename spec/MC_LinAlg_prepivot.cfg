SPECIFICATION Spec
CONSTANTS
  Families = {"all2", "bin3"}
  Pivoting = FALSE
  Mod = 1
  Res = 0
INVARIANT SolveDefined
CHECK_DEADLOCK FALSE
