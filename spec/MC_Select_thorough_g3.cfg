\* finer grid {0..3}^2, 3..4 points (5 points on this grid are 10.5 million cases: beyond the thorough budget)
SPECIFICATION Spec
CONSTANTS
  NMin = 3
  NMax = 4
  Dim = 2
  Grid = 3
  EmitMod = 1
INVARIANT ImplIsAdmissible
CHECK_DEADLOCK FALSE
