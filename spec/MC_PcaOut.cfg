SPECIFICATION OSpec
CONSTANTS
  Budget = 10
  MaxRank = 1
  Ns = {2}
  Fault = "none"
  Alphabet = {1}
  MaxLen = 1
  ShapeSet = "none"
  StartRule = "argmax"
  Fault2 = "none"
  ResizeZeroes = TRUE
INVARIANT AnswersRight
INVARIANT OType
CHECK_DEADLOCK FALSE
