---- MODULE TraceSlicing ----
(* Trace specification for C13.  Prop* conjuncts are what the property states; Impl* conjuncts say how the  *)
(* present code does it and are disabled by PropOnly (spec-drift re-validation).                          *)
EXTENDS Slicing, TraceBase
CONSTANT PropOnly
VARIABLE l
tvars == <<rows, th, l>>
Ev == Tr[l]
Pair(sl) == [t \in 1..Len(sl) |-> <<sl[t][1], sl[t][2]>>]

TInit == l = 1 /\ rows = 0 /\ th = 1
Step == l' = l + 1

TReset == /\ l <= Len(Tr) /\ Ev.e = "Reset" /\ Step /\ rows' = Ev.rows /\ th' = Ev.th

\* ranges handed to workers.  Prop: exactly-once cover.  Impl: the code's recurrence and one range per thread.
PropSlices(ev) == ExactlyOnce(Pair(ev.sl), ev.rows)
ImplSlices(ev) == \/ PropOnly
                  \/ /\ Len(ev.sl) = ev.th
                     /\ Pair(ev.sl) = (IF ev.variant = "A" THEN AssignFirst(ev.rows, ev.th) ELSE AdvanceFirst(ev.rows, ev.th))
TSlices == /\ l <= Len(Tr) /\ Ev.e = "Slices" /\ Step /\ UNCHANGED <<rows, th>>
           /\ PropSlices(Ev) /\ ImplSlices(Ev)

\* value agreement measured by the harness (MT vs definition, repeat runs, thread independence)
TValue == /\ l <= Len(Tr) /\ Ev.e = "Value" /\ Step /\ UNCHANGED <<rows, th>>
          /\ Ev.equal = 1

\* exported index map = the documented map, on every ordered pair
TIdx == /\ l <= Len(Tr) /\ Ev.e = "Idx" /\ Step /\ UNCHANGED <<rows, th>>
        /\ \A k \in 1..Len(Ev.tab) : Ev.tab[k][3] = Idx(Ev.tab[k][1], Ev.tab[k][2], Ev.n)
        /\ Len(Ev.tab) = Ev.n * (Ev.n - 1) \/ Ev.n = 0

\* where the condensed routine really put d(i,j): Prop = strict upper triangle held exactly once (a bijection
\* onto 0..size-1); Impl = at the documented index
TCond == /\ l <= Len(Tr) /\ Ev.e = "Cond" /\ Step /\ UNCHANGED <<rows, th>>
         /\ Ev.size = CondSize(Ev.n)
         /\ Len(Ev.pos) = CondSize(Ev.n)
         /\ \A k \in 1..Len(Ev.pos) : Ev.pos[k][3] \in 0..(Ev.size - 1)
         /\ \A a, b \in 1..Len(Ev.pos) : a # b => Ev.pos[a][3] # Ev.pos[b][3]
         /\ (PropOnly \/ \A k \in 1..Len(Ev.pos) : Ev.pos[k][3] = Idx(Ev.pos[k][1], Ev.pos[k][2], Ev.n))

\* integer distance tables recomputed by TLC
TDist == /\ l <= Len(Tr) /\ Ev.e = "Dist" /\ Step /\ UNCHANGED <<rows, th>>
         /\ Ev.exact = 1
         /\ LET P == Ev.pts IN
            /\ \A i, j \in 1..Ev.n : Ev.sq[i][j] = SqEuclid(P, j, i) /\ Ev.man[i][j] = Manhattan(P, j, i)
            /\ MetricAxioms(P)

TNext == TReset \/ TSlices \/ TValue \/ TIdx \/ TCond \/ TDist
TSpec == TInit /\ [][TNext]_tvars
TraceAccepted == Accepted
Diag == ShowCursor(l)
====
