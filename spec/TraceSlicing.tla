---- MODULE TraceSlicing ----
(* Trace specification for C13.  Prop* conjuncts are what the property states; Impl* conjuncts say how the  *)
(* present code does it and are disabled by PropOnly (spec-drift re-validation).                          *)
(* Events (one per action; recorded by harness/c13_drv.c and harness/c13_val.c):                          *)
(*   Reset   new block                                                                                   *)
(*   Slices  ranges handed to the workers of one launch (hook H3)                        clauses c1 c2    *)
(*   Value   flag events of the first driver (kept)                                      clauses c3 c4    *)
(*   Cmp     value ledger: two results of the same call compared cell by cell; the harness measures       *)
(*           (shape, number of cells that are not bit-identical, largest error in units of 2^-53 scale),  *)
(*           the tolerance is Tol(tol, len) of Slicing.tla                                clauses c3 c4 c10 c11 *)
(*   Tab     a distance table of the real library on INTEGER points (square or condensed form, any of     *)
(*           the four kinds, any thread count, into a fresh or an already used output object): TLC        *)
(*           recomputes every cell, the shape, and the axioms on the logged table      clauses c5 c6 c7 c8 *)
(*   Lab     labels of integer points against integer centroids                          clause  c10      *)
(*   Idx, Cond, Dist  as before                                                            clauses c7 c8 c9 *)
EXTENDS Slicing, TraceBase
CONSTANT PropOnly
VARIABLE l
tvars == <<rows, th, l>>
Ev == Tr[l]
Pair(sl) == [t \in 1..Len(sl) |-> <<sl[t][1], sl[t][2]>>]

TInit == l = 1 /\ rows = 0 /\ th = 1
Step == l' = l + 1

TReset == /\ l <= Len(Tr) /\ Ev.e = "Reset" /\ Step /\ rows' = Ev.rows /\ th' = Ev.th

\* ranges handed to workers.  Prop: exactly-once cover.  Impl: the code's recurrence and one range per thread.
PropSlices(ev) == ExactlyOnce(Pair(ev.sl), ev.rows)
ImplSlices(ev) == \/ PropOnly
                  \/ /\ Len(ev.sl) = ev.th
                     /\ Pair(ev.sl) = (IF ev.variant = "A" THEN AssignFirst(ev.rows, ev.th) ELSE AdvanceFirst(ev.rows, ev.th))
TSlices == /\ l <= Len(Tr) /\ Ev.e = "Slices" /\ Step /\ UNCHANGED <<rows, th>>
           /\ PropSlices(Ev) /\ ImplSlices(Ev)

\* value agreement measured by the harness (MT vs definition, repeat runs, thread independence)
TValue == /\ l <= Len(Tr) /\ Ev.e = "Value" /\ Step /\ UNCHANGED <<rows, th>>
          /\ Ev.equal = 1

\* value ledger.  Prop: same shape; repeated runs and exact kinds (integer data, labels, selections) bit-identical;
\* otherwise the largest error stays inside the tolerance the specification computes from the reduction length.
\* Impl: the present workers use the summation order of the sequential routines, so MT and sequential results
\* (and the condensed and the square table) are bit-identical.
ExactWhat == {"repeat"}
PropCmp(ev) == /\ ev.shape = 1
               /\ ev.len >= 0 /\ ev.len <= 100000
               /\ (ev.what \in ExactWhat \/ ev.tol = "exact") => ev.ndiff = 0
               /\ ev.tol # "exact" => (ev.tol \in {"dot", "dist", "cos"} /\ ev.err <= Tol(ev.tol, ev.len))
ImplWhat == {"mt-vs-st", "cond-vs-square", "vs-1thread"}
ImplCmp(ev) == PropOnly \/ (ev.what \in ImplWhat => ev.ndiff = 0)
TCmp == /\ l <= Len(Tr) /\ Ev.e = "Cmp" /\ Step /\ UNCHANGED <<rows, th>>
        /\ PropCmp(Ev) /\ ImplCmp(Ev)

\* exported index map = the documented map, on every ordered pair
TIdx == /\ l <= Len(Tr) /\ Ev.e = "Idx" /\ Step /\ UNCHANGED <<rows, th>>
        /\ \A k \in 1..Len(Ev.tab) : Ev.tab[k][3] = Idx(Ev.tab[k][1], Ev.tab[k][2], Ev.n)
        /\ Len(Ev.tab) = Ev.n * (Ev.n - 1) \/ Ev.n = 0

\* where the condensed routine really put d(i,j): Prop = strict upper triangle held exactly once (a bijection
\* onto 0..size-1); Impl = at the documented index
TCond == /\ l <= Len(Tr) /\ Ev.e = "Cond" /\ Step /\ UNCHANGED <<rows, th>>
         /\ Ev.size = CondSize(Ev.n)
         /\ Len(Ev.pos) = CondSize(Ev.n)
         /\ \A k \in 1..Len(Ev.pos) : Ev.pos[k][3] \in 0..(Ev.size - 1)
         /\ \A a, b \in 1..Len(Ev.pos) : a # b => Ev.pos[a][3] # Ev.pos[b][3]
         /\ (PropOnly \/ \A k \in 1..Len(Ev.pos) : Ev.pos[k][3] = Idx(Ev.pos[k][1], Ev.pos[k][2], Ev.n))

\* integer distance tables recomputed by TLC
TDist == /\ l <= Len(Tr) /\ Ev.e = "Dist" /\ Step /\ UNCHANGED <<rows, th>>
         /\ Ev.exact = 1
         /\ LET P == Ev.pts IN
            /\ \A i, j \in 1..Ev.n : Ev.sq[i][j] = SqEuclid(P, j, i) /\ Ev.man[i][j] = Manhattan(P, j, i)
            /\ MetricAxioms(P)

\* ---- Tab: a table of the real library on integer points, in the state the output object had (history) ----
\* A: n points (rows of m1 / m), B: nb points (rows of m2; = A for the condensed form and for self tables)
\* square:    post = <<nb, n>>,        sq[k][i] = d(A[i], B[k])      (the library stores distances->data[k][i])
\* condensed: post = <<CondSize(n)>>,  cv[Idx(i,j,n)+1] = d(A[i+1], A[j+1]) for i < j : exactly the strict upper triangle
TabShape(ev) == IF ev.form = "square" THEN <<ev.nb, ev.n>> ELSE <<CondSize(ev.n)>>
TabCells(ev) ==
  IF ev.form = "square"
  THEN /\ Len(ev.sq) = ev.nb
       /\ \A k \in 1..ev.nb : /\ Len(ev.sq[k]) = ev.n
                              /\ \A i \in 1..ev.n : CellOK(ev.kind, ev.sq[k][i], ev.A[i], ev.B[k])
  ELSE /\ Len(ev.cv) = CondSize(ev.n)
       /\ \A p \in Pairs(ev.n) : CellOK(ev.kind, ev.cv[Idx(p[1], p[2], ev.n) + 1], ev.A[p[1] + 1], ev.A[p[2] + 1])
\* the table as a function of two 1-based point ids (condensed: the diagonal is not stored)
TabAt(ev, i, j) == IF ev.form = "square" THEN ev.sq[j][i]
                   ELSE IF i = j THEN 0 ELSE ev.cv[Idx(i - 1, j - 1, ev.n) + 1]
TabAxioms(ev) ==
  (ev.self = 1 /\ ev.kind # "cosine") =>
    LET n == ev.n
        slack == IF ev.kind = "euclidean" THEN 2 ELSE 0
    IN /\ (ev.form = "square" => ev.nb = n /\ ev.B = ev.A)
       /\ \A i \in 1..n : TabAt(ev, i, i) = 0
       /\ \A i, j \in 1..n : TabAt(ev, i, j) = TabAt(ev, j, i) /\ TabAt(ev, i, j) >= 0
       /\ \A i, j, k \in 1..n :
            IF ev.kind = "sqeuclidean" THEN TriSq(TabAt(ev, i, j), TabAt(ev, j, k), TabAt(ev, i, k))
            ELSE TabAt(ev, i, k) <= TabAt(ev, i, j) + TabAt(ev, j, k) + slack
\* class tags that say something about the history are certified here, so that the coverage count is not hearsay
PreCells(ev) == IF Len(ev.pre) = 2 THEN ev.pre[1] * ev.pre[2] ELSE ev.pre[1]
PostCells(ev) == IF ev.form = "square" THEN ev.nb * ev.n ELSE CondSize(ev.n)
TabClsOK(ev) == CASE ev.cls = "K7:fresh"          -> PreCells(ev) = 0
                  [] ev.cls = "K7:stale-larger"   -> PreCells(ev) > PostCells(ev) /\ PostCells(ev) > 0
                  [] ev.cls = "K7:stale-to-empty" -> PreCells(ev) > 0 /\ PostCells(ev) = 0
                  [] ev.cls = "K7:stale-smaller"  -> PreCells(ev) < PostCells(ev) /\ PreCells(ev) > 0
                  [] ev.cls = "K7:same-shape"     -> ev.pre = TabShape(ev) /\ PostCells(ev) > 0
                  [] OTHER -> TRUE
TTab == /\ l <= Len(Tr) /\ Ev.e = "Tab" /\ Step /\ UNCHANGED <<rows, th>>
        /\ Ev.kind \in Kinds /\ Ev.form \in {"square", "condensed"}
        /\ Ev.exact = 1 /\ Ev.rep = 0
        /\ Len(Ev.A) = Ev.n /\ (Ev.form = "square" => Len(Ev.B) = Ev.nb)
        /\ Ev.post = TabShape(Ev)
        /\ TabCells(Ev)
        /\ TabAxioms(Ev)
        /\ TabClsOK(Ev)

\* ---- Lab: labels of integer points.  Prop: every label names A nearest centroid, repeated runs identical.   ----
\* Impl: the FIRST nearest centroid (the tie rule of the sequential routine)
TLab == /\ l <= Len(Tr) /\ Ev.e = "Lab" /\ Step /\ UNCHANGED <<rows, th>>
        /\ Ev.rep = 0
        /\ Len(Ev.lab) = Ev.n /\ Len(Ev.P) = Ev.n /\ Len(Ev.C) = Ev.k /\ Ev.k >= 1
        /\ \A i \in 1..Ev.n : (Ev.lab[i] + 1) \in NearestSet(Ev.P[i], Ev.C)
        /\ (PropOnly \/ \A i \in 1..Ev.n : Ev.lab[i] + 1 = FirstNearest(Ev.P[i], Ev.C))

TNext == TReset \/ TSlices \/ TValue \/ TCmp \/ TIdx \/ TCond \/ TDist \/ TTab \/ TLab
TSpec == TInit /\ [][TNext]_tvars
TraceAccepted == Accepted
Diag == ShowCursor(l)
====
