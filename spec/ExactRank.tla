---- MODULE ExactRank ----
(* C18.  Exact rank of small integer matrices by Gauss elimination over the rationals.                    *)
(* A matrix is a sequence of rows, a row a sequence of integers (all rows the same length).  One          *)
(* elimination step is  row_i := row_i - (a_ic / a_pc) * row_p ;  the rational factor is kept out of the  *)
(* data by multiplying the row through with the (non-zero) pivot a_pc, which does not change the row      *)
(* space:  row_i := a_pc * row_i - a_ic * row_p.  Each new row is divided by the gcd of its entries so    *)
(* that numbers stay far inside TLC's 32-bit integers (an overflow would be an infrastructure error,      *)
(* never a verdict).  Also: column centring with the denominator cleared (n*x - column sum), which has    *)
(* the same rank as the mean-centred matrix the fitting routines work on.                                *)
EXTENDS Integers, Sequences, FiniteSets

ERAbs(x) == IF x < 0 THEN -x ELSE x
RECURSIVE ERGcd(_, _)
ERGcd(a, b) == IF b = 0 THEN a ELSE ERGcd(b, a % b)
RECURSIVE ERContent(_, _)
ERContent(row, k) == IF k = 0 THEN 0 ELSE ERGcd(ERAbs(row[k]), ERContent(row, k - 1))
ERPrim(row) == LET g == ERContent(row, Len(row)) IN IF g <= 1 THEN row ELSE [j \in 1..Len(row) |-> row[j] \div g]

ERElim(row, prow, c) == ERPrim([j \in 1..Len(row) |-> prow[c] * row[j] - row[c] * prow[j]])
ERDrop(M, r) == [i \in 1..(Len(M) - 1) |-> IF i < r THEN M[i] ELSE M[i + 1]]

\* rank of the rows of M using columns c..nc
RECURSIVE ERRankFrom(_, _, _)
ERRankFrom(M, c, nc) ==
  IF Len(M) = 0 \/ c > nc THEN 0
  ELSE IF \A i \in 1..Len(M) : M[i][c] = 0 THEN ERRankFrom(M, c + 1, nc)
  ELSE LET r == CHOOSE i \in 1..Len(M) : M[i][c] # 0 /\ \A k \in 1..(i - 1) : M[k][c] = 0
           rest == ERDrop(M, r)
           red == [i \in 1..Len(rest) |-> IF rest[i][c] = 0 THEN rest[i] ELSE ERElim(rest[i], M[r], c)]
       IN 1 + ERRankFrom(red, c + 1, nc)

Rank(M) == IF Len(M) = 0 THEN 0 ELSE ERRankFrom(M, 1, Len(M[1]))

RECURSIVE ERColSum(_, _, _)
ERColSum(M, j, i) == IF i = 0 THEN 0 ELSE M[i][j] + ERColSum(M, j, i - 1)
\* n * (M - column means): integer matrix with the rank of the mean-centred matrix
CenterN(M) == LET n == Len(M) IN [i \in 1..n |-> [j \in 1..Len(M[1]) |-> n * M[i][j] - ERColSum(M, j, n)]]
RankCentred(M) == Rank(CenterN(M))
ColConst(M, j) == \A i \in 1..Len(M) : M[i][j] = M[1][j]
TransposeM(M) == [j \in 1..Len(M[1]) |-> [i \in 1..Len(M) |-> M[i][j]]]
\* integer dot product of column j of A with vector v
RECURSIVE ERDotCol(_, _, _, _)
ERDotCol(A, j, v, i) == IF i = 0 THEN 0 ELSE A[i][j] * v[i] + ERDotCol(A, j, v, i - 1)
\* covariance direction X_c' y_c (times n^2): zero vector iff no PLS latent variable exists
CovNonZero(M, y) == LET n == Len(M)
                        Xc == CenterN(M)
                        yc == CenterN([i \in 1..n |-> <<y[i]>>])
                        yv == [i \in 1..n |-> yc[i][1]]
                    IN \E j \in 1..Len(M[1]) : ERDotCol(Xc, j, yv, n) # 0

\* Number of latent variables PLS1 can extract = dimension of the Krylov space span{s, As, A^2 s, ...} with A = X_c'X_c and
\* s = X_c'y_c (denominators cleared: everything is computed from n*X_c and n*y_c).  Every Krylov vector is divided by the
\* gcd of its entries (same direction, small numbers) before the next multiplication.
MatVec(A, v) == [i \in 1..Len(A) |-> ERDotCol(TransposeM(A), i, v, Len(v))]
Gram(Xc) == LET p == Len(Xc[1]) IN [i \in 1..p |-> [j \in 1..p |-> ERDotCol(Xc, i, [r \in 1..Len(Xc) |-> Xc[r][j]], Len(Xc))]]
RECURSIVE KrylovRows(_, _, _)
KrylovRows(A, v, k) == IF k = 0 THEN <<>> ELSE <<v>> \o KrylovRows(A, ERPrim(MatVec(A, v)), k - 1)
KrylovRank(M, y) == LET n == Len(M)
                        Xc == CenterN(M)
                        yc == CenterN([i \in 1..n |-> <<y[i]>>])
                        yv == [i \in 1..n |-> yc[i][1]]
                        p == Len(M[1])
                        s == ERPrim([j \in 1..p |-> ERDotCol(Xc, j, yv, n)])
                    IN IF \A j \in 1..p : s[j] = 0 THEN 0 ELSE Rank(KrylovRows(Gram(Xc), s, p))

\* sanity theorems (checked by TLC on every generated matrix, see NipalsGen)
RankSane(M) == LET r == Rank(M) IN
  /\ r \in 0..(IF Len(M) < Len(M[1]) THEN Len(M) ELSE Len(M[1]))
  /\ (r = 0) = (\A i \in 1..Len(M) : \A j \in 1..Len(M[1]) : M[i][j] = 0)
  /\ r = Rank(TransposeM(M))
  /\ RankCentred(M) \in {r - 1, r}                       \* centring removes at most the direction of the all-ones vector
  /\ RankCentred(M) <= Len(M) - 1
====
