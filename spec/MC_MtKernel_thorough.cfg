SPECIFICATION MSpec
CONSTANTS
  MaxRows = 10
  MaxThreads = 6
  MaxCond = 10
  MaxCalls = 2
  KernSet = {"lab", "mxv", "vxm", "dist", "cond"}
  GuardBeforeResize = FALSE
  CallerZeroes = TRUE
INVARIANT WriteOnce
INVARIANT InBounds
INVARIANT DoneIsDef
INVARIANT NeedsZero
CHECK_DEADLOCK FALSE
