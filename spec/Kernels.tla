---- MODULE Kernels ----
(* C11.  Exact reference semantics of the dense kernels of matrix.c / vector.c / tensor.c over integer       *)
(* operands, the algebraic laws the property states, and the enumeration of every operand shape.  TLC is     *)
(* the ORACLE: for every enumerated case it prints the operands together with the exact expected results      *)
(* (one "@@"-line of JSON per case); harness/c11_replay.c replays every case through the real library.        *)
(*                                                                                                           *)
(* Results that are not integers are emitted as integer numerators plus their denominators:                  *)
(*   column average        = ColSum / row                   row average = RowSum / col                         *)
(*   column variance       = (row*ColSumSq - ColSum^2) / (row*(row-1))       SDEV = sqrt of it                  *)
(*   column RMS^2          = ColSumSq / row                                                                   *)
(*   mean-centred cell     = (row*x - ColSum) / row                                                           *)
(*   covariance[i][j]      = (row*ColCross(i,j) - ColSum(i)*ColSum(j)) / (row*(row-1))                        *)
(*   Matrixnorm^2          = SumSq          MatrixNorm cell^2 * SumSq = cell^2                                *)
EXTENDS IntMat, FiniteSets, TLC, Json
CONSTANTS KernelSet,            \* case families to enumerate (strings below)
          RSet, KSet, CSet,     \* MatrixDotProduct: every shape triple of RSet x KSet x CSet ...
          XRC, XK,              \* ... and XRC x XK x XRC (all residues of the inner dimension in the quick tier)
          DSet,                 \* rows / columns of the two-operand kernels, the vectors and the tensor slices
          SliceSet,             \* numbers of tensor slices
          SortCols,             \* column counts of the matrices that are sorted
          SeedSet,              \* operand fills per shape (0 = the base fill)
          DoEmit                \* TRUE: print every case with its expected results; FALSE: laws only

(* ---- deterministic operand fill over -5..5 (no period below 31 in either index) ---- *)
Fill(s, i, j) == (((3 * i * i + 5 * j * j + 7 * i * j + 2 * i + 6 * j + s * s + 4 * s) % 31) % 11) - 5
FillMat(s, r, c) == Mat(r, c, LAMBDA i, j : Fill(s, i, j))
FillVec(s, n) == Vec(n, LAMBDA i : Fill(s, i, i + 2))

(* ---- definitions ------------------------------------------------------------------------------------ *)
(* covariance and column statistics, scaled to integers *)
ColSums(M) == [j \in 1..M.col |-> ColSum(M, j)]
RowSums(M) == [i \in 1..M.row |-> RowSum(M, i)]
ColSumSqs(M) == [j \in 1..M.col |-> ColSumSq(M, j)]
ColVarNum(M) == [j \in 1..M.col |-> M.row * ColSumSq(M, j) - ColSum(M, j) * ColSum(M, j)]
CentredNum(M) == LET S == ColSums(M) IN Mat(M.row, M.col, LAMBDA i, j : M.row * M.d[i][j] - S[j])
CovNum(M) == LET S == ColSums(M) IN Mat(M.col, M.col, LAMBDA i, j : M.row * ColCross(M, i, j) - S[i] * S[j])
(* a location shift: a different constant added to every column (covariance and variances do not see it; the replay *)
(* harness applies shifts of the order of 1e6 spreads, where a one-pass sum-of-squares formula cancels)              *)
ShiftCols(M) == Mat(M.row, M.col, LAMBDA i, j : M.d[i][j] + 7 * j - 11)

(* tensor contractions, element by element (tensor.c:346-425); T is a sequence of k slices r x c *)
(*   TransposedTensorDVectorProduct : P[s][i] = sum_j T[s][i][j] * v[j]            (k x r, v of size c)     *)
(*   DvectorTensorDotProduct        : Q[j][s] = sum_i v[i] * T[s][i][j]            (c x k, v of size r)     *)
(*   TensorMatrixDotProduct         : t[i]    = sum_s sum_j T[s][i][j] * M[j][s]   (size r, M is c x k)     *)
TenVec(T, v, k, r, c) == Mat(k, r, LAMBDA s, i : SumF([j \in 1..c |-> T[s].d[i][j] * v[j]], c))
VecTen(T, v, k, r, c) == Mat(c, k, LAMBDA j, s : SumF([i \in 1..r |-> v[i] * T[s].d[i][j]], r))
TenMat(T, M, k, r, c) == [i \in 1..r |-> SumF([s \in 1..k |-> SumF([j \in 1..c |-> T[s].d[i][j] * M.d[j][s]], c)], k)]

(* sorting by a key column: WHAT the property states (any row permutation ordered by the key) ... *)
Count(d, x) == Cardinality({i \in 1..Len(d) : d[i] = x})
IsRowPerm(d1, d2) == Len(d1) = Len(d2) /\ \A i \in 1..Len(d1) : Count(d1, d1[i]) = Count(d2, d1[i])
Ordered(d, key, rev) == \A i \in 1..(Len(d) - 1) : IF rev THEN d[i][key] >= d[i + 1][key] ELSE d[i][key] <= d[i + 1][key]
IsSortOf(rd, md, key, rev) == IsRowPerm(md, rd) /\ Ordered(rd, key, rev)
(* ... and HOW matrix.c:1929-1968 does it (exchange sort: for i, for j > i, swap rows when out of order) *)
SwapRows(d, i, j) == [d EXCEPT ![i] = d[j], ![j] = d[i]]
RECURSIVE ExInner(_, _, _, _, _)
ExInner(d, i, j, key, rev) ==
  IF j > Len(d) THEN d
  ELSE LET out == IF rev THEN d[i][key] < d[j][key] ELSE d[i][key] > d[j][key]
       IN ExInner(IF out THEN SwapRows(d, i, j) ELSE d, i, j + 1, key, rev)
RECURSIVE ExOuter(_, _, _, _)
ExOuter(d, i, key, rev) == IF i > Len(d) THEN d ELSE ExOuter(ExInner(d, i, i + 1, key, rev), i + 1, key, rev)
ExchangeSort(d, key, rev) == ExOuter(d, 1, key, rev)
Perms(n) == {f \in [1..n -> 1..n] : \A a, b \in 1..n : a # b => f[a] # f[b]}
SortResults(d, key, rev) == {[i \in 1..Len(d) |-> d[p[i]]] : p \in {q \in Perms(Len(d)) : Ordered([i \in 1..Len(d) |-> d[q[i]]], key, rev)}}

(* ---- the enumerated case space -------------------------------------------------------------------- *)
VARIABLES kern, r, k, c, sd, st
vars == <<kern, r, k, c, sd, st>>
TwoDim == {"MatVec", "VecMat", "Outer", "Transpose", "Trace", "Norm", "ColStats", "Covariance"}
RowsOf(f) == IF f = "MatrixDotProduct" THEN RSet \cup XRC ELSE DSet
KCOf(f, rr) ==
  CASE f = "MatrixDotProduct" -> {<<kk, cc>> \in KSet \X CSet : rr \in RSet} \cup {<<kk, cc>> \in XK \X XRC : rr \in XRC}
    [] f \in TwoDim -> {<<0, cc>> : cc \in DSet}
    [] f = "DVector" -> {<<0, 1>>}
    [] f = "Tensor" -> SliceSet \X DSet
    [] f = "Sort" -> {<<kk, cc>> \in SortCols \X SortCols : kk <= cc}       \* k = key column (1-based)
Init == kern \in KernelSet /\ r \in RowsOf(kern) /\ sd \in SeedSet /\ k = 0 /\ c = 0 /\ st = 0
Next == /\ st = 0 /\ st' = 1 /\ UNCHANGED <<kern, r, sd>>
        /\ \E kc \in KCOf(kern, r) : k' = kc[1] /\ c' = kc[2]
Spec == Init /\ [][Next]_vars

(* operands of the current case *)
S(i) == i + 17 * sd
A == FillMat(S(1), r, k)
B == FillMat(S(2), k, c)
C == FillMat(S(3), k, c)
M == FillMat(S(4), r, c)
Vc == FillVec(S(5), c)
Vr == FillVec(S(6), r)
Wr == FillVec(S(7), r)
Ten == [s \in 1..k |-> FillMat(S(10 + s), r, c)]
Mck == FillMat(S(8), c, k)
Ms == FillMat(S(9), r, c)

CaseRec ==
  LET hd == [kern |-> kern, r |-> r, k |-> k, c |-> c, sd |-> sd] IN
  CASE kern = "MatrixDotProduct" -> hd @@ [inp |-> <<A.d, B.d>>, out |-> <<MatMul(A, B).d>>]
    [] kern = "MatVec" -> hd @@ [inp |-> <<M.d, Vc>>, out |-> <<MatVec(M, Vc)>>]
    [] kern = "VecMat" -> hd @@ [inp |-> <<M.d, Vr>>, out |-> <<VecMat(Vr, M)>>]
    [] kern = "Outer" -> hd @@ [inp |-> <<Vr, Vc>>, out |-> <<Outer(Vr, Vc).d>>]
    [] kern = "Transpose" -> hd @@ [inp |-> <<M.d>>, out |-> <<Transpose(M).d>>]
    [] kern = "Trace" -> hd @@ [inp |-> <<M.d>>, out |-> <<<<IF r = c THEN Trace(M) ELSE 0>>>>]
    [] kern = "Norm" -> hd @@ [inp |-> <<M.d>>, out |-> <<<<SumSq(M)>>>>]
    [] kern = "ColStats" -> hd @@ [inp |-> <<M.d>>, out |-> <<ColSums(M), RowSums(M), ColSumSqs(M), ColVarNum(M), <<r, c, r * (r - 1)>>>>]
    [] kern = "Covariance" -> hd @@ [inp |-> <<M.d>>, out |-> <<CovNum(M).d, <<r * (r - 1)>>>>]
    [] kern = "DVector" -> hd @@ [inp |-> <<Vr, Wr>>, out |-> <<<<Dot(Vr, Wr, r), Dot(Vr, Vr, r), SumF(Vr, r), r * Dot(Vr, Vr, r) - SumF(Vr, r) * SumF(Vr, r)>>>>]
    [] kern = "Tensor" -> hd @@ [inp |-> <<[s \in 1..k |-> Ten[s].d], Vc, Vr, Mck.d>>,
                                 out |-> <<TenVec(Ten, Vc, k, r, c).d, VecTen(Ten, Vr, k, r, c).d, TenMat(Ten, Mck, k, r, c)>>]
    [] kern = "Sort" -> hd @@ [inp |-> <<Ms.d>>, out |-> <<>>]
EmitCase == (DoEmit /\ st = 1) => PrintT("@@" \o ToJson(CaseRec))

(* ---- laws (TLC-checked theorems over the enumerated space) ---------------------------------------- *)
On(f) == st = 1 /\ kern = f
LawProductTranspose == On("MatrixDotProduct") => Transpose(MatMul(A, B)) = MatMul(Transpose(B), Transpose(A))
LawDistributive == On("MatrixDotProduct") => MatMul(A, MatAdd(B, C)) = MatAdd(MatMul(A, B), MatMul(A, C))
LawTraceCyclic == (On("MatrixDotProduct") /\ r = c) => Trace(MatMul(A, B)) = Trace(MatMul(B, A))
LawShapes == On("MatrixDotProduct") => IsMat(MatMul(A, B)) /\ MatMul(A, B).row = r /\ MatMul(A, B).col = c
LawInvolution == On("Transpose") => /\ Transpose(Transpose(M)) = M
                                    /\ Transpose(M).row = c /\ Transpose(M).col = r /\ IsMat(Transpose(M))
LawMatVec == On("MatVec") => ColAsMat(MatVec(M, Vc)) = MatMul(M, ColAsMat(Vc))
LawVecMat == On("VecMat") => RowAsMat(VecMat(Vr, M)) = MatMul(RowAsMat(Vr), M)
LawOuter == On("Outer") => Outer(Vr, Vc) = MatMul(ColAsMat(Vr), RowAsMat(Vc)) /\ Transpose(Outer(Vr, Vc)) = Outer(Vc, Vr)
LawTrace == (On("Trace") /\ r = c) => Trace(M) = Trace(Transpose(M))
LawNorm == On("Norm") => SumSq(M) = Trace(MatMul(Transpose(M), M)) /\ SumSq(M) >= 0 /\ (SumSq(M) = 0 <=> \A i \in 1..r, j \in 1..c : M.d[i][j] = 0)
SmallVecs(n) == [1..n -> {-1, 0, 1}]
LawCovariance == (On("Covariance") /\ r >= 2) =>
  LET Cv == CovNum(M)  Ce == CentredNum(M) IN
  /\ Cv = Transpose(Cv)                                                      \* symmetric
  /\ MatMul(Transpose(Ce), Ce) = MatScale(r, Cv)                             \* Gram matrix of the centred data
  /\ \A i, j \in 1..c : Cv.d[i][i] >= 0 /\ Cv.d[i][i] * Cv.d[j][j] - Cv.d[i][j] * Cv.d[i][j] >= 0
  /\ (c <= 5 => \A v \in SmallVecs(c) : QuadForm(v, Cv) >= 0)                 \* positive semi-definite
  /\ \A j \in 1..c : Cv.d[j][j] = ColVarNum(M)[j]                             \* diagonal = variances
  /\ CovNum(ShiftCols(M)) = Cv /\ ColVarNum(ShiftCols(M)) = ColVarNum(M)       \* unchanged by a location shift of every column
LawColStats == On("ColStats") =>
  /\ SumF(ColSums(M), c) = SumF(RowSums(M), r)                               \* both add up to the grand total
  /\ \A j \in 1..c : ColSum(CentredNum(M), j) = 0 /\ ColVarNum(M)[j] >= 0    \* centred columns sum to zero
  /\ \A j \in 1..c : r * ColVarNum(M)[j] = ColSumSq(CentredNum(M), j)
LawTensor == On("Tensor") =>
  /\ \A s \in 1..k : TenVec(Ten, Vc, k, r, c).d[s] = MatVec(Ten[s], Vc)
  /\ \A s \in 1..k : Column(VecTen(Ten, Vr, k, r, c), s) = VecMat(Vr, Ten[s])
  /\ TenMat(Ten, Mck, k, r, c) = [i \in 1..r |-> SumF([s \in 1..k |-> MatVec(Ten[s], Column(Mck, s))[i]], k)]
LawSort == On("Sort") => \A rev \in BOOLEAN :
  /\ IsSortOf(ExchangeSort(Ms.d, k, rev), Ms.d, k, rev)                      \* the code's algorithm sorts
  /\ (r <= 5 => /\ ExchangeSort(Ms.d, k, rev) \in SortResults(Ms.d, k, rev)
                /\ \A x \in SortResults(Ms.d, k, rev) : IsSortOf(x, Ms.d, k, rev)
                /\ \A x, y \in SortResults(Ms.d, k, rev) : [i \in 1..r |-> x[i][k]] = [i \in 1..r |-> y[i][k]])
====
