---- MODULE Kernels ----
(* C11.  Exact reference semantics of the dense kernels of matrix.c / vector.c / tensor.c over integer       *)
(* operands, the algebraic laws the property states, and the enumeration of every operand shape.  TLC is     *)
(* the ORACLE: for every enumerated case it prints the operands together with the exact expected results      *)
(* (one "@@"-line of JSON per case); harness/c11_replay.c replays every case through the real library.        *)
(*                                                                                                           *)
(* Results that are not integers are emitted as integer numerators plus their denominators:                  *)
(*   column average        = ColSum / row                   row average = RowSum / col                         *)
(*   column variance       = (row*ColSumSq - ColSum^2) / (row*(row-1))       SDEV = sqrt of it                  *)
(*   column RMS^2          = ColSumSq / row                                                                   *)
(*   mean-centred cell     = (row*x - ColSum) / row                                                           *)
(*   covariance[i][j]      = (row*ColCross(i,j) - ColSum(i)*ColSum(j)) / (row*(row-1))                        *)
(*   Matrixnorm^2          = SumSq          MatrixNorm cell^2 * SumSq = cell^2                                *)
(* Second batch (families DVector2, MatMaps, DescStat, DescStatMiss, Correl, Division and the extended Tensor):   *)
(*   v/|v| cell^2          = v[i]^2 / Dot(v,v)              median = Median2 / 2                                 *)
(*   harmonic mean         = n * 60 / sum_i (60 / x_i)      (operands 1..6, every x_i divides 60)               *)
(*   population variance   = ColVarNum / n^2                sample variance = ColVarNum / (n (n-1))              *)
(*   CV^2 (percent)        = 10000 * variance / mean^2                                                          *)
(*   row-sum scaling cell  = x / RowSum                     SNV cell^2 = (c x - RowSum)^2 (c-1) / (c RowVarNum)  *)
(*   Pearson r[i][j]       = CovNum[i][j] / sqrt(CovNum[i][i] CovNum[j][j])        (r^2 is rational)             *)
(*   Spearman rho[i][j]    = (n(n^2-1) - 6 sum_i (rank_i(col i) - rank_i(col j))^2) / (n(n^2-1))   (tie-free)    *)
(*   v / M                 = the x with x M = v  (M strictly diagonally dominant; Cramer's rule for n <= 4)      *)
(*   log10(x+1), sqrt(x)   : exact on powers of ten / squares, integer brackets elsewhere                        *)
EXTENDS KernelDefs, TLC, Json
CONSTANTS KernelSet,            \* case families to enumerate (strings below)
          RSet, KSet, CSet,     \* MatrixDotProduct: every shape triple of RSet x KSet x CSet ...
          XRC, XK,              \* ... and XRC x XK x XRC (all residues of the inner dimension in the quick tier)
          DSet,                 \* rows / columns of the two-operand kernels, the vectors and the tensor slices
          BSet,                 \* K2: block-size boundaries beyond the quantifier's 17 (31..33, 63..65), paired with 1, 2, 5 in the other dimension
          SliceSet,             \* numbers of tensor slices
          SortCols,             \* column counts of the matrices that are sorted
          ESet,                 \* rows / columns of the second-batch matrix families (MatMaps, DescStat, DescStatMiss, Correl)
          SeedSet,              \* operand fills per shape (0 = the base fill)
          DoEmit                \* TRUE: print every case with its expected results; FALSE: laws only

(* ---- the definitions (fills, statistics, contractions, sorting, second batch) live in KernelDefs.tla ---- *)

(* ---- the enumerated case space -------------------------------------------------------------------- *)
VARIABLES kern, r, k, c, sd, st
vars == <<kern, r, k, c, sd, st>>
TwoDim == {"MatVec", "VecMat", "Outer", "Transpose", "Trace", "Norm", "ColStats", "Covariance"}
TwoDimE == {"MatMaps", "DescStat", "DescStatMiss", "Correl"}
BSmall == {1, 2, 5}
RowsOf(f) == IF f = "MatrixDotProduct" THEN RSet \cup XRC ELSE IF f \in TwoDimE THEN ESet ELSE IF f \in TwoDim THEN DSet \cup BSet ELSE DSet
KCOf(f, rr) ==
  CASE f = "MatrixDotProduct" -> {<<kk, cc>> \in KSet \X CSet : rr \in RSet} \cup {<<kk, cc>> \in XK \X XRC : rr \in XRC}
    [] f \in TwoDim -> {<<0, cc>> : cc \in (IF rr \in BSet \ DSet THEN BSmall ELSE DSet \cup (IF rr \in BSmall THEN BSet ELSE {}))}
    [] f \in TwoDimE -> {<<0, cc>> : cc \in ESet}
    [] f \in {"DVector", "DVector2"} -> {<<0, 1>>}
    [] f = "Division" -> {<<0, rr>>}
    [] f = "Tensor" -> SliceSet \X DSet
    [] f = "Sort" -> {<<kk, cc>> \in SortCols \X SortCols : kk <= cc}       \* k = key column (1-based)
Init == kern \in KernelSet /\ r \in RowsOf(kern) /\ sd \in SeedSet /\ k = 0 /\ c = 0 /\ st = 0
Next == /\ st = 0 /\ st' = 1 /\ UNCHANGED <<kern, r, sd>>
        /\ \E kc \in KCOf(kern, r) : k' = kc[1] /\ c' = kc[2]
Spec == Init /\ [][Next]_vars

(* operands of the current case *)
S(i) == i + 17 * sd
A == FillMat(S(1), r, k)
B == FillMat(S(2), k, c)
C == FillMat(S(3), k, c)
M == FillMat(S(4), r, c)
Vc == FillVec(S(5), c)
Vr == FillVec(S(6), r)
Wr == FillVec(S(7), r)
Ten == [s \in 1..k |-> FillMat(S(10 + s), r, c)]
Mck == FillMat(S(8), c, k)
Ms == FillMat(S(9), r, c)
Pm == PosMat(M)                                                        \* positive operand (harmonic mean, CV)
Lg == Mat(r, c, LAMBDA i, j : LET p == Fill(S(15), i, j) + 5 IN IF p <= 6 THEN Pow10(p) - 1 ELSE 3 * p * p)   \* 0, 9, .., 999999, 147, 192, 243, 300
Qm == PermFill(sd, r, c)                                               \* tie-free columns (rank correlation)
Xs == FillVec(S(16), r)
Mdd == Mat(r, r, LAMBDA i, j : Fill(S(17), i, j) + (IF i = j THEN 5 * r + 1 ELSE 0))    \* strictly diagonally dominant

CaseRec ==
  LET hd == [kern |-> kern, r |-> r, k |-> k, c |-> c, sd |-> sd] IN
  CASE kern = "MatrixDotProduct" -> hd @@ [inp |-> <<A.d, B.d>>, out |-> <<MatMul(A, B).d>>]
    [] kern = "MatVec" -> hd @@ [inp |-> <<M.d, Vc>>, out |-> <<MatVec(M, Vc)>>]
    [] kern = "VecMat" -> hd @@ [inp |-> <<M.d, Vr>>, out |-> <<VecMat(Vr, M)>>]
    [] kern = "Outer" -> hd @@ [inp |-> <<Vr, Vc>>, out |-> <<Outer(Vr, Vc).d>>]
    [] kern = "Transpose" -> hd @@ [inp |-> <<M.d>>, out |-> <<Transpose(M).d>>]
    [] kern = "Trace" -> hd @@ [inp |-> <<M.d>>, out |-> <<<<IF r = c THEN Trace(M) ELSE 0>>>>]
    [] kern = "Norm" -> hd @@ [inp |-> <<M.d>>, out |-> <<<<SumSq(M), SumF(RowSums(M), r)>>>>]        \* squared norm, grand total (for the norm of the moved matrix)
    [] kern = "ColStats" -> hd @@ [inp |-> <<M.d>>, out |-> <<ColSums(M), RowSums(M), ColSumSqs(M), ColVarNum(M), <<r, c, r * (r - 1)>>>>]
    [] kern = "Covariance" -> hd @@ [inp |-> <<M.d>>, out |-> <<CovNum(M).d, <<r * (r - 1)>>>>]
    [] kern = "DVector" -> hd @@ [inp |-> <<Vr, Wr>>, out |-> <<<<Dot(Vr, Wr, r), Dot(Vr, Vr, r), SumF(Vr, r), r * Dot(Vr, Vr, r) - SumF(Vr, r) * SumF(Vr, r)>>>>]
    [] kern = "Tensor" -> hd @@ [inp |-> <<[s \in 1..k |-> Ten[s].d], Vc, Vr, Mck.d>>,
                                 out |-> <<TenVec(Ten, Vc, k, r, c).d, VecTen(Ten, Vr, k, r, c).d, TenMat(Ten, Mck, k, r, c),
                                           [s \in 1..k |-> TenTranspose(Ten, k)[s].d], TenColSums(Ten, k, c).d, TenColVarNums(Ten, k, c).d,
                                           [s \in 1..k |-> KronTensor(Vr, Mck, k, r, c)[s].d]>>]
    [] kern = "DVector2" -> hd @@ [inp |-> <<Vr, Wr>>,
                                   out |-> <<VecSub(Vr, Wr), VecAdd(Vr, Wr),
                                             IF r >= 1 THEN <<VecMin(Vr, r), VecMax(Vr, r), Median2(Vr, r)>> ELSE <<>>, <<Dot(Vr, Vr, r)>>>>]
    [] kern = "MatMaps" -> hd @@ [inp |-> <<M.d, Lg.d>>,
                                  out |-> <<SquareMap(M).d, AbsMap(M).d, RowSums(M), SvnNum(M).d, SvnDen(M),
                                            IF r = c THEN IdentityMat(r).d ELSE <<>>, LogLoMap(Lg).d, LogExactMap(Lg).d, SqrtFloorMap(AbsMap(M)).d>>]
    [] kern = "DescStat" -> hd @@ [inp |-> <<Pm.d, M.d>>,
                                   out |-> IF r = 0 THEN <<>> ELSE
                                           <<ColSums(Pm), ColMed2s(Pm), ColHarmDens(Pm), ColVarNum(Pm), ColMins(Pm), ColMaxs(Pm), ColZeros(Pm),
                                             ColSums(M), ColMed2s(M), ColVarNum(M), ColMins(M), ColMaxs(M), ColZeros(M)>>]
    [] kern = "DescStatMiss" -> hd @@ [inp |-> <<M.d, [j \in 1..c |-> IF r >= 3 THEN MissRow(M, j) ELSE 0]>>,
                                       out |-> IF r >= 3 THEN <<MissStats(M)>> ELSE <<>>]
    [] kern = "Correl" -> hd @@ [inp |-> <<M.d, Qm.d>>, out |-> <<CovNum(M).d, SpearNum(Qm).d, <<SpearDen(r)>>>>]
    [] kern = "Division" -> hd @@ [inp |-> <<VecMat(Xs, Mdd), Mdd.d>>, out |-> <<Xs>>]
    [] kern = "Sort" -> hd @@ [inp |-> <<Ms.d>>, out |-> <<>>]
EmitCase == (DoEmit /\ st = 1) => PrintT("@@" \o ToJson(CaseRec))

(* ---- laws (TLC-checked theorems over the enumerated space) ---------------------------------------- *)
On(f) == st = 1 /\ kern = f
LawProductTranspose == On("MatrixDotProduct") => Transpose(MatMul(A, B)) = MatMul(Transpose(B), Transpose(A))
LawDistributive == On("MatrixDotProduct") => MatMul(A, MatAdd(B, C)) = MatAdd(MatMul(A, B), MatMul(A, C))
LawTraceCyclic == (On("MatrixDotProduct") /\ r = c) => Trace(MatMul(A, B)) = Trace(MatMul(B, A))
LawShapes == On("MatrixDotProduct") => IsMat(MatMul(A, B)) /\ MatMul(A, B).row = r /\ MatMul(A, B).col = c
LawInvolution == On("Transpose") => /\ Transpose(Transpose(M)) = M
                                    /\ Transpose(M).row = c /\ Transpose(M).col = r /\ IsMat(Transpose(M))
LawMatVec == On("MatVec") => ColAsMat(MatVec(M, Vc)) = MatMul(M, ColAsMat(Vc))
LawVecMat == On("VecMat") => RowAsMat(VecMat(Vr, M)) = MatMul(RowAsMat(Vr), M)
LawOuter == On("Outer") => Outer(Vr, Vc) = MatMul(ColAsMat(Vr), RowAsMat(Vc)) /\ Transpose(Outer(Vr, Vc)) = Outer(Vc, Vr)
LawTrace == (On("Trace") /\ r = c) => Trace(M) = Trace(Transpose(M))
LawNorm == On("Norm") => SumSq(M) = Trace(MatMul(Transpose(M), M)) /\ SumSq(M) >= 0 /\ (SumSq(M) = 0 <=> \A i \in 1..r, j \in 1..c : M.d[i][j] = 0)
SmallVecs(n) == [1..n -> {-1, 0, 1}]
LawCovariance == (On("Covariance") /\ r >= 2) =>
  LET Cv == CovNum(M)  Ce == CentredNum(M) IN
  /\ Cv = Transpose(Cv)                                                      \* symmetric
  /\ MatMul(Transpose(Ce), Ce) = MatScale(r, Cv)                             \* Gram matrix of the centred data
  /\ \A i, j \in 1..c : Cv.d[i][i] >= 0 /\ (r <= 17 => Cv.d[i][i] * Cv.d[j][j] - Cv.d[i][j] * Cv.d[i][j] >= 0)   \* (beyond 17 rows the products leave 32 bits)
  /\ (c <= 5 => \A v \in SmallVecs(c) : QuadForm(v, Cv) >= 0)                 \* positive semi-definite
  /\ \A j \in 1..c : Cv.d[j][j] = ColVarNum(M)[j]                             \* diagonal = variances
  /\ CovNum(ShiftCols(M)) = Cv /\ ColVarNum(ShiftCols(M)) = ColVarNum(M)       \* unchanged by a location shift of every column
LawColStats == On("ColStats") =>
  /\ SumF(ColSums(M), c) = SumF(RowSums(M), r)                               \* both add up to the grand total
  /\ \A j \in 1..c : ColSum(CentredNum(M), j) = 0 /\ ColVarNum(M)[j] >= 0    \* centred columns sum to zero
  /\ \A j \in 1..c : r * ColVarNum(M)[j] = ColSumSq(CentredNum(M), j)
LawTensor == On("Tensor") =>
  /\ \A s \in 1..k : TenVec(Ten, Vc, k, r, c).d[s] = MatVec(Ten[s], Vc)
  /\ \A s \in 1..k : Column(VecTen(Ten, Vr, k, r, c), s) = VecMat(Vr, Ten[s])
  /\ TenMat(Ten, Mck, k, r, c) = [i \in 1..r |-> SumF([s \in 1..k |-> MatVec(Ten[s], Column(Mck, s))[i]], k)]
LawSort == On("Sort") => \A rev \in BOOLEAN :
  /\ IsSortOf(ExchangeSort(Ms.d, k, rev), Ms.d, k, rev)                      \* the code's algorithm sorts
  /\ (r <= 5 => /\ ExchangeSort(Ms.d, k, rev) \in SortResults(Ms.d, k, rev)
                /\ \A x \in SortResults(Ms.d, k, rev) : IsSortOf(x, Ms.d, k, rev)
                /\ \A x, y \in SortResults(Ms.d, k, rev) : [i \in 1..r |-> x[i][k]] = [i \in 1..r |-> y[i][k]])

(* ---- laws of the second batch ---------------------------------------------------------------------- *)
LawVecDiffSum == On("DVector2") =>
  /\ SumF(VecSub(Vr, Wr), r) = SumF(Vr, r) - SumF(Wr, r)                      \* sum(diff) = sum(a) - sum(b)
  /\ SumF(VecAdd(Vr, Wr), r) = SumF(Vr, r) + SumF(Wr, r)
  /\ VecAdd(VecSub(Vr, Wr), Wr) = Vr /\ VecSub(VecAdd(Vr, Wr), Wr) = Vr
  /\ Len(VecSub(Vr, Wr)) = r /\ Len(VecAdd(Vr, Wr)) = r
OrderStatsLight(x, n) ==
  /\ 2 * VecMin(x, n) <= Median2(x, n) /\ Median2(x, n) <= 2 * VecMax(x, n)  \* min <= median <= max
  /\ 2 * Cardinality({i \in 1..n : 2 * x[i] <= Median2(x, n)}) >= n           \* at least half of the entries on either side
  /\ 2 * Cardinality({i \in 1..n : 2 * x[i] >= Median2(x, n)}) >= n
  /\ n * VecMin(x, n) <= SumF(x, n) /\ SumF(x, n) <= n * VecMax(x, n)         \* min <= mean <= max
OrderStatsOK(x, n) ==
  /\ OrderStatsLight(x, n)
  /\ VecMin(x, n) = Kth(x, n, 1) /\ VecMax(x, n) = Kth(x, n, n)
  /\ \A q \in 1..(n - 1) : Kth(x, n, q) <= Kth(x, n, q + 1)                   \* the order statistics are ordered ...
  /\ \A y \in {x[i] : i \in 1..n} : Cardinality({q \in 1..n : Kth(x, n, q) = y}) = Cardinality({q \in 1..n : x[q] = y})   \* ... and a permutation of x
LawOrderStats == (On("DVector2") /\ r >= 1) => OrderStatsOK(Vr, r)
LawUnitNorm == (On("DVector2") /\ Dot(Vr, Vr, r) > 0) =>                        \* | v/|v| |^2 = sum_i v[i]^2 / Dot(v,v) = 1
  SumF([i \in 1..r |-> Vr[i] * Vr[i]], r) = Dot(Vr, Vr, r)
LawMaps == On("MatMaps") =>
  /\ SqrtFloorMap(SquareMap(M)) = AbsMap(M)                                    \* sqrt(x^2) = |x|
  /\ SquareMap(AbsMap(M)) = SquareMap(M) /\ AbsMap(AbsMap(M)) = AbsMap(M)
  /\ SumSq(M) = SumF([i \in 1..r |-> RowSum(SquareMap(M), i)], r)
  /\ \A i \in 1..r, j \in 1..c : LET x == AbsMap(M).d[i][j]  s == SqrtFloorMap(AbsMap(M)).d[i][j] IN s * s <= x /\ x < (s + 1) * (s + 1)
  /\ \A i \in 1..r, j \in 1..c : LET x == Lg.d[i][j]  q == LogLoMap(Lg).d[i][j] IN        \* 10^q <= (x+1)^3 < 10^(q+1)
        IF LogExactMap(Lg).d[i][j] = 1 THEN q % 3 = 0 /\ Pow10(q \div 3) = x + 1
        ELSE Pow10(q) <= (x + 1) * (x + 1) * (x + 1) /\ (x + 1) * (x + 1) * (x + 1) < Pow10(q + 1)
  /\ \A i \in 1..r : SumF([j \in 1..c |-> SvnDev(M, i, j)], c) = 0              \* SNV rows have mean 0 ...
  /\ \A i \in 1..r : SumF([j \in 1..c |-> SvnDev(M, i, j) * SvnDev(M, i, j)], c) = SvnDen(M)[i]   \* ... and sample variance 1
  /\ \A i \in 1..r : RowVarNum(M, i) >= 0
  /\ (r = c => /\ MatMul(IdentityMat(r), M) = M /\ MatMul(M, IdentityMat(r)) = M /\ Transpose(IdentityMat(r)) = IdentityMat(r)
               /\ Trace(IdentityMat(r)) = r)
LawArgExt == (On("MatMaps") /\ r >= 1 /\ c >= 1 /\ r * c <= 36) => \A mx \in BOOLEAN :
  LET pos == {p \in (1..r) \X (1..c) : IsArgExt(M.d, r, c, p[1], p[2], mx)} IN
  /\ pos # {}                                                                   \* an extreme cell exists,
  /\ \A p, p2 \in pos : M.d[p[1]][p[2]] = M.d[p2[1]][p2[2]]                    \* all of them hold the same value,
  /\ Cardinality({p \in pos : LastArgExt(M.d, r, c, p[1], p[2], mx)}) = 1       \* and the scan order singles out one of them
LawDescStat == (On("DescStat") /\ r >= 1) => \A j \in 1..c :
  /\ OrderStatsLight(Column(M, j), r) /\ OrderStatsLight(Column(Pm, j), r)
  /\ (r <= 6 => OrderStatsOK(Column(M, j), r))
  /\ \A i \in 1..r : Pm.d[i][j] >= 1 /\ HarmL % Pm.d[i][j] = 0                 \* the harmonic sums below are exact
  /\ r * r * HarmL <= ColSum(Pm, j) * ColHarmDens(Pm)[j]                        \* harmonic mean <= arithmetic mean
  /\ r * HarmL >= ColHarmDens(Pm)[j] * ColMins(Pm)[j] /\ r * HarmL <= ColHarmDens(Pm)[j] * ColMaxs(Pm)[j]   \* min <= harmonic mean <= max
  /\ ColVarNum(Pm)[j] >= 0 /\ ColVarNum(M)[j] >= 0 /\ ColVarNum(Pm)[j] = ColVarNum(AbsMap(M))[j]            \* variance ignores the location
  /\ ColZeros(Pm)[j] = 0 /\ ColZeros(M)[j] = Cardinality({i \in 1..r : AbsMap(M).d[i][j] = 0})
LawDescStatMiss == (On("DescStatMiss") /\ r >= 3) => \A j \in 1..c :
  LET ms == MissStats(M)[j] IN
  /\ ms[1] + ms[8] = r /\ ms[8] = (IF j % 2 = 1 THEN 1 ELSE 0)
  /\ OrderStatsLight(ColLess(M, j), ColN(M, j))
  /\ (ms[8] = 1 => ms[2] + M.d[MissRow(M, j)][j] = ColSum(M, j))               \* putting the removed cell back gives the plain sum
  /\ (ms[8] = 0 => ms[2] = ColSum(M, j) /\ ms[3] = ColMed2s(M)[j] /\ ms[4] = ColVarNum(M)[j])
LawCorrel == (On("Correl") /\ r >= 2) =>
  LET Cv == CovNum(M)  Sp == SpearNum(Qm)  Rk == RankMat(Qm) IN
  /\ Cv = Transpose(Cv)                                                        \* Pearson: symmetric,
  /\ \A i, j \in 1..c : Cv.d[i][j] * Cv.d[i][j] <= Cv.d[i][i] * Cv.d[j][j]     \*   r^2 <= 1 (entries in [-1, 1]), r[i][i] = 1 trivially
  /\ \A j \in 1..c : TieFree(Column(Qm, j), r)                                 \* Spearman operands are tie-free ...
  /\ \A j \in 1..c : {Rk.d[i][j] : i \in 1..r} = 1..r                          \*   ... so the ranks are a permutation of 1..n
  /\ Sp = Transpose(Sp) /\ \A j \in 1..c : Sp.d[j][j] = SpearDen(r)            \* symmetric with unit diagonal
  /\ \A i, j \in 1..c : -SpearDen(r) <= Sp.d[i][j] /\ Sp.d[i][j] <= SpearDen(r)   \* entries in [-1, 1]
  /\ \A i, j \in 1..c : 12 * CovNum(Rk).d[i][j] = r * Sp.d[i][j]                \* rho = Pearson correlation of the ranks
  /\ SpearNum(MonoCols(Qm)) = Sp /\ RankMat(MonoCols(Qm)) = Rk                 \* invariant under strictly increasing maps of the columns
LawDivision == On("Division") =>
  /\ DiagDom(Mdd)                                                              \* hence nonsingular
  /\ VecMat(Xs, Mdd) = MatVec(Transpose(Mdd), Xs)                              \* x M = (M' x)'
  /\ (r <= 4 => LET dt == DetI(Transpose(Mdd).d, r) IN                          \* Cramer's rule: x = inv(M') v
                  /\ dt # 0
                  /\ \A i \in 1..r : Xs[i] * dt = DetI(ReplaceCol(Transpose(Mdd).d, r, i, VecMat(Xs, Mdd)), r))
LawTensor2 == On("Tensor") =>
  LET TT == TenTranspose(Ten, k)  KT == KronTensor(Vr, Mck, k, r, c) IN
  /\ TenTranspose(TT, k) = Ten                                                 \* transposing twice is the identity
  /\ \A s \in 1..k : TT[s].row = c /\ TT[s].col = r /\ \A i \in 1..r, j \in 1..c : TT[s].d[j][i] = Ten[s].d[i][j]
  /\ \A s \in 1..k, j \in 1..c : TenColSums(Ten, k, c).d[j][s] = ColSums(Ten[s])[j] /\ TenColVarNums(Ten, k, c).d[j][s] >= 0
  /\ (c >= 1 => \A s \in 1..k, i \in 1..r, j \in 1..c : KT[s].d[i][j] = Kron(Vr, Mck).d[(i - 1) * c + j][s])   \* a re-indexing of v (x) M
  /\ \A s \in 1..k : KT[s] = Outer(Vr, Column(Mck, s))
====
