SPECIFICATION LSpec
CONSTANTS
  MaxNy = 8
  MaxNlv = 40
  ResidualIndex = "mod_ny"
INVARIANT LayoutBijective
INVARIANT ResidualAgainstOwnResponse
CHECK_DEADLOCK FALSE
