SPECIFICATION FairSpec
CONSTANTS
  MaxItems = 6
  MaxTh = 4
  Mode = "boot"
PROPERTY Terminates
