------------------------- MODULE TraceContainers -------------------------
(* C14.  Trace specification for what the real library was OBSERVED to do in calls whose post-state the shadow model   *)
(* does not fix uniquely or that the replay harness cannot compare cell by cell: the sort routines.  The harness       *)
(* (harness/c14_replay.c) records, for every MatrixSort / MatrixReverseSort / DVectorSort / SortUIVector call of a      *)
(* replayed history, the container as value CODES before and after the call; TLC evaluates the contracts of            *)
(* ContainerLaws.tla on them.  A cell the library produced that is no value of the history's palette has code 999999   *)
(* and can never be part of a permutation of the old cells.                                                           *)
(*   Reset    {"e":"Reset"}                                  start of a block (one per replay chunk)                  *)
(*   SortMx   {"e":"SortMx","h","step","col","rev","pre","post"}   pre/post: sequences of rows                        *)
(*   SortVec  {"e":"SortVec","h","step","kind","pre","post"}       pre/post: sequences of cells                       *)
(* Only property-level conjuncts here (the sort clause of C14): there is no implementation layer to drift.            *)
EXTENDS ContainerLaws, TraceBase
VARIABLE l
Ev == Tr[l]
TInit == l = 1
Step == l' = l + 1
TReset == l <= Len(Tr) /\ Ev.e = "Reset" /\ Step
RowsOK(cells, c) == \A i \in DOMAIN cells : Len(cells[i]) = c
TSortMx == /\ l <= Len(Tr) /\ Ev.e = "SortMx" /\ Step
           /\ Ev.col >= 0 /\ Ev.col < Ev.ncol
           /\ RowsOK(Ev.pre, Ev.ncol) /\ RowsOK(Ev.post, Ev.ncol)          \* the column count is kept
           /\ SortContract(Ev.pre, Ev.post, Ev.col + 1, Ev.rev = 1)
TSortVec == /\ l <= Len(Tr) /\ Ev.e = "SortVec" /\ Step
            /\ VecSortContract(Ev.pre, Ev.post)
TNext == TReset \/ TSortMx \/ TSortVec
TSpec == TInit /\ [][TNext]_l
TraceAccepted == Accepted
Diag == ShowCursor(l)
=============================================================================
