---- MODULE TraceRng ----
(* Trace specification for C06, on the real generator word values recorded through hook H1.  32-bit words    *)
(* are recorded as two 16-bit limbs <<hi, lo>> so that TLC can do exact arithmetic on them.                  *)
(*   Seed(w, s) : thread w entered srand_(s)                                                                 *)
(*   Wrote(w, v): thread w stored v into its generator word (srand_, or the write half of a draw)            *)
(*   Read(w, v) : thread w copied v out of the word (the read half of a draw)                               *)
(*   Clock(w)   : thread w read the wall clock inside the library (Rng.tla DoClock: a draw on a word nobody  *)
(*                seeded, or srand_(time(NULL)) in the two routines whose contract is a clock seed: Run.ts=1) *)
(*   Clear      : a new recorded run of the same case starts (thread numbering starts again)                 *)
(* StreamIsolation (Rng.tla) on real values: what a thread reads is what that same thread wrote last - the   *)
(* seeded stream consumed by one thread is never perturbed by another - and a thread only draws from a word  *)
(* it has seeded itself (NoClock).  Seq/Result: the result of the run under the forced schedule (or another   *)
(* thread count / a repeated run / a run on a fresh thread) is bit-identical to the reference.               *)
(* Implementation-shaped layer (PropOnly = FALSE): the stream of a thread is the stream its seed defines     *)
(* under the library's generator step RealGen (numeric.c generate_seed: 0x7AFB2C23 * s + 0x894C3 mod 2^32),   *)
(* i.e. srand_(s) stores RealGen(s) and every draw stores RealGen(word read); routines recorded with         *)
(* Run.co = 1 draw on the calling thread only.                                                              *)
EXTENDS TraceBase, Integers
CONSTANT PropOnly
Threads == 0..63
B16 == 65536
AH == 31483   \* 0x7AFB
AL == 11299   \* 0x2C23
CH == 8       \* 0x894C3 = 8 * 65536 + 38083
CL == 38083
RealGen(x) == LET h == x[1]
                  lo == x[2]
                  p0 == AL * lo
                  mid == (((AH * lo) % B16) + ((AL * h) % B16) + (p0 \div B16)) % B16
                  lo1 == (p0 % B16) + CL
                  hi1 == mid + CH + (lo1 \div B16)
              IN <<hi1 % B16, lo1 % B16>>
VARIABLES l, phase, last, has, pend, hasp, ref, nres, co, ts
tvars == <<l, phase, last, has, pend, hasp, ref, nres, co, ts>>
Ev == Tr[l]
Step == l' = l + 1
Clean == [w \in Threads |-> <<0, 0>>]
None == [w \in Threads |-> FALSE]
Pair(v) == <<v[1], v[2]>>
TInit == /\ l = 1 /\ phase = "idle" /\ last = Clean /\ has = None /\ pend = Clean /\ hasp = None
         /\ ref = <<0, 0, 0>> /\ nres = 0 /\ co = 0 /\ ts = 0
TReset == /\ l <= Len(Tr) /\ Ev.e = "Reset" /\ phase = "idle" /\ Step
          /\ last' = Clean /\ has' = None /\ pend' = Clean /\ hasp' = None /\ ref' = <<0, 0, 0>> /\ nres' = 0 /\ phase' = "reset"
          /\ co' = 0 /\ ts' = 0
TRun == /\ l <= Len(Tr) /\ Ev.e = "Run" /\ phase = "reset" /\ Step /\ phase' = "run"
        /\ co' = (IF Has(Ev, "co") THEN Ev.co ELSE 0) /\ ts' = (IF Has(Ev, "ts") THEN Ev.ts ELSE 0)
        /\ UNCHANGED <<last, has, pend, hasp, ref, nres>>
TSeq == /\ l <= Len(Tr) /\ Ev.e = "Seq" /\ phase = "run" /\ Step
        /\ ref' = <<Ev.h[1], Ev.h[2], Ev.h[3]>> /\ phase' = "rec" /\ UNCHANGED <<last, has, pend, hasp, nres, co, ts>>
TClear == /\ l <= Len(Tr) /\ Ev.e = "Clear" /\ phase = "rec" /\ Step
          /\ last' = Clean /\ has' = None /\ pend' = Clean /\ hasp' = None /\ UNCHANGED <<phase, ref, nres, co, ts>>
OnCaller(w) == PropOnly \/ co = 0 \/ w = 0
TSeed == /\ l <= Len(Tr) /\ Ev.e = "Seed" /\ phase = "rec" /\ Step
         /\ OnCaller(Ev.w)
         /\ pend' = [pend EXCEPT ![Ev.w] = RealGen(Pair(Ev.s))] /\ hasp' = [hasp EXCEPT ![Ev.w] = TRUE]
         /\ UNCHANGED <<phase, last, has, ref, nres, co, ts>>
TWrote == /\ l <= Len(Tr) /\ Ev.e = "Wrote" /\ phase = "rec" /\ Step
          /\ OnCaller(Ev.w)
          /\ (PropOnly \/ ~hasp[Ev.w] \/ Pair(Ev.v) = pend[Ev.w])     \* the stream is the one the seed defines
          /\ last' = [last EXCEPT ![Ev.w] = Pair(Ev.v)] /\ has' = [has EXCEPT ![Ev.w] = TRUE]
          /\ UNCHANGED <<phase, pend, hasp, ref, nres, co, ts>>
TRead == /\ l <= Len(Tr) /\ Ev.e = "Read" /\ phase = "rec" /\ Step
         /\ OnCaller(Ev.w)
         /\ has[Ev.w] /\ Pair(Ev.v) = last[Ev.w]                  \* StreamIsolation on the real word values
         /\ pend' = [pend EXCEPT ![Ev.w] = RealGen(Pair(Ev.v))] /\ hasp' = [hasp EXCEPT ![Ev.w] = TRUE]
         /\ UNCHANGED <<phase, last, has, ref, nres, co, ts>>
TClock == /\ l <= Len(Tr) /\ Ev.e = "Clock" /\ phase = "rec" /\ Step
          /\ ts = 1                                                 \* NoClock, unless a clock seed is the routine's contract
          /\ UNCHANGED <<phase, last, has, pend, hasp, ref, nres, co, ts>>
TResult == /\ l <= Len(Tr) /\ Ev.e = "Result" /\ phase = "rec" /\ Step
           /\ <<Ev.h[1], Ev.h[2], Ev.h[3]>> = ref               \* bit-identical to the sequential / reference run
           /\ nres' = nres + 1 /\ UNCHANGED <<phase, last, has, pend, hasp, ref, co, ts>>
\* implementation-shaped observation: the validation call leaves the caller's own seeded stream untouched
TCaller == /\ l <= Len(Tr) /\ Ev.e = "Caller" /\ phase = "rec" /\ Step /\ (PropOnly \/ Ev.same = 1)
           /\ UNCHANGED <<phase, last, has, pend, hasp, ref, nres, co, ts>>
TEnd == /\ l <= Len(Tr) /\ Ev.e = "End" /\ phase = "rec" /\ Step /\ nres >= 1
        /\ phase' = "idle" /\ UNCHANGED <<last, has, pend, hasp, ref, nres, co, ts>>
TNext == TReset \/ TRun \/ TSeq \/ TClear \/ TSeed \/ TWrote \/ TRead \/ TClock \/ TResult \/ TCaller \/ TEnd
TSpec == TInit /\ [][TNext]_tvars
TraceAccepted == Accepted
Diag == ShowCursor(l)
\* self-check of the limb arithmetic against known values of generate_seed (evaluated once by the ASSUME)
ASSUME RealGen(<<0, 0>>) = <<8, 38083>>
ASSUME RealGen(<<0, 1>>) = <<31491, 49382>>
====
