---- MODULE TraceRng ----
(* Trace specification for C06, on the real generator word values recorded through hook H1.                 *)
(*   Wrote(w, v): thread w stored v into its generator word (srand_, or the write half of a draw)            *)
(*   Read(w, v) : thread w copied v out of the word (the read half of a draw)                               *)
(* StreamIsolation (Rng.tla) on real values: what a thread reads is what that same thread wrote last - the   *)
(* seeded stream consumed by one thread is never perturbed by another.  Seq/Result: the result of the run    *)
(* under the forced schedule (or another thread count / a repeated run) is bit-identical to the reference.   *)
EXTENDS TraceBase, Integers
CONSTANT PropOnly
Threads == 0..63
VARIABLES l, phase, last, has, ref, nres
tvars == <<l, phase, last, has, ref, nres>>
Ev == Tr[l]
Step == l' = l + 1
Clean == [w \in Threads |-> ""]
TInit == l = 1 /\ phase = "idle" /\ last = Clean /\ has = [w \in Threads |-> FALSE] /\ ref = <<0, 0, 0>> /\ nres = 0
TReset == /\ l <= Len(Tr) /\ Ev.e = "Reset" /\ phase = "idle" /\ Step
          /\ last' = Clean /\ has' = [w \in Threads |-> FALSE] /\ ref' = <<0, 0, 0>> /\ nres' = 0 /\ phase' = "reset"
TRun == /\ l <= Len(Tr) /\ Ev.e = "Run" /\ phase = "reset" /\ Step /\ phase' = "run" /\ UNCHANGED <<last, has, ref, nres>>
TSeq == /\ l <= Len(Tr) /\ Ev.e = "Seq" /\ phase = "run" /\ Step
        /\ ref' = <<Ev.h[1], Ev.h[2], Ev.h[3]>> /\ phase' = "rec" /\ UNCHANGED <<last, has, nres>>
TWrote == /\ l <= Len(Tr) /\ Ev.e = "Wrote" /\ phase = "rec" /\ Step
          /\ last' = [last EXCEPT ![Ev.w] = Ev.v] /\ has' = [has EXCEPT ![Ev.w] = TRUE]
          /\ UNCHANGED <<phase, ref, nres>>
TRead == /\ l <= Len(Tr) /\ Ev.e = "Read" /\ phase = "rec" /\ Step
         /\ has[Ev.w] /\ Ev.v = last[Ev.w]                       \* StreamIsolation on the real word values
         /\ UNCHANGED <<phase, last, has, ref, nres>>
TResult == /\ l <= Len(Tr) /\ Ev.e = "Result" /\ phase = "rec" /\ Step
           /\ <<Ev.h[1], Ev.h[2], Ev.h[3]>> = ref               \* bit-identical to the sequential / reference run
           /\ nres' = nres + 1 /\ UNCHANGED <<phase, last, has, ref>>
\* implementation-shaped observation: the validation call leaves the caller's own seeded stream untouched
TCaller == /\ l <= Len(Tr) /\ Ev.e = "Caller" /\ phase = "rec" /\ Step /\ (PropOnly \/ Ev.same = 1)
           /\ UNCHANGED <<phase, last, has, ref, nres>>
TEnd == /\ l <= Len(Tr) /\ Ev.e = "End" /\ phase = "rec" /\ Step /\ nres >= 1
        /\ phase' = "idle" /\ UNCHANGED <<last, has, ref, nres>>
TNext == TReset \/ TRun \/ TSeq \/ TWrote \/ TRead \/ TResult \/ TCaller \/ TEnd
TSpec == TInit /\ [][TNext]_tvars
TraceAccepted == Accepted
Diag == ShowCursor(l)
====
