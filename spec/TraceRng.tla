---- MODULE TraceRng ----
(* Trace specification for C06, on the real generator word values recorded through hook H1.  32-bit words    *)
(* are recorded as two 16-bit limbs <<hi, lo>> so that TLC can do exact arithmetic on them.                  *)
(*   Seed(w, s) : thread w entered srand_(s)                                                                 *)
(*   Wrote(w, v): thread w stored v into its generator word (srand_, or the write half of a draw)            *)
(*   Read(w, v) : thread w copied v out of the word (the read half of a draw)                               *)
(*   Clock(w)   : thread w read the wall clock inside the library (Rng.tla DoClock: a draw on a word nobody  *)
(*                seeded, or srand_(time(NULL)) in the two routines whose contract is a clock seed: Run.ts=1) *)
(*   Clear      : a new recorded run of the same case starts (thread numbering starts again)                 *)
(* StreamIsolation (Rng.tla) on real values: what a thread reads is what that same thread wrote last - the   *)
(* seeded stream consumed by one thread is never perturbed by another - and a thread only draws from a word  *)
(* it has seeded itself (NoClock).  Seq/Result: the result of the run under the forced schedule (or another   *)
(* thread count / a repeated run / a run on a fresh thread) is bit-identical to the reference.               *)
(* Implementation-shaped layer (PropOnly = FALSE): the stream of a thread is the stream its seed defines     *)
(* under the library's generator step RealGen (numeric.c generate_seed: 0x7AFB2C23 * s + 0x894C3 mod 2^32),   *)
(* i.e. srand_(s) stores RealGen(s) and every draw stores RealGen(word read); routines recorded with         *)
(* Run.co = 1 draw on the calling thread only.                                                              *)
(* Added in round 3:                                                                                          *)
(*   Result.nth/rep/dq : "bit-identical between repeated runs, equal to rounding across thread counts": a run *)
(*                with the thread count of an earlier run of the block must repeat its hash exactly; a run    *)
(*                with another thread count than the reference must have the reference hash, or (property     *)
(*                layer only - the merge order of CvOrch.tla makes the code bit-identical today) differ from   *)
(*                it by at most TolRound(m) relative to the largest reference magnitude, m = merged terms      *)
(*   Result.libc : number of calls the library made into libc's process-wide generator / clocks (rand, srand, *)
(*                random, drand48, gettimeofday, clock ... interposed by the harness): shared mutable state    *)
(*                outside the seeded stream - must be 0                                                        *)
(*   Race(var, ..): a data race reported by ThreadSanitizer on the real CV routines (hooks off), attributed to *)
(*                a state class of RngState.tla: accepted only on state the model does not speak about         *)
(*   Create(th, it, seed): hook H5 at the creation of a bootstrap worker; implementation layer: the seed is    *)
(*                base + th + it with base fixed for the call (CvOrch.tla seed offsets), so the seeds of a     *)
(*                call with a dividing thread count are base .. base + iterations - 1, each once              *)
EXTENDS TraceBase, Integers, RngState
CONSTANT PropOnly
Threads == 0..63
B16 == 65536
AH == 31483   \* 0x7AFB
AL == 11299   \* 0x2C23
CH == 8       \* 0x894C3 = 8 * 65536 + 38083
CL == 38083
RealGen(x) == LET h == x[1]
                  lo == x[2]
                  p0 == AL * lo
                  mid == (((AH * lo) % B16) + ((AL * h) % B16) + (p0 \div B16)) % B16
                  lo1 == (p0 % B16) + CL
                  hi1 == mid + CH + (lo1 \div B16)
              IN <<hi1 % B16, lo1 % B16>>
VARIABLES l, phase, last, has, pend, hasp, ref, nres, co, ts, first, hasf, refn, terms, sbase, seeds
tvars == <<l, phase, last, has, pend, hasp, ref, nres, co, ts, first, hasf, refn, terms, sbase, seeds>>
r3vars == <<first, hasf, refn, terms, sbase, seeds>>
Counts == 0..64
NoHash == [n \in Counts |-> <<0, 0, 0>>]
NoCount == [n \in Counts |-> FALSE]
\* "equal to rounding": relative difference (units of 1e-12 of the largest reference magnitude) a re-ordered sum of m terms may show
TolRound(m) == 2 + m
Ev == Tr[l]
Step == l' = l + 1
Clean == [w \in Threads |-> <<0, 0>>]
None == [w \in Threads |-> FALSE]
Pair(v) == <<v[1], v[2]>>
TInit == /\ l = 1 /\ phase = "idle" /\ last = Clean /\ has = None /\ pend = Clean /\ hasp = None
         /\ ref = <<0, 0, 0>> /\ nres = 0 /\ co = 0 /\ ts = 0
         /\ first = NoHash /\ hasf = NoCount /\ refn = 1 /\ terms = 0 /\ sbase = -1 /\ seeds = {}
TReset == /\ l <= Len(Tr) /\ Ev.e = "Reset" /\ phase = "idle" /\ Step
          /\ last' = Clean /\ has' = None /\ pend' = Clean /\ hasp' = None /\ ref' = <<0, 0, 0>> /\ nres' = 0 /\ phase' = "reset"
          /\ co' = 0 /\ ts' = 0
          /\ first' = NoHash /\ hasf' = NoCount /\ refn' = 1 /\ terms' = 0 /\ sbase' = -1 /\ seeds' = {}
TRun == /\ l <= Len(Tr) /\ Ev.e = "Run" /\ phase = "reset" /\ Step /\ phase' = "run"
        /\ co' = (IF Has(Ev, "co") THEN Ev.co ELSE 0) /\ ts' = (IF Has(Ev, "ts") THEN Ev.ts ELSE 0)
        /\ terms' = (IF Has(Ev, "nw") THEN Ev.nw ELSE 0)
        /\ UNCHANGED <<last, has, pend, hasp, ref, nres, first, hasf, refn, sbase, seeds>>
TSeq == /\ l <= Len(Tr) /\ Ev.e = "Seq" /\ phase = "run" /\ Step
        /\ ref' = <<Ev.h[1], Ev.h[2], Ev.h[3]>> /\ phase' = "rec" /\ UNCHANGED <<last, has, pend, hasp, nres, co, ts>>
        /\ refn' = (IF Has(Ev, "nth") THEN Ev.nth ELSE 1)
        /\ first' = [NoHash EXCEPT ![refn'] = ref'] /\ hasf' = [NoCount EXCEPT ![refn'] = TRUE]
        /\ UNCHANGED <<terms, sbase, seeds>>
TClear == /\ l <= Len(Tr) /\ Ev.e = "Clear" /\ phase = "rec" /\ Step
          /\ last' = Clean /\ has' = None /\ pend' = Clean /\ hasp' = None /\ UNCHANGED <<phase, ref, nres, co, ts>>
          /\ sbase' = -1 /\ seeds' = {} /\ UNCHANGED <<first, hasf, refn, terms>>
OnCaller(w) == PropOnly \/ co = 0 \/ w = 0
TSeed == /\ l <= Len(Tr) /\ Ev.e = "Seed" /\ phase = "rec" /\ Step
         /\ OnCaller(Ev.w)
         /\ pend' = [pend EXCEPT ![Ev.w] = RealGen(Pair(Ev.s))] /\ hasp' = [hasp EXCEPT ![Ev.w] = TRUE]
         /\ UNCHANGED <<phase, last, has, ref, nres, co, ts>> /\ UNCHANGED r3vars
TWrote == /\ l <= Len(Tr) /\ Ev.e = "Wrote" /\ phase = "rec" /\ Step
          /\ OnCaller(Ev.w)
          /\ (PropOnly \/ ~hasp[Ev.w] \/ Pair(Ev.v) = pend[Ev.w])     \* the stream is the one the seed defines
          /\ last' = [last EXCEPT ![Ev.w] = Pair(Ev.v)] /\ has' = [has EXCEPT ![Ev.w] = TRUE]
          /\ UNCHANGED <<phase, pend, hasp, ref, nres, co, ts>> /\ UNCHANGED r3vars
TRead == /\ l <= Len(Tr) /\ Ev.e = "Read" /\ phase = "rec" /\ Step
         /\ OnCaller(Ev.w)
         /\ has[Ev.w] /\ Pair(Ev.v) = last[Ev.w]                  \* StreamIsolation on the real word values
         /\ pend' = [pend EXCEPT ![Ev.w] = RealGen(Pair(Ev.v))] /\ hasp' = [hasp EXCEPT ![Ev.w] = TRUE]
         /\ UNCHANGED <<phase, last, has, ref, nres, co, ts>> /\ UNCHANGED r3vars
TClock == /\ l <= Len(Tr) /\ Ev.e = "Clock" /\ phase = "rec" /\ Step
          /\ ts = 1                                                 \* NoClock, unless a clock seed is the routine's contract
          /\ UNCHANGED <<phase, last, has, pend, hasp, ref, nres, co, ts>> /\ UNCHANGED r3vars
HashOf(ev) == <<ev.h[1], ev.h[2], ev.h[3]>>
NthOf(ev) == IF Has(ev, "nth") /\ ev.nth \in Counts THEN ev.nth ELSE 0
\* equal to rounding across thread counts (only a run with ANOTHER thread count than the reference may use it)
Rounding(ev) == Has(ev, "dq") /\ NthOf(ev) # 0 /\ NthOf(ev) # refn /\ ev.dq >= 0 /\ ev.dq <= TolRound(terms)
TResult == /\ l <= Len(Tr) /\ Ev.e = "Result" /\ phase = "rec" /\ Step
           /\ \/ HashOf(Ev) = ref                              \* bit-identical to the sequential / reference run
              \/ PropOnly /\ Rounding(Ev)                      \* ... or, across thread counts, equal to rounding
           /\ (hasf[NthOf(Ev)] /\ NthOf(Ev) # 0) => HashOf(Ev) = first[NthOf(Ev)]   \* bit-identical between repeated runs with one thread count
           /\ (Has(Ev, "libc") => Ev.libc = 0)                  \* no draw from libc's process-wide generator, no clock besides time()
           /\ first' = (IF NthOf(Ev) # 0 /\ ~hasf[NthOf(Ev)] THEN [first EXCEPT ![NthOf(Ev)] = HashOf(Ev)] ELSE first)
           /\ hasf' = (IF NthOf(Ev) # 0 THEN [hasf EXCEPT ![NthOf(Ev)] = TRUE] ELSE hasf)
           /\ nres' = nres + 1 /\ UNCHANGED <<phase, last, has, pend, hasp, ref, co, ts, refn, terms, sbase, seeds>>
\* a data race ThreadSanitizer reported on the real routines: only on state the model does not speak about (RngState.tla)
TRace == /\ l <= Len(Tr) /\ Ev.e = "Race" /\ phase = "rec" /\ Step
         /\ Ev.var \in RaceClasses /\ RaceCompatible(Ev.var)
         /\ UNCHANGED <<phase, last, has, pend, hasp, ref, nres, co, ts>> /\ UNCHANGED r3vars
\* hook H5: a bootstrap worker is created with seed offset th + it (implementation layer: the formula is not promised by the statement)
TCreate == /\ l <= Len(Tr) /\ Ev.e = "Create" /\ phase = "rec" /\ Step
           /\ LET b == Ev.seed - Ev.th - Ev.it
              IN /\ (PropOnly \/ (b >= 0 /\ (sbase = -1 \/ b = sbase) /\ Ev.seed \notin seeds))
                 /\ sbase' = (IF sbase = -1 THEN b ELSE sbase)
           /\ seeds' = seeds \cup {Ev.seed}
           /\ UNCHANGED <<phase, last, has, pend, hasp, ref, nres, co, ts, first, hasf, refn, terms>>
\* end of one call of the bootstrap CV with a dividing thread count: the seeds were base .. base + iterations - 1, each once
TCalled == /\ l <= Len(Tr) /\ Ev.e = "Called" /\ phase = "rec" /\ Step
           /\ (PropOnly \/ Ev.iters % Ev.nth # 0 \/ seeds = {sbase + i : i \in 0..(Ev.iters - 1)})
           /\ sbase' = -1 /\ seeds' = {}
           /\ UNCHANGED <<phase, last, has, pend, hasp, ref, nres, co, ts, first, hasf, refn, terms>>
\* implementation-shaped observation: the validation call leaves the caller's own seeded stream untouched
TCaller == /\ l <= Len(Tr) /\ Ev.e = "Caller" /\ phase = "rec" /\ Step /\ (PropOnly \/ Ev.same = 1)
           /\ UNCHANGED <<phase, last, has, pend, hasp, ref, nres, co, ts>> /\ UNCHANGED r3vars
TEnd == /\ l <= Len(Tr) /\ Ev.e = "End" /\ phase = "rec" /\ Step /\ nres >= 1
        /\ phase' = "idle" /\ UNCHANGED <<last, has, pend, hasp, ref, nres, co, ts>> /\ UNCHANGED r3vars
TNext == TReset \/ TRun \/ TSeq \/ TClear \/ TSeed \/ TWrote \/ TRead \/ TClock \/ TResult \/ TCaller \/ TEnd \/ TRace \/ TCreate \/ TCalled
TSpec == TInit /\ [][TNext]_tvars
TraceAccepted == Accepted
Diag == ShowCursor(l)
\* self-check of the limb arithmetic against known values of generate_seed (evaluated once by the ASSUME)
ASSUME RealGen(<<0, 0>>) = <<8, 38083>>
ASSUME RealGen(<<0, 1>>) = <<31491, 49382>>
====
