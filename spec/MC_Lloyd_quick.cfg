\* the repaired loop: every returned result satisfies C17's k-means clause exactly; cost monotone; no cap without restarts
SPECIFICATION Spec
CONSTANTS
  NPts = 3
  Dim = 2
  Grid = 2
  KMax = 3
  DistinctStart = FALSE
  IterCap = 8
  Variant = "dowhile"
  Off = 0
  SExp = 0
INVARIANT TypeOK
INVARIANT PostHolds
INVARIANT CostMonotone
INVARIANT CapNeedsRestart
INVARIANT StopIsFixedPoint
CHECK_DEADLOCK FALSE
