SPECIFICATION MSpec
CONSTANTS
  MaxRows = 3
  MaxThreads = 2
  MaxCond = 3
  MaxCalls = 2
  KernSet = {"lab", "mxv", "vxm", "dist", "cond"}
  GuardBeforeResize = TRUE
  CallerZeroes = TRUE
INVARIANT WriteOnce
INVARIANT InBounds
INVARIANT DoneIsDef
INVARIANT NeedsZero
CHECK_DEADLOCK FALSE
