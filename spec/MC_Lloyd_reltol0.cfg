\* the same change on data at the origin: indistinguishable (PostHolds holds) - why the untranslated classes missed it
SPECIFICATION Spec
CONSTANTS
  NPts = 3
  Dim = 2
  Grid = 2
  KMax = 3
  DistinctStart = TRUE
  IterCap = 8
  Variant = "reltol"
  Off = 0
  SExp = 0
INVARIANT TypeOK
INVARIANT PostHolds
CHECK_DEADLOCK FALSE
