---- MODULE Affine ----
(* C17, input classes K3 (location) and K4 (magnitude).                                                        *)
(* The conformance driver hands the library the matrix  a_ij = off_j + x_ij * 10^sexp  where x is an INTEGER    *)
(* point set in general position, off_j an integer column offset (0, +-1e3, +-1e5, +-1e6) and sexp a decimal   *)
(* scale exponent (-6..6).  The trace carries x, off and sexp; everything TLC decides is decided on x, and the *)
(* tolerances below are FUNCTIONS OF (x, off, sexp): how far the double-precision image of the ideal data can   *)
(* be from the ideal, in the units in which the residual is logged.  Nothing here depends on the k-means       *)
(* convergence tolerance, which the statement of C17 fixes as the ABSOLUTE number 1e-3 on centroid coordinates. *)
EXTENDS Integers, Sequences, FiniteSets

Abs(a) == IF a < 0 THEN -a ELSE a
MaxOf(S) == CHOOSE m \in S : \A y \in S : y <= m
MinOf(S) == CHOOSE m \in S : \A y \in S : m <= y
RECURSIVE Pow10(_)
Pow10(k) == IF k <= 0 THEN 1 ELSE 10 * Pow10(k - 1)

MaxAbsX(P) == MaxOf({Abs(P[i][j]) : i \in 1..Len(P), j \in 1..Len(P[1])})
ColRange(P, j) == MaxOf({P[i][j] : i \in 1..Len(P)}) - MinOf({P[i][j] : i \in 1..Len(P)})
RangeMax(P) == MaxOf({ColRange(P, j) : j \in 1..Len(P[1])} \cup {1})        \* >= 1 (distinct rows differ in some column)
OffMax(off) == MaxOf({Abs(off[j]) : j \in 1..Len(off)} \cup {0})
IsAffine(off, sexp) == OffMax(off) # 0 \/ sexp # 0

(* what the driver may generate (everything below stays inside 32-bit integers) *)
AffineAdmissible(P, off, sexp) ==
  /\ sexp \in -6..6
  /\ Len(off) = Len(P[1])
  /\ OffMax(off) <= 1000000
  /\ sexp < 0 => OffMax(off) <= 1000000000 \div Pow10(-sexp)
  /\ sexp >= 0 => MaxAbsX(P) <= (2000000000 - OffMax(off)) \div Pow10(sexp)

(* largest |coordinate| of the matrix the library sees, in units of the logged integer points (|a| / 10^sexp) ... *)
MagOverScale(P, off, sexp) == IF sexp >= 0 THEN OffMax(off) \div Pow10(sexp) + 1 + MaxAbsX(P)
                              ELSE OffMax(off) * Pow10(-sexp) + MaxAbsX(P)
(* ... and in absolute units *)
MagAbs(P, off, sexp) == IF sexp >= 0 THEN OffMax(off) + MaxAbsX(P) * Pow10(sexp)
                        ELSE OffMax(off) + MaxAbsX(P) \div Pow10(-sexp) + 1

(* one double-precision rounding (2^-52 relative) of a coordinate of magnitude mos, in 1e-9 units of the logged points *)
RepX9(mos) == mos \div 4000000 + 1
(* centroid * count against the exact member sum: every member is rounded once (cnt roundings), the running sum of     *)
(* magnitude <= cnt * mos is rounded cnt times (cnt * cnt), the division and the driver's own back-transformation a few *)
(* times more.  1e-9 units of the logged points; <= 1.8e6 = 0.0018 of one unit for 80 objects a million units away at a *)
(* thousandth of a unit resolution - far below the 0.5 that would make the rounded integer ambiguous                  *)
TolMeanAff(cnt, mos) == cnt * (cnt + 8) * RepX9(mos) + 1

(* nearest-centroid slack, 1e-6 ABSOLUTE units: the documented tolerance enters through EpsUnits only; this term is the *)
(* representability of the translated coordinates (distances are differences of stored doubles of magnitude mabs)      *)
RepSlack6(mabs, dim) == 2 + ((mabs \div 1000) * dim) \div 100000
SlackWithin(slack, dim, eps, rep) == LET s == IF slack > rep THEN slack - rep ELSE 0 IN s * s <= 4 * dim * eps * eps

(* first pick of the max-min selections on translated data: distances to the centroid are logged on a scale on which the *)
(* largest is 1e9; the centroid of the stored doubles carries (objects + 1) roundings of magnitude mos per coordinate,   *)
(* the largest distance is at least half the widest column range rng:  3 (objects + 4) mos 2^-52 * 1e9 * 2 / rng          *)
FirstTolQ(nobj, mos, rng) == 2 + ((nobj + 4) * (mos \div 1000 + 1)) \div (750 * rng)
FirstOkQ(c, seq, tol) == \A j \in 1..Len(c) : c[j] <= c[seq[1]] + tol

(* translated tie-rich grid sets stay in the exact mode (TLC recomputes every distance from x): only with exactly        *)
(* representable data (sexp >= 0) and when the smallest non-zero gap between two centroid distances, 1 / (2 n^2 D) in   *)
(* units of x with D <= sqrt(dim) (rng + 1), is far above the rounding noise sqrt(dim) (n + 4) mos 2^-52:               *)
(*   4 dim (n + 4) n^2 (rng + 1) mos < 2^52   is implied by the two 32-bit conditions below                             *)
ExactAffineOk(P, off, sexp) == /\ sexp >= 0
                               /\ 4 * Len(P[1]) * (Len(P) + 4) * Len(P) * Len(P) * (RangeMax(P) + 1) <= 1048576
                               /\ MagOverScale(P, off, sexp) <= 1073741824
====
