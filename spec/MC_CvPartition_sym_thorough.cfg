SPECIFICATION Spec
CONSTANTS
  MaxN = 30
VIEW SymView
INVARIANT Partition
INVARIANT NoDupEver
INVARIANT SplitsSound
INVARIANT TestSizesSumToN
INVARIANT EveryObjectOnce
INVARIANT CounterBounded
INVARIANT UnplacedUntouched
