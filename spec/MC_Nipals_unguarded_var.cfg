SPECIFICATION FairSpec
CONSTANTS
  MaxRank = 3
  MaxNpc = 5
  MaxIter = 3
  Guarded = FALSE
  Sites = {"CPCA"}
INVARIANT BeyondRankZero
CHECK_DEADLOCK FALSE
