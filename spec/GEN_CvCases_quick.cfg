SPECIFICATION GSpec
CONSTANTS
  Tier = "quick"
CONSTRAINT Emit
