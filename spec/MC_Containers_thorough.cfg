\* C14 (M), thorough tier, matrix family. lib/checks/c14.py writes one such file per container family from its MC_THOROUGH
\* table (Kinds / MaxDim / Vals / Depth differ per family: dv uv iv sv dl mx tn) and runs them concurrently.
SPECIFICATION Spec
CONSTANTS
  Pool = {"a", "b"}
  MaxDim = 2
  Vals = {0, 1, 2}
  Kinds = {"mx"}
  Depth = 6
VIEW View
INVARIANT Shape
INVARIANT TypeOK
INVARIANT DeadIsEmpty
INVARIANT KindsOff
INVARIANT DepthBound
PROPERTY GuardLaw
PROPERTY FrameLaw
PROPERTY OorLaw
PROPERTY CopyLaw
PROPERTY GrowthLaw
PROPERTY ShrinkLaw
CHECK_DEADLOCK FALSE
