---- MODULE TraceSelect ----
(* Trace specification for C17.  One Reset-delimited block per point set.                                  *)
(*   Points {X[][], exact, off[], sexp}   integer coordinates x; the matrix handed to the library is         *)
(*                                        a_ij = off_j + x_ij * 10^sexp  (classes K3 / K4, Affine.tla);      *)
(*                                        exact = 1: TLC recomputes every distance from x                    *)
(*   Ranks  {metric, R[][], c[]}          dense ranks of the pairwise distances as the library defines them  *)
(*                                        (metric 0 Euclidean, 1 Manhattan, 2 cosine) and of the distances   *)
(*                                        to the centroid; exact = 1 and metric < 2: checked against X.      *)
(*                                        Translated / scaled data: c = the centroid distances of the stored *)
(*                                        doubles on a scale on which the largest is 1e9                     *)
(*   Sel    {method, metric, n, th, seq[]} selection returned by MDC / MaxDis / MaxDis_Fast / KMeansppCenters *)
(*                                        (objects numbered from 1; 0 = not a valid object number)           *)
(*   Km     {k, init, th, labels[], cnt[], cnum[][], cerr, cres[], slack, conv, reuse}   one KMeans() result *)
(*   KmTh   {k, init, th, same}           labels and centroids bit-identical to the one-thread run           *)
(*   KmRe   {k, init, same}               the same call into outputs already sized for another k: identical  *)
(*   Hist   {same}                        class K7: a point set run again after another shape in the same    *)
(*                                        process returned exactly what it returned the first time          *)
(* Prop* = what C17 states; Impl* = the code's lowest-index tie-break, determinism under reuse / history     *)
(* (switched off by PropOnly).                                                                               *)
EXTENDS Select, TraceBase
CONSTANTS PropOnly,
          TolExact,      \* 1e-12 units: centroid * count is an integer sum                  1000 = 1e-9
          EpsUnits       \* documented k-means convergence tolerance 1e-3 in units of 1e-6   1000
VARIABLES l, st
tvars == <<phase, X, n, metric, l, st>>
Ev == Tr[l]
NoRanks == [m \in 0..2 |-> <<>>]
St0 == [exact |-> 0, R |-> NoRanks, c |-> <<>>, prev |-> [metric |-> -1, n |-> 0, seq |-> <<>>],
        aff |-> 0, mos |-> 0, mabs |-> 0, rng |-> 1]

TInit == l = 1 /\ phase = "trace" /\ X = <<>> /\ n = 0 /\ metric = 0 /\ st = St0
Step == l' = l + 1
Keep == UNCHANGED <<phase, n, metric>>

TReset == /\ l <= Len(Tr) /\ Ev.e = "Reset" /\ Step /\ Keep /\ X' = <<>> /\ st' = St0

\* the affine class is derived from the logged offsets and scale exponent, never from a flag
EvAff == Has(Ev, "off") /\ Has(Ev, "sexp") /\ IsAffine(Ev.off, Ev.sexp)
TPoints == /\ l <= Len(Tr) /\ Ev.e = "Points" /\ Step /\ Keep
           /\ Len(Ev.X) >= 1
           /\ X' = Ev.X
           /\ EvAff => /\ AffineAdmissible(Ev.X, Ev.off, Ev.sexp)
                       /\ Ev.exact = 1 => ExactAffineOk(Ev.X, Ev.off, Ev.sexp)
           /\ st' = IF EvAff THEN [St0 EXCEPT !.exact = Ev.exact, !.aff = 1,
                                              !.mos = MagOverScale(Ev.X, Ev.off, Ev.sexp),
                                              !.mabs = MagAbs(Ev.X, Ev.off, Ev.sexp),
                                              !.rng = RangeMax(Ev.X)]
                    ELSE [St0 EXCEPT !.exact = Ev.exact]

\* logged distance ranks; where TLC can recompute the distances the ranks must code them faithfully
TRanks == /\ l <= Len(Tr) /\ Ev.e = "Ranks" /\ Step /\ Keep /\ UNCHANGED X
          /\ Ev.metric \in 0..2
          /\ Len(Ev.R) = Len(X) /\ Len(Ev.c) = Len(X)
          /\ (st.exact = 1 /\ Ev.metric < 2) =>
               /\ RanksFaithful(Ev.metric, X, Ev.R)
               /\ \A i, j \in 1..Len(X) : (C2(X, i) < C2(X, j)) <=> (Ev.c[i] < Ev.c[j])
          /\ st' = [st EXCEPT !.R = [@ EXCEPT ![Ev.metric] = Ev.R], !.c = Ev.c]

IsMaxMin(ev) == ev.method \in {"MaxDis", "MaxDis_Fast"}
UseX(ev) == st.exact = 1 /\ ev.metric < 2
\* first pick: an object farthest from the centroid.  Translated / scaled data in rank mode: within the representability
\* tolerance FirstTolQ (a function of the logged offsets, scale and ranges) of the largest logged centroid distance
PropFirst(ev) == IF UseX(ev) THEN FirstOk(X, ev.seq)
                 ELSE IF st.aff = 1 THEN FirstOkQ(st.c, ev.seq, FirstTolQ(Len(X), st.mos, st.rng))
                 ELSE FirstOkR(st.c, ev.seq)
PropGreedy(ev) == IF UseX(ev) THEN GreedyOk(ev.metric, X, ev.seq) ELSE GreedyOkR(st.R[ev.metric], ev.seq)
\* both implementations return the same sequence (MaxDis is logged first, the MaxDis_Fast runs follow it)
PropAgree(ev) == ev.method = "MaxDis_Fast" => (st.prev.metric = ev.metric /\ st.prev.n = ev.n /\ st.prev.seq = ev.seq)
\* the code's tie-break from the second pick on (the first pick compares rounded square roots: no Impl claim)
ImplTie(ev) == \/ PropOnly
               \/ (IF UseX(ev) THEN LowestTie(ev.metric, X, ev.seq) ELSE LowestTieR(st.R[ev.metric], ev.seq))
TSel == /\ l <= Len(Tr) /\ Ev.e = "Sel" /\ Step /\ Keep /\ UNCHANGED X
        /\ Ev.n \in 1..Len(X)                                   \* requests outside 1..objects are never generated
        /\ Valid(Ev.seq, Len(X), Ev.n)
        /\ IsMaxMin(Ev) => (PropFirst(Ev) /\ PropGreedy(Ev) /\ PropAgree(Ev) /\ ImplTie(Ev))
        /\ st' = IF Ev.method = "MaxDis" THEN [st EXCEPT !.prev = [metric |-> Ev.metric, n |-> Ev.n, seq |-> Ev.seq]] ELSE st

\* k-means: labels in range, centroid = mean of its members (exact on integer data), nearest centroid up to the
\* documented tolerance: the centroids moved < 1e-3 per coordinate in the last step, so
\*   d(x, c_label) <= min_c d(x, c) + 2 sqrt(dim) 1e-3   (only claimed when the run converged before the iteration cap)
\* The 1e-3 is ABSOLUTE (EpsUnits, in the units of the matrix the library sees) whatever the location and the magnitude of
\* the data; translated / scaled data only add the representability terms of Affine.tla.
MeanResidualOk == IF st.aff = 1 THEN \A c \in 1..Ev.k : Ev.cnt[c] > 0 => Ev.cres[c] <= TolMeanAff(Ev.cnt[c], st.mos)
                  ELSE Ev.cerr <= TolExact
NearestOk == IF st.aff = 1 THEN SlackWithin(Ev.slack, Len(X[1]), EpsUnits, RepSlack6(st.mabs, Len(X[1])))
             ELSE Ev.slack * Ev.slack <= 4 * Len(X[1]) * EpsUnits * EpsUnits
TKm == /\ l <= Len(Tr) /\ Ev.e = "Km" /\ Step /\ Keep /\ UNCHANGED <<X, st>>
       /\ Ev.k \in 1..Len(X)
       /\ Len(Ev.labels) = Len(X)
       /\ LabelsInRange(Ev.labels, Ev.k)
       /\ Len(Ev.cnt) = Ev.k /\ Len(Ev.cnum) = Ev.k
       /\ CentroidIsMean(X, Ev.labels, Ev.k, Ev.cnt, Ev.cnum)
       /\ st.aff = 1 => Len(Ev.cres) = Ev.k
       /\ MeanResidualOk
       /\ Ev.conv = 1 => NearestOk

TKmTh == /\ l <= Len(Tr) /\ Ev.e = "KmTh" /\ Step /\ Keep /\ UNCHANGED <<X, st>>
         /\ Ev.same = 1

\* class K7 (Impl layer: the statement is about every single result, which the Km events of these runs are held to)
TKmRe == /\ l <= Len(Tr) /\ Ev.e = "KmRe" /\ Step /\ Keep /\ UNCHANGED <<X, st>>
         /\ PropOnly \/ Ev.same = 1
THist == /\ l <= Len(Tr) /\ Ev.e = "Hist" /\ Step /\ Keep /\ UNCHANGED <<X, st>>
         /\ PropOnly \/ Ev.same = 1

TNext == TReset \/ TPoints \/ TRanks \/ TSel \/ TKm \/ TKmTh \/ TKmRe \/ THist
TSpec == TInit /\ [][TNext]_tvars
TraceAccepted == Accepted
Diag == ShowCursor(l)
====
