---- MODULE TraceSelect ----
(* Trace specification for C17.  One Reset-delimited block per point set.                                  *)
(*   Points {X[][], exact}                integer coordinates; exact = 1: TLC recomputes every distance      *)
(*   Ranks  {metric, R[][], c[]}          dense ranks of the pairwise distances as the library defines them  *)
(*                                        (metric 0 Euclidean, 1 Manhattan, 2 cosine) and of the distances   *)
(*                                        to the centroid; exact = 1 and metric < 2: checked against X       *)
(*   Sel    {method, metric, n, th, seq[]} selection returned by MDC / MaxDis / MaxDis_Fast / KMeansppCenters *)
(*                                        (objects numbered from 1; 0 = not a valid object number)           *)
(*   Km     {k, init, th, labels[], cnt[], cnum[][], cerr, slack, conv}   one KMeans() result               *)
(*   KmTh   {k, init, th, same}           labels and centroids bit-identical to the one-thread run           *)
(* Prop* = what C17 states; Impl* = the code's lowest-index tie-break (switched off by PropOnly).            *)
EXTENDS Select, TraceBase
CONSTANTS PropOnly,
          TolExact,      \* 1e-12 units: centroid * count is an integer sum                  1000 = 1e-9
          EpsUnits       \* documented k-means convergence tolerance 1e-3 in units of 1e-6   1000
VARIABLES l, st
tvars == <<phase, X, n, metric, l, st>>
Ev == Tr[l]
NoRanks == [m \in 0..2 |-> <<>>]
St0 == [exact |-> 0, R |-> NoRanks, c |-> <<>>, prev |-> [metric |-> -1, n |-> 0, seq |-> <<>>]]

TInit == l = 1 /\ phase = "trace" /\ X = <<>> /\ n = 0 /\ metric = 0 /\ st = St0
Step == l' = l + 1
Keep == UNCHANGED <<phase, n, metric>>

TReset == /\ l <= Len(Tr) /\ Ev.e = "Reset" /\ Step /\ Keep /\ X' = <<>> /\ st' = St0

TPoints == /\ l <= Len(Tr) /\ Ev.e = "Points" /\ Step /\ Keep
           /\ Len(Ev.X) >= 1
           /\ X' = Ev.X
           /\ st' = [St0 EXCEPT !.exact = Ev.exact]

\* logged distance ranks; where TLC can recompute the distances the ranks must code them faithfully
TRanks == /\ l <= Len(Tr) /\ Ev.e = "Ranks" /\ Step /\ Keep /\ UNCHANGED X
          /\ Ev.metric \in 0..2
          /\ Len(Ev.R) = Len(X) /\ Len(Ev.c) = Len(X)
          /\ (st.exact = 1 /\ Ev.metric < 2) =>
               /\ RanksFaithful(Ev.metric, X, Ev.R)
               /\ \A i, j \in 1..Len(X) : (C2(X, i) < C2(X, j)) <=> (Ev.c[i] < Ev.c[j])
          /\ st' = [st EXCEPT !.R = [@ EXCEPT ![Ev.metric] = Ev.R], !.c = Ev.c]

IsMaxMin(ev) == ev.method \in {"MaxDis", "MaxDis_Fast"}
UseX(ev) == st.exact = 1 /\ ev.metric < 2
PropFirst(ev) == IF UseX(ev) THEN FirstOk(X, ev.seq) ELSE FirstOkR(st.c, ev.seq)
PropGreedy(ev) == IF UseX(ev) THEN GreedyOk(ev.metric, X, ev.seq) ELSE GreedyOkR(st.R[ev.metric], ev.seq)
\* both implementations return the same sequence (MaxDis is logged first, the MaxDis_Fast runs follow it)
PropAgree(ev) == ev.method = "MaxDis_Fast" => (st.prev.metric = ev.metric /\ st.prev.n = ev.n /\ st.prev.seq = ev.seq)
\* the code's tie-break from the second pick on (the first pick compares rounded square roots: no Impl claim)
ImplTie(ev) == \/ PropOnly
               \/ (IF UseX(ev) THEN LowestTie(ev.metric, X, ev.seq) ELSE LowestTieR(st.R[ev.metric], ev.seq))
TSel == /\ l <= Len(Tr) /\ Ev.e = "Sel" /\ Step /\ Keep /\ UNCHANGED X
        /\ Ev.n \in 1..Len(X)                                   \* requests outside 1..objects are never generated
        /\ Valid(Ev.seq, Len(X), Ev.n)
        /\ IsMaxMin(Ev) => (PropFirst(Ev) /\ PropGreedy(Ev) /\ PropAgree(Ev) /\ ImplTie(Ev))
        /\ st' = IF Ev.method = "MaxDis" THEN [st EXCEPT !.prev = [metric |-> Ev.metric, n |-> Ev.n, seq |-> Ev.seq]] ELSE st

\* k-means: labels in range, centroid = mean of its members (exact on integer data), nearest centroid up to the
\* documented tolerance: the centroids moved < 1e-3 per coordinate in the last step, so
\*   d(x, c_label) <= min_c d(x, c) + 2 sqrt(dim) 1e-3   (only claimed when the run converged before the iteration cap)
TKm == /\ l <= Len(Tr) /\ Ev.e = "Km" /\ Step /\ Keep /\ UNCHANGED <<X, st>>
       /\ Ev.k \in 1..Len(X)
       /\ Len(Ev.labels) = Len(X)
       /\ LabelsInRange(Ev.labels, Ev.k)
       /\ Len(Ev.cnt) = Ev.k /\ Len(Ev.cnum) = Ev.k
       /\ CentroidIsMean(X, Ev.labels, Ev.k, Ev.cnt, Ev.cnum)
       /\ Ev.cerr <= TolExact
       /\ Ev.conv = 1 => Ev.slack * Ev.slack <= 4 * Len(X[1]) * EpsUnits * EpsUnits

TKmTh == /\ l <= Len(Tr) /\ Ev.e = "KmTh" /\ Step /\ Keep /\ UNCHANGED <<X, st>>
         /\ Ev.same = 1

TNext == TReset \/ TPoints \/ TRanks \/ TSel \/ TKm \/ TKmTh
TSpec == TInit /\ [][TNext]_tvars
TraceAccepted == Accepted
Diag == ShowCursor(l)
====
