SPECIFICATION Spec
CONSTANTS
  Shapes = {21, 31, 41, 51, 22}
  Variants = {0}
  TypeCodes = {0, 1, 2, 3, 4, 5, 6}
  ModX = 1
  ResX = 0
  Mod = 1
  Res = 0
  MaxMissing = 1
INVARIANT Theorems
CHECK_DEADLOCK FALSE
