---- MODULE TraceSpline ----
(* Trace specification for the spline / trapezoid half of C19 (everything here is the property layer: the      *)
(* events carry what the real library returned, projected by the harness; there is no implementation-shaped   *)
(* layer).                                                                                                  *)
(*   replay blocks   Knots{nk,xs,E}, then per evaluation point Piece{t2,chosen[]} and Val{t2,err}, then Area    *)
(*     - the polynomial piece that reproduces the returned value must be a piece whose interval holds the      *)
(*       point: chosen \cap PieceOfSeq(xs, t2) # {}  (PieceOfSeq from Spline.tla, recomputed by TLC)           *)
(*     - the returned value agrees with TLC's exact rational value within TolVal (relative, 1e-12 units)       *)
(*     - curve_area equals the exact trapezoid sum and is additive within TolArea                             *)
(*   ledger events   Ledger{nk,dec,irr,interp,c1,c2,nat,lin,unit,lookup}, Interp{np,dims,mono,val,first,ends,lin},  *)
(*                   AreaL{nk,dec,exact,add}                                                                  *)
(*     - 3..40 knots, spacing decades -4..4; every residual inside TolLedger, no wrong piece                   *)
(*   SESSIONS (harness/c19_cls.c; in-process histories K7 and the input classes K2 K3 K4 K5 K8):              *)
(*     SReset{srow,scol,orow,ocol}   a new coefficient table / interpolate() output (possibly already sized)   *)
(*     SFit{nk,prev,rows,cols,hd[],xe,line,...residuals}   one fit INTO THE SESSION'S TABLE: the table the      *)
(*        call found (prev rows) must be the table the previous call left (history is bound to the trace);     *)
(*        after the call it has exactly nk-1 rows of 5 columns WHATEVER it held before, and every clause of    *)
(*        the property is judged again.  Tolerances are FUNCTIONS of the logged input: the spacing decades     *)
(*        hd[] give Span (decades between the smallest and the largest spacing of the knot set: the          *)
(*        amplification of the natural spline), hd[] and xe give Rep (decades between max|x| and the smallest  *)
(*        spacing: what one ulp of an abscissa means in units of a spacing).                                   *)
(*     SInt{np,prow,pcol,rows,cols,...}   interpolate() INTO THE SESSION'S OUTPUT (prow x pcol before)           *)
(*     SArea{exact,add,addb}              trapezoid area: exact, additive at vertices and BETWEEN vertices      *)
(*     Sent{piece,last,found,err}         a query at which the spline takes the value of the library's        *)
(*                                        MISSING code (99999999) in a piece that is not the last one          *)
(*   OUTSIDE the statement (deviations are EXTRA-FINDINGs, never verdicts):                                    *)
(*     XArea{hd,xe,one,two,samp,desc}     curve_area(xy, np > 0), descending abscissae                         *)
(*     Extrap{lok,rok,fin}                evaluation left / right of the knot range continues the end piece    *)
EXTENDS Spline, TraceBase
CONSTANTS TolVal, TolArea, TolLedger
VARIABLES l, xs, sc,
          ses                               \* session state: [srow, scol, orow, ocol] = shapes the session's objects have NOW, cur = class of the last fit
tvars == <<l, xs, sc, ses, x, y>>           \* x, y: the model's own case variables, unused while validating traces
Ev == Tr[l]
Step == l' = l + 1 /\ UNCHANGED <<x, y>>
IsEv(name) == l <= Len(Tr) /\ Ev.e = name
NoSes == [srow |-> 0, scol |-> 0, orow |-> 0, ocol |-> 0, nk |-> 0, span |-> 0, rep |-> 0, line |-> 0]
TInit == l = 1 /\ xs = <<0, 1, 2>> /\ sc = 0 /\ ses = NoSes /\ x = [i \in 0..n |-> i] /\ y = [i \in 0..n |-> 0]

Increasing(s) == \A i \in 1..(Len(s) - 1) : s[i] < s[i+1]
TKnots == /\ IsEv("Knots") /\ Step /\ Len(Ev.xs) = Ev.nk /\ Ev.nk >= 3 /\ Increasing(Ev.xs)
          /\ Ev.rows = Ev.nk - 1                                   \* one row of coefficients per piece
          /\ xs' = Ev.xs /\ sc' = Ev.E /\ UNCHANGED ses
TPiece == /\ IsEv("Piece") /\ Step /\ Ev.E = sc /\ UNCHANGED <<xs, sc, ses>>
          /\ \E k \in 1..Len(Ev.chosen) : Ev.chosen[k] \in PieceOfSeq(xs, Ev.t2)
TVal == /\ IsEv("Val") /\ Step /\ Ev.E = sc /\ UNCHANGED <<xs, sc, ses>>
        /\ Ev.err \in 0..TolVal
TArea == /\ IsEv("Area") /\ Step /\ Ev.E = sc /\ UNCHANGED <<xs, sc, ses>>
         /\ Ev.err \in 0..TolArea /\ Ev.add \in 0..TolArea
TLedger == /\ IsEv("Ledger") /\ Step /\ UNCHANGED <<xs, sc, ses>>
           /\ Ev.nk \in 3..40 /\ Ev.dec \in (-4)..4
           /\ Ev.lookup = 0
           /\ Ev.interp \in 0..TolLedger /\ Ev.c1 \in 0..TolLedger /\ Ev.c2 \in 0..TolLedger
           /\ Ev.nat \in 0..TolLedger /\ Ev.lin \in 0..TolLedger /\ Ev.unit \in 0..TolLedger
           /\ Ev.ord \in 0..TolLedger              \* the value at an abscissa does not depend on the other queries of the call or their order
\* interpolate(xy, np, out): np rows (x, spline(x)), abscissae strictly increasing from the first to the last knot, every value the value
\* the two-call form returns at that abscissa, the first data point reproduced, straight lines reproduced
TInterp == /\ IsEv("Interp") /\ Step /\ UNCHANGED <<xs, sc, ses>>
           /\ Ev.np >= 2 /\ Ev.dims = 1 /\ Ev.mono = 1
           /\ Ev.val \in 0..TolLedger /\ Ev.first \in 0..TolLedger /\ Ev.ends \in 0..TolLedger /\ Ev.lin \in 0..TolLedger
TAreaL == /\ IsEv("AreaL") /\ Step /\ UNCHANGED <<xs, sc, ses>>
          /\ Ev.exact \in 0..TolArea /\ Ev.add \in 0..TolArea

\* ---------------------------------------------------------------- sessions
\* tolerance functions of the LOGGED INPUT (1e-12 units).  hd[i] = floor(log10 h_i) in -4..4, xe = ceil(log10 max|x|)
RECURSIVE P10(_)
P10(k) == IF k <= 0 THEN 1 ELSE 10 * P10(k - 1)
MaxOf(s) == CHOOSE v \in {s[i] : i \in 1..Len(s)} : \A i \in 1..Len(s) : s[i] <= v
MinOf(s) == CHOOSE v \in {s[i] : i \in 1..Len(s)} : \A i \in 1..Len(s) : s[i] >= v
SpanOf(hd) == MaxOf(hd) - MinOf(hd)                  \* 0..8: hmax/hmin < 10^(Span+1)
RepOf(hd, xe) == xe - MinOf(hd)                      \* max|x| / hmin <= 10^Rep
Max2(a, b) == IF a > b THEN a ELSE b
\* amplification: a natural spline through knots whose spacings differ by 10^(Span+1) has polynomial terms up to that factor larger than
\* the ordinates; a double carries 1.1e-16 of the largest term.  Span <= 2 is every class the ledger had before (uniform, irregular inside
\* a decade, across two decades): the tolerance there is TolLedger, unchanged.  (calibrated on 72,000 fits of the unchanged tree:
\* worst observed / TolAmp = 0.0081 at Span 7, 0.0009 at Span 6)
TolAmp(span) == IF span <= 2 THEN TolLedger ELSE Max2(TolLedger, P10(span))            \* = 10^(Span+1) / 10; P10 stays below 2^31 (Span <= 8)
\* representability: one ulp of an abscissa is 1.1e-16 * 10^Rep spacings; the value moves by at most the same fraction of an ordinate
\* difference (x 10 for the slope): 1e-12 units -> 10^(Rep+1) / 1000
TolRep(rep, span) == TolAmp(span) + (IF rep >= 2 THEN P10(IF rep > 11 THEN 9 ELSE rep - 2) ELSE 0)    \* = 10^(Rep+1) / 1000, capped at 1e9 (32-bit integers)
\* unit change by a factor that is NOT a power of two (1000): every knot moves by up to an ulp, i.e. 10^Rep * 1.1e-16 spacings, amplified;
\* beyond 10^11 the comparison says nothing (the exact rescaling by 1024, unit2, carries the clause there)
UnitJudged(rep, span) == rep + span + 1 <= 11
TolUnit(rep, span) == IF UnitJudged(rep, span) THEN Max2(TolLedger, P10(rep + span - 2)) ELSE 2000000000    \* = 10^(Rep+Span+1) / 1000

TSReset == /\ IsEv("Reset") /\ Step /\ UNCHANGED <<xs, sc>>
           /\ ses' = [NoSes EXCEPT !.srow = Ev.srow, !.scol = Ev.scol, !.orow = Ev.orow, !.ocol = Ev.ocol]
\* history class of a fit, from what the table held before (0 rows = fresh)
HistS(prev, nk) == IF prev = 0 THEN "fresh" ELSE IF prev > nk - 1 THEN "shrink" ELSE IF prev < nk - 1 THEN "grow" ELSE "same"
TSFit == /\ IsEv("SFit") /\ Step /\ UNCHANGED <<xs, sc>>
         /\ Ev.nk \in 3..40 /\ Len(Ev.hd) = Ev.nk - 1 /\ \A i \in 1..Len(Ev.hd) : Ev.hd[i] \in (-4)..4        \* inside the quantifier
         /\ Ev.prev = ses.srow                                      \* the table this call found is the table the last call left
         /\ HistS(Ev.prev, Ev.nk) \in {"fresh", "shrink", "grow", "same"}
         /\ Ev.rows = Ev.nk - 1 /\ Ev.cols = 5                      \* one row per piece, whatever the table held before
         /\ Ev.lookup = 0 /\ Ev.ulpw = 0                            \* every returned value is the value of a piece that holds the abscissa
         /\ LET sp == SpanOf(Ev.hd)  rp == RepOf(Ev.hd, Ev.xe) IN
            /\ Ev.interp \in 0..TolAmp(sp)                          \* passes through every point
            /\ Ev.c1 \in 0..TolAmp(sp) /\ Ev.c2 \in 0..TolAmp(sp)   \* C1, C2 at interior knots
            /\ Ev.nat \in 0..TolAmp(sp)                             \* zero second derivative at both ends
            /\ Ev.ord \in 0..TolLedger                              \* independent of the other queries of the call
            /\ Ev.unit2 \in 0..TolAmp(sp)                           \* units of x (exact rescaling)
            /\ (UnitJudged(rp, sp) => Ev.unit \in 0..TolUnit(rp, sp))    \* units of x (factor 1000)
            /\ (Ev.line = 1 => Ev.lin \in 0..TolAmp(sp))            \* straight lines reproduced
            /\ Ev.ulpv \in 0..TolRep(rp, sp)                        \* continuity one ulp beside every knot
            /\ ses' = [ses EXCEPT !.srow = Ev.rows, !.scol = Ev.cols, !.nk = Ev.nk, !.span = sp, !.rep = rp, !.line = Ev.line]
TSInt == /\ IsEv("SInt") /\ Step /\ UNCHANGED <<xs, sc>>
         /\ Ev.nk = ses.nk /\ Ev.np >= 2
         /\ Ev.prow = ses.orow /\ Ev.pcol = ses.ocol                \* the output this call found is the one the last call left
         /\ Ev.rows = Ev.np /\ Ev.cols = 2 /\ Ev.mono = 1
         /\ Ev.val \in 0..TolAmp(ses.span) /\ Ev.first \in 0..TolAmp(ses.span)
         /\ Ev.ends \in 0..TolRep(ses.rep, ses.span)
         /\ (ses.line = 1 => Ev.lin \in 0..TolAmp(ses.span))
         /\ ses' = [ses EXCEPT !.orow = Ev.rows, !.ocol = Ev.cols]
TSArea == /\ IsEv("SArea") /\ Step /\ UNCHANGED <<xs, sc, ses>>
          /\ Ev.exact \in 0..TolArea /\ Ev.add \in 0..TolArea /\ Ev.addb \in 0..TolArea
\* the value of MISSING is an ordinary ordinate value for a curve: the piece that holds the abscissa decides
TSent == /\ IsEv("Sent") /\ Step /\ UNCHANGED <<xs, sc, ses>>
         /\ Ev.piece < Ev.last
         /\ (Ev.found = 1 => Ev.err \in 0..TolVal)
\* ---- outside the statement
TXArea == /\ IsEv("XArea") /\ Step /\ UNCHANGED <<xs, sc, ses>>
          /\ Ev.one = 0                                             \* one sample point: no trapezoid
          /\ Ev.two \in 0..TolRep(RepOf(Ev.hd, Ev.xe), SpanOf(Ev.hd))   \* two sample points: the chord trapezoid
          /\ Ev.samp \in 0..TolArea                                 \* np sample points: trapezoid sum of interpolate(xy, np)
          /\ Ev.desc \in 0..TolArea                                 \* descending abscissae: the signed integral changes sign
TExtrap == /\ IsEv("Extrap") /\ Step /\ UNCHANGED <<xs, sc, ses>>
           /\ Ev.fin = 1 /\ Ev.lok = 1 /\ Ev.rok = 1
TNext == \/ TKnots \/ TPiece \/ TVal \/ TArea \/ TLedger \/ TInterp \/ TAreaL
         \/ TSReset \/ TSFit \/ TSInt \/ TSArea \/ TSent \/ TXArea \/ TExtrap
TSpec == TInit /\ [][TNext]_tvars
TraceAccepted == Accepted
Diag == ShowCursor(l)
====
