---- MODULE TraceSpline ----
(* Trace specification for the spline / trapezoid half of C19 (everything here is the property layer: the      *)
(* events carry what the real library returned, projected by the harness; there is no implementation-shaped   *)
(* layer).                                                                                                  *)
(*   replay blocks   Knots{nk,xs,E}, then per evaluation point Piece{t2,chosen[]} and Val{t2,err}, then Area    *)
(*     - the polynomial piece that reproduces the returned value must be a piece whose interval holds the      *)
(*       point: chosen \cap PieceOfSeq(xs, t2) # {}  (PieceOfSeq from Spline.tla, recomputed by TLC)           *)
(*     - the returned value agrees with TLC's exact rational value within TolVal (relative, 1e-12 units)       *)
(*     - curve_area equals the exact trapezoid sum and is additive within TolArea                             *)
(*   ledger events   Ledger{nk,dec,irr,interp,c1,c2,nat,lin,unit,lookup}, Interp{np,dims,mono,val,first,ends,lin},  *)
(*                   AreaL{nk,dec,exact,add}                                                                  *)
(*     - 3..40 knots, spacing decades -4..4; every residual inside TolLedger, no wrong piece                   *)
EXTENDS Spline, TraceBase
CONSTANTS TolVal, TolArea, TolLedger
VARIABLES l, xs, sc
tvars == <<l, xs, sc, x, y>>                \* x, y: the model's own case variables, unused while validating traces
Ev == Tr[l]
Step == l' = l + 1 /\ UNCHANGED <<x, y>>
IsEv(name) == l <= Len(Tr) /\ Ev.e = name
TInit == l = 1 /\ xs = <<0, 1, 2>> /\ sc = 0 /\ x = [i \in 0..n |-> i] /\ y = [i \in 0..n |-> 0]

Increasing(s) == \A i \in 1..(Len(s) - 1) : s[i] < s[i+1]
TKnots == /\ IsEv("Knots") /\ Step /\ Len(Ev.xs) = Ev.nk /\ Ev.nk >= 3 /\ Increasing(Ev.xs)
          /\ Ev.rows = Ev.nk - 1                                   \* one row of coefficients per piece
          /\ xs' = Ev.xs /\ sc' = Ev.E
TPiece == /\ IsEv("Piece") /\ Step /\ Ev.E = sc /\ UNCHANGED <<xs, sc>>
          /\ \E k \in 1..Len(Ev.chosen) : Ev.chosen[k] \in PieceOfSeq(xs, Ev.t2)
TVal == /\ IsEv("Val") /\ Step /\ Ev.E = sc /\ UNCHANGED <<xs, sc>>
        /\ Ev.err \in 0..TolVal
TArea == /\ IsEv("Area") /\ Step /\ Ev.E = sc /\ UNCHANGED <<xs, sc>>
         /\ Ev.err \in 0..TolArea /\ Ev.add \in 0..TolArea
TLedger == /\ IsEv("Ledger") /\ Step /\ UNCHANGED <<xs, sc>>
           /\ Ev.nk \in 3..40 /\ Ev.dec \in (-4)..4
           /\ Ev.lookup = 0
           /\ Ev.interp \in 0..TolLedger /\ Ev.c1 \in 0..TolLedger /\ Ev.c2 \in 0..TolLedger
           /\ Ev.nat \in 0..TolLedger /\ Ev.lin \in 0..TolLedger /\ Ev.unit \in 0..TolLedger
           /\ Ev.ord \in 0..TolLedger              \* the value at an abscissa does not depend on the other queries of the call or their order
\* interpolate(xy, np, out): np rows (x, spline(x)), abscissae strictly increasing from the first to the last knot, every value the value
\* the two-call form returns at that abscissa, the first data point reproduced, straight lines reproduced
TInterp == /\ IsEv("Interp") /\ Step /\ UNCHANGED <<xs, sc>>
           /\ Ev.np >= 2 /\ Ev.dims = 1 /\ Ev.mono = 1
           /\ Ev.val \in 0..TolLedger /\ Ev.first \in 0..TolLedger /\ Ev.ends \in 0..TolLedger /\ Ev.lin \in 0..TolLedger
TAreaL == /\ IsEv("AreaL") /\ Step /\ UNCHANGED <<xs, sc>>
          /\ Ev.exact \in 0..TolArea /\ Ev.add \in 0..TolArea
TNext == TKnots \/ TPiece \/ TVal \/ TArea \/ TLedger \/ TInterp \/ TAreaL
TSpec == TInit /\ [][TNext]_tvars
TraceAccepted == Accepted
Diag == ShowCursor(l)
====
