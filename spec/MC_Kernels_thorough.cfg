SPECIFICATION Spec
CONSTANTS
  KernelSet = {"MatrixDotProduct", "MatVec", "VecMat", "Outer", "Transpose", "Trace", "Norm", "ColStats", "Covariance", "DVector", "Tensor", "Sort", "DVector2", "MatMaps", "DescStat", "DescStatMiss", "Correl", "Division"}
  RSet = {0, 1, 2, 3, 4, 5, 6, 7, 8, 9, 10, 11, 12, 13, 14, 15, 16, 17}
  KSet = {0, 1, 2, 3, 4, 5, 6, 7, 8, 9, 10, 11, 12, 13, 14, 15, 16, 17}
  CSet = {0, 1, 2, 3, 4, 5, 6, 7, 8, 9, 10, 11, 12, 13, 14, 15, 16, 17}
  XRC = {1, 2, 5}
  XK = {31, 32, 33, 63, 64, 65}
  DSet = {0, 1, 2, 3, 4, 5, 6, 7, 8, 9, 10, 11, 12, 13, 14, 15, 16, 17}
  BSet = {31, 32, 33, 63, 64, 65}
  SliceSet = {1, 2, 3, 4}
  SortCols = {1, 2, 3, 4}
  ESet = {0, 1, 2, 3, 4, 5, 6, 7, 8, 9, 10, 11, 12, 13, 14, 15, 16, 17}
  SeedSet = {0, 1, 2}
  DoEmit = TRUE
INVARIANT LawProductTranspose
INVARIANT LawDistributive
INVARIANT LawTraceCyclic
INVARIANT LawShapes
INVARIANT LawInvolution
INVARIANT LawMatVec
INVARIANT LawVecMat
INVARIANT LawOuter
INVARIANT LawTrace
INVARIANT LawNorm
INVARIANT LawCovariance
INVARIANT LawColStats
INVARIANT LawTensor
INVARIANT LawSort
INVARIANT LawVecDiffSum
INVARIANT LawOrderStats
INVARIANT LawUnitNorm
INVARIANT LawMaps
INVARIANT LawArgExt
INVARIANT LawDescStat
INVARIANT LawDescStatMiss
INVARIANT LawCorrel
INVARIANT LawDivision
INVARIANT LawTensor2
CONSTRAINT EmitCase
CHECK_DEADLOCK FALSE
