\* C14: every step of the history generator is a step of the model-checked relation (and keeps the laws).
\* Run with  -simulate num=N -depth 40 -workers 1.
SPECIFICATION GenSpec
CONSTANTS
  Pool = {"a", "b", "c"}
  MaxDim = 3
  Vals = {0, 1}
  Kinds = {"dv", "uv", "iv", "sv", "mx", "tn", "dl"}
  Depth = 40
INVARIANT Shape
INVARIANT TypeOK
INVARIANT DeadIsEmpty
PROPERTY GenRefinesNext
PROPERTY GuardLaw
PROPERTY FrameLaw
PROPERTY OorLaw
PROPERTY CopyLaw
PROPERTY GrowthLaw
PROPERTY ShrinkLaw
CHECK_DEADLOCK FALSE
