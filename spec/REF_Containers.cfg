\* C14: every step of the history generator is a step of the model-checked relation (and keeps the laws).
\* Run with  -simulate num=N -depth 40 -workers 1.  (lib/checks/c14.py writes this file per run; the switches
\* "neg" (signed value codes), "self" (self-copies), "long" (255..257-character strings) are all on.)
SPECIFICATION GenSpec
CONSTANTS
  Pool = {"a", "b", "c"}
  MaxDim = 3
  Vals = {0, 1}
  Kinds = {"dv", "uv", "iv", "sv", "mx", "tn", "dl", "neg", "self", "long"}
  Depth = 40
INVARIANT Shape
INVARIANT TypeOK
INVARIANT DeadIsEmpty
PROPERTY GenRefinesNext
PROPERTY GuardLaw
PROPERTY FrameLaw
PROPERTY OorLaw
PROPERTY ReadOnlyLaw
PROPERTY CopyLaw
PROPERTY GrowthLaw
PROPERTY ShrinkLaw
PROPERTY SortLaw
PROPERTY ExtendLaw
PROPERTY ResizeLaw
CHECK_DEADLOCK FALSE
