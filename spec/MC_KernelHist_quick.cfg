SPECIFICATION MSpec
CONSTANTS
  NSlot = 3
  PropOnly = FALSE
  MCFns = {"MatrixDotProduct", "MatrixTranspose", "DVectorTrasposedDVectorDotProduct", "MatrixColAverage"}
  MCShapes = {1, 2}
  MCMax = 2
INVARIANT TypeOK
INVARIANT ZeroContract
INVARIANT NoHiddenState
INVARIANT Idempotent
INVARIANT AccumulateTwice
CHECK_DEADLOCK FALSE
