SPECIFICATION Spec
CONSTANTS
  NW = 4
  K = 1
  PerThread = TRUE
  Shape = "seedDraw"
CONSTRAINT Emit
CHECK_DEADLOCK FALSE
