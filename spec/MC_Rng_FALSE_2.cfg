SPECIFICATION Spec
CONSTANTS
  NW = 2
  K = 2
  PerThread = FALSE
  Shape = "seedDraw"
INVARIANT StreamIsolation
CHECK_DEADLOCK FALSE
