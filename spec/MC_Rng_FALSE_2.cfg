SPECIFICATION Spec
CONSTANTS
  NW = 2
  K = 2
  PerThread = FALSE
INVARIANT StreamIsolation
CHECK_DEADLOCK FALSE
