SPECIFICATION GenSpec
CONSTANTS
  Paths = {"p1", "p2"}
  MaxHist = 4
  DropTables = TRUE
  SaveAll = TRUE
  ReadBlock = 0
  SizeSet = {1, 2, 3}
  Rewrites = FALSE
  Shape = "reuse"
  Reuse = "appends"
CONSTRAINT Emit
CHECK_DEADLOCK FALSE
