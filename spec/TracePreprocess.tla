---- MODULE TracePreprocess ----
(* Trace specification for C10 (validate direction, code -> spec).  harness/c10_trace.c runs MatrixPreprocess /    *)
(* TensorPreprocess on matrices 2..60 x 1..20 whose cells are (piv_j + d_ij) * 2^-e with integer d (|d| <= 400),   *)
(* integer pivots piv_j (offsets up to 1e6 in real units) and MISSING cells, and logs per column the integer data   *)
(* and what the library returned, projected onto integers:                                                      *)
(*    s1   = round((avg/u - piv) * N)              must be S1(d)            (stored average = S1/N exactly)      *)
(*    sc   = round(scale^p / u^q * den)           must be the numerator of the exact statistic (see ScaleClaim)  *)
(*    cn_i = round(t_i * scale / u * N)           must be N d_i - S1       (transformed cell * scale = x - mean)   *)
(* each with the distance of the double value from that integer (absolute in 1e-9 units: s1r, ra, cnr; relative in 1e-12: rr).  TLC recomputes  *)
(* the exact statistics from d with the operators of Preprocess.tla and compares integers exactly; the residuals  *)
(* are bounded by 1e-9 relative plus the cancellation slack of forming x - mean in double (~1e-15 * |piv| * N).     *)
(* All numbers stay inside 32 bits: N <= 60, |d| <= 400 gives N*S2 <= 5.8e8; the pivot is never multiplied except  *)
(* for RMS scaling, whose columns are generated with |piv| <= 4000 (sum of raw squares <= 1.2e9).                 *)
(* Prop* conjuncts are what the property states; Impl* conjuncts describe incidental behaviour of the present     *)
(* code (value left in the transformed matrix at a MISSING cell) and are disabled by PropOnly.                    *)
EXTENDS Preprocess, TraceBase
CONSTANT PropOnly
VARIABLE l
tvars == <<X, v, type, l>>
Ev == Tr[l]
Step == l' = l + 1
Keep == UNCHANGED <<X, v, type>>
AbsI(a) == IF a < 0 THEN -a ELSE a

TInit == l = 1 /\ X = <<>> /\ v = 0 /\ type = 0

\* a new matrix
TReset == /\ l <= Len(Tr) /\ Ev.e = "Reset" /\ Step
          /\ X' = <<>> /\ v' = 0 /\ type' = Ev.type

\* a column: integer data d, pivot piv.  X holds the current column, v the pivot
TCol == /\ l <= Len(Tr) /\ Ev.e = "Col" /\ Step
        /\ X' = Ev.d /\ v' = Ev.piv /\ type' = Ev.type
        /\ Nn(Ev.d) >= 2

\* cancellation slack in units of 1e-9 of a quantity of the form (double near piv) - piv, times N
Cancel(n) == ((AbsI(v) \div 1000) * n) \div 1000 + 1000
\* (every action binds st == Stats(X) once: TLC does not memoise operator applications)
\* exact statistic behind the stored scaling, as the integer the harness projects onto
RawS2(st) == st.S2 + 2 * v * st.S1 + st.N * v * v            \* sum (piv + d)^2 ; only for RMS columns (|piv| <= 4000)
ScaleClaim(st) == CASE type = 1 -> st.SSD                    \* sdev^2  * N(N-1) / u^2
                    [] type = 2 -> RawS2(st)                 \* rms^2   * N      / u^2
                    [] type = 3 -> st.SSD                    \* scale^4 * N(N-1) / u^2   (Pareto: scale = sqrt(sdev))
                    [] type = 4 -> st.range                  \* range / u
                    [] type = 5 -> st.S1                     \* (mean / u - piv) * N
                    [] OTHER    -> 1                         \* centring only: scaling stored as 1
\* the column's exact scale is 0 (no spread, resp. zero RMS / zero mean): the transform must be exactly 0
ExactZero(st) == CASE type \in {1, 3} -> st.SSD = 0
                   [] type = 2 -> AbsI(v) <= 4000 /\ RawS2(st) = 0
                   [] type = 4 -> st.range = 0
                   [] type = 5 -> AbsI(v) <= 1000000 /\ v * st.N + st.S1 = 0
                   [] OTHER -> FALSE

\* stored average
TAvg == /\ l <= Len(Tr) /\ Ev.e = "Avg" /\ Step /\ Keep
        /\ LET st == Stats(X) IN
           /\ Ev.s1 = st.S1
           /\ Ev.s1r <= AbsI(st.S1) + Cancel(st.N)

\* stored scaling, through the power at which it is rational
TScale == /\ l <= Len(Tr) /\ Ev.e = "Scale" /\ Step /\ Keep
          /\ LET st == Stats(X) claim == ScaleClaim(st) IN
             /\ Ev.sc = claim
             /\ IF type = 5 THEN Ev.ra <= AbsI(st.S1) + Cancel(st.N)       \* absolute, 1e-9 units (mean: cancellation against the pivot)
                            ELSE Ev.rr <= 1000 * Pw(type)                 \* relative, 1e-12 units: 1e-9 per power
             /\ (type \in {1, 2, 3, 4} /\ ~ExactZero(st)) => Ev.pos = 1

\* transformed training cells
TCells == /\ l <= Len(Tr) /\ Ev.e = "Cells" /\ Step /\ Keep
          /\ Ev.fin = 1
          /\ LET st == Stats(X) IN
             IF ExactZero(st) THEN Ev.zero = 1
             ELSE /\ Ev.cn = SeqOf(LAMBDA i : IF X[i] = MISSING THEN 0 ELSE st.N * X[i] - st.S1, Len(X))
                  /\ Ev.cnr <= 2 * st.N * 800 + Cancel(st.N)              \* |N d - S1| <= 2 * N * 400
          /\ (PropOnly \/ Ev.mz = 1)                                      \* Impl: a MISSING cell is left at 0 by the fit

\* stored transform applied to the training matrix reproduces the training transform (relative difference, 1e-12 units)
TSame == /\ l <= Len(Tr) /\ Ev.e = "Same" /\ Step /\ Keep
         /\ Ev.q <= 1000

\* stored transform applied to new rows: the same affine map
TNew == /\ l <= Len(Tr) /\ Ev.e = "New" /\ Step /\ Keep
        /\ Ev.fin = 1
        /\ LET st == Stats(X) IN
           IF ExactZero(st) THEN Ev.zero = 1
           ELSE /\ Ev.cn = SeqOf(LAMBDA k : st.N * Ev.ny[k] - st.S1, Len(Ev.ny))
                /\ Ev.cnr <= 2 * st.N * 1600 + Cancel(st.N)

\* option -1 copies; tensor = block by block (bitwise comparison done by the harness, flag checked here)
TCopy == /\ l <= Len(Tr) /\ Ev.e = "Copy" /\ Step /\ Keep /\ Ev.equal = 1
TTensor == /\ l <= Len(Tr) /\ Ev.e = "Tensor" /\ Step /\ Keep /\ Ev.equal = 1

TNext == TReset \/ TCol \/ TAvg \/ TScale \/ TCells \/ TSame \/ TNew \/ TCopy \/ TTensor
TSpec == TInit /\ [][TNext]_tvars
TraceAccepted == Accepted
Diag == ShowCursor(l)
====
