---- MODULE TracePreprocess ----
(* Trace specification for C10 (validate direction, code -> spec).  harness/c10_trace.c runs MatrixPreprocess /    *)
(* TensorPreprocess and the column-statistic routines on matrices 2..60 x 1..20 whose cells are                    *)
(* (piv_j + d_ij) * 2^-e / q with integer d (|d| <= 400), integer pivots piv_j (offsets up to 1e6 in real units),   *)
(* e in {-20,-10,0,4,10} and q = 1 (dyadic grid, every cell and every column sum exact in double) or                *)
(* q in {10, 3, 1000, 7, 49, ...} with e = 0 (class K5: cells NOT representable, sum/n one ulp off), and MISSING    *)
(* cells, and logs per column the integer data and what the library returned, projected onto integers (u = unit):   *)
(*    s1   = round((avg/u - piv) * N)              must be S1(d)            (stored average = S1/N exactly)      *)
(*    sc   = round(scale^p / u^q * den)           must be the numerator of the exact statistic (see ScaleClaim)  *)
(*    cn_i = round(t_i * scale / u * N)           must be N d_i - S1       (transformed cell * scale = x - mean)   *)
(* each with the distance of the double value from that integer (absolute in 1e-9 units: s1r, ra, cnr; relative in 1e-12: rr).  TLC recomputes  *)
(* the exact statistics from d with the operators of Preprocess.tla and compares integers exactly; the residuals  *)
(* are bounded by 1e-9 relative plus the cancellation slack of forming x - mean in double (~1e-15 * |piv| * N).     *)
(* Columns on a non-dyadic grid (uq # 1) additionally get the rounding slack of PrepRound.tla, a function of the    *)
(* logged N, piv and spread (it vanishes with the offset); dyadic columns keep the original tolerances unchanged.  *)
(* A column whose exact scale is 0 must come out as exact zeros on every grid: the recorded bit patterns are        *)
(* summarised by zero (all present cells are +-0.0), nz (number of cells that are not) and tmax (largest |t|).      *)
(* All numbers stay inside 32 bits: N <= 60, |d| <= 400 gives N*S2 <= 5.8e8; the pivot is never multiplied except  *)
(* for RMS scaling, whose columns are generated with |piv| <= 4000 (sum of raw squares <= 1.2e9).                 *)
(* Prop* conjuncts are what the property states; Impl* conjuncts describe incidental behaviour of the present     *)
(* code (value left in the transformed matrix at a MISSING cell, bitwise repeatability of a refit) and are         *)
(* disabled by PropOnly.                                                                                           *)
(* Stat, DegCol and Deg events cover behaviour the property's statement does not state (the column-statistic        *)
(* routines called directly, incl. MatrixColVar; columns with fewer than two present cells): the runner reports     *)
(* their rejection as EXTRA-FINDING, never as a violation.                                                         *)
EXTENDS Preprocess, PrepRound, TraceBase
CONSTANT PropOnly
VARIABLES l,
          uq        \* denominator q of the unit of the current column (1 = dyadic grid)
tvars == <<X, v, type, l, uq>>
Ev == Tr[l]
Step == l' = l + 1
Keep == UNCHANGED <<X, v, type, uq>>
AbsI(a) == IF a < 0 THEN -a ELSE a

TInit == l = 1 /\ X = <<>> /\ v = 0 /\ type = 0 /\ uq = 1

\* a new matrix
TReset == /\ l <= Len(Tr) /\ Ev.e = "Reset" /\ Step
          /\ X' = <<>> /\ v' = 0 /\ type' = Ev.type /\ uq' = 1

\* a column: integer data d, pivot piv, unit denominator den.  X holds the current column, v the pivot
TCol == /\ l <= Len(Tr) /\ Ev.e = "Col" /\ Step
        /\ X' = Ev.d /\ v' = Ev.piv /\ type' = Ev.type /\ uq' = Ev.den
        /\ Ev.den >= 1
        /\ Nn(Ev.d) >= 2

\* cancellation slack in units of 1e-9 of a quantity of the form (double near piv) - piv, times N
Cancel(n) == ((AbsI(v) \div 1000) * n) \div 1000 + 1000
\* the same for a column on a non-dyadic grid: input rounding and the rounding of the running sum enter (PrepRound.tla)
IsQ == uq # 1
MQ == AbsI(v) + 800                                        \* bound on |piv + d_i| and |piv + new row| in units
CancelOf(n) == IF IsQ THEN CancelQ(MQ, n) ELSE Cancel(n)
\* SA = sum |N d_i - S1| over the present cells: what the input rounding of a spread statistic is proportional to
RECURSIVE SAbsIdx(_, _, _)
SAbsIdx(x, st, k) == IF k = 0 THEN 0 ELSE (IF x[k] = MISSING THEN 0 ELSE AbsI(st.N * x[k] - st.S1)) + SAbsIdx(x, st, k - 1)
\* absolute slack of a projected scale statistic in 1e-9 units, 0 on the dyadic grid
QSlack9(kind, st) == IF ~IsQ THEN 0
                     ELSE CASE kind = "ssd"   -> SpreadSlack9(MQ, st.N, SAbsIdx(X, st, Len(X)))
                            [] kind = "range" -> RangeSlack9(MQ)
                            [] OTHER          -> 0
\* the same relative to the claimed integer, in 1e-12 units (what the rr / qr fields are measured in)
QRel12(kind, st, claim) == LET a == QSlack9(kind, st)
                               d == IF AbsI(claim) > 1 THEN AbsI(claim) ELSE 1 IN
                           IF a = 0 THEN 0 ELSE IF a > 2000000 THEN 2000000000 ELSE MulDivQ(a, 1000, d) + 1
ScaleKind == CASE type \in {1, 3} -> "ssd" [] type = 4 -> "range" [] OTHER -> "none"
\* (every action binds st == Stats(X) once: TLC does not memoise operator applications)
\* exact statistic behind the stored scaling, as the integer the harness projects onto
RawS2(st) == st.S2 + 2 * v * st.S1 + st.N * v * v            \* sum (piv + d)^2 ; only for RMS columns (|piv| <= 4000)
ScaleClaim(st) == CASE type = 1 -> st.SSD                    \* sdev^2  * N(N-1) / u^2
                    [] type = 2 -> RawS2(st)                 \* rms^2   * N      / u^2
                    [] type = 3 -> st.SSD                    \* scale^4 * N(N-1) / u^2   (Pareto: scale = sqrt(sdev))
                    [] type = 4 -> st.range                  \* range / u
                    [] type = 5 -> st.S1                     \* (mean / u - piv) * N
                    [] OTHER    -> 1                         \* centring only: scaling stored as 1
\* the column's exact scale is 0 (no spread, resp. zero RMS / zero mean): the transform must be exactly 0
ExactZero(st) == CASE type \in {1, 3} -> st.SSD = 0
                   [] type = 2 -> AbsI(v) <= 4000 /\ RawS2(st) = 0
                   [] type = 4 -> st.range = 0
                   [] type = 5 -> AbsI(v) <= 1000000 /\ v * st.N + st.S1 = 0
                   [] OTHER -> FALSE

\* stored average
TAvg == /\ l <= Len(Tr) /\ Ev.e = "Avg" /\ Step /\ Keep
        /\ LET st == Stats(X) IN
           /\ Ev.s1 = st.S1
           /\ Ev.s1r <= AbsI(st.S1) + CancelOf(st.N)

\* stored scaling, through the power at which it is rational
TScale == /\ l <= Len(Tr) /\ Ev.e = "Scale" /\ Step /\ Keep
          /\ LET st == Stats(X) claim == ScaleClaim(st) IN
             /\ Ev.sc = claim
             /\ IF type = 5 THEN Ev.ra <= AbsI(st.S1) + CancelOf(st.N)     \* absolute, 1e-9 units (mean: cancellation against the pivot)
                            ELSE Ev.rr <= 1000 * Pw(type) + QRel12(ScaleKind, st, claim)   \* relative, 1e-12 units: 1e-9 per power
             /\ (type \in {1, 2, 3, 4} /\ ~ExactZero(st)) => Ev.pos = 1

\* transformed training cells
TCells == /\ l <= Len(Tr) /\ Ev.e = "Cells" /\ Step /\ Keep
          /\ Ev.fin = 1
          /\ LET st == Stats(X) IN
             IF ExactZero(st) THEN Ev.zero = 1 /\ Ev.nz = 0 /\ Ev.tmax = 0
             ELSE /\ Ev.cn = SeqOf(LAMBDA i : IF X[i] = MISSING THEN 0 ELSE st.N * X[i] - st.S1, Len(X))
                  /\ Ev.cnr <= 2 * st.N * 800 + CancelOf(st.N)            \* |N d - S1| <= 2 * N * 400
          /\ (PropOnly \/ Ev.mz = 1)                                      \* Impl: a MISSING cell keeps what the output held (0 in a zero-scale column)

\* stored transform applied to the training matrix reproduces the training transform (relative difference, 1e-12 units)
TSame == /\ l <= Len(Tr) /\ Ev.e = "Same" /\ Step /\ Keep
         /\ Ev.q <= 1000

\* stored transform applied to new rows: the same affine map; a MISSING cell of a new row is not constrained and
\* constrains nothing else
TNew == /\ l <= Len(Tr) /\ Ev.e = "New" /\ Step /\ Keep
        /\ Ev.fin = 1
        /\ LET st == Stats(X) IN
           IF ExactZero(st) THEN Ev.zero = 1
           ELSE /\ Ev.cn = SeqOf(LAMBDA k : IF Ev.ny[k] = MISSING THEN 0 ELSE st.N * Ev.ny[k] - st.S1, Len(Ev.ny))
                /\ Ev.cnr <= 2 * st.N * 1600 + CancelOf(st.N)

\* option -1 copies; tensor = block by block (bitwise comparison done by the harness, flag checked here)
TCopy == /\ l <= Len(Tr) /\ Ev.e = "Copy" /\ Step /\ Keep /\ Ev.equal = 1
TTensor == /\ l <= Len(Tr) /\ Ev.e = "Tensor" /\ Step /\ Keep /\ Ev.equal = 1

\* in-process history (class K7): after other fits (different shape, different data) the first matrix is fitted again into
\* outputs that are already sized and hold other data.  Prop: the refit agrees with the first fit - whose events this trace
\* validated - to 1e-9 relative (cells and stored vectors; q in 1e-12 units); Impl: it is bitwise the same
TAgain == /\ l <= Len(Tr) /\ Ev.e = "Again" /\ Step /\ Keep
          /\ Ev.q <= 1000
          /\ (PropOnly \/ Ev.equal = 1)

\* ---- outside the property's statement (EXTRA): the column-statistic routines called directly ----
\* MatrixColAverage, MatrixColSDEV, MatrixColVar, MatrixColRMS, MatrixColumnMinMax on the current column; q is the integer
\* projection (as for Avg / Scale), qr its residual (absolute 1e-9 units for avg, min, max; relative 1e-12 units otherwise)
TStat == /\ l <= Len(Tr) /\ Ev.e = "Stat" /\ Step /\ Keep
         /\ Ev.fin = 1
         /\ LET st == Stats(X) IN
            CASE Ev.fn = "avg"  -> Ev.q = st.S1 /\ Ev.qr <= AbsI(st.S1) + CancelOf(st.N)
              [] Ev.fn = "sdev" -> Ev.q = st.SSD /\ Ev.qr <= 2000 + QRel12("ssd", st, st.SSD) /\ Ev.neg = 0
              [] Ev.fn = "var"  -> Ev.q = st.SSD /\ Ev.qr <= 1000 + QRel12("ssd", st, st.SSD) /\ Ev.neg = 0
              [] Ev.fn = "rms"  -> AbsI(v) <= 4000 /\ Ev.q = RawS2(st) /\ Ev.qr <= 2000 /\ Ev.neg = 0
              [] Ev.fn = "min"  -> Ev.q = Mn(X) /\ Ev.qr <= CancelOf(1)
              [] Ev.fn = "max"  -> Ev.q = Mx(X) /\ Ev.qr <= CancelOf(1)
              [] OTHER -> FALSE

\* ---- outside the property's quantifier (EXTRA): a column with fewer than two present cells ----
TDegCol == /\ l <= Len(Tr) /\ Ev.e = "DegCol" /\ Step
           /\ X' = Ev.d /\ v' = Ev.piv /\ type' = Ev.type /\ uq' = Ev.den
           /\ Degenerate(Ev.d)
\* the column counts as "without spread": finite stored vectors, exact zeros; a single present value is the stored average
TDeg == /\ l <= Len(Tr) /\ Ev.e = "Deg" /\ Step /\ Keep
        /\ Degenerate(X)
        /\ Ev.sfin = 1 /\ Ev.fin = 1 /\ Ev.zero = 1
        /\ (Nn(X) = 1 => Ev.s1 = S1(X))

TNext == TReset \/ TCol \/ TAvg \/ TScale \/ TCells \/ TSame \/ TNew \/ TCopy \/ TTensor \/ TAgain \/ TStat \/ TDegCol \/ TDeg
TSpec == TInit /\ [][TNext]_tvars
TraceAccepted == Accepted
Diag == ShowCursor(l)
====
