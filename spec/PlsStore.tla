---- MODULE PlsStore ----
(* C03: how PLS() stores one latent variable into the tables of the model (pls.c, "Storing scores, loadings,      *)
(* weights"): x/y scores have one row per OBJECT, x loadings and x weights one row per VARIABLE, y loadings one    *)
(* row per RESPONSE.  Every cell of the column of the current latent variable must be written, whatever the       *)
(* relation between the three lengths.  The loop structure is a constant of the model:                            *)
(*   StoreLoop = "own"            : each table in a loop over its own length (the pinned tree)                     *)
(*   StoreLoop = "fused_objects"  : one pass over the objects that also writes row i of the other tables when      *)
(*                                  i is below their length - right only while objects >= variables              *)
(* TLC refutes the fused variant first at objects = 6, variables = 7: the shapes a conformance generator has to   *)
(* emit to see the difference are exactly the ones with fewer objects than variables.  Which variant the code      *)
(* implements is inferred by the conformance run of C03 from the rows of xloadings / xweights that really hold a   *)
(* number (variant agreement), never assumed.                                                                     *)
EXTENDS Integers, FiniteSets, TLC
CONSTANTS MaxN, MaxP, MaxNy, StoreLoop
VARIABLES n, p, q                     \* objects, variables, responses

Rows(len) == 0..(len - 1)
\* rows of a table of `len` rows that the storing code writes for one latent variable
Written(len) == IF StoreLoop = "own" THEN Rows(len) ELSE {i \in Rows(n) : i < len}

SInit == n \in 6..MaxN /\ p \in 1..MaxP /\ q \in 1..MaxNy
SNext == UNCHANGED <<n, p, q>>
SSpec == SInit /\ [][SNext]_<<n, p, q>>

EveryCellStored == Written(n) = Rows(n) /\ Written(p) = Rows(p) /\ Written(q) = Rows(q)
\* rows of a weight / loading vector that are lost: none with the own-length loops, p - n for wide X with the fused loop
Lost == Cardinality(Rows(p) \ Written(p))
ThLost == Lost = (IF StoreLoop = "own" \/ n >= p THEN 0 ELSE p - n)
\* the fused loop is harmless exactly when objects >= variables (and responses <= objects, always true in the quantifier)
ThFusedOnlyWide == (StoreLoop = "fused_objects" /\ n >= p /\ n >= q) => EveryCellStored
====
