SPECIFICATION TSpec
CONSTANTS
  KernelSet = {"Sort"}
  RSet = {}
  KSet = {}
  CSet = {}
  XRC = {}
  XK = {}
  DSet = {}
  BSet = {}
  SliceSet = {}
  SortCols = {}
  ESet = {}
  SeedSet = {0}
  DoEmit = FALSE
  PropOnly = FALSE
CONSTRAINT Diag
POSTCONDITION TraceAccepted
CHECK_DEADLOCK FALSE
