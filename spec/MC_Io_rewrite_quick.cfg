SPECIFICATION Spec
CONSTANTS
  Paths = {"p1", "p2"}
  MaxHist = 3
  DropTables = TRUE
  SaveAll = TRUE
  ReadBlock = 0
  SizeSet = {1, 2}
  Rewrites = TRUE
  Shape = "all"
  Reuse = "off"
INVARIANT ReadsLast
INVARIANT EmptyStaysEmpty
INVARIANT Canonical
VIEW MCView
CHECK_DEADLOCK FALSE
