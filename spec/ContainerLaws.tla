--------------------------- MODULE ContainerLaws ---------------------------
(* C14.  Pure (constant-level) contracts shared by the shadow model Containers.tla and by the trace specification     *)
(* TraceContainers.tla, which evaluates them on matrices and vectors OBSERVED in the real library.                    *)
EXTENDS Integers, Sequences, FiniteSets, TLC
Max(a, b) == IF a > b THEN a ELSE b
Min(a, b) == IF a < b THEN a ELSE b
Sorted(s) == SortSeq(s, LAMBDA a, b : a < b)
\* sort of the rows of a matrix (a sequence of equally long rows) on key column j, ascending or descending (rev):
\* the result is a permutation of the rows and the key column is ordered; the order among equal keys is free
KeyBefore(a, b, j, rev) == IF rev THEN a[j] > b[j] ELSE a[j] < b[j]
CountRow(cells, r) == Cardinality({i \in DOMAIN cells : cells[i] = r})
IsRowPerm(pre, post) == /\ Len(pre) = Len(post)
                        /\ \A i \in DOMAIN post : CountRow(pre, post[i]) = CountRow(post, post[i])
KeyMonotone(cells, j, rev) == \A i \in 1..(Len(cells) - 1) : ~KeyBefore(cells[i + 1], cells[i], j, rev)
SortContract(pre, post, j, rev) == IsRowPerm(pre, post) /\ KeyMonotone(post, j, rev)
\* sort of a vector: a permutation of the elements in non-decreasing order (unique)
IsSeqPerm(o, n) == Len(o) = Len(n) /\ \A i \in 1..Len(n) : Cardinality({q \in 1..Len(o) : o[q] = n[i]}) = Cardinality({q \in 1..Len(n) : n[q] = n[i]})
VecSortContract(pre, post) == IsSeqPerm(pre, post) /\ \A i \in 1..(Len(post) - 1) : post[i] <= post[i + 1]
=============================================================================
