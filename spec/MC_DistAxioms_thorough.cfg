SPECIFICATION DSpec
CONSTANTS
  MaxRows = 0
  MaxThreads = 1
  MaxCond = 0
  NPts = 3
  Dim = 2
  Range = 3
INVARIANT AxiomsHold
INVARIANT CauchySchwarz
