\* the pinned tree's loop (test before the first assignment against a zero matrix): TLC must REFUTE PostHolds
SPECIFICATION Spec
CONSTANTS
  NPts = 3
  Dim = 2
  Grid = 2
  KMax = 3
  DistinctStart = FALSE
  IterCap = 8
  Variant = "whiledo"
  Off = 0
  SExp = 0
INVARIANT PostHolds
CHECK_DEADLOCK FALSE
