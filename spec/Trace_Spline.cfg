SPECIFICATION TSpec
CONSTANTS
  NK = 3
  XMax = 2
  YMax = 0
  Scales = {4}
  LookupTol = "exact"
  DoEmit = FALSE
  TolVal = 1000
  TolArea = 1000
  TolLedger = 10000
CONSTRAINT Diag
POSTCONDITION TraceAccepted
CHECK_DEADLOCK FALSE
