---- MODULE TraceCv ----
(* Trace specification for C05: one block per cross-validation run recorded from the real library.         *)
(*   Reset, Run, then any number of Create/Join/Merge, then passes (Groups followed by its Splits),       *)
(*   then optional Rows, the Pred events, the Resid events and End.                                       *)
(* Round 3: Run carries the whole case record (CvDomain.tla: the trace specification itself re-checks that *)
(* the case lies inside the property's quantifier and the learner's domain, and recomputes work items and  *)
(* output width); Out = the caller's output objects after the call (history class K7: outputs already      *)
(* sized); Pred.sens for EVERY object when run.sensall = 1; ResOnly = the residual-only call path.          *)
(* LooSplit = the rows LeaveOneOut really routed into the training / test part of model m (hooks loo_train  *)
(* / loo_test); Counter = the bootstrap's OWN visit counter of object i at the final division (hook          *)
(* boot_counter) against the tally of the logged test folds (CvBoot!CounterIsPasses on the recording).      *)
(* Prop conjuncts = what the property states; Impl conjuncts = how the present code does it (PropOnly off). *)
EXTENDS CvDomain, TraceBase
CONSTANT PropOnly
VARIABLES l, phase, run, created, joined, merged, opos, cur, seenTest, npass, nsplit, seen, tally, nloo
tvars == <<l, phase, run, created, joined, merged, opos, cur, seenTest, npass, nsplit, seen, tally, nloo>>
Ev == Tr[l]
Step == l' = l + 1
Tol == 1000               \* 1e-9 relative, in units of 1e-12
NoRun == [scheme |-> "none", n |-> 0, ny |-> 1, nlv |-> 1, nth |-> 1, total |-> 0, groups |-> 0, lab |-> <<>>, scol |-> 0, algo |-> "none",
          sensall |-> 0, hist |-> 0, reuse |-> 0, iters |-> 1, mag |-> 0, dcls |-> 0]
CvSchemes == {"boot", "loo", "kfold"}
\* runs whose repetition is deterministic (the own-response test and the residual-only call compare two runs): LeaveOneOut and KFoldCV draw
\* nothing; the bootstrap only single-threaded (with more workers the shared generator word is raced - property C06)
Repeatable(r) == r.scheme \in {"loo", "kfold"} \/ (r.scheme = "boot" /\ r.nth = 1)
TInit == /\ l = 1 /\ phase = "idle" /\ run = NoRun /\ created = {} /\ joined = {} /\ merged = <<>> /\ opos = 0
         /\ cur = <<>> /\ seenTest = <<>> /\ npass = 0 /\ nsplit = 0 /\ seen = {} /\ tally = <<>> /\ nloo = 0
Item(ev) == ev.base + ev.th
Min(a, b) == IF a < b THEN a ELSE b

\* the orchestration sequence the present code produces: per batch create*, join*, merge* in thread order
RECURSIVE BatchEv(_, _, _, _)
BatchEv(kind, th, k, base) == IF th >= k THEN <<>> ELSE <<<<kind, th, base>>>> \o BatchEv(kind, th + 1, k, base)
RECURSIVE OrchFrom(_, _, _, _)
OrchFrom(base, total, nth, boot) ==
  IF base >= total THEN <<>>
  ELSE LET k == IF boot THEN nth ELSE Min(nth, total - base)
       IN BatchEv("Create", 0, k, base) \o BatchEv("Join", 0, k, base) \o BatchEv("Merge", 0, k, base) \o OrchFrom(base + nth, total, nth, boot)
ExpectedOrch == OrchFrom(0, run.total, run.nth, run.scheme = "boot")
ImplOrch(kind) == PropOnly \/ (opos + 1 <= Len(ExpectedOrch) /\ ExpectedOrch[opos + 1] = <<kind, Ev.th, Ev.base>>)

PassComplete == \* the previous worker pass predicted every object exactly once (or there was none)
   cur = <<>> \/ ((\A v \in 0..(run.n - 1) : Count(seenTest, v) = 1) /\ Len(seenTest) = run.n /\ nsplit = Len(cur))
OrchComplete == \* everything created was joined and merged exactly once; guard schemes: every work item exactly once
   /\ created = joined /\ Range(merged) = created /\ NoDup(merged)
   /\ (run.scheme \in {"loo", "kfold"} => created = 0..(run.total - 1))
   /\ (run.scheme = "boot" => (0..(run.total - 1)) \subseteq created)
   /\ (PropOnly \/ opos = Len(ExpectedOrch))

TReset == /\ l <= Len(Tr) /\ Ev.e = "Reset" /\ phase = "idle" /\ Step
          /\ run' = NoRun /\ created' = {} /\ joined' = {} /\ merged' = <<>> /\ opos' = 0 /\ cur' = <<>> /\ seenTest' = <<>> /\ npass' = 0 /\ nsplit' = 0 /\ seen' = {} /\ tally' = <<>> /\ nloo' = 0
          /\ phase' = "reset"
TRun == /\ l <= Len(Tr) /\ Ev.e = "Run" /\ phase = "reset" /\ Step
        /\ run' = [scheme |-> Ev.scheme, n |-> Ev.n, ny |-> Ev.ny, nlv |-> Ev.nlv, nth |-> Ev.nth, total |-> Ev.total,
                   groups |-> Ev.groups, lab |-> Ev.lab, scol |-> Ev.scol, algo |-> Ev.algo,
                   sensall |-> Ev.sensall, hist |-> Ev.hist, reuse |-> Ev.reuse, iters |-> Ev.iters, mag |-> Ev.mag, dcls |-> Ev.dcls]
        \* the case is inside the property's quantifier and the learner's own domain, and the work items / output width the driver
        \* announces are the ones the specification computes (a rejection here is the DRIVER's fault: infrastructure, never a verdict)
        /\ (Ev.scheme \in CvSchemes =>
              /\ Admissible(Ev)
              /\ Ev.total = WorkItems(Ev)
              /\ Ev.scol = (IF Ev.algo = "PLS" THEN Ev.ny * Ev.nlv ELSE Ev.ny)
              /\ Ev.mag = (IF Ev.dcls = 2 THEN 0 - 6 ELSE IF Ev.dcls = 3 THEN 6 ELSE 0)
              /\ (Ev.reuse = 1 <=> Ev.hist > 0))
        /\ tally' = [i \in 1..Ev.n |-> 0]                    \* tally[i + 1] = logged passes in which object i sat in a test fold
        /\ phase' = "orch" /\ UNCHANGED <<created, joined, merged, opos, cur, seenTest, npass, nsplit, seen, nloo>>
TCreate == /\ l <= Len(Tr) /\ Ev.e = "Create" /\ phase = "orch" /\ Step
           /\ Item(Ev) \notin created                                   \* Prop: a work item is started once
           /\ ImplOrch("Create")
           /\ created' = created \cup {Item(Ev)} /\ opos' = opos + 1
           /\ UNCHANGED <<phase, run, joined, merged, cur, seenTest, npass, nsplit, seen, tally, nloo>>
TJoin == /\ l <= Len(Tr) /\ Ev.e = "Join" /\ phase = "orch" /\ Step
         /\ Item(Ev) \in created /\ Item(Ev) \notin joined
         /\ ImplOrch("Join")
         /\ joined' = joined \cup {Item(Ev)} /\ opos' = opos + 1
         /\ UNCHANGED <<phase, run, created, merged, cur, seenTest, npass, nsplit, seen, tally, nloo>>
TMerge == /\ l <= Len(Tr) /\ Ev.e = "Merge" /\ phase = "orch" /\ Step
          /\ Item(Ev) \in joined                                          \* Prop: no merge before join
          /\ Item(Ev) \notin Range(merged)                                \* Prop: merged once
          /\ ImplOrch("Merge")
          /\ merged' = Append(merged, Item(Ev)) /\ opos' = opos + 1
          /\ UNCHANGED <<phase, run, created, joined, cur, seenTest, npass, nsplit, seen, tally, nloo>>

Rows2(g) == [r \in 1..Len(g) |-> [c \in 1..Len(g[r]) |-> g[r][c]]]
TGroups == /\ l <= Len(Tr) /\ Ev.e = "Groups" /\ phase \in {"orch", "folds"} /\ Step
           /\ (phase = "orch" => OrchComplete) /\ PassComplete
           /\ LET G == Rows2(Ev.gid) IN
              /\ Ev.n = run.n
              /\ IsPartition(G, Ev.n)                                                          \* Prop
              /\ (run.scheme = "kfold" => ByLabel(G, run.lab))                                 \* Prop
              /\ (PropOnly \/ IF run.scheme = "kfold" THEN G = LabelGid(run.lab) ELSE ImplShape(G, run.groups, Ev.n))
              /\ cur' = G
           /\ seenTest' = <<>> /\ npass' = npass + 1 /\ nsplit' = 0 /\ phase' = "folds"
           /\ UNCHANGED <<run, created, joined, merged, opos, seen, tally, nloo>>
TSplit == /\ l <= Len(Tr) /\ Ev.e = "Split" /\ phase = "folds" /\ Step
          /\ Ev.grp = nsplit                                                                  \* every group, in order
          /\ LET tr == [i \in 1..Len(Ev.train) |-> Ev.train[i]]
                 te == [i \in 1..Len(Ev.test) |-> Ev.test[i]] IN
             /\ SplitIsSound(tr, te, run.n)                                                    \* Prop
             /\ Range(te) = Range(TestOf(cur, Ev.grp))                                         \* Prop: the fold's own members
             /\ (PropOnly \/ (tr = TrainOf(cur, Ev.grp) /\ te = TestOf(cur, Ev.grp)))          \* Impl: copy order
             /\ seenTest' = seenTest \o te
             /\ tally' = [i \in DOMAIN tally |-> tally[i] + Count(te, i - 1)]
          /\ nsplit' = nsplit + 1
          /\ UNCHANGED <<phase, run, created, joined, merged, opos, cur, npass, seen, nloo>>
TRows == /\ l <= Len(Tr) /\ Ev.e = "Rows" /\ phase = "folds" /\ Step /\ Ev.ok = 1 /\ UNCHANGED <<phase, run, created, joined, merged, opos, cur, seenTest, npass, nsplit, seen, tally, nloo>>
TPred == /\ l <= Len(Tr) /\ Ev.e = "Pred" /\ phase \in {"orch", "folds", "pred"} /\ Step
         /\ (phase = "orch" => OrchComplete) /\ (phase # "pred" => PassComplete)
         /\ (run.scheme = "loo" => nloo \in {0, run.n})        \* row routing logged for every model (or the hook is absent: driver reports it)
         /\ Ev.finite = 1                                     \* every object receives a finite prediction
         /\ Ev.refit <= Tol                                   \* = prediction of a model refitted on exactly the other folds
         /\ Ev.sens \in {-2, -1, 0}                           \* unchanged when only the object's own response changes (-1: not measured,
         /\ (Ev.sens = -2 => run.algo = "LDA")                \*  -2: no admissible other label for this object, LDA only)
         /\ (run.sensall = 1 => Ev.sens # -1)                 \* every-object runs: no object may go unmeasured
         /\ Ev.cnt = Ev.passes                                \* predicted once in every pass
         /\ (run.scheme = "boot" => Ev.passes = Len(merged) /\ Ev.passes = npass)
         /\ seen' = IF Ev.sens # -1 THEN seen \cup {"Sens"} ELSE seen
         /\ phase' = "pred" /\ UNCHANGED <<run, created, joined, merged, opos, cur, seenTest, npass, nsplit, tally, nloo>>
TResid == /\ l <= Len(Tr) /\ Ev.e = "Resid" /\ phase = "pred" /\ Step
          /\ Ev.err <= Tol                                    \* residual = prediction - matching response column
          /\ Ev.resp = Ev.col % run.ny /\ Ev.lv = Ev.col \div run.ny + 1
          /\ UNCHANGED <<phase, run, created, joined, merged, opos, cur, seenTest, npass, nsplit, seen, tally, nloo>>
\* LeaveOneOut row routing as the routine really did it (hooks in its copy loop): model m is fitted on every object but m and predicts m.
\* Prop: the test row is m, m is not among the training rows, no row twice, training rows + test row exhaust the data (out-of-sample + exhaustive).
\* Impl: the training rows are all j # m in the original order and the write position counts up from 0; the models come in order.
LooTrain(m, n) == SelectSeq([j \in 1..n |-> j - 1], LAMBDA v : v # m)
TLooSplit == /\ l <= Len(Tr) /\ Ev.e = "LooSplit" /\ phase \in {"orch", "folds"} /\ run.scheme = "loo" /\ Step
             /\ (phase = "orch" => OrchComplete)
             /\ LET tr == [i \in 1..Len(Ev.train) |-> Ev.train[i]]
                    te == [i \in 1..Len(Ev.test) |-> Ev.test[i]]
                    ps == [i \in 1..Len(Ev.pos) |-> Ev.pos[i]] IN
                /\ Ev.m = nloo /\ Ev.m < run.n                                                 \* every model once
                /\ te = <<Ev.m>>                                                               \* Prop: the left-out object is the test row
                /\ SplitIsSound(tr, te, run.n)                                                 \* Prop: out-of-sample + exhaustive
                /\ (PropOnly \/ (tr = LooTrain(Ev.m, run.n) /\ ps = [i \in 1..(run.n - 1) |-> i - 1]))   \* Impl: order
             /\ nloo' = nloo + 1 /\ phase' = "folds"
             /\ UNCHANGED <<run, created, joined, merged, opos, cur, seenTest, npass, nsplit, seen, tally>>
\* the bootstrap's own visit counter of object i when it divides the sum (hook boot_counter).
\* Prop (CvBoot!CounterIsPasses on the recording): it equals the number of logged passes in which object i sat in a test fold - a lost update on
\* a counter shared between workers shows here whatever the predicted values are.  Impl: the hook reports the requested iteration count.
TCounter == /\ l <= Len(Tr) /\ Ev.e = "Counter" /\ phase = "folds" /\ run.scheme = "boot" /\ Step
            /\ PassComplete /\ Ev.i \in 0..(run.n - 1)
            /\ Ev.fired = 1                                                                      \* once per object
            /\ Ev.cnt = tally[Ev.i + 1]                                                          \* Prop
            /\ (PropOnly \/ (Ev.iters = run.iters /\ Ev.cnt = npass))                             \* Impl
            /\ seen' = seen \cup {"Counter"}
            /\ UNCHANGED <<phase, run, created, joined, merged, opos, cur, seenTest, npass, nsplit, tally, nloo>>
\* the caller's output objects after the call: still alive (K7: an output that is already sized for ANOTHER shape must be resized in
\* place - replacing it by a new object leaves the caller's pointer dangling) - checked before anything reads them
TOut == /\ l <= Len(Tr) /\ Ev.e = "Out" /\ phase = "orch" /\ run.scheme \in CvSchemes /\ Step
        /\ Ev.pred_freed = 0 /\ Ev.res_freed = 0
        /\ seen' = seen \cup {"Out"}
        /\ UNCHANGED <<phase, run, created, joined, merged, opos, cur, seenTest, npass, nsplit, tally, nloo>>
\* the residual-only call (predicted_y = NULL): still prediction minus the matching response column, for every object and column
TResOnly == /\ l <= Len(Tr) /\ Ev.e = "ResOnly" /\ phase = "pred" /\ Repeatable(run) /\ Step
            /\ Ev.err <= Tol /\ Ev.shape = 1
            /\ seen' = seen \cup {"ResOnly"}
            /\ UNCHANGED <<phase, run, created, joined, merged, opos, cur, seenTest, npass, nsplit, tally, nloo>>
\* the public train_test_split(): the test ids it reports and the ids read back from the rows it copied (x[i] = i)
\* Prop: test and training parts are disjoint, duplicate-free and together exhaust the data; the rows copied are the rows of the ids.
\* Impl: the test part holds ceil(fraction * n) objects, the training part keeps the original order.
Increasing(s) == \A i \in 1..(Len(s) - 1) : s[i] < s[i + 1]
TTts == /\ l <= Len(Tr) /\ Ev.e = "Tts" /\ phase = "orch" /\ run.scheme = "tts" /\ Step
        /\ LET tr == [i \in 1..Len(Ev.train) |-> Ev.train[i]]
               te == [i \in 1..Len(Ev.test) |-> Ev.test[i]]
               id == [i \in 1..Len(Ev.ids) |-> Ev.ids[i]] IN
           /\ Ev.n = run.n
           /\ SplitIsSound(tr, te, Ev.n)                                                      \* Prop
           /\ id = te /\ Ev.rows = 1                                                          \* Prop: reported ids = copied rows
           /\ (PropOnly \/ (Len(te) = CeilDiv(Ev.num * Ev.n, Ev.den) /\ Increasing(tr)))      \* Impl
        /\ phase' = "folds"
        /\ UNCHANGED <<run, created, joined, merged, opos, cur, seenTest, npass, nsplit, seen, tally, nloo>>
TEnd == /\ l <= Len(Tr) /\ Ev.e = "End" /\ phase \in {"folds", "pred"} /\ Step
        /\ (phase = "folds" => PassComplete)
        /\ Ev.shape = 1
        /\ (run.scheme \in CvSchemes => "Out" \in seen /\ phase = "pred")                       \* vacuity: the driver really observed the outputs
        /\ (run.scheme \in CvSchemes /\ Repeatable(run) => {"Sens", "ResOnly"} \subseteq seen)  \* ... and made both repeated-run measurements
        /\ phase' = "idle" /\ UNCHANGED <<run, created, joined, merged, opos, cur, seenTest, npass, nsplit, seen, tally, nloo>>
TNext == TReset \/ TRun \/ TTts \/ TOut \/ TResOnly \/ TLooSplit \/ TCounter \/ TCreate \/ TJoin \/ TMerge \/ TGroups \/ TSplit \/ TRows \/ TPred \/ TResid \/ TEnd
TSpec == TInit /\ [][TNext]_tvars
TraceAccepted == Accepted
Diag == ShowCursor(l)
====
