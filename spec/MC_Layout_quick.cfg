SPECIFICATION LSpec
CONSTANTS
  MaxNy = 4
  MaxNlv = 12
  ResidualIndex = "mod_ny"
INVARIANT LayoutBijective
INVARIANT ResidualAgainstOwnResponse
CHECK_DEADLOCK FALSE
