---- MODULE Rng ----
(* C06.  The library's generator (numeric.c): ONE 32-bit word XOR128_SEED.  srand_(s) stores Gen(s).  Every   *)
(* rand_/randInt/randDouble call first READS the word into a local xorshift state and then WRITES            *)
(* Gen(word) back - re-reading the word, exactly as the C does - and returns a function of the local copy.   *)
(* Cross-validation workers each call srand_(own seed) and then draw.  PerThread = TRUE models a word per    *)
(* thread, FALSE the single global word.  The three steps of a worker (seed store, read, write) are separate  *)
(* actions so TLC explores every interleaving; `sched` records which worker moved (the schedule word that    *)
(* the conformance harness forces onto the real threads).                                                   *)
EXTENDS Naturals, Sequences, FiniteSets, TLC, Json
CONSTANTS NW, K, PerThread        \* NW workers 1..NW, K draws each
Workers == 1..NW
M == 101
Gen(s) == (5 * s + 3) % M          \* stands for generate_seed(): an injective step on a small domain
Seed(w) == w                        \* distinct seeds, as srand_init = base + th + iteration
Cell(w) == IF PerThread THEN w ELSE 0
Cells == IF PerThread THEN Workers ELSE {0}
RECURSIVE Stream(_, _)
Stream(s, n) == IF n = 0 THEN <<>> ELSE <<s>> \o Stream(Gen(s), n - 1)   \* the words a lone worker reads
VARIABLES word, pc, drawn, nd, sched
vars == <<word, pc, drawn, nd, sched>>
Init == /\ word = [c \in Cells |-> 0]
        /\ pc = [w \in Workers |-> "seed"]
        /\ drawn = [w \in Workers |-> <<>>]
        /\ nd = [w \in Workers |-> 0]
        /\ sched = <<>>
DoSeed(w) == /\ pc[w] = "seed"
             /\ word' = [word EXCEPT ![Cell(w)] = Gen(Seed(w))]
             /\ pc' = [pc EXCEPT ![w] = "read"]
             /\ sched' = Append(sched, w)
             /\ UNCHANGED <<drawn, nd>>
DoRead(w) == /\ pc[w] = "read" /\ nd[w] < K
             /\ drawn' = [drawn EXCEPT ![w] = Append(@, word[Cell(w)])]
             /\ pc' = [pc EXCEPT ![w] = "write"]
             /\ sched' = Append(sched, w)
             /\ UNCHANGED <<word, nd>>
DoWrite(w) == /\ pc[w] = "write"
              /\ word' = [word EXCEPT ![Cell(w)] = Gen(word[Cell(w)])]   \* re-reads the word, as the C does
              /\ nd' = [nd EXCEPT ![w] = @ + 1]
              /\ pc' = [pc EXCEPT ![w] = "read"]
              /\ sched' = Append(sched, w)
              /\ UNCHANGED drawn
Next == \E w \in Workers : DoSeed(w) \/ DoRead(w) \/ DoWrite(w)
Spec == Init /\ [][Next]_vars
AllDone == \A w \in Workers : pc[w] = "read" /\ nd[w] = K
\* the seeded stream consumed by one worker is never perturbed by another worker
StreamIsolation == \A w \in Workers : drawn[w] = SubSeq(Stream(Gen(Seed(w)), K), 1, Len(drawn[w]))
\* GEN: every complete schedule word (each worker owns exactly 2K+1 letters)
Emit == AllDone => PrintT("@@" \o ToJson([sched |-> sched, isolated |-> StreamIsolation]))
====
