---- MODULE Rng ----
(* C06.  The library's generator (numeric.c): ONE 32-bit word XOR128_SEED.  srand_(s) stores Gen(s).  Every   *)
(* rand_/randInt/randDouble call first READS the word into a local xorshift state and then WRITES            *)
(* Gen(word) back - re-reading the word, exactly as the C does - and returns a function of the local copy.   *)
(* If the word was never set (it is 0), the draw first stores the WALL CLOCK into it (numeric.c:68,84,103).  *)
(* PerThread = TRUE models a word per thread, FALSE the single global word.  The steps of a process (seed    *)
(* store, read, write) are separate actions so TLC explores every interleaving; `sched` records which        *)
(* process moved at every step that hook H1 can see (the schedule word that the conformance harness forces   *)
(* onto the real threads).                                                                                  *)
(*                                                                                                          *)
(* Every process runs a PROGRAM over {S seed, D draw, F fork, J join}; Shape selects the orchestration that  *)
(* was transcribed from the library:                                                                        *)
(*   "seedDraw" S D^K          bootstrap CV worker with learner PLS / MLR / LDA: random_kfold_group_         *)
(*                             generator seeds with srand_init = base + th + iteration_, then draws          *)
(*                             (modelvalidation.c:45-49); also every routine that seeds and draws on the     *)
(*                             calling thread only (KMeansRandomGroupsCV, PCARankValidation, UPLSRandom-     *)
(*                             GroupsCV, StochasticUniversalSample, RouletteWheelselection, train_test_split) *)
(*   "reseed"   S D^K S D^K    bootstrap CV worker with learner EPLS (modelvalidation.c:363 + epls.c:82):    *)
(*                             the group generator seeds and draws, then EVERY ensemble member re-seeds the  *)
(*                             worker's word through train_test_split with a seed computed from the inputs   *)
(*                             only (epls.c:102,143: rows*testsize + scaling flags + columns, +1 per member) *)
(*                             - all workers use the SAME re-seed values, which is why SeedOf(p, j) below    *)
(*                             depends on the process only for j = 1                                         *)
(*   "unseeded" D^K            LeaveOneOut / KFoldCV worker with learner EPLS and the fixed random subspace  *)
(*                             method (modelvalidation.c:766 + epls.c:164-169): a fresh thread shuffles the  *)
(*                             feature ids with randInt and nobody ever called srand_ on that thread         *)
(*   "forkjoin" caller: S F J D^K, workers: S D^K                                                            *)
(*                             y-scrambling (modelvalidation.c:1552-1641): the calling thread seeds, starts  *)
(*                             CV workers that seed and draw themselves, joins them, and only then draws its *)
(*                             own shuffle.  KMeans / KMeans++ / EPLS called directly are the degenerate     *)
(*                             case in which the workers' programs are empty (they never touch the word).    *)
(*   "foreign"  workers: S D^K, foreign caller (process NW+1): S D^K                                         *)
(*                             "regardless of what other library calls run concurrently": while the workers  *)
(*                             of a validation call run, ANOTHER thread of the application seeds and draws   *)
(*                             (any of the drawing routines, or a plain srand_/randInt loop) - with the SAME  *)
(*                             seed value as worker 1, so that equal seeds on two threads are covered: the   *)
(*                             two streams are equal and still independent.  The conformance harness runs    *)
(*                             the real CV with NW workers next to a disturber thread (and every directly    *)
(*                             called drawing routine next to a disturber) under the words of this shape.    *)
(* RngState.tla names the C state the model speaks about (the shared-variable set the ThreadSanitizer block  *)
(* is judged against): word = "XOR128_SEED", drawn/pc/ip = "worker-local".                                    *)
EXTENDS Naturals, Sequences, FiniteSets, TLC, Json, RngState
CONSTANTS NW, K, PerThread, Shape        \* NW workers 1..NW, K draws per draw phase
Workers == 1..NW
Caller == 0
Foreign == NW + 1
Procs == IF Shape = "forkjoin" THEN {Caller} \cup Workers ELSE IF Shape = "foreign" THEN Workers \cup {Foreign} ELSE Workers
M == 101
Gen(s) == (5 * s + 3) % M          \* stands for generate_seed(): an injective step on a small domain
Unset == M                          \* "no value": what a process would read from a word nobody seeded
ClockVals == {97, 98}               \* two possible readings of the wall clock
Rep(x, n) == [i \in 1..n |-> x]
Prog(p) == CASE Shape = "seedDraw" -> <<"S">> \o Rep("D", K)
             [] Shape = "reseed"   -> <<"S">> \o Rep("D", K) \o <<"S">> \o Rep("D", K)
             [] Shape = "unseeded" -> Rep("D", K)
             [] Shape = "forkjoin" -> IF p = Caller THEN <<"S", "F", "J">> \o Rep("D", K) ELSE <<"S">> \o Rep("D", K)
             [] Shape = "foreign"  -> <<"S">> \o Rep("D", K)
\* the j-th seed a process passes to srand_: distinct per process for the first one (base + th + iteration_),
\* a function of the inputs only for the later ones (EPLS members)
\* (the foreign caller passes the seed of worker 1)
SeedOf(p, j) == IF j = 1 THEN (IF Shape = "foreign" /\ p = Foreign THEN 2 ELSE p + 1) ELSE 40 + j
Seed(w) == SeedOf(w, 1)
Cell(p) == IF PerThread THEN p ELSE 0
Cells == IF PerThread THEN Procs ELSE {0}
RECURSIVE Stream(_, _)
Stream(s, n) == IF n = 0 THEN <<>> ELSE <<s>> \o Stream(Gen(s), n - 1)   \* the words a lone process reads after the word was set to s
\* the words process p reads when it runs its program ALONE: the stream its own seeds define
RECURSIVE Exp(_, _, _, _, _)
Exp(p, i, cur, j, acc) ==
  IF i > Len(Prog(p)) THEN acc
  ELSE IF Prog(p)[i] = "S" THEN Exp(p, i + 1, Gen(SeedOf(p, j + 1)), j + 1, acc)
  ELSE IF Prog(p)[i] = "D" THEN Exp(p, i + 1, IF cur = Unset THEN Unset ELSE Gen(cur), j, Append(acc, cur))
  ELSE Exp(p, i + 1, cur, j, acc)
Expected(p) == Exp(p, 1, Unset, 0, <<>>)

VARIABLES word, set, pc, ip, ns, drawn, clocked, forked, sched
vars == <<word, set, pc, ip, ns, drawn, clocked, forked, sched>>
NoSched == <<word, set, pc, ip, ns, drawn, clocked, forked>>      \* VIEW for the larger model-checking runs (sched is a history variable)
Init == /\ word = [c \in Cells |-> 0]
        /\ set = [c \in Cells |-> FALSE]
        /\ pc = [p \in Procs |-> "op"]
        /\ ip = [p \in Procs |-> 1]
        /\ ns = [p \in Procs |-> 0]
        /\ drawn = [p \in Procs |-> <<>>]
        /\ clocked = [p \in Procs |-> FALSE]
        /\ forked = (Shape # "forkjoin")
        /\ sched = <<>>
Finished(p) == ip[p] > Len(Prog(p))
Ready(p, op) == /\ ~Finished(p) /\ pc[p] = "op" /\ Prog(p)[ip[p]] = op
                /\ (p \in Workers => forked)
Advance(p) == ip' = [ip EXCEPT ![p] = @ + 1]
DoSeed(p) == /\ Ready(p, "S")
             /\ word' = [word EXCEPT ![Cell(p)] = Gen(SeedOf(p, ns[p] + 1))]
             /\ set' = [set EXCEPT ![Cell(p)] = TRUE]
             /\ ns' = [ns EXCEPT ![p] = @ + 1]
             /\ Advance(p)
             /\ sched' = Append(sched, p)
             /\ UNCHANGED <<pc, drawn, clocked, forked>>
\* if(XOR128_SEED == 0) XOR128_SEED = time(NULL);   - no hook sees this store, so it is not a schedule letter
DoClock(p) == /\ Ready(p, "D") /\ ~set[Cell(p)]
              /\ \E c \in ClockVals : word' = [word EXCEPT ![Cell(p)] = c]
              /\ set' = [set EXCEPT ![Cell(p)] = TRUE]
              /\ clocked' = [clocked EXCEPT ![p] = TRUE]
              /\ UNCHANGED <<pc, ip, ns, drawn, forked, sched>>
DoRead(p) == /\ Ready(p, "D") /\ set[Cell(p)]
             /\ drawn' = [drawn EXCEPT ![p] = Append(@, word[Cell(p)])]
             /\ pc' = [pc EXCEPT ![p] = "write"]
             /\ sched' = Append(sched, p)
             /\ UNCHANGED <<word, set, ip, ns, clocked, forked>>
DoWrite(p) == /\ pc[p] = "write"
              /\ word' = [word EXCEPT ![Cell(p)] = Gen(word[Cell(p)])]   \* re-reads the word, as the C does
              /\ pc' = [pc EXCEPT ![p] = "op"]
              /\ Advance(p)
              /\ sched' = Append(sched, p)
              /\ UNCHANGED <<set, ns, drawn, clocked, forked>>
DoFork == /\ Shape = "forkjoin" /\ Ready(Caller, "F") /\ forked' = TRUE /\ Advance(Caller)
          /\ UNCHANGED <<word, set, pc, ns, drawn, clocked, sched>>
DoJoin == /\ Shape = "forkjoin" /\ Ready(Caller, "J") /\ \A w \in Workers : Finished(w)
          /\ Advance(Caller)
          /\ UNCHANGED <<word, set, pc, ns, drawn, clocked, forked, sched>>
Next == \/ \E p \in Procs : DoSeed(p) \/ DoClock(p) \/ DoRead(p) \/ DoWrite(p)
        \/ DoFork \/ DoJoin
Spec == Init /\ [][Next]_vars
AllDone == \A p \in Procs : Finished(p)
\* the seeded stream consumed by one process is never perturbed by another: what it read so far is a prefix of the
\* stream its own seeds define
StreamIsolation == \A p \in Procs : drawn[p] = SubSeq(Expected(p), 1, Len(drawn[p]))
\* results are a function of the inputs: no process ever draws from a word that was set from the wall clock
NoClock == \A p \in Procs : ~clocked[p]
\* the old name of the K-draw stream of a worker (kept for the seedDraw shape): Expected(w) = Stream(Gen(Seed(w)), K)
SeedDrawStream == Shape = "seedDraw" => \A w \in Workers : Expected(w) = Stream(Gen(Seed(w)), K)
\* a run with N threads equals the sequential run: at the end every process has consumed exactly the stream it consumes when it runs alone
EqualsSequential == AllDone => \A p \in Procs : drawn[p] = Expected(p)
\* equal seeds on two threads give equal, still independent streams (shape "foreign")
ForeignTwin == (Shape = "foreign" /\ AllDone) => drawn[Foreign] = drawn[1]
\* the generator word is thread-private state of the model (RngState.tla): with one cell per thread no cell is ever shared
WordPrivate == PerThread => (Cardinality(Cells) = Cardinality(Procs) /\ "XOR128_SEED" \in ThreadPrivate)
\* GEN: every complete schedule word (one letter per hooked step of every process)
Emit == AllDone => PrintT("@@" \o ToJson([sched |-> sched, isolated |-> StreamIsolation]))
====
