SPECIFICATION MSpecH
CONSTANTS
  MaxNy = 2
  MaxNlv = 2
  ResidualIndex = "mod_ny"
  Deep = TRUE
  TrackPairs = FALSE
  R2Direct = TRUE
INVARIANT InvShape
INVARIANT InvHist
INVARIANT InvExk
CHECK_DEADLOCK FALSE
