SPECIFICATION HSpec
CONSTANTS
  Contract = "append"
  MaxCalls = 3
  Lens = {1, 2, 3}
INVARIANT TableIsLatest
CHECK_DEADLOCK FALSE
