---- MODULE IoGen ----
(* GEN for C16: every reachable state of Io carries its history in `ops`; printing it from a state constraint  *)
(* exports every history (BFS: each history once; simulate: random histories up to MaxHist = 5).  A Write of   *)
(* a profile size class (>= 4) carries its fit parameters, so the dimensions and the content class of every    *)
(* concrete model are chosen here and obeyed (and logged) by the harness.                                      *)
EXTENDS Io, Json
OpOut(o) == [op |-> o.op, p |-> o.p, k |-> o.k, s |-> o.s, prm |-> IF o.op = "W" THEN ParamsOf(o.k, o.s) ELSE <<>>]
RECURSIVE OpsOut(_)
OpsOut(os) == IF os = <<>> THEN <<>> ELSE <<OpOut(os[1])>> \o OpsOut(Tail(os))
Emit == PrintT("@@" \o ToJson([h |-> OpsOut(ops)]))
\* the two paths are interchangeable file names: BFS export only of histories whose first operation is on p1
GenBfs == (ops = <<>> \/ ops[1].p = "p1") /\ Emit

(* ---- input classes (INPUT-CLASSES.md) of a profile, computed from its parameters and shapes; exported as a catalogue ---- *)
K2Lens == UNION {{b - 1, b, b + 1} : b \in K2Blocks}
K2Tags(k, s) == {"K2:" \o TypeOf(k, f) \o ":" \o ToString(SerLen(TypeOf(k, f), AbsModel(k, s)[f])) :
                   f \in {g \in SavedFields(k) : SerLen(TypeOf(k, g), AbsModel(k, s)[g]) \in K2Lens}}
Min2(a, b) == IF a < b THEN a ELSE b
K1Tags(k, s) == LET q == ParamsOf(k, s) n == q[1] p == q[2] a == q[3] IN
    {IF n = p THEN "K1:n=p" ELSE IF n = p + 1 \/ n + 1 = p THEN "K1:n=p+-1" ELSE IF n > p THEN "K1:tall" ELSE "K1:wide"}
    \cup {IF a = Min2(n - 1, p) THEN "K1:a=rank" ELSE IF a = 1 THEN "K1:a=1" ELSE "K1:1<a<rank"}
    \cup (IF p = 1 THEN {"K1:p=1"} ELSE {})
    \cup (IF k = "PLS" THEN {IF q[4] = 1 THEN "K1:ny=1" ELSE "K1:ny>1"} ELSE {})
ContentTags(k, s) == CASE ContentClass(k, s) = 0 -> {"K4:moderate"}
                       [] ContentClass(k, s) = 1 -> {"K4:rescaled-1e-9..1e9"}
                       [] ContentClass(k, s) = 2 -> {"K4:range-ends", "K5:planted-constants", "K9:missing-code-as-value"}
                       [] ContentClass(k, s) = 3 -> {"K3:offset-1e3-sd"}
                       [] ContentClass(k, s) = 4 -> {"K3:offset-1e6-sd"}
\* (mentions ops so that it is evaluated - and printed - only where GenFamily asks for it, not at the start-up of every run of this module)
Catalogue == ops = <<>> /\ \A k \in Kinds : \A s \in ProfSizes(k) :
               PrintT("@@" \o ToJson([cat |-> [k |-> k, s |-> s, prm |-> ParamsOf(k, s), tags |-> K2Tags(k, s) \cup K1Tags(k, s) \cup ContentTags(k, s)]]))

\* BFS export of a history family (Shape = "prof" / "rewrite"); the catalogue is printed once, with the empty history
GenFamily == (ops = <<>> => Catalogue) /\ Emit

\* the generator explores the histories only: the history parts of Io's actions, files and observations left alone
Skel(A) == A /\ UNCHANGED <<db, lastw, lastread>> /\ held' = held
\* (the skeleton of ReadAgain needs to know that an object of kind k was filled: a Read of that kind occurs in the history)
GRead(p, k) == ReadH(p, k) /\ UNCHANGED <<db, lastw, lastread>> /\ held' = IF Reuse = "off" THEN held ELSE [held EXCEPT ![k] = [valid |-> TRUE, res |-> <<>>]]
GReadAgain(p, k) == ReadAgainH(p, k) /\ UNCHANGED <<db, lastw, lastread, held>>
GNext == \E p \in Paths, k \in Kinds : \/ \E s \in SizeSet : Skel(WriteH(p, k, s))
                                       \/ GRead(p, k)
                                       \/ \E t \in 1..MaxHist : Skel(RewriteH(p, k, t))
                                       \/ GReadAgain(p, k)
GenSpec == Init /\ [][GNext]_vars

\* profiles drawn in simulated histories: at most SimRows rows (the large ones are written and read in the profile family)
SimRows == 450
\* simulation: TLC picks uniformly among successor instances (many Writes against at most 2 Reads); draw the operation kind first so that
\* about half of the operations are Reads of what was written, one Write in four is a (mid-sized) profile, and (Rewrites) one operation in six a rewrite
SimNext == IF RandomElement(1..6) <= 3 /\ \E p \in Paths : lastkind[p] # "none"
           THEN \E p \in Paths : lastkind[p] # "none" /\ Skel(ReadH(p, lastkind[p]))
           ELSE IF Rewrites /\ hist >= 1 /\ RandomElement(1..3) = 1
           THEN \E p \in Paths, k \in Kinds, t \in 1..MaxHist : Skel(RewriteH(p, k, t))
           ELSE IF RandomElement(1..4) = 1 /\ SizeSet \ Sizes # {}
           THEN \E p \in Paths, k \in Kinds, s \in SizeSet \ Sizes : s \in ProfSizes(k) /\ ModelRows(k, s) <= SimRows /\ Skel(WriteH(p, k, s))
           ELSE \E p \in Paths, k \in Kinds, s \in SizeSet \cap Sizes : Skel(WriteH(p, k, s))
SimSpec == Init /\ [][SimNext]_vars
====
