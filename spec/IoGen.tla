---- MODULE IoGen ----
(* GEN for C16: every reachable state of Io carries its history in `ops`; printing it from a state constraint  *)
(* exports every history (BFS: each history once, MaxHist = 3; simulate: random histories up to MaxHist = 5). *)
EXTENDS Io, Json
Emit == PrintT("@@" \o ToJson([h |-> ops]))
\* the two paths are interchangeable file names: BFS export only of histories whose first operation is on p1
GenBfs == (ops = <<>> \/ ops[1].p = "p1") /\ Emit
\* simulation: TLC picks uniformly among successor instances (12 Writes against at most 2 Reads); draw the operation
\* kind first so that about half of the operations are Reads of what was written
SimNext == IF RandomElement({0, 1}) = 1 /\ \E p \in Paths : lastkind[p] # "none"
           THEN \E p \in Paths : lastkind[p] # "none" /\ Read(p, lastkind[p])
           ELSE \E p \in Paths, k \in Kinds, s \in Sizes : Write(p, k, s)
SimSpec == Init /\ [][SimNext]_vars
====
