SPECIFICATION FairSpec
CONSTANTS
  N = 2
  MaxIt = 3
  MaxTh = 3
  Clear = "fresh"
  Divide = "counter"
PROPERTY Terminates
