---- MODULE Nipals ----
(* C18.  Control skeleton of the iterative fitting loops over an abstract numeric domain.                   *)
(*                                                                                                       *)
(* NIPALS sites (while(1) loops whose only exit is  calcConvergence(t_new, t_old) < tolerance):            *)
(*   "PCA"   pca.c  PCA()      t := max-variance column of E;  pass: p += t'E (NaN products skipped);     *)
(*                             p /= t't; p /= |p|; t := E p (NaN products skipped); t /= p'p;              *)
(*                             conv = |t - t_old|^2 / (n |t|^2);  exit iff conv < 1e-10                    *)
(*   "PLS"   pls.c  LVCalc()   u := a column of Y;  pass: w = X'u / u'u; w /= |w|; t = X w / w'w;           *)
(*                             (ny > 1: q = Y't/t't; q /= |q|; u = Y q / q'q);  first pass never exits,    *)
(*                             later passes exit iff conv(t, t_old) < 1e-8                                 *)
(*   "CPCA"  cpca.c CPCA()     t := max-variance column over all blocks;  pass: per block p_b = X_b't/t't, *)
(*                             p_b /= |p_b|, t_b = X_b p_b (NaN products skipped);  w_T = T't / t't;        *)
(*                             w_T /= |w_T|; t_new = T w_T (NaN products skipped); exit iff conv < 1e-18;   *)
(*                             on exit the cumulative block variance divides by trace(X_b'X_b)             *)
(* Value classes: "Fin" (finite, non-zero), "Zero", "NaN"; for PLS "Zero" = null u (constant response or   *)
(* response exhausted) and "XZero" = finite u but X'u = 0 (rank of X exhausted / no covariance).  0/0 -> NaN; a NaN *)
(* convergence value is never < tolerance.  `a`, `b`, `conv` are the classes the iteration hook H4 reports *)
(* (t't resp. u'u, the normaliser p'p resp. w'w, the convergence value).                                   *)
(*                                                                                                       *)
(* Guarded = FALSE is the pinned tree (no null-component test);  Guarded = TRUE adds, at the top of each   *)
(* pass, "null or non-finite component -> store a zero component and leave the loop" and a zero (not 0/0)  *)
(* explained variance when the total / block variance is zero.                                            *)
(*                                                                                                       *)
(* Counter-bounded loops ("KMEANS": it <= 100 in clustering.c shouldStop; "NM": iter_ < iter in            *)
(* optimization.c): the variant is the counter itself, whatever the data classes are.                      *)
(*                                                                                                       *)
(* Two assumptions of this module are made explicit (and refuted where the code does not meet them) in      *)
(* NipalsMT.tla: "NaN products skipped" holds for the kernel a fit REACHES under its processor count, and    *)
(* "every pass on a finite vector contracts" fails for PLS latent variables built on rounding residue.      *)
EXTENDS Naturals, TLC
CONSTANTS MaxRank, MaxNpc, MaxIter, Guarded, Sites
ASSUME MaxIter >= 2

NipalsSites == {"PCA", "PLS", "CPCA"}
CounterSites == {"KMEANS", "NM", "MLRLOO"}      \* MLRLOO: leave-one-out refits, one per object

VARIABLES site,    \* which loop
          rank,    \* number of mathematically defined components of the input (exact)
          npc,     \* components requested (after the library's clamp to the column count)
          noise,   \* TRUE: deflation leaves rounding noise instead of exact zeros (inexact centring, perturbed data)
          cblk,    \* CPCA: some block is constant (zero after centring)
          pc,      \* components finished
          phase,   \* "start" | "iter" | "loop" | "done"
          tcls,    \* class of the iterated vector at the top of the next pass
          first,   \* PLS: the next pass is the first of this latent variable
          a, b, conv,   \* what the hook reports for the pass just made
          left,    \* passes still allowed before the contraction must have reached the tolerance / counter budget
          tick,    \* parity of the pass counter (makes the non-terminating cycle visible as a two-state lasso)
          evals,   \* per component: "unset" | "pos" | "zero"
          bvar     \* class of the block / total explained variance figures: "fin" | "NaN"
vars == <<site, rank, npc, noise, cblk, pc, phase, tcls, first, a, b, conv, left, tick, evals, bvar>>

Init == /\ site \in Sites /\ rank \in 0..MaxRank /\ npc \in 1..MaxNpc /\ noise \in BOOLEAN
        /\ cblk \in (IF site = "CPCA" THEN BOOLEAN ELSE {FALSE})
        /\ pc = 0 /\ phase = "start" /\ tcls = "Zero" /\ first = TRUE /\ a = "Fin" /\ b = "Fin" /\ conv = "Big"
        /\ left = 0 /\ tick = 0 /\ evals = [i \in 1..MaxNpc |-> "unset"] /\ bvar = "fin"

NullClasses(s) == IF s = "PLS" THEN {"Zero", "XZero"} ELSE {"Zero"}
\* class of the start vector of component pc+1: regular while rank is left; afterwards exactly null, or rounding noise
StartClasses == IF pc < rank THEN {"Fin"} ELSE NullClasses(site) \cup (IF noise THEN {"Fin"} ELSE {})
StartAny(c) == /\ phase = "start" /\ site \in NipalsSites /\ pc < npc /\ tcls' = c
               /\ left' = MaxIter /\ first' = TRUE /\ conv' = "Big" /\ phase' = "iter"
               /\ UNCHANGED <<site, rank, npc, noise, cblk, pc, a, b, tick, evals, bvar>>
Start(c) == c \in StartClasses /\ StartAny(c)

\* a component that converged: it carries variance iff it lies within the rank
Store(cls) == /\ evals' = [evals EXCEPT ![pc + 1] = cls] /\ pc' = pc + 1 /\ phase' = "start"
BlockVar == IF site = "CPCA" /\ cblk /\ ~Guarded THEN "NaN" ELSE bvar      \* (1 - tr/tr_orig) with tr_orig = 0

\* k regular passes that do not reach the tolerance yet
IterCont(k) == /\ phase = "iter" /\ tcls = "Fin" /\ k >= 1 /\ left > k
               /\ left' = left - k /\ a' = "Fin" /\ b' = "Fin" /\ conv' = "Big" /\ first' = FALSE
               /\ tick' = (tick + k) % 2
               /\ UNCHANGED <<site, rank, npc, noise, cblk, pc, phase, tcls, evals, bvar>>
\* k - 1 further regular passes and then the pass that reaches the tolerance (PLS: never the first pass of a latent variable)
IterConv(k) == /\ phase = "iter" /\ tcls = "Fin" /\ k >= 1 /\ left >= k /\ (site = "PLS" => (~first \/ k >= 2))
               /\ a' = "Fin" /\ b' = "Fin" /\ conv' = "Small" /\ tick' = (tick + k) % 2
               /\ Store(IF pc < rank THEN "pos" ELSE "zero") /\ bvar' = BlockVar
               /\ left' = left - (k - 1)
               /\ UNCHANGED <<site, rank, npc, noise, cblk, tcls, first>>

\* PLS with several responses, beyond the defined latent variables (X or Y carries rounding noise only): k regular passes, the last of which
\* leaves u null / non-finite (q = Y't / t't = 0 exactly -> DVectNorm gives 0/0 -> u = NaN); the guard at the top of the next pass then
\* stores a null latent variable.  The hook sees the k passes, not the guard.  Within the rank Y't # 0, so this cannot happen there.
IterDie(k) == /\ phase = "iter" /\ tcls = "Fin" /\ site = "PLS" /\ Guarded /\ pc >= rank /\ k >= 1 /\ left >= k
              /\ a' = "Fin" /\ b' = "Fin" /\ conv' = "Big" /\ tick' = (tick + k) % 2 /\ left' = left - (k - 1)
              /\ Store("zero")
              /\ UNCHANGED <<site, rank, npc, noise, cblk, tcls, first, bvar>>

\* one pass on a null / non-finite vector when there is no guard: class transfer transcribed from the C code
NullNext(s, c) == CASE s = "PCA"  -> {"NaN"}                                     \* t = 0 / NaN
                    [] s = "CPCA" -> {"Zero"}                                    \* every NaN product is skipped: t_new = 0 again
                    [] s = "PLS"  -> IF c = "NaN" THEN {"NaN"} ELSE {c, "NaN"}    \* ny = 1: u untouched;  ny > 1: u = 0 / NaN
NullA(s, c) == CASE c = "Zero" -> "Zero" [] c = "XZero" -> "Fin" [] OTHER -> "NaN"
IterNull == /\ phase = "iter" /\ tcls # "Fin" /\ ~Guarded
            /\ tcls' \in NullNext(site, tcls)
            /\ a' = NullA(site, tcls) /\ b' = "NaN"
            /\ conv' = (IF site = "PLS" /\ first THEN "Big" ELSE "NaN")             \* NaN < tol is false: no exit
            /\ first' = FALSE /\ tick' = 1 - tick
            /\ UNCHANGED <<site, rank, npc, noise, cblk, pc, phase, left, evals, bvar>>
GuardStop == /\ phase = "iter" /\ tcls # "Fin" /\ Guarded
             /\ Store("zero")
             /\ UNCHANGED <<site, rank, npc, noise, cblk, tcls, first, a, b, conv, left, tick, bvar>>
Finish == /\ phase = "start" /\ site \in NipalsSites /\ pc = npc /\ phase' = "done"
          /\ UNCHANGED <<site, rank, npc, noise, cblk, pc, tcls, first, a, b, conv, left, tick, evals, bvar>>

\* counter-bounded loops: `left` is the remaining budget (cap - it); a pass either stops or consumes one unit
CntStart == /\ phase = "start" /\ site \in CounterSites /\ left' = MaxIter /\ phase' = "loop"
            /\ UNCHANGED <<site, rank, npc, noise, cblk, pc, tcls, first, a, b, conv, tick, evals, bvar>>
CntPass == /\ phase = "loop" /\ left > 0
           /\ \/ left' = left - 1 /\ phase' = "loop"          \* not stable yet (also: comparisons on NaN are false)
              \/ left' = left /\ phase' = "done"              \* stop criterion met
           /\ tick' = 1 - tick
           /\ UNCHANGED <<site, rank, npc, noise, cblk, pc, tcls, first, a, b, conv, evals, bvar>>
CntExhaust == /\ phase = "loop" /\ left = 0 /\ phase' = "done"
              /\ UNCHANGED <<site, rank, npc, noise, cblk, pc, tcls, first, a, b, conv, left, tick, evals, bvar>>

Next == \/ \E c \in {"Fin", "Zero", "XZero"} : Start(c)
        \/ \E k \in 1..MaxIter : IterCont(k)
        \/ \E k \in 1..MaxIter : IterConv(k)
        \/ \E k \in 1..MaxIter : IterDie(k)
        \/ IterNull \/ GuardStop \/ Finish
        \/ CntStart \/ CntPass \/ CntExhaust
Spec == Init /\ [][Next]_vars
FairSpec == Spec /\ WF_vars(Next)

Terminates == <>(phase = "done")
BeyondRankZero == (phase = "done" /\ site \in NipalsSites) =>
                     /\ \A i \in 1..npc : evals[i] = (IF i <= rank THEN "pos" ELSE "zero")
                     /\ bvar = "fin"
CounterVariant == [][(phase = "loop" /\ phase' = "loop") => left' < left]_vars
TypeOK == /\ tcls \in {"Fin", "Zero", "XZero", "NaN"} /\ phase \in {"start", "iter", "loop", "done"}
          /\ pc \in 0..npc /\ left \in 0..MaxIter /\ conv \in {"Big", "Small", "NaN"}
====
