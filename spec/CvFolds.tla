---- MODULE CvFolds ----
(* C05.  Operator library: fold generation, train/test splitting and result merging of the cross-validation drivers          *)
(* (modelvalidation.c): random_kfold_group_generator (rejection sampling, RNG draw left nondeterministic so *)
(* EVERY stream is covered), kfold_group_train_test_split, the label-driven fold matrix of KFoldCV, and the *)
(* per-group merge with its prediction counter.                                                          *)
(* Object ids are 0-based as in the C; the fold matrix gid is a sequence of rows, -1 = empty slot.        *)
EXTENDS Integers, Sequences, FiniteSets, TLC

CeilDiv(a, b) == (a + b - 1) \div b

---------------------------------------------------------------------------------------------------------
(* operator library (also used by the trace specification)                                               *)
RECURSIVE Flatten(_)
Flatten(rows) == IF rows = <<>> THEN <<>> ELSE rows[1] \o Flatten(Tail(rows))
RECURSIVE Compact(_)                   \* drop the -1 entries, keep order
Compact(s) == IF s = <<>> THEN <<>> ELSE (IF s[1] = -1 THEN <<>> ELSE <<s[1]>>) \o Compact(Tail(s))
Range(s) == {s[i] : i \in DOMAIN s}
Count(s, v) == Cardinality({i \in DOMAIN s : s[i] = v})
NoDup(s) == \A i, j \in DOMAIN s : i # j => s[i] # s[j]

\* what the property states about a fold matrix: every object index in exactly one slot, nothing else
IsPartition(gid, n) == LET f == Flatten(gid) IN
   /\ \A v \in 0..(n - 1) : Count(f, v) = 1
   /\ \A i \in DOMAIN f : f[i] \in -1..(n - 1)
\* how the present generator lays it out: g rows of ceil(n/g) slots, filled row-major, -1 only at the tail
ImplShape(gid, g, n) == LET f == Flatten(gid) IN
   /\ Len(gid) = g /\ \A r \in 1..g : Len(gid[r]) = CeilDiv(n, g)
   /\ \A i \in DOMAIN f : (i <= n) <=> (f[i] # -1)

\* train / test id sequences of group grp (0-based), in the order the C copies rows
RECURSIVE TrainRows(_, _, _)
TrainRows(gid, grp, r) == IF r > Len(gid) THEN <<>>
                          ELSE (IF r - 1 = grp THEN <<>> ELSE Compact(gid[r])) \o TrainRows(gid, grp, r + 1)
TrainOf(gid, grp) == TrainRows(gid, grp, 1)
TestOf(gid, grp) == Compact(gid[grp + 1])
\* what the property states about one split
SplitIsSound(train, test, n) ==
   /\ Range(train) \cap Range(test) = {}
   /\ Range(train) \cup Range(test) = 0..(n - 1)
   /\ NoDup(train) /\ NoDup(test)

\* fold matrix built by KFoldCV from user labels (0-based objects, labels 0..): row g lists the objects with
\* label g in increasing order, padded with -1 to the size of the largest group; label gaps give empty rows
MaxOf(S) == CHOOSE m \in S : \A x \in S : x <= m
Members(lab, g) == {j \in 0..(Len(lab) - 1) : lab[j + 1] = g}
RECURSIVE SortedSeq(_)
SortedSeq(S) == IF S = {} THEN <<>> ELSE LET m == CHOOSE x \in S : \A y \in S : x <= y IN <<m>> \o SortedSeq(S \ {m})
Pad(s, w) == s \o [i \in 1..(w - Len(s)) |-> -1]
LabelGid(lab) == LET gmax == MaxOf(Range(lab)) + 1
                     w == MaxOf({Cardinality(Members(lab, g)) : g \in 0..(gmax - 1)})
                 IN [r \in 1..gmax |-> Pad(SortedSeq(Members(lab, r - 1)), w)]
\* what the property states about a label-driven fold matrix: object j sits in the row of its own label
ByLabel(gid, lab) == /\ IsPartition(gid, Len(lab))
                     /\ \A r \in 1..Len(gid) : \A v \in Range(Compact(gid[r])) : lab[v + 1] = r - 1
====
