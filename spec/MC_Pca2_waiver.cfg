SPECIFICATION Spec2
CONSTANTS
  Budget = 10
  MaxRank = 3
  Ns = {8, 38}
  Fault = "none"
  Alphabet = {1}
  MaxLen = 1
  ShapeSet = "none"
  StartRule = "argmax"
  Fault2 = "none"
  ResizeZeroes = TRUE
INVARIANT NoWaiver
CHECK_DEADLOCK FALSE
