SPECIFICATION TSpec
CONSTANTS
  NSlot = 8
  PropOnly = TRUE
  MCFns = {}
  MCShapes = {}
  MCMax = 0
CONSTRAINT Diag
POSTCONDITION TraceAccepted
CHECK_DEADLOCK FALSE
