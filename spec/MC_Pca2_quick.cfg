SPECIFICATION Spec2
CONSTANTS
  Budget = 10
  MaxRank = 3
  Ns = {8, 38}
  Fault = "none"
  Alphabet = {1}
  MaxLen = 1
  ShapeSet = "none"
  StartRule = "argmax"
  Fault2 = "none"
  ResizeZeroes = TRUE
INVARIANT LedgerAccepts2
INVARIANT BudgetExact2
INVARIANT Closure2
INVARIANT Type2
INVARIANT StartTheorems
CHECK_DEADLOCK FALSE
