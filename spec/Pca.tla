---- MODULE Pca ----
(* C01 / C02.  Ledger specification of PCA() / PCAScorePredictor() / PCAIndVarPredictor() (src/pca.c).              *)
(*                                                                                                               *)
(* The NIPALS numbers are NOT recomputed here.  The ledger is a state machine over scaled integers that says      *)
(* which identities must hold after which step, with which bound, and how successive steps relate:                *)
(*   - variance budget   ssLeft_k = ssLeft_{k-1} - eval_k   and the independently measured residual |E_k|^2       *)
(*     equals it (Pythagoras: fails when the deflation or the eigenvalue is wrong),                                *)
(*   - eigenvalues non-negative and non-increasing, explained variance = eigenvalue / ss0,                         *)
(*   - rank countdown: Finish only after npc extractions; all components taken => nothing left, sum = 100 %.      *)
(* Units: fractions of ss0 in 1e-9 (ss0 = One), algebraic residuals in 1e-12 (LedgerArith).                        *)
(*                                                                                                               *)
(* Section "Ledger"   : the predicates (Prop.., Impl..) - used by the model below and by TracePca.tla.               *)
(* Section "Model"    : (M) a nondeterministic ideal PCA over small integer budgets emits events; invariants say  *)
(*                      the ledger accepts every ideal run (not contradictory), the budget never goes negative,   *)
(*                      Finish comes only after npc extractions and full rank closes the budget; a Fault constant *)
(*                      injects model-level faults which the ledger must reject (not vacuous).                    *)
(* Section "Spectral" : (M, GEN) C02: admissible integer spectra, extraction by arg-max, explained variance is the *)
(*                      descending normalised spectrum; the criterion-implied bound recurrence (LedgerArith).      *)
EXTENDS LedgerArith, FiniteSets, TLC, Json

CONSTANTS Budget,        \* model: ss0 = Budget quanta (Budget divides 10^9)
          MaxRank,       \* model: spectra of at most this many components
          Ns,            \* model: object counts tried
          Fault,         \* model: "none" | "no_deflation" | "eval_scaled" | "order_swapped" | "ss_times_n" | "early_finish"
          Alphabet,      \* spectral: squared singular values to choose from
          MaxLen,        \* spectral: spectra of at most this many components
          ShapeSet,      \* spectral: "quick" | "thorough" | "none": which shapes <<n, c>> are emitted with each spectrum
          StartRule      \* spectral: "argmax" (the property) | "first" (a wrong extraction order, must violate SpectralOrder)

(* ===================================================================================== Ledger *)
KK == 30                                  \* C02 bound constant (DESIGN C02; calibrated, see lib/checks/c02.py)

RECURSIVE SeqSum(_)
SeqSum(s) == IF Len(s) = 0 THEN 0 ELSE s[1] + SeqSum(Tail(s))
RECURSIVE SumTol(_, _)
SumTol(n, ev) == IF Len(ev) = 0 THEN 0 ELSE TolEig(n, ev[1]) + SumTol(n, Tail(ev))

ShapeOk(n, c, scaling, npc, rank, nproc) ==
  /\ n \in 2..60 /\ c \in 1..25 /\ scaling \in -1..5 /\ nproc >= 1
  /\ 1 <= npc /\ npc <= rank /\ rank <= Min2(n, c)

(* after component k: algebraic identities, eigenvalue sign and order, variance budget *)
PropAlg(ev) == ev.ortho <= TolAlg /\ ev.proj <= TolAlg /\ ev.recon <= TolAlg /\ ev.rorth <= TolAlg
PropEvalSign(ev) == ev.eval >= 0
PropEvalOrder(n, lastEval, ev) == ev.eval <= lastEval + TolEig(n, lastEval)
PropBudget(n, ssLeft, ev) == /\ Abs((ssLeft - ev.eval) - ev.resid) <= TolEig(n, ev.eval)
                             /\ ev.resid >= -3                                   \* the budget never goes negative
PropExtract(n, ssLeft, lastEval, ev) ==
  PropAlg(ev) /\ PropEvalSign(ev) /\ PropEvalOrder(n, lastEval, ev) /\ PropBudget(n, ssLeft, ev)

(* explained variances against the ledger's eigenvalues; closure when every component was taken *)
PropVarexp(n, evals, ve) ==
  /\ Len(ve) = Len(evals)
  /\ \A i \in 1..Len(ve) : ve[i] >= 0 /\ Abs(ve[i] - evals[i]) <= TolEig(n, evals[i])
  /\ \A i \in 2..Len(ve) : ve[i] <= ve[i-1] + TolEig(n, ve[i-1])
  /\ SeqSum(ve) <= One + SumTol(n, evals)
PropClosed(n, evals, ssLeft, ve) ==
  /\ ssLeft <= 3
  /\ Abs(SeqSum(ve) - One) <= SumTol(n, evals)
PropFinish(n, evals, ssLeft, isFull, ve) == PropVarexp(n, evals, ve) /\ (isFull => PropClosed(n, evals, ssLeft, ve))
PropProject(err) == err <= TolAlg
PropResidual(err) == err <= TolAlg
(* back-transformation, measured in units of |E0|: X itself is only representable to one ulp of its entries, which in those units is   *)
(* repr (logged from the input alone; up to 1e-8 for locations 1e6 over spreads 0.02) - the identity cannot hold better than that      *)
PropBack(err, repr) == err <= TolAlg + 4 * Min2(repr, 100000)

(* how the present code happens to do it (switched off by PropOnly in the trace spec) *)
ImplExtract(ev) == ev.dmodx <= TolAlg          \* model.dmodx column k = row norms of the library's own residual matrix
ImplProject(err) == err <= 100                 \* the predictor repeats the fit's arithmetic: agreement to 1e-10

(* ===================================================================================== Model (M) *)
VARIABLES n, c, scaling, npc, rank, tail, k, ssLeft, evals, phase,   \* the ledger state
          truth, ok                                                   \* model only: hidden true spectrum (quanta), every event accepted so far
lvars == <<n, c, scaling, npc, rank, tail, k, ssLeft, evals, phase, truth, ok>>
VARIABLES spectrum, remaining, extracted, shape                       \* section Spectral
svars == <<spectrum, remaining, extracted, shape>>

Unit == One \div Budget
(* non-increasing sequences of positive quanta, length r, sum = total *)
RECURSIVE Parts(_, _, _)
Parts(total, r, mx) == IF r = 0 THEN (IF total = 0 THEN {<<>>} ELSE {})
                       ELSE UNION {{<<f>> \o p : p \in Parts(total - f, r - 1, f)} : f \in 1..Min2(total, mx)}
Spectra == UNION {Parts(Budget, r, Budget) : r \in 1..MaxRank}
LastEval == IF Len(evals) = 0 THEN One ELSE evals[Len(evals)]
IsFull == npc = rank /\ tail = 0
(* legitimate deviations: t't of the stored scores is a Rayleigh quotient (second-order accurate: a few units of rounding),  *)
(* while the explained variance is computed from t't read one half-iteration earlier (first order: half the tolerance, MFinish) *)
Jitter(nn, ev) == {0, -2, 2}
AlgVals == {0, TolAlg}

LInit == /\ n = 2 /\ c = 1 /\ scaling = 0 /\ npc = 0 /\ rank = 0 /\ tail = 0 /\ k = 0 /\ ssLeft = One /\ evals = <<>>
         /\ phase = "Idle" /\ truth = <<>> /\ ok = TRUE

MFit == /\ phase = "Idle"
        /\ \E nn \in Ns, sp \in Spectra, np \in 1..MaxRank :
             /\ np <= Len(sp)
             /\ n' = nn /\ c' = Len(sp) /\ scaling' = 0 /\ npc' = np /\ rank' = Len(sp) /\ tail' = 0
             /\ truth' = sp
        /\ k' = 0 /\ ssLeft' = One /\ evals' = <<>> /\ phase' = "Fit" /\ ok' = ok /\ UNCHANGED svars

MExtract == /\ phase = "Fit" /\ k < npc
            /\ \E j \in Jitter(n, truth[k+1] * Unit), a \in AlgVals :
                 LET idx   == IF Fault = "order_swapped" /\ npc >= 2 /\ k < 2 THEN 2 - k ELSE k + 1   \* components 1 and 2 exchanged
                     trueE == truth[idx] * Unit
                     good  == IF k + 1 = rank THEN ssLeft ELSE Max2(0, trueE + j)       \* the last component takes what is left (Pythagoras)
                     eval  == IF Fault = "eval_scaled" THEN good + good \div 500 ELSE good  \* fault: eigenvalue 0.2 % off
                     resid == IF Fault = "no_deflation" THEN ssLeft ELSE ssLeft - good
                     ev    == [k |-> k + 1, eval |-> eval, resid |-> resid, ortho |-> a, proj |-> a, recon |-> a, rorth |-> a, dmodx |-> 0]
                 IN /\ ok' = (ok /\ PropExtract(n, ssLeft, LastEval, ev))
                    /\ ssLeft' = resid /\ evals' = Append(evals, eval)
            /\ k' = k + 1
            /\ UNCHANGED <<n, c, scaling, npc, rank, tail, phase, truth>> /\ UNCHANGED svars

MFinish == /\ phase = "Fit" /\ (k = npc \/ (Fault = "early_finish" /\ k >= 1))
           /\ \E js \in [1..k -> {0, 1}] :
                LET ve == [i \in 1..k |->
                             LET base == IF Fault = "ss_times_n" THEN evals[i] \div n ELSE evals[i]
                             IN Max2(0, base + (IF js[i] = 1 THEN TolEig(n, evals[i]) \div 2 ELSE 0))]
                IN ok' = (ok /\ k = npc /\ PropFinish(n, evals, ssLeft, IsFull, ve))
           /\ phase' = "Finished"
           /\ UNCHANGED <<n, c, scaling, npc, rank, tail, k, ssLeft, evals, truth>> /\ UNCHANGED svars

MProject == /\ phase = "Finished" /\ \E e \in AlgVals : ok' = (ok /\ PropProject(e))
            /\ phase' = "Projected" /\ UNCHANGED <<n, c, scaling, npc, rank, tail, k, ssLeft, evals, truth>> /\ UNCHANGED svars
MBack == /\ phase = "Projected" /\ \E e \in AlgVals : ok' = (ok /\ PropBack(e, 0))
         /\ phase' = "Idle" /\ UNCHANGED <<n, c, scaling, npc, rank, tail, k, ssLeft, evals, truth>> /\ UNCHANGED svars

LNext == MFit \/ MExtract \/ MFinish \/ MProject \/ MBack

(* the ledger accepts every run of the ideal PCA (consistency); with Fault # "none" TLC must find a counterexample *)
LedgerAccepts == ok
BudgetNonNegative == ssLeft >= -3 * (k + 1)
FinishAfterNpc == phase \in {"Finished", "Projected"} => k = npc
FullRankCloses == (phase \in {"Finished", "Projected"} /\ IsFull /\ ok) => (ssLeft <= 3 /\ Abs(SeqSum(evals) - One) <= SumTol(n, evals) + 3 * npc)
EvalsOrdered == ok => \A i \in 2..Len(evals) : evals[i] <= evals[i-1] + TolEig(n, evals[i-1])
LTypeOK == /\ k \in 0..MaxRank /\ Len(evals) = k /\ phase \in {"Idle", "Fit", "Finished", "Projected"}
           /\ (phase # "Idle" => k <= npc /\ npc <= rank)

(* ===================================================================================== Spectral (C02) *)
SetMax(S) == CHOOSE x \in S : \A y \in S : y <= x
SetMin(S) == CHOOSE x \in S : \A y \in S : x <= y
RECURSIVE SortDesc(_)
SortDesc(S) == IF S = {} THEN <<>> ELSE <<SetMax(S)>> \o SortDesc(S \ {SetMax(S)})
(* the property's quantifier: singular ratios s[k+1]/s[k] <= 0.85, i.e. squared ratios <= 0.7225 *)
Admissible(sq) == \A i \in 1..(Len(sq) - 1) : 10000 * sq[i+1] <= 7225 * sq[i]
AdmissibleSets == {S \in SUBSET Alphabet : S # {} /\ Cardinality(S) <= MaxLen /\ Admissible(SortDesc(S))}
SetSum(S) == SeqSum(SortDesc(S))
VarexpOf(x) == MulDiv(x, One, SetSum(spectrum))                    \* 1e-9 units of 100 %

Shapes == IF ShapeSet = "quick" THEN {<<7, 5>>, <<30, 6>>, <<6, 12>>, <<9, 9>>}
          ELSE IF ShapeSet = "thorough" THEN {<<7, 5>>, <<30, 6>>, <<6, 12>>, <<60, 25>>, <<9, 9>>, <<4, 25>>, <<2, 3>>, <<3, 3>>, <<12, 2>>, <<25, 25>>, <<45, 3>>}
          ELSE {}
SInit == /\ spectrum \in AdmissibleSets
         /\ shape \in {sh \in Shapes : sh[1] - 1 >= Cardinality(spectrum) /\ sh[2] >= Cardinality(spectrum)}
         /\ remaining = spectrum /\ extracted = <<>>
ExtractPrincipal == /\ remaining # {}
                    /\ \E x \in remaining :
                         /\ (StartRule = "argmax" => \A y \in remaining : y <= x)
                         /\ (StartRule = "first" => x = (IF Len(extracted) = 0 THEN SetMin(remaining) ELSE SetMax(remaining)))
                         /\ extracted' = Append(extracted, x) /\ remaining' = remaining \ {x}
                    /\ UNCHANGED <<spectrum, shape>> /\ UNCHANGED lvars
SDone == remaining = {} /\ UNCHANGED svars /\ UNCHANGED lvars
SNext == ExtractPrincipal \/ SDone

(* the two models share the module: each leaves the other's variables alone *)
LSpec == (LInit /\ spectrum = {} /\ remaining = {} /\ extracted = <<>> /\ shape = <<0, 0>>) /\ [][LNext]_<<lvars, svars>>
SSpec == (SInit /\ LInit) /\ [][SNext]_<<lvars, svars>>

(* component k carries the k-th largest eigenvalue; explained variance is the descending normalised spectrum *)
SpectralOrder == \A i \in 1..Len(extracted) : extracted[i] = SortDesc(spectrum)[i]
VarexpDescending == \A i \in 1..(Len(extracted) - 1) : VarexpOf(extracted[i]) >= VarexpOf(extracted[i+1])
VarexpNormalised == remaining = {} =>
                      LET tot == SeqSum([i \in 1..Len(extracted) |-> VarexpOf(extracted[i])])
                      IN tot <= One /\ tot >= One - Len(extracted)
(* the criterion-implied bound is defined (every compared component has a bound, increasing with k) *)
BoundDefined == remaining = {} =>
                  LET s == extracted
                      m == NCmp(s, 1, 1, MaxLen)
                      b == BoundsPT(s, KK * EpsPca9(shape[1]), m)
                  IN m = Len(s) /\ \A i \in 1..m : /\ b.t[i] > 0 /\ b.t[i] <= Cap /\ b.p[i] > 0 /\ b.p[i] <= Cap
                                                     /\ (i > 1 => b.p[i] >= b.p[i-1] /\ b.t[i] >= b.p[i-1])
(* GEN: one line per complete case *)
Emit == IF remaining = {} THEN PrintT("@@" \o ToJson([sig2 |-> extracted, n |-> shape[1], c |-> shape[2]])) ELSE TRUE
====
