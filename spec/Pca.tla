---- MODULE Pca ----
(* C01 / C02.  Ledger specification of PCA() / PCAScorePredictor() / PCAIndVarPredictor() (src/pca.c).              *)
(*                                                                                                               *)
(* The NIPALS numbers are NOT recomputed here.  The ledger is a state machine over scaled integers that says      *)
(* which identities must hold after which step, with which bound, and how successive steps relate:                *)
(*   - variance budget   ssLeft_k = ssLeft_{k-1} - eval_k   and the independently measured residual |E_k|^2       *)
(*     equals it (Pythagoras: fails when the deflation or the eigenvalue is wrong),                                *)
(*   - eigenvalues non-negative and non-increasing, explained variance = eigenvalue / ss0,                         *)
(*   - rank countdown: Finish only after npc extractions; all components taken => nothing left, sum = 100 %.      *)
(* Units: fractions of ss0 in 1e-9 (ss0 = One), algebraic residuals in 1e-12 (LedgerArith).                        *)
(*                                                                                                               *)
(* Section "Ledger"   : the predicates (Prop.., Impl..) - used by the model below and by TracePca.tla.               *)
(* Section "Model"    : (M) a nondeterministic ideal PCA over small integer budgets emits events; invariants say  *)
(*                      the ledger accepts every ideal run (not contradictory), the budget never goes negative,   *)
(*                      Finish comes only after npc extractions and full rank closes the budget; a Fault constant *)
(*                      injects model-level faults which the ledger must reject (not vacuous).                    *)
(* Section "Spectral" : (M, GEN) C02: admissible integer spectra, extraction by arg-max, explained variance is the *)
(*                      descending normalised spectrum; the criterion-implied bound recurrence (LedgerArith).      *)
EXTENDS LedgerArith, FiniteSets, TLC, Json

CONSTANTS Budget,        \* model: ss0 = Budget quanta (Budget divides 10^9)
          MaxRank,       \* model: spectra of at most this many components
          Ns,            \* model: object counts tried
          Fault,         \* model: "none" | "no_deflation" | "eval_scaled" | "order_swapped" | "ss_times_n" | "early_finish"
          Alphabet,      \* spectral: squared singular values to choose from
          MaxLen,        \* spectral: spectra of at most this many components
          ShapeSet,      \* spectral: "quick" | "thorough" | "none": which shapes <<n, c>> are emitted with each spectrum
          StartRule      \* spectral: "argmax" (the property) | "first" (a wrong extraction order, must violate SpectralOrder)

(* ===================================================================================== Ledger *)
KK == 30                                  \* C02 bound constant (DESIGN C02; calibrated, see lib/checks/c02.py)

RECURSIVE SeqSum(_)
SeqSum(s) == IF Len(s) = 0 THEN 0 ELSE s[1] + SeqSum(Tail(s))
RECURSIVE SumTol(_, _)
SumTol(n, ev) == IF Len(ev) = 0 THEN 0 ELSE TolEig(n, ev[1]) + SumTol(n, Tail(ev))

ShapeOk(n, c, scaling, npc, rank, nproc) ==
  /\ n \in 2..60 /\ c \in 1..25 /\ scaling \in -1..5 /\ nproc >= 1
  /\ 1 <= npc /\ npc <= rank /\ rank <= Min2(n, c)

(* after component k: algebraic identities, eigenvalue sign and order, variance budget *)
PropAlg(ev) == ev.ortho <= TolAlg /\ ev.proj <= TolAlg /\ ev.recon <= TolAlg /\ ev.rorth <= TolAlg
PropEvalSign(ev) == ev.eval >= 0
PropEvalOrder(n, lastEval, ev) == ev.eval <= lastEval + TolEig(n, lastEval)
PropBudget(n, ssLeft, ev) == /\ Abs((ssLeft - ev.eval) - ev.resid) <= TolEig(n, ev.eval)
                             /\ ev.resid >= -3                                   \* the budget never goes negative
PropExtract(n, ssLeft, lastEval, ev) ==
  PropAlg(ev) /\ PropEvalSign(ev) /\ PropEvalOrder(n, lastEval, ev) /\ PropBudget(n, ssLeft, ev)

(* explained variances against the ledger's eigenvalues; closure when every component was taken *)
PropVarexp(n, evals, ve) ==
  /\ Len(ve) = Len(evals)
  /\ \A i \in 1..Len(ve) : ve[i] >= 0 /\ Abs(ve[i] - evals[i]) <= TolEig(n, evals[i])
  /\ \A i \in 2..Len(ve) : ve[i] <= ve[i-1] + TolEig(n, ve[i-1])
  /\ SeqSum(ve) <= One + SumTol(n, evals)
PropClosed(n, evals, ssLeft, ve) ==
  /\ ssLeft <= 3
  /\ Abs(SeqSum(ve) - One) <= SumTol(n, evals)
PropFinish(n, evals, ssLeft, isFull, ve) == PropVarexp(n, evals, ve) /\ (isFull => PropClosed(n, evals, ssLeft, ve))
PropProject(err) == err <= TolAlg
PropResidual(err) == err <= TolAlg
(* back-transformation, measured in units of |E0|: X itself is only representable to one ulp of its entries, which in those units is   *)
(* repr (logged from the input alone; up to 1e-8 for locations 1e6 over spreads 0.02) - the identity cannot hold better than that      *)
PropBack(err, repr) == err <= TolAlg + 4 * Min2(repr, 100000)

(* ---- C02, location class (INPUT-CLASSES K3): what the column locations cost --------------------------------------------------- *)
(* A column with mean m_j is stored with entries of size |m_j|: the centred entries x_ij - m_j are known only to one ulp of |m_j|, and a  *)
(* mean summed over n entries in double precision is off by at most n ulp.  In units of the leading singular value of E the input     *)
(* alone gives  loc = 2^-53 sqrt(n SUM_j (m_j/scale_j)^2) / sigma_1  (logged, 1e-12 units): E as a correct double-precision routine     *)
(* sees it is E_true + D with |D| <= (n + 1) loc sigma_1 (n for the summed mean, 1 for the storage of a transformed copy in the paired *)
(* runs).  Singular vectors move by at most |D| / gap, scores by |D| (1 + 1/gap) / sigma_k, gap >= 0.15 sigma_k inside the quantifier   *)
(* (singular ratios <= 0.85 on both sides): with the safety factor sqrt(2), CLoc = 12 covers both, and eigenvalue / explained-variance  *)
(* ratios move by at most 4 |D| / sigma_k <= the same term.                                                                            *)
(*   LocBase9(n, loc12) = CLoc (n + 1) loc            in 1e-9 units (rounded up, saturating)                                           *)
(*   LocK9(s, k, lb)    = lb sigma_1 / sigma_k        added to the base term of component k in both bound recurrences: the leakage     *)
(*                                                    into later components is then carried by the recurrence itself                    *)
(* With loc = 0 (every class but K3) the bounds are those of LedgerArith!BoundsPT, unchanged (LocZeroSame below).                        *)
CLoc == 12
LocBase9(nn, loc12) == LET f == CLoc * (nn + 1)
                       IN IF loc12 <= 0 THEN 0
                          ELSE IF loc12 \div 1000 >= One \div f THEN Cap ELSE MulDiv(loc12, f, 1000) + 1          \* (the model found the overflow of the naive guard)
LocK9(s, kk, lb) == IF lb = 0 THEN 0 ELSE SatMul3(Min2(lb, Cap), SR3(s, 1, kk))
(* iterative form (accumulators as operator arguments: TLC evaluates each bound once; the LET form of LedgerArith!BoundsPT re-evaluates   *)
(* the shorter prefix at every use)                                                                                                    *)
RECURSIVE BoundsIter(_, _, _, _, _, _, _)
BoundsIter(s, keps9, m, lb, kk, bp, bt) ==
  IF kk > m THEN [p |-> bp, t |-> bt]
  ELSE BoundsIter(s, keps9, m, lb, kk + 1, Append(bp, SatAdd(StepP(s, keps9, bp, kk), LocK9(s, kk, lb))),
                                            Append(bt, SatAdd(StepT(s, keps9, bp, kk), LocK9(s, kk, lb))))
BoundsPTL(s, keps9, m, lb) == BoundsIter(s, keps9, m, lb, 1, <<>>, <<>>)

(* how the present code happens to do it (switched off by PropOnly in the trace spec) *)
ImplExtract(ev) == ev.dmodx <= TolAlg          \* model.dmodx column k = row norms of the library's own residual matrix
ImplProject(err) == err <= 100                 \* the predictor repeats the fit's arithmetic: agreement to 1e-10

(* ===================================================================================== Model (M) *)
VARIABLES n, c, scaling, npc, rank, tail, k, ssLeft, evals, phase,   \* the ledger state
          truth, ok                                                   \* model only: hidden true spectrum (quanta), every event accepted so far
lvars == <<n, c, scaling, npc, rank, tail, k, ssLeft, evals, phase, truth, ok>>
VARIABLES spectrum, remaining, extracted, shape                       \* section Spectral
svars == <<spectrum, remaining, extracted, shape>>

Unit == One \div Budget
(* non-increasing sequences of positive quanta, length r, sum = total *)
RECURSIVE Parts(_, _, _)
Parts(total, r, mx) == IF r = 0 THEN (IF total = 0 THEN {<<>>} ELSE {})
                       ELSE UNION {{<<f>> \o p : p \in Parts(total - f, r - 1, f)} : f \in 1..Min2(total, mx)}
Spectra == UNION {Parts(Budget, r, Budget) : r \in 1..MaxRank}
LastEval == IF Len(evals) = 0 THEN One ELSE evals[Len(evals)]
IsFull == npc = rank /\ tail = 0
(* legitimate deviations: t't of the stored scores is a Rayleigh quotient (second-order accurate: a few units of rounding),  *)
(* while the explained variance is computed from t't read one half-iteration earlier (first order: half the tolerance, MFinish) *)
Jitter(nn, ev) == {0, -2, 2}
AlgVals == {0, TolAlg}

LInit == /\ n = 2 /\ c = 1 /\ scaling = 0 /\ npc = 0 /\ rank = 0 /\ tail = 0 /\ k = 0 /\ ssLeft = One /\ evals = <<>>
         /\ phase = "Idle" /\ truth = <<>> /\ ok = TRUE

MFit == /\ phase = "Idle"
        /\ \E nn \in Ns, sp \in Spectra, np \in 1..MaxRank :
             /\ np <= Len(sp)
             /\ n' = nn /\ c' = Len(sp) /\ scaling' = 0 /\ npc' = np /\ rank' = Len(sp) /\ tail' = 0
             /\ truth' = sp
        /\ k' = 0 /\ ssLeft' = One /\ evals' = <<>> /\ phase' = "Fit" /\ ok' = ok /\ UNCHANGED svars

MExtract == /\ phase = "Fit" /\ k < npc
            /\ \E j \in Jitter(n, truth[k+1] * Unit), a \in AlgVals :
                 LET idx   == IF Fault = "order_swapped" /\ npc >= 2 /\ k < 2 THEN 2 - k ELSE k + 1   \* components 1 and 2 exchanged
                     trueE == truth[idx] * Unit
                     good  == IF k + 1 = rank THEN ssLeft ELSE Max2(0, trueE + j)       \* the last component takes what is left (Pythagoras)
                     eval  == IF Fault = "eval_scaled" THEN good + good \div 500 ELSE good  \* fault: eigenvalue 0.2 % off
                     resid == IF Fault = "no_deflation" THEN ssLeft ELSE ssLeft - good
                     ev    == [k |-> k + 1, eval |-> eval, resid |-> resid, ortho |-> a, proj |-> a, recon |-> a, rorth |-> a, dmodx |-> 0]
                 IN /\ ok' = (ok /\ PropExtract(n, ssLeft, LastEval, ev))
                    /\ ssLeft' = resid /\ evals' = Append(evals, eval)
            /\ k' = k + 1
            /\ UNCHANGED <<n, c, scaling, npc, rank, tail, phase, truth>> /\ UNCHANGED svars

MFinish == /\ phase = "Fit" /\ (k = npc \/ (Fault = "early_finish" /\ k >= 1))
           /\ \E js \in [1..k -> {0, 1}] :
                LET ve == [i \in 1..k |->
                             LET base == IF Fault = "ss_times_n" THEN evals[i] \div n ELSE evals[i]
                             IN Max2(0, base + (IF js[i] = 1 THEN TolEig(n, evals[i]) \div 2 ELSE 0))]
                IN ok' = (ok /\ k = npc /\ PropFinish(n, evals, ssLeft, IsFull, ve))
           /\ phase' = "Finished"
           /\ UNCHANGED <<n, c, scaling, npc, rank, tail, k, ssLeft, evals, truth>> /\ UNCHANGED svars

MProject == /\ phase = "Finished" /\ \E e \in AlgVals : ok' = (ok /\ PropProject(e))
            /\ phase' = "Projected" /\ UNCHANGED <<n, c, scaling, npc, rank, tail, k, ssLeft, evals, truth>> /\ UNCHANGED svars
MBack == /\ phase = "Projected" /\ \E e \in AlgVals : ok' = (ok /\ PropBack(e, 0))
         /\ phase' = "Idle" /\ UNCHANGED <<n, c, scaling, npc, rank, tail, k, ssLeft, evals, truth>> /\ UNCHANGED svars

LNext == MFit \/ MExtract \/ MFinish \/ MProject \/ MBack

(* the ledger accepts every run of the ideal PCA (consistency); with Fault # "none" TLC must find a counterexample *)
LedgerAccepts == ok
BudgetNonNegative == ssLeft >= -3 * (k + 1)
FinishAfterNpc == phase \in {"Finished", "Projected"} => k = npc
FullRankCloses == (phase \in {"Finished", "Projected"} /\ IsFull /\ ok) => (ssLeft <= 3 /\ Abs(SeqSum(evals) - One) <= SumTol(n, evals) + 3 * npc)
EvalsOrdered == ok => \A i \in 2..Len(evals) : evals[i] <= evals[i-1] + TolEig(n, evals[i-1])
LTypeOK == /\ k \in 0..MaxRank /\ Len(evals) = k /\ phase \in {"Idle", "Fit", "Finished", "Projected"}
           /\ (phase # "Idle" => k <= npc /\ npc <= rank)

(* ===================================================================================== Spectral (C02) *)
SetMax(S) == CHOOSE x \in S : \A y \in S : y <= x
SetMin(S) == CHOOSE x \in S : \A y \in S : x <= y
RECURSIVE SortDesc(_)
SortDesc(S) == IF S = {} THEN <<>> ELSE <<SetMax(S)>> \o SortDesc(S \ {SetMax(S)})
(* the property's quantifier: singular ratios s[k+1]/s[k] <= 0.85, i.e. squared ratios <= 0.7225 *)
Admissible(sq) == \A i \in 1..(Len(sq) - 1) : 10000 * sq[i+1] <= 7225 * sq[i]
AdmissibleSets == {S \in SUBSET Alphabet : S # {} /\ Cardinality(S) <= MaxLen /\ Admissible(SortDesc(S))}
SetSum(S) == SeqSum(SortDesc(S))
VarexpOf(x) == MulDiv(x, One, SetSum(spectrum))                    \* 1e-9 units of 100 %

(* ---- shapes <<n, c, nproc>>: the base shapes run on one processor (hook H2), the MT shapes force nproc workers so that the        *)
(* multithreaded kernels MT_DVectorMatrixDotProduct (t'E, sliced over the c columns) and MT_MatrixDVectorDotProduct (E p, sliced over  *)
(* the n rows) are the ones PCA's NIPALS loop really calls.  Shape relations follow INPUT-CLASSES.md K1 / K2 / K6.                     *)
BaseShapes == IF ShapeSet = "quick" THEN {<<7, 5>>, <<30, 6>>, <<6, 12>>, <<9, 9>>, <<10, 9>>, <<8, 9>>, <<12, 1>>, <<33, 8>>, <<16, 17>>, <<5, 4>>}
              ELSE IF ShapeSet = "thorough" THEN {<<7, 5>>, <<30, 6>>, <<6, 12>>, <<60, 25>>, <<9, 9>>, <<4, 25>>, <<2, 3>>, <<3, 3>>, <<12, 2>>, <<25, 25>>, <<45, 3>>,
                                                  <<10, 9>>, <<8, 9>>, <<12, 1>>, <<2, 1>>, <<33, 8>>, <<16, 17>>, <<5, 4>>, <<32, 4>>, <<31, 32>>, <<65, 33>>,
                                                  <<64, 5>>, <<63, 16>>, <<33, 64>>, <<17, 65>>}
              ELSE {}
NprocSet == IF ShapeSet = "quick" THEN {2, 3, 5, 16} ELSE IF ShapeSet = "thorough" THEN {2, 3, 5, 16, 24} ELSE {}
MaxMtN == IF ShapeSet = "quick" THEN 60 ELSE 75
MaxMtC == IF ShapeSet = "quick" THEN 25 ELSE 50
(* lengths around the slice boundaries of np workers: fewer items than workers (empty slices), k np - 1, k np + 1 (ragged last slice) *)
Around(np) == {np - 1, np + 1, 2 * np - 1, 2 * np + 1}
MtCols(np) == {x \in Around(np) \cup {2, 3 * np + 1} : x >= 2 /\ x <= MaxMtC}
MtRows(np) == {x \in Around(np) \cup {3 * np - 1} : x >= 3 /\ x <= MaxMtN}
AllMtShapes == UNION {{<<r, cc, np>> : r \in MtRows(np), cc \in MtCols(np)} : np \in NprocSet}
(* the quick tier runs a hand-picked part of the cross product (MtShapeClasses checks that it is a part of it) *)
QuickMtShapes == {<<3, 3, 2>>, <<5, 5, 2>>, <<5, 7, 2>>, <<5, 2, 2>>, <<3, 7, 2>>,
                  <<4, 2, 3>>, <<5, 4, 3>>, <<7, 5, 3>>, <<8, 7, 3>>, <<4, 10, 3>>, <<7, 7, 3>>,
                  <<6, 4, 5>>, <<4, 6, 5>>, <<9, 9, 5>>, <<11, 11, 5>>, <<14, 16, 5>>, <<9, 2, 5>>, <<11, 6, 5>>,
                  <<15, 15, 16>>, <<17, 17, 16>>, <<31, 15, 16>>, <<33, 17, 16>>, <<47, 2, 16>>, <<17, 15, 16>>}
MtShapes == IF ShapeSet = "quick" THEN QuickMtShapes ELSE AllMtShapes
OriginalShapes == {<<7, 5>>, <<30, 6>>, <<6, 12>>, <<9, 9>>}
QuickSub == {1, 3, 8, 20, 100, 2000}          \* quick tier: the added shapes get the spectra of at most 3 of these (all spectra in the thorough tier)
Shapes == {<<sh[1], sh[2], 1>> : sh \in BaseShapes} \cup MtShapes

(* the slice recurrence of the two kernels (matrix.c; "assign first" in Slicing.tla): step = ceil(len/np); from = 0; to = step; every   *)
(* worker gets [from, to); from = to; to = IF from + step > len THEN len ELSE to + step                                                *)
CeilDiv(a, b) == (a + b - 1) \div b
RECURSIVE SliceRec(_, _, _, _, _)
SliceRec(w, from, to, step, len) == IF w = 0 THEN <<>>
                                    ELSE <<<<from, to>>>> \o SliceRec(w - 1, to, IF to + step > len THEN len ELSE to + step, step, len)
KernelSlices(len, np) == LET step == CeilDiv(len, np) IN SliceRec(np, 0, step, step, len)
(* what spectral correctness needs from any slicing: every index handed to exactly one worker, every range inside the data *)
SliceCover(sl, len) == /\ \A w \in 1..Len(sl) : 0 <= sl[w][1] /\ sl[w][1] <= sl[w][2] /\ sl[w][2] <= len
                       /\ \A x \in 0..(len - 1) : Cardinality({w \in 1..Len(sl) : sl[w][1] <= x /\ x < sl[w][2]}) = 1
EmptySlices(len, np) == len < np
RaggedTail(len, np) == len % CeilDiv(len, np) # 0
IdleTail(len, np) == len >= np /\ CeilDiv(len, np) * (np - 1) >= len          \* enough items, yet the last worker gets none

(* input-class tags of a shape (carried through the check into coverage.classes) *)
LenTags(len, np, what) ==
     (IF EmptySlices(len, np) THEN {"K6:" \o what \o "<nproc"} ELSE {})
  \cup (IF RaggedTail(len, np) THEN {"K6:" \o what \o "-ragged-last-slice"} ELSE {})
  \cup (IF IdleTail(len, np) THEN {"K6:" \o what \o "-idle-worker"} ELSE {})
  \cup (IF len % np = 1 /\ len > np THEN {"K2:" \o what \o "=k*nproc+1"} ELSE {})
  \cup (IF len % np = np - 1 /\ len > np THEN {"K2:" \o what \o "=k*nproc-1"} ELSE {})
BlockTags(len, what) ==
     (IF len % 4 = 0 THEN {"K2:" \o what \o "=4k"} ELSE IF len % 4 = 1 /\ len > 4 THEN {"K2:" \o what \o "=4k+1"}
      ELSE IF len % 4 = 3 THEN {"K2:" \o what \o "=4k-1"} ELSE {})
  \cup (IF len \in 31..33 THEN {"K2:" \o what \o "~32"} ELSE {}) \cup (IF len \in 63..65 THEN {"K2:" \o what \o "~64"} ELSE {})
ShapeTags(sh) == LET nn == sh[1]  cc == sh[2]  np == sh[3] IN
     (IF cc = 1 THEN {"K1:single-column"} ELSE IF nn = cc THEN {"K1:square"} ELSE IF nn > cc THEN {"K1:tall"} ELSE {"K1:wide"})
  \cup (IF nn = cc + 1 \/ cc = nn + 1 THEN {"K1:n=p+-1"} ELSE {})
  \cup BlockTags(nn, "rows") \cup BlockTags(cc, "cols")
  \cup (IF np > 1 THEN LenTags(cc, np, "cols") \cup LenTags(nn, np, "rows") ELSE {})

SInit == /\ spectrum \in AdmissibleSets
         /\ shape \in {sh \in Shapes : /\ sh[1] - 1 >= Cardinality(spectrum) /\ sh[2] >= Cardinality(spectrum)
                                       /\ (ShapeSet = "quick" /\ ~(sh[3] = 1 /\ <<sh[1], sh[2]>> \in OriginalShapes) => Cardinality(spectrum) <= 3 /\ spectrum \subseteq QuickSub)
                                       /\ (ShapeSet = "thorough" /\ sh[3] > 1 => Cardinality(spectrum) <= 3)}
         /\ remaining = spectrum /\ extracted = <<>>
ExtractPrincipal == /\ remaining # {}
                    /\ \E x \in remaining :
                         /\ (StartRule = "argmax" => \A y \in remaining : y <= x)
                         /\ (StartRule = "first" => x = (IF Len(extracted) = 0 THEN SetMin(remaining) ELSE SetMax(remaining)))
                         /\ extracted' = Append(extracted, x) /\ remaining' = remaining \ {x}
                    /\ UNCHANGED <<spectrum, shape>> /\ UNCHANGED lvars
SDone == remaining = {} /\ UNCHANGED svars /\ UNCHANGED lvars
SNext == ExtractPrincipal \/ SDone

(* the two models share the module: each leaves the other's variables alone *)
LSpec == (LInit /\ spectrum = {} /\ remaining = {} /\ extracted = <<>> /\ shape = <<0, 0, 1>>) /\ [][LNext]_<<lvars, svars>>
SSpec == (SInit /\ LInit) /\ [][SNext]_<<lvars, svars>>

(* component k carries the k-th largest eigenvalue; explained variance is the descending normalised spectrum *)
SpectralOrder == \A i \in 1..Len(extracted) : extracted[i] = SortDesc(spectrum)[i]
VarexpDescending == \A i \in 1..(Len(extracted) - 1) : VarexpOf(extracted[i]) >= VarexpOf(extracted[i+1])
VarexpNormalised == remaining = {} =>
                      LET tot == SeqSum([i \in 1..Len(extracted) |-> VarexpOf(extracted[i])])
                      IN tot <= One /\ tot >= One - Len(extracted)
(* the criterion-implied bound is defined (every compared component has a bound, increasing with k) *)
BoundDefined == remaining = {} =>
                  LET s == extracted
                      m == NCmp(s, 1, 1, MaxLen)
                      b == BoundsPT(s, KK * EpsPca9(shape[1]), m)
                  IN m = Len(s) /\ \A i \in 1..m : /\ b.t[i] > 0 /\ b.t[i] <= Cap /\ b.p[i] > 0 /\ b.p[i] <= Cap
                                                     /\ (i > 1 => b.p[i] >= b.p[i-1] /\ b.t[i] >= b.p[i-1])
(* the location term: absent it changes nothing, it only ever widens, and it saturates instead of overflowing *)
LocLevels == {25000, 2000000000}
LocSound == (remaining = {} /\ shape \in {<<7, 5, 1>>, <<30, 6, 1>>} /\ (ShapeSet = "quick" => spectrum \subseteq QuickSub)) =>
              \* the term depends on the spectrum and n only: two shapes that admit every spectrum suffice (quick tier: the spectra over QuickSub;
              \* evaluating a bound sequence is the expensive part of this model)
              LET s    == extracted
                  m    == NCmp(s, 1, 1, MaxLen)
                  keps == KK * EpsPca9(shape[1])
              IN \A b0 \in {BoundsPT(s, keps, m)} :                                                      \* (singleton sets: TLC evaluates each bound sequence once)
                   /\ BoundsPTL(s, keps, m, 0) = b0                                                       \* LocZeroSame
                   /\ \A lv \in LocLevels : \A lb \in {LocBase9(shape[1], lv)} : \A b \in {BoundsPTL(s, keps, m, lb)} :
                        /\ lb > 0 /\ lb <= Cap
                        /\ \A i \in 1..m : \A lk \in {LocK9(s, i, lb)} :
                             /\ b.p[i] >= b0.p[i] /\ b.t[i] >= b0.t[i] /\ b.p[i] <= Cap /\ b.t[i] <= Cap
                             /\ lk >= lb /\ lk <= Cap                                                    \* sigma_1/sigma_k >= 1
                             /\ (b0.p[i] < Cap \div 2 /\ lk < Cap \div 2 => b.p[i] >= b0.p[i] + lk)         \* the term really is added
                             /\ (i > 1 => lk >= LocK9(s, i - 1, lb))
(* the kernels' slice recurrence hands every column / row to exactly one worker, for every emitted shape x processor count;            *)
(* the shape classes are what their names say                                                                                         *)
SlicesCover == LET nn == shape[1]  cc == shape[2]  np == shape[3] IN
                 (np >= 1 /\ extracted = <<>>) => /\ Len(KernelSlices(cc, np)) = np /\ SliceCover(KernelSlices(cc, np), cc)
                            /\ Len(KernelSlices(nn, np)) = np /\ SliceCover(KernelSlices(nn, np), nn)
MtShapeClasses == (shape[3] > 1 /\ extracted = <<>>) =>
                    LET nn == shape[1]  cc == shape[2]  np == shape[3] IN
                      /\ shape \in AllMtShapes
                      /\ (EmptySlices(cc, np) <=> KernelSlices(cc, np)[np] = <<cc, cc>> /\ cc < np)
                      /\ (RaggedTail(cc, np) <=> \E w \in 1..np : LET sl == KernelSlices(cc, np)[w] IN sl[2] - sl[1] > 0 /\ sl[2] - sl[1] < CeilDiv(cc, np))
                      /\ (IdleTail(cc, np) <=> cc >= np /\ KernelSlices(cc, np)[np][1] = KernelSlices(cc, np)[np][2])
                      /\ \/ EmptySlices(cc, np) \/ RaggedTail(cc, np) \/ IdleTail(cc, np)                         \* every MT shape is in a boundary class
                         \/ EmptySlices(nn, np) \/ RaggedTail(nn, np) \/ IdleTail(nn, np)
(* GEN: one line per complete case *)
Emit == IF remaining = {} THEN PrintT("@@" \o ToJson([sig2 |-> extracted, n |-> shape[1], c |-> shape[2], np |-> shape[3], tags |-> ShapeTags(shape)])) ELSE TRUE

(* ===================================================================================== C01, round 3 (appended; nothing above is changed) *)
(* ---- the known finding PCA:eigenvalue-order:start-orthogonal ------------------------------------------------------------------------------- *)
(* PCA() starts component k from the column of the deflated matrix with the largest sum of squares and stops when                              *)
(*   |t_new - t_old|^2 / (n |t_new|^2) < PCACONVERGENCE = 1e-10.                                                                               *)
(* Write the iterate as t = |t| (x u1 + ...), u1 the dominant left singular vector of the deflated matrix (eigenvalue lam1), and let rho be    *)
(* the growth factor of |t| per pass (at the stop: the returned eigenvalue t't).  One pass multiplies the u1 coefficient by lam1, so x grows   *)
(* by 1/r per pass, r = rho/lam1 <= 1, and never decreases: x_m >= x_0 = cos(start column, u1).  The u1 part of t_new - t_old alone is         *)
(* |t| x_m (1/r - 1), hence the rule can only fire while   x_0^2 (1 - r)^2 <= 1e-10 n r^2.   When that holds for a start column (nearly)         *)
(* orthogonal to u1 the routine returns a NON-dominant component first and the dominant one afterwards: the stored explained variances        *)
(* increase.  Exactly orthogonal designs (x_0 = 0: factorial plans, orthogonal contrasts) do this on every run.  The harness logs, for every    *)
(* component, cos^2 = x_0^2 (1e-12 and 1e-9 units; its own dgesdd of its own deflated matrix) and r = t't / lam1 (1e-9 units).                  *)
(* SFStart = 4 on the amplitude (16 on the squares) covers what the derivation drops: the change of |t| between the two compared iterates,      *)
(* tan vs cos of the start angle, the 1e-9 quantisation of r, and the rounding that separates the library's deflated matrix from the harness's. *)
(* A component whose start column has a cos^2 above the bound was NOT stopped by the documented rule: its mis-ordering stays a violation.        *)
SFStart == 4
CritPca12 == 100                                   \* PCACONVERGENCE = 1e-10 in 1e-12 units
SatQ == 2000000000                                 \* where the harness's quantisers saturate
Sq9(x9) == MulDiv(x9, x9, One)                     \* square of a number in 0..1 (1e-9 units)
(* cos^2 (1 - r)^2 in 1e-21 units; the 1e-12 reading saturates at 2e-3: above that the 1e-9 reading is used (and a gap^2 > 1e-4 can never pass) *)
StartLhs(sc12, sc9, gap2) == IF sc12 < SatQ THEN MulDiv(sc12, gap2, One)
                             ELSE IF gap2 > 100000 THEN SatQ ELSE MulDiv(sc9, gap2, 1000000)
StartRhs(nn, r9) == MulDiv(SFStart * SFStart * CritPca12 * nn, Sq9(r9), One)
PrematureStop(nn, sc12, sc9, r9) ==
  /\ r9 >= 0 /\ r9 < One /\ sc12 >= 0 /\ sc9 >= 0 /\ sc9 <= One
  /\ StartLhs(sc12, sc9, Sq9(One - r9)) <= StartRhs(nn, r9)
(* the later, larger eigenvalue must be explained by what the earlier deflated matrix still held: eval_next <= lam1_prev = eval_prev / r         *)
StartCoherent(nn, prevEval, r9, nextEval) == MulDiv(nextEval, r9, One) <= prevEval + TolEig(nn, prevEval)
(* prev = the Extract event of the component that stopped early, next = the event whose eigenvalue exceeds it *)
StartOrthogonal(nn, prev, next) == /\ PrematureStop(nn, prev.sc12, prev.sc9, prev.r9)
                                   /\ StartCoherent(nn, prev.eval, prev.r9, next.eval)

(* Extract without the order clause (the order clause is PropEvalOrder, or the classified known finding) *)
PropExtractNoOrder(nn, ssL, ev) == PropAlg(ev) /\ PropEvalSign(ev) /\ PropBudget(nn, ssL, ev)
(* explained variances: as PropVarexp, but their ORDER is only demanded where the ledger's eigenvalues are themselves in order - an inversion  *)
(* of the eigenvalues was judged when it was extracted (violation or known finding) and must not raise a second alarm here                     *)
PropVarexpW(nn, evs, ve) ==
  /\ Len(ve) = Len(evs)
  /\ \A i \in 1..Len(ve) : ve[i] >= 0 /\ Abs(ve[i] - evs[i]) <= TolEig(nn, evs[i])
  /\ \A i \in 2..Len(ve) : ve[i] <= ve[i-1] + TolEig(nn, ve[i-1]) \/ evs[i] > evs[i-1]
  /\ SeqSum(ve) <= One + SumTol(nn, evs)
PropFinishW(nn, evs, ssL, isFull, ve) == PropVarexpW(nn, evs, ve) /\ (isFull => PropClosed(nn, evs, ssL, ve))

(* ---- outputs handed over in any state (INPUT-CLASSES K7) ------------------------------------------------------------------------------------ *)
(* The predictors promise their answer whatever the output object held before: PCAScorePredictor for a = npc and then a < npc into the same      *)
(* output, GetResidualMatrix for a = npc and a = 1 into the same output, PCAIndVarPredictor for a = 1, .., npc into the same output.             *)
RModes == 0..2                                      \* 0 empty, 1 another shape holding data, 2 the final shape holding data
PropProjectAll(ev) == PropProject(ev.err) /\ PropProject(ev.part) /\ PropResidual(ev.gr)
PropBackAll(ev) == PropBack(ev.err, ev.repr) /\ PropBack(ev.scan, ev.repr)
(* outside the statement (the history of the MODEL object): a fit into a used model equals the fit into a fresh one *)
RefitSame(ev) == ev.died = 0 /\ ev.vlen = ev.npc /\ ev.terr <= TolAlg /\ ev.perr <= TolAlg
(* outside the statement: PCARSquared()[a] = 1 - |X - back-transformation with a components|^2 / |X - column means|^2 (the residual is formed from numbers *)
(* of the size of X: same representability term as the back-transformation)                                                                          *)
RSqRight(ev) == ev.died = 0 /\ ev.len = ev.npc /\ ev.err <= TolAlg + 4 * Min2(ev.repr, 100000)

(* ---- input classes of a recorded fit (INPUT-CLASSES.md), computed from the Fit event by TLC and carried into coverage.classes ---------------- *)
GenNames == {"rnd", "loc", "mag", "k5", "design", "dup", "sent"}
FitTags(ev) ==
       ShapeTags(<<ev.n, ev.c, ev.nproc>>)
  \cup {"K6:nproc" \o ToString(ev.nproc)}
  \cup {IF ev.npc = ev.rank THEN (IF ev.tail = 0 THEN "K1:npc=rank(closure)" ELSE "K1:npc=rank(tail>0)") ELSE IF ev.npc = 1 THEN "K1:npc=1" ELSE "K1:1<npc<rank"}
  \cup (IF ev.rank < Min2(ev.n - 1, ev.c) THEN {"K8:rank-deficient"} ELSE {})
  \cup (IF ev.loc >= 3 THEN {"K3:offset/sdev~1e" \o ToString(ev.loc) \o (IF ev.scaling = -1 THEN "-uncentred" ELSE "")} ELSE {})
  \cup (IF ev.loc >= 6 THEN {"K3:offset>=1e6-scaling" \o ToString(ev.scaling)} ELSE {})
  \cup (IF ev.sdhi <= -2 THEN {"K4:all-spreads-at-floor-0.02"} ELSE {})
  \cup (IF ev.sdlo >= 5 THEN {"K4:all-spreads>=1e5"} ELSE {})
  \cup (IF ev.sdhi - ev.sdlo >= 4 THEN {"K4:column-units-4+decades-apart"} ELSE {})
  \cup (IF ev.gen = "mag" THEN {"K4:ill-conditioned-minor-components"} ELSE {})
  \cup (IF ev.gen = "k5" THEN {"K5:tied-decimals"} \cup (IF ev.nconst > 0 THEN {"K5:constant-column-non-representable"} ELSE {}) ELSE {})
  \cup (IF ev.nconst > 0 THEN {"K8:constant-column"} ELSE {})
  \cup (IF ev.gen = "design" THEN {"K8:exactly-orthogonal-design", "K8:design" \o ToString(ev.gp) \o "-scaling" \o ToString(ev.scaling)} ELSE {})
  \cup (IF ev.gen = "dup" THEN {"K8:integer-ties"} \cup (IF ev.gp % 2 = 1 THEN {"K8:duplicate-rows"} ELSE {}) \cup (IF ev.gp >= 2 THEN {"K8:duplicate-columns"} ELSE {}) ELSE {})
  \cup (IF ev.gen = "sent" THEN {"K3:score-equals-missing-code"} ELSE {})
  \cup (IF ev.h = 0 THEN {"K7:outputs-rmode" \o ToString(ev.rmode)} ELSE {"K7:history-fit" \o ToString(ev.h)})

(* ---- the known finding PCA:varexp:score-equals-missing-code ----------------------------------------------------------------------------------- *)
(* The library marks missing data IN BAND (99999999) and its kernels skip every term within 0.1 of that value - also in COMPUTED vectors.  A score  *)
(* t_i that happens to equal the code (no cell of the data is near it) is dropped from t't: the stored eigenvalue, hence the explained variance, is   *)
(* too small.  What still must hold then: as many explained variances as components, each in [0, eigenvalue + tolerance], sum at most 100 %.          *)
PropFinishSentinel(nn, evs, ve) ==
  /\ Len(ve) = Len(evs)
  /\ \A i \in 1..Len(ve) : ve[i] >= 0 /\ ve[i] <= evs[i] + TolEig(nn, evs[i])
  /\ SeqSum(ve) <= One + SumTol(nn, evs)
====
