SPECIFICATION SSpec
CONSTANTS
  MaxN = 40
  MaxP = 12
  MaxNy = 4
  StoreLoop = "own"
INVARIANT EveryCellStored
INVARIANT ThLost
INVARIANT ThFusedOnlyWide
CHECK_DEADLOCK FALSE
