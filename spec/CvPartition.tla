---- MODULE CvPartition ----
(* C05.  random_kfold_group_generator as a state machine (rejection sampling with the RNG draw left        *)
(* nondeterministic, so EVERY stream is covered) followed by one worker pass over the groups.             *)
EXTENDS CvFolds
CONSTANTS MaxN

(* the generator as a state machine: slot by slot, draw v, reject while v is already placed and k < n      *)
VARIABLES n, g, gid, slot, k, phase, grp, counter
vars == <<n, g, gid, slot, k, phase, grp, counter>>
Width == CeilDiv(n, g)
Slots == g * Width
Rows(f) == [r \in 1..g |-> SubSeq(f, (r - 1) * Width + 1, r * Width)]
Init == /\ n \in 1..MaxN /\ g \in 1..MaxN /\ g <= n
        /\ gid = [s \in 1..(g * CeilDiv(n, g)) |-> -1]
        /\ slot = 1 /\ k = 0 /\ phase = "gen" /\ grp = 0
        /\ counter = [i \in 0..(n - 1) |-> 0]
InGid(v) == \E s \in DOMAIN gid : gid[s] = v
Draw(v) == /\ phase = "gen" /\ slot <= Slots
           /\ IF InGid(v) /\ k < n THEN UNCHANGED vars          \* rejected: draw again (do-while)
              ELSE /\ IF k < n THEN gid' = [gid EXCEPT ![slot] = v] /\ k' = k + 1
                             ELSE UNCHANGED <<gid, k>>
                   /\ slot' = slot + 1
                   /\ phase' = IF slot = Slots THEN "split" ELSE "gen"
                   /\ UNCHANGED <<n, g, grp, counter>>
\* one worker pass: for each group in order predict its members (counter += 1)
Predict == /\ phase = "split" /\ grp < g
           /\ counter' = [i \in 0..(n - 1) |-> counter[i] + (IF i \in Range(TestOf(Rows(gid), grp)) THEN 1 ELSE 0)]
           /\ grp' = grp + 1 /\ phase' = IF grp + 1 = g THEN "done" ELSE "split"
           /\ UNCHANGED <<n, g, gid, slot, k>>
Stutter == phase = "done" /\ UNCHANGED vars
Next == (\E v \in 0..(n - 1) : Draw(v)) \/ Predict \/ Stutter
Spec == Init /\ [][Next]_vars
\* the draw that is needed next is eventually made (fair RNG): termination of the rejection loop
FairSpec == Spec /\ WF_vars(Predict) /\ \A v \in 0..(MaxN - 1) : SF_vars(v < n /\ Draw(v) /\ slot' # slot)
GenDone == phase \in {"split", "done"}
Partition == GenDone => IsPartition(Rows(gid), n) /\ ImplShape(Rows(gid), g, n)
NoDupEver == \A v \in 0..(n - 1) : Count(gid, v) <= 1
SplitsSound == GenDone => \A q \in 0..(g - 1) : SplitIsSound(TrainOf(Rows(gid), q), TestOf(Rows(gid), q), n)
TestSizesSumToN == GenDone =>
   LET F[q \in 0..g] == IF q = 0 THEN 0 ELSE F[q - 1] + Len(TestOf(Rows(gid), q - 1)) IN F[g] = n
EveryObjectOnce == phase = "done" => \A i \in 0..(n - 1) : counter[i] = 1
CounterBounded == \A i \in 0..(n - 1) : counter[i] <= 1
Terminates == <>(phase = "done")
(* Renaming view (round 3).  The machine and every invariant above are invariant under renaming object ids (Draw(v) is offered for  *)
(* EVERY v; InGid, IsPartition, SplitIsSound, the counters only compare ids for equality).  SymView renames the ids of a state by  *)
(* order of first appearance in gid, so TLC still GENERATES the successor of every draw but keeps one representative per renaming  *)
(* class: the state count falls from sum n!/(n-k)! to O(slots) per (n, g), and every (n, g) of the quantifier (n <= 30) is reached *)
(* (MC_CvPartition_sym_*.cfg).  The unreduced run (n <= 6 / 7) stays as the cross-check of the symmetry argument.                  *)
FirstPos(v) == CHOOSE s \in DOMAIN gid : gid[s] = v /\ \A t \in 1..(s - 1) : gid[t] # v
Ren(v) == Cardinality({gid[t] : t \in 1..(FirstPos(v) - 1)} \ {-1})
CanonGid == [s \in DOMAIN gid |-> IF gid[s] = -1 THEN -1 ELSE Ren(gid[s])]
CanonCounter == [s \in DOMAIN gid |-> IF gid[s] = -1 THEN -1 ELSE counter[gid[s]]]
UnplacedCounters == {counter[i] : i \in {j \in 0..(n - 1) : ~InGid(j)}}
SymView == <<n, g, CanonGid, slot, k, phase, grp, CanonCounter, UnplacedCounters>>
\* ids not (yet) placed were never predicted
UnplacedUntouched == \A i \in 0..(n - 1) : ~InGid(i) => counter[i] = 0
====
