SPECIFICATION Spec
CONSTANTS
  NW = 2
  K = 1
  PerThread = TRUE
  Shape = "unseeded"
INVARIANT NoClock
VIEW NoSched
CHECK_DEADLOCK FALSE
