SPECIFICATION FairSpec
CONSTANTS
  MaxRank = 3
  MaxNpc = 5
  MaxIter = 3
  Guarded = TRUE
  Sites = {"PCA", "PLS", "CPCA", "KMEANS", "NM", "MLRLOO"}
PROPERTY Terminates
PROPERTY CounterVariant
INVARIANT BeyondRankZero
INVARIANT TypeOK
CHECK_DEADLOCK FALSE
