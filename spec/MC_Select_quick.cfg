SPECIFICATION Spec
CONSTANTS
  NMin = 4
  NMax = 4
  Dim = 2
  Grid = 2
  EmitMod = 2
INVARIANT ImplIsAdmissible
\* GEN: Emit prints one replay case per point set (as an invariant it is evaluated exactly once per state)
INVARIANT Emit
CHECK_DEADLOCK FALSE
