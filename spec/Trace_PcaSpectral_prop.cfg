SPECIFICATION TSpec
CONSTANTS
  Budget = 10
  MaxRank = 1
  Ns = {2}
  Fault = "none"
  Alphabet = {1}
  MaxLen = 1
  ShapeSet = "none"
  StartRule = "argmax"
  PropOnly = TRUE
CONSTRAINT Diag
POSTCONDITION TraceAccepted
CHECK_DEADLOCK FALSE
