SPECIFICATION FairSpec
CONSTANTS
  MaxN = 4
PROPERTY Terminates
