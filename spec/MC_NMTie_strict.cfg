SPECIFICATION Spec
CONSTANTS
  Rule = "strict"
  StopRule = "values"
  K = 10
  MaxIter = 5
  Box <- BoxConst
  DoEmit = FALSE
INVARIANT NoStall
CHECK_DEADLOCK FALSE
