---- MODULE CvOrch ----
(* C05 / C06.  Batch orchestration of the three cross-validation drivers (modelvalidation.c).               *)
(*  Mode "boot": BootstrapRandomGroupsCV: for(it_ = 0; it_ < iters; it_ += nth){ create nth workers with     *)
(*        seed offset th + it_ ; join all ; merge th = 0..nth-1 } - EVERY batch has nth workers, so          *)
(*        ceil(iters/nth)*nth iterations run.                                                             *)
(*  Mode "guard": LeaveOneOut / KFoldCV: for(base = 0; base < total; base += nth){ for th: if(base+th <      *)
(*        total) create ; join the created ; merge the created } - exactly `total` work items.               *)
(* Workers within a batch complete in any order; merge happens after ALL joins of the batch.                *)
EXTENDS Integers, Sequences, FiniteSets, TLC
CONSTANTS MaxItems, MaxTh, Mode
VARIABLES total, nth, base, running, done, joined, merged, phase
vars == <<total, nth, base, running, done, joined, merged, phase>>
Batch == IF Mode = "boot" THEN {base + th : th \in 0..(nth - 1)}
         ELSE {base + th : th \in {t \in 0..(nth - 1) : base + t < total}}
Init == /\ total \in 1..MaxItems /\ nth \in 1..MaxTh
        /\ base = 0 /\ running = {} /\ done = {} /\ joined = {} /\ merged = <<>> /\ phase = "create"
Create == /\ phase = "create" /\ base < total
          /\ running' = Batch /\ done' = {} /\ joined' = {} /\ phase' = "run"
          /\ UNCHANGED <<total, nth, base, merged>>
Finish(s) == /\ phase = "run" /\ s \in running \ done /\ done' = done \cup {s}
             /\ UNCHANGED <<total, nth, base, running, joined, merged, phase>>
\* pthread_join in thread order: join(th) returns only once worker th has finished
Join == /\ phase = "run" /\ joined # running
        /\ LET nxt == CHOOSE s \in running \ joined : \A q \in running \ joined : s <= q
           IN nxt \in done /\ joined' = joined \cup {nxt}
        /\ phase' = IF joined' = running THEN "merge" ELSE "run"
        /\ UNCHANGED <<total, nth, base, running, done, merged>>
RECURSIVE Asc(_)
Asc(S) == IF S = {} THEN <<>> ELSE LET m == CHOOSE x \in S : \A y \in S : x <= y IN <<m>> \o Asc(S \ {m})
Merge == /\ phase = "merge"
         /\ merged' = merged \o Asc(running)
         /\ base' = base + nth /\ phase' = "create" /\ running' = {} /\ done' = {} /\ joined' = {}
         /\ UNCHANGED <<total, nth>>
Stop == phase = "create" /\ base >= total /\ UNCHANGED vars
Next == Create \/ (\E s \in running : Finish(s)) \/ Join \/ Merge \/ Stop
Spec == Init /\ [][Next]_vars
FairSpec == Spec /\ WF_vars(Next)
Finished == phase = "create" /\ base >= total
NoMergeBeforeJoin == phase = "merge" => joined = running /\ done = running
\* guard mode: every work item exactly once, in ascending order, whatever the thread count
GuardExactlyOnce == (Mode = "guard" /\ Finished) => merged = [q \in 1..total |-> q - 1]
\* boot mode: when nth divides iters the merged seed offsets are 0..iters-1 in ascending order for every
\* completion order (so the floating-point sum order does not depend on the thread count) ...
BootSameAsSequential == (Mode = "boot" /\ Finished /\ total % nth = 0) => merged = [q \in 1..total |-> q - 1]
\* ... otherwise extra iterations run (why the property restricts the bootstrap claim to dividing counts)
BootExtraOtherwise == (Mode = "boot" /\ Finished /\ total % nth # 0) =>
                         Len(merged) = ((total + nth - 1) \div nth) * nth /\ Len(merged) > total
MergedNoDup == \A a, b \in DOMAIN merged : a # b => merged[a] # merged[b]
Terminates == <>Finished
====
