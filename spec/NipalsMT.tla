---- MODULE NipalsMT ----
(* C18, implementation layers on top of Nipals.tla: which matrix*vector kernel a fit reaches, and whether   *)
(* the passes of one PLS latent variable have a ceiling.                                                  *)
(*                                                                                                       *)
(* 1. KERNEL LAYER.  Nipals.tla transcribes the class transfer of a NIPALS pass under the assumption that   *)
(* every matrix*vector product drops its non-finite terms ("NaN products skipped").  That assumption is a   *)
(* property of TWO different pieces of code: the serial kernels MatrixDVectorDotProduct /                  *)
(* DVectorMatrixDotProduct and the multi-thread workers MatrixDVectorDotProductWorker /                    *)
(* DVectorMatrixDotProductWorker; MT_MatrixDVectorDotProduct() redirects to the serial kernel iff           *)
(* GetNProcessor() reports ONE processor (hook H2 forces that count).  This module makes the dependency      *)
(* explicit:                                                                                             *)
(*   nproc        processor count the fit runs under (chosen in Init, never changes)                      *)
(*   FilterSerial the serial kernel drops non-finite products,  FilterMT  the multi-thread worker does     *)
(*   Filtered     the kernel this execution reaches has the filter                                        *)
(* Where the filter matters (transcribed from cpca.c:245-290): CPCA computes for EVERY block b              *)
(*   p_b = X_b't / t't ;  p_b /= |p_b| ;  t_b = X_b p_b.                                                    *)
(* For a block whose residual is exactly zero (a constant block) p_b = 0, the normalisation gives 0/0 = NaN  *)
(* and t_b = sum_j 0 * NaN.  With the filter every product is dropped, t_b = 0, the block gets super weight  *)
(* 0 and the pass is a regular one.  Without it t_b = NaN -> w_T = NaN -> t_new = NaN -> conv = NaN (never   *)
(* < tolerance) -> t := NaN, and the next pass starts from a non-finite vector: the null-component guard     *)
(* of the Guarded variant then stores a ZERO component although the component lies within the rank (and      *)
(* nothing is deflated, so every further component does the same); the unguarded variant loops forever.    *)
(* PCA and PLS/LVCalc never form 0/0 on a regular pass of finite data (their loading / weight vector is      *)
(* normalised only after the null test), so their transfer function does not depend on the filter.        *)
(*                                                                                                       *)
(* 2. PASS-CEILING LAYER.  Nipals.tla lets every pass on a finite vector contract (IterCont / IterConv:      *)
(* weak fairness drives `left` to the tolerance).  For PLS with several responses that is not what the code  *)
(* does beyond the defined latent variables: there t, w, q are built on rounding residue, the two inner     *)
(* products x'y that decide the sign of the next iterate are rounded differently in X'u and in Y't, and the   *)
(* iterate can alternate between t and -t: calcConvergence stays at 4/n, no pass contracts (witness in       *)
(* fixes/README.md: 3x3 X of rank 1, Y = [y, constant], third latent variable, 300,000 passes).  MCycle is    *)
(* such a pass; without a ceiling (Capped = FALSE, the tree before fixes/C18-pls-lvcalc-iteration-cap.diff)    *)
(* a fair behaviour can take MCycle for ever - TLC returns the lasso; with the ceiling at most CapIter of     *)
(* them happen per latent variable, then MCapExit stores the component (beyond the rank: only finiteness is   *)
(* claimed for it).  The residue iteration has a second way of not contracting (seeded change C18-adv4, 5x3 X of  *)
(* rank 2 with three integer responses): a 2-cycle t_a -> t_b -> t_a whose convergence value ALTERNATES between  *)
(* two different numbers (7.43e-05 / 7.57e-05).  IterCycle2 is such a pass; `cphase` says whether the value just  *)
(* went down.  CapRule distinguishes the two ceilings a maintainer may write: "passes" counts every pass of the   *)
(* cycle, "stall" counts only the passes that bring no smaller value (and starts again after every one that     *)
(* does): under "stall" every second pass of the alternating cycle refills the counter, CapExit is never        *)
(* enabled and a fair behaviour takes MCycle2 for ever - TLC returns the lasso; the constant-value cycle still   *)
(* stops under both rules.                                                                                 *)
(*                                                                                                       *)
(* Theorems checked by TLC (c18.py):                                                                      *)
(*   both filters, ceiling       : Terminates, BeyondRankZero, NprocInvisible hold for every nproc          *)
(*   FilterMT = FALSE, nproc = 1 : everything still holds  (why a check that forces one processor is blind)  *)
(*   FilterMT = FALSE, nproc > 1 : BeyondRankZero is violated by CPCA with a constant block                  *)
(*   Capped = FALSE              : Terminates is violated by PLS (lasso through MCycle)                      *)
(*   CapRule = "stall"           : Terminates is violated by PLS (lasso through MCycle2); "passes": it holds    *)
EXTENDS Nipals
CONSTANTS NProcs, FilterSerial, FilterMT,
          Capped,      \* LVCalc leaves its loop after a fixed number of passes (PLSMAXITER)
          CapIter,     \* that number, in the model a small one (>= 2)
          CapRule      \* what the ceiling counts: "passes" (every pass) | "stall" (passes whose convergence value is not below the previous one)
VARIABLES nproc, capleft,
          cphase       \* 2-cycle with alternating convergence values: 1 iff the value of the last pass was the smaller of the two
mvars == <<vars, nproc, capleft, cphase>>
ASSUME CapRule \in {"passes", "stall"} /\ CapIter >= 2

Filtered == IF nproc = 1 THEN FilterSerial ELSE FilterMT
\* the next pass multiplies a block with a 0/0 loading vector and the kernel it reaches keeps the NaN products
PoisonNow == site = "CPCA" /\ cblk /\ phase = "iter" /\ tcls = "Fin" /\ ~Filtered
IterPoison == /\ PoisonNow
              /\ tcls' = "NaN" /\ a' = "Fin" /\ b' = "NaN" /\ conv' = "NaN" /\ first' = FALSE /\ tick' = 1 - tick
              /\ UNCHANGED <<site, rank, npc, noise, cblk, pc, phase, left, evals, bvar>>

\* a latent variable past the defined ones, built on rounding residue, after its first pass: the iterate may just change its sign
CycleNow == site = "PLS" /\ phase = "iter" /\ tcls = "Fin" /\ pc >= rank /\ noise /\ ~first
IterCycle == /\ CycleNow /\ (Capped => capleft > 0)
             /\ a' = "Fin" /\ b' = "Fin" /\ conv' = "Big" /\ tick' = 1 - tick
             /\ UNCHANGED <<site, rank, npc, noise, cblk, pc, phase, tcls, first, left, evals, bvar>>
\* ... or run through two vectors in turn, with two different convergence values
IterCycle2 == /\ CycleNow /\ (Capped => capleft > 0)
              /\ a' = "Fin" /\ b' = "Fin" /\ conv' = "Big" /\ tick' = 1 - tick
              /\ UNCHANGED <<site, rank, npc, noise, cblk, pc, phase, tcls, first, left, evals, bvar>>
CapExit == /\ Capped /\ CycleNow /\ capleft = 0
           /\ Store("zero")
           /\ UNCHANGED <<site, rank, npc, noise, cblk, tcls, first, a, b, conv, left, tick, bvar>>

MInit == Init /\ nproc \in NProcs /\ capleft = CapIter /\ cphase = 0
MRegular == /\ ~PoisonNow /\ Next /\ UNCHANGED nproc
            /\ capleft' = (IF pc' # pc THEN CapIter ELSE capleft) /\ cphase' = (IF pc' # pc THEN 0 ELSE cphase)
MPoison == IterPoison /\ UNCHANGED <<nproc, capleft, cphase>>
\* constant convergence value: never smaller than the previous one - both rules count the pass
MCycle == IterCycle /\ UNCHANGED <<nproc, cphase>> /\ capleft' = (IF Capped THEN capleft - 1 ELSE capleft)
\* alternating values: the pass that brings the smaller value is "progress" for the stall rule, which starts counting again
MCycle2 == /\ IterCycle2 /\ UNCHANGED nproc /\ cphase' = 1 - cphase
           /\ capleft' = (IF ~Capped THEN capleft ELSE IF CapRule = "stall" /\ cphase' = 1 THEN CapIter ELSE capleft - 1)
MCapExit == CapExit /\ UNCHANGED nproc /\ capleft' = CapIter /\ cphase' = 0
MNext == MRegular \/ MPoison \/ MCycle \/ MCycle2 \/ MCapExit
MSpec == MInit /\ [][MNext]_mvars
MFairSpec == MSpec /\ WF_mvars(MNext)

\* the processor count is invisible in the result: whatever nproc, a finished fit has the components the rank dictates
NprocInvisible == (phase = "done" /\ site \in NipalsSites) =>
                     \A i \in 1..npc : evals[i] = (IF i <= rank THEN "pos" ELSE "zero")
MTypeOK == TypeOK /\ nproc \in NProcs /\ capleft \in 0..CapIter /\ cphase \in {0, 1}
====
