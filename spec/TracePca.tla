---- MODULE TracePca ----
(* Trace specification for C01: every recorded PCA fit (c01_drv.c) is replayed against the ledger of Pca.tla.      *)
(* Prop.. conjuncts are what the property states, evaluated by TLC on the logged integers at every step;           *)
(* Impl.. conjuncts say how the present code happens to do it and are disabled by PropOnly (spec-drift handling).  *)
(* One model = Reset, Fit, Extract x npc, Finish, Project, Back [, Refit | RSq].  A fit that died (Abort) or an event    *)
(* out of order matches no action and is rejected.  Dropped = an input the generator produced outside the          *)
(* quantifier: skipped.                                                                                            *)
(* Reports that are not rejections travel as "@@" lines (PrintT of a JSON record) evaluated by TLC:                *)
(*   cls   - the input classes of a Fit (Pca!FitTags)                                                              *)
(*   known - an inversion of the eigenvalue order that Pca!StartOrthogonal classifies as the known finding         *)
(*           PCA:eigenvalue-order:start-orthogonal (every other clause of that fit is judged as usual; an          *)
(*           inversion the classification does not cover is rejected = VIOLATION); or explained variances below  *)
(*           the eigenvalues while a stored score coincides with the in-band missing-value code                   *)
(*           (PCA:varexp:score-equals-missing-code)                                                                *)
(*   extra - a fit into a used model object that differs from the fit into a fresh one; PCARSquared() that is not   *)
(*           1 - |X - back-transformation|^2 / |X - means|^2 (both outside the statement)                          *)
EXTENDS Pca, TraceBase
CONSTANT PropOnly
VARIABLE l
tvars == <<lvars, svars, l>>
Ev == Tr[l]
Step == l' = l + 1 /\ UNCHANGED svars /\ UNCHANGED <<truth, ok>>
Report(rec) == PrintT("@@" \o ToJson(rec))

TInit == /\ l = 1 /\ LInit /\ spectrum = {} /\ remaining = {} /\ extracted = <<>> /\ shape = <<0, 0>>

TReset == /\ l <= Len(Tr) /\ Ev.e = "Reset" /\ Step
          /\ phase \in {"Idle", "Backed"}                     \* a model is complete (or dropped) before the next starts
          /\ phase' = "Idle" /\ k' = 0 /\ ssLeft' = One /\ evals' = <<>>
          /\ UNCHANGED <<n, c, scaling, npc, rank, tail>>

TDropped == /\ l <= Len(Tr) /\ Ev.e = "Dropped" /\ Step /\ phase = "Idle"
            /\ UNCHANGED <<n, c, scaling, npc, rank, tail, k, ssLeft, evals, phase>>

TFit == /\ l <= Len(Tr) /\ Ev.e = "Fit" /\ Step /\ phase = "Idle"
        /\ ShapeOk(Ev.n, Ev.c, Ev.scaling, Ev.npc, Ev.rank, Ev.nproc) /\ Ev.tail >= 0
        /\ Ev.gen \in GenNames /\ Ev.rmode \in RModes /\ Ev.h \in 0..4
        /\ Report([cls |-> FitTags(Ev), seed |-> Ev.seed, gen |-> Ev.gen, gp |-> Ev.gp, n |-> Ev.n, c |-> Ev.c, scaling |-> Ev.scaling, npc |-> Ev.npc, nproc |-> Ev.nproc, h |-> Ev.h])
        /\ n' = Ev.n /\ c' = Ev.c /\ scaling' = Ev.scaling /\ npc' = Ev.npc /\ rank' = Ev.rank /\ tail' = Ev.tail
        /\ k' = 0 /\ ssLeft' = One /\ evals' = <<>> /\ phase' = "Fit"

(* the order clause: eigenvalues non-increasing - or the inversion is the classified known finding (decided from the PREVIOUS Extract event) *)
OrderOrKnown == IF PropEvalOrder(n, LastEval, Ev) THEN TRUE
                ELSE /\ k >= 1 /\ l > 1 /\ Tr[l-1].e = "Extract"
                     /\ StartOrthogonal(n, Tr[l-1], Ev)
                     /\ Report([known |-> "start-orthogonal", fs |-> Ev.fs, k |-> Ev.k, prev |-> Tr[l-1].eval, eval |-> Ev.eval,
                                sc12 |-> Tr[l-1].sc12, r9 |-> Tr[l-1].r9, n |-> n, c |-> c, scaling |-> scaling, npc |-> npc])

TExtract == /\ l <= Len(Tr) /\ Ev.e = "Extract" /\ Step /\ phase = "Fit"
            /\ k < npc /\ Ev.k = k + 1                                        \* rank countdown: exactly npc extractions, in order
            /\ PropExtractNoOrder(n, ssLeft, Ev)
            /\ OrderOrKnown
            /\ (PropOnly \/ ImplExtract(Ev))
            /\ k' = k + 1 /\ ssLeft' = Ev.resid /\ evals' = Append(evals, Ev.eval)
            /\ UNCHANGED <<n, c, scaling, npc, rank, tail, phase>>

TFinish == /\ l <= Len(Tr) /\ Ev.e = "Finish" /\ Step /\ phase = "Fit"
           /\ k = npc                                                        \* Finish only after npc extractions
           /\ (IF PropFinishW(n, evals, ssLeft, IsFull, Ev.varexp) THEN TRUE
               ELSE /\ \E i \in (l - k)..(l - 1) : Tr[i].e = "Extract" /\ Tr[i].tm > 0        \* a stored score coincides with the in-band missing-value code
                    /\ PropFinishSentinel(n, evals, Ev.varexp)
                    /\ Report([known |-> "score-equals-missing-code", fs |-> Tr[l-1].fs, k |-> k, n |-> n, c |-> c, scaling |-> scaling, npc |-> npc,
                               varexp |-> Ev.varexp, evals |-> evals]))
           /\ phase' = "Finished"
           /\ UNCHANGED <<n, c, scaling, npc, rank, tail, k, ssLeft, evals>>

TProject == /\ l <= Len(Tr) /\ Ev.e = "Project" /\ Step /\ phase = "Finished"
            /\ PropProjectAll(Ev)                      \* re-projection (all / fewer components into the same output), GetResidualMatrix = preprocessed data - scores x loadings^T
            /\ (PropOnly \/ (ImplProject(Ev.err) /\ ImplProject(Ev.part)))
            /\ phase' = "Projected"
            /\ UNCHANGED <<n, c, scaling, npc, rank, tail, k, ssLeft, evals>>

TBack == /\ l <= Len(Tr) /\ Ev.e = "Back" /\ Step /\ phase = "Projected"
         /\ PropBackAll(Ev)
         /\ phase' = "Backed"
         /\ UNCHANGED <<n, c, scaling, npc, rank, tail, k, ssLeft, evals>>

(* outside the statement of C01: never rejected, reported *)
TRefit == /\ l <= Len(Tr) /\ Ev.e = "Refit" /\ Step /\ phase = "Backed"
          /\ (IF RefitSame(Ev) THEN TRUE ELSE Report([extra |-> "fit-into-used-model", fs |-> Ev.fs, vlen |-> Ev.vlen, npc |-> Ev.npc, terr |-> Ev.terr, perr |-> Ev.perr, died |-> Ev.died]))
          /\ UNCHANGED <<n, c, scaling, npc, rank, tail, k, ssLeft, evals, phase>>

TRSq == /\ l <= Len(Tr) /\ Ev.e = "RSq" /\ Step /\ phase = "Backed"
        /\ (IF RSqRight(Ev) THEN TRUE ELSE Report([extra |-> "PCARSquared", fs |-> Ev.fs, len |-> Ev.len, npc |-> Ev.npc, err |-> Ev.err, scaling |-> Ev.scaling, died |-> Ev.died]))
        /\ UNCHANGED <<n, c, scaling, npc, rank, tail, k, ssLeft, evals, phase>>

TNext == TReset \/ TDropped \/ TFit \/ TExtract \/ TFinish \/ TProject \/ TBack \/ TRefit \/ TRSq
TSpec == TInit /\ [][TNext]_tvars
TraceAccepted == Accepted
Diag == ShowCursor(l)
====
