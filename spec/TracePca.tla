---- MODULE TracePca ----
(* Trace specification for C01: every recorded PCA fit (c01_drv.c) is replayed against the ledger of Pca.tla.      *)
(* Prop.. conjuncts are what the property states, evaluated by TLC on the logged integers at every step;           *)
(* Impl.. conjuncts say how the present code happens to do it and are disabled by PropOnly (spec-drift handling).  *)
(* One model = Reset, Fit, Extract x npc, Finish, Project, Back.  A fit that died (Abort) or an event out of order *)
(* matches no action and is rejected.  Dropped = an input the generator produced outside the quantifier: skipped.  *)
EXTENDS Pca, TraceBase
CONSTANT PropOnly
VARIABLE l
tvars == <<lvars, svars, l>>
Ev == Tr[l]
Step == l' = l + 1 /\ UNCHANGED svars /\ UNCHANGED <<truth, ok>>

TInit == /\ l = 1 /\ LInit /\ spectrum = {} /\ remaining = {} /\ extracted = <<>> /\ shape = <<0, 0>>

TReset == /\ l <= Len(Tr) /\ Ev.e = "Reset" /\ Step
          /\ phase \in {"Idle", "Backed"}                     \* a model is complete (or dropped) before the next starts
          /\ phase' = "Idle" /\ k' = 0 /\ ssLeft' = One /\ evals' = <<>>
          /\ UNCHANGED <<n, c, scaling, npc, rank, tail>>

TDropped == /\ l <= Len(Tr) /\ Ev.e = "Dropped" /\ Step /\ phase = "Idle"
            /\ UNCHANGED <<n, c, scaling, npc, rank, tail, k, ssLeft, evals, phase>>

TFit == /\ l <= Len(Tr) /\ Ev.e = "Fit" /\ Step /\ phase = "Idle"
        /\ ShapeOk(Ev.n, Ev.c, Ev.scaling, Ev.npc, Ev.rank, Ev.nproc) /\ Ev.tail >= 0
        /\ n' = Ev.n /\ c' = Ev.c /\ scaling' = Ev.scaling /\ npc' = Ev.npc /\ rank' = Ev.rank /\ tail' = Ev.tail
        /\ k' = 0 /\ ssLeft' = One /\ evals' = <<>> /\ phase' = "Fit"

TExtract == /\ l <= Len(Tr) /\ Ev.e = "Extract" /\ Step /\ phase = "Fit"
            /\ k < npc /\ Ev.k = k + 1                                        \* rank countdown: exactly npc extractions, in order
            /\ PropExtract(n, ssLeft, LastEval, Ev)
            /\ (PropOnly \/ ImplExtract(Ev))
            /\ k' = k + 1 /\ ssLeft' = Ev.resid /\ evals' = Append(evals, Ev.eval)
            /\ UNCHANGED <<n, c, scaling, npc, rank, tail, phase>>

TFinish == /\ l <= Len(Tr) /\ Ev.e = "Finish" /\ Step /\ phase = "Fit"
           /\ k = npc                                                        \* Finish only after npc extractions
           /\ PropFinish(n, evals, ssLeft, IsFull, Ev.varexp)
           /\ phase' = "Finished"
           /\ UNCHANGED <<n, c, scaling, npc, rank, tail, k, ssLeft, evals>>

TProject == /\ l <= Len(Tr) /\ Ev.e = "Project" /\ Step /\ phase = "Finished"
            /\ PropProject(Ev.err) /\ (PropOnly \/ ImplProject(Ev.err))
            /\ PropResidual(Ev.gr)                     \* GetResidualMatrix = preprocessed data - scores x loadings^T
            /\ phase' = "Projected"
            /\ UNCHANGED <<n, c, scaling, npc, rank, tail, k, ssLeft, evals>>

TBack == /\ l <= Len(Tr) /\ Ev.e = "Back" /\ Step /\ phase = "Projected"
         /\ PropBack(Ev.err, Ev.repr)
         /\ phase' = "Backed"
         /\ UNCHANGED <<n, c, scaling, npc, rank, tail, k, ssLeft, evals>>

TNext == TReset \/ TDropped \/ TFit \/ TExtract \/ TFinish \/ TProject \/ TBack
TSpec == TInit /\ [][TNext]_tvars
TraceAccepted == Accepted
Diag == ShowCursor(l)
====
