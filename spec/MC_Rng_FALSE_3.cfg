SPECIFICATION Spec
CONSTANTS
  NW = 3
  K = 1
  PerThread = FALSE
INVARIANT StreamIsolation
CHECK_DEADLOCK FALSE
