SPECIFICATION Spec
CONSTANTS
  NW = 3
  K = 1
  PerThread = FALSE
  Shape = "seedDraw"
INVARIANT StreamIsolation
CHECK_DEADLOCK FALSE
