SPECIFICATION Spec
CONSTANTS
  Families = {"all1", "all2", "perm3", "tri3", "ptri3", "spd3", "diag3", "trid3"}
  Pivoting = TRUE
  Mod = 1
  Res = 0
INVARIANT Theorems
INVARIANT ElimDefined
INVARIANT SolveDefined
CHECK_DEADLOCK FALSE
