SPECIFICATION Spec
CONSTANTS
  Families = {"all1", "all2", "bin3", "perm3", "tri3", "ptri3"}
  Pivoting = TRUE
  Mod = 1
  Res = 0
INVARIANT Theorems
INVARIANT ElimDefined
INVARIANT SolveDefined
CHECK_DEADLOCK FALSE
