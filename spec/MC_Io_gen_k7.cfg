SPECIFICATION GenSpec
CONSTANTS
  Paths = {"p1", "p2"}
  MaxHist = 4
  DropTables = TRUE
  SaveAll = TRUE
  ReadBlock = 0
  SizeSet = {1, 2}
  Rewrites = TRUE
  Shape = "rewrite"
  Reuse = "off"
CONSTRAINT GenFamily
CHECK_DEADLOCK FALSE
