SPECIFICATION MSpec
CONSTANTS
  MaxRows = 4
  MaxThreads = 3
  MaxCond = 4
  MaxCalls = 1
  KernSet = {"lab", "mxv", "vxm", "dist", "cond"}
  GuardBeforeResize = FALSE
  CallerZeroes = TRUE
PROPERTY Live
CHECK_DEADLOCK FALSE
