---- MODULE PrepRound ----
(* C10, input class K5 (INPUT-CLASSES.md): rounding model of the column statistics for cells that are NOT           *)
(* representable in binary floating point.                                                                         *)
(*                                                                                                                 *)
(* A recorded column has cells x_i = fl((piv + d_i) / q) with integers piv, d_i and a unit denominator q that is    *)
(* not a power of two (q = 10: 0.1-grid, q = 3: thirds, q = 1000, 7, 49 ...).  With the unit roundoff              *)
(* u0 = 2^-53 = 1.1102e-16 and M >= max |piv + d_i| (in units 1/q), standard forward error analysis gives, all in    *)
(* units of 1/q:                                                                                                   *)
(*   input         x_i q = (piv + d_i)(1 + e_i),                        |e_i| <= u0                                 *)
(*   mean          |avg q - (piv + S1/N)| <= (N + 1) u0 M               (recursive summation of N terms + division)  *)
(*   centred       |(x_i - avg) q - (d_i - S1/N)| <= (N + 2) u0 M =: dlt                                            *)
(*   N * centred   |N (x_i - avg) q - (N d_i - S1)| <= N (N + 2) u0 M                          -> CancelQ           *)
(*   N sum c_i^2   |N sum ((x_i-avg) q)^2 - SSD| <= 2 u0 M SA + N^2 dlt^2,  SA = sum |N d_i - S1|  -> SpreadSlack9   *)
(*                 (the error of the mean is common to all cells and cancels at first order because sum c_i = 0)   *)
(*   range         |(max - min) q - range| <= 2 u0 M (+ one rounding of the difference)        -> RangeSlack9       *)
(* For a CONSTANT column SA = 0: what the code can at most compute as "spread" is rounding noise N^2 dlt^2          *)
(* (NoiseSSD9), and the property still demands an exactly zero transformed column.                                 *)
(* The bounds are functions of what the specification computes from the logged integers (N, piv, d): they grow     *)
(* with the offset (conditioning) and vanish for small offsets; columns on dyadic grids never use them.            *)
(* Everything is integer arithmetic inside 32 bits; results are in 1e-9 units of the projected integer.            *)
EXTENDS Integers

(* floor(a*b/c) without leaving 32 bits: <<q, r>> with q*c + r = a*b for 0 <= a < c <= 10^9, b >= 0 (doubling on the remainder) *)
RECURSIVE MDrQ(_, _, _)
MDrQ(a, b, c) ==
  IF b = 0 THEN <<0, 0>>
  ELSE LET h  == MDrQ(a, b \div 2, c)
           d  == 2 * h[2]
           q2 == IF d >= c THEN 2 * h[1] + 1 ELSE 2 * h[1]
           r2 == IF d >= c THEN d - c ELSE d
       IN IF b % 2 = 0 THEN <<q2, r2>>
          ELSE IF r2 + a >= c THEN <<q2 + 1, r2 + a - c>> ELSE <<q2, r2 + a>>
MulDivQ(a, b, c) == (a \div c) * b + MDrQ(a % c, b, c)[1]      \* the caller guarantees that (a \div c) * b and the result fit

(* N (N + 2) u0 M in 1e-9 units (1.11e-7 N (N+2) M, rounded up to 1.25e-7) + 1e-6 for the projection itself *)
CancelQ(M, n) == MulDivQ(M, n * (n + 2), 8000000) + 1001
(* N^2 dlt^2 in 1e-9 units: (N (N+2) M)^2 * u0^2 * 1e9 = w^2 * 1.2326e-11 with w = N (N+2) M / 1e6 *)
NoiseSSD9(M, n) == LET w2 == MulDivQ(M, n * (n + 2), 1000000) \div 1000 + 1 IN (w2 * w2) \div 80000 + 2
(* 2 u0 M SA + N^2 dlt^2 in 1e-9 units (2.22e-7 M SA rounded up to 2.5e-7) *)
SpreadSlack9(M, n, SA) == MulDivQ(M, SA, 4000000) + NoiseSSD9(M, n)
(* 2 u0 M in 1e-9 units *)
RangeSlack9(M) == M \div 4000000 + 1

(* ---- the zero-scale guard seen from the property ---------------------------------------------------------------- *)
(* "Columns without spread become exactly zero": the code decides "no spread" by |scale| < Theta.  For a constant    *)
(* column of real magnitude Mreal and N rows the computed sample sdev is at most sqrt(N/(N-1)) (N+1) u0 Mreal         *)
(* (pure rounding noise; Pareto scaling stores its square root).  The guard delivers the property iff               *)
(*     noise < Theta  (every constant column is recognised)   and   Theta <= smallest admissible genuine scale.      *)
(* In 1e-15 units: 1.4143 * u0 * 1e15 = 0.15702                                                                     *)
NoiseSdev15(n, mreal) == MulDivQ((n + 1) * mreal, 158, 1000) + 1
====
