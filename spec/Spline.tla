---- MODULE Spline ----
(* C19.  Natural cubic spline (interpolate.c:13-73, Burden & Faires alg. 3.4) over exact rationals, the     *)
(* piece lookup of cubic_spline_predict (interpolate.c:75-114) and the trapezoid area of a polyline         *)
(* (numeric.c curve_area).  Knot abscissae are integers times a scale 10^E that is carried symbolically:   *)
(* the spline VALUE at  s*t  for knots  s*x_i  does not depend on s, only the code's lookup does.           *)
(*                                                                                                       *)
(* LookupTol = "abs1e-2": the pinned tree compares abscissae with an absolute tolerance of 1e-2            *)
(*     (x > x_j || |x - x_j| < 1e-2) && (x < x_j+1 || |x - x_j+1| < 1e-2),  first match over pieces 0..n-2,   *)
(*     last piece through the fall-back;                                                                   *)
(* LookupTol = "exact": x_j <= x <= x_j+1.                                                                 *)
(* Evaluation points are knots and midpoints; to stay in the integers they are carried doubled (t2 = 2t).  *)
EXTENDS Integers, Sequences, FiniteSets, TLC, Json
CONSTANTS NK,            \* number of knots (3..5)
          XMax,          \* knots are strictly increasing integers in 0..XMax
          YMax,          \* ordinates in -YMax..YMax
          Scales,        \* set of decimal exponents E at which the lookup is modelled (naturals n stand for E = n - 4: see EOf)
          LookupTol,
          DoEmit

Abs(x) == IF x < 0 THEN -x ELSE x
RECURSIVE Gcd(_,_)
Gcd(a,b) == IF b = 0 THEN a ELSE Gcd(b, a % b)
Q(n,d) == IF n = 0 THEN <<0,1>> ELSE LET g == Gcd(Abs(n),Abs(d)) s == IF d < 0 THEN -1 ELSE 1 IN <<(s*n) \div g, (s*d) \div g>>
Add(a,b) == Q(a[1]*b[2] + b[1]*a[2], a[2]*b[2])
Sub(a,b) == Q(a[1]*b[2] - b[1]*a[2], a[2]*b[2])
Mul(a,b) == Q(a[1]*b[1], a[2]*b[2])
Div(a,b) == Q(a[1]*b[2], a[2]*b[1])
I(x) == <<x,1>>
n == NK - 1
EOf(k) == k - 4                     \* .cfg files cannot hold negative numbers: Scales = {0..8} means E = -4..4

\* ---- coefficients: x: [0..n -> Int] strictly increasing, y: [0..n -> Int]
H(x, i) == x[i+1] - x[i]
Alpha(x, y, i) == Sub(Q(3*(y[i+1]-y[i]), H(x,i)), Q(3*(y[i]-y[i-1]), H(x,i-1)))
LUZ(x, y) == LET F[i \in 0..n] == IF i = 0 THEN <<I(1), I(0), I(0)>>                  \* <<l, u, z>>
                                   ELSE IF i = n THEN <<I(1), I(0), I(0)>>
                                   ELSE LET l == Sub(I(2*(x[i+1]-x[i-1])), Mul(I(H(x,i-1)), F[i-1][2]))
                                        IN <<l, Div(I(H(x,i)), l), Div(Sub(Alpha(x,y,i), Mul(I(H(x,i-1)), F[i-1][3])), l)>>
               IN F
Coef(x, y) == LET luz == LUZ(x, y)
                  C[j \in 0..n] == IF j = n THEN I(0) ELSE Sub(luz[j][3], Mul(luz[j][2], C[j+1]))
                  B(j) == Sub(Q(y[j+1]-y[j], H(x,j)), Div(Mul(I(H(x,j)), Add(C[j+1], Mul(I(2), C[j]))), I(3)))
                  Dd(j) == Div(Sub(C[j+1], C[j]), I(3*H(x,j)))
              IN [j \in 0..(n-1) |-> [a |-> I(y[j]), b |-> B(j), c |-> C[j], d |-> Dd(j)]]
Eval(S, x, j, t) == LET h == Sub(t, I(x[j])) IN Add(S[j].a, Add(Mul(S[j].b, h), Add(Mul(S[j].c, Mul(h,h)), Mul(S[j].d, Mul(h, Mul(h,h))))))
D1(S, x, j, t) == LET h == Sub(t, I(x[j])) IN Add(S[j].b, Add(Mul(I(2), Mul(S[j].c, h)), Mul(I(3), Mul(S[j].d, Mul(h,h)))))
D2(S, x, j, t) == LET h == Sub(t, I(x[j])) IN Add(Mul(I(2), S[j].c), Mul(I(6), Mul(S[j].d, h)))

\* ---- piece lookup on doubled coordinates t2 = 2t
RECURSIVE Pow10(_)
Pow10(k) == IF k = 0 THEN 1 ELSE 10 * Pow10(k - 1)
\* |t - x_j| * 10^E < 10^-2   <=>   |t2 - 2 x_j| * 10^E < 2 * 10^-2
Near2(E, d2) == IF LookupTol = "exact" THEN d2 = 0
                ELSE IF E <= -2 THEN Abs(d2) < 2 * Pow10(-2 - E) ELSE Abs(d2) * Pow10(E + 2) < 2
Match2(E, x, j, t2) == (t2 > 2*x[j] \/ Near2(E, t2 - 2*x[j])) /\ (t2 < 2*x[j+1] \/ Near2(E, t2 - 2*x[j+1]))
Chosen2(E, x, t2) == IF \E j \in 0..(n-2) : Match2(E, x, j, t2)
                     THEN CHOOSE j \in 0..(n-2) : Match2(E, x, j, t2) /\ \A k \in 0..(j-1) : ~Match2(E, x, k, t2)
                     ELSE n - 1
PieceOf2(x, t2) == {j \in 0..(n-1) : 2*x[j] <= t2 /\ t2 <= 2*x[j+1]}
\* the same for a knot sequence xs[1..k] of any length (used by the trace specification): 0-based piece numbers
PieceOfSeq(xs, t2) == {j \in 0..(Len(xs) - 2) : 2*xs[j+1] <= t2 /\ t2 <= 2*xs[j+2]}
EvalPts(x) == {2*x[i] : i \in 0..n} \cup {x[j] + x[j+1] : j \in 0..(n-1)}          \* knots and midpoints, doubled

\* ---- trapezoid area of the polyline through (x_i, y_i), i in lo..hi, and the exact integral of that polyline
RECURSIVE Area(_, _, _, _)
Area(x, y, lo, hi) == IF hi <= lo THEN I(0) ELSE Add(Area(x, y, lo, hi - 1), Q((x[hi] - x[hi-1]) * (y[hi-1] + y[hi]), 2))
\* integral of  y_i + m (t - x_i), m = (y_i+1 - y_i)/h  over one piece:  y_i h + m h^2 / 2
PieceIntegral(x, y, i) == LET h == I(H(x, i)) m == Q(y[i+1] - y[i], H(x, i)) IN Add(Mul(I(y[i]), h), Div(Mul(m, Mul(h, h)), I(2)))
RECURSIVE Integral(_, _, _, _)
Integral(x, y, lo, hi) == IF hi <= lo THEN I(0) ELSE Add(Integral(x, y, lo, hi - 1), PieceIntegral(x, y, hi - 1))

VARIABLES x, y
vars == <<x, y>>
\* two levels (knots in Init, ordinates in Next) so that TLC's workers share the rational arithmetic
Init == /\ x \in {f \in [0..n -> 0..XMax] : \A i \in 0..(n-1) : f[i] < f[i+1]}
        /\ y = [i \in 0..n |-> 0]
Next == /\ \A i \in 0..n : y[i] = 0
        /\ y' \in [0..n -> (-YMax)..YMax] /\ UNCHANGED x
Spec == Init /\ [][Next]_vars

IsLine == \A i \in 1..(n-1) : (y[i+1] - y[i]) * H(x, i-1) = (y[i] - y[i-1]) * H(x, i)
\* the spline theorems, on every generated knot set (one evaluation of Coef per state)
Theorems == LET S == Coef(x, y) IN
  /\ \A j \in 0..(n-1) : Eval(S, x, j, I(x[j])) = I(y[j]) /\ Eval(S, x, j, I(x[j+1])) = I(y[j+1])                      \* Interpolates
  /\ \A j \in 0..(n-2) : D1(S, x, j, I(x[j+1])) = S[j+1].b /\ D2(S, x, j, I(x[j+1])) = Mul(I(2), S[j+1].c)             \* Smooth: C1, C2
  /\ S[0].c = I(0) /\ D2(S, x, n-1, I(x[n])) = I(0)                                                                    \* Natural
  /\ IsLine => \A j \in 0..(n-1) : S[j].c = I(0) /\ S[j].d = I(0) /\ S[j].b = Q(y[1] - y[0], H(x, 0))                   \* Linear
  /\ \A k \in 0..n : Area(x, y, 0, n) = Add(Area(x, y, 0, k), Area(x, y, k, n))                                        \* additive
  /\ Area(x, y, 0, n) = Integral(x, y, 0, n)                                                                           \* exact

\* ---- further theorems of the property on the exact semantics (INPUT-CLASSES K3/K4 for the model: units, magnitudes, offsets)
ScaleX(k) == [i \in 0..n |-> k * x[i]]
Affine(a, b) == [i \in 0..n |-> a * y[i] + b]
Mid(j) == Q(x[j] + x[j+1], 2)
\* trapezoid between two rational points <<px, py>>, <<qx, qy>> and the polyline point of piece i at parameter u (0 < u < 1, rational)
TrapQ(px, py, qx, qy) == Div(Mul(Sub(qx, px), Add(py, qy)), I(2))
OnPiece(i, u) == <<Add(I(x[i]), Mul(u, I(H(x, i)))), Add(I(y[i]), Mul(u, I(y[i+1] - y[i])))>>
Theorems2 == LET S == Coef(x, y) IN
  \* the evaluation does not depend on the unit of x: knots k x_i, query k t  ->  the same value (k = 2, 3, 10)
  /\ \A k \in {2, 3, 10} : LET Sk == Coef(ScaleX(k), y) IN
        \A j \in 0..(n-1) : /\ Eval(Sk, ScaleX(k), j, Mul(I(k), Mid(j))) = Eval(S, x, j, Mid(j))
                            /\ Eval(Sk, ScaleX(k), j, I(k * x[j+1])) = Eval(S, x, j, I(x[j+1]))
  \* ordinates a y + b (another unit / a large offset): the spline is a S + b - b, c, d scale with a, the offset only enters a_j
  /\ \A ab \in {<<-2, 0>>, <<3, 5>>, <<1, 1000>>} : LET Sa == Coef(x, Affine(ab[1], ab[2])) IN
        \A j \in 0..(n-1) : /\ Sa[j].a = Add(Mul(I(ab[1]), S[j].a), I(ab[2])) /\ Sa[j].b = Mul(I(ab[1]), S[j].b)
                            /\ Sa[j].c = Mul(I(ab[1]), S[j].c) /\ Sa[j].d = Mul(I(ab[1]), S[j].d)
  \* the trapezoid area is additive over sub-ranges that split BETWEEN two vertices (the polyline point is inserted)
  /\ \A i \in 0..(n-1) : \A u \in {Q(1, 2), Q(1, 3), Q(3, 4)} : LET P == OnPiece(i, u) IN
        Add(TrapQ(I(x[i]), I(y[i]), P[1], P[2]), TrapQ(P[1], P[2], I(x[i+1]), I(y[i+1]))) = Q((x[i+1] - x[i]) * (y[i] + y[i+1]), 2)
  \* C0: neighbouring pieces agree at the interior knots (the value there does not depend on which of the two pieces is used)
  /\ \A j \in 0..(n-2) : Eval(S, x, j, I(x[j+1])) = S[j+1].a
\* the same two laws with one instance each (5 knots: the full Theorems2 costs six more rational solves per state)
Theorems2Lite == LET S == Coef(x, y)  S2 == Coef(ScaleX(2), y)  Sa == Coef(x, Affine(3, 5)) IN
  /\ \A j \in 0..(n-1) : Eval(S2, ScaleX(2), j, Mul(I(2), Mid(j))) = Eval(S, x, j, Mid(j))
  /\ \A j \in 0..(n-1) : /\ Sa[j].a = Add(Mul(I(3), S[j].a), I(5)) /\ Sa[j].b = Mul(I(3), S[j].b)
                          /\ Sa[j].c = Mul(I(3), S[j].c) /\ Sa[j].d = Mul(I(3), S[j].d)
  /\ \A j \in 0..(n-2) : Eval(S, x, j, I(x[j+1])) = S[j+1].a
\* 5 knots on 0..7 (thorough tier): the two extra rational solves only for the knot sets inside 0..5 (a ninth of them)
Theorems2LiteSmall == (x[n] <= 5) => Theorems2Lite
LookupRight == \A k \in Scales : \A t2 \in EvalPts(x) : Chosen2(EOf(k), x, t2) \in PieceOf2(x, t2)

\* ---- GEN: one record per knot set for the replay driver: exact values at knots and midpoints, allowed pieces, exact area
SeqOf(f) == [i \in 1..(n+1) |-> f[i-1]]
PtList(x0) == LET P == EvalPts(x0) IN [i \in 1..Cardinality(P) |-> CHOOSE t \in P : Cardinality({u \in P : u < t}) = i - 1]
CaseRec == LET S == Coef(x, y)
               pts == PtList(x)
               val(t2) == LET j == CHOOSE k \in PieceOf2(x, t2) : TRUE IN Eval(S, x, j, Q(t2, 2))
           IN [nk |-> NK, xs |-> SeqOf(x), ys |-> SeqOf(y),
               pts |-> [i \in 1..Len(pts) |-> [t2 |-> pts[i], v |-> val(pts[i]),
                                               allowed |-> [j \in 1..n |-> IF (j - 1) \in PieceOf2(x, pts[i]) THEN 1 ELSE 0]]],
               area |-> Area(x, y, 0, n), line |-> IF IsLine THEN 1 ELSE 0]
Emit == DoEmit => PrintT("@@" \o ToJson(CaseRec))
====
