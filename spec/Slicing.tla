---- MODULE Slicing ----
(* C13.  Row slicing used by the multithreaded kernels, the condensed-distance index map, the integer     *)
(* distance definitions, the labelling definition and the tolerance functions of the value ledger.      *)
(*   variant A ("assign first"): MT_MatrixDVectorDotProduct, MT_DVectorMatrixDotProduct (matrix.c),   *)
(*        CalculateDistance, the four *DistanceCondensed (metricspace.c), MDC (clustering.c):          *)
(*        step = ceil(rows/th); from=0; to=step; per worker: hand out [from,to); from=to;             *)
(*        to = IF from+step > rows THEN rows ELSE to+step                                             *)
(*   variant B ("advance first"): KMeansppCenters, getLabels_ (clustering.c):                          *)
(*        nobj = ceil(rows/th); per worker: lo=from; from = IF from+nobj > rows THEN rows ELSE from+nobj; hand out [lo,from) *)
(*                                                                                                     *)
(* CLAUSES of the property and where they are decided (events are those of TraceSlicing.tla):          *)
(*  c1 every row is processed by exactly one worker ............ ExactlyOnce / InvA InvB (model), PropSlices on Slices events   *)
(*  c2 ... for every thread count (> rows, not dividing, one) .. Init quantifies rows x th; Slices/Cmp/Tab events carry th     *)
(*  c3 MT result = single-threaded result to rounding ........... TCmp: err <= Tol(tol, len) (ledger), exact kinds ndiff = 0    *)
(*  c4 bit-identical between repeated runs ...................... TCmp what = "repeat": ndiff = 0; TTab rep = 0; TLab rep = 0  *)
(*  c5 into a zero-initialised output / outputs the routine sizes TTab post shape = TabShape (histories, stale outputs)         *)
(*  c6 distances match their definitions ........................ TTab CellOK (TLC recomputes every cell on integer points)    *)
(*  c7 symmetry, zero self-distance, non-negativity, triangle .... MetricAxioms (model, DistAxioms.tla), TabAxioms on logged tables *)
(*  c8 condensed = strict upper triangle under the index map ..... TTab form = "condensed": size CondSize, cell Idx(i,j,n); TCond *)
(*  c9 the index map is a bijection ............................. CondensedBijection / InvC, CondWriteOnce / InvD, TIdx          *)
(*  c10 k-means labelling = sequential labelling ................. TLab (nearest centroid by TLC), TCmp tol "exact"             *)
(*  c11 selection algorithms independent of the thread count ..... TCmp site MDC/MaxDis/MaxDis_Fast/KMeansppCenters/KMeans      *)
EXTENDS Naturals, Integers, Sequences, FiniteSets, TLC
CONSTANTS MaxRows, MaxThreads, MaxCond

CeilDiv(a, b) == (a + b - 1) \div b

RECURSIVE SlicesA(_, _, _, _, _)      \* (workers left, from, to, step, rows) -> sequence of <<from,to>>
SlicesA(n, from, to, step, rows) ==
  IF n = 0 THEN <<>>
  ELSE <<<<from, to>>>> \o SlicesA(n - 1, to, IF to + step > rows THEN rows ELSE to + step, step, rows)
AssignFirst(rows, th) == LET step == CeilDiv(rows, th) IN SlicesA(th, 0, step, step, rows)

RECURSIVE SlicesB(_, _, _, _)
SlicesB(n, from, nobj, rows) ==
  IF n = 0 THEN <<>>
  ELSE LET nf == IF from + nobj > rows THEN rows ELSE from + nobj
       IN <<<<from, nf>>>> \o SlicesB(n - 1, nf, nobj, rows)
AdvanceFirst(rows, th) == SlicesB(th, 0, CeilDiv(rows, th), rows)

(* what the property states: every row handed to exactly one worker, every range inside the data *)
Covered(sl, r) == Cardinality({t \in 1..Len(sl) : sl[t][1] <= r /\ r < sl[t][2]})
ExactlyOnce(sl, rows) == /\ \A t \in 1..Len(sl) : sl[t][1] <= sl[t][2] /\ sl[t][2] <= rows
                         /\ \A r \in 0..(rows - 1) : Covered(sl, r) = 1

(* condensed index (metricspace.c square_to_condensed_index) *)
Idx(i, j, n) == LET ii == IF i < j THEN j ELSE i
                    jj == IF i < j THEN i ELSE j
                IN n * jj - (jj * (jj + 1)) \div 2 + ii - 1 - jj
Pairs(n) == {p \in (0..(n-1)) \X (0..(n-1)) : p[1] < p[2]}
CondSize(n) == (n * (n - 1)) \div 2
CondensedBijection(n) ==
  /\ \A p \in Pairs(n) : Idx(p[1], p[2], n) \in 0..(CondSize(n) - 1) /\ Idx(p[1], p[2], n) = Idx(p[2], p[1], n)
  /\ \A p, q \in Pairs(n) : p # q => Idx(p[1], p[2], n) # Idx(q[1], q[2], n)
  /\ Cardinality(Pairs(n)) = CondSize(n)
(* row-major order of the strict upper triangle: the documented layout *)
CondensedIsRowMajor(n) == \A p, q \in Pairs(n) :
   (p[1] < q[1] \/ (p[1] = q[1] /\ p[2] < q[2])) => Idx(p[1], p[2], n) < Idx(q[1], q[2], n)

(* integer distances *)
Abs(x) == IF x < 0 THEN -x ELSE x
RECURSIVE SumSq(_, _, _)
SumSq(a, b, d) == IF d = 0 THEN 0 ELSE (a[d] - b[d]) * (a[d] - b[d]) + SumSq(a, b, d - 1)
RECURSIVE SumAbs(_, _, _)
SumAbs(a, b, d) == IF d = 0 THEN 0 ELSE Abs(a[d] - b[d]) + SumAbs(a, b, d - 1)
SqEuclid(P, i, j) == SumSq(P[i], P[j], Len(P[i]))
Manhattan(P, i, j) == SumAbs(P[i], P[j], Len(P[i]))
(* triangle inequality for the Euclidean distance stated on squares: c <= a + b  <=>                       *)
(*   c2 <= a2 + b2  \/  (c2 - a2 - b2)^2 <= 4 a2 b2                                                      *)
TriSq(a2, b2, c2) == c2 <= a2 + b2 \/ (c2 - a2 - b2) * (c2 - a2 - b2) <= 4 * a2 * b2
MetricAxioms(P) == LET n == Len(P) IN
  /\ \A i \in 1..n : SqEuclid(P, i, i) = 0 /\ Manhattan(P, i, i) = 0
  /\ \A i, j \in 1..n : /\ SqEuclid(P, i, j) = SqEuclid(P, j, i) /\ Manhattan(P, i, j) = Manhattan(P, j, i)
                       /\ SqEuclid(P, i, j) >= 0 /\ Manhattan(P, i, j) >= 0
  /\ \A i, j, k \in 1..n : /\ Manhattan(P, i, k) <= Manhattan(P, i, j) + Manhattan(P, j, k)
                          /\ TriSq(SqEuclid(P, i, j), SqEuclid(P, j, k), SqEuclid(P, i, k))

(* ---- the condensed kernel: the cells the workers of one launch write (slicing composed with the index map) ---- *)
RowCells(i, n) == { Idx(i, k, n) : k \in (i + 1)..(n - 1) }
WritesOf(sl, t, n) == UNION { RowCells(i, n) : i \in sl[t][1]..(sl[t][2] - 1) }
CondRowsDisjoint(n) ==          \* independent of the slicing: distinct rows write distinct cells, row i writes n-1-i of them
  /\ \A i, k \in 0..(n - 1) : i # k => RowCells(i, n) \cap RowCells(k, n) = {}
  /\ \A i \in 0..(n - 1) : Cardinality(RowCells(i, n)) = n - 1 - i
CondWriteOnce(sl, n) ==
  /\ \A t, u \in 1..Len(sl) : t # u => WritesOf(sl, t, n) \cap WritesOf(sl, u, n) = {}
  /\ UNION { WritesOf(sl, t, n) : t \in 1..Len(sl) } = 0..(CondSize(n) - 1)

(* ---- dot product, cosine, quantised square root: exact integer statements about logged tables ---- *)
RECURSIVE Dot(_, _, _)
Dot(a, b, d) == IF d = 0 THEN 0 ELSE a[d] * b[d] + Dot(a, b, d - 1)
QU  == 1000            \* euclidean / cosine cells are logged in units of 1/QU, rounded to nearest
QU2 == QU * QU
\* v = round(QU * sqrt(s)):  (v-1)^2 <= QU2 s <= (v+1)^2   (guards keep every product inside 32 bits)
SqrtQ(v, s) == /\ v >= 0 /\ v <= 44000 /\ s >= 0 /\ s <= 1900
               /\ (v = 0 \/ (v - 1) * (v - 1) <= s * QU2) /\ s * QU2 <= (v + 1) * (v + 1)
\* v = round(QU * n / sqrt(da db)), da, db > 0
CosQ(v, n, da, db) == LET a == Abs(v) IN
  /\ a <= QU + 1 /\ da > 0 /\ db > 0 /\ da * db <= 1600
  /\ (n > 0 => v >= 0) /\ (n < 0 => v <= 0)
  /\ (a <= 1 \/ (a - 1) * (a - 1) * da * db <= n * n * QU2) /\ n * n * QU2 <= (a + 1) * (a + 1) * da * db
Kinds == {"euclidean", "sqeuclidean", "manhattan", "cosine"}
CellOK(kind, v, a, b) == LET d == Len(a) IN
  CASE kind = "sqeuclidean" -> v = SumSq(a, b, d)
    [] kind = "manhattan"   -> v = SumAbs(a, b, d)
    [] kind = "euclidean"   -> SqrtQ(v, SumSq(a, b, d))
    [] kind = "cosine"      -> CosQ(v, Dot(a, b, d), Dot(a, a, d), Dot(b, b, d))
    [] OTHER -> FALSE

(* ---- labelling: the nearest centroids of a point; the code keeps the first of them ---- *)
Sq2(a, b) == SumSq(a, b, Len(a))
NearestSet(p, C) == {k \in 1..Len(C) : \A q \in 1..Len(C) : Sq2(p, C[k]) <= Sq2(p, C[q])}
FirstNearest(p, C) == CHOOSE k \in NearestSet(p, C) : \A q \in NearestSet(p, C) : k <= q

(* ---- value ledger: tolerances in units of 2^-53 * scale, functions of the reduction length only.        *)
(*  dot   scale = sum |m_ij v_j| over the terms that are summed: recursive summation of len products,     *)
(*        one rounding each: |computed - exact| <= len u scale; two computed values differ by <= 2 len u  *)
(*  dist  scale = the exact distance: sub, square, len-1 additions, sqrt on non-negative terms            *)
(*  cos   scale = 1 (|cos| <= 1 and sum|x y| <= |x||y|): numerator len u, two norms (len+1) u, 2 sqrt,    *)
(*        product, quotient                                                                               *)
(*  none of them depends on offsets or magnitudes: the definitions subtract before squaring and are      *)
(*  scale-equivariant, so classes K3 / K4 keep the SAME tolerance as centred unit-scale data.            *)
TolDot(len)  == 2 * len + 2
TolDist(len) == 2 * (len + 4)
TolCos(len)  == 4 * len + 12
Tol(k, len) == CASE k = "dot" -> TolDot(len) [] k = "dist" -> TolDist(len) [] k = "cos" -> TolCos(len) [] OTHER -> 0

VARIABLES rows, th
vars == <<rows, th>>
Init == rows \in 0..MaxRows /\ th \in 1..MaxThreads
Next == UNCHANGED vars
Spec == Init /\ [][Next]_vars
InvA == ExactlyOnce(AssignFirst(rows, th), rows) /\ Len(AssignFirst(rows, th)) = th
InvB == ExactlyOnce(AdvanceFirst(rows, th), rows) /\ Len(AdvanceFirst(rows, th)) = th
InvSame == \* the two recurrences hand out the same ranges
           AssignFirst(rows, th) = AdvanceFirst(rows, th)
InvC == (th = 1 /\ rows <= MaxCond) => CondensedBijection(rows) /\ CondensedIsRowMajor(rows)
InvD == \* the workers of a condensed launch write every cell of the condensed vector exactly once, for every thread count
        rows <= MaxCond => CondWriteOnce(AssignFirst(rows, th), rows) /\ (th = 1 => CondRowsDisjoint(rows))
====
