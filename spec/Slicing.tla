---- MODULE Slicing ----
(* C13.  Row slicing used by the multithreaded kernels, the condensed-distance index map and the        *)
(* integer distance definitions.                                                                     *)
(*   variant A ("assign first"): MT_MatrixDVectorDotProduct, MT_DVectorMatrixDotProduct (matrix.c),   *)
(*        CalculateDistance, the four *DistanceCondensed (metricspace.c), MDC (clustering.c):          *)
(*        step = ceil(rows/th); from=0; to=step; per worker: hand out [from,to); from=to;             *)
(*        to = IF from+step > rows THEN rows ELSE to+step                                             *)
(*   variant B ("advance first"): KMeansppCenters, getLabels_ (clustering.c):                          *)
(*        nobj = ceil(rows/th); per worker: lo=from; from = IF from+nobj > rows THEN rows ELSE from+nobj; hand out [lo,from) *)
EXTENDS Naturals, Integers, Sequences, FiniteSets, TLC
CONSTANTS MaxRows, MaxThreads, MaxCond

CeilDiv(a, b) == (a + b - 1) \div b

RECURSIVE SlicesA(_, _, _, _, _)      \* (workers left, from, to, step, rows) -> sequence of <<from,to>>
SlicesA(n, from, to, step, rows) ==
  IF n = 0 THEN <<>>
  ELSE <<<<from, to>>>> \o SlicesA(n - 1, to, IF to + step > rows THEN rows ELSE to + step, step, rows)
AssignFirst(rows, th) == LET step == CeilDiv(rows, th) IN SlicesA(th, 0, step, step, rows)

RECURSIVE SlicesB(_, _, _, _)
SlicesB(n, from, nobj, rows) ==
  IF n = 0 THEN <<>>
  ELSE LET nf == IF from + nobj > rows THEN rows ELSE from + nobj
       IN <<<<from, nf>>>> \o SlicesB(n - 1, nf, nobj, rows)
AdvanceFirst(rows, th) == SlicesB(th, 0, CeilDiv(rows, th), rows)

(* what the property states: every row handed to exactly one worker, every range inside the data *)
Covered(sl, r) == Cardinality({t \in 1..Len(sl) : sl[t][1] <= r /\ r < sl[t][2]})
ExactlyOnce(sl, rows) == /\ \A t \in 1..Len(sl) : sl[t][1] <= sl[t][2] /\ sl[t][2] <= rows
                         /\ \A r \in 0..(rows - 1) : Covered(sl, r) = 1

(* condensed index (metricspace.c square_to_condensed_index) *)
Idx(i, j, n) == LET ii == IF i < j THEN j ELSE i
                    jj == IF i < j THEN i ELSE j
                IN n * jj - (jj * (jj + 1)) \div 2 + ii - 1 - jj
Pairs(n) == {p \in (0..(n-1)) \X (0..(n-1)) : p[1] < p[2]}
CondSize(n) == (n * (n - 1)) \div 2
CondensedBijection(n) ==
  /\ \A p \in Pairs(n) : Idx(p[1], p[2], n) \in 0..(CondSize(n) - 1) /\ Idx(p[1], p[2], n) = Idx(p[2], p[1], n)
  /\ \A p, q \in Pairs(n) : p # q => Idx(p[1], p[2], n) # Idx(q[1], q[2], n)
  /\ Cardinality(Pairs(n)) = CondSize(n)
(* row-major order of the strict upper triangle: the documented layout *)
CondensedIsRowMajor(n) == \A p, q \in Pairs(n) :
   (p[1] < q[1] \/ (p[1] = q[1] /\ p[2] < q[2])) => Idx(p[1], p[2], n) < Idx(q[1], q[2], n)

(* integer distances *)
Abs(x) == IF x < 0 THEN -x ELSE x
RECURSIVE SumSq(_, _, _)
SumSq(a, b, d) == IF d = 0 THEN 0 ELSE (a[d] - b[d]) * (a[d] - b[d]) + SumSq(a, b, d - 1)
RECURSIVE SumAbs(_, _, _)
SumAbs(a, b, d) == IF d = 0 THEN 0 ELSE Abs(a[d] - b[d]) + SumAbs(a, b, d - 1)
SqEuclid(P, i, j) == SumSq(P[i], P[j], Len(P[i]))
Manhattan(P, i, j) == SumAbs(P[i], P[j], Len(P[i]))
(* triangle inequality for the Euclidean distance stated on squares: c <= a + b  <=>                       *)
(*   c2 <= a2 + b2  \/  (c2 - a2 - b2)^2 <= 4 a2 b2                                                      *)
TriSq(a2, b2, c2) == c2 <= a2 + b2 \/ (c2 - a2 - b2) * (c2 - a2 - b2) <= 4 * a2 * b2
MetricAxioms(P) == LET n == Len(P) IN
  /\ \A i \in 1..n : SqEuclid(P, i, i) = 0 /\ Manhattan(P, i, i) = 0
  /\ \A i, j \in 1..n : /\ SqEuclid(P, i, j) = SqEuclid(P, j, i) /\ Manhattan(P, i, j) = Manhattan(P, j, i)
                       /\ SqEuclid(P, i, j) >= 0 /\ Manhattan(P, i, j) >= 0
  /\ \A i, j, k \in 1..n : /\ Manhattan(P, i, k) <= Manhattan(P, i, j) + Manhattan(P, j, k)
                          /\ TriSq(SqEuclid(P, i, j), SqEuclid(P, j, k), SqEuclid(P, i, k))

VARIABLES rows, th
vars == <<rows, th>>
Init == rows \in 0..MaxRows /\ th \in 1..MaxThreads
Next == UNCHANGED vars
Spec == Init /\ [][Next]_vars
InvA == ExactlyOnce(AssignFirst(rows, th), rows) /\ Len(AssignFirst(rows, th)) = th
InvB == ExactlyOnce(AdvanceFirst(rows, th), rows) /\ Len(AdvanceFirst(rows, th)) = th
InvSame == \* the two recurrences hand out the same ranges
           AssignFirst(rows, th) = AdvanceFirst(rows, th)
InvC == (th = 1 /\ rows <= MaxCond) => CondensedBijection(rows) /\ CondensedIsRowMajor(rows)
====
