---- MODULE Lloyd ----
(* C17, the k-means part: KMeans() of src/clustering.c as an exact machine on INTEGER points.                          *)
(*                                                                                                                    *)
(*   start   : k start objects (initialiser 0 draws them with repetition, 1..3 return distinct objects);              *)
(*             the centroids are those rows                                                                           *)
(*   iterate : old := centroids; every object is labelled by a nearest centroid (the code scans upwards with a strict *)
(*             '<': lowest index among the nearest = Impl layer); every non-empty cluster's centroid becomes the mean *)
(*             of its members, an empty cluster is restarted at SOME object (randInt);  it := it + 1                  *)
(*   stop    : when every coordinate of every centroid moved by less than 1e-3 (FLOAT_EQ, absolute) or it > 100       *)
(*                                                                                                                    *)
(* Centroids are exact rationals num / den in the units of the logged integer points x; the matrix the code sees is   *)
(* a = off + x * 10^SExp (Affine.tla), so a movement in x-units is multiplied by 10^SExp before it meets the 1e-3.     *)
(* Variant selects the loop the model runs:                                                                           *)
(*   "dowhile"  the repaired tree: assignment first, test afterwards                                                  *)
(*   "whiledo"  the pinned tree: the test ran BEFORE the first assignment against a zero-filled "old" matrix           *)
(*   "reltol"   the seeded change C17-adv2: tolerance 1e-3 * max(1, |old coordinate|)                                  *)
(* TLC proves Post (what C17 states, in its exact form) for "dowhile" and refutes it for the other two - both          *)
(* refutations are re-run by the check so that the model keeps telling the variants apart.                            *)
EXTENDS Integers, Sequences, FiniteSets, TLC, Affine
CONSTANTS NPts, Dim, Grid,     \* model: all point sets of NPts points in {0..Grid}^Dim
          KMax,                \* cluster counts 1..KMax
          DistinctStart,       \* TRUE: start objects pairwise different
          IterCap,             \* iteration cap of the model (the code: 100)
          Variant,
          Off, SExp            \* model: every column translated by Off, scale 10^SExp
VARIABLES X, k, cen, lab, it, phase, pcost, reinits
lvars == <<X, k, cen, lab, it, phase, pcost, reinits>>
ASSUME Variant \in {"dowhile", "whiledo", "reltol"} /\ (Variant = "reltol" => SExp = 0)

LSq(a) == a * a
Obj(P, o) == [num |-> P[o], den |-> 1]
(* den^2 times the squared distance of point x from centroid c *)
RECURSIVE D2F(_, _, _)
D2F(x, c, d) == IF d = 0 THEN 0 ELSE LSq(c.den * x[d] - c.num[d]) + D2F(x, c, d - 1)
D2(x, c) == D2F(x, c, Len(x))
(* centroid a is at most as far from x as centroid b *)
NotFarther(x, a, b) == D2(x, a) * LSq(b.den) <= D2(x, b) * LSq(a.den)
NearestSet(C, x) == {a \in 1..Len(C) : \A b \in 1..Len(C) : NotFarther(x, C[a], C[b])}
LowestOf(S) == CHOOSE i \in S : \A j \in S : i <= j
Assign(P, C) == TLCEval([i \in 1..Len(P) |-> LowestOf(NearestSet(C, P[i])) - 1])          \* labels are numbered from 0 (TLCEval: evaluate once)
IsAssignment(P, C, L) == \A i \in 1..Len(P) : (L[i] + 1) \in NearestSet(C, P[i])

Members(L, c) == {i \in 1..Len(L) : L[i] = c}
RECURSIVE SumOver(_, _, _, _, _)
SumOver(P, L, c, j, m) == IF m = 0 THEN 0 ELSE (IF L[m] = c THEN P[m][j] ELSE 0) + SumOver(P, L, c, j, m - 1)
MeanOf(P, L, c) == [num |-> TLCEval([j \in 1..Len(P[1]) |-> SumOver(P, L, c, j, Len(P))]), den |-> Cardinality(Members(L, c))]
SameRat(a, b) == a.den > 0 /\ b.den > 0 /\ \A j \in 1..Len(a.num) : a.num[j] * b.den = b.num[j] * a.den
(* C is an update of the labelling L: means for the non-empty clusters, some object for the empty ones *)
IsUpdate(P, L, C) == \A c \in 1..Len(C) : IF Members(L, c - 1) = {} THEN \E o \in 1..Len(P) : C[c] = Obj(P, o)
                                          ELSE C[c] = MeanOf(P, L, c - 1)

(* ---- the stopping rule.  |a' - a| = 10^SExp |N| / (den den') with N = num' den - num den'  against 1e-3:            *)
(*      strict = TRUE : moved by LESS than 1e-3 (the code's FLOAT_EQ);  FALSE : by at most 1e-3.  A movement of exactly  *)
(*      1e-3 is decided by the rounding of the stored doubles, so a trace may stop on "at most" and may go on on "not less" *)
CoordStill(aN, aD, bN, bD, sexp, strict) ==
  LET N == Abs(bN * aD - aN * bD)
      D == aD * bD
      e == sexp + 3
  IN IF e >= 0 THEN (IF strict THEN N <= (D - 1) \div Pow10(e) ELSE N <= D \div Pow10(e))
     ELSE (IF strict THEN N < D * Pow10(-e) ELSE N <= D * Pow10(-e))
Still(C0, C1, sexp, strict) == \A c \in 1..Len(C0) : \A j \in 1..Len(C0[c].num) :
                                  CoordStill(C0[c].num[j], C0[c].den, C1[c].num[j], C1[c].den, sexp, strict)
(* the seeded change: tolerance 1e-3 max(1, |old|), old = Off + num/den (model: SExp = 0)                              *)
CoordStillRel(aN, aD, bN, bD, off) ==
  LET N == Abs(bN * aD - aN * bD)
      mag == Abs(off * aD + aN)                                      \* |old| * aD
  IN 1000 * N < bD * (IF mag > aD THEN mag ELSE aD)
StillRel(C0, C1, off) == \A c \in 1..Len(C0) : \A j \in 1..Len(C0[c].num) :
                            CoordStillRel(C0[c].num[j], C0[c].den, C1[c].num[j], C1[c].den, off)
(* the pinned tree's first test: start centroids against a zero matrix, absolute coordinates Off + x *)
StartLooksConverged(C, off) == \A c \in 1..Len(C) : \A j \in 1..Len(C[c].num) : 1000 * Abs(off + C[c].num[j]) < 1

(* ---- what C17 states about a returned (labels, centroids), exact form on the integer grid (the smallest non-zero    *)
(*      centroid movement there, 1 / (NPts (NPts - 1)), is far above 1e-3: "up to the tolerance" is "exactly")          *)
Post(P, kk, L, C) == /\ \A i \in 1..Len(P) : L[i] \in 0..(kk - 1)
                     /\ \A c \in 1..kk : Members(L, c - 1) # {} => SameRat(C[c], MeanOf(P, L, c - 1))
                     /\ IsAssignment(P, C, L)

(* k-means cost of a labelling with its own means, times LCM(1..NPts) so that it is an integer *)
Lcm == IF NPts <= 2 THEN 2 ELSE IF NPts = 3 THEN 6 ELSE IF NPts = 4 THEN 12 ELSE 60
RECURSIVE NormSq(_, _)
NormSq(v, d) == IF d = 0 THEN 0 ELSE LSq(v[d]) + NormSq(v, d - 1)
RECURSIVE SumNorms(_, _)
SumNorms(P, m) == IF m = 0 THEN 0 ELSE NormSq(P[m], Len(P[m])) + SumNorms(P, m - 1)
RECURSIVE ClusterTerm(_, _, _, _)
ClusterTerm(P, L, kk, c) == IF c = 0 THEN 0
                            ELSE (LET mm == MeanOf(P, L, c - 1) IN IF mm.den = 0 THEN 0 ELSE (Lcm \div mm.den) * NormSq(mm.num, Len(mm.num)))
                                 + ClusterTerm(P, L, kk, c - 1)
Cost(P, L, kk) == Lcm * SumNorms(P, Len(P)) - ClusterTerm(P, L, kk, kk)

(* ---------------------------------------------------------------- the model *)
Point == [1..Dim -> 0..Grid]
Injective(f) == \A a, b \in DOMAIN f : a # b => f[a] # f[b]
NoLab == [i \in 1..NPts |-> 0]
(* point sets up to the order of the objects: the order only decides WHICH object an empty cluster may restart at (any),  *)
(* the order of the centroids - which decides the ties - is the order of the start objects, enumerated in full            *)
Code(p) == LET F[d \in 0..Dim] == IF d = 0 THEN 0 ELSE F[d - 1] * (Grid + 1) + p[d] IN F[Dim]
Sorted(P) == \A i \in 1..(NPts - 1) : Code(P[i]) <= Code(P[i + 1])
Init == /\ X \in {P \in [1..NPts -> Point] : Sorted(P)}
        /\ k \in 1..KMax
        /\ \E s \in [1..k -> 1..NPts] : (DistinctStart => Injective(s)) /\ cen = [c \in 1..k |-> Obj(X, s[c])]
        /\ lab = NoLab /\ it = 0 /\ pcost = -1 /\ reinits = 0
        /\ phase = IF Variant = "whiledo" /\ StartLooksConverged(cen, Off) THEN "done" ELSE "run"
StopNow(C0, C1) == IF Variant = "reltol" THEN StillRel(C0, C1, Off) ELSE Still(C0, C1, SExp, TRUE)
Iterate == /\ phase = "run"
           /\ \E L \in {Assign(X, cen)} :                            \* (bound by \E: evaluated once)
              \E E \in {{c \in 1..k : Members(L, c - 1) = {}}} :      \* the empty clusters
              \E r \in [E -> 1..NPts] :                               \* r[c]: the object an empty cluster c is restarted at (randInt)
              \E C \in {[c \in 1..k |-> IF c \in E THEN Obj(X, r[c]) ELSE MeanOf(X, L, c - 1)]} :
                   /\ lab' = L /\ cen' = C /\ it' = it + 1
                   /\ pcost' = IF it = 0 THEN -1 ELSE Cost(X, lab, k)
                   /\ reinits' = IF E # {} THEN 1 ELSE reinits
                   /\ phase' = IF StopNow(cen, C) THEN "done" ELSE IF it + 1 >= IterCap THEN "capped" ELSE "run"
           /\ UNCHANGED <<X, k>>
Next == Iterate
Spec == Init /\ [][Next]_lvars

(* theorems *)
TypeOK == /\ k \in 1..KMax /\ Len(cen) = k /\ it \in 0..IterCap /\ phase \in {"run", "done", "capped"}
          /\ \A c \in 1..k : cen[c].den \in 1..NPts
PostHolds == phase = "done" => Post(X, k, lab, cen)                         \* what C17 states, on every returned result
CostMonotone == (it >= 2) => Cost(X, lab, k) <= pcost                        \* the k-means cost never increases
CapNeedsRestart == phase = "capped" => reinits = 1                           \* without empty-cluster restarts the loop stops by itself
StopIsFixedPoint == (phase = "done" /\ it >= 1 /\ Variant # "reltol") => Assign(X, cen) = lab   \* on the grid a stop is a true fixed point
====
