SPECIFICATION Spec
CONSTANTS
  NW = 2
  K = 2
  PerThread = TRUE
  Shape = "forkjoin"
INVARIANT StreamIsolation
INVARIANT NoClock
VIEW NoSched
CHECK_DEADLOCK FALSE
