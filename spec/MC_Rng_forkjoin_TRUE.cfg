SPECIFICATION Spec
CONSTANTS
  NW = 2
  K = 2
  PerThread = TRUE
  Shape = "forkjoin"
INVARIANT StreamIsolation
INVARIANT NoClock
INVARIANT WordPrivate
INVARIANT EqualsSequential
VIEW NoSched
CHECK_DEADLOCK FALSE
