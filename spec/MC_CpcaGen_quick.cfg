SPECIFICATION GSpec
CONSTANTS
  Bud <- BudTrace
  Quanta = 5
  MaxPc = 1
  CFault = "none"
  GenTier = "quick"
INVARIANT GenInQuantifier
INVARIANT GenSlicesCover
INVARIANT GenTagged
CONSTRAINT Emit
CHECK_DEADLOCK FALSE
