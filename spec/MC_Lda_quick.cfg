SPECIFICATION Spec
CONSTANTS
  MaxN = 6
  MaxK = 3
  NPat = 2
  LabelMap = "plus_start"
INVARIANT InQuantifier
INVARIANT RowLabelBijection
INVARIANT PredictionIsALabel
INVARIANT TableIndexInRange
INVARIANT PriorsSumToOne
INVARIANT MeansGiveGrandMean
\* (round 3 theorems: MC_Lda_disc_quick.cfg, MC_Lda_affine_quick.cfg; all of them at MaxN = 7 in the thorough tier)
\* round 3: the exact discriminant is a difference of ONE score per class, some row is never beaten, mirror data tie exactly,
\* renumbering moves labels not rows, confusion counts partition the objects
\* GEN: Emit prints one replay case per distinct state (as an invariant it is evaluated exactly once per state)
INVARIANT Emit
