SPECIFICATION Spec
CONSTANTS
  Fault = "shape"
  MaxOps = 3
INVARIANT TypeOK
INVARIANT OwnSolution
INVARIANT StaleAddrSeen
CHECK_DEADLOCK FALSE
