---- MODULE Io ----
(* C16 - a saved model reads back equal to the model last written, whatever came before.                      *)
(*                                                                                                            *)
(* Model of src/io.c.  A model file is an SQLite database with one table per model field; a table is a        *)
(* sequence of rows (id AUTOINCREMENT, value REAL), i.e. a sequence of numbers in rowid order.                *)
(*   WriteXXX(path, m) = OpenDB ; DropAllTables ; for every field in a fixed order:                           *)
(*                         CREATE TABLE IF NOT EXISTS <field> ; INSERT one row per number of serialise(field) *)
(*   ReadXXX(path, m)  = for every field: SELECT value FROM <field> (rowid order) ; deserialise               *)
(* Serialisation (io.c:11-104): dvector = its numbers; matrix = row, col, cells row-major; tensor = order,    *)
(* then per matrix row, col, cells; dvectorlist = per vector size, numbers.  Deserialisation trusts the       *)
(* leading dimension entries and, for a plain dvector, takes ALL rows of the table.                           *)
(*                                                                                                            *)
(* Variants of the mechanism (never assumed; inferred from the real files by TraceIo, DESIGN section 4 (V)):  *)
(*   DropTables  TRUE  = DropAllTables really drops every table of the file before writing                    *)
(*               FALSE = it only SELECTs the text of the DROP statements and never executes them              *)
(*   SaveAll     TRUE  = every field of the C struct is written and read                                      *)
(*               FALSE = PCAMODEL.dmodx is neither written nor read (it comes back as a fresh 0x0 matrix)     *)
(* Abstract models are (kind, size class, tag): every field has its own dims, different in the size classes    *)
(* small/large (some optional fields are empty in the small class); the third class "unscaled" has empty      *)
(* preprocessing vectors, so that "empty optional fields stay empty" is exercised after non-empty             *)
(* predecessors in the same table (also across PCA/CPCA, which share table names); every content number of the model *)
(* written at step t is the number Cell(t); dimension entries are numbers below CellBase, so the model can    *)
(* tell when a reader takes a content number for a dimension or the other way round.                          *)
EXTENDS Naturals, Sequences, FiniteSets, TLC
CONSTANTS Paths, MaxHist, DropTables, SaveAll

Kinds == {"PCA", "CPCA", "PLS"}
Sizes == {1, 2, 3}     \* 1 = small, 2 = large (both fitted with centring/scaling), 3 = "unscaled": a small model fitted with
                       \* scaling -1, whose preprocessing vectors are EMPTY (zero rows in their tables; for CPCA a list of empty vectors)

F(n, t) == [name |-> n, ty |-> t]
\* every field of the C structs, saved ones in the order Write<kind> writes them (pca.h, cpca.h, pls.h; io.c:251-586)
ModelFieldSeq(k) ==
  CASE k = "PCA" -> << F("colaverage", "vec"), F("colscaling", "vec"), F("varexp", "vec"), F("scores", "mat"), F("loadings", "mat"),
                       F("dmodx", "mat") >>
    [] k = "CPCA" -> << F("scaling_factor", "vec"), F("total_expvar", "vec"), F("block_scores", "ten"), F("block_loadings", "ten"),
                        F("super_scores", "mat"), F("super_weights", "mat"), F("block_expvar", "lst"), F("colaverage", "lst"),
                        F("colscaling", "lst") >>
    [] k = "PLS" -> << F("xcolscaling", "vec"), F("xcolaverage", "vec"), F("ycolscaling", "vec"), F("ycolaverage", "vec"),
                       F("xvarexp", "vec"), F("b", "vec"), F("xscores", "mat"), F("xloadings", "mat"), F("xweights", "mat"),
                       F("yscores", "mat"), F("yloadings", "mat"), F("recalculated_y", "mat"), F("recalc_residuals", "mat"),
                       F("predicted_y", "mat"), F("pred_residuals", "mat"), F("r2y_validation", "mat"), F("r2y_recalculated", "mat"),
                       F("q2y", "mat"), F("sdep", "mat"), F("sdec", "mat"), F("bias", "mat"), F("roc_auc_recalculated", "mat"),
                       F("roc_auc_validation", "mat"), F("precision_recall_ap_recalculated", "mat"),
                       F("precision_recall_ap_validation", "mat"), F("yscrambling", "mat"), F("roc_recalculated", "ten"),
                       F("roc_validation", "ten"), F("precision_recall_recalculated", "ten"), F("precision_recall_validation", "ten") >>
Unsaved(k) == IF k = "PCA" /\ ~SaveAll THEN {"dmodx"} ELSE {}
\* constant tables (TLC evaluates zero-arity constant definitions once)
FieldSeqT == [k \in Kinds |-> SelectSeq(ModelFieldSeq(k), LAMBDA f : f.name \notin Unsaved(k))]
ModelFieldsT == [k \in Kinds |-> {ModelFieldSeq(k)[i].name : i \in DOMAIN ModelFieldSeq(k)}]
FieldIdxT == [k \in Kinds |-> [f \in ModelFieldsT[k] |-> CHOOSE i \in DOMAIN ModelFieldSeq(k) : ModelFieldSeq(k)[i].name = f]]
TypeOfT == [k \in Kinds |-> [f \in ModelFieldsT[k] |-> ModelFieldSeq(k)[FieldIdxT[k][f]].ty]]
FieldSeq(k) == FieldSeqT[k]                             \* what Write<kind>/Read<kind> handle, in writing order
ModelFields(k) == ModelFieldsT[k]
SavedFields(k) == ModelFieldsT[k] \ Unsaved(k)
AllTables == UNION {ModelFields(k) : k \in Kinds}      \* PCA and CPCA share the table names colaverage / colscaling
FieldIdx(k, f) == FieldIdxT[k][f]
TypeOf(k, f) == TypeOfT[k][f]

(* ---- shapes: a sequence of dims, one <<n>> per vector / <<r, c>> per matrix (vec, mat: length 1) ---- *)
CellBase == 100
Cell(tag) == CellBase + tag
IsCell(x) == x >= CellBase
Cells(n, tag) == [i \in 1..n |-> Cell(tag)]
RECURSIVE SumCells(_)
SumCells(sh) == IF sh = <<>> THEN 0 ELSE (IF Len(sh[1]) = 1 THEN sh[1][1] ELSE sh[1][1] * sh[1][2]) + SumCells(Tail(sh))
NCells(sh) == SumCells(sh)

\* abstract dims: field number i of its kind, size class s; small vectors/matrices/lists with i % 3 = 0 are empty
\* the optional preprocessing fields: empty when the model was fitted with scaling -1
Prep(k) == CASE k = "PCA" -> {"colaverage", "colscaling"}
             [] k = "CPCA" -> {"colaverage", "colscaling"}
             [] k = "PLS" -> {"xcolaverage", "xcolscaling", "ycolaverage", "ycolscaling"}
AbsShape12(k, f, s) ==
  LET i == FieldIdx(k, f) ty == TypeOf(k, f) IN
  CASE ty = "vec" -> << <<(i % 3) + s - 1>> >>
    [] ty = "mat" -> IF f = "dmodx" THEN << <<s + 1, s>> >> ELSE << <<(i % 3) + s - 1, ((i \div 3) % 2) + s>> >>
    [] ty = "ten" -> [j \in 1..((i % 2) + s - 1) |-> <<j + s - 1, s>>]
    [] ty = "lst" -> [j \in 1..((i % 2) + s) |-> <<j + s - 2>>]
AbsShape(k, f, s) ==
  IF s < 3 THEN AbsShape12(k, f, s)
  ELSE IF f \notin Prep(k) THEN AbsShape12(k, f, 1)
  ELSE IF TypeOf(k, f) = "vec" THEN << <<0>> >> ELSE [j \in 1..Len(AbsShape12(k, f, 1)) |-> <<0>>]
AbsModelT == [k \in Kinds |-> [s \in Sizes |-> [f \in ModelFields(k) |-> AbsShape(k, f, s)]]]
AbsModel(k, s) == AbsModelT[k][s]

(* ---- serialisers (io.c:11-30, 49-60, 75-89) ---- *)
RECURSIVE SerMats(_, _), SerVecs(_, _)
SerMats(sh, tag) == IF sh = <<>> THEN <<>> ELSE <<sh[1][1], sh[1][2]>> \o Cells(sh[1][1] * sh[1][2], tag) \o SerMats(Tail(sh), tag)
SerVecs(sh, tag) == IF sh = <<>> THEN <<>> ELSE <<sh[1][1]>> \o Cells(sh[1][1], tag) \o SerVecs(Tail(sh), tag)
Ser(ty, sh, tag) == CASE ty = "vec" -> Cells(sh[1][1], tag)
                      [] ty = "mat" -> SerMats(sh, tag)
                      [] ty = "ten" -> <<Len(sh)>> \o SerMats(sh, tag)
                      [] ty = "lst" -> SerVecs(sh, tag)

(* ---- deserialisers (io.c:32-47, 62-73, 92-104, 175-209).  Result: dims read, set of content numbers read, *)
(* ok = FALSE when the C code would read outside the fetched rows or take a content number for a dimension   *)
(* (undefined behaviour / garbage in the real code).                                                          *)
Res(d, t, o) == [dims |-> d, tags |-> t, ok |-> o]
Bad == Res(<<>>, {}, FALSE)
Fresh(ty) == Res(IF ty = "mat" THEN << <<0, 0>> >> ELSE IF ty = "vec" THEN << <<0>> >> ELSE <<>>, {}, TRUE)   \* a field nobody reads
Content(rows, a, b) == {rows[i] : i \in a..b}
AllCells(rows, a, b) == \A i \in a..b : IsCell(rows[i])
DeVec(rows) == Res(<< <<Len(rows)>> >>, Content(rows, 1, Len(rows)), AllCells(rows, 1, Len(rows)))
\* one matrix starting at row c: dims from rows c, c+1, then r*cc cells; nx = next unread row
MatAt(rows, c) ==
  IF c + 1 > Len(rows) THEN [d |-> <<0, 0>>, tags |-> {}, ok |-> FALSE, nx |-> Len(rows) + 1]
  ELSE LET r == rows[c] cc == rows[c + 1] IN
       IF IsCell(r) \/ IsCell(cc) \/ c + 1 + r * cc > Len(rows) THEN [d |-> <<r, cc>>, tags |-> {}, ok |-> FALSE, nx |-> Len(rows) + 1]
       ELSE [d |-> <<r, cc>>, tags |-> Content(rows, c + 2, c + 1 + r * cc), ok |-> AllCells(rows, c + 2, c + 1 + r * cc), nx |-> c + 2 + r * cc]
DeMat(rows) == LET m == MatAt(rows, 1) IN Res(<<m.d>>, m.tags, m.ok)         \* rows after the first matrix are never looked at
RECURSIVE TenFrom(_, _, _)
TenFrom(rows, c, k) ==
  IF k = 0 THEN Res(<<>>, {}, TRUE)
  ELSE LET m == MatAt(rows, c) IN
       IF ~m.ok THEN Res(<<m.d>>, m.tags, FALSE)
       ELSE LET rest == TenFrom(rows, m.nx, k - 1) IN Res(<<m.d>> \o rest.dims, m.tags \cup rest.tags, rest.ok)
DeTen(rows) == IF Len(rows) = 0 \/ IsCell(rows[1]) THEN Bad ELSE TenFrom(rows, 2, rows[1])
RECURSIVE LstFrom(_, _)
LstFrom(rows, c) ==        \* while(c < size): length-prefixed vectors until the rows are used up
  IF c > Len(rows) THEN Res(<<>>, {}, TRUE)
  ELSE LET n == rows[c] IN
       IF IsCell(n) \/ c + n > Len(rows) THEN Res(<< <<n>> >>, {}, FALSE)
       ELSE LET rest == LstFrom(rows, c + 1 + n) IN
            Res(<< <<n>> >> \o rest.dims, Content(rows, c + 1, c + n) \cup rest.tags, AllCells(rows, c + 1, c + n) /\ rest.ok)
Deser(ty, rows) == CASE ty = "vec" -> DeVec(rows) [] ty = "mat" -> DeMat(rows) [] ty = "ten" -> DeTen(rows) [] ty = "lst" -> LstFrom(rows, 1)

(* ---- the file ---- *)
NoTable == [present |-> FALSE, rows |-> <<>>]
EmptyFile == [t \in AllTables |-> NoTable]
Drop(tabs) == IF DropTables THEN EmptyFile ELSE tabs
Ins(tabs, f, rows) == [tabs EXCEPT ![f] = [present |-> TRUE, rows |-> @.rows \o rows]]     \* CREATE IF NOT EXISTS ; INSERT*
RECURSIVE WriteFields(_, _, _, _, _)
WriteFields(tabs, fs, i, shapes, tag) ==
  IF i > Len(fs) THEN tabs ELSE WriteFields(Ins(tabs, fs[i].name, Ser(fs[i].ty, shapes[fs[i].name], tag)), fs, i + 1, shapes, tag)
FileWrite(tabs, k, shapes, tag) == WriteFields(Drop(tabs), FieldSeq(k), 1, shapes, tag)
\* reading a table that does not exist makes the C code abort(): Bad
FileRead(tabs, k) == [f \in ModelFields(k) |->
                        IF f \in Unsaved(k) THEN Fresh(TypeOf(k, f))
                        ELSE IF ~tabs[f].present THEN Bad ELSE Deser(TypeOf(k, f), tabs[f].rows)]
\* what a reader must get back for the model (shapes, tag)
Expect(k, shapes, tag) == [f \in ModelFields(k) |-> Res(shapes[f], IF NCells(shapes[f]) = 0 THEN {} ELSE {Cell(tag)}, TRUE)]
RowCounts(tabs) == [t \in {u \in AllTables : tabs[u].present} |-> Len(tabs[t].rows)]

(* ---- histories ---- *)
VARIABLES db,        \* path -> table name -> [present, rows]
          ops,       \* the history so far (ghost; excluded from the VIEW of the MC configs)
          hist,      \* its length
          lastw,     \* path -> kind -> [sh, tag] of the most recent Write of that kind to that path (tag 0: none)
          lastkind,  \* path -> kind most recently written ("none")
          lastread   \* result of the Read just performed
vars == <<db, ops, hist, lastw, lastkind, lastread>>
NoWrite == [sh |-> <<>>, tag |-> 0]
NoRead == [valid |-> FALSE, p |-> "", k |-> "", res |-> <<>>]
Init == /\ db = [p \in Paths |-> EmptyFile] /\ ops = <<>> /\ hist = 0
        /\ lastw = [p \in Paths |-> [k \in Kinds |-> NoWrite]] /\ lastkind = [p \in Paths |-> "none"] /\ lastread = NoRead

Write(p, k, s) ==
  /\ hist < MaxHist /\ hist' = hist + 1 /\ ops' = Append(ops, [op |-> "W", p |-> p, k |-> k, s |-> s])
  /\ db' = [db EXCEPT ![p] = FileWrite(@, k, AbsModel(k, s), hist + 1)]
  /\ lastw' = [lastw EXCEPT ![p][k] = [sh |-> AbsModel(k, s), tag |-> hist + 1]]
  /\ lastkind' = [lastkind EXCEPT ![p] = k] /\ lastread' = NoRead

\* reading kind k from a file whose latest model is of another kind is not a request the property speaks about
Read(p, k) ==
  /\ hist < MaxHist /\ hist' = hist + 1 /\ ops' = Append(ops, [op |-> "R", p |-> p, k |-> k, s |-> 0])
  /\ lastkind[p] = k
  /\ lastread' = [valid |-> TRUE, p |-> p, k |-> k, res |-> FileRead(db[p], k)]
  /\ UNCHANGED <<db, lastw, lastkind>>

Next == \E p \in Paths, k \in Kinds : (\E s \in Sizes : Write(p, k, s)) \/ Read(p, k)
Spec == Init /\ [][Next]_vars

\* the property: a Read returns the dims and the content of the most recent Write of that kind to that path
ReadsLast == lastread.valid =>
               LET w == lastw[lastread.p][lastread.k] IN lastread.res = Expect(lastread.k, w.sh, w.tag)
\* sanity of the abstract models: the two size classes differ in every field, so a stale read cannot go unnoticed
SizesDiffer == /\ \A k \in Kinds : \A f \in ModelFields(k) : AbsShape(k, f, 1) # AbsShape(k, f, 2)
               /\ \A k \in Kinds : \A f \in Prep(k) : NCells(AbsShape(k, f, 3)) = 0 /\ NCells(AbsShape(k, f, 2)) > 0
\* the clause "empty optional fields stay empty", stated on its own (implied by ReadsLast): a field that is empty in the model
\* last written is read back with exactly its (empty) dims and no content number, whatever the table held before
EmptyStaysEmpty == lastread.valid =>
                     LET w == lastw[lastread.p][lastread.k] IN
                     \A f \in ModelFields(lastread.k) : NCells(w.sh[f]) = 0 =>
                        (lastread.res[f].dims = w.sh[f] /\ lastread.res[f].tags = {} /\ lastread.res[f].ok)
MCView == <<db, hist, lastw, lastkind, lastread>>
====
