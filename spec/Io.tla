---- MODULE Io ----
(* C16 - a saved model reads back equal to the model last written, whatever came before.                      *)
(*                                                                                                            *)
(* Model of src/io.c.  A model file is an SQLite database with one table per model field; a table is a        *)
(* sequence of rows (id AUTOINCREMENT, value REAL), i.e. a sequence of numbers in rowid order.                *)
(*   WriteXXX(path, m) = OpenDB ; DropAllTables ; for every field in a fixed order:                           *)
(*                         CREATE TABLE IF NOT EXISTS <field> ; INSERT one row per number of serialise(field) *)
(*   ReadXXX(path, m)  = for every field: SELECT value FROM <field> (rowid order) ; deserialise               *)
(* Serialisation (io.c:11-104): dvector = its numbers; matrix = row, col, cells row-major; tensor = order,    *)
(* then per matrix row, col, cells; dvectorlist = per vector size, numbers.  Deserialisation trusts the       *)
(* leading dimension entries and, for a plain dvector, takes ALL rows of the table.                           *)
(*                                                                                                            *)
(* Variants of the mechanism (never assumed; inferred from the real files by TraceIo, DESIGN section 4 (V)):  *)
(*   DropTables  TRUE  = DropAllTables really drops every table of the file before writing                    *)
(*               FALSE = it only SELECTs the text of the DROP statements and never executes them              *)
(*   SaveAll     TRUE  = every field of the C struct is written and read                                      *)
(*               FALSE = PCAMODEL.dmodx is neither written nor read (it comes back as a fresh 0x0 matrix)     *)
(* Abstract models are (kind, size class, tag): every field has its own dims, different in the size classes    *)
(* small/large (some optional fields are empty in the small class); the third class "unscaled" has empty      *)
(* preprocessing vectors, so that "empty optional fields stay empty" is exercised after non-empty             *)
(* predecessors in the same table (also across PCA/CPCA, which share table names); every content number of the model *)
(* written at step t is the number Cell(t); dimension entries are numbers below CellBase, so the model can    *)
(* tell when a reader takes a content number for a dimension or the other way round.                          *)
(* Further variants / bounds of a configuration:                                                                *)
(*   ReadBlock   0     = read_vector takes every row of the table (one append per row)                          *)
(*               b > 0 = a reader that grows its result in blocks of b numbers and sets the length only when it  *)
(*                       trims a partial last block: a table with a non-zero multiple of b rows reads as length 0 *)
(*                       (never the tree's behaviour; it is the model-level reason for input class K2, see       *)
(*                       RoundTripExact / LegacyBlockBlind below)                                                *)
(*   SizeSet     the size classes the Write action explores: 1..3 abstract, >= 4 the concrete profiles below     *)
(*   Rewrites    TRUE = the same in-memory model may be written once more (action Rewrite, input class K7)       *)
(*   Reuse       "off" = every Read fills a fresh model object (what C16 states); "appends" / "resets" = a model   *)
(*               object filled by an earlier Read may be handed to Read again (action ReadAgain - OUTSIDE the       *)
(*               statement of C16): "appends" = io.c as it is (the destination's vectors, lists and tensors are     *)
(*               appended to), "resets" = a reader that empties its destination first                               *)
(*   Shape       "all" = every history within MaxHist; "prof" / "profall" / "rewrite" / "reuse" = the history      *)
(*               families ProfHist / RewriteHist / ReuseHist below (a filter applied before the files are built)    *)
EXTENDS Naturals, Sequences, FiniteSets, TLC
CONSTANTS Paths, MaxHist, DropTables, SaveAll, ReadBlock, SizeSet, Rewrites, Shape, Reuse

Kinds == {"PCA", "CPCA", "PLS"}
Sizes == {1, 2, 3}     \* 1 = small, 2 = large (both fitted with centring/scaling), 3 = "unscaled": a small model fitted with
                       \* scaling -1, whose preprocessing vectors are EMPTY (zero rows in their tables; for CPCA a list of empty vectors)

F(n, t) == [name |-> n, ty |-> t]
\* every field of the C structs, saved ones in the order Write<kind> writes them (pca.h, cpca.h, pls.h; io.c:251-586)
ModelFieldSeq(k) ==
  CASE k = "PCA" -> << F("colaverage", "vec"), F("colscaling", "vec"), F("varexp", "vec"), F("scores", "mat"), F("loadings", "mat"),
                       F("dmodx", "mat") >>
    [] k = "CPCA" -> << F("scaling_factor", "vec"), F("total_expvar", "vec"), F("block_scores", "ten"), F("block_loadings", "ten"),
                        F("super_scores", "mat"), F("super_weights", "mat"), F("block_expvar", "lst"), F("colaverage", "lst"),
                        F("colscaling", "lst") >>
    [] k = "PLS" -> << F("xcolscaling", "vec"), F("xcolaverage", "vec"), F("ycolscaling", "vec"), F("ycolaverage", "vec"),
                       F("xvarexp", "vec"), F("b", "vec"), F("xscores", "mat"), F("xloadings", "mat"), F("xweights", "mat"),
                       F("yscores", "mat"), F("yloadings", "mat"), F("recalculated_y", "mat"), F("recalc_residuals", "mat"),
                       F("predicted_y", "mat"), F("pred_residuals", "mat"), F("r2y_validation", "mat"), F("r2y_recalculated", "mat"),
                       F("q2y", "mat"), F("sdep", "mat"), F("sdec", "mat"), F("bias", "mat"), F("roc_auc_recalculated", "mat"),
                       F("roc_auc_validation", "mat"), F("precision_recall_ap_recalculated", "mat"),
                       F("precision_recall_ap_validation", "mat"), F("yscrambling", "mat"), F("roc_recalculated", "ten"),
                       F("roc_validation", "ten"), F("precision_recall_recalculated", "ten"), F("precision_recall_validation", "ten") >>
Unsaved(k) == IF k = "PCA" /\ ~SaveAll THEN {"dmodx"} ELSE {}
\* constant tables (TLC evaluates zero-arity constant definitions once)
FieldSeqT == [k \in Kinds |-> SelectSeq(ModelFieldSeq(k), LAMBDA f : f.name \notin Unsaved(k))]
ModelFieldsT == [k \in Kinds |-> {ModelFieldSeq(k)[i].name : i \in DOMAIN ModelFieldSeq(k)}]
FieldIdxT == [k \in Kinds |-> [f \in ModelFieldsT[k] |-> CHOOSE i \in DOMAIN ModelFieldSeq(k) : ModelFieldSeq(k)[i].name = f]]
TypeOfT == [k \in Kinds |-> [f \in ModelFieldsT[k] |-> ModelFieldSeq(k)[FieldIdxT[k][f]].ty]]
FieldSeq(k) == FieldSeqT[k]                             \* what Write<kind>/Read<kind> handle, in writing order
ModelFields(k) == ModelFieldsT[k]
SavedFields(k) == ModelFieldsT[k] \ Unsaved(k)
AllTables == UNION {ModelFields(k) : k \in Kinds}      \* PCA and CPCA share the table names colaverage / colscaling
FieldIdx(k, f) == FieldIdxT[k][f]
TypeOf(k, f) == TypeOfT[k][f]

(* ---- shapes: a sequence of dims, one <<n>> per vector / <<r, c>> per matrix (vec, mat: length 1) ---- *)
CellBase == 1000      \* above every dimension of every model of the alphabet (largest: 257 variables)
Cell(tag) == CellBase + tag
IsCell(x) == x >= CellBase
Cells(n, tag) == [i \in 1..n |-> Cell(tag)]
RECURSIVE SumCells(_)
SumCells(sh) == IF sh = <<>> THEN 0 ELSE (IF Len(sh[1]) = 1 THEN sh[1][1] ELSE sh[1][1] * sh[1][2]) + SumCells(Tail(sh))
NCells(sh) == SumCells(sh)

\* abstract dims: field number i of its kind, size class s; small vectors/matrices/lists with i % 3 = 0 are empty
\* the optional preprocessing fields: empty when the model was fitted with scaling -1
Prep(k) == CASE k = "PCA" -> {"colaverage", "colscaling"}
             [] k = "CPCA" -> {"colaverage", "colscaling"}
             [] k = "PLS" -> {"xcolaverage", "xcolscaling", "ycolaverage", "ycolscaling"}
AbsShape12(k, f, s) ==
  LET i == FieldIdx(k, f) ty == TypeOf(k, f) IN
  CASE ty = "vec" -> << <<(i % 3) + s - 1>> >>
    [] ty = "mat" -> IF f = "dmodx" THEN << <<s + 1, s>> >> ELSE << <<(i % 3) + s - 1, ((i \div 3) % 2) + s>> >>
    [] ty = "ten" -> [j \in 1..((i % 2) + s - 1) |-> <<j + s - 1, s>>]
    [] ty = "lst" -> [j \in 1..((i % 2) + s) |-> <<j + s - 2>>]
AbsShape(k, f, s) ==
  IF s < 3 THEN AbsShape12(k, f, s)
  ELSE IF f \notin Prep(k) THEN AbsShape12(k, f, 1)
  ELSE IF TypeOf(k, f) = "vec" THEN << <<0>> >> ELSE [j \in 1..Len(AbsShape12(k, f, 1)) |-> <<0>>]

(* ---- concrete models: the shapes of a FITTED model as a function of the fit parameters (pca.c, cpca.c, pls.c; the harness ---- *)
(* fills the validation side of a PLS model with val = 1).  Parameter vectors, content class cc last (TraceIo):                 *)
(*   PCA  <<n, p, a, cc>>            n objects, p variables, a components                                                       *)
(*   CPCA <<n, ctot, a, nb, cc>>     nb blocks with ctot columns in all (block k: ctot \div nb, the first ctot % nb one more)   *)
(*   PLS  <<n, p, a, ny, val, tr, tc, cc>>   val = 1: predictions/statistics filled, the four curve tensors hold matrices of     *)
(*                                   (tr+1) x tc (the two roc tensors) and tr x tc (precision_recall), a-1 (min 1) resp. a of them *)
Vsh(n) == << <<n>> >>
Msh(r, c) == << <<r, c>> >>
Rep(n, d) == [i \in 1..n |-> d]
BlockCols(ctot, nb) == [j \in 1..nb |-> (ctot \div nb) + (IF j <= ctot % nb THEN 1 ELSE 0)]
FitPCA(q) == LET n == q[1] p == q[2] a == q[3] IN
  [colaverage |-> Vsh(p), colscaling |-> Vsh(p), varexp |-> Vsh(a), scores |-> Msh(n, a), loadings |-> Msh(p, a), dmodx |-> Msh(n, a)]
RECURSIVE MinOf(_)
MinOf(sq) == IF Len(sq) = 1 THEN sq[1] ELSE LET m == MinOf(Tail(sq)) IN IF sq[1] < m THEN sq[1] ELSE m
\* CPCA() caps the number of components at the number of columns of its narrowest block (cpca.c:145)
FitCPCA(q) == LET n == q[1] nb == q[4] cs == BlockCols(q[2], nb) a == IF q[3] < MinOf(cs) THEN q[3] ELSE MinOf(cs) IN
  [scaling_factor |-> Vsh(nb), total_expvar |-> Vsh(a), block_scores |-> Rep(a, <<n, nb>>), block_loadings |-> [j \in 1..nb |-> <<cs[j], a>>],
   super_scores |-> Msh(n, a), super_weights |-> Msh(nb, a), block_expvar |-> Rep(a, <<nb>>),
   colaverage |-> [j \in 1..nb |-> <<cs[j]>>], colscaling |-> [j \in 1..nb |-> <<cs[j]>>]]
FitPLS(q) == LET n == q[1] p == q[2] a == q[3] ny == q[4] val == q[5] = 1 tr == q[6] tc == q[7]
                 a0 == IF a > 1 THEN a - 1 ELSE 1
                 MV(r, c) == IF val THEN Msh(r, c) ELSE Msh(0, 0)
                 TV(m, r, c) == IF val THEN Rep(m, <<r, c>>) ELSE <<>> IN
  [xcolscaling |-> Vsh(p), xcolaverage |-> Vsh(p), ycolscaling |-> Vsh(ny), ycolaverage |-> Vsh(ny), xvarexp |-> Vsh(a), b |-> Vsh(a),
   xscores |-> Msh(n, a), xloadings |-> Msh(p, a), xweights |-> Msh(p, a), yscores |-> Msh(n, a), yloadings |-> Msh(ny, a),
   recalculated_y |-> Msh(n, ny * a), recalc_residuals |-> Msh(n, ny * a), predicted_y |-> MV(n, ny * a), pred_residuals |-> MV(n, ny * a),
   r2y_validation |-> MV(a, ny), r2y_recalculated |-> MV(a, ny), q2y |-> MV(a, ny), sdep |-> MV(a, ny), sdec |-> MV(a, ny), bias |-> MV(a, ny),
   roc_auc_recalculated |-> MV(a0, ny), roc_auc_validation |-> MV(a, ny), precision_recall_ap_recalculated |-> MV(a0, ny),
   precision_recall_ap_validation |-> MV(a, ny), yscrambling |-> MV(4, 2 * ny),
   roc_recalculated |-> TV(a0, tr + 1, tc), roc_validation |-> TV(a, tr + 1, tc),
   precision_recall_recalculated |-> TV(a0, tr, tc), precision_recall_validation |-> TV(a, tr, tc)]
FitShape(k, q) == CASE k = "PCA" -> FitPCA(q) [] k = "CPCA" -> FitCPCA(q) [] k = "PLS" -> FitPLS(q)

(* the profiles: size class 3 + i of kind k is the model fitted with parameters Profiles[k][i].  The dimensions are chosen so that the   *)
(* serialised length of some vector / matrix / tensor / list field is a block-size boundary b or b +- 1, b in {4,32,64,96,128,256}   *)
(* (input class K2; which boundaries are reached is THEOREM-checked below: K2Covered), plus shape relations (K1: square, n = p +- 1, *)
(* a = p, a single variable, single-column blocks) and the content classes 1..4 on mid-sized models (K3, K4, K5).                   *)
Profiles == [
  PCA |-> << <<6,2,1,0>>, <<6,3,1,0>>, <<6,4,1,0>>, <<6,5,1,0>>, <<6,32,1,0>>, <<6,33,1,0>>, <<10,31,3,0>>, <<29,63,1,0>>, <<6,61,1,0>>,
             <<6,64,1,0>>, <<6,65,1,0>>, <<31,127,2,0>>,
             <<6,42,3,0>>, <<6,47,2,0>>, <<6,96,1,0>>, <<6,97,1,0>>, <<6,127,1,0>>, <<6,128,1,0>>, <<6,129,1,0>>, <<6,255,1,0>>, <<6,256,1,0>>,
             <<6,257,1,0>>, <<31,95,1,0>>,
             <<8,8,2,0>>, <<8,7,2,0>>, <<8,9,2,0>>, <<8,3,3,0>>, <<7,1,1,0>>, <<9,5,2,1>>, <<9,5,2,2>>, <<9,5,2,3>>, <<9,5,2,4>>, <<10,32,3,2>>, <<10,32,3,3>> >>,
  CPCA |-> << <<15,27,1,2,0>>, <<15,27,1,4,0>>, <<15,29,2,3,0>>, <<31,24,1,3,0>>, <<6,19,3,3,0>>, <<6,63,1,2,0>>, <<29,64,1,32,0>>, <<23,61,2,2,0>>,
              <<6,41,3,2,0>>, <<6,93,1,2,0>>, <<6,95,1,2,0>>, <<6,95,2,33,0>>, <<6,251,1,2,0>>, <<6,253,1,2,0>>, <<6,254,1,2,0>>, <<6,255,1,2,0>>,
              <<15,96,2,31,0>>, <<21,98,3,31,0>>,
              <<8,8,2,2,0>>, <<6,14,1,2,0>>, <<7,2,1,2,0>>, <<9,9,2,3,1>>, <<9,9,2,3,2>>, <<9,9,2,3,3>>, <<9,9,2,3,4>>, <<8,29,2,3,2>>, <<8,29,2,3,3>> >>,
  PLS |-> << <<6,3,1,1,1,13,2,0>>, <<15,31,2,1,1,29,1,0>>, <<29,32,1,1,1,2,1,0>>, <<6,33,2,1,1,60,1,0>>, <<6,95,1,63,0,0,0,0>>,
             <<6,127,1,64,0,0,0,0>>, <<6,255,1,65,0,0,0,0>>, <<31,5,1,3,1,93,1,0>>,
             <<6,3,1,1,1,252,1,0>>, <<6,3,2,1,1,14,3,0>>, <<6,96,1,1,0,0,0,0>>, <<6,97,1,1,0,0,0,0>>, <<6,127,2,1,0,0,0,0>>, <<6,128,1,1,0,0,0,0>>,
             <<6,129,1,1,0,0,0,0>>, <<6,256,1,1,0,0,0,0>>, <<6,257,1,1,0,0,0,0>>, <<21,4,2,3,1,125,1,0>>,
             <<8,8,2,1,0,0,0,0>>, <<8,9,2,2,0,0,0,0>>, <<8,7,2,2,0,0,0,0>>, <<7,3,3,1,0,0,0,0>>, <<7,1,1,1,0,0,0,0>>,
             <<9,5,2,2,1,3,4,1>>, <<9,5,2,2,1,3,4,2>>, <<9,5,2,2,1,3,4,3>>, <<9,5,2,2,1,3,4,4>>, <<10,32,2,32,0,0,0,2>>, <<10,32,2,2,0,0,0,3>> >>]
NProf(k) == Len(Profiles[k])
ProfSizes(k) == 4..(3 + NProf(k))
AllSizes(k) == Sizes \cup ProfSizes(k)
ParamsOf(k, s) == IF s \in Sizes THEN <<>> ELSE Profiles[k][s - 3]
ContentClass(k, s) == IF s \in Sizes THEN 9 ELSE Profiles[k][s - 3][Len(Profiles[k][s - 3])]     \* 9: drawn by the harness (moderate or rescaled)

AbsModelT == [k \in Kinds |-> [s \in AllSizes(k) |-> IF s \in Sizes THEN [f \in ModelFields(k) |-> AbsShape(k, f, s)] ELSE FitShape(k, ParamsOf(k, s))]]
AbsModel(k, s) == AbsModelT[k][s]

(* ---- serialisers (io.c:11-30, 49-60, 75-89) ---- *)
RECURSIVE SerMats(_, _), SerVecs(_, _)
SerMats(sh, tag) == IF sh = <<>> THEN <<>> ELSE <<sh[1][1], sh[1][2]>> \o Cells(sh[1][1] * sh[1][2], tag) \o SerMats(Tail(sh), tag)
SerVecs(sh, tag) == IF sh = <<>> THEN <<>> ELSE <<sh[1][1]>> \o Cells(sh[1][1], tag) \o SerVecs(Tail(sh), tag)
Ser(ty, sh, tag) == CASE ty = "vec" -> Cells(sh[1][1], tag)
                      [] ty = "mat" -> SerMats(sh, tag)
                      [] ty = "ten" -> <<Len(sh)>> \o SerMats(sh, tag)
                      [] ty = "lst" -> SerVecs(sh, tag)

RECURSIVE SumMatLen(_), SumVecLen(_)
SumMatLen(sh) == IF sh = <<>> THEN 0 ELSE 2 + sh[1][1] * sh[1][2] + SumMatLen(Tail(sh))
SumVecLen(sh) == IF sh = <<>> THEN 0 ELSE 1 + sh[1][1] + SumVecLen(Tail(sh))
\* number of rows a field occupies in its table
SerLen(ty, sh) == CASE ty = "vec" -> sh[1][1] [] ty = "mat" -> SumMatLen(sh) [] ty = "ten" -> 1 + SumMatLen(sh) [] ty = "lst" -> SumVecLen(sh)
\* rows the saved fields of model (k, s) occupy in all
RECURSIVE SumLens(_, _, _)
SumLens(k, s, fs) == IF fs = {} THEN 0 ELSE LET f == CHOOSE g \in fs : TRUE IN SerLen(TypeOf(k, f), AbsModel(k, s)[f]) + SumLens(k, s, fs \ {f})
ModelRowsT == [k \in Kinds |-> [s \in AllSizes(k) |-> SumLens(k, s, SavedFields(k))]]
ModelRows(k, s) == ModelRowsT[k][s]

(* ---- deserialisers (io.c:32-47, 62-73, 92-104, 175-209).  Result: dims read, set of content numbers read, *)
(* ok = FALSE when the C code would read outside the fetched rows or take a content number for a dimension   *)
(* (undefined behaviour / garbage in the real code).                                                          *)
Res(d, t, o) == [dims |-> d, tags |-> t, ok |-> o]
Bad == Res(<<>>, {}, FALSE)
Fresh(ty) == Res(IF ty = "mat" THEN << <<0, 0>> >> ELSE IF ty = "vec" THEN << <<0>> >> ELSE <<>>, {}, TRUE)   \* a field nobody reads
Content(rows, a, b) == {rows[i] : i \in a..b}
AllCells(rows, a, b) == \A i \in a..b : IsCell(rows[i])
\* the length read_vector reports for the fetched rows (variant ReadBlock); the numbers themselves are always fetched
RawLen(rows) == IF ReadBlock > 0 /\ Len(rows) > 0 /\ Len(rows) % ReadBlock = 0 THEN 0 ELSE Len(rows)
DeVec(rows) == Res(<< <<RawLen(rows)>> >>, Content(rows, 1, RawLen(rows)), AllCells(rows, 1, RawLen(rows)))
\* one matrix starting at row c: dims from rows c, c+1, then r*cc cells; nx = next unread row
MatAt(rows, c) ==
  IF c + 1 > Len(rows) THEN [d |-> <<0, 0>>, tags |-> {}, ok |-> FALSE, nx |-> Len(rows) + 1]
  ELSE LET r == rows[c] cc == rows[c + 1] IN
       IF IsCell(r) \/ IsCell(cc) \/ c + 1 + r * cc > Len(rows) THEN [d |-> <<r, cc>>, tags |-> {}, ok |-> FALSE, nx |-> Len(rows) + 1]
       ELSE [d |-> <<r, cc>>, tags |-> Content(rows, c + 2, c + 1 + r * cc), ok |-> AllCells(rows, c + 2, c + 1 + r * cc), nx |-> c + 2 + r * cc]
DeMat(rows) == LET m == MatAt(rows, 1) IN Res(<<m.d>>, m.tags, m.ok)         \* rows after the first matrix are never looked at
RECURSIVE TenFrom(_, _, _)
TenFrom(rows, c, k) ==
  IF k = 0 THEN Res(<<>>, {}, TRUE)
  ELSE LET m == MatAt(rows, c) IN
       IF ~m.ok THEN Res(<<m.d>>, m.tags, FALSE)
       ELSE LET rest == TenFrom(rows, m.nx, k - 1) IN Res(<<m.d>> \o rest.dims, m.tags \cup rest.tags, rest.ok)
DeTen(rows) == IF Len(rows) = 0 \/ IsCell(rows[1]) THEN Bad ELSE TenFrom(rows, 2, rows[1])
RECURSIVE LstFrom(_, _)
LstFrom(rows, c) ==        \* while(c < size): length-prefixed vectors until the rows are used up (size = the length read_vector reported)
  IF c > RawLen(rows) THEN Res(<<>>, {}, TRUE)
  ELSE LET n == rows[c] IN
       IF IsCell(n) \/ c + n > Len(rows) THEN Res(<< <<n>> >>, {}, FALSE)
       ELSE LET rest == LstFrom(rows, c + 1 + n) IN
            Res(<< <<n>> >> \o rest.dims, Content(rows, c + 1, c + n) \cup rest.tags, AllCells(rows, c + 1, c + n) /\ rest.ok)
Deser(ty, rows) == CASE ty = "vec" -> DeVec(rows) [] ty = "mat" -> DeMat(rows) [] ty = "ten" -> DeTen(rows) [] ty = "lst" -> LstFrom(rows, 1)

(* ---- the file ---- *)
NoTable == [present |-> FALSE, rows |-> <<>>]
EmptyFile == [t \in AllTables |-> NoTable]
Drop(tabs) == IF DropTables THEN EmptyFile ELSE tabs
Ins(tabs, f, rows) == [tabs EXCEPT ![f] = [present |-> TRUE, rows |-> @.rows \o rows]]     \* CREATE IF NOT EXISTS ; INSERT*
RECURSIVE WriteFields(_, _, _, _, _)
WriteFields(tabs, fs, i, shapes, tag) ==
  IF i > Len(fs) THEN tabs ELSE WriteFields(Ins(tabs, fs[i].name, Ser(fs[i].ty, shapes[fs[i].name], tag)), fs, i + 1, shapes, tag)
FileWrite(tabs, k, shapes, tag) == WriteFields(Drop(tabs), FieldSeq(k), 1, shapes, tag)
\* reading a table that does not exist makes the C code abort(): Bad
FileRead(tabs, k) == [f \in ModelFields(k) |->
                        IF f \in Unsaved(k) THEN Fresh(TypeOf(k, f))
                        ELSE IF ~tabs[f].present THEN Bad ELSE Deser(TypeOf(k, f), tabs[f].rows)]
\* what a reader must get back for the model (shapes, tag)
Expect(k, shapes, tag) == [f \in ModelFields(k) |-> Res(shapes[f], IF NCells(shapes[f]) = 0 THEN {} ELSE {Cell(tag)}, TRUE)]
\* Read<kind> given a model object that already holds `old` (the result of an earlier Read): read_vector APPENDS to the dvector it is given
\* (plain vector fields), deserialize_matrix resizes = replaces, deserialize_tensor appends its matrices (AddTensorMatrix) but stores the
\* cells of its j-th matrix into the j-th matrix the tensor ALREADY has (out of bounds when that one is smaller: ok = FALSE),
\* deserialize_dvectorlist appends its vectors; a field nobody reads keeps what the object held
IntoField(ty, old, new) ==
  CASE ty = "vec" -> Res(<< <<old.dims[1][1] + new.dims[1][1]>> >>, old.tags \cup new.tags, old.ok /\ new.ok)
    [] ty = "mat" -> new
    [] ty = "lst" -> Res(old.dims \o new.dims, old.tags \cup new.tags, old.ok /\ new.ok)
    [] ty = "ten" -> LET all == old.dims \o new.dims IN
                     Res(all, old.tags \cup new.tags,
                         old.ok /\ new.ok /\ \A j \in 1..Len(new.dims) : all[j][1] >= new.dims[j][1] /\ all[j][2] >= new.dims[j][2])
FileReadInto(tabs, k, old) == [f \in ModelFields(k) |->
                                IF f \in Unsaved(k) THEN old[f]
                                ELSE IF ~tabs[f].present THEN Bad
                                ELSE LET new == Deser(TypeOf(k, f), tabs[f].rows) IN
                                     IF Reuse = "resets" THEN new ELSE IF ~new.ok \/ ~old[f].ok THEN Bad ELSE IntoField(TypeOf(k, f), old[f], new)]
RowCounts(tabs) == [t \in {u \in AllTables : tabs[u].present} |-> Len(tabs[t].rows)]

(* ---- histories ---- *)
VARIABLES db,        \* path -> table name -> [present, rows]
          ops,       \* the history so far (ghost; excluded from the VIEW of the MC configs)
          hist,      \* its length
          lastw,     \* path -> kind -> [sh, tag] of the most recent Write of that kind to that path (tag 0: none)
          lastkind,  \* path -> kind most recently written ("none")
          lastread,  \* result of the Read just performed
          held       \* kind -> what the model object filled by the most recent Read of that kind holds (Reuse # "off"; else never changes)
vars == <<db, ops, hist, lastw, lastkind, lastread, held>>
NoWrite == [sh |-> <<>>, tag |-> 0]
NoRead == [valid |-> FALSE, p |-> "", k |-> "", res |-> <<>>, reused |-> FALSE]
NoObject == [valid |-> FALSE, res |-> <<>>]
Init == /\ db = [p \in Paths |-> EmptyFile] /\ ops = <<>> /\ hist = 0
        /\ lastw = [p \in Paths |-> [k \in Kinds |-> NoWrite]] /\ lastkind = [p \in Paths |-> "none"] /\ lastread = NoRead
        /\ held = [k \in Kinds |-> NoObject]

(* ---- history families: which histories a configuration explores (Shape) ---- *)
\* "prof" (on one path): every profile written and read; written over / under a model of an abstract class of the same kind, or of the
\* kind that shares its table names (PCA / CPCA: colaverage, colscaling)
Partner(k1, k2) == k1 = k2 \/ {k1, k2} = {"PCA", "CPCA"}
IsProf(o) == o.op = "W" /\ o.s >= 4
\* (Shape = "prof": only profiles of at most 250 rows are mixed with another model; "profall": all of them)
Mixable(o) == Shape = "profall" \/ ModelRows(o.k, o.s) <= 250
ProfHist(h) == /\ \A i \in 1..Len(h) : h[i].p = "p1"
               /\ h[1].op = "W"
               /\ Len(h) >= 2 => \/ IsProf(h[1]) /\ h[2].op = "R"
                                 \/ IsProf(h[1]) /\ Mixable(h[1]) /\ h[2].op = "W" /\ h[2].s = 3 /\ Partner(h[1].k, h[2].k)
                                 \/ ~IsProf(h[1]) /\ h[1].s = 2 /\ IsProf(h[2]) /\ Mixable(h[2]) /\ Partner(h[1].k, h[2].k)
               /\ Len(h) >= 3 => h[2].op = "W" /\ h[3].op = "R"
\* "rewrite" (K7): the model made first is written once more, to the same or the other path, before or after one other Write of its kind, then read
NX(h) == Cardinality({i \in 1..Len(h) : h[i].op = "X"})
RewriteHist(h) == /\ \A i \in 1..Len(h) : h[i].op = "W" => h[i].p = "p1" /\ h[i].k = h[1].k
                  /\ NX(h) <= 1 /\ \A i \in 1..Len(h) : h[i].op = "X" => h[i].s = 1
                  /\ h[1].op = "W"
                  /\ Len(h) >= 2 => h[2].op \in {"X", "W"}
                  /\ Len(h) >= 3 => NX(h) = 1
                  /\ Len(h) >= 4 => h[3].op # "R" /\ h[4].op = "R"
\* "reuse" (outside the statement): a model is written and read; the object that Read filled is handed to Read again, for the same file or
\* after one more Write of that kind to either path
ReuseHist(h) == /\ h[1].op = "W" /\ h[1].p = "p1"
                /\ Len(h) >= 2 => h[2].op = "R"
                /\ Len(h) >= 3 => h[3].op = "Q" \/ (h[3].op = "W" /\ h[3].k = h[1].k)
                /\ Len(h) >= 4 => h[3].op = "W" /\ h[4].op = "Q" /\ h[4].p = h[3].p
Admit(h) == CASE Shape = "all" -> TRUE [] Shape = "reuse" -> ReuseHist(h) [] Shape \in {"prof", "profall"} -> ProfHist(h) [] Shape = "rewrite" -> RewriteHist(h)

\* every action = its history part (enabling condition, ghost history, kind last written: shared with the generator IoGen, which explores
\* the histories without building the files) /\ its effect on the files and on the observation
WriteH(p, k, s) ==
  /\ s \in SizeSet \cap AllSizes(k)
  /\ hist < MaxHist /\ Admit(Append(ops, [op |-> "W", p |-> p, k |-> k, s |-> s]))
  /\ hist' = hist + 1 /\ ops' = Append(ops, [op |-> "W", p |-> p, k |-> k, s |-> s])
  /\ lastkind' = [lastkind EXCEPT ![p] = k]
Write(p, k, s) ==
  /\ WriteH(p, k, s)
  /\ db' = [db EXCEPT ![p] = FileWrite(@, k, AbsModel(k, s), hist + 1)]
  /\ lastw' = [lastw EXCEPT ![p][k] = [sh |-> AbsModel(k, s), tag |-> hist + 1]]
  /\ lastread' = NoRead /\ held' = held

\* reading kind k from a file whose latest model is of another kind is not a request the property speaks about
ReadH(p, k) ==
  /\ hist < MaxHist /\ lastkind[p] = k /\ Admit(Append(ops, [op |-> "R", p |-> p, k |-> k, s |-> 0]))
  /\ hist' = hist + 1 /\ ops' = Append(ops, [op |-> "R", p |-> p, k |-> k, s |-> 0]) /\ lastkind' = lastkind
Read(p, k) ==
  /\ ReadH(p, k)
  /\ lastread' = [valid |-> TRUE, p |-> p, k |-> k, res |-> FileRead(db[p], k), reused |-> FALSE]
  /\ held' = IF Reuse = "off" THEN held ELSE [held EXCEPT ![k] = [valid |-> TRUE, res |-> FileRead(db[p], k)]]
  /\ UNCHANGED <<db, lastw>>

\* OUTSIDE the statement of C16: the model object filled by the most recent Read of kind k is handed to Read<kind> once more
ReadAgainH(p, k) ==
  /\ Reuse # "off" /\ hist < MaxHist /\ lastkind[p] = k /\ held[k].valid /\ Admit(Append(ops, [op |-> "Q", p |-> p, k |-> k, s |-> 0]))
  /\ hist' = hist + 1 /\ ops' = Append(ops, [op |-> "Q", p |-> p, k |-> k, s |-> 0]) /\ lastkind' = lastkind
ReadAgain(p, k) ==
  /\ ReadAgainH(p, k)
  /\ LET res == FileReadInto(db[p], k, held[k].res) IN
       /\ lastread' = [valid |-> TRUE, p |-> p, k |-> k, res |-> res, reused |-> TRUE]
       /\ held' = [held EXCEPT ![k] = [valid |-> TRUE, res |-> res]]
  /\ UNCHANGED <<db, lastw>>

\* the in-memory model made at step t (a Write of kind k) is written once more, to any path: same object, same content tag t
RewriteH(p, k, t) ==
  /\ Rewrites /\ hist < MaxHist /\ t \in 1..hist /\ ops[t].op = "W" /\ ops[t].k = k
  /\ Admit(Append(ops, [op |-> "X", p |-> p, k |-> k, s |-> t]))
  /\ hist' = hist + 1 /\ ops' = Append(ops, [op |-> "X", p |-> p, k |-> k, s |-> t])
  /\ lastkind' = [lastkind EXCEPT ![p] = k]
Rewrite(p, k, t) ==
  /\ RewriteH(p, k, t)
  /\ db' = [db EXCEPT ![p] = FileWrite(@, k, AbsModel(k, ops[t].s), t)]
  /\ lastw' = [lastw EXCEPT ![p][k] = [sh |-> AbsModel(k, ops[t].s), tag |-> t]]
  /\ lastread' = NoRead /\ held' = held

Next == \E p \in Paths, k \in Kinds : (\E s \in SizeSet : Write(p, k, s)) \/ Read(p, k) \/ (\E t \in 1..MaxHist : Rewrite(p, k, t)) \/ ReadAgain(p, k)
Spec == Init /\ [][Next]_vars

\* the property: a Read returns the dims and the content of the most recent Write of that kind to that path
ReadsLast == lastread.valid /\ ~lastread.reused =>
               LET w == lastw[lastread.p][lastread.k] IN lastread.res = Expect(lastread.k, w.sh, w.tag)
\* the same expectation for a Read into a model object that is not fresh (not stated by C16; refuted for Reuse = "appends", holds for "resets")
ReusedReadsLast == lastread.valid /\ lastread.reused =>
               LET w == lastw[lastread.p][lastread.k] IN lastread.res = Expect(lastread.k, w.sh, w.tag)
\* sanity of the abstract models: the two size classes differ in every field, so a stale read cannot go unnoticed
SizesDiffer == /\ \A k \in Kinds : \A f \in ModelFields(k) : AbsShape(k, f, 1) # AbsShape(k, f, 2)
               /\ \A k \in Kinds : \A f \in Prep(k) : NCells(AbsShape(k, f, 3)) = 0 /\ NCells(AbsShape(k, f, 2)) > 0
\* the clause "empty optional fields stay empty", stated on its own (implied by ReadsLast): a field that is empty in the model
\* last written is read back with exactly its (empty) dims and no content number, whatever the table held before
EmptyStaysEmpty == lastread.valid /\ ~lastread.reused =>
                     LET w == lastw[lastread.p][lastread.k] IN
                     \A f \in ModelFields(lastread.k) : NCells(w.sh[f]) = 0 =>
                        (lastread.res[f].dims = w.sh[f] /\ lastread.res[f].tags = {} /\ lastread.res[f].ok)
\* the file of a path is a function of the model last written to it alone: this is why the length of the history before the last
\* Write is irrelevant for the conforming variant (and what DropTables = FALSE breaks)
Canonical == DropTables => \A p \in Paths :
               db[p] = IF lastkind[p] = "none" THEN EmptyFile
                       ELSE LET w == lastw[p][lastkind[p]] IN FileWrite(EmptyFile, lastkind[p], w.sh, w.tag)
\* with Rewrites the models still in memory (made, possibly overwritten in every file) are part of the state
MemView == IF Rewrites THEN [i \in 1..Len(ops) |-> IF ops[i].op = "W" THEN <<ops[i].k, ops[i].s>> ELSE <<>>] ELSE <<>>
\* a history family (Shape # "all") filters on the history itself: no two histories may be identified
MCView == <<db, hist, lastw, lastkind, lastread, MemView, IF Shape = "all" THEN <<>> ELSE ops, held>>

(* ---- lemmas about the (de)serialisers, evaluated on every model of the alphabet (state-independent; MC_Io_lemmas*.cfg) ---- *)
AllModels == UNION {{<<k, s>> : s \in AllSizes(k)} : k \in Kinds}
\* (the lemmas mention the variable hist, vacuously: TLC evaluates constant-level definitions at start-up of EVERY run, also of every trace
\* validation; as state-level invariants they cost only where they are checked: the one-state configurations MC_Io_lemmas*.cfg)
AtAnyState(P) == hist \in Nat /\ P
SerLenOK == AtAnyState(\A m \in AllModels : \A f \in ModelFields(m[1]) :
              Len(Ser(TypeOf(m[1], f), AbsModel(m[1], m[2])[f], 1)) = SerLen(TypeOf(m[1], f), AbsModel(m[1], m[2])[f]))
\* the tables a block-wise reader (ReadBlock = b) gets wrong: plain vectors and lists (their length IS the reported length) with a
\* non-zero multiple of b rows; matrices and tensors carry their dimensions in band and are read correctly
BlockBlind(ty, n) == ReadBlock > 0 /\ n > 0 /\ n % ReadBlock = 0 /\ ty \in {"vec", "lst"}
RoundTripExact == AtAnyState(\A m \in AllModels : \A f \in SavedFields(m[1]) :
                    LET ty == TypeOf(m[1], f) sh == AbsModel(m[1], m[2])[f] IN
                    (Deser(ty, Ser(ty, sh, 1)) = Res(sh, IF NCells(sh) = 0 THEN {} ELSE {Cell(1)}, TRUE)) <=> ~BlockBlind(ty, SerLen(ty, sh)))
\* stale rows behind a complete matrix / tensor are never looked at; behind a vector or list they are taken for content (DropTables = FALSE)
StaleSuffix == AtAnyState(\A m \in AllModels : \A f \in SavedFields(m[1]) :
                 LET ty == TypeOf(m[1], f) sh == AbsModel(m[1], m[2])[f] new == Ser(ty, sh, 2) old == Ser(ty, sh, 1) IN
                 ReadBlock = 0 /\ Len(old) > 0 =>
                   IF ty \in {"mat", "ten"} THEN Deser(ty, new \o old) = Deser(ty, new) ELSE Deser(ty, new \o old) # Deser(ty, new))
\* why the three abstract size classes could not tell the block-wise reader from the conforming one: none of their tables has 32k rows
LegacyBlockBlind == AtAnyState(\A k \in Kinds : \A s \in Sizes : \A f \in SavedFields(k) :
                      LET n == SerLen(TypeOf(k, f), AbsModel(k, s)[f]) IN ~(n > 0 /\ n % 32 = 0))
\* input class K2: for every kind and every field type, which serialised lengths b - 1, b, b + 1 around the block sizes b are written and
\* read by some profile.  K2Unreachable: boundaries that no model within the parameter ranges searched (n <= 40 objects, <= 3 components,
\* <= 33 blocks, <= 257 variables, <= 65 responses) reaches - a matrix table has 2 + r * c rows with (r, c) tied to those ranges, a CPCA
\* vector has as many entries as blocks or components, a tensor table has at least 1 + 2 + 1 rows
K2Blocks == {4, 32, 64, 96, 128, 256}
TypesOf(k) == {TypeOf(k, f) : f \in SavedFields(k)}
Hits(k, ty, n) == \E s \in ProfSizes(k) : \E f \in SavedFields(k) : TypeOf(k, f) = ty /\ SerLen(ty, AbsModel(k, s)[f]) = n
K2Unreachable == {
    <<"CPCA", "mat", 3>>, <<"CPCA", "mat", 63>>, <<"CPCA", "mat", 96>>, <<"CPCA", "mat", 97>>, <<"CPCA", "mat", 127>>,
    <<"CPCA", "mat", 128>>, <<"CPCA", "mat", 129>>, <<"CPCA", "mat", 255>>, <<"CPCA", "mat", 256>>, <<"CPCA", "mat",
    257>>, <<"CPCA", "ten", 3>>, <<"CPCA", "ten", 4>>, <<"CPCA", "ten", 5>>, <<"CPCA", "vec", 5>>, <<"CPCA", "vec", 63>>,
    <<"CPCA", "vec", 64>>, <<"CPCA", "vec", 65>>, <<"CPCA", "vec", 95>>, <<"CPCA", "vec", 96>>, <<"CPCA", "vec", 97>>,
    <<"CPCA", "vec", 127>>, <<"CPCA", "vec", 128>>, <<"CPCA", "vec", 129>>, <<"CPCA", "vec", 255>>, <<"CPCA", "vec",
    256>>, <<"CPCA", "vec", 257>>, <<"PCA", "mat", 127>>, <<"PCA", "mat", 255>>, <<"PLS", "mat",
    63>>, <<"PLS", "mat", 96>>, <<"PLS", "mat", 127>>, <<"PLS", "mat", 255>>, <<"PLS", "ten", 3>>, <<"PLS", "ten", 4>>}
K2Covered == AtAnyState(/\ \A k \in Kinds : \A ty \in TypesOf(k) : \A b \in K2Blocks : \A d \in {0, 1, 2} :
                             Hits(k, ty, b + d - 1) \/ <<k, ty, b + d - 1>> \in K2Unreachable
                        /\ \A u \in K2Unreachable : ~Hits(u[1], u[2], u[3]))
====
