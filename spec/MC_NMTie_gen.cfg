SPECIFICATION Spec
CONSTANTS
  Rule = "textbook"
  StopRule = "values+size"
  K = 10
  MaxIter = 0
  Box <- BoxConst
  DoEmit = TRUE
CONSTRAINT Emit
CHECK_DEADLOCK FALSE
