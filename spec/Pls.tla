---- MODULE Pls ----
(* C03 / C04.  Ledger of a PLS model (mode 3 of DESIGN section 0): an abstract state machine over scaled        *)
(* integers that says which identity must hold after which step, with which bound, and how successive steps    *)
(* relate.  The numbers are produced by the projection functions of harness/c03_drv.c and c04_drv.c from the   *)
(* real model (residuals in units of 1e-12, saturating at 2e9; sums of squares in units of 1e-9 of the         *)
(* response's total sum of squares); the comparisons and the cross-step logic are decided here.                *)
(*                                                                                                            *)
(* Section C03 (structure): per latent variable a: scores mutually orthogonal (tortho), weights mutually       *)
(*   orthogonal (wortho), preprocessed X = T P' + E_a with E_a orthogonal to the extracted scores (recon),     *)
(*   re-projection of the training X reproduces the scores (reproj); per (a, j): the column Col(a, j) of       *)
(*   recalculated_y is the back-transformed sum of b_k t_k q_jk, k <= a (recalcErr; allErr for the all-LV      *)
(*   predictor), and the column Col(a, j) of recalc_residuals is that column minus response j (residErr,       *)
(*   against).  For integer-valued cases TLC recomputes the residual table itself (TableOK).                   *)
(* Section LS (C04): per response the residual sum of squares never increases with a (prev), never goes below *)
(*   the least-squares optimum, meets it at a = rank together with the fitted values (Ols), coefficient form  *)
(*   = score form on training and unseen rows (Beta), R2 / RMSE as defined (r2gap), affine equivariance.       *)
EXTENDS Layout, Sequences
VARIABLES phase, nobj, nvar, xsc, ysc, k, colsSeen, residSeen, prev, lastA, floorRss
pvars == <<ny, nlv, phase, nobj, nvar, xsc, ysc, k, colsSeen, residSeen, prev, lastA, floorRss>>

TolAlg == 10000              \* 1e-8 in units of 1e-12 (algebraic identities, DESIGN section 0)
One == 1000000000            \* a response's total sum of squares, in the units of rss
TolMono == 10                \* 1e-8 of the total sum of squares
Sat == 2000000000            \* saturated quantiser value
Abs(x) == IF x < 0 THEN -x ELSE x
Resp == 0..(ny - 1)

PInit == /\ ny = 1 /\ nlv = 1 /\ phase = "idle" /\ nobj = 0 /\ nvar = 0 /\ xsc = 0 /\ ysc = 0 /\ k = 0
         /\ colsSeen = {} /\ residSeen = {} /\ prev = [j \in 0..3 |-> One] /\ lastA = [j \in 0..3 |-> 0]
         /\ floorRss = [j \in 0..3 |-> 0]

\* a model is fitted: the quantifier of the property (shapes, scaling options, LV count within the rank of X)
PFit(n_, p_, ny_, nlv_, xs_, ys_) ==
  /\ n_ \in 6..40 /\ p_ \in 1..12 /\ ny_ \in 1..4 /\ xs_ \in -1..5 /\ ys_ \in -1..5
  /\ nlv_ \in 1..p_                                  \* p_ = rank of the preprocessed X (full column rank is admitted only)
  /\ ny' = ny_ /\ nlv' = nlv_ /\ nobj' = n_ /\ nvar' = p_ /\ xsc' = xs_ /\ ysc' = ys_
  /\ phase' = "fit" /\ k' = 0 /\ colsSeen' = {} /\ residSeen' = {}
  /\ prev' = [j \in 0..3 |-> One] /\ lastA' = [j \in 0..3 |-> 0] /\ floorRss' = [j \in 0..3 |-> 0]

\* ---------------------------------------------------------------------------------------------- C03 structure
PropLv(tortho, wortho, recon, reproj) == tortho <= TolAlg /\ wortho <= TolAlg /\ recon <= TolAlg /\ reproj <= TolAlg
\* how the present code normalises (Geladi): |p| = 1, |q| = 1, u computed on the deflated Y block, b = u't/t't
ImplLv(pnorm, qnorm, udefl, binner) == pnorm <= TolAlg /\ qnorm <= TolAlg /\ udefl <= TolAlg /\ binner <= TolAlg
PLv(a, tortho, wortho, recon, reproj) ==
  /\ phase = "fit" /\ a \in 1..nlv /\ a > k
  /\ PropLv(tortho, wortho, recon, reproj)
  /\ k' = a
  /\ UNCHANGED <<ny, nlv, phase, nobj, nvar, xsc, ysc, colsSeen, residSeen, prev, lastA, floorRss>>

PCol(a, j, col, found, recalcErr, allErr) ==
  /\ phase = "fit" /\ a \in 1..nlv /\ j \in Resp
  /\ col = Col(a, j) /\ found = col /\ col \notin colsSeen            \* the table column that really holds (a, j)
  /\ recalcErr <= TolAlg /\ allErr <= TolAlg
  /\ colsSeen' = colsSeen \cup {col}
  /\ UNCHANGED <<ny, nlv, phase, nobj, nvar, xsc, ysc, k, residSeen, prev, lastA, floorRss>>

PResid(a, j, col, against, residErr) ==
  /\ phase = "fit" /\ a \in 1..nlv /\ j \in Resp
  /\ col = Col(a, j) /\ col \notin residSeen
  /\ against = RespOf(col) /\ residErr <= TolAlg                     \* residual column taken against its own response
  /\ residSeen' = residSeen \cup {col}
  /\ UNCHANGED <<ny, nlv, phase, nobj, nvar, xsc, ysc, k, colsSeen, prev, lastA, floorRss>>

\* integer-valued case: y, rec, res are the observed responses, recalculated_y and recalc_residuals in units of 1e-6
\* (each rounded to nearest, hence the slack of 2 units); the layout map decides which response a column belongs to
TableOK(y, rec, res) ==
  /\ Len(y) = nobj /\ Len(rec) = nobj /\ Len(res) = nobj
  /\ \A i \in 1..nobj : Len(y[i]) = ny /\ Len(rec[i]) = ny * nlv /\ Len(res[i]) = ny * nlv
  /\ \A i \in 1..nobj : \A a \in 1..nlv : \A j \in Resp :
        Abs(res[i][Col(a, j) + 1] - (rec[i][Col(a, j) + 1] - y[i][j + 1])) <= 2
PTab(n_, ny_, nlv_, y, rec, res) ==
  /\ phase = "fit" /\ n_ = nobj /\ ny_ = ny /\ nlv_ = nlv
  /\ TableOK(y, rec, res)
  /\ UNCHANGED pvars

PEnd(lvs, cols, full, xfull) ==
  /\ phase = "fit" /\ lvs = nlv /\ cols = ny * nlv
  /\ full = (IF nlv = nvar THEN 1 ELSE 0)
  /\ (full = 1 => xfull <= TolAlg)                                    \* all of X is reproduced at full rank
  /\ phase' = "done"
  /\ UNCHANGED <<ny, nlv, nobj, nvar, xsc, ysc, k, colsSeen, residSeen, prev, lastA, floorRss>>

\* ---------------------------------------------------------------------------------------------- C04 least squares
\* rss = RSS_a(j) / D_j in units of 1e-9 (D_j = sum of squares of response j about its mean when the response is
\* centred, about 0 otherwise, so that RSS_0 = One); r2gap = |reported R2 - (1 - RSS/TSS)|
PRss(a, j, rss, r2gap) ==
  /\ phase = "fit" /\ a \in 1..nlv /\ j \in Resp /\ a > lastA[j]
  /\ rss >= 0 /\ rss <= prev[j] + TolMono                             \* never increases when an LV is added
  /\ rss >= floorRss[j] - TolMono                                    \* ... and never beats the least-squares optimum
  /\ r2gap <= TolAlg
  /\ prev' = [prev EXCEPT ![j] = rss] /\ lastA' = [lastA EXCEPT ![j] = a]
  /\ UNCHANGED <<ny, nlv, phase, nobj, nvar, xsc, ysc, k, colsSeen, residSeen, floorRss>>

\* rssOls = RSS of the independent least-squares fit (LAPACK dgels), rssPls = RSS of the model with all its nlv LVs, same units;
\* err = |PLS fitted - OLS fitted| (relative).  The event is self-contained (a rejected and dropped Rss event must not make it fail);
\* where the ledger holds the last LV of this response the two numbers must be the same.
POls(j, rssPls, rssOls, err, full) ==
  /\ phase = "fit" /\ j \in Resp
  /\ full = (IF nlv = nvar THEN 1 ELSE 0)
  /\ (lastA[j] = nlv => rssPls = prev[j])
  /\ rssOls >= 0 /\ rssPls >= rssOls - TolMono                        \* no PLS model beats the least-squares optimum
  /\ prev[j] >= rssOls - TolMono
  /\ (full = 1 => err <= TolAlg /\ Abs(rssPls - rssOls) <= TolMono)   \* a = rank: PLS is OLS
  /\ floorRss' = [floorRss EXCEPT ![j] = rssOls]
  /\ UNCHANGED <<ny, nlv, phase, nobj, nvar, xsc, ysc, k, colsSeen, residSeen, prev, lastA>>

PBeta(a, errTrain, errNew) ==
  /\ phase = "fit" /\ ny = 1 /\ a \in 1..nlv
  /\ errTrain <= TolAlg /\ errNew <= TolAlg
  /\ UNCHANGED pvars

\* statistics on unseen objects: reported R2 / RMSE equal their definitions
PStat(a, j, r2gap, rmsegap) ==
  /\ phase = "fit" /\ a \in 1..nlv /\ j \in Resp
  /\ r2gap <= TolAlg /\ rmsegap <= TolAlg
  /\ UNCHANGED pvars

\* y -> c*y + d (c in units of 1e-3, clipped away from 0 and saturating; d in 1e-3 of |c| sd(y)) for one centred response:
\* predictions map the same way
PAffine(c, d, errTrain, errNew) ==
  /\ phase = "fit" /\ ny = 1 /\ ysc >= 0 /\ c # 0
  /\ errTrain <= TolAlg /\ errNew <= TolAlg
  /\ UNCHANGED pvars

\* X -> X * s (change of units of the predictors, s = 10^lg): every prediction unchanged, training and unseen objects
PXScale(lg, errTrain, errNew) ==
  /\ phase = "fit" /\ lg \in -8..8
  /\ errTrain <= TolAlg /\ errNew <= TolAlg
  /\ UNCHANGED pvars

\* the score-based predictor called `calls` times into one and the same output matrix still returns the model's fitted values
PReuse(calls, err) ==
  /\ phase = "fit" /\ calls = nlv /\ err <= TolAlg
  /\ UNCHANGED pvars

\* ---------------------------------------------------------------------------------------------- (M) small model
\* the ledger is run over a small alphabet of magnitudes; the invariants below must follow from the step guards
ErrVals == {0, TolAlg, TolAlg + 1}
RssVals == {0, 300000000, 300000000 + TolMono, 300000000 + TolMono + 1, One, One + TolMono + 1}
MFit == \E p_ \in 1..2, ny_ \in 1..2, nlv_ \in 1..2, ys_ \in {-1, 0} : PFit(6, p_, ny_, nlv_, 1, ys_)
\* structure scope (C03)
MNextStruct ==
  \/ MFit
  \/ \E a \in 1..2, e \in ErrVals : PLv(a, e, 0, 0, 0) \/ PLv(a, 0, e, 0, 0) \/ PLv(a, 0, 0, e, 0) \/ PLv(a, 0, 0, 0, e)
  \/ \E a \in 1..2, j \in 0..1, c \in 0..3, f \in 0..3, e \in ErrVals : PCol(a, j, c, f, e, 0) \/ PCol(a, j, c, f, 0, e)
  \/ \E a \in 1..2, j \in 0..1, c \in 0..3, g \in 0..1, e \in ErrVals : PResid(a, j, c, g, e)
  \/ \E f \in 0..1, e \in ErrVals : PEnd(nlv, ny * nlv, f, e)
\* least-squares scope (C04)
MNextLS ==
  \/ MFit
  \/ \E a \in 1..2, j \in 0..1, r \in RssVals, e \in ErrVals : PRss(a, j, r, e)
  \/ \E j \in 0..1, r \in RssVals, q \in RssVals, e \in ErrVals, f \in 0..1 : POls(j, q, r, e, f)
  \/ \E a \in 1..2, e \in ErrVals : PBeta(a, e, 0) \/ PBeta(a, 0, e)
  \/ \E e \in ErrVals : PAffine(2000, 0 - 500, e, 0) \/ PAffine(2000, 0 - 500, 0, e)
  \/ \E e \in ErrVals : PXScale(0 - 6, e, 0) \/ PXScale(4, 0, e) \/ PReuse(nlv, e)
  \/ \E a \in 1..2, j \in 0..1, e \in ErrVals : PStat(a, j, e, 0) \/ PStat(a, j, 0, e)
  \/ \E f \in 0..1 : PEnd(nlv, ny * nlv, f, 0)
MSpecStruct == PInit /\ [][MNextStruct]_pvars
MSpecLS == PInit /\ [][MNextLS]_pvars

InvShape == phase = "idle" \/ (k <= nlv /\ nlv <= nvar)
InvCols == colsSeen \subseteq Cols /\ residSeen \subseteq Cols
\* R2 of every accepted step stays inside [0, 1] up to the accumulated slack, and is monotone from the start
InvR2Range == \A j \in Resp : prev[j] >= 0 /\ prev[j] <= One + lastA[j] * TolMono
\* once the least-squares optimum of a response is on the ledger, the ledger's rss is not below it
InvFloor == \A j \in Resp : floorRss[j] > 0 => prev[j] >= floorRss[j] - TolMono
====
