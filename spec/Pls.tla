---- MODULE Pls ----
(* C03 / C04.  Ledger of a PLS model (mode 3 of DESIGN section 0): an abstract state machine over scaled        *)
(* integers that says which identity must hold after which step, with which bound, and how successive steps    *)
(* relate.  The numbers are produced by the projection functions of harness/c03_drv.c and c04_drv.c from the   *)
(* real model (residuals in units of 1e-12, saturating at 2e9; sums of squares in units of 1e-9 of the         *)
(* response's total sum of squares); the comparisons and the cross-step logic are decided here.                *)
(*                                                                                                            *)
(* Section C03 (structure): per latent variable a: scores mutually orthogonal (tortho), weights mutually       *)
(*   orthogonal (wortho), preprocessed X = T P' + E_a with E_a orthogonal to the extracted scores (recon),     *)
(*   re-projection of the training X reproduces the scores (reproj); per (a, j): the column Col(a, j) of       *)
(*   recalculated_y is the back-transformed sum of b_k t_k q_jk, k <= a (recalcErr; allErr for the all-LV      *)
(*   predictor), and the column Col(a, j) of recalc_residuals is that column minus response j (residErr,       *)
(*   against).  For integer-valued cases TLC recomputes the residual table itself (TableOK).                   *)
(* Section LS (C04): per response the residual sum of squares never increases with a (prev), never goes below *)
(*   the least-squares optimum, meets it at a = rank together with the fitted values (Ols), coefficient form  *)
(*   = score form on training and unseen rows (Beta), R2 / RMSE as defined (r2gap), affine equivariance.       *)
(*                                                                                                            *)
(* Shapes.  The quantifier of C03 is "all X in 6..40 x 1..12 ... nlv in 1..rank(X)": it contains square and    *)
(*   wide X (objects <= variables), for which the statement's "full column rank" cannot hold.  The ledger     *)
(*   reads "full rank" shape-wise: rank(preprocessed X) = RankBound(n, p, xs) = min(p, n-1 when centred, n      *)
(*   otherwise) - for tall X that IS full column rank (ThRank).  Every identity of the statement is a NIPALS   *)
(*   identity that holds for nlv <= rank whatever the shape, so all of them stay stated for square / wide X.   *)
(*   A Fit whose logged numerical rank is below RankBound (duplicate / constant predictors) is modelled with   *)
(*   the same identities but lies outside the statement (InStatement = FALSE: deviations are extra findings).  *)
(* Tolerances are functions of the logged input: offx / offy = largest |entry| / rms spread of a block's      *)
(*   column (how many spreads a CENTRED block sits away from the origin).  Back-transformed responses carry    *)
(*   the representability term Repr(offy); a wide / square X exhausted at nlv = rank keeps the rounding of its  *)
(*   centring along the vector of ones, Repr-like in offx and the number of objects.  Below 1000 spreads both  *)
(*   terms are 0: the tolerance of the classes that existed before is TolAlg, unchanged (InvTolBase).          *)
EXTENDS Layout, Sequences
VARIABLES phase, nobj, nvar, xsc, ysc, k, colsSeen, residSeen, prev, lastA, floorRss, rk, offx, offy
shapeV == <<ny, nlv, nobj, nvar, xsc, ysc, rk, offx, offy>>           \* written by PFit only
pvars == <<shapeV, phase, k, colsSeen, residSeen, prev, lastA, floorRss>>

TolAlg == 10000              \* 1e-8 in units of 1e-12 (algebraic identities, DESIGN section 0)
One == 1000000000            \* a response's total sum of squares, in the units of rss
TolMono == 10                \* 1e-8 of the total sum of squares
Sat == 2000000000            \* saturated quantiser value
Abs(x) == IF x < 0 THEN -x ELSE x
Min(a, b) == IF a < b THEN a ELSE b
Resp == 0..(ny - 1)

\* largest rank an n_ x p_ block can have after preprocessing option xs_ (options >= 0 centre: one dimension of the objects is lost)
RankBound(n_, p_, xs_) == Min(p_, IF xs_ >= 0 THEN n_ - 1 ELSE n_)
ShapeOf(n_, p_) == IF n_ > p_ + 1 THEN "tall" ELSE IF n_ = p_ + 1 THEN "tall1" ELSE IF n_ = p_ THEN "square"
                   ELSE IF n_ = p_ - 1 THEN "wide1" ELSE "wide"
Shapes == {"tall", "tall1", "square", "wide1", "wide"}
\* tall X: the shape-wise reading IS full column rank; objects <= variables: full column rank is impossible, the bound is set by the objects
ThRank == \A n_ \in 6..40, p_ \in 1..12, xs_ \in -1..5 :
            LET r == RankBound(n_, p_, xs_) IN
              /\ r >= 1 /\ r <= p_ /\ r <= n_ /\ ShapeOf(n_, p_) \in Shapes
              /\ (ShapeOf(n_, p_) \in {"tall", "tall1"} <=> r = p_ /\ n_ > p_)
              /\ (n_ <= p_ /\ xs_ >= 0 => r = n_ - 1 /\ r < p_)
              /\ (n_ <= p_ /\ xs_ < 0 => r = n_)
ASSUME ThRank

\* the Fit on the ledger lies inside the statement: rank as large as its shape allows
InStatement == rk = RankBound(nobj, nvar, xsc)
\* representability of a number `off` spreads away from the origin: 2 roundings of 2^-53 relative each side, in units of 1e-12 of the spread
\* (4.4e-16 * off -> off / 2273; off \div 1000 leaves a factor 2.2); 0 below 1000 spreads
Repr(off) == off \div 1000
TolY == TolAlg + Repr(offy)
\* X exhausted at nlv = rank: what remains is the rounding of the centring (column mean by an n-term sum) along the vector of ones
TolXfull == TolAlg + nobj * (offx \div 4000)

PInit == /\ ny = 1 /\ nlv = 1 /\ phase = "idle" /\ nobj = 0 /\ nvar = 0 /\ xsc = 0 /\ ysc = 0 /\ k = 0
         /\ colsSeen = {} /\ residSeen = {} /\ prev = [j \in 0..3 |-> One] /\ lastA = [j \in 0..3 |-> 0]
         /\ floorRss = [j \in 0..3 |-> 0] /\ rk = 1 /\ offx = 0 /\ offy = 0

\* a model is fitted: the quantifier of the property (every shape 6..40 x 1..12, scaling options, LV count within the rank of X).
\* rank_ = logged numerical rank of the preprocessed X, offx_ / offy_ = logged offsets of the two blocks (see the header)
PFit(n_, p_, ny_, nlv_, xs_, ys_, rank_, offx_, offy_) ==
  /\ n_ \in 6..40 /\ p_ \in 1..12 /\ ny_ \in 1..4 /\ xs_ \in -1..5 /\ ys_ \in -1..5
  /\ rank_ \in 1..RankBound(n_, p_, xs_)             \* no block has more rank than its shape allows
  /\ nlv_ \in 1..rank_                                \* "every number of latent variables up to rank(X)"
  /\ offx_ \in 0..Sat /\ offy_ \in 0..Sat
  /\ ny' = ny_ /\ nlv' = nlv_ /\ nobj' = n_ /\ nvar' = p_ /\ xsc' = xs_ /\ ysc' = ys_
  /\ rk' = rank_ /\ offx' = offx_ /\ offy' = offy_
  /\ phase' = "fit" /\ k' = 0 /\ colsSeen' = {} /\ residSeen' = {}
  /\ prev' = [j \in 0..3 |-> One] /\ lastA' = [j \in 0..3 |-> 0] /\ floorRss' = [j \in 0..3 |-> 0]

\* ---------------------------------------------------------------------------------------------- C03 structure
PropLv(tortho, wortho, recon, reproj) == tortho <= TolAlg /\ wortho <= TolAlg /\ recon <= TolAlg /\ reproj <= TolAlg
\* how the present code normalises (Geladi): |p| = 1, |q| = 1, u computed on the deflated Y block, b = u't/t't
ImplLv(pnorm, qnorm, udefl, binner) == pnorm <= TolAlg /\ qnorm <= TolAlg /\ udefl <= TolAlg /\ binner <= TolAlg
PLv(a, tortho, wortho, recon, reproj) ==
  /\ phase = "fit" /\ a \in 1..nlv /\ a > k
  /\ PropLv(tortho, wortho, recon, reproj)
  /\ k' = a
  /\ UNCHANGED <<shapeV, phase, colsSeen, residSeen, prev, lastA, floorRss>>

PCol(a, j, col, found, recalcErr, allErr) ==
  /\ phase = "fit" /\ a \in 1..nlv /\ j \in Resp
  /\ col = Col(a, j) /\ found = col /\ col \notin colsSeen            \* the table column that really holds (a, j)
  /\ recalcErr <= TolY /\ allErr <= TolY                              \* back-transformed: representability of the response
  /\ colsSeen' = colsSeen \cup {col}
  /\ UNCHANGED <<shapeV, phase, k, residSeen, prev, lastA, floorRss>>

PResid(a, j, col, against, residErr) ==
  /\ phase = "fit" /\ a \in 1..nlv /\ j \in Resp
  /\ col = Col(a, j) /\ col \notin residSeen
  /\ against = RespOf(col) /\ residErr <= TolAlg                     \* residual column taken against its own response
  /\ residSeen' = residSeen \cup {col}
  /\ UNCHANGED <<shapeV, phase, k, colsSeen, prev, lastA, floorRss>>

\* integer-valued case: y, rec, res are the observed responses, recalculated_y and recalc_residuals in units of 1e-6
\* (each rounded to nearest, hence the slack of 2 units); the layout map decides which response a column belongs to
TableOK(y, rec, res) ==
  /\ Len(y) = nobj /\ Len(rec) = nobj /\ Len(res) = nobj
  /\ \A i \in 1..nobj : Len(y[i]) = ny /\ Len(rec[i]) = ny * nlv /\ Len(res[i]) = ny * nlv
  /\ \A i \in 1..nobj : \A a \in 1..nlv : \A j \in Resp :
        Abs(res[i][Col(a, j) + 1] - (rec[i][Col(a, j) + 1] - y[i][j + 1])) <= 2
PTab(n_, ny_, nlv_, y, rec, res) ==
  /\ phase = "fit" /\ n_ = nobj /\ ny_ = ny /\ nlv_ = nlv
  /\ TableOK(y, rec, res)
  /\ UNCHANGED pvars

PEnd(lvs, cols, full, xfull) ==
  /\ phase = "fit" /\ lvs = nlv /\ cols = ny * nlv
  /\ full = (IF nlv = rk THEN 1 ELSE 0)
  /\ (full = 1 => xfull <= TolXfull)                                  \* all of X is reproduced once nlv = rank(X), whatever the shape
  /\ phase' = "done"
  /\ UNCHANGED <<shapeV, k, colsSeen, residSeen, prev, lastA, floorRss>>

\* the centring stored in the model is the column mean of the training data (options >= 0; relative to the column's spread): "preprocessed X"
\* and "back-transformed" of the statement refer to THIS data, not to whatever vector the model happens to carry.  A mean by an n-term
\* sum of numbers `off` spreads away from the origin carries n/2 roundings: same form as TolXfull
TolMeanX == TolXfull
TolMeanY == TolAlg + nobj * (offy \div 4000)
PPrep(xavg, yavg) ==
  /\ phase = "fit" /\ xavg <= TolMeanX /\ yavg <= TolMeanY
  /\ UNCHANGED pvars
\* how the present code defines the scale factor of each option (1 sample sd, 2 rms, 3 sqrt(sd), 4 range, 5 mean): C10's subject, kept here as
\* the implementation-shaped layer
ImplPrep(xscl, yscl) == xscl <= TolMeanX /\ yscl <= TolMeanY

\* re-projection asked for req latent variables (more than the model has: clipped): the columns returned are the training scores
PScore(req, got, err) ==
  /\ phase = "fit" /\ req \in 1..(nlv + 2)
  /\ got = Min(req, nlv) /\ err <= TolAlg
  /\ UNCHANGED pvars

\* PLSYPredictor from scores (src 0: stored, 1: re-projected) with a latent variables, a = nlv + 1 asks for more than the model has:
\* the back-transformed sum of b_k t_k q_k over k <= min(a, nlv)
PYPred(a, src, err) ==
  /\ phase = "fit" /\ a \in 1..(nlv + 1) /\ src \in 0..1
  /\ err <= TolY
  /\ UNCHANGED pvars

\* all-LV predictor with the scores returned: ny*nlv columns LV-major equal to the stored recalculated responses, nlv score columns
PAllLv(cols, scols, scoreErr, err) ==
  /\ phase = "fit" /\ cols = ny * nlv /\ cols = Cardinality(Cols) /\ scols = nlv
  /\ scoreErr <= TolAlg /\ err <= TolY
  /\ UNCHANGED pvars

\* outside the statement (modelled all the same): explained X variance of LV a is 100 t't / ss(X); a fit repeated in one process
\* after other fits returns bitwise the same model
PVarExp(a, err) == phase = "fit" /\ a \in 1..nlv /\ err <= TolAlg /\ UNCHANGED pvars
PHist(fits, same) == phase = "fit" /\ fits \in 2..4 /\ same = 1 /\ UNCHANGED pvars
\* PLS() once more into the model object that already holds this very fit: the model is the same model again (nlv coefficients,
\* ny*nlv recalculated columns, nlv explained variances), not a longer one
PRefit(rc, bsize, reccols, varexp, same) ==
  /\ phase = "fit" /\ rc = 0 /\ bsize = nlv /\ reccols = ny * nlv /\ varexp = nlv /\ same = 1
  /\ UNCHANGED pvars

\* ---------------------------------------------------------------------------------------------- C04 least squares
\* rss = RSS_a(j) / D_j in units of 1e-9 (D_j = sum of squares of response j about its mean when the response is
\* centred, about 0 otherwise, so that RSS_0 = One); r2gap = |reported R2 - (1 - RSS/TSS)|
PRss(a, j, rss, r2gap) ==
  /\ phase = "fit" /\ a \in 1..nlv /\ j \in Resp /\ a > lastA[j]
  /\ rss >= 0 /\ rss <= prev[j] + TolMono                             \* never increases when an LV is added
  /\ rss >= floorRss[j] - TolMono                                    \* ... and never beats the least-squares optimum
  /\ r2gap <= TolAlg
  /\ prev' = [prev EXCEPT ![j] = rss] /\ lastA' = [lastA EXCEPT ![j] = a]
  /\ UNCHANGED <<shapeV, phase, k, colsSeen, residSeen, floorRss>>

\* rssOls = RSS of the independent least-squares fit (LAPACK dgels), rssPls = RSS of the model with all its nlv LVs, same units;
\* err = |PLS fitted - OLS fitted| (relative).  The event is self-contained (a rejected and dropped Rss event must not make it fail);
\* where the ledger holds the last LV of this response the two numbers must be the same.
POls(j, rssPls, rssOls, err, full) ==
  /\ phase = "fit" /\ j \in Resp
  /\ full = (IF nlv = nvar THEN 1 ELSE 0)
  /\ (lastA[j] = nlv => rssPls = prev[j])
  /\ rssOls >= 0 /\ rssPls >= rssOls - TolMono                        \* no PLS model beats the least-squares optimum
  /\ prev[j] >= rssOls - TolMono
  /\ (full = 1 => err <= TolAlg /\ Abs(rssPls - rssOls) <= TolMono)   \* a = rank: PLS is OLS
  /\ floorRss' = [floorRss EXCEPT ![j] = rssOls]
  /\ UNCHANGED <<shapeV, phase, k, colsSeen, residSeen, prev, lastA>>

PBeta(a, errTrain, errNew) ==
  /\ phase = "fit" /\ ny = 1 /\ a \in 1..nlv
  /\ errTrain <= TolAlg /\ errNew <= TolAlg
  /\ UNCHANGED pvars

\* statistics on unseen objects: reported R2 / RMSE equal their definitions
PStat(a, j, r2gap, rmsegap) ==
  /\ phase = "fit" /\ a \in 1..nlv /\ j \in Resp
  /\ r2gap <= TolAlg /\ rmsegap <= TolAlg
  /\ UNCHANGED pvars

\* y -> c*y + d (c in units of 1e-3, clipped away from 0 and saturating; d in 1e-3 of |c| sd(y)) for one centred response:
\* predictions map the same way
PAffine(c, d, errTrain, errNew) ==
  /\ phase = "fit" /\ ny = 1 /\ ysc >= 0 /\ c # 0
  /\ errTrain <= TolAlg /\ errNew <= TolAlg
  /\ UNCHANGED pvars

\* X -> X * s (change of units of the predictors, s = 10^lg): every prediction unchanged, training and unseen objects
PXScale(lg, errTrain, errNew) ==
  /\ phase = "fit" /\ lg \in -8..8
  /\ errTrain <= TolAlg /\ errNew <= TolAlg
  /\ UNCHANGED pvars

\* the score-based predictor called `calls` times into one and the same output matrix still returns the model's fitted values
PReuse(calls, err) ==
  /\ phase = "fit" /\ calls = nlv /\ err <= TolAlg
  /\ UNCHANGED pvars

\* ---------------------------------------------------------------------------------------------- (M) small model
\* the ledger is run over a small alphabet of magnitudes; the invariants below must follow from the step guards
ErrVals == {0, TolAlg, TolAlg + 1}
RssVals == {0, 300000000, 300000000 + TolMono, 300000000 + TolMono + 1, One, One + TolMono + 1}
MFit == \E p_ \in 1..2, ny_ \in 1..2, nlv_ \in 1..2, ys_ \in {-1, 0} : PFit(6, p_, ny_, nlv_, 1, ys_, p_, 0, 0)
\* structure scope (C03): tall / n = p+1 / square / n = p-1 / wide shapes, centred or not, rank at or below its bound, offsets below and
\* above the representability threshold
OffVals == {0, 999, 8000000}
TolYVals == ErrVals \cup {TolAlg + 8000, TolAlg + 8001}                                        \* around TolY for 8e6 spreads
XfullVals == ErrVals \cup {TolAlg + 12000, TolAlg + 12001, TolAlg + 14000, TolAlg + 14001}     \* around TolXfull for 6 / 7 objects
\* <<objects, variables, x option, logged rank>>: tall, n = p+1, square (centred / not), n = p-1, wide; rank at its bound and below it
FitCfgs == { <<6, 2, 1, 2>>, <<6, 5, 1, 5>>, <<7, 6, 1, 2>>, <<6, 6, 1, 5>>, <<6, 6, -1, 6>>, <<7, 7, 1, 1>>,
             <<6, 7, 1, 5>>, <<6, 7, 1, 2>>, <<7, 8, -1, 1>>, <<6, 8, 1, 2>>, <<6, 8, -1, 6>>, <<6, 8, 1, 3>> }
MFitS == /\ phase = "idle" \/ (phase = "done" /\ colsSeen = Cols /\ residSeen = Cols)      \* the next model after a complete one
         /\ \E c \in FitCfgs, ny_ \in 1..MaxNy, nlv_ \in 1..MaxNlv, o_ \in OffVals : PFit(c[1], c[2], ny_, nlv_, c[3], 0, c[4], o_, o_)
MLv == 1..MaxNlv
\* the guards of the stateless actions read the shape only, never the progress of the ledger: in the small model they are tried in one
\* state per fit (the fresh one)
MFresh == phase = "fit" /\ k = 0 /\ colsSeen = {} /\ residSeen = {}
MScore(q, g, e) == MFresh /\ PScore(q, g, e)
MYPred(a, s, e) == MFresh /\ PYPred(a, s, e)
MAllLv(c, g, e, f) == MFresh /\ PAllLv(c, g, e, f)
MVarExp(a, e) == MFresh /\ PVarExp(a, e)
MHist(f, g) == MFresh /\ PHist(f, g)
MPrep(e, f) == MFresh /\ PPrep(e, f)
MRefit(rc, b_, c, v, g) == MFresh /\ PRefit(rc, b_, c, v, g)
MResp == 0..(MaxNy - 1)
MCols == 0..(MaxNy * MaxNlv - 1)
MNextStruct ==
  \/ MFitS
  \/ \E a \in MLv, e \in ErrVals : PLv(a, e, 0, 0, 0) \/ PLv(a, 0, e, 0, 0) \/ PLv(a, 0, 0, e, 0) \/ PLv(a, 0, 0, 0, e)
  \/ \E a \in MLv, j \in MResp, c \in MCols : \E f \in {c, (c + 1) % (MaxNy * MaxNlv)}, e \in TolYVals : PCol(a, j, c, f, e, 0) \/ PCol(a, j, c, f, 0, e)
  \/ \E a \in MLv, j \in MResp, c \in MCols, g \in MResp, e \in ErrVals : PResid(a, j, c, g, e)
  \/ \E q \in 1..(MaxNlv + 2), g \in MLv, e \in ErrVals : MScore(q, g, e)
  \/ \E a \in 1..(MaxNlv + 1), s \in 0..1, e \in TolYVals : MYPred(a, s, e)
  \/ \E c \in 1..(MaxNy * MaxNlv), g \in MLv, e \in TolYVals : MAllLv(c, g, e, 0) \/ MAllLv(c, g, 0, e)
  \/ \E a \in MLv, e \in ErrVals : MVarExp(a, e)
  \/ \E f \in 2..4, g \in 0..1 : MHist(f, g)
  \/ \E e \in XfullVals : MPrep(e, 0) \/ MPrep(0, e)
  \/ \E b_ \in 1..(2 * MaxNlv), c \in 1..(2 * MaxNy * MaxNlv), g \in 0..1, rc \in {0, 99} : MRefit(rc, b_, c, b_, g)
  \/ \E f \in 0..1, e \in XfullVals : PEnd(nlv, ny * nlv, f, e)
\* least-squares scope (C04)
MNextLS ==
  \/ MFit
  \/ \E a \in 1..2, j \in 0..1, r \in RssVals, e \in ErrVals : PRss(a, j, r, e)
  \/ \E j \in 0..1, r \in RssVals, q \in RssVals, e \in ErrVals, f \in 0..1 : POls(j, q, r, e, f)
  \/ \E a \in 1..2, e \in ErrVals : PBeta(a, e, 0) \/ PBeta(a, 0, e)
  \/ \E e \in ErrVals : PAffine(2000, 0 - 500, e, 0) \/ PAffine(2000, 0 - 500, 0, e)
  \/ \E e \in ErrVals : PXScale(0 - 6, e, 0) \/ PXScale(4, 0, e) \/ PReuse(nlv, e)
  \/ \E a \in 1..2, j \in 0..1, e \in ErrVals : PStat(a, j, e, 0) \/ PStat(a, j, 0, e)
  \/ \E f \in 0..1 : PEnd(nlv, ny * nlv, f, 0)
MSpecStruct == PInit /\ [][MNextStruct]_pvars
MSpecLS == PInit /\ [][MNextLS]_pvars

InvShape == phase = "idle" \/ (k <= nlv /\ nlv <= rk /\ rk <= nvar /\ rk <= nobj /\ rk <= RankBound(nobj, nvar, xsc))
\* objects <= variables and centred: no accepted model has as many latent variables as objects
InvWide == (phase # "idle" /\ nobj <= nvar /\ xsc >= 0) => nlv < nobj
\* the offset terms never go below the algebraic tolerance and vanish for the classes that existed before (|offset| < 1000 spreads)
InvTolBase == /\ TolY >= TolAlg /\ TolXfull >= TolAlg /\ TolMeanY >= TolAlg
              /\ (offy < 1000 => TolY = TolAlg /\ TolMeanY = TolAlg) /\ (offx < 4000 => TolXfull = TolAlg)
InvCols == colsSeen \subseteq Cols /\ residSeen \subseteq Cols
\* R2 of every accepted step stays inside [0, 1] up to the accumulated slack, and is monotone from the start
InvR2Range == \A j \in Resp : prev[j] >= 0 /\ prev[j] <= One + lastA[j] * TolMono
\* once the least-squares optimum of a response is on the ledger, the ledger's rss is not below it
InvFloor == \A j \in Resp : floorRss[j] > 0 => prev[j] >= floorRss[j] - TolMono
====
