SPECIFICATION Spec
CONSTANTS
  MaxRows = 40
  MaxThreads = 24
  MaxCond = 24
INVARIANT InvA
INVARIANT InvB
INVARIANT InvSame
INVARIANT InvC
INVARIANT InvD
