---- MODULE Mlr ----
(* C07.  Multiple linear regression as ordinary least squares with intercept, exactly, over the rationals (mode 2  *)
(* of DESIGN section 0: TLC is the oracle).  For an n x p integer matrix X and an integer response y:               *)
(*   D = [1 X],  B = Solve(D'D, D'y),  fitted = D B,  resid = fitted - y (the library's sign),                      *)
(*   RSS = sum resid^2,  TSS = sum (y - mean y)^2,  R2 = 1 - RSS/TSS,  SDEC^2 = RSS/n.                               *)
(* Theorems evaluated by TLC on every enumerated case (invariants of the generator): residuals sum to zero and are  *)
(* orthogonal to every predictor; no competing coefficient vector of a small integer set has a smaller RSS; y linear *)
(* in X is recovered exactly; y -> c*y + d maps coefficients/fitted/SDEC and keeps R2; an invertible integer re-    *)
(* mixing X -> X M keeps the fitted values and maps the slopes by M^-1; 0 <= R2 <= 1.                               *)
(* The generator emits every case with its exact results (PrintT "@@" json) for replay into MLR / MLRPredictY.       *)
(* The definitions and theorem operators live in MlrDefs.tla (shared with TraceMlr.tla and MlrHist.tla); this module is the   *)
(* case generator.  Added with the location class: TSS in its one-pass and two-pass form agree and do not move with y,       *)
(* predictors moved by a constant keep slopes and fitted values (intercept b0 - h.b), the explicit-inverse kernel agrees      *)
(* with Cramer, regression through the origin has residuals orthogonal to the predictors.                                    *)
EXTENDS MlrDefs, TLC, Json
CONSTANTS Mode,          \* "all": every (X, y) of shape NN x PP;  "sample": Chains chains of Samples random cases, n in 3..5, p in 1..2
          NN, PP, Samples, Chains,
          Slice          \* "all" mode only: 0 = every X; 1..5 = only the X with X[1][1] = Slice - 3 (splits a large enumeration into five runs)
\* ---- generator ----------------------------------------------------------------------------------------------------
VARIABLES cid, X, y, ok
mvars == <<cid, X, y, ok>>
Draw(n, p) == [i \in 1..n |-> [j \in 1..p |-> RandomElement(Vals)]]
DrawY(n) == [i \in 1..n |-> RandomElement(Vals)]
\* "all": the X are the initial states and the y are chosen in the first step, so that the workers share the enumeration
Init == IF Mode = "all"
        THEN /\ cid = 0 /\ X \in [1..NN -> [1..PP -> Vals]] /\ (Slice = 0 \/ X[1][1] = Slice - 3) /\ y = [i \in 1..NN |-> 0] /\ ok = FALSE
        ELSE /\ cid \in {c * Samples : c \in 0..(Chains - 1)} /\ X = <<<<1>>, <<0>>, <<2>>>> /\ y = <<1, 0, 1>> /\ ok = TRUE
NextAll == /\ Mode = "all" /\ cid = 0 /\ cid' = 1
           /\ X' = X /\ y' \in [1..NN -> Vals] /\ ok' = FullRank(X)
NextSample == /\ Mode = "sample" /\ (cid + 1) % Samples # 0
              /\ cid' = cid + 1
              /\ \E n \in {RandomElement(3..5)}, p \in {RandomElement(1..2)} : X' = Draw(n, p) /\ y' = DrawY(n)   \* singleton sets: one draw each
              /\ ok' = FullRank(X')
Next == NextAll \/ NextSample
Spec == Init /\ [][Next]_mvars

Theorems == ok => LET cd == CoefCD(X, y) IN
   /\ ThSolvers(X, y, cd) /\ ThNormal(X, y, cd) /\ ThMinimal(X, y, cd) /\ ThRecover(X) /\ ThAffine(X, y, cd) /\ ThRemix(X, y, cd) /\ ThR2Range(X, y, cd)
   \* the location / kernel / through-the-origin theorems on every case of the 3x1 enumeration and of the random shapes; the five 4x1 slices of the
   \* thorough tier (Slice # 0, 387,500 cases) keep to the theorems above (time budget)
   /\ ((Mode = "all" /\ Slice # 0) \/ (ThTss(y) /\ ThShiftX(X, y, cd) /\ ThKernel(X, y, cd) /\ ThOrigin(X, y)))

\* two fixed unseen objects per width, with their exact predictions
Unseen(p) == IF p = 1 THEN <<<<3>>, <<-4>>>> ELSE <<<<3, -3>>, <<1, 4>>>>
CaseRecord == LET cd == CoefCD(X, y)  t == Tss(y)  r == Resid(X, y, cd)  rss == RssOf(r) IN
   [n |-> Len(X), p |-> Len(X[1]), X |-> X, y |-> y, b |-> Rat(cd), fitted |-> Fitted(X, cd), resid |-> r,
    rss |-> rss, tss |-> t, r2 |-> IF IsZ(t) THEN <<0, 0>> ELSE R2Of(rss, t), sdec2 |-> Sdec2Of(rss, Len(X)),
    xnew |-> Unseen(Len(X[1])), pred |-> Fitted(Unseen(Len(X[1])), cd)]
Emit == IF ok THEN PrintT("@@" \o ToJson(CaseRecord)) ELSE TRUE
====
