---- MODULE Mlr ----
(* C07.  Multiple linear regression as ordinary least squares with intercept, exactly, over the rationals (mode 2  *)
(* of DESIGN section 0: TLC is the oracle).  For an n x p integer matrix X and an integer response y:               *)
(*   D = [1 X],  B = Solve(D'D, D'y),  fitted = D B,  resid = fitted - y (the library's sign),                      *)
(*   RSS = sum resid^2,  TSS = sum (y - mean y)^2,  R2 = 1 - RSS/TSS,  SDEC^2 = RSS/n.                               *)
(* Theorems evaluated by TLC on every enumerated case (invariants of the generator): residuals sum to zero and are  *)
(* orthogonal to every predictor; no competing coefficient vector of a small integer set has a smaller RSS; y linear *)
(* in X is recovered exactly; y -> c*y + d maps coefficients/fitted/SDEC and keeps R2; an invertible integer re-    *)
(* mixing X -> X M keeps the fitted values and maps the slopes by M^-1; 0 <= R2 <= 1.                               *)
(* The generator emits every case with its exact results (PrintT "@@" json) for replay into MLR / MLRPredictY.       *)
(* Bounds: entries in -2..2, n <= 5, p <= 2: |det D'D| <= 2000, every intermediate stays below 2^31 (an overflow is *)
(* an error of TLC, never a verdict).                                                                             *)
EXTENDS RatLA, TLC, Json
CONSTANTS Mode,          \* "all": every (X, y) of shape NN x PP;  "sample": a chain of Samples random cases, n in 3..5, p in 1..2
          NN, PP, Samples
Vals == -2..2

\* ---- definitions --------------------------------------------------------------------------------------------------
Design(X) == [i \in 1..Len(X) |-> <<1>> \o X[i]]
Gram(D) == [a \in 1..Len(D[1]) |-> [b \in 1..Len(D[1]) |-> LET F[i \in 0..Len(D)] == IF i = 0 THEN 0 ELSE F[i - 1] + D[i][a] * D[i][b] IN F[Len(D)]]]
Moment(D, y) == [a \in 1..Len(D[1]) |-> << LET F[i \in 0..Len(D)] == IF i = 0 THEN 0 ELSE F[i - 1] + D[i][a] * y[i] IN F[Len(D)] >>]
FullRank(X) == RankInt(Gram(Design(X))) = Len(X[1]) + 1
Coef(X, y) == LET D == Design(X)  S == SolveInt(Gram(D), Moment(D, y)) IN [a \in 1..Len(D[1]) |-> S[2][a][1]]
PredictRow(b, x) == RAdd(b[1], RSum([j \in 1..Len(x) |-> RMul(b[j + 1], RI(x[j]))]))          \* intercept + x . slopes
Fitted(X, b) == [i \in 1..Len(X) |-> PredictRow(b, X[i])]
Resid(X, y, b) == [i \in 1..Len(X) |-> RSub(PredictRow(b, X[i]), RI(y[i]))]
Rss(X, y, b) == RSum([i \in 1..Len(X) |-> RSq(Resid(X, y, b)[i])])
SumInt(y) == LET F[i \in 0..Len(y)] == IF i = 0 THEN 0 ELSE F[i - 1] + y[i] IN F[Len(y)]
Tss(y) == LET n == Len(y)  s == SumInt(y)  q == SumInt([i \in 1..n |-> y[i] * y[i]]) IN Norm(n * q - s * s, n)   \* sum y^2 - (sum y)^2/n
R2(X, y, b) == RSub(ROne, RDiv(Rss(X, y, b), Tss(y)))
Sdec2(X, y, b) == RDiv(Rss(X, y, b), RI(Len(X)))

\* ---- theorems (each takes the case) -------------------------------------------------------------------------------
ThNormal(X, y) == LET b == Coef(X, y)  r == Resid(X, y, b) IN
   /\ RSum(r) = RZero
   /\ \A j \in 1..Len(X[1]) : RSum([i \in 1..Len(X) |-> RMul(r[i], RI(X[i][j]))]) = RZero
Competitors(p) == [1..(p + 1) -> {-1, 0, 1}]
ThMinimal(X, y) == LET b == Coef(X, y)  best == Rss(X, y, b) IN
   \A c \in Competitors(Len(X[1])) : RLeq(best, Rss(X, y, [a \in 1..(Len(X[1]) + 1) |-> RI(c[a])]))
LinearIn(X, c) == [i \in 1..Len(X) |-> c[1] + SumInt([j \in 1..Len(X[1]) |-> c[j + 1] * X[i][j]])]
ThRecover(X) == \A c \in [1..(Len(X[1]) + 1) -> {-1, 2}] :
   LET yl == LinearIn(X, c)  b == Coef(X, yl) IN b = [a \in 1..(Len(X[1]) + 1) |-> RI(c[a])] /\ Rss(X, yl, b) = RZero
AffinePairs == {<<2, 1>>, <<-1, 3>>, <<3, -2>>}
ThAffine(X, y) == LET b == Coef(X, y) IN \A cd \in AffinePairs :
   LET y2 == [i \in 1..Len(y) |-> cd[1] * y[i] + cd[2]]  b2 == Coef(X, y2) IN
   /\ b2 = [a \in 1..Len(b) |-> IF a = 1 THEN RAdd(RMul(RI(cd[1]), b[1]), RI(cd[2])) ELSE RMul(RI(cd[1]), b[a])]
   /\ Sdec2(X, y2, b2) = RMul(RI(cd[1] * cd[1]), Sdec2(X, y, b))
   /\ (IsZ(Tss(y)) \/ R2(X, y2, b2) = R2(X, y, b))
\* invertible integer re-mixings of the predictors and their (rational) inverses
Mixes(p) == IF p = 1 THEN { <<<<2>>>>, <<<<-1>>>>, <<<<3>>>> }
            ELSE { <<<<1, 1>>, <<0, 1>>>>, <<<<2, 1>>, <<1, 1>>>>, <<<<0, 1>>, <<1, 0>>>>, <<<<1, -1>>, <<1, 1>>>> }
MixX(X, M) == [i \in 1..Len(X) |-> [j \in 1..Len(M[1]) |-> SumInt([h \in 1..Len(M) |-> X[i][h] * M[h][j]])]]
ThRemix(X, y) == LET b == Coef(X, y) IN \A M \in Mixes(Len(X[1])) :
   LET X2 == MixX(X, M)  b2 == Coef(X2, y) IN
   /\ Fitted(X2, b2) = Fitted(X, b)
   /\ b2[1] = b[1]
   /\ \A h \in 1..Len(M) : b[h + 1] = RSum([j \in 1..Len(M[1]) |-> RMul(RI(M[h][j]), b2[j + 1])])      \* slopes = M . new slopes
ThR2Range(X, y) == IsZ(Tss(y)) \/ LET r == R2(X, y, Coef(X, y)) IN RLeq(RZero, r) /\ RLeq(r, ROne)

\* ---- generator ----------------------------------------------------------------------------------------------------
VARIABLES cid, X, y, ok
mvars == <<cid, X, y, ok>>
Draw(n, p) == [i \in 1..n |-> [j \in 1..p |-> RandomElement(Vals)]]
DrawY(n) == [i \in 1..n |-> RandomElement(Vals)]
Init == IF Mode = "all"
        THEN /\ cid = 0 /\ X \in [1..NN -> [1..PP -> Vals]] /\ y \in [1..NN -> Vals] /\ ok = FullRank(X)
        ELSE /\ cid = 0 /\ X = <<<<1>>, <<0>>, <<2>>>> /\ y = <<1, 0, 1>> /\ ok = TRUE
Next == /\ Mode = "sample" /\ cid < Samples
        /\ cid' = cid + 1
        /\ \E n \in {RandomElement(3..5)}, p \in {RandomElement(1..2)} : X' = Draw(n, p) /\ y' = DrawY(n)   \* singleton sets: one draw each
        /\ ok' = FullRank(X')
Spec == Init /\ [][Next]_mvars

Theorems == ok => /\ ThNormal(X, y) /\ ThMinimal(X, y) /\ ThRecover(X) /\ ThAffine(X, y) /\ ThRemix(X, y) /\ ThR2Range(X, y)

\* two fixed unseen objects per width, with their exact predictions
Unseen(p) == IF p = 1 THEN <<<<3>>, <<-4>>>> ELSE <<<<3, -3>>, <<1, 4>>>>
CaseRecord == LET b == Coef(X, y)  t == Tss(y) IN
   [n |-> Len(X), p |-> Len(X[1]), X |-> X, y |-> y, b |-> b, fitted |-> Fitted(X, b), resid |-> Resid(X, y, b),
    rss |-> Rss(X, y, b), tss |-> t, r2 |-> IF IsZ(t) THEN <<0, 0>> ELSE R2(X, y, b), sdec2 |-> Sdec2(X, y, b),
    xnew |-> Unseen(Len(X[1])), pred |-> Fitted(Unseen(Len(X[1])), b)]
Emit == IF ok THEN PrintT("@@" \o ToJson(CaseRecord)) ELSE TRUE
====
