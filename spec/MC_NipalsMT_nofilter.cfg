SPECIFICATION MFairSpec
CONSTANTS
  MaxRank = 3
  MaxNpc = 5
  MaxIter = 3
  Guarded = TRUE
  Sites = {"PCA", "PLS", "CPCA"}
  NProcs = {1, 2}
  FilterSerial = TRUE
  FilterMT = FALSE
  Capped = TRUE
  CapIter = 2
  CapRule = "passes"
PROPERTY Terminates
INVARIANT BeyondRankZero
INVARIANT NprocInvisible
CHECK_DEADLOCK FALSE
