\* the seeded change C17-adv2 (relative tolerance) on data translated by 1e6: TLC must REFUTE PostHolds
SPECIFICATION Spec
CONSTANTS
  NPts = 3
  Dim = 2
  Grid = 2
  KMax = 3
  DistinctStart = TRUE
  IterCap = 8
  Variant = "reltol"
  Off = 1000000
  SExp = 0
INVARIANT PostHolds
CHECK_DEADLOCK FALSE
