SPECIFICATION TSpec
CONSTANTS
  Shapes = {21}
  Variants = {0}
  TypeCodes = {0, 1, 2, 3, 4, 5, 6}
  ModX = 1
  ResX = 0
  Mod = 1
  Res = 0
  MaxMissing = 0
  PropOnly = FALSE
CONSTRAINT Diag
POSTCONDITION TraceAccepted
CHECK_DEADLOCK FALSE
