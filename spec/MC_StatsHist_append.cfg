SPECIFICATION HSpec
CONSTANTS
  Contract = "append"
  MaxCalls = 3
  Lens = {1, 2, 3}
INVARIANT TailIsLatest
INVARIANT FreshBlind
CHECK_DEADLOCK FALSE
