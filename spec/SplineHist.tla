---- MODULE SplineHist ----
(* C19, in-process history (INPUT-CLASSES K7) of the coefficient table S and of the interpolate() output.       *)
(*                                                                                                           *)
(* cubic_spline_interpolation(xy, S) writes one row (x_j, a_j, b_j, c_j, d_j) per piece into a table the CALLER  *)
(* owns and may have used before; cubic_spline_predict(x, S, y) has no other knowledge of the spline than that  *)
(* table: it takes  S.rows - 1  as the number of searched pieces and the LAST ROW as the polynomial of the last *)
(* interval (no upper abscissa is stored for it).  So the property "passes through every point" after a SECOND  *)
(* fit depends on what the first one left behind.  The model keeps, for every row, which fit wrote it:        *)
(*   Policy = "resize"  the table is given exactly nk-1 rows on every fit (interpolate.c: ResizeMatrix(S, n, 5)) *)
(*   Policy = "keep"    the table is only reallocated when it is too small or not 5 columns wide               *)
(* and TLC checks after every fit that the rows the predictor will read are rows of the CURRENT fit.            *)
(* With "keep" the invariant is refuted by  Fit(4) ; Fit(3)  (stale last row) - the variant is reported by the  *)
(* conformance run as a table of nk_1 - 1 rows after a fit with nk_2 < nk_1 knots (event SFit, rows # nk - 1).  *)
EXTENDS Integers, Sequences, FiniteSets, TLC
CONSTANTS NKs,          \* knot counts a fit may have
          MaxFits,      \* fits per session
          Policy,       \* "resize" | "keep"
          PreRows       \* rows a caller-supplied table may already have (with 5 columns or with another width)
VARIABLES tab,          \* sequence of rows [fit, piece]; fit 0 = written by somebody else before the session
          cols, cur, nfit
vars == <<tab, cols, cur, nfit>>
Stale(k) == [j \in 1..k |-> [fit |-> 0, piece |-> j - 1]]
Init == /\ \E r \in PreRows : \E c \in {0, 3, 5} : tab = Stale(IF c = 0 THEN 0 ELSE r) /\ cols = (IF r = 0 THEN 0 ELSE c)
        /\ cur = [id |-> 0, nk |-> 0] /\ nfit = 0
Fresh(id, nk) == [j \in 1..(nk - 1) |-> [fit |-> id, piece |-> j - 1]]
Fit(nk) == /\ nfit < MaxFits /\ nfit' = nfit + 1 /\ cur' = [id |-> nfit + 1, nk |-> nk]
           /\ LET pieces == nk - 1
                  realloc == Policy = "resize" \/ cols # 5 \/ Len(tab) < pieces
              IN IF realloc THEN tab' = Fresh(nfit + 1, nk) /\ cols' = 5
                 ELSE /\ tab' = [j \in 1..Len(tab) |-> IF j <= pieces THEN [fit |-> nfit + 1, piece |-> j - 1] ELSE tab[j]]
                      /\ cols' = cols
Next == \E nk \in NKs : Fit(nk)
Spec == Init /\ [][Next]_vars
\* what cubic_spline_predict reads: rows 1..Len-1 are searched by interval, row Len is the last interval / the extrapolation
SearchedPieces == Len(tab)
LastPolynomial == tab[Len(tab)]
TableIsCurrent == nfit > 0 =>
   /\ cols = 5
   /\ SearchedPieces = cur.nk - 1                                                 \* one row per piece
   /\ \A j \in 1..Len(tab) : tab[j] = [fit |-> cur.id, piece |-> j - 1]          \* every row belongs to the current fit
   /\ LastPolynomial = [fit |-> cur.id, piece |-> cur.nk - 2]                    \* the last knot is evaluated with the last piece of THIS fit
\* history classes reached (vacuity: every class of a second fit occurs)
HistClass == IF nfit < 2 THEN "first" ELSE "later"
====
