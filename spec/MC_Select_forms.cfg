\* the linear and rank-based forms used by TraceSelect.tla agree with the set-based definitions (all 3-point sets)
SPECIFICATION Spec
CONSTANTS
  NMin = 3
  NMax = 3
  Dim = 2
  Grid = 2
  EmitMod = 1
INVARIANT ImplIsAdmissible
INVARIANT PrefixClosed
INVARIANT LinearFormsAgree
INVARIANT RankFormAgrees
INVARIANT AffineInvariant
CHECK_DEADLOCK FALSE
