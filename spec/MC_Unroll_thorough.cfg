SPECIFICATION Spec
CONSTANTS
  MaxCol = 96
  TailFrom = "col_minus_mod"
INVARIANT EachTermOnce
INVARIANT UnrolledIsDot
CHECK_DEADLOCK FALSE
