SPECIFICATION Spec
CONSTANTS
  FamSet = {"Roc", "Reg", "PlsReg", "Mlr", "PlsDa"}
  MaxN = 5
  MaxNMiss = 5
  RegN = 3
  RegEmitN = 3
  MaxNy = 3
  MaxNlv = 3
  DoEmit = TRUE
INVARIANT ThMannWhitney
INVARIANT ThRocMonotone
INVARIANT ThComplement
INVARIANT ThAucRange
INVARIANT ThOrderOfScores
INVARIANT ThReorder
INVARIANT ThPrecisionRecall
INVARIANT ThRegPerfect
INVARIANT ThRegBounds
INVARIANT ThMissingIgnored
INVARIANT ThShiftInvariant
INVARIANT ThScaleLaw
INVARIANT ThLayout
INVARIANT ThTablesDistinguish
INVARIANT ThLabelSwap
INVARIANT ThPerfectRanking
INVARIANT ThMissingTransparent
INVARIANT ThPrPoints
INVARIANT ThSumIdx
CONSTRAINT EmitCase
CHECK_DEADLOCK FALSE
