SPECIFICATION MSpecStruct
CONSTANTS
  MaxNy = 2
  MaxNlv = 3
  ResidualIndex = "mod_ny"
INVARIANT InvShape
INVARIANT InvWide
INVARIANT InvTolBase
INVARIANT InvCols
INVARIANT InvR2Range
INVARIANT InvFloor
CHECK_DEADLOCK FALSE
