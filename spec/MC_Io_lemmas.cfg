SPECIFICATION Spec
CONSTANTS
  Paths = {"p1"}
  MaxHist = 0
  DropTables = TRUE
  SaveAll = TRUE
  ReadBlock = 0
  SizeSet = {1, 2, 3}
  Rewrites = FALSE
  Shape = "all"
  Reuse = "off"
INVARIANT SerLenOK
INVARIANT RoundTripExact
INVARIANT StaleSuffix
INVARIANT K2Covered
INVARIANT SizesDiffer
CHECK_DEADLOCK FALSE
