SPECIFICATION Spec
CONSTANTS
  NW = 3
  K = 1
  PerThread = TRUE
CONSTRAINT Emit
CHECK_DEADLOCK FALSE
