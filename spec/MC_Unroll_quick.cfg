SPECIFICATION Spec
CONSTANTS
  MaxCol = 17
  TailFrom = "col_minus_mod"
INVARIANT EachTermOnce
INVARIANT UnrolledIsDot
CHECK_DEADLOCK FALSE
