SPECIFICATION Spec
CONSTANTS
  MinTol = 1000000
INVARIANT BestNeverWorse
CONSTRAINT Diag
POSTCONDITION TraceAccepted
CHECK_DEADLOCK FALSE
