---- MODULE TraceLda ----
(* Trace specification for C08.  One Reset-delimited block per fitted LDA model.                          *)
(*   Case    {id, mode, sep, lab[], X[][]}   training labels (and the integer feature data in mode "exact") *)
(*   Labels  {start, nclass, counts[]}       LDAMODEL.class_start, .nclass, rows of .features per class    *)
(*   Prior   {k, num, den, err}              pprob[k] * den rounded to an integer; err = |pprob*den - num| *)
(*   PriorSum{num, den, err, count}          (sum of pprob) * den; count = length of pprob                 *)
(*   Mu      {k, j, num, den, err}           mu[k][j] * den rounded (mode exact: TLC recomputes the rational)*)
(*   MuL     {k, err}                        ledger: max relative deviation of mu[k][.] from the class average *)
(*   Pred    {i, label, truth, fin, sc[][3]} prediction[i] and the STORED probability row as order codes   *)
(*   Disc    {err}                           stored score vs mu' C x - mu' C mu / 2 + ln(prior), max relative *)
(*   EndPred {n, rows}                       n test objects were submitted, prediction has `rows` rows       *)
(*   Reuse   {err, same, rows, n}            second LDAPrediction call into REUSED (sized, non-zero) outputs vs a fresh call *)
(*   Pair    {kind, err, same, kf}           affine / perm: score-difference deviation, predictions equal; *)
(*                                           kf = Frobenius condition number of the covariance LDA() inverts *)
(*   Auc     {k, err}   AucEnd{count}        |AUC_k - 1| from LDAMulticlassStatistics on perfect predictions *)
(* residuals are saturating integers in units of 1e-12.  A Crash event (emitted by the parent when the     *)
(* child running the library died) matches no action and is therefore always rejected.                    *)
(* Prop* = what C08 states; Impl* = how the present code happens to do it (switched off by PropOnly).      *)
EXTENDS Lda, TraceBase
CONSTANTS PropOnly,
          TolExact,     \* 1e-12 units: stored exact rationals (priors, means, AUC)      1000  = 1e-9
          TolAlg,       \* 1e-12 units: algebraic identities in double precision         10000 = 1e-8
          TolPair,      \* 1e-12 units: invariance of score differences                  100000 = 1e-7
          PairPerKf,    \* 1e-12 units per unit condition number: the bound grows with the conditioning of the
                        \* matrix LDA() has to invert (accuracy of the inversion itself is C12's subject)  10000 = 1e-8
          KfMax         \* beyond this condition number the covariance is numerically singular: outside the quantifier
VARIABLES l, st
tvars == <<lab, X, l, st>>
Ev == Tr[l]
St0 == [mode |-> "none", sep |-> 0, errs |-> 0, nauc |-> 0]

LexLe(a, b) == \/ a[1] < b[1]
               \/ a[1] = b[1] /\ (a[2] < b[2] \/ (a[2] = b[2] /\ a[3] <= b[3]))
ArgmaxSet(sc) == {k \in 1..Len(sc) : \A m \in 1..Len(sc) : LexLe(sc[m], sc[k])}

TInit == l = 1 /\ lab = <<0>> /\ X = <<>> /\ st = St0
Step == l' = l + 1
Same == UNCHANGED <<lab, X, st>>

TReset == /\ l <= Len(Tr) /\ Ev.e = "Reset" /\ Step
          /\ lab' = <<0>> /\ X' = <<>> /\ st' = St0

TCase == /\ l <= Len(Tr) /\ Ev.e = "Case" /\ Step
         /\ WellFormed(Ev.lab)                       \* the harness generated inside the quantifier
         /\ lab' = Ev.lab /\ X' = Ev.X
         /\ st' = [St0 EXCEPT !.mode = Ev.mode, !.sep = Ev.sep]

\* what LDA() stored about the numbering
TLabels == /\ l <= Len(Tr) /\ Ev.e = "Labels" /\ Step /\ Same
           /\ Ev.start = ClassStart(lab)
           /\ Ev.nclass = NClass(lab)
           /\ Len(Ev.counts) = NClass(lab)
           /\ \A k \in 1..Len(Ev.counts) : Ev.counts[k] = Count(lab, k - 1)

\* priors = class frequencies (exact rational recomputed by TLC from the labels)
TPrior == /\ l <= Len(Tr) /\ Ev.e = "Prior" /\ Step /\ Same
          /\ Ev.k \in Rows(lab)
          /\ Ev.err <= TolExact
          /\ REq(<<Ev.num, Ev.den>>, Prior(lab, Ev.k))
TPriorSum == /\ l <= Len(Tr) /\ Ev.e = "PriorSum" /\ Step /\ Same
             /\ Ev.err <= TolExact /\ Ev.num = Ev.den
             /\ Ev.count = NClass(lab)

\* class means = per-class averages (mode exact: rational recomputed by TLC from labels and integer data)
TMu == /\ l <= Len(Tr) /\ Ev.e = "Mu" /\ Step /\ Same
       /\ st.mode = "exact"
       /\ Ev.k \in Rows(lab) /\ Ev.j \in 1..Len(X[1])
       /\ Ev.err <= TolExact
       /\ REq(<<Ev.num, Ev.den>>, Mu(lab, X, Ev.k, Ev.j))
TMuL == /\ l <= Len(Tr) /\ Ev.e = "MuL" /\ Step /\ Same
        /\ Ev.k \in Rows(lab)
        /\ Ev.err <= TolAlg

\* prediction: a training label that stands for a row maximising the stored score (ties: any maximiser)
PropPred(ev) == /\ ev.fin = 1
                /\ ev.label \in Range(lab)
                /\ Len(ev.sc) = NClass(lab)
                /\ (RowOf(lab, ev.label) + 1) \in ArgmaxSet(ev.sc)
ImplPred(ev) == PropOnly \/ RowOf(lab, ev.label) + 1 = MinS(ArgmaxSet(ev.sc))     \* first maximiser wins
TPred == /\ l <= Len(Tr) /\ Ev.e = "Pred" /\ Step /\ UNCHANGED <<lab, X>>
         /\ PropPred(Ev) /\ ImplPred(Ev)
         /\ st' = [st EXCEPT !.errs = @ + (IF Ev.label = Ev.truth THEN 0 ELSE 1)]

\* the stored score is the documented discriminant of the stored model
TDisc == /\ l <= Len(Tr) /\ Ev.e = "Disc" /\ Step /\ Same
         /\ Ev.err <= TolAlg

\* every test object was predicted; well separated classes are classified without error
TEndPred == /\ l <= Len(Tr) /\ Ev.e = "EndPred" /\ Step /\ Same
            /\ Ev.rows = Ev.n
            /\ (st.sep = 1 => st.errs = 0)

\* what a call returns does not depend on what its output matrices held before
TReuse == /\ l <= Len(Tr) /\ Ev.e = "Reuse" /\ Step /\ Same
          /\ Ev.rows = Ev.n /\ Ev.same = 1 /\ Ev.err <= TolExact

\* invariance under affine re-coding of train and test, and under reordering of the training objects
TPair == /\ l <= Len(Tr) /\ Ev.e = "Pair" /\ Step /\ Same
         /\ Ev.kind \in {"affine", "perm"}
         /\ Ev.kf <= KfMax                   \* numerically singular cases are dropped (and counted) by the check
         /\ (Ev.err <= TolPair \/ Ev.err <= PairPerKf * Ev.kf)
         /\ Ev.same = 1

\* per-class ROC on perfect 0-based predictions
TAuc == /\ l <= Len(Tr) /\ Ev.e = "Auc" /\ Step /\ UNCHANGED <<lab, X>>
        /\ Ev.err <= TolExact
        /\ st' = [st EXCEPT !.nauc = @ + 1]
TAucEnd == /\ l <= Len(Tr) /\ Ev.e = "AucEnd" /\ Step /\ Same
           /\ st.nauc >= 1 /\ st.nauc = Ev.count
           /\ (PropOnly \/ st.nauc = (IF NClass(lab) = 2 THEN 1 ELSE NClass(lab)))   \* two classes: one curve

TNext == TReset \/ TCase \/ TLabels \/ TPrior \/ TPriorSum \/ TMu \/ TMuL \/ TPred \/ TDisc \/ TEndPred \/ TReuse
         \/ TPair \/ TAuc \/ TAucEnd
TSpec == TInit /\ [][TNext]_tvars
TraceAccepted == Accepted
Diag == ShowCursor(l)
====
