---- MODULE TraceLda ----
(* Trace specification for C08.  One Reset-delimited block per fitted LDA model.                          *)
(*   Case    {id, mode, fam, sub, sep, K, d, start, balanced, lab[], X[][], T[][], rc, shift, unit, nt, nproc, hist}          *)
(*           training labels; mode "exact": integer features X, extra test points T and the recoding rc the harness        *)
(*           applied (real value = (integer + OffsetOf(rc, j)) * mul / den); mode "ledger": seeded real-valued data with   *)
(*           common offset `shift` (in spreads) and unit 2^unit; nt = number of test objects                               *)
(*   Labels  {start, nclass, counts[]}       LDAMODEL.class_start, .nclass, rows of .features per class    *)
(*   Prior   {k, num, den, err}              pprob[k] * den rounded to an integer; err = |pprob*den - num| *)
(*   PriorSum{num, den, err, count}          (sum of pprob) * den; count = length of pprob                 *)
(*   Mu      {k, j, num, den, err}           mu[k][j] (mapped back to the integer coordinates) * den rounded: TLC recomputes *)
(*   MuL     {k, err}                        ledger: max deviation of mu[k][.] from the class average, relative to max(unit, |average|) *)
(*   Pred    {i, label, truth, fin, sc[][3]} prediction[i] and the STORED probability row as order codes   *)
(*   Disc    {err}                           stored score vs mu' C x - mu' C mu / 2 + ln(prior), max relative *)
(*   EndPred {n, rows}                       n test objects were submitted, prediction has `rows` rows       *)
(*   Reuse   {var, err, same, rows, n}       another LDAPrediction call into REUSED outputs (var 0: sized alike and non-zero,  *)
(*                                           1: larger, 2: smaller, 3: other test set in between) vs the first call              *)
(*   Pair    {kind, map, err, same, kf, rows} affine / perm: score-difference deviation, predictions equal; *)
(*                                           kf = Frobenius condition number of the covariance LDA() inverts *)
(*   PairRow {i, kf, e[], m[]}               blocks with a common offset: per test object and class pair |D - D'| (1e-9 units)   *)
(*                                           and ceil(max(1, |D|)); the bound is evaluated per pair                              *)
(*   Auc     {k, err, src}  AucEnd{count, src, curves, prc}  |AUC_k - 1| from LDAMulticlassStatistics on perfect predictions (src "labels":  *)
(*                                           the training labels twice; "pred": truth and the labels LDAPrediction returned)     *)
(*   Hist    {err, same, rows, n, areuse}    K7: the same case once more after other models were fitted / freed in the process   *)
(* outside the statement of C08 (modelled exactly all the same; the check reports rejections as EXTRA-FINDING):                  *)
(*   PFeat   {var, rows, cols, n, d, err}    projected features = objects x stored eigenvectors, one column per eigenvector      *)
(*   Err     {k, sens, spec, ppv, npv, acc}  ErrEnd{count}   LDAError per class (1e-6 units) vs the confusion counts TLC derives *)
(*                                           from the recorded truth / prediction sequences                                      *)
(*   Refit   {psize, murows, K, same, err}   LDA() once more into the model object that already holds a fit                      *)
(*   FTab    {k, rows, cols, ne, merr, serr} fmean / fsdev row k vs mean / sdev of the projected training objects of class k            *)
(*   MnPdf   {rows, cols, n, ne, err}        density output vs the normal density under the table row of the PREDICTED label       *)
(* residuals are saturating integers in units of 1e-12.  A Crash event (emitted by the parent when the     *)
(* child running the library died) matches no action and is therefore always rejected.                    *)
(* Prop* = what C08 states; Impl* = how the present code happens to do it (switched off by PropOnly).      *)
EXTENDS Lda, TraceBase
CONSTANTS PropOnly,
          TolExact,     \* 1e-12 units: stored exact rationals (priors, means, AUC)      1000  = 1e-9
          TolAlg,       \* 1e-12 units: algebraic identities in double precision         10000 = 1e-8
          TolPair,      \* 1e-12 units: invariance of score differences                  100000 = 1e-7
          PairPerKf,    \* 1e-12 units per unit condition number: the bound grows with the conditioning of the
                        \* matrix LDA() has to invert (accuracy of the inversion itself is C12's subject)  10000 = 1e-8
          KfMax,        \* beyond this condition number the covariance is numerically singular: outside the quantifier
          ShiftC        \* multiples of the unit roundoff allowed per feature on a score difference whose terms are shift^2 large
VARIABLES l, st
tvars == <<lab, X, l, st>>
Ev == Tr[l]
NoGeo == [cnt |-> <<>>, sum |-> <<>>, adj |-> <<>>, det |-> 0, np |-> 0]
St0 == [mode |-> "none", sep |-> 0, errs |-> 0, nauc |-> 0, npred |-> 0, nt |-> 0, d |-> 0, shift |-> 0, prow |-> 0,
        geo |-> NoGeo, T |-> <<>>, rc |-> Recodes[1], truth |-> <<>>, pred |-> <<>>, nerr |-> 0, sub |-> 0,
        K |-> 0, start |-> 0, labs |-> {}]        \* NClass(lab), ClassStart(lab), Range(lab) of the block, computed once

LexLe(a, b) == \/ a[1] < b[1]
               \/ a[1] = b[1] /\ (a[2] < b[2] \/ (a[2] = b[2] /\ a[3] <= b[3]))
ArgmaxSet(sc) == {k \in 1..Len(sc) : \A m \in 1..Len(sc) : LexLe(sc[m], sc[k])}

(* ---------------------------------------------------------------- tolerance functions of the logged input *)
(* exact means at offset `off`: 420 * (ulp of a number of size off) in 1e-12 units is ~ 0.1 off *)
TolMuExact(rc) == TolExact + (rc.off \div 4)
(* score differences of data with a common offset of `shift` spreads: every score is a sum of d terms of size shift^2, so the *)
(* difference of two of them carries ~ ShiftC * u * d * shift^2 of absolute rounding error (u = 1.1e-16), in 1e-9 units:     *)
(* 1.1e-16 * 1e9 * 1e6 = 0.11 per (shift/1000)^2.  Zero below 1000 spreads: the old bound stands there.                       *)
ShiftAbs9(d, shift) == (ShiftC * d * (shift \div 1000) * (shift \div 1000)) \div 9
(* relative part, per unit of max(1, |D|), in 1e-9 units *)
PairRel9(kf) == LET a == TolPair \div 1000  b == (PairPerKf * kf) \div 1000 IN IF a >= b THEN a ELSE b
PairEntryOk(e, m, kf, d, shift) == \/ e <= ShiftAbs9(d, shift)
                                   \/ (e - ShiftAbs9(d, shift)) \div m <= PairRel9(kf)

TInit == l = 1 /\ lab = <<0>> /\ X = <<>> /\ st = St0
Step == l' = l + 1
Same == UNCHANGED <<lab, X, st>>

TReset == /\ l <= Len(Tr) /\ Ev.e = "Reset" /\ Step
          /\ lab' = <<0>> /\ X' = <<>> /\ st' = St0

\* the harness generated inside the quantifier (decided here, not in the harness)
ExactCaseOk(ev) == /\ ev.d \in {1, 2} /\ \A i \in 1..Len(ev.X) : Len(ev.X[i]) = ev.d
                   /\ Len(ev.X) = Len(ev.lab)
                   /\ \A i \in 1..Len(ev.T) : Len(ev.T[i]) = ev.d
                   /\ NonSingular(ev.lab, ev.X)
                   /\ ev.rc \in RecodeSet
                   /\ ev.nt = Len(ev.lab) + Len(ev.T)
LedgerCaseOk(ev) == /\ ev.K = NClass(ev.lab) /\ ev.K \in 2..5 /\ ev.d \in 2..6
                    /\ \A k \in Rows(ev.lab) : Count(ev.lab, k) \in 4..40
                    /\ ev.shift \in 0..1000000 /\ ev.unit \in (0 - 20)..20
                    /\ ev.nt >= 1
TCase == /\ l <= Len(Tr) /\ Ev.e = "Case" /\ Step
         /\ WellFormed(Ev.lab)
         /\ Ev.start = ClassStart(Ev.lab)
         /\ IF Ev.mode = "exact" THEN ExactCaseOk(Ev) ELSE LedgerCaseOk(Ev)
         /\ lab' = Ev.lab /\ X' = Ev.X
         /\ st' = [St0 EXCEPT !.mode = Ev.mode, !.sep = Ev.sep, !.nt = Ev.nt, !.d = Ev.d, !.shift = Ev.shift, !.sub = Ev.sub,
                              !.geo = IF Ev.mode = "exact" THEN Geometry(Ev.lab, Ev.X) ELSE NoGeo,
                              !.T = Ev.T, !.rc = Ev.rc,
                              !.K = NClass(Ev.lab), !.start = ClassStart(Ev.lab), !.labs = Range(Ev.lab)]

\* what LDA() stored about the numbering
TLabels == /\ l <= Len(Tr) /\ Ev.e = "Labels" /\ Step /\ Same
           /\ Ev.start = ClassStart(lab)
           /\ Ev.nclass = NClass(lab)
           /\ Len(Ev.counts) = NClass(lab)
           /\ \A k \in 1..Len(Ev.counts) : Ev.counts[k] = Count(lab, k - 1)

\* priors = class frequencies (exact rational recomputed by TLC from the labels)
TPrior == /\ l <= Len(Tr) /\ Ev.e = "Prior" /\ Step /\ Same
          /\ Ev.k \in Rows(lab)
          /\ Ev.err <= TolExact
          /\ REq(<<Ev.num, Ev.den>>, Prior(lab, Ev.k))
TPriorSum == /\ l <= Len(Tr) /\ Ev.e = "PriorSum" /\ Step /\ Same
             /\ Ev.err <= TolExact /\ Ev.num = Ev.den
             /\ Ev.count = NClass(lab)

\* class means = per-class averages (mode exact: rational recomputed by TLC from labels and integer data)
TMu == /\ l <= Len(Tr) /\ Ev.e = "Mu" /\ Step /\ Same
       /\ st.mode = "exact"
       /\ Ev.k \in Rows(lab) /\ Ev.j \in 1..Len(X[1])
       /\ Ev.err <= TolMuExact(st.rc)
       /\ REq(<<Ev.num, Ev.den>>, Mu(lab, X, Ev.k, Ev.j))
TMuL == /\ l <= Len(Tr) /\ Ev.e = "MuL" /\ Step /\ Same
        /\ Ev.k \in Rows(lab)
        /\ Ev.err <= TolAlg

\* prediction: a training label that stands for a row maximising the stored score (ties: any maximiser)
PropPred(ev) == /\ ev.fin = 1
                /\ ev.label \in st.labs                                  \* = Range(lab)
                /\ Len(ev.sc) = st.K                                     \* = NClass(lab)
                /\ (ev.label - st.start + 1) \in ArgmaxSet(ev.sc)        \* = RowOf(lab, label) + 1
\* mode exact: the winning row is one that no equally large class beats in EXACT arithmetic (by the recoding's margin)
TestPoint(i) == IF i <= Len(X) THEN X[i] ELSE st.T[i - Len(X)]
PropPredExact(ev) == st.mode = "exact" =>
                       /\ ev.i \in 1..(Len(X) + Len(st.T))
                       /\ (ev.label - st.start) \in AdmRowsG(st.geo, st.K, TestPoint(ev.i), RecodeMargin(st.rc))
ImplPred(ev) == PropOnly \/ ev.label - st.start + 1 = MinS(ArgmaxSet(ev.sc))     \* first maximiser wins
TPred == /\ l <= Len(Tr) /\ Ev.e = "Pred" /\ Step /\ UNCHANGED <<lab, X>>
         /\ PropPred(Ev) /\ PropPredExact(Ev) /\ ImplPred(Ev)
         /\ st' = [st EXCEPT !.errs = @ + (IF Ev.label = Ev.truth THEN 0 ELSE 1), !.npred = @ + 1,
                             !.truth = IF st.mode = "ledger" /\ st.sub # 1 THEN Append(@, Ev.truth) ELSE @,
                             !.pred = IF st.mode = "ledger" /\ st.sub # 1 THEN Append(@, Ev.label) ELSE @]

\* the stored score is the documented discriminant of the stored model
\* Impl: the stored inverse is the inverse of the pooled WITHIN-class covariance with weights n_k / n (residual max |S C - I| grows with
\* the conditioning); the statement itself only speaks of "the stored discriminant score"
ImplDisc(ev) == PropOnly \/ (ev.cov = "within" /\ (ev.kf > KfMax \/ ev.invres <= TolPair \/ ev.invres <= PairPerKf * ev.kf))   \* (kf first: 32-bit product)
TDisc == /\ l <= Len(Tr) /\ Ev.e = "Disc" /\ Step /\ Same
         /\ Ev.err <= TolAlg
         /\ ImplDisc(Ev)

\* every test object was predicted; well separated classes are classified without error
TEndPred == /\ l <= Len(Tr) /\ Ev.e = "EndPred" /\ Step /\ UNCHANGED <<lab, X>>
            /\ Ev.rows = Ev.n
            /\ st.npred <= Ev.n             \* (= n unless the check removed rejected Pred events of this block)
            /\ (st.sub = 0 => Ev.n = st.nt)
            /\ (st.sep = 1 => st.errs = 0)
            /\ st' = [st EXCEPT !.npred = 0]

\* what a call returns does not depend on what its output matrices held before, nor on their size
TReuse == /\ l <= Len(Tr) /\ Ev.e = "Reuse" /\ Step /\ Same
          /\ Ev.var \in 0..3
          /\ Ev.rows = Ev.n /\ Ev.same = 1 /\ Ev.err <= TolExact

\* invariance under affine re-coding of train and test, and under reordering of the training objects
TPairRow == /\ l <= Len(Tr) /\ Ev.e = "PairRow" /\ Step /\ UNCHANGED <<lab, X>>
            /\ st.shift > 0
            /\ Ev.kf <= KfMax
            /\ Len(Ev.e9) = Len(Ev.m) /\ Len(Ev.e9) = (st.K * (st.K - 1)) \div 2
            /\ \A p \in 1..Len(Ev.e9) : Ev.m[p] >= 1 /\ PairEntryOk(Ev.e9[p], Ev.m[p], Ev.kf, st.d, st.shift)
            /\ st' = [st EXCEPT !.prow = @ + 1]
TPair == /\ l <= Len(Tr) /\ Ev.e = "Pair" /\ Step /\ UNCHANGED <<lab, X>>
         /\ Ev.kind \in {"affine", "perm"}
         /\ Ev.kf <= KfMax                   \* numerically singular cases are dropped (and counted) by the check
         /\ IF st.shift = 0 THEN (Ev.err <= TolPair \/ Ev.err <= PairPerKf * Ev.kf) /\ Ev.rows = 0
                            ELSE Ev.rows = st.prow /\ Ev.rows = st.nt         \* every object's pairs were judged one by one
         /\ Ev.same = 1
         /\ st' = [st EXCEPT !.prow = 0]

\* per-class ROC on perfect 0-based predictions: one summary per class (two classes: the second one mirrors the first)
TAuc == /\ l <= Len(Tr) /\ Ev.e = "Auc" /\ Step /\ UNCHANGED <<lab, X>>
        /\ Ev.err <= TolExact
        /\ Ev.k = st.nauc
        /\ Ev.src \in {"labels", "pred"}
        /\ (Ev.src = "pred" => st.errs = 0)            \* the premise "perfect predictions" is TLC's own count
        /\ st' = [st EXCEPT !.nauc = @ + 1]
TAucEnd == /\ l <= Len(Tr) /\ Ev.e = "AucEnd" /\ Step /\ UNCHANGED <<lab, X>>
           /\ st.nauc >= 1 /\ st.nauc = Ev.count
           /\ ClassStart(lab) = 0
           /\ (NClass(lab) >= 3 => st.nauc = NClass(lab))
           /\ (NClass(lab) = 2 => st.nauc \in {1, 2})
           /\ (PropOnly \/ (/\ st.nauc = (IF NClass(lab) = 2 THEN 1 ELSE NClass(lab))   \* two classes: one curve
                            /\ Ev.curves = Ev.count /\ Ev.prc = Ev.count))                  \* one ROC table and one PR area per summary
           /\ st' = [st EXCEPT !.nauc = 0]

\* K7: the same data fitted and predicted again after other models lived and died in the same process
THist == /\ l <= Len(Tr) /\ Ev.e = "Hist" /\ Step /\ Same
         /\ Ev.rows = Ev.n /\ Ev.same = 1 /\ Ev.err <= TolExact

(* ---------------------------------------------------------------- outside the statement (EXTRA-FINDING when rejected) *)
TPFeat == /\ l <= Len(Tr) /\ Ev.e = "PFeat" /\ Step /\ Same
          /\ Ev.rows = Ev.n /\ Ev.cols = Ev.d /\ Ev.err <= TolAlg
\* |q/1e6 - num/den| <= 1e-6
Near6(q, r) == LET a == q * r[2] - r[1] * 1000000 IN Abs(a) <= r[2]
TErr == /\ l <= Len(Tr) /\ Ev.e = "Err" /\ Step /\ UNCHANGED <<lab, X>>
        /\ Ev.k = st.nerr /\ Ev.k \in Rows(lab)
        /\ Len(st.truth) = Len(st.pred) /\ Len(st.truth) <= st.nt
        /\ (Len(st.truth) = st.nt =>          \* not judged when the check removed rejected Pred events of this block
              LET c == Confusion(st.truth, st.pred, ClassStart(lab), Ev.k)
              IN /\ Near6(Ev.sens, Sens(c)) /\ Near6(Ev.spec, Specif(c)) /\ Near6(Ev.ppv, Ppv(c))
                 /\ Near6(Ev.npv, Npv(c)) /\ Near6(Ev.acc, Acc(c)))
        /\ st' = [st EXCEPT !.nerr = @ + 1]
TErrEnd == /\ l <= Len(Tr) /\ Ev.e = "ErrEnd" /\ Step /\ UNCHANGED <<lab, X>>
           /\ Ev.count = NClass(lab) /\ st.nerr = NClass(lab)
           /\ st' = [st EXCEPT !.nerr = 0]
\* the feature tables the label map indexes: one row per class, row k = mean / sdev of the projected training objects of label k + start;
\* the density output is evaluated with the table row of the predicted label (TableRow of Lda.tla)
TFTab == /\ l <= Len(Tr) /\ Ev.e = "FTab" /\ Step /\ Same
         /\ Ev.k \in Rows(lab) /\ Ev.rows = NClass(lab) /\ Ev.cols = Ev.ne
         /\ Ev.merr <= TolAlg /\ Ev.serr <= TolPair
TMnPdf == /\ l <= Len(Tr) /\ Ev.e = "MnPdf" /\ Step /\ Same
          /\ Ev.rows = Ev.n /\ Ev.cols = Ev.ne /\ Ev.err <= TolAlg
TRefit == /\ l <= Len(Tr) /\ Ev.e = "Refit" /\ Step /\ Same
          /\ Ev.psize = NClass(lab) /\ Ev.murows = NClass(lab)
          /\ Ev.same = 1 /\ Ev.err <= TolExact

TNext == TReset \/ TCase \/ TLabels \/ TPrior \/ TPriorSum \/ TMu \/ TMuL \/ TPred \/ TDisc \/ TEndPred \/ TReuse
         \/ TPairRow \/ TPair \/ TAuc \/ TAucEnd \/ THist \/ TPFeat \/ TErr \/ TErrEnd \/ TRefit \/ TFTab \/ TMnPdf
TSpec == TInit /\ [][TNext]_tvars
TraceAccepted == Accepted
Diag == ShowCursor(l)
====
