SPECIFICATION GenSpec
CONSTANTS
  Paths = {"p1"}
  MaxHist = 3
  DropTables = TRUE
  SaveAll = TRUE
  ReadBlock = 0
  SizeSet = {2, 3, 4, 5, 6, 7, 8, 9, 10, 11, 12, 13, 14, 15, 16, 17, 18, 19, 20, 21, 22, 23, 24, 25, 26, 27, 28, 29, 30, 31, 32, 33, 34, 35, 36, 37, 38, 39, 40}
  Rewrites = FALSE
  Shape = "prof"
  Reuse = "off"
CONSTRAINT GenFamily
CHECK_DEADLOCK FALSE
