SPECIFICATION Spec
CONSTANTS
  Rule = "textbook"
  StopRule = "values+size"
  K = 10
  MaxIter = 5
  Box <- BoxWide
  DoEmit = FALSE
INVARIANT NoStall
INVARIANT NoFalseStop
INVARIANT PrecisionOK
INVARIANT BestNeverWorse
CHECK_DEADLOCK FALSE
