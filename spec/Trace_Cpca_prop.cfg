SPECIFICATION TSpec
CONSTANTS
  Bud <- BudTrace
  Quanta = 5
  MaxPc = 1
  CFault = "none"
  PropOnly = TRUE
CONSTRAINT Diag
POSTCONDITION TraceAccepted
CHECK_DEADLOCK FALSE
