SPECIFICATION Spec
CONSTANTS
  NK = 5
  XMax = 7
  YMax = 1
  Scales = {0, 1, 2, 3, 4, 5, 6, 7, 8}
  LookupTol = "exact"
  DoEmit = TRUE
INVARIANT Theorems
INVARIANT Theorems2LiteSmall
INVARIANT LookupRight
CONSTRAINT Emit
CHECK_DEADLOCK FALSE
