---- MODULE Cpca ----
(* C09.  Ledger specification of CPCA() / CPCAScorePredictor() (src/cpca.c).                                         *)
(* Relates two recorded models and an oracle: the CPCA model, the eigen-decomposition of the block-scaled             *)
(* concatenation computed by the harness (truth), and the library's own PCA on that concatenation.                    *)
(* The ledger carries across components: cumulative block variances (non-decreasing, within [0,100], equal to the     *)
(* residual share recomputed from super scores and block loadings), the running total explained variance and its      *)
(* identity with the share-weighted block variances, total variances non-increasing and summing to at most 100.       *)
(* Units as in LedgerArith (1e-9 fractions, 1e-12 algebraic residuals).                                                *)
(*                                                                                                                     *)
(* Clause table of property C09 (statement -> operator that decides it -> event / field that carries it):             *)
(*  1 super score k = +-PCA score k of the identically preprocessed, sqrt(width)-scaled concatenation                 *)
(*        PropTruth (dist <= bT[k], oracle)  <- Truth.dist;   PropPcaRef (library PCA, looser bound) <- PcaRef.dist   *)
(*  2 total explained variance of component k = that PCA's explained variance                                         *)
(*        PropTruth (tvErr <= EvTolC9, oracle lambda_k / trace) <- Truth.tvErr;  PropPcaRef (TolEig) <- PcaRef.varexp *)
(*  3 super score = block scores x super weights            PropSuper  <- Cpca.superErr                               *)
(*  4 block explained variances are cumulative              PropBlockVar (|blockVar - blockRef| <= BlockTol, blockRef  *)
(*        recomputed by the harness from the stored super scores and block loadings) <- Cpca.blockVar, Cpca.blockRef   *)
(*        PropTruthBlocks (share of the block inside the span of the first k ORACLE scores, independent of the model's  *)
(*        scores and loadings, tolerance 4 x the summed score bounds) <- Truth.blockTruth against the ledger's prevBlock *)
(*  5 ... within [0,100]                                    PropBlockVar <- Cpca.blockVar                             *)
(*  6 ... non-decreasing in k                               PropBlockVar with the ledger state prevBlock               *)
(*  7 projecting the training tensor reproduces the super scores                                                      *)
(*        PropProj (output shapes, also into outputs already sized) <- Proj;  PropReproj <- Cpca.reproj               *)
(*        PropProj2 (asking for fewer components returns the leading ones) <- Proj2                                   *)
(*  consequences the ledger adds: PropTotal (totals >= 0, non-increasing, sum <= 100), PropShare (running total =     *)
(*  share-weighted block variances), PropScale (the statement does not depend on the unit of the data),               *)
(*  PropAgain (nor on what the process fitted before).                                                                 *)
(*  Implementation-shaped layer (SPEC-DRIFT only): ImplCpca (super weights normalised, predicted block scores =        *)
(*  stored block scores), ImplMt / ImplSlices (the threaded kernel is used and cuts a length as KernelSlices),         *)
(*  ImplIters (NIPALS passes are observed), ImplAgain (a repeated fit is bitwise the same).                            *)
(*                                                                                                                     *)
(* Section Model: (M) an ideal CPCA over small integer block budgets, blocks with constant variables (budget below     *)
(* the width) and zero blocks included; the ledger must accept every ideal run and reject the injected faults.         *)
EXTENDS LedgerArith, FiniteSets, TLC

CONSTANTS Bud,          \* model: live variance quanta per block (a block of width Quanta with c constant variables has Quanta - c)
          Quanta,       \* model: variance quanta of a block without constant variables (its width); divides 10^9
          MaxPc,        \* model: components
          CFault        \* model: "none" | "not_cumulative" | "over_100" | "total_unrelated" | "trace_by_width"

NBlocks == Len(Bud)
(* budgets the .cfg files substitute for Bud (a .cfg cannot spell a tuple) *)
BudConst == <<4, 5>>            \* two blocks of width 5, a constant variable in the first
BudZero == <<4, 0, 2>>          \* a constant block between two live ones (width 4)
BudThree == <<3, 4, 4>>
BudFour == <<5, 0, 4, 2>>
BudTrace == <<5, 5>>            \* trace / generator configurations (the model part is not used there)
KKc == 30                 \* same constant as C02
CpcaFloor9 == 100         \* 1e-7: below this a comparison against an independent double-precision oracle is not meaningful
BlockTol == 10            \* 1e-8: library's block variance vs the one recomputed from the model
MaxCmpC == 6
MinSC == 1000

(* ------------------------------------------------------------------------------------------ Ledger predicates *)
RECURSIVE WSum(_, _, _)
WSum(share, bv, b) == IF b = 0 THEN 0 ELSE WSum(share, bv, b - 1) + MulDiv(share[b], Max2(0, Min2(bv[b], One)), One)
ShareTol(k) == 30 + 10 * k

(* the quantifier of C09 plus the class coordinates of INPUT-CLASSES.md the generator may set (all inside the quantifier) *)
PropFitC(ev) == /\ ev.blocks \in 2..4 /\ Len(ev.widths) = ev.blocks /\ ev.n \in 5..30 /\ ev.scaling \in 0..5
                /\ \A b \in 1..ev.blocks : ev.widths[b] \in 1..8 /\ ev.npc <= ev.widths[b]
                /\ ev.npc >= 1 /\ ev.npc <= ev.n - 1
                /\ ev.nproc \in 1..32
                /\ ev.cc \in 0..7 /\ ev.off \in 0..8 /\ ev.hist \in 0..1 /\ ev.sized \in 0..3 /\ ev.deg \in 0..3
                /\ Len(ev.bm) = ev.blocks
                /\ \A b \in 1..ev.blocks :
                     IF ev.scaling = 0 THEN ev.dec + ev.bm[b] \in -9..9 /\ ev.dec + ev.bm[b] + ev.off <= 13
                     ELSE ev.dec + ev.bm[b] \in 0..9 /\ ev.dec + ev.bm[b] + ev.off <= 13     \* below 1 the zero-scale guard of MatrixPreprocess decides (C10)
                /\ (ev.cc \in 1..6 \/ ev.deg = 2 => \E b \in 1..ev.blocks : ev.widths[b] >= 2)   \* a constant / duplicated variable lives in a block of width >= 2
PropBlockVar(nb, prev, nzb, ev) ==
  /\ Len(ev.blockVar) = nb /\ Len(ev.blockRef) = nb
  /\ \A b \in 1..nb : /\ ev.blockVar[b] >= -3 /\ ev.blockVar[b] <= One + 3               \* within [0, 100]
                      /\ ev.blockVar[b] >= prev[b] - 3                                    \* non-decreasing
                      /\ (nzb[b] = 1 => Abs(ev.blockVar[b] - ev.blockRef[b]) <= BlockTol) \* cumulative: 1 - |E_b^(k)|^2 / |E_b|^2 (undefined for a zero block)
PropSuper(ev) == ev.superErr <= TolAlg                                                   \* super score = block scores x super weights
PropTotal(lastTotal, sumTotal, ev) == /\ ev.totalVar >= 0
                                      /\ ev.totalVar <= lastTotal + 3
                                      /\ sumTotal + ev.totalVar <= One + 3
PropShare(nb, share, sumTotal, ev) == Abs((sumTotal + ev.totalVar) - WSum(share, ev.blockVar, nb)) <= ShareTol(ev.k)
PropCpca(nb, prev, nzb, share, lastTotal, sumTotal, ev) ==
  PropBlockVar(nb, prev, nzb, ev) /\ PropSuper(ev) /\ PropTotal(lastTotal, sumTotal, ev) /\ PropShare(nb, share, sumTotal, ev)

EvTolC9(nn, s2k, entries) == 4 * EpsCpca9(nn) + (entries + 1) * (One \div s2k) + CpcaFloor9
PropTruth(nn, sig, ncmp, bT, ev) == ev.k <= ncmp => (ev.dist <= bT[ev.k] /\ ev.tvErr <= EvTolC9(nn, sig[ev.k], Len(sig)))
RECURSIVE SumTo(_, _)
SumTo(b, k) == IF k = 0 THEN 0 ELSE SatAdd(SumTo(b, k - 1), b[k])
(* the cumulative block variance is the share of block b's sum of squares inside the span of the first k scores; a score off by delta moves it *)
(* by at most 2 delta, over k components by at most 2 * (delta_1 + .. + delta_k)                                                              *)
BlockTruthTol(bT, k) == SatAdd(4 * Min2(SumTo(bT, k), 200000000), BlockTol)
PropTruthBlocks(nb, nzb, bv, ncmp, bT, ev) ==
  ev.k <= ncmp => /\ Len(ev.blockTruth) = nb
                  /\ \A b \in 1..nb : nzb[b] = 1 => Abs(bv[b] - ev.blockTruth[b]) <= BlockTruthTol(bT, ev.k)
PropReproj(ncmp, bT, ev) == ev.k <= ncmp => ev.reproj <= bT[ev.k]
ImplCpca(ncmp, bT, ev) == /\ ev.wnorm <= TolAlg                                          \* the code keeps the super weights normalised
                          /\ (ev.k <= ncmp => ev.reprojB <= bT[ev.k])                    \* and the projection also reproduces the block scores
PropPcaRef(nn, ncmp, bTc, bTp, curTotal, ev) ==
  ev.k <= ncmp => /\ ev.dist <= SatAdd(bTc[ev.k], bTp[ev.k])
                  /\ Abs(ev.varexp - curTotal) <= TolEig(nn, ev.varexp)
(* CPCAScorePredictor leaves n x npc super scores and one n x blocks layer of block scores per component, whatever the output held before *)
PropProj(nn, npc, nb, ev) == ev.rows = nn /\ ev.cols = npc
ImplProj(nn, npc, nb, ev) == ev.order = npc /\ ev.brows = nn /\ ev.bcols = nb
(* asking for fewer components returns the leading ones; asking for more than the model holds returns what it holds (that clamp is the code's choice) *)
PropProj2(nn, npc, ncmp, bT, ev) == /\ ev.req >= 1 /\ ev.rows = nn
                                    /\ (ev.req <= npc => ev.cols = ev.req /\ Len(ev.err) = ev.req)
                                    /\ \A i \in 1..Min2(Len(ev.err), ncmp) : ev.err[i] <= bT[i]
ImplProj2(npc, ev) == ev.req > npc => ev.cols = npc /\ Len(ev.err) = npc

(* magnitude equivariance (scaling 0): CPCA(c X) against CPCA(X) for c a power of two.  Both runs are within the criterion-implied bound *)
(* of the same truth (super scores), explained variances do not depend on the unit of the data                                        *)
PropScale(nn, sig, ncmp, bT, ev) ==
  /\ Len(ev.terr) = Len(ev.verr) /\ Len(ev.berr) = Len(ev.terr)
  /\ \A i \in 1..Min2(ncmp, Len(ev.terr)) : /\ ev.terr[i] <= 2 * bT[i]
                                            /\ ev.verr[i] <= 2 * EvTolC9(nn, sig[i], Len(sig))
                                            /\ ev.berr[i] <= SatAdd(4 * Min2(bT[i], 200000000), BlockTol)
(* history independence: the same data fitted again in the same process after other fits; both fits are within the bound of the same truth *)
PropAgain(nn, sig, ncmp, bT, ev) ==
  /\ Len(ev.terr) = Len(ev.verr)
  /\ \A i \in 1..Min2(ncmp, Len(ev.terr)) : ev.terr[i] <= 2 * bT[i] /\ ev.verr[i] <= 2 * EvTolC9(nn, sig[i], Len(sig))
ImplAgain(ev) == ev.bit = 1

(* ------------------------------------------------------------------------------------------ the threaded kernel (K6) *)
(* MT_MatrixDVectorDotProduct cuts a result of length len for np workers: step = ceil(len/np); worker 1 gets [0, step), every following *)
(* worker starts where the previous one ended and ends step further, clipped at len (matrix.c).  CPCA hands it the lengths width_b        *)
(* (block loadings), n (block scores, super score) and blocks (super weights).                                                           *)
CeilDivC(a, b) == (a + b - 1) \div b
RECURSIVE SliceRec(_, _, _, _, _)
SliceRec(w, from, to, step, len) == IF w = 0 THEN <<>>
                                    ELSE <<<<from, to>>>> \o SliceRec(w - 1, to, IF to + step > len THEN len ELSE to + step, step, len)
KernelSlices(len, np) == LET step == CeilDivC(len, np) IN SliceRec(np, 0, step, step, len)
(* every index 0..len-1 belongs to exactly one worker *)
SliceCover(sl, len) == /\ \A w \in 1..Len(sl) : 0 <= sl[w][1] /\ sl[w][1] <= sl[w][2] /\ sl[w][2] <= len
                       /\ sl[1][1] = 0 /\ sl[Len(sl)][2] = len
                       /\ \A w \in 1..(Len(sl) - 1) : sl[w + 1][1] = sl[w][2]
EmptySlices(len, np) == len < np
RaggedTail(len, np) == \E w \in 1..np : LET s == KernelSlices(len, np)[w] IN s[2] - s[1] > 0 /\ s[2] - s[1] < CeilDivC(len, np)
IdleTail(len, np) == len >= np /\ KernelSlices(len, np)[np][1] = KernelSlices(len, np)[np][2]
ImplMt(nproc, ev) == ev.nproc = nproc /\ (nproc > 1 => ev.calls > 0) /\ (nproc = 1 => ev.calls = 0)
ImplSlices(nproc, ev) == /\ ev.np = nproc /\ Len(ev.fr) = nproc /\ Len(ev.to) = nproc /\ ev.len >= 1
                         /\ [w \in 1..nproc |-> <<ev.fr[w], ev.to[w]>>] = KernelSlices(ev.len, nproc)
PropSlices(ev) == Len(ev.fr) = Len(ev.to) /\ Len(ev.fr) >= 1 /\ SliceCover([w \in 1..Len(ev.fr) |-> <<ev.fr[w], ev.to[w]>>], ev.len)
ImplIters(npc, ev) == Len(ev.its) = npc /\ \A i \in 1..npc : ev.its[i] >= 1

(* ------------------------------------------------------------------------------------------ Model (M) *)
VARIABLES cn, nb, cnpc, ck, prevBlock, share, lastTotal, sumTotal, curTotal, cphase,   \* ledger state
          nz,                                                                          \* block b has a positive sum of squares
          left, cok                                                                    \* model only
cvars == <<cn, nb, cnpc, ck, prevBlock, share, lastTotal, sumTotal, curTotal, cphase, nz, left, cok>>
RECURSIVE SumSeq(_, _)
SumSeq(s, b) == IF b = 0 THEN 0 ELSE SumSeq(s, b - 1) + s[b]
BudTotal == SumSeq(Bud, NBlocks)
UnitB(b) == IF Bud[b] = 0 THEN 0 ELSE One \div Bud[b]                 \* one quantum of block b as a fraction of the block's own sum of squares
UnitW == One \div Quanta                                               \* ... of a sum of squares derived from the width (fault trace_by_width)
UnitT == One \div BudTotal                                             \* ... of the total (every variable of the block-scaled concatenation has weight 1/width)
TrueShare == [b \in 1..NBlocks |-> Bud[b] * UnitT]
NzOf == [b \in 1..NBlocks |-> IF Bud[b] > 0 THEN 1 ELSE 0]
ModelSig == <<One, One \div 2, One \div 8, One \div 64>>              \* a separated spectrum so that PropTruth judges every model component

CInit == /\ cn = 5 /\ nb = NBlocks /\ cnpc = 0 /\ ck = 0 /\ prevBlock = [b \in 1..NBlocks |-> 0] /\ share = TrueShare
         /\ lastTotal = One /\ sumTotal = 0 /\ curTotal = 0 /\ cphase = "Idle" /\ nz = NzOf /\ left = Bud /\ cok = TRUE

CMFit == /\ cphase = "Idle" /\ \E np \in 1..MaxPc : cnpc' = np
         /\ ck' = 0 /\ prevBlock' = [b \in 1..NBlocks |-> 0] /\ lastTotal' = One /\ sumTotal' = 0 /\ curTotal' = 0
         /\ left' = Bud /\ cphase' = "Fit" /\ UNCHANGED <<cn, nb, share, nz, cok>>

CMExtract ==
  /\ cphase = "Fit" /\ ck < cnpc
  /\ \E r \in [1..NBlocks -> 0..Quanta] :
       /\ \A b \in 1..NBlocks : r[b] <= left[b]
       /\ \E b \in 1..NBlocks : r[b] > 0
       /\ LET removed == [b \in 1..NBlocks |-> Bud[b] - left[b] + r[b]]
              cum     == [b \in 1..NBlocks |-> removed[b] * UnitB(b)]
              inc     == [b \in 1..NBlocks |-> r[b] * UnitB(b)]
              total   == SumSeq(r, NBlocks) * UnitT
              cumW    == [b \in 1..NBlocks |-> removed[b] * UnitW]                       \* fault: block trace taken as (n-1)*width
              totalW  == SumSeq(r, NBlocks) * (One \div (NBlocks * Quanta))              \* fault: total sum of squares derived from it
              bv      == IF CFault = "not_cumulative" THEN inc
                         ELSE IF CFault = "over_100" THEN [b \in 1..NBlocks |-> cum[b] + One \div 2]
                         ELSE IF CFault = "trace_by_width" THEN cumW ELSE cum
              tv      == IF CFault = "total_unrelated" THEN total \div 2 ELSE IF CFault = "trace_by_width" THEN totalW ELSE total
              ev      == [k |-> ck + 1, totalVar |-> tv, blockVar |-> bv, blockRef |-> cum, superErr |-> 0, wnorm |-> 0, reproj |-> 0, reprojB |-> 0]
              tvErr   == IF total = 0 THEN One ELSE MulDiv(Abs(tv - total), One, total)
              tr      == [k |-> ck + 1, dist |-> 0, tvErr |-> tvErr, blockTruth |-> cum]
              bT      == [i \in 1..4 |-> CpcaFloor9]
          IN /\ total <= lastTotal                       \* an ideal CPCA extracts components in order of total variance
             /\ cok' = (cok /\ PropCpca(NBlocks, prevBlock, nz, share, lastTotal, sumTotal, ev) /\ PropTruth(cn, ModelSig, 4, bT, tr)
                                 /\ PropTruthBlocks(NBlocks, nz, bv, 4, bT, tr))
             /\ prevBlock' = bv /\ lastTotal' = tv /\ sumTotal' = sumTotal + tv /\ curTotal' = tv
       /\ left' = [b \in 1..NBlocks |-> left[b] - r[b]]
  /\ ck' = ck + 1 /\ UNCHANGED <<cn, nb, cnpc, share, cphase, nz>>

CMDone == /\ cphase = "Fit" /\ ck = cnpc /\ cphase' = "Idle"
          /\ UNCHANGED <<cn, nb, cnpc, ck, prevBlock, share, lastTotal, sumTotal, curTotal, nz, left, cok>>
CNext == CMFit \/ CMExtract \/ CMDone
CSpec == CInit /\ [][CNext]_cvars

CLedgerAccepts == cok
BlockWithin == cok => \A b \in 1..NBlocks : prevBlock[b] >= 0 /\ prevBlock[b] <= One
TotalWithin == cok => sumTotal <= One + 3
TotalIsWeightedBlocks == cok => Abs(sumTotal - WSum(share, prevBlock, NBlocks)) <= ShareTol(ck)
ZeroBlockStaysZero == cok => \A b \in 1..NBlocks : nz[b] = 0 => prevBlock[b] = 0
(* everything extracted <=> every live block fully explained <=> the totals sum to 100 % *)
ExhaustedIsAll == (cok /\ CFault = "none" /\ \A b \in 1..NBlocks : left[b] = 0 /\ ck > 0)
                    => /\ Abs(sumTotal - One) <= NBlocks * Quanta + 3
                       /\ \A b \in 1..NBlocks : nz[b] = 1 => Abs(prevBlock[b] - One) <= Quanta
(* the slicing of the threaded kernel for every length CPCA hands it within the quantifier and every processor count the check forces *)
SlicesSound == \A len \in 1..30 : \A np \in {2, 3, 5, 16, 24} :
                 /\ Len(KernelSlices(len, np)) = np /\ SliceCover(KernelSlices(len, np), len)
                 /\ (EmptySlices(len, np) => KernelSlices(len, np)[np] = <<len, len>>)
====
