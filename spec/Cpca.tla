---- MODULE Cpca ----
(* C09.  Ledger specification of CPCA() / CPCAScorePredictor() (src/cpca.c).                                         *)
(* Relates two recorded models and an oracle: the CPCA model, the eigen-decomposition of the block-scaled             *)
(* concatenation computed by the harness (truth), and the library's own PCA on that concatenation.                    *)
(* The ledger carries across components: cumulative block variances (non-decreasing, within [0,100], equal to the     *)
(* residual share recomputed from super scores and block loadings), the running total explained variance and its      *)
(* identity with the share-weighted block variances, total variances non-increasing and summing to at most 100.       *)
(* Units as in LedgerArith (1e-9 fractions, 1e-12 algebraic residuals).                                                *)
(* Section Model: (M) an ideal CPCA over small integer block budgets; the ledger must accept every ideal run and      *)
(* reject the injected faults.                                                                                         *)
EXTENDS LedgerArith, FiniteSets, TLC

CONSTANTS NBlocks,      \* model: number of blocks
          Quanta,       \* model: variance quanta per block (divides 10^9)
          MaxPc,        \* model: components
          CFault        \* model: "none" | "not_cumulative" | "over_100" | "total_unrelated"

KKc == 30                 \* same constant as C02
CpcaFloor9 == 100         \* 1e-7: below this a comparison against an independent double-precision oracle is not meaningful
BlockTol == 10            \* 1e-8: library's block variance vs the one recomputed from the model
MaxCmpC == 6
MinSC == 1000

(* ------------------------------------------------------------------------------------------ Ledger predicates *)
RECURSIVE WSum(_, _, _)
WSum(share, bv, b) == IF b = 0 THEN 0 ELSE WSum(share, bv, b - 1) + MulDiv(share[b], Max2(0, Min2(bv[b], One)), One)
ShareTol(k) == 30 + 10 * k

PropFitC(ev) == /\ ev.blocks \in 2..4 /\ Len(ev.widths) = ev.blocks /\ ev.n \in 5..30 /\ ev.scaling \in 0..5
                /\ \A b \in 1..ev.blocks : ev.widths[b] \in 1..8 /\ ev.npc <= ev.widths[b]
                /\ ev.npc >= 1
PropBlockVar(nb, prev, ev) ==
  /\ Len(ev.blockVar) = nb /\ Len(ev.blockRef) = nb
  /\ \A b \in 1..nb : /\ ev.blockVar[b] >= -3 /\ ev.blockVar[b] <= One + 3               \* within [0, 100]
                      /\ ev.blockVar[b] >= prev[b] - 3                                    \* non-decreasing
                      /\ Abs(ev.blockVar[b] - ev.blockRef[b]) <= BlockTol                 \* cumulative: 1 - |E_b^(k)|^2 / |E_b|^2
PropSuper(ev) == ev.superErr <= TolAlg                                                   \* super score = block scores x super weights
PropTotal(lastTotal, sumTotal, ev) == /\ ev.totalVar >= 0
                                      /\ ev.totalVar <= lastTotal + 3
                                      /\ sumTotal + ev.totalVar <= One + 3
PropShare(nb, share, sumTotal, ev) == Abs((sumTotal + ev.totalVar) - WSum(share, ev.blockVar, nb)) <= ShareTol(ev.k)
PropCpca(nb, prev, share, lastTotal, sumTotal, ev) ==
  PropBlockVar(nb, prev, ev) /\ PropSuper(ev) /\ PropTotal(lastTotal, sumTotal, ev) /\ PropShare(nb, share, sumTotal, ev)
ImplCpca(ev) == ev.wnorm <= TolAlg                                                       \* the code keeps the super weights normalised

EvTolC9(nn, s2k, entries) == 4 * EpsCpca9(nn) + (entries + 1) * (One \div s2k) + CpcaFloor9
PropTruth(nn, sig, ncmp, bT, ev) == ev.k <= ncmp => (ev.dist <= bT[ev.k] /\ ev.tvErr <= EvTolC9(nn, sig[ev.k], Len(sig)))
PropReproj(ncmp, bT, ev) == ev.k <= ncmp => ev.reproj <= bT[ev.k]
PropPcaRef(nn, ncmp, bTc, bTp, curTotal, ev) ==
  ev.k <= ncmp => /\ ev.dist <= SatAdd(bTc[ev.k], bTp[ev.k])
                  /\ Abs(ev.varexp - curTotal) <= TolEig(nn, ev.varexp)

(* magnitude equivariance (scaling 0): CPCA(c X) against CPCA(X) for c a power of two.  Both runs are within the criterion-implied bound *)
(* of the same truth (super scores), explained variances do not depend on the unit of the data                                        *)
PropScale(nn, sig, ncmp, bT, ev) ==
  /\ Len(ev.terr) = Len(ev.verr) /\ Len(ev.berr) = Len(ev.terr)
  /\ \A i \in 1..Min2(ncmp, Len(ev.terr)) : /\ ev.terr[i] <= 2 * bT[i]
                                            /\ ev.verr[i] <= 2 * EvTolC9(nn, sig[i], Len(sig))
                                            /\ ev.berr[i] <= SatAdd(4 * Min2(bT[i], 200000000), BlockTol)

(* ------------------------------------------------------------------------------------------ Model (M) *)
VARIABLES cn, nb, cnpc, ck, prevBlock, share, lastTotal, sumTotal, curTotal, cphase,   \* ledger state
          left, cok                                                                    \* model only
cvars == <<cn, nb, cnpc, ck, prevBlock, share, lastTotal, sumTotal, curTotal, cphase, left, cok>>
UnitQ == One \div Quanta
EqualShare == [b \in 1..NBlocks |-> One \div NBlocks]

CInit == /\ cn = 5 /\ nb = NBlocks /\ cnpc = 0 /\ ck = 0 /\ prevBlock = [b \in 1..NBlocks |-> 0] /\ share = EqualShare
         /\ lastTotal = One /\ sumTotal = 0 /\ curTotal = 0 /\ cphase = "Idle" /\ left = [b \in 1..NBlocks |-> Quanta] /\ cok = TRUE

CMFit == /\ cphase = "Idle" /\ \E np \in 1..MaxPc : cnpc' = np
         /\ ck' = 0 /\ prevBlock' = [b \in 1..NBlocks |-> 0] /\ lastTotal' = One /\ sumTotal' = 0 /\ curTotal' = 0
         /\ left' = [b \in 1..NBlocks |-> Quanta] /\ cphase' = "Fit" /\ UNCHANGED <<cn, nb, share, cok>>

CMExtract ==
  /\ cphase = "Fit" /\ ck < cnpc
  /\ \E r \in [1..NBlocks -> 0..Quanta] :
       /\ \A b \in 1..NBlocks : r[b] <= left[b]
       /\ \E b \in 1..NBlocks : r[b] > 0
       /\ LET removed == [b \in 1..NBlocks |-> Quanta - left[b] + r[b]]
              cum     == [b \in 1..NBlocks |-> removed[b] * UnitQ]
              inc     == [b \in 1..NBlocks |-> r[b] * UnitQ]
              total   == WSum(share, inc, NBlocks)
              bv      == IF CFault = "not_cumulative" THEN inc
                         ELSE IF CFault = "over_100" THEN [b \in 1..NBlocks |-> cum[b] + One \div 2] ELSE cum
              tv      == IF CFault = "total_unrelated" THEN total \div 2 ELSE total
              ev      == [k |-> ck + 1, totalVar |-> tv, blockVar |-> bv, blockRef |-> cum, superErr |-> 0, wnorm |-> 0, reproj |-> 0]
          IN /\ total <= lastTotal                       \* an ideal CPCA extracts components in order of total variance
             /\ cok' = (cok /\ PropCpca(NBlocks, prevBlock, share, lastTotal, sumTotal, ev))
             /\ prevBlock' = bv /\ lastTotal' = tv /\ sumTotal' = sumTotal + tv /\ curTotal' = tv
       /\ left' = [b \in 1..NBlocks |-> left[b] - r[b]]
  /\ ck' = ck + 1 /\ UNCHANGED <<cn, nb, cnpc, share, cphase>>

CMDone == /\ cphase = "Fit" /\ ck = cnpc /\ cphase' = "Idle"
          /\ UNCHANGED <<cn, nb, cnpc, ck, prevBlock, share, lastTotal, sumTotal, curTotal, left, cok>>
CNext == CMFit \/ CMExtract \/ CMDone
CSpec == CInit /\ [][CNext]_cvars

CLedgerAccepts == cok
BlockWithin == cok => \A b \in 1..NBlocks : prevBlock[b] >= 0 /\ prevBlock[b] <= One
TotalWithin == cok => sumTotal <= One + 3
TotalIsWeightedBlocks == cok => Abs(sumTotal - WSum(share, prevBlock, NBlocks)) <= ShareTol(ck)
====
