SPECIFICATION Spec
CONSTANTS
  Families = {"all1", "all2", "bin3", "perm3", "perm4", "tri3", "tri4", "ptri3", "ptri4"}
  Pivoting = TRUE
  Mod = 1
  Res = 0
INVARIANT Theorems
INVARIANT ElimDefined
INVARIANT SolveDefined
CHECK_DEADLOCK FALSE
