SPECIFICATION Spec
CONSTANTS
  Families = {"all1", "all2", "bin3", "perm3", "perm4", "tri3", "tri4", "ptri3", "ptri4", "diag3", "diag4", "spd3", "spd4", "trid3", "sym3", "perm5"}
  Pivoting = TRUE
  Mod = 1
  Res = 0
INVARIANT Theorems
INVARIANT ElimDefined
INVARIANT SolveDefined
CHECK_DEADLOCK FALSE
