SPECIFICATION GenSpec
CONSTANTS
  Paths = {"p1", "p2"}
  MaxHist = 3
  DropTables = TRUE
  SaveAll = TRUE
  ReadBlock = 0
  SizeSet = {1, 2, 3}
  Rewrites = FALSE
  Shape = "all"
  Reuse = "off"
CONSTRAINT GenBfs
CHECK_DEADLOCK FALSE
