SPECIFICATION Spec
CONSTANTS
  Paths = {"p1", "p2"}
  MaxHist = 3
  DropTables = TRUE
  SaveAll = TRUE
CONSTRAINT GenBfs
CHECK_DEADLOCK FALSE
