SPECIFICATION Spec
CONSTANTS
  MaxN = 7
  MaxK = 3
  NPat = 3
  LabelMap = "plus_start"
INVARIANT InQuantifier
INVARIANT RowLabelBijection
INVARIANT PredictionIsALabel
INVARIANT TableIndexInRange
INVARIANT PriorsSumToOne
INVARIANT MeansGiveGrandMean
\* GEN: Emit prints one replay case per distinct state (as an invariant it is evaluated exactly once per state)
INVARIANT Emit
