---- MODULE TraceStats ----
(* C15, validate direction.  The harness runs ROC / curve_area / PrecisionRecall and R2/MSE/MAE/RMSE/BIAS of   *)
(* the real library on long random inputs (tie-free scores of arbitrary distribution, strictly increasing     *)
(* maps, object permutations, negation, missing-coded truths) and logs the inputs' rank order and what came  *)
(* back, as integers over the known denominators plus the distance from that fraction in units of 1e-12.      *)
(* TLC recomputes every curve, area and sum exactly with the operators of Stats.tla and relates the events of *)
(* one block: same AUC and curve under a monotone map and under reordering, 1 - AUC under negation.           *)
(* Everything here is what the property states; there is no implementation-shaped layer to drift.            *)
EXTENDS Stats, TraceBase
CONSTANTS Tol,          \* largest accepted distance of a logged double from its exact fraction, units of 1e-12
          PairsMaxN     \* the all-pairs Mann-Whitney count is evaluated for events up to this length (quadratic)
VARIABLES l, base, cur, reg
tvars == <<fam, n, y, z, ny, nlv, st, l, base, cur, reg>>
Ev == Tr[l]
Step == l' = l + 1 /\ UNCHANGED <<fam, n, y, z, ny, nlv, st>>
None == [set |-> FALSE]

TInit == /\ l = 1 /\ base = None /\ cur = None /\ reg = None
         /\ fam = "Roc" /\ n = 0 /\ y = <<>> /\ z = <<>> /\ ny = 1 /\ nlv = 1 /\ st = 1
TReset == l <= Len(Tr) /\ Ev.e = "Reset" /\ Step /\ base' = None /\ cur' = None /\ reg' = None

IsPerm(o, nn) == Len(o) = nn /\ {o[i] : i \in 1..nn} = 1..nn
TRoc == /\ l <= Len(Tr) /\ Ev.e = "Roc" /\ Step /\ UNCHANGED reg
        /\ Len(Ev.y) = Ev.n /\ IsPerm(Ev.ord, Ev.n) /\ \A i \in 1..Ev.n : Ev.y[i] \in {0, 1, 2}
        /\ Ev.p = P(Ev.y) /\ Ev.nn = N(Ev.y) /\ Ev.p > 0 /\ Ev.nn > 0
        /\ Ev.pts = Roc(Ev.y, Ev.ord) /\ Ev.res <= Tol                     \* the step sequence of the definition, point by point
        /\ MonotoneCurve(Ev.pts, Ev.y)                                     \* rises monotonically from (0,0) to (1,1)
        /\ Ev.auc2 = Area2(Ev.pts) /\ Ev.aucres <= Tol                     \* AUC = trapezoid area
        /\ (Ev.n <= PairsMaxN => Ev.auc2 = 2 * Wins(Ev.y, Ev.ord))         \* = Mann-Whitney probability
        /\ cur' = [set |-> TRUE, y |-> Ev.y, ord |-> Ev.ord, pts |-> Ev.pts, p |-> Ev.p, nn |-> Ev.nn]
        /\ CASE Ev.kind = "base" -> base' = [set |-> TRUE, auc2 |-> Ev.auc2, pts |-> Ev.pts, d |-> 2 * Ev.p * Ev.nn]
             [] Ev.kind \in {"mono", "perm"} -> /\ base.set /\ UNCHANGED base
                                               /\ Ev.auc2 = base.auc2 /\ 2 * Ev.p * Ev.nn = base.d /\ Ev.pts = base.pts
             [] Ev.kind = "neg" -> /\ base.set /\ UNCHANGED base
                                   /\ 2 * Ev.p * Ev.nn = base.d /\ Ev.auc2 = base.d - base.auc2
TArea == /\ l <= Len(Tr) /\ Ev.e = "Area" /\ Step /\ UNCHANGED <<base, cur, reg>>
         /\ cur.set /\ Ev.ca2 = Area2(cur.pts) /\ Ev.cares <= Tol
TPr == /\ l <= Len(Tr) /\ Ev.e = "Pr" /\ Step /\ UNCHANGED <<base, cur, reg>>
       /\ cur.set /\ Ev.pr = Pr(cur.y, cur.ord) /\ Ev.prres <= Tol
       /\ RecallCurve(Ev.pr, cur.y)                                        \* recall non-decreasing, ends at 1
       /\ Ev.ap9 >= 0 /\ Ev.ap9 <= 1000000000                              \* area in [0, 1]

TRegIn == /\ l <= Len(Tr) /\ Ev.e = "RegIn" /\ Step /\ UNCHANGED <<base, cur>>
          /\ Len(Ev.yt) = Ev.n /\ Len(Ev.yp) = Ev.n /\ Ev.m = Cnt(Ev.yt) /\ Ev.m >= 1
          /\ reg' = [set |-> TRUE, yt |-> Ev.yt, yp |-> Ev.yp, m |-> Ev.m]
Keep == UNCHANGED <<base, cur, reg>>
Within(q, nd) == /\ nd[2] > 0                                             \* |q/1e4 - n/d| <= 1e-4
                 /\ Abs(q) <= (Abs(nd[1]) * 10000) \div nd[2] + 2            \* first: keeps q*d inside 32 bits for a saturated (inf/NaN) q
                 /\ Abs(q * nd[2] - nd[1] * 10000) <= nd[2]
TMse == l <= Len(Tr) /\ Ev.e = "Mse" /\ Step /\ Keep /\ reg.set /\ Ev.ssen = SSE(reg.yt, reg.yp) /\ Ev.res <= Tol
TMae == /\ l <= Len(Tr) /\ Ev.e = "Mae" /\ Step /\ Keep /\ reg.set /\ Ev.saen = SAE(reg.yt, reg.yp) /\ Ev.res <= Tol
        /\ Ev.saen * Ev.saen <= reg.m * SSE(reg.yt, reg.yp)                 \* MAE <= RMSE
TRmse == l <= Len(Tr) /\ Ev.e = "Rmse" /\ Step /\ Keep /\ reg.set /\ Ev.res <= Tol           \* RMSE^2 = MSE
TR2 == /\ l <= Len(Tr) /\ Ev.e = "R2" /\ Step /\ Keep /\ reg.set
       /\ Within(Ev.q, R2q(reg.yt, reg.yp)) /\ Ev.q <= 10000                                 \* the formula; R2 <= 1
       /\ ((\A i \in Present(reg.yt) : reg.yp[i] = reg.yt[i]) => Ev.q = 10000)               \* perfect prediction
TBias == l <= Len(Tr) /\ Ev.e = "Bias" /\ Step /\ Keep /\ reg.set /\ Within(Ev.q, BIASq(reg.yt, reg.yp))

TNext == TReset \/ TRoc \/ TArea \/ TPr \/ TRegIn \/ TMse \/ TMae \/ TRmse \/ TR2 \/ TBias
TSpec == TInit /\ [][TNext]_tvars
TraceAccepted == Accepted
Diag == ShowCursor(l)
====
