---- MODULE TraceStats ----
(* C15, validate direction.  The harness runs ROC / curve_area / PrecisionRecall and R2/MSE/MAE/RMSE/BIAS of   *)
(* the real library on long random inputs (tie-free scores of arbitrary distribution, strictly increasing     *)
(* maps, object permutations, negation, missing-coded truths) and logs the inputs' rank order and what came  *)
(* back, as integers over the known denominators plus the distance from that fraction in units of 1e-12.      *)
(* TLC recomputes every curve, area and sum exactly with the operators of Stats.tla and relates the events of *)
(* one block: same AUC and curve under a monotone map and under reordering, 1 - AUC under negation.           *)
(* Round 3 (input classes K1..K9): R2 / BIAS are logged as integer numerators over D = m Syy - Sy^2 with the   *)
(* residual in 1e-12 units and judged with Stats!FineTol (a function of the logged offset, length and D); the *)
(* table builders PLSRegressionStatistics / MLRRegressionStatistics / PLSDiscriminantAnalysisStatistics are   *)
(* recorded with their output history (TabIn/TabOut, DaIn/DaOut): entry (lv, j) must be the scalar figure of  *)
(* response j against prediction column L!Col(lv, j), and an "assign" routine must leave exactly nlv x ny     *)
(* entries whatever the output held on entry (StatsOut!CountAfter).  The only implementation-shaped layer    *)
(* (Impl = TRUE; SPEC-DRIFT when it alone rejects) is what the "append" routines do with a used output.       *)
EXTENDS Stats, TraceBase
CONSTANTS Tol,          \* largest accepted distance of a logged double from its exact fraction, units of 1e-12
          PairsMaxN,    \* the all-pairs Mann-Whitney count is evaluated for events up to this length (quadratic)
          Impl          \* TRUE: also check the implementation-shaped expectations (append into used curve / DA outputs)
VARIABLES l, base, cur, reg, tab
tvars == <<fam, n, y, z, ny, nlv, st, l, base, cur, reg, tab>>
Ev == Tr[l]
Step == l' = l + 1 /\ UNCHANGED <<fam, n, y, z, ny, nlv, st>>
None == [set |-> FALSE]

TInit == /\ l = 1 /\ base = None /\ cur = None /\ reg = None /\ tab = None
         /\ fam = "Roc" /\ n = 0 /\ y = <<>> /\ z = <<>> /\ ny = 1 /\ nlv = 1 /\ st = 1
TReset == l <= Len(Tr) /\ Ev.e = "Reset" /\ Step /\ base' = None /\ cur' = None /\ reg' = None /\ tab' = None

IsPerm(o, nn) == Len(o) = nn /\ {o[i] : i \in 1..nn} = 1..nn
TRoc == /\ l <= Len(Tr) /\ Ev.e = "Roc" /\ Step /\ UNCHANGED <<reg, tab>>
        /\ Len(Ev.y) = Ev.n /\ IsPerm(Ev.ord, Ev.n) /\ \A i \in 1..Ev.n : Ev.y[i] \in {0, 1, 2}
        /\ Ev.p = P(Ev.y) /\ Ev.nn = N(Ev.y) /\ Ev.p > 0 /\ Ev.nn > 0
        /\ Ev.pts = Roc(Ev.y, Ev.ord) /\ Ev.res <= Tol                     \* the step sequence of the definition, point by point
        /\ MonotoneCurve(Ev.pts, Ev.y)                                     \* rises monotonically from (0,0) to (1,1)
        /\ Ev.auc2 = Area2(Ev.pts) /\ Ev.aucres <= Tol                     \* AUC = trapezoid area
        /\ (Ev.n <= PairsMaxN => Ev.auc2 = 2 * Wins(Ev.y, Ev.ord))         \* = Mann-Whitney probability
        /\ cur' = [set |-> TRUE, y |-> Ev.y, ord |-> Ev.ord, pts |-> Ev.pts, p |-> Ev.p, nn |-> Ev.nn]
        /\ CASE Ev.kind = "base" -> base' = [set |-> TRUE, auc2 |-> Ev.auc2, pts |-> Ev.pts, d |-> 2 * Ev.p * Ev.nn]
             [] Ev.kind \in {"mono", "perm"} -> /\ base.set /\ UNCHANGED base
                                               /\ Ev.auc2 = base.auc2 /\ 2 * Ev.p * Ev.nn = base.d /\ Ev.pts = base.pts
             [] Ev.kind = "neg" -> /\ base.set /\ UNCHANGED base
                                   /\ 2 * Ev.p * Ev.nn = base.d /\ Ev.auc2 = base.d - base.auc2
TArea == /\ l <= Len(Tr) /\ Ev.e = "Area" /\ Step /\ UNCHANGED <<base, cur, reg, tab>>
         /\ cur.set /\ Ev.ca2 = Area2(cur.pts) /\ Ev.cares <= Tol
TPr == /\ l <= Len(Tr) /\ Ev.e = "Pr" /\ Step /\ UNCHANGED <<base, cur, reg, tab>>
       /\ cur.set /\ Ev.pr = Pr(cur.y, cur.ord) /\ Ev.prres <= Tol
       /\ RecallCurve(Ev.pr, cur.y)                                        \* recall non-decreasing, ends at 1
       /\ Ev.ap9 >= 0 /\ Ev.ap9 <= 1000000000                              \* area in [0, 1]

TRegIn == /\ l <= Len(Tr) /\ Ev.e = "RegIn" /\ Step /\ UNCHANGED <<base, cur, tab>>
          /\ Len(Ev.yt) = Ev.n /\ Len(Ev.yp) = Ev.n /\ Ev.m = Cnt(Ev.yt) /\ Ev.m >= 1
          /\ (Ev.dx # 0 => Ev.off = 0)                                    \* a decimal unit system is not exactly representable: only without offset
          /\ 5 * (Ev.n - Ev.m) <= Ev.n                                    \* the quantifier: at most 20 % missing-coded truths
          /\ reg' = [set |-> TRUE, yt |-> Ev.yt, yp |-> Ev.yp, m |-> Ev.m, off |-> Ev.off]
Keep == UNCHANGED <<base, cur, reg, tab>>
\* the 1e-4 comparison of round 1, kept for every input it could express (|numerator| <= 2e5 keeps the products inside 32 bits; all inputs of the
\* round-1/2 generators satisfy it); longer vectors are judged by the exact numerator + 1e-12 residual below
Within(q, nd) == /\ nd[2] > 0                                             \* |q/1e4 - n/d| <= 1e-4
                 /\ \/ Abs(nd[1]) > 200000
                    \/ /\ Abs(q) <= (Abs(nd[1]) * 10000) \div nd[2] + 2      \* first: keeps q*d inside 32 bits for a saturated (inf/NaN) q
                       /\ Abs(q * nd[2] - nd[1] * 10000) <= nd[2]
Fine(ev, nd) == /\ ev.d = nd[2] /\ ev.num = nd[1]                        \* result = numerator / D exactly as the definition gives it ...
                /\ ev.res <= FineTol(Tol, reg.off, reg.m, nd[2], nd[1])    \* ... within the tolerance the spec derives from offset, length and D
TMse == l <= Len(Tr) /\ Ev.e = "Mse" /\ Step /\ Keep /\ reg.set /\ Ev.ssen = SSE(reg.yt, reg.yp) /\ Ev.res <= Tol
TMae == /\ l <= Len(Tr) /\ Ev.e = "Mae" /\ Step /\ Keep /\ reg.set /\ Ev.saen = SAE(reg.yt, reg.yp) /\ Ev.res <= Tol
        /\ Ev.saen * Ev.saen <= reg.m * SSE(reg.yt, reg.yp)                 \* MAE <= RMSE
TRmse == l <= Len(Tr) /\ Ev.e = "Rmse" /\ Step /\ Keep /\ reg.set /\ Ev.res <= Tol           \* RMSE^2 = MSE
TR2 == /\ l <= Len(Tr) /\ Ev.e = "R2" /\ Step /\ Keep /\ reg.set
       /\ Within(Ev.q, R2q(reg.yt, reg.yp)) /\ Ev.q <= 10000                                 \* the formula; R2 <= 1
       /\ Fine(Ev, R2q(reg.yt, reg.yp)) /\ Ev.over <= FineTol(Tol, reg.off, reg.m, DD(reg.yt), DD(reg.yt))
       /\ ((\A i \in Present(reg.yt) : reg.yp[i] = reg.yt[i]) => Ev.q = 10000)               \* perfect prediction
TBias == l <= Len(Tr) /\ Ev.e = "Bias" /\ Step /\ Keep /\ reg.set /\ Within(Ev.q, BIASq(reg.yt, reg.yp)) /\ Fine(Ev, BIASq(reg.yt, reg.yp))

(* ---- ROC / PrecisionRecall into an output that already holds rows: the unchanged library appends (StatsOut!ContractOf = "append").   *)
(* The statement promises nothing about a used curve output, so this is the implementation-shaped layer only.                          *)
TAgain == /\ l <= Len(Tr) /\ Ev.e = "Again" /\ Step /\ Keep /\ cur.set /\ Ev.fn \in {"ROC", "PrecisionRecall"}
          /\ Impl => LET new == IF Ev.fn = "ROC" THEN Roc(cur.y, cur.ord) ELSE Pr(cur.y, cur.ord)
                         cnt == Len(new) + (IF Ev.fn = "ROC" THEN 0 ELSE 1)                       \* the PR curve starts with the conventional (0, 1)
                     IN /\ Ev.rows = CountAfter(Ev.fn, Ev.pre, cnt) /\ Ev.head = 1
                        /\ Ev.pts = new /\ Ev.res <= Tol

(* ---- regression tables: PLSRegressionStatistics / MLRRegressionStatistics ------------------------------------------------------- *)
Bit(mask, k) == (mask \div k) % 2 = 1                                    \* k = 1 (R2), 2 (RMSE), 4 (BIAS): the output was requested (non-NULL)
RoutineOf(f) == IF f = "PlsReg" THEN "PLSRegressionStatistics" ELSE IF f = "Mlr" THEN "MLRRegressionStatistics" ELSE "PLSDiscriminantAnalysisStatistics"
IsTable(m, rows, cols) == Len(m) = rows /\ \A i \in 1..rows : Len(m[i]) = cols
TTabIn == /\ l <= Len(Tr) /\ Ev.e = "TabIn" /\ l' = l + 1 /\ UNCHANGED <<fam, n, y, z, st, base, cur, reg>>
          /\ Ev.fam \in {"PlsReg", "Mlr"} /\ Ev.n >= 2 /\ Ev.ny >= 1 /\ Ev.nlv >= 1 /\ (Ev.fam = "Mlr" => Ev.nlv = 1)
          /\ IsTable(Ev.mt, Ev.n, Ev.ny) /\ IsTable(Ev.mp, Ev.n, Ev.ny * Ev.nlv) /\ Ev.mask \in 1..7
          /\ ny' = Ev.ny /\ nlv' = Ev.nlv
          /\ tab' = [set |-> TRUE, fam |-> Ev.fam, n |-> Ev.n, mt |-> Ev.mt, mp |-> Ev.mp, off |-> Ev.off, mask |-> Ev.mask, pre |-> Ev.pre]
TCol(j) == [i \in 1..tab.n |-> tab.mt[i][j]]                              \* response j \in 1..ny (MissCode = missing-coded truth)
PCol(c) == [i \in 1..tab.n |-> tab.mp[i][c + 1]]                          \* prediction column c \in 0..ny*nlv-1
TabEntry(e, t, p) ==
  LET all == RegAll(t, p)  m == Cnt(t)  d == DD(t) IN
  /\ e[1] = m /\ e[4] = d /\ 5 * (tab.n - m) <= tab.n                    \* (inside the quantifier: at most 20 % missing)
  /\ (Bit(tab.mask, 2) => e[2] = all[1][1] /\ e[3] <= Tol)                                          \* RMSE^2 = SSE / m
  /\ (Bit(tab.mask, 1) /\ d > 0 => e[5] = all[3][1] /\ e[6] <= FineTol(Tol, tab.off, m, d, all[3][1]))   \* R2
  /\ (Bit(tab.mask, 4) /\ d > 0 => e[7] = all[4][1] /\ e[8] <= FineTol(Tol, tab.off, m, d, all[4][1]))   \* BIAS
TTabOut == /\ l <= Len(Tr) /\ Ev.e = "TabOut" /\ Step /\ Keep /\ tab.set /\ tab.fam \in {"PlsReg", "Mlr"}
           \* an "assign" routine leaves exactly one entry per (latent variable, response), whatever the output held on entry
           /\ \A k \in 1..3 : Bit(tab.mask, IF k = 3 THEN 4 ELSE k) =>
                 /\ Ev.dims[k] = <<nlv, ny>>
                 /\ Ev.dims[k][1] * Ev.dims[k][2] = CountAfter(RoutineOf(tab.fam), tab.pre[k], nlv * ny)
           /\ Len(Ev.ent) = nlv * ny /\ L!LayoutBijective
           /\ \A lv \in 1..nlv, j \in 1..ny : TabEntry(Ev.ent[L!Col(lv, j - 1) + 1], TCol(j), PCol(L!Col(lv, j - 1)))

(* ---- classification tables: PLSDiscriminantAnalysisStatistics (no missing-coded truths: outside the quantifier) ------------------- *)
TDaIn == /\ l <= Len(Tr) /\ Ev.e = "DaIn" /\ l' = l + 1 /\ UNCHANGED <<fam, n, y, z, st, base, cur, reg>>
         /\ Ev.n >= 2 /\ Ev.ny >= 1 /\ Ev.nlv >= 1 /\ IsTable(Ev.mt, Ev.n, Ev.ny) /\ IsTable(Ev.ords, Ev.ny * Ev.nlv, Ev.n)
         /\ \A i \in 1..Ev.n, j \in 1..Ev.ny : Ev.mt[i][j] \in {0, 1}
         /\ \A c \in 1..(Ev.ny * Ev.nlv) : IsPerm(Ev.ords[c], Ev.n)
         /\ ny' = Ev.ny /\ nlv' = Ev.nlv
         /\ tab' = [set |-> TRUE, fam |-> "PlsDa", n |-> Ev.n, mt |-> Ev.mt, ords |-> Ev.ords, pre |-> Ev.pre]
Fresh4(pre) == \A k \in 1..4 : pre[k] = 0
Prefix(s, k) == SubSeq(s, 1, k)
DaCurves(ev) == /\ Len(ev.rocs) = nlv * ny /\ Len(ev.prs) = nlv * ny /\ ev.res <= Tol
                /\ \A lv \in 1..nlv, j \in 1..ny :
                     LET c == L!Col(lv, j - 1)  t == TCol(j)  o == tab.ords[c + 1] IN
                     /\ ev.rocs[c + 1] = Prefix(Roc(t, o), tab.n)                                 \* the slice keeps the first n of the n+1 points
                     /\ ev.prs[c + 1] = Prefix(Pr(t, o), tab.n - 1)
TDaOut == /\ l <= Len(Tr) /\ Ev.e = "DaOut" /\ Step /\ Keep /\ tab.set /\ tab.fam = "PlsDa"
          /\ LET r == "PLSDiscriminantAnalysisStatistics"
                 dimsOk == /\ Ev.dims[1] = CountAfter(r, tab.pre[1], nlv) /\ Ev.dims[2] = ny              \* AUC table: one row per latent variable
                           /\ Ev.dims[3] = CountAfter(r, tab.pre[2], nlv) /\ Ev.dims[4] = ny              \* PR-area table
                           /\ Ev.dims[5] = CountAfter(r, tab.pre[3], nlv) /\ Ev.dims[6] = CountAfter(r, tab.pre[4], nlv)   \* one curve slice per latent variable
                 entries == /\ Ev.ok = 1 /\ Len(Ev.ent) = nlv * ny
                            /\ \A lv \in 1..nlv, j \in 1..ny :
                                 LET c == L!Col(lv, j - 1)  t == TCol(j)  o == tab.ords[c + 1]  e == Ev.ent[c + 1] IN
                                 /\ P(t) > 0 /\ N(t) > 0
                                 /\ e[1] = Area2(Roc(t, o)) /\ e[2] <= Tol                                   \* AUC of score column ny*(lv-1)+j against response j
                                 /\ (tab.n <= PairsMaxN => e[1] = 2 * Wins(t, o))
                                 /\ e[3] >= 0 /\ e[3] <= 1000000000                                         \* PR area in [0, 1]
             IN IF Fresh4(tab.pre) THEN dimsOk /\ entries /\ DaCurves(Ev)     \* fresh outputs: what the statement says about the tables
                ELSE Impl => (dimsOk /\ entries)                              \* used outputs: the library appends rows / slices; recorded, not promised
(* the curve slices this call appended to a USED tensor.  By the "append" contract they hold the new curves; this is outside the       *)
(* statement, so a rejection of this event is reported as EXTRA-FINDING by the check (on the unchanged tree the routine writes the     *)
(* curves into the FIRST nlv slices of the tensor - overwriting those of the previous call - and leaves the appended slices zero).    *)
TDaSlices == /\ l <= Len(Tr) /\ Ev.e = "DaSlices" /\ Step /\ Keep /\ tab.set /\ tab.fam = "PlsDa" /\ ~Fresh4(tab.pre)
             /\ Ev.at = <<tab.pre[3], tab.pre[4]>> /\ DaCurves(Ev)

(* ---- curve_area on an arbitrary polyline (outside the statement: a rejection is reported as EXTRA-FINDING by the check) ----------- *)
TPoly == /\ l <= Len(Tr) /\ Ev.e = "Poly" /\ Step /\ Keep
         /\ IsTable(Ev.pts, Ev.n, 2) /\ Ev.a2 = Area2(Ev.pts) /\ Ev.res <= Tol

TNext == TReset \/ TRoc \/ TArea \/ TPr \/ TRegIn \/ TMse \/ TMae \/ TRmse \/ TR2 \/ TBias \/ TAgain \/ TTabIn \/ TTabOut \/ TDaIn \/ TDaOut \/ TDaSlices \/ TPoly
TSpec == TInit /\ [][TNext]_tvars
TraceAccepted == Accepted
Diag == ShowCursor(l)
====
