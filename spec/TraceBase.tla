---- MODULE TraceBase ----
(* Plumbing shared by every trace specification: the recorded execution is read from the file named by  *)
(* environment variable TRACE (newline-delimited JSON, one object per spec action, field "e" = action),   *)
(* and DIAG=1 makes the cursor visible so that the longest matched prefix of a rejected trace is known.   *)
EXTENDS Naturals, Sequences, TLC, Json, IOUtils
Tr == ndJsonDeserialize(IOEnv.TRACE)
DiagOn == IOEnv.DIAG = "1"
ShowCursor(l) == IF DiagOn THEN PrintT(<<"@l", l>>) ELSE TRUE
Accepted == TLCGet("stats").diameter = Len(Tr) + 1
Has(ev, f) == f \in DOMAIN ev
====
