SPECIFICATION Spec
CONSTANTS
  MaxN = 6
INVARIANT Partition
INVARIANT NoDupEver
INVARIANT SplitsSound
INVARIANT TestSizesSumToN
INVARIANT EveryObjectOnce
INVARIANT CounterBounded
