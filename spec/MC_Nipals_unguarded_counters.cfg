SPECIFICATION FairSpec
CONSTANTS
  MaxRank = 3
  MaxNpc = 5
  MaxIter = 5
  Guarded = FALSE
  Sites = {"KMEANS", "NM", "MLRLOO"}
PROPERTY Terminates
PROPERTY CounterVariant
CHECK_DEADLOCK FALSE
