SPECIFICATION HSpec
CONSTANTS
  Contract = "assign"
  MaxCalls = 3
  Lens = {1, 2, 3}
INVARIANT TableIsLatest
INVARIANT TailIsLatest
INVARIANT FreshBlind
CHECK_DEADLOCK FALSE
