---- MODULE RatLA ----
(* Exact linear algebra over the rationals for small problems (C07; independent of LinAlg.tla, which models C12). *)
(* A rational is a pair <<n, d>> with d > 0 and gcd(|n|, d) = 1, so equality of values is equality of pairs.      *)
(* TLC integers are 32-bit and TLC raises an error on overflow instead of wrapping; products are cross-reduced    *)
(* and sums go through the least common denominator so that the bounds stated in Mlr.tla cannot overflow.         *)
EXTENDS Integers, Sequences
Abs(x) == IF x < 0 THEN -x ELSE x
RECURSIVE Gcd(_, _)
Gcd(a, b) == IF b = 0 THEN a ELSE Gcd(b, a % b)
Norm(n, d) == IF n = 0 THEN <<0, 1>>
              ELSE LET g == Gcd(Abs(n), Abs(d))  s == IF d < 0 THEN -1 ELSE 1 IN <<(s * n) \div g, (s * d) \div g>>
RI(x) == <<x, 1>>
RZero == <<0, 1>>
ROne == <<1, 1>>
IsZ(q) == q[1] = 0
RNeg(a) == <<-a[1], a[2]>>
RAdd(a, b) == LET g == Gcd(a[2], b[2])  l == (a[2] \div g) * b[2] IN Norm(a[1] * (l \div a[2]) + b[1] * (l \div b[2]), l)
RSub(a, b) == RAdd(a, RNeg(b))
RMul(a, b) == IF a[1] = 0 \/ b[1] = 0 THEN RZero
              ELSE LET g1 == Gcd(Abs(a[1]), b[2])  g2 == Gcd(Abs(b[1]), a[2])
                   IN <<(a[1] \div g1) * (b[1] \div g2), (a[2] \div g2) * (b[2] \div g1)>>
RInv(a) == IF a[1] < 0 THEN <<-a[2], -a[1]>> ELSE <<a[2], a[1]>>
RDiv(a, b) == RMul(a, RInv(b))
RLeq(a, b) == RSub(a, b)[1] <= 0
RSq(a) == <<a[1] * a[1], a[2] * a[2]>>
RECURSIVE RSumTo(_, _)
RSumTo(f, m) == IF m = 0 THEN RZero ELSE RAdd(RSumTo(f, m - 1), f[m])     \* f[1] + ... + f[m]
RSum(f) == RSumTo(f, Len(f))
RDot(u, v) == RSum([i \in 1..Len(u) |-> RMul(u[i], v[i])])

\* Gauss-Jordan with row exchange on an m-row matrix M of rationals (any number of columns >= m); reduces columns 1..m
Cols(M) == Len(M[1])
SwapRows(M, a, b) == [i \in 1..Len(M) |-> IF i = a THEN M[b] ELSE IF i = b THEN M[a] ELSE M[i]]
ElimCol(M, c) == LET piv == M[c][c]
                     rowc == [j \in 1..Cols(M) |-> RDiv(M[c][j], piv)]
                 IN [i \in 1..Len(M) |-> IF i = c THEN rowc ELSE [j \in 1..Cols(M) |-> RSub(M[i][j], RMul(M[i][c], rowc[j]))]]
FirstNZ(M, c) == IF \E i \in c..Len(M) : ~IsZ(M[i][c])
                 THEN CHOOSE i \in c..Len(M) : ~IsZ(M[i][c]) /\ \A h \in c..(i - 1) : IsZ(M[h][c])
                 ELSE 0
RECURSIVE GJ(_, _, _)
GJ(M, c, rank) == IF c > Len(M) THEN <<M, rank>>
                  ELSE LET r == FirstNZ(M, c) IN
                       IF r = 0 THEN GJ(M, c + 1, rank)
                       ELSE GJ(ElimCol(SwapRows(M, c, r), c), c + 1, rank + 1)
\* A: m x m integers, B: m x k integers.  <<rank, X>> with X the m x k rational solution of A X = B when rank = m
IntAug(A, B) == [i \in 1..Len(A) |-> [j \in 1..(Len(A) + Len(B[1])) |-> IF j <= Len(A) THEN RI(A[i][j]) ELSE RI(B[i][j - Len(A)])]]
SolveInt(A, B) == LET m == Len(A)  R == GJ(IntAug(A, B), 1, 0)
                  IN <<R[2], [i \in 1..m |-> [j \in 1..Len(B[1]) |-> R[1][i][m + j]]]>>
RankInt(A) == GJ([i \in 1..Len(A) |-> [j \in 1..Len(A) |-> RI(A[i][j])]], 1, 0)[2]
====
