SPECIFICATION TSpec
CONSTANTS
  MaxRank = 8
  MaxNpc = 8
  MaxIter = 2000000
  Guarded = TRUE
  Sites = {"PCA"}
  NProcs = {1}
  FilterSerial = TRUE
  FilterMT = FALSE
  Capped = TRUE
  CapIter = 2
  CapRule = "passes"
  PropOnly = FALSE
  TolAlg = 10000
  TolVar = 1000
  TolGap = 1000000
INVARIANT BeyondRankZero
CONSTRAINT Diag
POSTCONDITION TraceAccepted
CHECK_DEADLOCK FALSE
