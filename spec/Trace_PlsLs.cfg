SPECIFICATION TSpec
CONSTANTS
  MaxNy = 4
  MaxNlv = 12
  ResidualIndex = "mod_ny"
  Deep = FALSE
  TrackPairs = TRUE
  R2Direct = TRUE
CONSTRAINT Diag
POSTCONDITION TraceAccepted
CHECK_DEADLOCK FALSE
