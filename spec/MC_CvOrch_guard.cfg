SPECIFICATION Spec
CONSTANTS
  MaxItems = 12
  MaxTh = 8
  Mode = "guard"
INVARIANT NoMergeBeforeJoin
INVARIANT GuardExactlyOnce
INVARIANT BootSameAsSequential
INVARIANT BootExtraOtherwise
INVARIANT MergedNoDup
