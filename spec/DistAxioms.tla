---- MODULE DistAxioms ----
(* C13, mode 2: the distance definitions satisfy their axioms on EVERY point set of a small integer cube  *)
(* (exact arithmetic): symmetry, zero self-distance, non-negativity, triangle inequality for the squared- *)
(* Euclidean (stated on squares) and Manhattan definitions; Cauchy-Schwarz for the cosine (|cos| <= 1 is  *)
(* what makes "scale = 1" a valid unit of the cosine tolerance); uniqueness of the quantised square root  *)
(* used for the Euclidean cells of Tab events.                                                          *)
EXTENDS Slicing
CONSTANTS NPts, Dim, Range
VARIABLE P
dvars == <<rows, th, P>>
Coord == (0 - Range)..Range
DInit == rows = 0 /\ th = 1 /\ P \in [1..NPts -> [1..Dim -> Coord]]
DNext == UNCHANGED dvars
DSpec == DInit /\ [][DNext]_dvars
AxiomsHold == MetricAxioms(P)
CauchySchwarz == \A i, j \in 1..NPts : LET n == Dot(P[i], P[j], Dim) IN
                    /\ n * n <= Dot(P[i], P[i], Dim) * Dot(P[j], P[j], Dim)
                    /\ n = Dot(P[j], P[i], Dim)
\* at most three consecutive integers satisfy SqrtQ for a given s: a logged cell pins the distance to 1.5e-3
SqrtQTight == \A s \in 0..60 : /\ Cardinality({v \in 0..8000 : SqrtQ(v, s)}) \in 1..3
                               /\ \A v, w \in {x \in 0..8000 : SqrtQ(x, s)} : v - w \in -2..2
ASSUME SqrtQTight
====
