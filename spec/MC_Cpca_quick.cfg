SPECIFICATION CSpec
CONSTANTS
  NBlocks = 2
  Quanta = 5
  MaxPc = 3
  CFault = "none"
INVARIANT CLedgerAccepts
INVARIANT BlockWithin
INVARIANT TotalWithin
INVARIANT TotalIsWeightedBlocks
CHECK_DEADLOCK FALSE
