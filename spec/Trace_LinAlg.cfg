SPECIFICATION TSpec
CONSTANTS
  Families = {}
  Pivoting = TRUE
  Mod = 1
  Res = 0
  PropOnly = FALSE
CONSTRAINT Diag
POSTCONDITION TraceAccepted
CHECK_DEADLOCK FALSE
