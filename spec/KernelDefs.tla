---- MODULE KernelDefs ----
(* C11.  The pure (constant-level) definitions behind the dense kernels: operand fills, column statistics,     *)
(* covariance numerators, tensor contractions, sorting (what is promised and how matrix.c does it), the        *)
(* second-batch maps and statistics.  Shared by Kernels.tla (the enumerated case space and its laws) and       *)
(* KernelHist.tla (the stateful model of kernel calls over an object store).                                   *)
EXTENDS IntMat, FiniteSets

(* ---- deterministic operand fill over -5..5 (no period below 31 in either index) ---- *)
Fill(s, i, j) == (((3 * i * i + 5 * j * j + 7 * i * j + 2 * i + 6 * j + s * s + 4 * s) % 31) % 11) - 5
FillMat(s, r, c) == Mat(r, c, LAMBDA i, j : Fill(s, i, j))
FillVec(s, n) == Vec(n, LAMBDA i : Fill(s, i, i + 2))

(* ---- definitions ------------------------------------------------------------------------------------ *)
(* covariance and column statistics, scaled to integers *)
ColSums(M) == [j \in 1..M.col |-> ColSum(M, j)]
RowSums(M) == [i \in 1..M.row |-> RowSum(M, i)]
ColSumSqs(M) == [j \in 1..M.col |-> ColSumSq(M, j)]
ColVarNum(M) == [j \in 1..M.col |-> M.row * ColSumSq(M, j) - ColSum(M, j) * ColSum(M, j)]
CentredNum(M) == LET S == ColSums(M) IN Mat(M.row, M.col, LAMBDA i, j : M.row * M.d[i][j] - S[j])
CovNum(M) == LET S == ColSums(M) IN Mat(M.col, M.col, LAMBDA i, j : M.row * ColCross(M, i, j) - S[i] * S[j])
(* a location shift: a different constant added to every column (covariance and variances do not see it; the replay *)
(* harness applies shifts of the order of 1e6 spreads, where a one-pass sum-of-squares formula cancels)              *)
ShiftCols(M) == Mat(M.row, M.col, LAMBDA i, j : M.d[i][j] + 7 * j - 11)

(* tensor contractions, element by element (tensor.c:346-425); T is a sequence of k slices r x c *)
(*   TransposedTensorDVectorProduct : P[s][i] = sum_j T[s][i][j] * v[j]            (k x r, v of size c)     *)
(*   DvectorTensorDotProduct        : Q[j][s] = sum_i v[i] * T[s][i][j]            (c x k, v of size r)     *)
(*   TensorMatrixDotProduct         : t[i]    = sum_s sum_j T[s][i][j] * M[j][s]   (size r, M is c x k)     *)
TenVec(T, v, k, r, c) == Mat(k, r, LAMBDA s, i : SumF([j \in 1..c |-> T[s].d[i][j] * v[j]], c))
VecTen(T, v, k, r, c) == Mat(c, k, LAMBDA j, s : SumF([i \in 1..r |-> v[i] * T[s].d[i][j]], r))
TenMat(T, M, k, r, c) == [i \in 1..r |-> SumF([s \in 1..k |-> SumF([j \in 1..c |-> T[s].d[i][j] * M.d[j][s]], c)], k)]

(* sorting by a key column: WHAT the property states (any row permutation ordered by the key) ... *)
Count(d, x) == Cardinality({i \in 1..Len(d) : d[i] = x})
IsRowPerm(d1, d2) == Len(d1) = Len(d2) /\ \A i \in 1..Len(d1) : Count(d1, d1[i]) = Count(d2, d1[i])
Ordered(d, key, rev) == \A i \in 1..(Len(d) - 1) : IF rev THEN d[i][key] >= d[i + 1][key] ELSE d[i][key] <= d[i + 1][key]
IsSortOf(rd, md, key, rev) == IsRowPerm(md, rd) /\ Ordered(rd, key, rev)
(* ... and HOW matrix.c:1929-1968 does it (exchange sort: for i, for j > i, swap rows when out of order) *)
SwapRows(d, i, j) == [d EXCEPT ![i] = d[j], ![j] = d[i]]
RECURSIVE ExInner(_, _, _, _, _)
ExInner(d, i, j, key, rev) ==
  IF j > Len(d) THEN d
  ELSE LET out == IF rev THEN d[i][key] < d[j][key] ELSE d[i][key] > d[j][key]
       IN ExInner(IF out THEN SwapRows(d, i, j) ELSE d, i, j + 1, key, rev)
RECURSIVE ExOuter(_, _, _, _)
ExOuter(d, i, key, rev) == IF i > Len(d) THEN d ELSE ExOuter(ExInner(d, i, i + 1, key, rev), i + 1, key, rev)
ExchangeSort(d, key, rev) == ExOuter(d, 1, key, rev)
Perms(n) == {f \in [1..n -> 1..n] : \A a, b \in 1..n : a # b => f[a] # f[b]}
SortResults(d, key, rev) == {[i \in 1..Len(d) |-> d[p[i]]] : p \in {q \in Perms(Len(d)) : Ordered([i \in 1..Len(d) |-> d[q[i]]], key, rev)}}

(* ---- second batch: definitions --------------------------------------------------------------------- *)
(* element-wise maps *)
SqI(x) == x * x
SquareMap(X) == MapMat(X, SqI)
AbsMap(X) == MapMat(X, AbsI)
SqrtFloorMap(X) == MapMat(X, IntSqrt)                              \* floor(sqrt(x)) of a non-negative matrix
(* log10(x+1) (the definition pinned by test 40 of testmatrix.c): 3*log10(x+1) is bracketed by integers;   *)
(* the bracket is exact (value = lo/3) when x+1 is a power of ten                                           *)
IsPow10(y) == \E p \in 0..9 : Pow10(p) = y
Log10Of(y) == CHOOSE p \in 0..9 : Pow10(p) = y
LogLo3(x) == IF IsPow10(x + 1) THEN 3 * Log10Of(x + 1)
             ELSE CHOOSE q \in 0..8 : Pow10(q) <= (x + 1) * (x + 1) * (x + 1) /\ (x + 1) * (x + 1) * (x + 1) < Pow10(q + 1)
LogLoMap(X) == MapMat(X, LogLo3)
LogExactMap(X) == MapMat(X, LAMBDA x : IF IsPow10(x + 1) THEN 1 ELSE 0)
(* row scalings: division by the row sum (MatrixRowCenterScaling, pinned by test 58) and the standard normal variate *)
RowVarNum(X, i) == X.col * Dot(X.d[i], X.d[i], X.col) - RowSum(X, i) * RowSum(X, i)
SvnDev(X, i, j) == X.col * X.d[i][j] - RowSum(X, i)                 \* col * (x - row mean)
SvnNum(X) == Mat(X.row, X.col, LAMBDA i, j : SgnI(SvnDev(X, i, j)) * SvnDev(X, i, j) * SvnDev(X, i, j) * (X.col - 1))
SvnDen(X) == [i \in 1..X.row |-> X.col * RowVarNum(X, i)]
(* column statistics of MatrixColDescStat over a column x of n entries *)
HarmL == 60
PosMat(X) == MapMat(X, LAMBDA x : AbsI(x) + 1)                       \* entries 1..6: every entry divides HarmL
ColMins(X) == [j \in 1..X.col |-> VecMin(Column(X, j), X.row)]
ColMaxs(X) == [j \in 1..X.col |-> VecMax(Column(X, j), X.row)]
ColMed2s(X) == [j \in 1..X.col |-> Median2(Column(X, j), X.row)]
ColHarmDens(X) == [j \in 1..X.col |-> SumF([i \in 1..X.row |-> HarmL \div X.d[i][j]], X.row)]
ColZeros(X) == [j \in 1..X.col |-> Cardinality({i \in 1..X.row : X.d[i][j] = 0})]
(* the same statistics when one entry per column is the MISSING code: they are those of the column without it *)
MissRow(X, j) == IF j % 2 = 1 THEN ((3 * j) % X.row) + 1 ELSE 0         \* odd columns carry one missing cell
ColLess(X, j) == IF MissRow(X, j) = 0 THEN Column(X, j) ELSE Without(Column(X, j), X.row, MissRow(X, j))
ColN(X, j) == IF MissRow(X, j) = 0 THEN X.row ELSE X.row - 1
MissStats(X) == [j \in 1..X.col |-> LET x == ColLess(X, j)  n == ColN(X, j) IN
                   <<n, SumF(x, n), Median2(x, n), n * Dot(x, x, n) - SumF(x, n) * SumF(x, n), VecMin(x, n), VecMax(x, n),
                     Cardinality({i \in 1..n : x[i] = 0}), X.row - n>>]
(* extreme cell of a matrix: WHAT is promised (the returned position holds an extreme value; any one of them on ties) ... *)
IsArgExt(d, rows, cols, i, j, mx) == /\ i \in 1..rows /\ j \in 1..cols
                                     /\ \A a \in 1..rows, b \in 1..cols : IF mx THEN d[a][b] <= d[i][j] ELSE d[a][b] >= d[i][j]
(* ... and HOW matrix.c scans: column by column over every row, the last extreme cell wins *)
LastArgExt(d, rows, cols, i, j, mx) == /\ IsArgExt(d, rows, cols, i, j, mx)
                                       /\ \A a \in 1..rows, b \in 1..cols : d[a][b] = d[i][j] => (b < j \/ (b = j /\ a <= i))
(* correlation matrices *)
PermFill(s, rr, cc) == Mat(rr, cc, LAMBDA i, j : ((((7 * j + 3 * s) % 18) + 1) * i) % 19)   \* every column tie-free for rr <= 18
RankMat(X) == Mat(X.row, X.col, LAMBDA i, j : RankIn(Column(X, j), X.row, i))
SpearDen(n) == n * (n * n - 1)
SpearNum(X) == LET R == RankMat(X).d  n == X.row IN
  Mat(X.col, X.col, LAMBDA a, b : SpearDen(n) - 6 * SumF([i \in 1..n |-> (R[i][a] - R[i][b]) * (R[i][a] - R[i][b])], n))
MonoCols(X) == Mat(X.row, X.col, LAMBDA i, j : IF j % 2 = 1 THEN X.d[i][j] * X.d[i][j] * X.d[i][j] + j ELSE 2 * X.d[i][j] - 7)
(* right division v / M *)
DiagDom(X) == \A i \in 1..X.row : AbsI(X.d[i][i]) > SumF([j \in 1..X.col |-> IF j = i THEN 0 ELSE AbsI(X.d[i][j])], X.col)
(* tensor: slice-wise transpose, column statistics per slice, Kronecker product laid out as slices *)
TenTranspose(T, kk) == [s \in 1..kk |-> Transpose(T[s])]
TenColSums(T, kk, cc) == Mat(cc, kk, LAMBDA j, s : ColSum(T[s], j))
TenColVarNums(T, kk, cc) == Mat(cc, kk, LAMBDA j, s : ColVarNum(T[s])[j])
KronTensor(v, X, kk, rr, cc) == [s \in 1..kk |-> Mat(rr, cc, LAMBDA i, j : v[i] * X.d[j][s])]    \* X is cc x kk

====
