---- MODULE Select ----
(* C17.  Object selection and k-means bookkeeping on INTEGER points (src/clustering.c).                     *)
(*                                                                                                        *)
(* Max-min dissimilarity selection (MaxDis: clustering.c:273-426, MaxDis_Fast: 431-556):                   *)
(*   first pick  = an object farthest from the centroid (always Euclidean; the centroid is rational, so    *)
(*                 n^2 d^2(x_i, c) = sum_j (n x_ij - S_j)^2 is compared instead);                           *)
(*   every further pick = an object, not yet chosen, maximising the minimum distance to those chosen.      *)
(*   Metric codes as in the library: 0 Euclidean (ordered like the squared distance, exact on integers),   *)
(*   1 Manhattan.  (2 = cosine is floating point: handled through logged distance RANKS, see AdmissibleR.)  *)
(*   Ties: any maximiser is admissible (what the property states).  The code's own tie-break - lowest      *)
(*   index among the maximisers, because it scans upwards with a strict '>' - is the Impl layer (ImplSeq). *)
(* K-means (clustering.c:975-1255): labels in range, count_c * centroid_c = sum of the members of c,       *)
(*   every object labelled by a nearest centroid up to the documented convergence tolerance.              *)
EXTENDS Integers, Sequences, FiniteSets, TLC, Json, Affine      \* Affine: Abs, MaxOf, tolerances of the translated / scaled input classes
CONSTANTS NMin, NMax,      \* point sets of NMin..NMax points
          Dim, Grid,       \* in {0..Grid}^Dim
          EmitMod          \* GEN emits the point sets whose coordinate sum is divisible by EmitMod (1 = all)

Range(f) == {f[i] : i \in DOMAIN f}
Sq(a) == a * a
Lowest(S) == CHOOSE i \in S : \A j \in S : i <= j
Distinct(seq) == \A a, b \in DOMAIN seq : a # b => seq[a] # seq[b]

RECURSIVE SumSq(_, _, _)
SumSq(p, q, d) == IF d = 0 THEN 0 ELSE Sq(p[d] - q[d]) + SumSq(p, q, d - 1)
RECURSIVE SumAbs(_, _, _)
SumAbs(p, q, d) == IF d = 0 THEN 0 ELSE Abs(p[d] - q[d]) + SumAbs(p, q, d - 1)
Dist(metric, X, i, j) == IF metric = 0 THEN SumSq(X[i], X[j], Len(X[i])) ELSE SumAbs(X[i], X[j], Len(X[i]))

RECURSIVE ColSum(_, _, _)
ColSum(X, d, m) == IF m = 0 THEN 0 ELSE X[m][d] + ColSum(X, d, m - 1)
(* n^2 times the squared Euclidean distance of object i from the centroid *)
C2(X, i) == LET n == Len(X)
                F[d \in 0..Len(X[1])] == IF d = 0 THEN 0 ELSE F[d - 1] + Sq(n * X[i][d] - ColSum(X, d, n))
            IN F[Len(X[1])]
FirstSet(X) == LET c == [i \in 1..Len(X) |-> C2(X, i)] IN {i \in 1..Len(X) : \A j \in 1..Len(X) : c[j] <= c[i]}

RECURSIVE MinTo(_, _, _, _, _)        \* min over the first k chosen objects of the distance from object i
MinTo(metric, X, i, sel, k) == IF k = 1 THEN Dist(metric, X, i, sel[1])
                               ELSE LET a == MinTo(metric, X, i, sel, k - 1)
                                        b == Dist(metric, X, i, sel[k])
                                    IN IF b < a THEN b ELSE a
NextSet(metric, X, sel) == LET rest == (1..Len(X)) \ Range(sel)
                               mt == [i \in rest |-> MinTo(metric, X, i, sel, Len(sel))]
                           IN {i \in rest : \A j \in rest : mt[j] <= mt[i]}

(* what C17 states about a returned selection (objects numbered from 1) *)
Valid(seq, nobj, cnt) == /\ Len(seq) = cnt
                         /\ \A k \in DOMAIN seq : seq[k] \in 1..nobj
                         /\ Distinct(seq)
FirstOk(X, seq) == seq[1] \in FirstSet(X)
(* x is an admissible next pick after sel (linear form of x \in NextSet); Low: and no admissible pick has a lower index *)
IsNext(metric, X, sel, x, low) == LET rest == (1..Len(X)) \ Range(sel)
                                      mt == [i \in rest |-> MinTo(metric, X, i, sel, Len(sel))]
                                  IN /\ x \in rest
                                     /\ \A j \in rest : mt[j] <= mt[x] /\ ((low /\ j < x) => mt[j] < mt[x])
GreedyOk(metric, X, seq) == \A k \in 2..Len(seq) : IsNext(metric, X, SubSeq(seq, 1, k - 1), seq[k], FALSE)
LowestTie(metric, X, seq) == \A k \in 2..Len(seq) : IsNext(metric, X, SubSeq(seq, 1, k - 1), seq[k], TRUE)
Admissible(metric, X, seq) == Valid(seq, Len(X), Len(seq)) /\ FirstOk(X, seq) /\ GreedyOk(metric, X, seq)

(* the library's deterministic tie-break *)
RECURSIVE ImplSeq(_, _, _, _)
ImplSeq(metric, X, sel, n) == IF Len(sel) >= n THEN sel
                              ELSE ImplSeq(metric, X, Append(sel, Lowest(NextSet(metric, X, sel))), n)
MaxDisImpl(metric, X, n) == ImplSeq(metric, X, <<Lowest(FirstSet(X))>>, n)

(* the same on a logged matrix R of distance ranks (any order-preserving integer code of the distances)   *)
(* and logged ranks c of the distances to the centroid: used beyond ~12 objects and for the cosine metric *)
RECURSIVE MinToR(_, _, _, _)
MinToR(R, i, sel, k) == IF k = 1 THEN R[i][sel[1]]
                        ELSE LET a == MinToR(R, i, sel, k - 1)  b == R[i][sel[k]] IN IF b < a THEN b ELSE a
NextSetR(R, sel) == LET rest == (1..Len(R)) \ Range(sel)
                        mt == [i \in rest |-> MinToR(R, i, sel, Len(sel))]
                    IN {i \in rest : \A j \in rest : mt[j] <= mt[i]}
FirstOkR(c, seq) == \A j \in 1..Len(c) : c[j] <= c[seq[1]]
(* one pass over the sequence carrying the vector of minimum ranks to the chosen objects (TLCEval forces the vector, *)
(* so a step costs O(objects)); low: additionally no admissible pick has a lower index                            *)
RECURSIVE GreedyStepsR(_, _, _, _, _)
GreedyStepsR(R, seq, k, mt, low) ==
  IF k > Len(seq) THEN TRUE
  ELSE LET chosen == {seq[t] : t \in 1..(k - 1)}
           x == seq[k]
       IN /\ x \notin chosen
          /\ \A j \in (1..Len(R)) \ chosen : mt[j] <= mt[x] /\ ((low /\ j < x) => mt[j] < mt[x])
          /\ GreedyStepsR(R, seq, k + 1, TLCEval([i \in 1..Len(R) |-> IF R[i][x] < mt[i] THEN R[i][x] ELSE mt[i]]), low)
GreedyOkR(R, seq) == Len(seq) < 2 \/ GreedyStepsR(R, seq, 2, TLCEval([i \in 1..Len(R) |-> R[i][seq[1]]]), FALSE)
LowestTieR(R, seq) == Len(seq) < 2 \/ GreedyStepsR(R, seq, 2, TLCEval([i \in 1..Len(R) |-> R[i][seq[1]]]), TRUE)
AdmissibleR(R, c, seq) == Valid(seq, Len(R), Len(seq)) /\ FirstOkR(c, seq) /\ GreedyOkR(R, seq)
(* ranks faithfully code the exact integer distances (only checked where TLC recomputes the distances)    *)
RanksFaithful(metric, X, R) == LET D == [i \in 1..Len(X) |-> [j \in 1..Len(X) |-> Dist(metric, X, i, j)]]
                               IN \A i, j, p, q \in 1..Len(X) : (D[i][j] < D[p][q]) <=> (R[i][j] < R[p][q])

(* ---- k-means bookkeeping (labels numbered from 0 as in the library, objects from 1) *)
MembersOf(labels, c) == {i \in DOMAIN labels : labels[i] = c}
RECURSIVE SumMembers(_, _, _, _, _)
SumMembers(X, labels, c, j, m) == IF m = 0 THEN 0
                                  ELSE (IF labels[m] = c THEN X[m][j] ELSE 0) + SumMembers(X, labels, c, j, m - 1)
LabelsInRange(labels, k) == \A i \in DOMAIN labels : labels[i] \in 0..(k - 1)
(* cnum[c][j] = centroid_cj * (number of members of c), rounded by the harness; cnt[c] its member count *)
CentroidIsMean(X, labels, k, cnt, cnum) ==
  \A c \in 0..(k - 1) : /\ cnt[c + 1] = Cardinality(MembersOf(labels, c))
                        /\ cnt[c + 1] > 0 => \A j \in 1..Len(X[1]) : cnum[c + 1][j] = SumMembers(X, labels, c, j, Len(X))

(* ---------------------------------------------------------------- model: all small point sets *)
VARIABLES phase, X, n, metric
vars == <<phase, X, n, metric>>
Point == [1..Dim -> 0..Grid]
Init == phase = "seed" /\ X \in [1..2 -> Point] /\ n = 0 /\ metric = 0
Extend == /\ phase = "seed"
          /\ \E np \in NMin..NMax : \E rest \in [3..np -> Point] : \E nn \in 1..np : \E m \in {0, 1} :
               /\ X' = [i \in 1..np |-> IF i <= 2 THEN X[i] ELSE rest[i]]
               /\ n' = nn /\ metric' = m
          /\ phase' = "case"
Next == Extend
Spec == Init /\ [][Next]_vars
(* the code's tie-break always yields an admissible selection of the requested length *)
ImplIsAdmissible == phase = "case" => LET s == MaxDisImpl(metric, X, n) IN Admissible(metric, X, s) /\ Len(s) = n
(* every prefix of an admissible selection is admissible (so n = 1..N of one run are consistent) *)
PrefixClosed == phase = "case" => LET s == MaxDisImpl(metric, X, Len(X)) IN Admissible(metric, X, SubSeq(s, 1, n))
(* the linear forms used by the trace specification say the same as the set forms *)
LinearFormsAgree == phase = "case" =>
   LET s == MaxDisImpl(metric, X, n)
   IN /\ GreedyOk(metric, X, s) /\ LowestTie(metric, X, s)
      /\ \A k \in 2..Len(s) : \A x \in 1..Len(X) :
            /\ IsNext(metric, X, SubSeq(s, 1, k - 1), x, FALSE) <=> (x \in NextSet(metric, X, SubSeq(s, 1, k - 1)))
            /\ IsNext(metric, X, SubSeq(s, 1, k - 1), x, TRUE) <=> (x = Lowest(NextSet(metric, X, SubSeq(s, 1, k - 1))))
(* the rank form agrees with the point form when the "ranks" are the distances themselves *)
RankFormAgrees == phase = "case" =>
   LET D == [i \in 1..Len(X) |-> [j \in 1..Len(X) |-> Dist(metric, X, i, j)]]
       c == [i \in 1..Len(X) |-> C2(X, i)]
       s == MaxDisImpl(metric, X, n)
   IN /\ AdmissibleR(D, c, s) /\ LowestTieR(D, s)
      /\ \A y \in 1..Len(X) : LET t == [s EXCEPT ![Len(s)] = y]
                               IN (AdmissibleR(D, c, t) <=> Admissible(metric, X, t)) /\ (LowestTieR(D, t) /\ Distinct(t) <=> LowestTie(metric, X, t) /\ Distinct(t))
(* classes K3 / K4: what C17 states about a selection is invariant under translating the columns (alternating signs) and   *)
(* scaling the data, so the selections the library returns on the translated / scaled matrix are judged on the logged     *)
(* integer points x (exact arithmetic: n (o + s x) - (n o + s S) = s (n x - S), every distance is multiplied by s or s^2) *)
AffImage(P, o, s) == [i \in 1..Len(P) |-> [d \in 1..Len(P[i]) |-> (IF d % 2 = 1 THEN o ELSE -o) + P[i][d] * s]]
AffineInvariant == phase = "case" =>
   LET Y == AffImage(X, 1000000, 1000)
       s == MaxDisImpl(metric, X, n)
   IN /\ FirstSet(Y) = FirstSet(X)
      /\ MaxDisImpl(metric, Y, n) = s
      /\ \A k \in 1..(Len(s) - 1) : NextSet(metric, Y, SubSeq(s, 1, k)) = NextSet(metric, X, SubSeq(s, 1, k))
      /\ \A y \in 1..Len(X) : LET t == [s EXCEPT ![Len(s)] = y] IN Admissible(metric, Y, t) <=> Admissible(metric, X, t)
(* GEN: one replay case per point set *)
RECURSIVE CoordSum(_, _)
CoordSum(P, m) == IF m = 0 THEN 0
                  ELSE (LET F[d \in 0..Len(P[m])] == IF d = 0 THEN 0 ELSE F[d - 1] + P[m][d] IN F[Len(P[m])]) + CoordSum(P, m - 1)
Emit == (phase = "case" /\ n = Len(X) /\ metric = 0 /\ CoordSum(X, Len(X)) % EmitMod = 0) =>
          PrintT("@@" \o ToJson([X |-> X, distinct |-> IF Distinct(X) THEN 1 ELSE 0]))
====
