---- MODULE MtKernel ----
(* C13, mode 1: one launcher and its workers as a concurrent state machine, over HISTORIES of calls into  *)
(* the same output object (class K7).  Workers interleave in every possible way; a worker step processes  *)
(* one row of its range.  Cell contents are bags of contributions so that stale data, double writes and    *)
(* missing writes are all visible in the final state.                                                    *)
(*   kern  "lab"   caller-sized, set         getLabels_:  labels[i] = nearest centroid                  *)
(*         "mxv"   caller-sized              MT_MatrixDVectorDotProduct: workers do res[i] = 0 then +=;   *)
(*                                           ONE processor redirects to the accumulating sequential loop *)
(*         "vxm"   caller-sized, accumulate  MT_DVectorMatrixDotProduct: p[j] += ... (needs the           *)
(*                                           zero-initialised output of the statement)                  *)
(*         "dist"  self-sized, set           CalculateDistance: ResizeMatrix, then column i of the table *)
(*         "cond"  self-sized, set           *DistanceCondensed: DVectorResize, then cells Idx(i,k,n)    *)
(* Theorems checked by TLC (MC_MtKernel_*.cfg):                                                         *)
(*   WriteOnce   no cell is written by two worker steps of one launch (no write-write race)              *)
(*   InBounds    every pending write lies inside the output object                                      *)
(*   DoneIsDef   after the join the object has exactly the shape of the definition and every cell holds   *)
(*               exactly its own contribution of THIS call - whatever the object held before, whatever   *)
(*               the interleaving (=> bit-identical repeated runs), for every (rows, threads)            *)
(*   Live        every launch is joined (weak fairness of the workers)                                   *)
(* GuardBeforeResize = TRUE is the seeded "nothing to do" return in front of the resize: DoneIsDef must    *)
(* then FAIL (MC_MtKernel_guard.cfg, a self-test that the invariant bites); CallerZeroes = FALSE drops the *)
(* premise "into a zero-initialised output": DoneIsDef then holds only for the pure set kernels.         *)
EXTENDS Slicing
CONSTANTS MaxCalls, KernSet, GuardBeforeResize, CallerZeroes
VARIABLES kern, g, pc, sl, cur, out, wr
mvars == <<rows, th, kern, g, pc, sl, cur, out, wr>>

SelfSized(k) == k \in {"dist", "cond"}
Accumulates(k, t) == k = "vxm" \/ (k = "mxv" /\ t = 1)
Size(k, n) == IF k = "cond" THEN CondSize(n) ELSE n
\* cells (1-based) written while row i is processed
Cells(k, i, n) == IF k = "cond" THEN { Idx(i, q, n) + 1 : q \in (i + 1)..(n - 1) } ELSE { i + 1 }
ValOf(k, gg, i, c, n) == IF k = "cond" THEN <<gg, i, CHOOSE q \in (i + 1)..(n - 1) : Idx(i, q, n) + 1 = c>> ELSE <<gg, i>>
Expected(k, gg, n) ==
  [c \in 1..Size(k, n) |->
     IF k = "cond" THEN LET p == CHOOSE p \in Pairs(n) : Idx(p[1], p[2], n) + 1 = c IN {<<gg, p[1], p[2]>>}
     ELSE {<<gg, c - 1>>}]
Stale == {<<0, 0>>}
\* getLabels_ (and KMeansppCenters) advance first, every other launcher assigns first (Slicing!InvSame: the same ranges)
Ranges(k, n, t) == IF k = "lab" THEN AdvanceFirst(n, t) ELSE AssignFirst(n, t)

MInit == /\ rows = 0 /\ th = 1 /\ kern = "lab" /\ g = 0 /\ pc = "idle"
         /\ sl = <<>> /\ cur = <<>> /\ out = <<>> /\ wr = <<>>

Call(k, n, t) ==
  /\ pc \in {"idle", "done"} /\ g < MaxCalls
  /\ kern' = k /\ rows' = n /\ th' = t /\ g' = g + 1 /\ pc' = "running"
  /\ sl' = Ranges(k, n, t)
  /\ cur' = [w \in 1..t |-> Ranges(k, n, t)[w][1]]
  /\ out' = IF SelfSized(k)
            THEN IF GuardBeforeResize /\ k = "cond" /\ n < 2 THEN out
                 ELSE [c \in 1..Size(k, n) |-> {}]
            ELSE [c \in 1..n |-> IF CallerZeroes THEN {} ELSE Stale]
  /\ wr' = [c \in 1..Len(out') |-> 0]

Work(w) ==
  /\ pc = "running" /\ w \in 1..th /\ cur[w] < sl[w][2]
  /\ LET i == cur[w]
         cs == Cells(kern, i, rows)
     IN /\ cs \subseteq DOMAIN out
        /\ out' = [c \in DOMAIN out |-> IF c \in cs
                                         THEN IF Accumulates(kern, th) THEN out[c] \cup {ValOf(kern, g, i, c, rows)}
                                              ELSE {ValOf(kern, g, i, c, rows)}
                                         ELSE out[c]]
        /\ wr' = [c \in DOMAIN wr |-> IF c \in cs THEN wr[c] + 1 ELSE wr[c]]
  /\ cur' = [cur EXCEPT ![w] = @ + 1]
  /\ UNCHANGED <<rows, th, kern, g, pc, sl>>

Join == /\ pc = "running" /\ \A w \in 1..th : cur[w] = sl[w][2]
        /\ pc' = "done" /\ UNCHANGED <<rows, th, kern, g, sl, cur, out, wr>>

MNext == \/ \E k \in KernSet, n \in 0..MaxRows, t \in 1..MaxThreads : Call(k, n, t)
         \/ \E w \in 1..MaxThreads : Work(w)
         \/ Join
MSpec == MInit /\ [][MNext]_mvars /\ WF_mvars(Join) /\ \A w \in 1..MaxThreads : WF_mvars(Work(w))

WriteOnce == \A c \in DOMAIN wr : wr[c] <= 1
InBounds  == pc = "running" => \A w \in 1..th : \A i \in cur[w]..(sl[w][2] - 1) : Cells(kern, i, rows) \subseteq DOMAIN out
DoneIsDef == (pc = "done" /\ (CallerZeroes \/ ~Accumulates(kern, th)))
                => /\ out = Expected(kern, g, rows)
                   /\ Len(out) = Size(kern, rows)
                   /\ \A c \in DOMAIN wr : wr[c] = 1
\* the premise of the statement is needed, and only by the accumulating kernels
NeedsZero == (pc = "done" /\ ~CallerZeroes /\ Accumulates(kern, th) /\ rows > 0) => out # Expected(kern, g, rows)
Live == (pc = "running") ~> (pc = "done")
====
