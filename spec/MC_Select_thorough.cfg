SPECIFICATION Spec
CONSTANTS
  NMin = 3
  NMax = 5
  Dim = 2
  Grid = 2
  EmitMod = 5
INVARIANT ImplIsAdmissible
INVARIANT PrefixClosed
\* GEN: Emit prints one replay case per point set
INVARIANT Emit
CHECK_DEADLOCK FALSE
