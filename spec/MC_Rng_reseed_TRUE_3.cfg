SPECIFICATION Spec
CONSTANTS
  NW = 3
  K = 1
  PerThread = TRUE
  Shape = "reseed"
INVARIANT StreamIsolation
INVARIANT NoClock
INVARIANT WordPrivate
INVARIANT EqualsSequential
VIEW NoSched
CHECK_DEADLOCK FALSE
