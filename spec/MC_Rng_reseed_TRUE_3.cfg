SPECIFICATION Spec
CONSTANTS
  NW = 3
  K = 1
  PerThread = TRUE
  Shape = "reseed"
INVARIANT StreamIsolation
INVARIANT NoClock
VIEW NoSched
CHECK_DEADLOCK FALSE
