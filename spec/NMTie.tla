---- MODULE NMTie ----
(* C19.  EXACT model of NelderMeadSimplex (optimization.c:76-273, Gao-Han parameters) in two dimensions on integer       *)
(* quadratics  f(x,y) = a x^2 + 2 b x y + c y^2  (minimiser (0,0)), integer start points and integer steps.               *)
(* For n = 2 the parameters are alpha = 1, beta = 2, gamma = 1/2, delta = 1/2: every vertex the routine ever forms is a     *)
(* dyadic rational, so the model carries coordinates as INTEGERS in units of 2^-K and objective values in units of 2^-2K  *)
(* - and the double arithmetic of the real routine is exact on the same data (the conformance run replays every start   *)
(* of this family through the real code: start class 10 of harness/c19_nm.c).                                           *)
(*                                                                                                                   *)
(* Rule = "strict"    the pinned tree: the reflection is accepted when  f_1 <  f_r < f_n                                  *)
(* Rule = "textbook"  Nelder-Mead / Gao-Han:                            f_1 <= f_r < f_n                                  *)
(* With "strict" a reflection whose value EQUALS the best value (and is below the second worst) fires no branch at all:   *)
(* the simplex is unchanged, the next iteration is the same iteration, and the routine never converges (NoStall is        *)
(* refuted by TLC, e.g. f = x^2 + y^2, start (-2,-1), steps (-1,-1)).  With "textbook" NoStall holds on the whole family.    *)
(*                                                                                                                   *)
(* StopRule = "values"       the pinned tree: stop when the spread of the vertex VALUES is below xtol                     *)
(* StopRule = "values+size"  ... and the simplex itself has collapsed (largest coordinate distance to the best vertex)    *)
(* Three distinct points on one level curve carry the same value: with "values" the routine declares convergence on a     *)
(* simplex that is as large as it was (NoFalseStop refuted, e.g. f = x^2 + y^2, start (-3,-2), steps (-2,1): after three    *)
(* iterations the vertices are (1,-1/2), (1,1/2), (-1,-1/2), all of value 5/4).  In the exact model xtol is smaller than   *)
(* one unit, so "spread < xtol" is "spread = 0" and "size < xtol" is "all vertices coincide".                            *)
EXTENDS Integers, Sequences, FiniteSets, TLC, Json
CONSTANTS Rule, StopRule, K, MaxIter, Box, DoEmit
Unit == 2 ^ K
Quads == {<<2, 1, 2>>, <<4, 1, 4>>, <<1, 0, 2>>, <<1, 0, 1>>, <<8, 1, 2>>}          \* <<a, b, c>>, all positive definite, cond <= 5
Steps == {-2, -1, 1, 2}
VARIABLES q, P, it, stalled, precise, done, cfg0
vars == <<q, P, it, stalled, precise, done, cfg0>>
F(p) == q[1] * p[1] * p[1] + 2 * q[2] * p[1] * p[2] + q[3] * p[2] * p[2]
Even(p) == p[1] % 2 = 0 /\ p[2] % 2 = 0
Div4(p) == p[1] % 4 = 0 /\ p[2] % 4 = 0
Plus(p, r) == <<p[1] + r[1], p[2] + r[2]>>
Minus(p, r) == <<p[1] - r[1], p[2] - r[2]>>
Times(k, p) == <<k * p[1], k * p[2]>>
Over(p, k) == <<p[1] \div k, p[2] \div k>>
\* MatrixSort (matrix.c:1951): exchange sort, rows swapped only when strictly greater - compare-swaps (1,2) (1,3) (2,3)
CSwap(s, i, j) == IF F(s[i]) > F(s[j]) THEN [s EXCEPT ![i] = s[j], ![j] = s[i]] ELSE s
Sort3(s) == CSwap(CSwap(CSwap(s, 1, 2), 1, 3), 2, 3)
Init == /\ q \in Quads
        /\ \E x0 \in Box : \E y0 \in Box : \E s1 \in Steps : \E s2 \in Steps :
              /\ cfg0 = <<x0, y0, s1, s2>>
              /\ P = Sort3(<< <<x0 * Unit, y0 * Unit>>, <<(x0 + s1) * Unit, y0 * Unit>>, <<x0 * Unit, (y0 + s2) * Unit>> >>)
        /\ it = 0 /\ stalled = FALSE /\ precise = TRUE /\ done = FALSE
\* one iteration of the loop (optimization.c:146-252); returns the UNSORTED simplex and whether the arithmetic stayed exact
Iter(S) ==
  LET p1 == S[1]  p2 == S[2]  pw == S[3]
      sum == Plus(p1, p2)                                   \* 2 c
      r == Minus(sum, pw)                                   \* c + (c - pw)
      fr == F(r)  f1 == F(p1)  fn == F(p2)  fw == F(pw)
      accept == IF Rule = "strict" THEN f1 < fr /\ fr < fn ELSE f1 <= fr /\ fr < fn
  IN IF accept THEN [S |-> <<p1, p2, r>>, ok |-> TRUE]
     ELSE IF fr < f1 THEN                                   \* expansion  e = c + 2 (r - c) = 2 r - c
        LET e == Minus(Times(2, r), Over(sum, 2)) IN
        [S |-> <<p1, p2, IF F(e) < fr THEN e ELSE r>>, ok |-> Even(sum)]
     ELSE IF fn <= fr /\ fr < fw THEN                       \* outside contraction  oc = c + (r - c) / 2 = (2 c + 2 r) / 4
        LET oc == Over(Plus(sum, Times(2, r)), 4) IN
        IF F(oc) <= fr THEN [S |-> <<p1, p2, oc>>, ok |-> Div4(Plus(sum, Times(2, r)))]
        ELSE [S |-> <<p1, Over(Plus(p1, p2), 2), Over(Plus(p1, pw), 2)>>, ok |-> Div4(Plus(sum, Times(2, r))) /\ Even(Plus(p1, p2)) /\ Even(Plus(p1, pw))]
     ELSE IF fr >= fw THEN                                  \* inside contraction  ic = c - (r - c) / 2 = (3 (2c) - 2 r) / 4
        LET ic == Over(Minus(Times(3, sum), Times(2, r)), 4) IN
        IF F(ic) < fw THEN [S |-> <<p1, p2, ic>>, ok |-> Div4(Minus(Times(3, sum), Times(2, r)))]
        ELSE [S |-> <<p1, Over(Plus(p1, p2), 2), Over(Plus(p1, pw), 2)>>, ok |-> Div4(Minus(Times(3, sum), Times(2, r))) /\ Even(Plus(p1, p2)) /\ Even(Plus(p1, pw))]
     ELSE [S |-> S, ok |-> TRUE]                            \* f_r = f_1 < f_n under the strict rule: NO branch
Step == /\ ~done /\ it < MaxIter /\ precise
        /\ LET res == Iter(P)  S2 == Sort3(res.S) IN
           /\ P' = S2 /\ precise' = res.ok
           /\ stalled' = (S2 = P /\ F(P[3]) > F(P[1]))      \* nothing moved although the simplex is not flat: the next iteration is this one again
           /\ done' = (F(S2[3]) = F(S2[1]) /\ (StopRule = "values" \/ (S2[1] = S2[2] /\ S2[2] = S2[3])))   \* the stop test, exact arithmetic
        /\ it' = it + 1 /\ UNCHANGED <<q, cfg0>>
Next == Step
Spec == Init /\ [][Next]_vars
NoStall == ~stalled
NoFalseStop == done => (P[1] = P[2] /\ P[2] = P[3])        \* the routine stops only on a collapsed simplex (a strictly convex f has ONE minimiser)
PrecisionOK == precise                                      \* K bits suffice for MaxIter iterations (nothing was pruned)
BestNeverWorse == F(P[1]) <= F(P[2]) /\ F(P[2]) <= F(P[3])
\* every vertex value stays below the worst initial value (the simplex of a convex quadratic never leaves the initial level set upwards)
FlatStart == it = 0 /\ F(P[1]) = F(P[3])
\* GEN: every start of the family, once (at it = 0), for the conformance run
Emit == (DoEmit /\ it = 0) => PrintT("@@" \o ToJson([a |-> q[1], b |-> q[2], c |-> q[3], x0 |-> cfg0[1], y0 |-> cfg0[2], s1 |-> cfg0[3], s2 |-> cfg0[4],
                                                     flat |-> IF F(P[1]) = F(P[3]) THEN 1 ELSE 0]))
====
