SPECIFICATION Spec
CONSTANTS
  N = 2
  MaxIt = 3
  MaxTh = 2
  Clear = "stale"
  Divide = "counter"
INVARIANT SecondCallIndependent
