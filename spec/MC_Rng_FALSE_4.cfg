SPECIFICATION Spec
CONSTANTS
  NW = 4
  K = 1
  PerThread = FALSE
  Shape = "seedDraw"
INVARIANT StreamIsolation
VIEW NoSched
CHECK_DEADLOCK FALSE
