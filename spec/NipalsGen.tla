---- MODULE NipalsGen ----
(* C18 (GEN).  Degenerate inputs for the fitting routines, enumerated by TLC with their exact rank.        *)
(*   kind "mat"  : every matrix of the configured shapes over {-1,0,1}                                   *)
(*   kind "pert" : dyadic perturbation  M + 2^-Ex * e_i e_j'  (numerators  2^Ex*M + e_i e_j'  are emitted) *)
(*   kind "resp" : matrix plus a two-valued / constant response y in {0,1}^rows (PLS)                      *)
(*   kind "prod" : LARGER shapes (classes K1/K2 of INPUT-CLASSES.md: tall, wide, row counts around the      *)
(*                 thread-slice and block boundaries 4, 8, 16, 32, 64 +-1): integer matrices of low rank      *)
(*                 M = A B with A (n x r) and B (r x p) small-integer tables given by closed formulas, rows    *)
(*                 repeated with period `rep` (duplicate rows); the exact rank is NOT taken from r: it is       *)
(*                 computed by the same rational elimination as for every other kind                          *)
(*   kind "multi" : rank-deficient integer X = A B (A, B over {-1,0,1}, inner rank 2..3, shapes 4x3, 5x3, 6x4) with a pseudo-random      *)
(*                 integer response BLOCK Y (2..3 columns over -2..2), tables driven by Seed.  PLS with more latent variables than the     *)
(*                 rank builds the surplus ones on rounding residue; a few percent of these inputs run into the pass ceiling of LVCalc      *)
(*                 with an ALTERNATING convergence value (the class of seeded change C18-adv4; measured: 3.5 - 4 % of such inputs).         *)
(*   kind "prodresp" : the same with a two-valued response (rows <= ProdRespRows so that the Krylov numbers    *)
(*                 stay inside TLC's integers)                                                              *)
(* Shapes with more than FullCells cells are sampled deterministically when SampleMod > 1 (cell index mod  *)
(* SampleMod = SampleRes); smaller shapes are always complete.  Every case is printed through Emit with the exact rank *)
(* of the raw and of the column-centred matrix, the constant-column flags and (resp) whether X_c'y_c # 0    *)
(* and the exact number of PLS1 latent variables (dimension of the Krylov space of X_c'X_c and X_c'y_c).   *)
EXTENDS ExactRank, TLC, Json
CONSTANTS MaxR, MaxC, FullCells, SampleMod, SampleRes, Ex, Kinds,
          YNorm,     \* TRUE: only responses with y[1] = 0 (y and 1 - y have the same centred direction up to sign)
          ProdTier,  \* "none" | "quick" | "thorough": which list of larger shapes the kinds "prod" / "prodresp" run through
          Seed       \* 0..9972, from the check's seed: drives the pseudo-random tables of kind "multi"

Vals == {-1, 0, 1}
RECURSIVE Pow(_, _)
Pow(b, k) == IF k = 0 THEN 1 ELSE b * Pow(b, k - 1)
\* position index of a matrix in the enumeration (base-3 digits of the cells, row-major)
RECURSIVE CellIdx(_, _, _)
CellIdx(M, nc, k) == IF k = 0 THEN 0
                     ELSE 3 * CellIdx(M, nc, k - 1) + (M[((k - 1) \div nc) + 1][((k - 1) % nc) + 1] + 1)
Idx(M) == CellIdx(M, Len(M[1]), Len(M) * Len(M[1]))
Sampled(M) == Len(M) * Len(M[1]) <= FullCells \/ SampleMod = 1 \/ Idx(M) % SampleMod = SampleRes
Mats == UNION {[1..nr -> [1..nc -> Vals]] : nr \in 1..MaxR, nc \in 1..MaxC}

\* ---- larger shapes (kind "prod")
ProdShapesQuick == {<<4, 2>>, <<5, 3>>, <<6, 4>>, <<7, 2>>, <<8, 3>>, <<9, 5>>, <<2, 5>>, <<3, 6>>, <<4, 8>>, <<4, 4>>, <<5, 5>>, <<4, 5>>, <<5, 4>>,
                    <<15, 3>>, <<16, 2>>, <<17, 4>>, <<32, 3>>, <<33, 2>>, <<1, 4>>, <<6, 1>>}
ProdShapesThorough == ProdShapesQuick \cup {<<31, 3>>, <<63, 2>>, <<64, 3>>, <<65, 4>>, <<3, 8>>, <<2, 7>>, <<6, 6>>, <<7, 8>>, <<9, 2>>, <<10, 3>>,
                                            <<12, 4>>, <<24, 3>>, <<25, 2>>, <<48, 2>>, <<5, 2>>, <<6, 3>>, <<7, 5>>, <<8, 8>>}
ProdShapes == CASE ProdTier = "quick" -> ProdShapesQuick [] ProdTier = "thorough" -> ProdShapesThorough [] OTHER -> {}
ProdSeeds == IF ProdTier = "thorough" THEN 0..5 ELSE 0..1
ProdRespRows == 5
AEntry(i, k, s) == ((i * i + 3 * i * k + 2 * k + s) % 5) - 2
BEntry(k, j, s) == ((k + 2 * j + j * k * (s + 1) + s) % 3) - 1
\* rep = 0: the first column of A is the (centred) row index, so that all rows of a tall matrix differ; rep > 0: rows repeat with period rep
AEntryX(i, k, s, rep, n) == IF rep = 0 THEN (IF k = 1 THEN i - ((n + 1) \div 2) ELSE AEntry(i, k, s)) ELSE AEntry(((i - 1) % rep) + 1, k, s)
RECURSIVE ProdCell(_, _, _, _, _, _)
ProdCell(i, j, r, s, rep, n) == IF r = 0 THEN 0 ELSE AEntryX(i, r, s, rep, n) * BEntry(r, j, s) + ProdCell(i, j, r - 1, s, rep, n)
ProdMat(n, p, r, s, rep) == [i \in 1..n |-> [j \in 1..p |-> ProdCell(i, j, r, s, rep, n)]]
ProdY(n, s) == [i \in 1..n |-> IF s % 4 = 3 THEN 1 ELSE (i \div (1 + (s % 3))) % 2]      \* s % 4 = 3: a constant response
Min2(u, v) == IF u < v THEN u ELSE v

\* ---- pseudo-random small-integer tables (kind "multi"); every intermediate stays far inside 32 bits
Hash(a, b, c) == (a * 7919 + b * 3571 + c * 1223 + 101) % 65521
Mix(x) == ((x % 4093) * 3301 + (x \div 4093) * 2749 + 977) % 65521
RCell(cse, pos, m) == (Mix(Hash(Seed, cse, pos)) % (2 * m + 1)) - m
MultiShapes == {<<5, 3, 2, 2>>, <<5, 3, 2, 3>>, <<4, 3, 2, 2>>, <<6, 4, 2, 3>>, <<6, 4, 3, 2>>}      \* objects, columns, inner rank, responses
\* Since the null-latent-variable guard of LVCalc is relative (afff38a) most residue iterations never start; what still reaches the pass ceiling
\* (with an alternating convergence value) is about 0.5 % of the 4x3 / inner rank 2 / two-response inputs: that shape gets many more cases
MultiCount(sh) == CASE ProdTier = "quick" -> (IF sh = <<4, 3, 2, 2>> THEN 6000 ELSE 80)
                    [] ProdTier = "thorough" -> (IF sh = <<4, 3, 2, 2>> THEN 12000 ELSE 400) [] OTHER -> 0
MultiCase(sh, c) == c * 16 + ((sh[1] + 3 * sh[2] + 5 * sh[3] + 7 * sh[4]) % 16)        \* the five shapes land on 6, 13, 5, 1, 15
RECURSIVE MultiCell(_, _, _, _)
MultiCell(cse, i, j, k) == IF k = 0 THEN 0 ELSE RCell(cse, 100 + 10 * i + k, 1) * RCell(cse, 200 + 10 * k + j, 1) + MultiCell(cse, i, j, k - 1)
MultiX(sh, cse) == [i \in 1..sh[1] |-> [j \in 1..sh[2] |-> MultiCell(cse, i, j, sh[3])]]
MultiY(sh, cse) == [i \in 1..sh[1] |-> [j \in 1..sh[4] |-> RCell(cse, 300 + 10 * i + j, 2)]]

VARIABLES kind, M, y, ex
vars == <<kind, M, y, ex>>
Perturb(B, i, j) == [a \in 1..Len(B) |-> [b \in 1..Len(B[1]) |-> Pow(2, Ex) * B[a][b] + (IF a = i /\ b = j THEN 1 ELSE 0)]]
InitSmall == \E B \in Mats :
          /\ Sampled(B)
          /\ \/ "mat" \in Kinds /\ kind = "mat" /\ M = B /\ y = <<>> /\ ex = 0
             \/ /\ "pert" \in Kinds /\ kind = "pert" /\ y = <<>> /\ ex = Ex
                /\ \E pos \in {<<1, 1>>, <<Len(B), Len(B[1])>>} : M = Perturb(B, pos[1], pos[2])
             \/ /\ "resp" \in Kinds /\ kind = "resp" /\ M = B /\ ex = 0 /\ Len(B) >= 2
                /\ y \in [1..Len(B) -> {0, 1}] /\ (YNorm => y[1] = 0)
InitProd == \E sh \in ProdShapes : \E r \in 0..Min2(3, Min2(sh[1], sh[2])) : \E s \in ProdSeeds : \E rep \in {0, sh[1], 2} :
          /\ rep <= sh[1] /\ (r = 0 => (s = 0 /\ rep = sh[1])) /\ ex = 0
          /\ M = ProdMat(sh[1], sh[2], r, s, rep)
          /\ \/ kind = "prod" /\ y = <<>>
             \/ kind = "prodresp" /\ sh[1] \in 2..ProdRespRows /\ y = ProdY(sh[1], s + r)
InitMulti == \E sh \in MultiShapes : \E c \in 0..(MultiCount(sh) - 1) :
          kind = "multi" /\ ex = 0 /\ M = MultiX(sh, MultiCase(sh, c)) /\ y = MultiY(sh, MultiCase(sh, c))       \* y is a MATRIX here (rows of the response block)
Init == InitSmall \/ InitProd \/ InitMulti
Next == UNCHANGED vars
Spec == Init /\ [][Next]_vars

B2I(b) == IF b THEN 1 ELSE 0
HasY == kind \in {"resp", "prodresp"}
IsProd == kind \in {"prod", "prodresp", "multi"}
YCol(k) == [i \in 1..Len(M) |-> y[i][k]]
\* The rows of the mean-centred matrix and the differences M[i] - M[1] span the same space (each centred row is an average of
\* differences, each difference is a difference of centred rows): same rank, but the entries stay as small as those of M, which keeps
\* the elimination of a 33 x 3 or 65 x 4 matrix inside TLC's 32-bit integers (CenterN multiplies everything by n first).
RowDiff(B) == IF Len(B) = 1 THEN <<[j \in 1..Len(B[1]) |-> 0]>> ELSE [i \in 1..(Len(B) - 1) |-> [j \in 1..Len(B[1]) |-> B[i + 1][j] - B[1][j]]]
\* a tall matrix is eliminated through its transpose (few rows, few pivots)
RankT(B) == IF Len(B) > Len(B[1]) THEN Rank(TransposeM(B)) ELSE Rank(B)
RankC(B) == IF IsProd THEN RankT(RowDiff(B)) ELSE RankCentred(B)
YConst == HasY /\ \A i \in 1..Len(y) : y[i] = y[1]
\* class K8 of INPUT-CLASSES.md, decided on the exact data: two equal rows / two equal columns
DupRow == \E i, k \in 1..Len(M) : i < k /\ M[i] = M[k]
DupCol == \E j, k \in 1..Len(M[1]) : j < k /\ \A i \in 1..Len(M) : M[i][j] = M[i][k]
\* PLS1 latent-variable count for the larger shapes: the Krylov sequence s, As, A^2 s, ... stops growing at its dimension d <= rank(X_c),
\* so its first rank(X_c) members already span the whole Krylov space - and the numbers stay small enough for TLC's integers
KrylovRankD(B, yy) == LET n == Len(B)
                          Xc == CenterN(B)
                          yc == CenterN([i \in 1..n |-> <<yy[i]>>])
                          yv == [i \in 1..n |-> yc[i][1]]
                          p == Len(B[1])
                          s == ERPrim([j \in 1..p |-> ERDotCol(Xc, j, yv, n)])
                          d == RankC(B)
                      IN IF d = 0 \/ \A j \in 1..p : s[j] = 0 THEN 0 ELSE Rank(KrylovRows(Gram(Xc), s, d))
KRank == IF IsProd THEN KrylovRankD(M, y) ELSE KrylovRank(M, y)
CaseRec == [kind |-> kind, nr |-> Len(M), nc |-> Len(M[1]), cells |-> M, ex |-> ex, y |-> y,
            rank0 |-> RankT(M), rankc |-> RankC(M),
            cc |-> [j \in 1..Len(M[1]) |-> B2I(ColConst(M, j))],
            dr |-> B2I(DupRow), dc |-> B2I(DupCol),
            cov |-> IF HasY THEN B2I(CovNonZero(M, y)) ELSE 0,
            krank |-> IF HasY THEN KRank ELSE 0,
            ycov |-> IF kind = "multi" THEN [k \in 1..Len(y[1]) |-> B2I(CovNonZero(M, YCol(k)))] ELSE <<>>,      \* per response column: X_c'y_c # 0
            ycst |-> B2I(YConst)]
Emit == PrintT("@@" \o ToJson(CaseRec))
\* theorems evaluated on every generated case (the exact-rank module checks itself)
\* cross-checks between two exact routes to the same number cost a second elimination / Krylov sequence: the cases of at most 6 cells in both
\* tiers, and a fixed third of the larger small cases in the thorough tier
XCheck == Len(M) * Len(M[1]) <= 6 \/ (ProdTier = "thorough" /\ (M[1][1] + 2 * M[Len(M)][Len(M[1])] + Len(M)) % 3 = 0)
Theorems == /\ ~IsProd => (RankSane(M) /\ (XCheck => RankCentred(M) = RankT(RowDiff(M))))      \* the two routes to the centred rank agree
            /\ IsProd => (RankC(M) \in {RankT(M) - 1, RankT(M)} /\ RankC(M) <= Len(M) - 1 /\ RankT(M) <= 3)
            /\ (HasY /\ YConst) => ~CovNonZero(M, y)          \* a constant response has no covariance with X
            /\ (HasY /\ RankC(M) = 0) => ~CovNonZero(M, y)
            /\ HasY => LET k == KRank IN k \in 0..RankC(M) /\ (k = 0) = ~CovNonZero(M, y)
            /\ (kind = "resp" /\ XCheck) => KrylovRankD(M, y) = KrylovRank(M, y)      \* the truncated Krylov sequence gives the same count on every small case
            /\ DupRow => RankC(M) <= Len(M) - 2 \/ Len(M) = 1    \* two equal rows: the centred rows span at most n - 2 dimensions
            /\ (DupCol \/ \E j \in 1..Len(M[1]) : ColConst(M, j)) => RankC(M) <= Len(M[1]) - 1
====
