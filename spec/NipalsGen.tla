---- MODULE NipalsGen ----
(* C18 (GEN).  Degenerate inputs for the fitting routines, enumerated by TLC with their exact rank.        *)
(*   kind "mat"  : every matrix of the configured shapes over {-1,0,1}                                   *)
(*   kind "pert" : dyadic perturbation  M + 2^-Ex * e_i e_j'  (numerators  2^Ex*M + e_i e_j'  are emitted) *)
(*   kind "resp" : matrix plus a two-valued / constant response y in {0,1}^rows (PLS)                      *)
(* Shapes with more than FullCells cells are sampled deterministically when SampleMod > 1 (cell index mod  *)
(* SampleMod = SampleRes); smaller shapes are always complete.  Every case is printed through Emit with the exact rank *)
(* of the raw and of the column-centred matrix, the constant-column flags and (resp) whether X_c'y_c # 0    *)
(* and the exact number of PLS1 latent variables (dimension of the Krylov space of X_c'X_c and X_c'y_c).   *)
EXTENDS ExactRank, TLC, Json
CONSTANTS MaxR, MaxC, FullCells, SampleMod, SampleRes, Ex, Kinds,
          YNorm      \* TRUE: only responses with y[1] = 0 (y and 1 - y have the same centred direction up to sign)

Vals == {-1, 0, 1}
RECURSIVE Pow(_, _)
Pow(b, k) == IF k = 0 THEN 1 ELSE b * Pow(b, k - 1)
\* position index of a matrix in the enumeration (base-3 digits of the cells, row-major)
RECURSIVE CellIdx(_, _, _)
CellIdx(M, nc, k) == IF k = 0 THEN 0
                     ELSE 3 * CellIdx(M, nc, k - 1) + (M[((k - 1) \div nc) + 1][((k - 1) % nc) + 1] + 1)
Idx(M) == CellIdx(M, Len(M[1]), Len(M) * Len(M[1]))
Sampled(M) == Len(M) * Len(M[1]) <= FullCells \/ SampleMod = 1 \/ Idx(M) % SampleMod = SampleRes
Mats == UNION {[1..nr -> [1..nc -> Vals]] : nr \in 1..MaxR, nc \in 1..MaxC}

VARIABLES kind, M, y, ex
vars == <<kind, M, y, ex>>
Perturb(B, i, j) == [a \in 1..Len(B) |-> [b \in 1..Len(B[1]) |-> Pow(2, Ex) * B[a][b] + (IF a = i /\ b = j THEN 1 ELSE 0)]]
Init == \E B \in Mats :
          /\ Sampled(B)
          /\ \/ "mat" \in Kinds /\ kind = "mat" /\ M = B /\ y = <<>> /\ ex = 0
             \/ /\ "pert" \in Kinds /\ kind = "pert" /\ y = <<>> /\ ex = Ex
                /\ \E pos \in {<<1, 1>>, <<Len(B), Len(B[1])>>} : M = Perturb(B, pos[1], pos[2])
             \/ /\ "resp" \in Kinds /\ kind = "resp" /\ M = B /\ ex = 0 /\ Len(B) >= 2
                /\ y \in [1..Len(B) -> {0, 1}] /\ (YNorm => y[1] = 0)
Next == UNCHANGED vars
Spec == Init /\ [][Next]_vars

B2I(b) == IF b THEN 1 ELSE 0
YConst == kind = "resp" /\ \A i \in 1..Len(y) : y[i] = y[1]
CaseRec == [kind |-> kind, nr |-> Len(M), nc |-> Len(M[1]), cells |-> M, ex |-> ex, y |-> y,
            rank0 |-> Rank(M), rankc |-> RankCentred(M),
            cc |-> [j \in 1..Len(M[1]) |-> B2I(ColConst(M, j))],
            cov |-> IF kind = "resp" THEN B2I(CovNonZero(M, y)) ELSE 0,
            krank |-> IF kind = "resp" THEN KrylovRank(M, y) ELSE 0,
            ycst |-> B2I(YConst)]
Emit == PrintT("@@" \o ToJson(CaseRec))
\* theorems evaluated on every generated case (the exact-rank module checks itself)
Theorems == /\ RankSane(M)
            /\ (kind = "resp" /\ YConst) => ~CovNonZero(M, y)          \* a constant response has no covariance with X
            /\ (kind = "resp" /\ RankCentred(M) = 0) => ~CovNonZero(M, y)
            /\ kind = "resp" => LET k == KrylovRank(M, y) IN k \in 0..RankCentred(M) /\ (k = 0) = ~CovNonZero(M, y)
====
