---- MODULE Layout ----
(* C03 (shared with C05/C15): column layout of the multi-response / multi-LV tables of a PLS model.          *)
(*   recalculated_y, recalc_residuals, predicted_y (pls.c:531-551, 751-786) have ny*nlv columns, LV-major:      *)
(*   the column of (latent variable a \in 1..nlv, response j \in 0..ny-1) is Col(a, j) = ny*(a-1) + j.          *)
(* The residual table must be "recalculated - observed response" column by column, so the response a column  *)
(* is taken against must be RespOf(col) = col % ny.  The rule the code uses is a constant of the model:       *)
(*   ResidualIndex = "div_nlv" : floor(col / nlv)      (pls.c:549 on the pinned tree)                           *)
(*   ResidualIndex = "mod_ny"  : col % ny                                                                       *)
(* Which variant the code implements is never assumed: the conformance run of C03 infers it from the residual *)
(* columns of real models and feeds it back here (variant agreement).                                         *)
EXTENDS Integers, FiniteSets, TLC
CONSTANTS MaxNy, MaxNlv, ResidualIndex
VARIABLES ny, nlv

Col(a, j) == ny * (a - 1) + j
Cols == 0..(ny * nlv - 1)
RespOf(c) == c % ny
LvOf(c) == c \div ny + 1
RespImpl(c) == IF ResidualIndex = "div_nlv" THEN c \div nlv ELSE c % ny

LInit == ny \in 1..MaxNy /\ nlv \in 1..MaxNlv
LNext == UNCHANGED <<ny, nlv>>
LSpec == LInit /\ [][LNext]_<<ny, nlv>>

\* (a, j) |-> Col(a, j) is a bijection onto 0..ny*nlv-1 and RespOf / LvOf invert it
LayoutBijective == /\ {Col(a, j) : a \in 1..nlv, j \in 0..(ny - 1)} = Cols
                   /\ Cardinality({<<a, j>> : a \in 1..nlv, j \in 0..(ny - 1)}) = Cardinality(Cols)
                   /\ \A a \in 1..nlv, j \in 0..(ny - 1) : RespOf(Col(a, j)) = j /\ LvOf(Col(a, j)) = a
\* the implemented residual rule takes every column against its own response (and stays inside the response block)
ResidualAgainstOwnResponse == \A c \in Cols : RespImpl(c) = RespOf(c) /\ RespImpl(c) \in 0..(ny - 1)
====
