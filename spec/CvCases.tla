---- MODULE CvCases ----
(* C05.  The stratified case families of the conformance runs over the quantifier / learner domains / classes of      *)
(* CvDomain.tla (K1..K10 of INPUT-CLASSES.md), all as TLA+ definitions.  TLC emits every chain of the                 *)
(* families (GEN_CvCases_*.cfg); the driver replays them into the real LeaveOneOut / KFoldCV /                        *)
(* BootstrapRandomGroupsCV; the trace specification re-checks InQuantifier /\ LearnerDomain on every recorded Run.    *)
(* A chain is a SEQUENCE of cases executed in ONE process into the same (already sized) output matrices (class K7).   *)
EXTENDS CvDomain, Json
CONSTANT Tier                       \* "quick" | "thorough"
VARIABLE ch

Thorough == Tier = "thorough"
---------------------------------------------------------------------------------------------------------------------
---------------------------------------------------------------------------------------------------------------------
(* case construction *)
Case(scheme, algo, n, p, ny, nlv, groups, iters, nth, lab, fam) ==
  [scheme |-> scheme, algo |-> algo, n |-> n, p |-> p, ny |-> ny, nlv |-> nlv, xs |-> IF algo = "LDA" THEN 0 ELSE (n + nth) % 2,
   ys |-> IF algo = "PLS" THEN (n + p + nth) % 2 ELSE 0,
   k |-> IF algo = "LDA" THEN 2 ELSE 0, groups |-> groups, iters |-> iters, nth |-> nth, dcls |-> 0, sens |-> 0, nproc |-> 1,
   dseed |-> 1000 * n + 100 * p + 10 * ny + nth, lab |-> lab, fam |-> fam]
Boot(algo, n, p, ny, nlv, groups, iters, nth, fam) == Case("boot", algo, n, p, ny, nlv, groups, iters, nth, <<>>, fam)
Loo(algo, n, p, ny, nlv, nth, fam) == Case("loo", algo, n, p, ny, nlv, 0, 1, nth, <<>>, fam)
KFold(algo, lab, p, ny, nlv, nth, fam) == Case("kfold", algo, Len(lab), p, ny, nlv, 0, 1, nth, lab, fam)
One(S) == {<<x>> : x \in S}

(* label vectors (user supplied groups of KFoldCV): 0-based objects, arbitrary non-negative labels *)
L9cyc == <<2, 0, 1, 2, 0, 1, 2, 0, 1>>                     \* unsorted, non-contiguous, balanced
L10gap == <<5, 0, 2, 5, 0, 2, 5, 0, 2, 0>>                   \* gaps 1,3,4: empty fold rows
L10from1 == <<1, 2, 3, 1, 2, 3, 1, 2, 3, 3>>                 \* labels not starting at 0: fold row 0 empty
L10once == <<0, 1, 0, 1, 4, 0, 1, 0, 1, 0>>                  \* label 4 used once (and gaps)
L10oncefirst == <<3, 0, 1, 0, 1, 0, 1, 0, 1, 1>>             \* first object alone in the LAST fold
L10oncelast == <<0, 1, 2, 0, 1, 2, 0, 1, 2, 6>>              \* last object alone, label 6
L10desc == <<3, 3, 3, 2, 2, 2, 1, 1, 0, 0>>                  \* sorted descending, contiguous, unbalanced
L12big == <<11, 0, 11, 0, 11, 0, 11, 0, 7, 7, 7, 7>>         \* large labels: 9 empty rows
L8pairs == <<0, 1, 2, 3, 3, 2, 1, 0>>                        \* four folds of two
L12unb == <<1, 1, 1, 1, 1, 1, 1, 0, 0, 3, 3, 3>>             \* unbalanced 7/2/3 with a gap
L30 == [i \in 1..30 |-> (7 * i) % 5]                         \* the largest data set, 5 interleaved folds
L6 == <<1, 0, 1, 0, 2, 2>>                                   \* the smallest data set: 3 folds of two
LabSetQuick == {L9cyc, L10gap, L10from1, L10once, L10oncefirst, L10oncelast, L10desc, L12big, L8pairs, L12unb, L30, L6}
\* thorough: every vector of length 8 over {0, 1, 3} with at least two labels whose largest fold leaves >= 4 training objects ...
LabSetThorough == LabSetQuick \cup {l \in [1..8 -> {0, 1, 3}] : Cardinality(Range(l)) >= 2 /\ MaxCount(l) <= 4 /\ l[1] = 3 /\ l[8] = 0}

Algos3 == {"PLS", "MLR", "LDA"}
Algos2 == {"PLS", "MLR"}
Pn(algo, nth) == IF algo = "LDA" THEN 8 ELSE IF nth >= 7 THEN 6 ELSE 7

ThreadLabs(nth) == IF Thorough THEN {L9cyc, L10gap, L8pairs, L12big} ELSE {IF nth % 2 = 0 THEN L9cyc ELSE L10gap}
(* K6: thread counts 1..8 for all three schemes and learners, incl. counts > work items and > objects *)
FamThreads ==
  {Loo(a, m, 2, IF a = "LDA" THEN 1 ELSE 1 + (nth % 3), IF a = "PLS" THEN 1 + (nth % 2) ELSE 1, nth, "threads")
       : a \in Algos3, nth \in 1..8, m \in IF Thorough THEN {6, 7, 8, 9, 13, 16, 17} ELSE {6, 7, 8}}
  \cup {Boot(a, IF a = "LDA" THEN 12 ELSE 9, IF a = "PLS" THEN 3 ELSE 2, IF a = "LDA" THEN 1 ELSE 1 + (nth % 3), IF a = "PLS" THEN 2 ELSE 1,
             IF a = "LDA" THEN 6 ELSE 3 + (nth % 2), it, nth, "threads") : a \in Algos3, nth \in 1..8, it \in IF Thorough THEN {1, 3, 4, 6, 7, 12} ELSE {3}}
  \cup UNION {{KFold(a, l, 2, 1 + (nth % 3), IF a = "PLS" THEN 1 + (nth % 2) ELSE 1, nth, "threads") : a \in Algos2, l \in ThreadLabs(nth)} : nth \in 1..8}
FamThreadsQuick == {x \in FamThreads : x.scheme # "loo" \/ x.n = Pn(x.algo, x.nth)}

(* iterations 1..12, every value *)
FamIters == {Boot(a, IF a = "LDA" THEN 12 ELSE 8, 2, IF a = "LDA" THEN 1 ELSE 1 + (it % 2), IF a = "PLS" THEN 1 + (it % 2) ELSE 1, IF a = "LDA" THEN 6 ELSE 4, it, nth, "iters")
               : a \in Algos3, it \in 1..12, nth \in IF Thorough THEN 1..8 ELSE {1, 2, 5}}
FamItersQuick == {x \in FamIters : (x.algo = "PLS" /\ x.iters % 3 = 0) \/ (x.algo = "MLR" /\ x.iters % 3 = 1) \/ (x.algo = "LDA" /\ x.iters % 3 = 2)}
(* group counts 2..n, incl. n-1 and n, counts that do not divide, counts that leave whole rows of the fold matrix empty *)
FamGroups ==
  {Boot(a, m, 1, IF a = "PLS" THEN 2 ELSE 1, 1, g, 2, 1 + (g % 2), "groups") : a \in Algos2, m \in IF Thorough THEN 6..14 \cup {29, 30} ELSE {6, 7, 9}, g \in 2..30}
  \cup {Boot("LDA", 12, 2, 1, 1, g, 2, 1 + (g % 2), "groups") : g \in {4, 5, 6, 11, 12}}
FamGroupsOk == {x \in FamGroups : x.groups <= x.n}
FamGroupsQuick == {x \in FamGroupsOk : x.algo = "LDA" \/ (x.algo = "PLS") = (x.groups % 2 = 0) \/ x.groups >= x.n - 1}

(* K1 shapes: more responses than predictors, single predictor, nlv = p, 1 < nlv < p, wide / square training sets *)
ShapeSet == {<<"PLS", 1, 3, 1>>, <<"MLR", 1, 3, 1>>, <<"PLS", 6, 3, 6>>, <<"PLS", 3, 2, 2>>, <<"PLS", 6, 1, 1>>, <<"MLR", 6, 2, 1>>, <<"PLS", 2, 3, 2>>, <<"MLR", 2, 3, 1>>}
FamShapes ==
  {Boot(s[1], 14, s[2], s[3], s[4], 5, 2, 2, "shapes") : s \in ShapeSet}
  \cup {Loo(s[1], 12, s[2], s[3], s[4], 3, "shapes") : s \in ShapeSet}
  \cup {KFold(s[1], L12unb, s[2], s[3], s[4], 2, "shapes") : s \in ShapeSet \ {<<"MLR", 6, 2, 1>>}}
  \cup {Loo("PLS", 6, 6, 2, 2, 2, "shapes"), Loo("PLS", 7, 6, 3, 3, 8, "shapes"), Boot("PLS", 6, 6, 1, 2, 6, 2, 1, "shapes"),
        Boot("PLS", 8, 6, 2, 2, 4, 3, 3, "shapes"), KFold("PLS", L8pairs, 6, 2, 3, 3, "shapes"), KFold("PLS", L6, 5, 3, 1, 1, "shapes"),
        Boot("PLS", 30, 6, 3, 4, 7, 2, 2, "shapes"), Loo("PLS", 8, 6, 2, 3, 4, "shapes"), Loo("MLR", 30, 6, 3, 1, 8, "shapes"), KFold("PLS", L30, 6, 3, 5, 4, "shapes")}

(* own-response insensitivity for EVERY object *)
FamSens ==
  {[x EXCEPT !.sens = 1, !.fam = "sens"] : x \in
     {Loo(a, m, 1, 2, 1, nth, "") : a \in Algos2, m \in IF Thorough THEN 6..9 ELSE {6}, nth \in {1, 3}}
     \cup {Boot(a, m, 1, 2, 1, g, it, 1, "") : a \in Algos2, m \in IF Thorough THEN 6..9 ELSE {7}, g \in IF Thorough THEN {2, 3, 5, 6} ELSE {3}, it \in {1, 3}}
     \cup {KFold(a, l, 2, 2, IF a = "PLS" THEN 2 ELSE 1, nth, "") : a \in Algos2, l \in IF Thorough THEN {L8pairs, L9cyc, L10once, L10from1, L6} ELSE {L8pairs, L10once}, nth \in {1, 3}}
     \cup {Loo("LDA", 10, 2, 1, 1, nth, "") : nth \in {1, 4}} \cup {Boot("LDA", 10, 2, 1, 1, 10, 2, 1, ""), Boot("LDA", 12, 2, 1, 1, 6, 1, 1, "")}}

(* K3 / K4 / K5 / K8 data classes *)
FamData ==
  {[x EXCEPT !.dcls = d, !.fam = "data"] : d \in 1..7, x \in
     {Loo("PLS", 9, 3, 2, 2, 2, ""), Boot("PLS", 10, 3, 2, 2, 4, 2, 1, ""), KFold("PLS", L10gap, 3, 2, 2, 2, ""),
      Loo("MLR", 9, 2, 2, 1, 3, ""), Boot("MLR", 10, 2, 2, 1, 5, 3, 3, ""), KFold("MLR", L9cyc, 2, 2, 1, 1, "")}}
FamDataQuick == FamData

(* K6 (kernel side): the MT_* kernels inside every fit with a forced processor count > 1 *)
FamNproc == {[x EXCEPT !.nproc = q, !.fam = "nproc"] : q \in IF Thorough THEN {2, 3, 5, 16} ELSE {3}, x \in
               {Loo("PLS", 8, 3, 2, 2, 2, ""), Boot("PLS", 9, 3, 2, 2, 3, 2, 2, ""), KFold("PLS", L9cyc, 3, 2, 2, 3, "")}}

(* K10 label alphabets *)
FamLabels == {KFold(a, l, 2, IF a = "PLS" THEN 2 ELSE 1, IF a = "PLS" THEN 2 ELSE 1, nth, "labels")
                : a \in Algos2, l \in IF Thorough THEN LabSetThorough ELSE LabSetQuick, nth \in IF Thorough THEN {1, 2, 5} ELSE {2}}
FamLabelsQuick == {x \in FamLabels : (x.algo = "PLS") = (Len(x.lab) % 2 = 0) \/ LabOnce(x.lab)}

(* K7 histories: one process, the SAME output matrices: A ; same shape, other data ; other shape ; A again ; ... *)
Other(x) == [x EXCEPT !.dseed = x.dseed + 1]
HistChain(a, b) == <<a, Other(a), b, a, Other(b)>>
HistPairs ==
  {<<Loo("PLS", 8, 2, 2, 2, 2, "hist"), Loo("PLS", 11, 3, 3, 1, 3, "hist")>>,
   <<Boot("PLS", 9, 2, 2, 2, 3, 3, 1, "hist"), Boot("PLS", 7, 2, 1, 1, 7, 2, 2, "hist")>>,
   <<KFold("PLS", L9cyc, 2, 2, 2, 2, "hist"), KFold("PLS", L10once, 2, 1, 1, 3, "hist")>>,
   <<Loo("MLR", 8, 2, 2, 1, 3, "hist"), Boot("MLR", 10, 2, 3, 1, 5, 2, 1, "hist")>>,
   <<Boot("MLR", 9, 2, 2, 1, 3, 2, 2, "hist"), KFold("MLR", L10gap, 2, 1, 1, 2, "hist")>>,
   <<KFold("MLR", L8pairs, 1, 2, 1, 1, "hist"), Loo("PLS", 6, 2, 3, 2, 8, "hist")>>,
   <<Boot("LDA", 12, 2, 1, 1, 6, 2, 1, "hist"), Loo("LDA", 8, 3, 1, 1, 2, "hist")>>,
   <<Loo("LDA", 10, 2, 1, 1, 1, "hist"), Boot("PLS", 12, 3, 3, 3, 4, 1, 1, "hist")>>}
FamHist == {HistChain(pr[1], pr[2]) : pr \in HistPairs} \cup (IF Thorough THEN {HistChain(pr[2], pr[1]) : pr \in HistPairs} ELSE {})

RawSingles == IF Thorough THEN FamThreads \cup FamIters \cup FamGroupsOk \cup FamShapes \cup FamSens \cup FamData \cup FamNproc \cup FamLabels
              ELSE FamThreadsQuick \cup FamItersQuick \cup FamGroupsQuick \cup FamShapes \cup FamSens \cup FamDataQuick \cup FamNproc \cup FamLabelsQuick
Singles == {x \in RawSingles : Admissible(x)}
Chains == One(Singles) \cup {s \in FamHist : \A i \in 1..Len(s) : Admissible(s[i])}

ChainClasses(s) == [i \in 1..Len(s) |-> Classes(s[i]) \cup HistClasses(s, i)]
AllClasses == UNION {UNION {ChainClasses(s)[i] : i \in 1..Len(s)} : s \in Chains}

(* classes that MUST be emitted (vacuity of the stratification: a guard that silently filters a class away is an error) *)
Required ==
  {"K1:ny=1", "K1:ny>1", "K1:ny>p", "K1:p=1", "K1:p=6", "K1:nlv=1", "K1:nlv=p", "K1:1<nlv<p", "K1:train-wide-or-square", "K1:train-n=p+1", "K1:train-tall",
   "K2:groups-divide-n", "K2:groups-not-divide-n", "K2:empty-group-rows", "K2:n=k*nth", "K2:n=k*nth+1", "K2:n=k*nth-1", "K2:n-multiple-of-4", "K2:n=4k+1", "K2:n=4k-1",
   "K3:offset-1e6", "K4:scale-1e-6", "K4:scale-1e6", "K5:constant-column-0.1", "K8:duplicate-rows", "K8:fold-constant-column", "K8:constant-response",
   "K6:boot:nth>items", "K6:loo:nth>items", "K6:kfold:nth>items", "K6:loo:nth>objects", "K6:boot:nth-not-divide-items", "K6:loo:nth-not-divide-items",
   "K6:kfold:nth-not-divide-items", "K6:kernel-nproc=3",
   "K7:outputs-already-sized", "K7:same-shape-other-data:boot", "K7:same-shape-other-data:loo", "K7:same-shape-other-data:kfold", "K7:other-shape", "K7:first-again",
   "K10:label-gap", "K10:labels-not-from-0", "K10:label-used-once", "K10:unsorted", "K10:non-contiguous", "K10:unbalanced", "K10:balanced", "K10:large-label",
   "G:groups=n", "G:groups=n-1", "G:groups=2",
   "P:x-autoscaling:boot", "P:x-autoscaling:loo", "P:x-autoscaling:kfold", "P:y-autoscaling:boot", "P:y-autoscaling:loo", "P:y-autoscaling:kfold"}
  \cup {"IT:iters=" \o ToString(i) : i \in 1..12}
  \cup {"K6:" \o s \o ":" \o a \o ":nth=" \o ToString(t) : s \in {"boot", "loo"}, a \in Algos3, t \in 1..8}
  \cup {"K6:kfold:" \o a \o ":nth=" \o ToString(t) : a \in Algos2, t \in 1..8}
  \cup {"S:own-response-every-object:" \o s \o ":" \o a : s \in {"boot", "loo"}, a \in Algos3}
  \cup {"S:own-response-every-object:kfold:" \o a : a \in Algos2}
  \cup {"R:residual-ny>1-nlv>1:" \o s : s \in {"boot", "loo", "kfold"}}
Missing == Required \ AllClasses
ASSUME RequiredEmitted == IF Missing = {} THEN TRUE ELSE Print(<<"classes not emitted", Missing>>, FALSE)

GInit == ch \in Chains
GNext == UNCHANGED ch
GSpec == GInit /\ [][GNext]_ch
Emit == PrintT("@@" \o ToJson([chain |-> ch, cls |-> [i \in 1..Len(ch) |-> ChainClasses(ch)[i]]]))
====
