SPECIFICATION LSpec
CONSTANTS
  Budget = 10
  MaxRank = 3
  Ns = {2, 60}
  Fault = "none"
  Alphabet = {1}
  MaxLen = 1
  ShapeSet = "none"
  StartRule = "argmax"
INVARIANT LedgerAccepts
INVARIANT BudgetNonNegative
INVARIANT FinishAfterNpc
INVARIANT FullRankCloses
INVARIANT EvalsOrdered
INVARIANT LTypeOK
