---- MODULE NMTieBox ----
(* instance constants of NMTie that a .cfg cannot spell (negative numbers in a set) *)
EXTENDS NMTie
BoxConst == (-2)..2
BoxWide == (-3)..3
====
