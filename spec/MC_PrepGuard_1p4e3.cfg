SPECIFICATION Spec
CONSTANTS
  Theta9 = 1400000
  MaxRows = 60
  Mags = {1, 3, 10, 58, 100, 1000, 12346, 100000, 1000000}
INVARIANT GuardSound
CHECK_DEADLOCK FALSE
