---- MODULE TracePlsLs ----
(* Trace specification for C04: the events recorded by harness/c04_drv.c from real PLS models (base problems and the input /     *)
(* history classes of INPUT-CLASSES.md) drive the extended least-squares ledger of PlsLs.tla.  All conjuncts are property layer   *)
(* (what C04 states, or - LBias / LXUnits / LExact / LOlsNew - what the specification models beyond it: the check reports a rejection of    *)
(* those three as an extra finding).  The class tags the evidence counts are re-derived here from the logged dimensions:          *)
(* shape = ShapeOf(n, p), block codes = BlkCode(n | p | nlv), history position and relation = what the history ledger holds.       *)
EXTENDS PlsLs, TraceBase
VARIABLE l
tvars == <<allvars, l>>
Ev == Tr[l]
Step == l' = l + 1
At(name) == l <= Len(Tr) /\ Ev.e = name

TInit == l = 1 /\ KInit
TReset == At("Reset") /\ Step /\ LReset(Ev.sub)
TSkip == At("Skip") /\ Step /\ UNCHANGED allvars
TFit == /\ At("Fit") /\ Step
        /\ LFit(Ev.n, Ev.p, Ev.ny, Ev.nlv, Ev.xs, Ev.ys, Ev.rank, Ev.offx, Ev.offy, Ev.hist, Ev.hrel, Ev.exk)
        /\ Ev.shape = ShapeOf(Ev.n, Ev.p)
        /\ Ev.nb = BlkCode(Ev.n) /\ Ev.pb = BlkCode(Ev.p) /\ Ev.lb = BlkCode(Ev.nlv)
        /\ Ev.lgx \in -6..6 /\ Ev.lgy \in -6..6
        /\ Ev.reuse \in 0..3 /\ (Ev.reuse = 3 => Ev.hist >= 1)              \* "left over from the previous fit" needs a previous fit
        /\ Ev.nnew \in 1..10
        /\ (Ev.small >= 0 <=> Ev.rank = Ev.p - 1)
TRss == At("Rss") /\ Step /\ LRss(Ev.a, Ev.j, Ev.rss, Ev.r2gap, Ev.r2, Ev.dr)
TOls == At("Ols") /\ Step /\ LOls(Ev.j, Ev.rssPls, Ev.rssOls, Ev.err, Ev.full, Ev.bn)
TBeta == At("Beta") /\ Step /\ LBeta(Ev.a, Ev.errTrain, Ev.errNew)
TStat == At("Stat") /\ Step /\ LStat(Ev.a, Ev.j, Ev.r2gap, Ev.rmsegap)
TAffine == At("Affine") /\ Step /\ LAffine(Ev.c, Ev.d, Ev.off, Ev.errTrain, Ev.errNew)
TXScale == At("XScale") /\ Step /\ LXScale(Ev.lg, Ev.errTrain, Ev.errNew)
TReuse == At("Reuse") /\ Step /\ LReuse(Ev.calls, Ev.err)
TEnd == At("End") /\ Step /\ LEnd(Ev.lvs, Ev.cols, Ev.full, Ev.xfull)
TBias == At("Bias") /\ Step /\ LBias(Ev.a, Ev.j, Ev.gap, Ev.gapNew)
TXUnits == At("XUnits") /\ Step /\ LXUnits(Ev.kmax, Ev.errTrain, Ev.errNew)
TExact == At("Exact") /\ Step /\ LExact(Ev.a, Ev.j, Ev.rss)
TOlsNew == At("OlsNew") /\ Step /\ LOlsNew(Ev.j, Ev.err, Ev.bn, Ev.lev)
TCovered == At("Covered") /\ Step /\ LCovered(Ev.count)

TNext == TReset \/ TSkip \/ TFit \/ TRss \/ TOls \/ TBeta \/ TStat \/ TAffine \/ TXScale \/ TReuse \/ TEnd \/ TBias \/ TXUnits \/ TExact \/ TOlsNew \/ TCovered
TSpec == TInit /\ [][TNext]_tvars
TraceAccepted == Accepted
Diag == ShowCursor(l)
====
