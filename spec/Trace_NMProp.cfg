SPECIFICATION Spec
CONSTANTS
  MinTol = 1000000

CONSTRAINT Diag
POSTCONDITION TraceAccepted
CHECK_DEADLOCK FALSE
