SPECIFICATION Spec
CONSTANTS
  FamSet = {"Roc", "Reg", "PlsReg", "Mlr", "PlsDa"}
  MaxN = 6
  MaxNMiss = 5
  RegN = 4
  RegEmitN = 3
  MaxNy = 4
  MaxNlv = 4
  DoEmit = TRUE
INVARIANT ThMannWhitney
INVARIANT ThRocMonotone
INVARIANT ThComplement
INVARIANT ThAucRange
INVARIANT ThOrderOfScores
INVARIANT ThReorder
INVARIANT ThPrecisionRecall
INVARIANT ThRegPerfect
INVARIANT ThRegBounds
INVARIANT ThMissingIgnored
INVARIANT ThShiftInvariant
INVARIANT ThScaleLaw
INVARIANT ThLayout
INVARIANT ThTablesDistinguish
INVARIANT ThLabelSwap
INVARIANT ThPerfectRanking
INVARIANT ThMissingTransparent
INVARIANT ThPrPoints
INVARIANT ThSumIdx
CONSTRAINT EmitCase
CHECK_DEADLOCK FALSE
