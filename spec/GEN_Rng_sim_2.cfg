SPECIFICATION Spec
CONSTANTS
  NW = 2
  K = 20
  PerThread = TRUE
  Shape = "reseed"
CONSTRAINT Emit
CHECK_DEADLOCK FALSE
