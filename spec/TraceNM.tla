---- MODULE TraceNM ----
(* C19.  Trace spec for NelderMeadSimplex (optimization.c:76-273) on the OBJECTIVE-CALLBACK trace: every Eval   *)
(* carries only the value (order-preserving 3-limb code of the double, compared lexicographically).  Which     *)
(* move an Eval belongs to is NOT logged: it is inferred by the automaton (pc) from the Gao-Han move conditions. *)
(* This is the Impl layer of the Nelder-Mead check; the property layer alone is the flat TraceNMProp.tla        *)
(* (relaxing this automaton in place makes pc nondeterministic and explodes - DESIGN A.16).                    *)
EXTENDS Integers, Sequences, FiniteSets, TraceBase
CONSTANT MinTol                       \* bound on the distance to the true minimiser, 1e-9 units
Lt(a, b) == \/ a[1] < b[1] \/ (a[1] = b[1] /\ a[2] < b[2]) \/ (a[1] = b[1] /\ a[2] = b[2] /\ a[3] < b[3])
Le(a, b) == Lt(a, b) \/ a = b
VARIABLES l, n, cap, cnt, f, pc, buf, fr, best0, ret,
          sc0       \* start class announced by the Reset line (2, 3: all n+1 initial values EQUAL, 4: equal to 1e-12) - verified on the Evals
vars == <<l, n, cap, cnt, f, pc, buf, fr, best0, ret, sc0>>
Zero == <<0,0,0>>
\* insertion sort of a sequence of codes (ascending); values only
RECURSIVE Ins(_,_)
Ins(s, v) == IF s = <<>> THEN <<v>> ELSE IF Le(v, s[1]) THEN <<v>> \o s ELSE <<s[1]>> \o Ins(Tail(s), v)
RECURSIVE Sort(_)
Sort(s) == IF s = <<>> THEN <<>> ELSE Ins(Sort(Tail(s)), s[1])
ReplaceWorst(s, v) == Sort(SubSeq(s, 1, Len(s) - 1) \o <<v>>)
Init == l = 1 /\ n = 0 /\ cap = 0 /\ cnt = 0 /\ f = <<>> /\ pc = "idle" /\ buf = <<>> /\ fr = Zero /\ best0 = Zero /\ ret = Zero /\ sc0 = 0
Ev == Tr[l]
Step == l' = l + 1
TReset == /\ l <= Len(Tr) /\ Ev.e = "Reset" /\ pc = "idle" /\ Step
          /\ Ev.n \in 2..6                                      \* inside the quantifier
          /\ (Ev.sc \in {2, 3} => Ev.fs = 0) /\ (Ev.sc = 4 => Ev.fs <= 1000)     \* flat-start classes: spread of the initial values (1e-15 units)
          /\ n' = Ev.n /\ cap' = Ev.cap /\ cnt' = 0 /\ f' = <<>> /\ pc' = "init" /\ buf' = <<>> /\ sc0' = Ev.sc /\ UNCHANGED <<fr, best0, ret>>
IsEval == l <= Len(Tr) /\ Ev.e = "Eval"
V == <<Ev.v[1], Ev.v[2], Ev.v[3]>>
Count == cnt' = cnt + 1 /\ UNCHANGED <<n, cap, sc0>>
InitEval == /\ IsEval /\ pc = "init" /\ Step /\ Count
            /\ IF Len(buf) + 1 = n + 1 THEN f' = Sort(buf \o <<V>>) /\ buf' = <<>> /\ pc' = "reflect" /\ best0' = Sort(buf \o <<V>>)[1]
                                       ELSE buf' = buf \o <<V>> /\ UNCHANGED <<f, pc, best0>>
            /\ (sc0 \in {2, 3} /\ buf # <<>> => V = buf[1])     \* an exactly flat start really is flat: every initial value equals the first
            /\ UNCHANGED <<fr, ret>>
\* the Gao-Han move conditions decide what the NEXT eval means
Reflect == /\ IsEval /\ pc = "reflect" /\ Step /\ Count /\ UNCHANGED <<buf, best0, ret>>
           /\ LET r == V  f1 == f[1]  fn == f[n]  fw == f[n + 1] IN
              CASE Lt(f1, r) /\ Lt(r, fn) -> f' = ReplaceWorst(f, r) /\ pc' = "reflect" /\ fr' = r
                [] Lt(r, f1)              -> f' = f /\ pc' = "expand" /\ fr' = r
                [] Le(fn, r) /\ Lt(r, fw) -> f' = f /\ pc' = "oc" /\ fr' = r
                [] Le(fw, r)              -> f' = f /\ pc' = "ic" /\ fr' = r
                [] OTHER                  -> f' \in {f, ReplaceWorst(f, r)} /\ pc' = "reflect" /\ fr' = r   \* r = f1 < fn: the pinned tree takes no branch (and stalls), the textbook rule f1 <= r accepts the reflection
Expand == /\ IsEval /\ pc = "expand" /\ Step /\ Count /\ UNCHANGED <<buf, best0, ret, fr>>
          /\ f' = ReplaceWorst(f, IF Lt(V, fr) THEN V ELSE fr) /\ pc' = "reflect"
OC == /\ IsEval /\ pc = "oc" /\ Step /\ Count /\ UNCHANGED <<best0, ret, fr>>
      /\ IF Le(V, fr) THEN f' = ReplaceWorst(f, V) /\ pc' = "reflect" /\ buf' = <<>>
                      ELSE f' = f /\ pc' = "shrink" /\ buf' = <<>>
IC == /\ IsEval /\ pc = "ic" /\ Step /\ Count /\ UNCHANGED <<best0, ret, fr>>
      /\ IF Lt(V, f[n + 1]) THEN f' = ReplaceWorst(f, V) /\ pc' = "reflect" /\ buf' = <<>>
                            ELSE f' = f /\ pc' = "shrink" /\ buf' = <<>>
Shrink == /\ IsEval /\ pc = "shrink" /\ Step /\ Count /\ UNCHANGED <<best0, ret, fr>>
          /\ IF Len(buf) + 1 = n + 1 THEN f' = Sort(buf \o <<V>>) /\ buf' = <<>> /\ pc' = "reflect"
                                     ELSE buf' = buf \o <<V>> /\ UNCHANGED <<f, pc>>
\* Stop is unobservable: Return may come whenever a whole iteration is finished
Return == /\ l <= Len(Tr) /\ Ev.e = "Return" /\ pc = "reflect" /\ Step
          /\ ret' = V /\ pc' = "returned" /\ UNCHANGED <<n, cap, cnt, f, buf, fr, best0, sc0>>
          /\ Ev.evals = cnt /\ cnt <= cap                      \* Prop: evaluation count within the cap
          /\ Le(ret', best0)                                   \* Prop: never worse than the best initial vertex
          /\ ret' = f[1]                                       \* Impl: it is the best vertex of the final simplex
Check == /\ l <= Len(Tr) /\ Ev.e = "Check" /\ pc = "returned" /\ Step
         /\ V = ret                                            \* Prop: reported value = f(returned point)
         /\ pc' = "checked" /\ UNCHANGED <<n, cap, cnt, f, buf, fr, best0, ret, sc0>>
Quad == /\ l <= Len(Tr) /\ Ev.e = "Quad" /\ pc = "checked" /\ Step
        /\ (Ev.judge = 1 => Ev.dist <= MinTol)               \* Prop: converges - for EVERY start class (generic, flat, at the minimiser, far, any step decade)
        /\ Ev.sc = sc0 /\ Ev.dim = n
        /\ pc' = "idle" /\ UNCHANGED <<n, cap, cnt, f, buf, fr, best0, ret, sc0>>
Next == TReset \/ InitEval \/ Reflect \/ Expand \/ OC \/ IC \/ Shrink \/ Return \/ Check \/ Quad
Spec == Init /\ [][Next]_vars
\* the best vertex of the current simplex is never worse than the best initial vertex
BestNeverWorse == (pc \in {"reflect", "expand", "oc", "ic", "shrink"} /\ f # <<>>) => Le(f[1], best0)
TraceAccepted == Accepted
Diag == ShowCursor(l)
====
