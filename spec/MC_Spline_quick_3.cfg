SPECIFICATION Spec
CONSTANTS
  NK = 3
  XMax = 4
  YMax = 1
  Scales = {0, 1, 2, 3, 4, 5, 6, 7, 8}
  LookupTol = "exact"
  DoEmit = TRUE
INVARIANT Theorems
INVARIANT Theorems2
INVARIANT LookupRight
CONSTRAINT Emit
CHECK_DEADLOCK FALSE
