SPECIFICATION Spec
CONSTANTS
  MaxRows = 200
  MaxThreads = 64
  MaxCond = 40
INVARIANT InvA
INVARIANT InvB
INVARIANT InvSame
INVARIANT InvC
INVARIANT InvD
