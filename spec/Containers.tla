---------------------------- MODULE Containers ----------------------------
(* C14.  Shadow state machine of libscientific's heap-owning containers.                              *)
(*   vec["dv"|"uv"|"iv"]  dvector / uivector / ivector   (vector.h, vector.c)   size, cells            *)
(*   sv                   strvector                       (vector.c:44-159)     size, strings          *)
(*   mx                   matrix                          (matrix.c:34-609)     row, col, cells        *)
(*   tn                   tensor                          (tensor.c:34-290)     order, layers          *)
(*   dl                   dvectorlist                     (list.c)              size, vectors          *)
(* A pool of slots per kind; a slot is dead (no object) or live.  One action per public API call with  *)
(* the contract that header comments, the tests and property C14 give it: old cells preserved, newly   *)
(* exposed cells 0, counts updated, copies deep, out-of-range accessors leave the state unchanged.     *)
(* Only what the operations DEFINE is modelled - no allocation detail.  Index arguments recorded in    *)
(* `op` are the 0-based indices of the C API; sequences here are 1-based.                              *)
(*                                                                                                     *)
(* Two next-state relations over the same actions: Next (all operands; model checking, MC_Containers_*.cfg, *)
(* one run per container family selected by Kinds, histories of at most Depth calls) and GenNext (one     *)
(* call per operation kind with randomly drawn operands; simulate mode, GEN_Containers.cfg, exported by   *)
(* Emit).  REF_Containers.cfg checks on simulated behaviours that every GenNext step is a Next step.      *)
(*                                                                                                     *)
(* Alphabet discipline (DESIGN C14): an operation is an action only where its contract is unambiguous. *)
(* Left out on purpose (listed again in the evidence): TensorAppendRow, TensorAppendMatrixAt,          *)
(* NewDVectorList(n>0), DVectNorm, MatrixDeleteRowAt/ColAt with an invalid index, setStr/getStr out of *)
(* range, reading a slot of NewStrVector(n) before it is set, NewTensorMatrix on a filled or           *)
(* out-of-range layer, self-copy, the arithmetic reductions (properties C11/C15).                      *)
EXTENDS Integers, Sequences, FiniteSets, TLC, Json

CONSTANTS Pool,      \* slot names, the same for every kind
          MaxDim,    \* bound on every size, row, col, order
          Vals,      \* numeric cell values (naturals; they are valid double, int and size_t values)
          Kinds,     \* kinds whose operations are enabled: subset of {"dv","uv","iv","sv","mx","tn","dl"}
          Depth      \* bound on the length of a history (number of calls)

VARIABLES vec, sv, mx, tn, dl,   \* the shadow containers
          op                      \* ghost: last action, its arguments, what it used / created / changed
conts == <<vec, sv, mx, tn, dl>>
vars  == <<vec, sv, mx, tn, dl, op>>

VKinds   == {"dv", "uv", "iv"}
AllKinds == VKinds \cup {"sv", "mx", "tn", "dl"}
StrVals  == {"", "a", "bc"}
UNSET    == "<unset>"            \* slot of NewStrVector(n): one uninitialised byte, content undefined
Dims     == 0..MaxDim
Idxs     == 0..(MaxDim + 1)      \* API indices tried by accessors (in and out of range)
FarIdx   == {1000001, 1000002, 1000003, 1000004}   \* codes of far out-of-range indices: (size_t)-1, 2^63, 2^63+1, 2^32 (mapped by the replay harness)
Max(a, b) == IF a > b THEN a ELSE b

(* ---------------------------------------------------------------- values ---------------------- *)
DeadV == [live |-> FALSE, d |-> <<>>]
Vec(s) == [live |-> TRUE, d |-> s]
Fill(n, v) == [i \in 1..n |-> v]
DropAt(s, k) == [i \in 1..(Len(s) - 1) |-> IF i < k THEN s[i] ELSE s[i + 1]]
Sorted(s) == SortSeq(s, LAMBDA a, b : a < b)
Has(s, v) == \E i \in 1..Len(s) : s[i] = v
FirstIdx(s, v) == IF Has(s, v) THEN (CHOOSE i \in 1..Len(s) : s[i] = v /\ \A j \in 1..(i - 1) : s[j] # v) - 1 ELSE -1
VecsOfLen(n) == [1..n -> Vals]
VecsUpTo(n) == UNION {VecsOfLen(k) : k \in 0..n}

DeadM == [live |-> FALSE, row |-> 0, col |-> 0, cell |-> <<>>]
Mat(r, c, f) == [live |-> TRUE, row |-> r, col |-> c, cell |-> f]       \* f \in [1..r -> [1..c -> Vals]]
ConstM(r, c, v) == Mat(r, c, [i \in 1..r |-> [j \in 1..c |-> v]])
DeadT == [live |-> FALSE, m |-> <<>>]                                     \* layers: matrices; live = FALSE is a NULL layer
DeadL == [live |-> FALSE, d |-> <<>>]

(* matrix algebra shared by matrix and tensor actions *)
\* MatrixAppendRow(m, v): one more row; columns grow to max(col, len v); old cells kept, missing cells 0
MAppendRow(m, v) ==
  LET r == m.row  c == m.col  nc == Max(c, Len(v))
  IN Mat(r + 1, nc, [i \in 1..(r + 1) |-> [j \in 1..nc |->
        IF i <= r THEN (IF j <= c THEN m.cell[i][j] ELSE 0) ELSE (IF j <= Len(v) THEN v[j] ELSE 0)]])
\* MatrixAppendCol(m, v): one more column; rows grow to max(row, len v); old cells kept, missing cells 0
MAppendCol(m, v) ==
  LET r == m.row  c == m.col  nr == Max(r, Len(v))
  IN Mat(nr, c + 1, [i \in 1..nr |-> [j \in 1..(c + 1) |->
        IF j <= c THEN (IF i <= r THEN m.cell[i][j] ELSE 0) ELSE (IF i <= Len(v) THEN v[i] ELSE 0)]])
MDelRow(m, k) == Mat(m.row - 1, m.col, [i \in 1..(m.row - 1) |-> m.cell[IF i < k THEN i ELSE i + 1]])
MDelCol(m, k) == Mat(m.row, m.col - 1, [i \in 1..m.row |-> [j \in 1..(m.col - 1) |-> m.cell[i][IF j < k THEN j ELSE j + 1]]])
MRow(m, i) == m.cell[i]
MCol(m, j) == [i \in 1..m.row |-> m.cell[i][j]]
SameShape(a, b) == a.row = b.row /\ a.col = b.col
CellsOf(r, c) == [1..r -> [1..c -> Vals]]

(* size relation of an operand of length n against the current dimension cur (goes into signatures) *)
Rel(n, cur) == IF n = cur THEN "equal" ELSE IF n = 0 THEN "zero" ELSE IF n < cur THEN "shorter" ELSE "longer"
InOut(b) == IF b THEN "in" ELSE "out"

(* ---------------------------------------------------------------- ghost ----------------------- *)
\* uses: slots the call reads or mutates (must be live); fresh: slots it creates (must be dead);
\* touched: slots whose shadow value may change; oor: out-of-range accessor (any safe outcome accepted);
\* n: position of the call in the history
O(name, rel, uses, fresh, touched, args) ==
  [name |-> name, rel |-> rel, oor |-> FALSE, uses |-> uses, fresh |-> fresh, touched |-> touched, a |-> args, n |-> op.n + 1]
Oor(name, uses, args) ==
  [name |-> name, rel |-> "out", oor |-> TRUE, uses |-> uses, fresh |-> {}, touched |-> {}, a |-> args, n |-> op.n + 1]

Init == /\ vec = [k \in VKinds |-> [x \in Pool |-> DeadV]]
        /\ sv = [x \in Pool |-> DeadV]
        /\ mx = [x \in Pool |-> DeadM]
        /\ tn = [x \in Pool |-> DeadT]
        /\ dl = [x \in Pool |-> DeadL]
        /\ op = [name |-> "init", rel |-> "na", oor |-> FALSE, uses |-> {}, fresh |-> {}, touched |-> {}, a |-> [x |-> ""], n |-> 0]

(* ---------------------------------------------------------------- dvector / uivector / ivector *)
\* C names per kind; a call that a kind does not have is absent from its record
Fn == [dv |-> [cNew |-> "NewDVector", cInit |-> "initDVector", cDel |-> "DelDVector", cResize |-> "DVectorResize",
               cAppend |-> "DVectorAppend", cRemoveAt |-> "DVectorRemoveAt", cCopy |-> "DVectorCopy", cExtend |-> "DVectorExtend",
               cSet |-> "setDVectorValue", cGet |-> "getDVectorValue", cHas |-> "DVectorHasValue", cFill |-> "DVectorSet",
               cSort |-> "DVectorSort"],
       uv |-> [cNew |-> "NewUIVector", cInit |-> "initUIVector", cDel |-> "DelUIVector", cResize |-> "UIVectorResize",
               cAppend |-> "UIVectorAppend", cRemoveAt |-> "UIVectorRemoveAt", cExtend |-> "UIVectorExtend",
               cSet |-> "setUIVectorValue", cGet |-> "getUIVectorValue", cHas |-> "UIVectorHasValue", cIndexOf |-> "UIVectorIndexOf",
               cFill |-> "UIVectorSet", cSort |-> "SortUIVector"],
       iv |-> [cNew |-> "NewIVector", cInit |-> "initIVector", cDel |-> "DelIVector",
               cAppend |-> "IVectorAppend", cRemoveAt |-> "IVectorRemoveAt", cExtend |-> "IVectorExtend",
               cSet |-> "setIVectorValue", cGet |-> "getIVectorValue", cHas |-> "IVectorHasValue", cFill |-> "IVectorSet"]]
On(k) == k \in Kinds /\ op.n < Depth                        \* kind switched on, history not yet at its bound
Api(k, call) == On(k) /\ call \in DOMAIN Fn[k]
VLive(k, x) == vec[k][x].live
VD(k, x) == vec[k][x].d
R(k, x) == <<k, x>>
oVec == <<sv, mx, tn, dl>>

VNew(k, x, n) == /\ Api(k, "cNew") /\ ~VLive(k, x)
                 /\ vec' = [vec EXCEPT ![k][x] = Vec(Fill(n, 0))]
                 /\ op' = O(Fn[k].cNew, "na", {}, {R(k, x)}, {R(k, x)}, [x |-> x, n |-> n])
                 /\ UNCHANGED oVec
VInit(k, x) == /\ Api(k, "cInit") /\ ~VLive(k, x)
               /\ vec' = [vec EXCEPT ![k][x] = Vec(<<>>)]
               /\ op' = O(Fn[k].cInit, "na", {}, {R(k, x)}, {R(k, x)}, [x |-> x])
               /\ UNCHANGED oVec
VDel(k, x) == /\ Api(k, "cDel") /\ VLive(k, x)
              /\ vec' = [vec EXCEPT ![k][x] = DeadV]
              /\ op' = O(Fn[k].cDel, "na", {R(k, x)}, {}, {R(k, x)}, [x |-> x])
              /\ UNCHANGED oVec
\* Resize discards the content: n zeros
VResize(k, x, n) == /\ Api(k, "cResize") /\ VLive(k, x)
                    /\ vec' = [vec EXCEPT ![k][x] = Vec(Fill(n, 0))]
                    /\ op' = O(Fn[k].cResize, Rel(n, Len(VD(k, x))), {R(k, x)}, {}, {R(k, x)}, [x |-> x, n |-> n])
                    /\ UNCHANGED oVec
VAppend(k, x, v) == /\ Api(k, "cAppend") /\ VLive(k, x) /\ Len(VD(k, x)) < MaxDim
                    /\ vec' = [vec EXCEPT ![k][x].d = Append(@, v)]
                    /\ op' = O(Fn[k].cAppend, "na", {R(k, x)}, {}, {R(k, x)}, [x |-> x, v |-> v])
                    /\ UNCHANGED oVec
\* RemoveAt(i): removes element i and shifts the tail down; an index past the end is ignored (vector.c:261-272)
VRemoveAt(k, x, i) == /\ Api(k, "cRemoveAt") /\ VLive(k, x)
                      /\ vec' = IF i < Len(VD(k, x)) THEN [vec EXCEPT ![k][x].d = DropAt(@, i + 1)] ELSE vec
                      /\ op' = O(Fn[k].cRemoveAt, InOut(i < Len(VD(k, x))), {R(k, x)}, {}, {R(k, x)}, [x |-> x, i |-> i])
                      /\ UNCHANGED oVec
\* Copy(src, dst): dst becomes an independent equal of src whatever its previous size
CopyRel(dn, sn) == IF dn = 0 THEN "dst-empty" ELSE IF sn = 0 THEN "src-empty" ELSE IF dn = sn THEN "same-shape" ELSE "diff-shape"
VCopy(k, s, t) == /\ Api(k, "cCopy") /\ VLive(k, s) /\ VLive(k, t) /\ s # t
                  /\ vec' = [vec EXCEPT ![k][t] = vec[k][s]]
                  /\ op' = O(Fn[k].cCopy, CopyRel(Len(VD(k, t)), Len(VD(k, s))), {R(k, s), R(k, t)}, {}, {R(k, t)}, [src |-> s, dst |-> t])
                  /\ UNCHANGED oVec
\* Extend(a, b) returns a NEW vector a \o b (operands unchanged; a = b allowed: both are only read)
VExtend(k, a, b, y) == /\ Api(k, "cExtend") /\ VLive(k, a) /\ VLive(k, b) /\ ~VLive(k, y)
                       /\ Len(VD(k, a)) + Len(VD(k, b)) <= MaxDim
                       /\ vec' = [vec EXCEPT ![k][y] = Vec(VD(k, a) \o VD(k, b))]
                       /\ op' = O(Fn[k].cExtend, Rel(Len(VD(k, b)), Len(VD(k, a))), {R(k, a), R(k, b)}, {R(k, y)}, {R(k, y)}, [a |-> a, b |-> b, y |-> y])
                       /\ UNCHANGED oVec
VSet(k, x, i, v) == /\ Api(k, "cSet") /\ VLive(k, x) /\ i < Len(VD(k, x))
                    /\ vec' = [vec EXCEPT ![k][x].d[i + 1] = v]
                    /\ op' = O(Fn[k].cSet, "in", {R(k, x)}, {}, {R(k, x)}, [x |-> x, i |-> i, v |-> v])
                    /\ UNCHANGED oVec
VSetOor(k, x, i, v) == /\ Api(k, "cSet") /\ VLive(k, x) /\ i >= Len(VD(k, x))
                       /\ op' = Oor(Fn[k].cSet, {R(k, x)}, [x |-> x, i |-> i, v |-> v])
                       /\ UNCHANGED conts
VGet(k, x, i) == /\ Api(k, "cGet") /\ VLive(k, x) /\ i < Len(VD(k, x))
                 /\ op' = O(Fn[k].cGet, "in", {R(k, x)}, {}, {}, [x |-> x, i |-> i, ret |-> VD(k, x)[i + 1]])
                 /\ UNCHANGED conts
VGetOor(k, x, i) == /\ Api(k, "cGet") /\ VLive(k, x) /\ i >= Len(VD(k, x))
                    /\ op' = Oor(Fn[k].cGet, {R(k, x)}, [x |-> x, i |-> i])
                    /\ UNCHANGED conts
\* HasValue: 0 when present, 1 when absent (vector.h:162-166)
VHas(k, x, v) == /\ Api(k, "cHas") /\ VLive(k, x)
                 /\ op' = O(Fn[k].cHas, "na", {R(k, x)}, {}, {}, [x |-> x, v |-> v, ret |-> IF Has(VD(k, x), v) THEN 0 ELSE 1])
                 /\ UNCHANGED conts
VIndexOf(k, x, v) == /\ Api(k, "cIndexOf") /\ VLive(k, x)
                     /\ op' = O(Fn[k].cIndexOf, "na", {R(k, x)}, {}, {}, [x |-> x, v |-> v, ret |-> FirstIdx(VD(k, x), v)])
                     /\ UNCHANGED conts
VFill(k, x, v) == /\ Api(k, "cFill") /\ VLive(k, x)
                  /\ vec' = [vec EXCEPT ![k][x].d = Fill(Len(@), v)]
                  /\ op' = O(Fn[k].cFill, "na", {R(k, x)}, {}, {R(k, x)}, [x |-> x, v |-> v])
                  /\ UNCHANGED oVec
VSort(k, x) == /\ Api(k, "cSort") /\ VLive(k, x)
               /\ vec' = [vec EXCEPT ![k][x].d = Sorted(@)]
               /\ op' = O(Fn[k].cSort, "na", {R(k, x)}, {}, {R(k, x)}, [x |-> x])
               /\ UNCHANGED oVec

(* ---------------------------------------------------------------- strvector ------------------- *)
oSv == <<vec, mx, tn, dl>>
SLive(x) == sv[x].live
AllSet(x) == \A i \in 1..Len(sv[x].d) : sv[x].d[i] # UNSET
IntStr(v) == ToString(v)
DblStr(v) == ToString(v) \o ".000000"                      \* "%f" of a small natural
SvInit(x) == /\ On("sv") /\ ~SLive(x)
             /\ sv' = [sv EXCEPT ![x] = Vec(<<>>)]
             /\ op' = O("initStrVector", "na", {}, {R("sv", x)}, {R("sv", x)}, [x |-> x])
             /\ UNCHANGED oSv
\* NewStrVector(n): n slots whose content is undefined until setStr (the test suite fills every slot first)
SvNew(x, n) == /\ On("sv") /\ ~SLive(x)
               /\ sv' = [sv EXCEPT ![x] = Vec(Fill(n, UNSET))]
               /\ op' = O("NewStrVector", "na", {}, {R("sv", x)}, {R("sv", x)}, [x |-> x, n |-> n])
               /\ UNCHANGED oSv
SvDel(x) == /\ On("sv") /\ SLive(x)
            /\ sv' = [sv EXCEPT ![x] = DeadV]
            /\ op' = O("DelStrVector", "na", {R("sv", x)}, {}, {R("sv", x)}, [x |-> x])
            /\ UNCHANGED oSv
\* StrVectorResize(n): n empty strings
SvResize(x, n) == /\ On("sv") /\ SLive(x)
                  /\ sv' = [sv EXCEPT ![x] = Vec(Fill(n, ""))]
                  /\ op' = O("StrVectorResize", Rel(n, Len(sv[x].d)), {R("sv", x)}, {}, {R("sv", x)}, [x |-> x, n |-> n])
                  /\ UNCHANGED oSv
\* StrVectorAppend re-reads every stored string: defined only when all slots are set
SvAppend(x, s) == /\ On("sv") /\ SLive(x) /\ AllSet(x) /\ Len(sv[x].d) < MaxDim
                  /\ sv' = [sv EXCEPT ![x].d = Append(@, s)]
                  /\ op' = O("StrVectorAppend", "na", {R("sv", x)}, {}, {R("sv", x)}, [x |-> x, s |-> s])
                  /\ UNCHANGED oSv
SvAppendInt(x, v) == /\ On("sv") /\ SLive(x) /\ Len(sv[x].d) < MaxDim
                     /\ sv' = [sv EXCEPT ![x].d = Append(@, IntStr(v))]
                     /\ op' = O("StrVectorAppendInt", "na", {R("sv", x)}, {}, {R("sv", x)}, [x |-> x, v |-> v])
                     /\ UNCHANGED oSv
SvAppendDouble(x, v) == /\ On("sv") /\ SLive(x) /\ Len(sv[x].d) < MaxDim
                        /\ sv' = [sv EXCEPT ![x].d = Append(@, DblStr(v))]
                        /\ op' = O("StrVectorAppendDouble", "na", {R("sv", x)}, {}, {R("sv", x)}, [x |-> x, v |-> v])
                        /\ UNCHANGED oSv
SvSet(x, i, s) == /\ On("sv") /\ SLive(x) /\ i < Len(sv[x].d)
                  /\ sv' = [sv EXCEPT ![x].d[i + 1] = s]
                  /\ op' = O("setStr", "in", {R("sv", x)}, {}, {R("sv", x)}, [x |-> x, i |-> i, s |-> s])
                  /\ UNCHANGED oSv
SvGet(x, i) == /\ On("sv") /\ SLive(x) /\ i < Len(sv[x].d) /\ sv[x].d[i + 1] # UNSET
               /\ op' = O("getStr", "in", {R("sv", x)}, {}, {}, [x |-> x, i |-> i, rets |-> sv[x].d[i + 1]])
               /\ UNCHANGED conts
\* StrVectorExtend(a, b): a NEW strvector holding copies of a's then b's strings
SvExtend(a, b, y) == /\ On("sv") /\ SLive(a) /\ SLive(b) /\ ~SLive(y) /\ AllSet(a) /\ AllSet(b)
                     /\ Len(sv[a].d) + Len(sv[b].d) <= MaxDim
                     /\ sv' = [sv EXCEPT ![y] = Vec(sv[a].d \o sv[b].d)]
                     /\ op' = O("StrVectorExtend", Rel(Len(sv[b].d), Len(sv[a].d)), {R("sv", a), R("sv", b)}, {R("sv", y)}, {R("sv", y)}, [a |-> a, b |-> b, y |-> y])
                     /\ UNCHANGED oSv

(* ---------------------------------------------------------------- matrix ---------------------- *)
oMx == <<vec, sv, tn, dl>>
MLive(x) == mx[x].live
MShapeRel(d, s) == IF d.row = 0 /\ d.col = 0 THEN "dst-empty" ELSE IF SameShape(d, s) THEN "same-shape" ELSE "diff-shape"
MxInit(x) == /\ On("mx") /\ ~MLive(x)
             /\ mx' = [mx EXCEPT ![x] = ConstM(0, 0, 0)]
             /\ op' = O("initMatrix", "na", {}, {R("mx", x)}, {R("mx", x)}, [x |-> x])
             /\ UNCHANGED oMx
\* NewMatrix(r, c): r x c zeros; r > 0 /\ c = 0 and r = 0 /\ c > 0 are distinct legal shapes
MxNew(x, r, c) == /\ On("mx") /\ ~MLive(x)
                  /\ mx' = [mx EXCEPT ![x] = ConstM(r, c, 0)]
                  /\ op' = O("NewMatrix", "na", {}, {R("mx", x)}, {R("mx", x)}, [x |-> x, r |-> r, c |-> c])
                  /\ UNCHANGED oMx
MxDel(x) == /\ On("mx") /\ MLive(x)
            /\ mx' = [mx EXCEPT ![x] = DeadM]
            /\ op' = O("DelMatrix", "na", {R("mx", x)}, {}, {R("mx", x)}, [x |-> x])
            /\ UNCHANGED oMx
\* ResizeMatrix "deletes all the data stored inside the matrix" (matrix.h:57): r x c zeros
MxResize(x, r, c) == /\ On("mx") /\ MLive(x)
                     /\ mx' = [mx EXCEPT ![x] = ConstM(r, c, 0)]
                     /\ op' = O("ResizeMatrix", IF r = mx[x].row /\ c = mx[x].col THEN "same-shape" ELSE "diff-shape", {R("mx", x)}, {}, {R("mx", x)}, [x |-> x, r |-> r, c |-> c])
                     /\ UNCHANGED oMx
MxFill(x, v) == /\ On("mx") /\ MLive(x)
                /\ mx' = [mx EXCEPT ![x] = ConstM(@.row, @.col, v)]
                /\ op' = O("MatrixSet", "na", {R("mx", x)}, {}, {R("mx", x)}, [x |-> x, v |-> v])
                /\ UNCHANGED oMx
\* MatrixCopy(src, &dst): dst (allocated, any shape) becomes an independent equal of src
MxCopy(s, t) == /\ On("mx") /\ MLive(s) /\ MLive(t) /\ s # t
                /\ mx' = [mx EXCEPT ![t] = mx[s]]
                /\ op' = O("MatrixCopy", MShapeRel(mx[t], mx[s]), {R("mx", s), R("mx", t)}, {}, {R("mx", t)}, [src |-> s, dst |-> t])
                /\ UNCHANGED oMx
MxSet(x, i, j, v) == /\ On("mx") /\ MLive(x) /\ i < mx[x].row /\ j < mx[x].col
                     /\ mx' = [mx EXCEPT ![x].cell[i + 1][j + 1] = v]
                     /\ op' = O("setMatrixValue", "in", {R("mx", x)}, {}, {R("mx", x)}, [x |-> x, i |-> i, j |-> j, v |-> v])
                     /\ UNCHANGED oMx
MxSetOor(x, i, j, v) == /\ On("mx") /\ MLive(x) /\ ~(i < mx[x].row /\ j < mx[x].col)
                        /\ op' = Oor("setMatrixValue", {R("mx", x)}, [x |-> x, i |-> i, j |-> j, v |-> v])
                        /\ UNCHANGED conts
MxGet(x, i, j) == /\ On("mx") /\ MLive(x) /\ i < mx[x].row /\ j < mx[x].col
                  /\ op' = O("getMatrixValue", "in", {R("mx", x)}, {}, {}, [x |-> x, i |-> i, j |-> j, ret |-> mx[x].cell[i + 1][j + 1]])
                  /\ UNCHANGED conts
MxGetOor(x, i, j) == /\ On("mx") /\ MLive(x) /\ ~(i < mx[x].row /\ j < mx[x].col)
                     /\ op' = Oor("getMatrixValue", {R("mx", x)}, [x |-> x, i |-> i, j |-> j])
                     /\ UNCHANGED conts
\* getMatrixRow / getMatrixColumn return a NEW dvector (slot y of the dvector pool), NULL when out of range
MxGetRow(x, i, y) == /\ On("mx") /\ MLive(x) /\ i < mx[x].row /\ ~VLive("dv", y)
                     /\ vec' = [vec EXCEPT !["dv"][y] = Vec(MRow(mx[x], i + 1))]
                     /\ op' = O("getMatrixRow", "in", {R("mx", x)}, {R("dv", y)}, {R("dv", y)}, [x |-> x, i |-> i, y |-> y])
                     /\ UNCHANGED <<sv, mx, tn, dl>>
MxGetRowOor(x, i) == /\ On("mx") /\ MLive(x) /\ i >= mx[x].row
                     /\ op' = Oor("getMatrixRow", {R("mx", x)}, [x |-> x, i |-> i])
                     /\ UNCHANGED conts
MxGetCol(x, j, y) == /\ On("mx") /\ MLive(x) /\ j < mx[x].col /\ ~VLive("dv", y)
                     /\ vec' = [vec EXCEPT !["dv"][y] = Vec(MCol(mx[x], j + 1))]
                     /\ op' = O("getMatrixColumn", "in", {R("mx", x)}, {R("dv", y)}, {R("dv", y)}, [x |-> x, j |-> j, y |-> y])
                     /\ UNCHANGED <<sv, mx, tn, dl>>
MxGetColOor(x, j) == /\ On("mx") /\ MLive(x) /\ j >= mx[x].col
                     /\ op' = Oor("getMatrixColumn", {R("mx", x)}, [x |-> x, j |-> j])
                     /\ UNCHANGED conts
\* the operand v is a vector built for the call (dvector for Row/Col, uivector for UIRow/UICol), any length
MxAppendRow(x, v, ui) == /\ On("mx") /\ MLive(x) /\ mx[x].row < MaxDim
                         /\ mx' = [mx EXCEPT ![x] = MAppendRow(@, v)]
                         /\ op' = O(IF ui THEN "MatrixAppendUIRow" ELSE "MatrixAppendRow", Rel(Len(v), mx[x].col), {R("mx", x)}, {}, {R("mx", x)}, [x |-> x, vs |-> v])
                         /\ UNCHANGED oMx
MxAppendCol(x, v, ui) == /\ On("mx") /\ MLive(x) /\ mx[x].col < MaxDim
                         /\ mx' = [mx EXCEPT ![x] = MAppendCol(@, v)]
                         /\ op' = O(IF ui THEN "MatrixAppendUICol" ELSE "MatrixAppendCol", Rel(Len(v), mx[x].row), {R("mx", x)}, {}, {R("mx", x)}, [x |-> x, vs |-> v])
                         /\ UNCHANGED oMx
\* delete with a valid index only (an invalid one is outside "valid operations": it is not an accessor)
MxDelRow(x, k) == /\ On("mx") /\ MLive(x) /\ k < mx[x].row
                  /\ mx' = [mx EXCEPT ![x] = MDelRow(@, k + 1)]
                  /\ op' = O("MatrixDeleteRowAt", "in", {R("mx", x)}, {}, {R("mx", x)}, [x |-> x, k |-> k])
                  /\ UNCHANGED oMx
MxDelCol(x, k) == /\ On("mx") /\ MLive(x) /\ k < mx[x].col
                  /\ mx' = [mx EXCEPT ![x] = MDelCol(@, k + 1)]
                  /\ op' = O("MatrixDeleteColAt", "in", {R("mx", x)}, {}, {R("mx", x)}, [x |-> x, k |-> k])
                  /\ UNCHANGED oMx

(* ---------------------------------------------------------------- tensor ---------------------- *)
oTn == <<vec, sv, mx, dl>>
TLive(x) == tn[x].live
Order(x) == Len(tn[x].m)
Filled(x) == \A k \in 1..Order(x) : tn[x].m[k].live           \* no NULL layer left by NewTensor(n)
TShapeRel(d, s) == IF Len(d.m) = 0 THEN "dst-empty"
                   ELSE IF Len(d.m) = Len(s.m) /\ \A k \in 1..Len(s.m) : SameShape(d.m[k], s.m[k]) THEN "same-shape" ELSE "diff-shape"
TnInit(x) == /\ On("tn") /\ ~TLive(x)
             /\ tn' = [tn EXCEPT ![x] = [live |-> TRUE, m |-> <<>>]]
             /\ op' = O("initTensor", "na", {}, {R("tn", x)}, {R("tn", x)}, [x |-> x])
             /\ UNCHANGED oTn
\* NewTensor(n): n NULL layers, each to be created by NewTensorMatrix before anything else touches the tensor
TnNew(x, n) == /\ On("tn") /\ ~TLive(x)
               /\ tn' = [tn EXCEPT ![x] = [live |-> TRUE, m |-> Fill(n, DeadM)]]
               /\ op' = O("NewTensor", "na", {}, {R("tn", x)}, {R("tn", x)}, [x |-> x, n |-> n])
               /\ UNCHANGED oTn
TnNewMatrix(x, k, r, c) == /\ On("tn") /\ TLive(x) /\ k < Order(x) /\ ~tn[x].m[k + 1].live
                           /\ tn' = [tn EXCEPT ![x].m[k + 1] = ConstM(r, c, 0)]
                           /\ op' = O("NewTensorMatrix", "na", {R("tn", x)}, {}, {R("tn", x)}, [x |-> x, k |-> k, r |-> r, c |-> c])
                           /\ UNCHANGED oTn
TnAdd(x, r, c) == /\ On("tn") /\ TLive(x) /\ Filled(x) /\ Order(x) < MaxDim
                  /\ tn' = [tn EXCEPT ![x].m = Append(@, ConstM(r, c, 0))]
                  /\ op' = O("AddTensorMatrix", "na", {R("tn", x)}, {}, {R("tn", x)}, [x |-> x, r |-> r, c |-> c])
                  /\ UNCHANGED oTn
TnDel(x) == /\ On("tn") /\ TLive(x) /\ Filled(x)
            /\ tn' = [tn EXCEPT ![x] = DeadT]
            /\ op' = O("DelTensor", "na", {R("tn", x)}, {}, {R("tn", x)}, [x |-> x])
            /\ UNCHANGED oTn
TIn(x, k, i, j) == k < Order(x) /\ i < tn[x].m[k + 1].row /\ j < tn[x].m[k + 1].col
TnSet(x, k, i, j, v) == /\ On("tn") /\ TLive(x) /\ Filled(x) /\ TIn(x, k, i, j)
                        /\ tn' = [tn EXCEPT ![x].m[k + 1].cell[i + 1][j + 1] = v]
                        /\ op' = O("setTensorValue", "in", {R("tn", x)}, {}, {R("tn", x)}, [x |-> x, k |-> k, i |-> i, j |-> j, v |-> v])
                        /\ UNCHANGED oTn
TnSetOor(x, k, i, j, v) == /\ On("tn") /\ TLive(x) /\ Filled(x) /\ ~TIn(x, k, i, j)
                           /\ op' = Oor("setTensorValue", {R("tn", x)}, [x |-> x, k |-> k, i |-> i, j |-> j, v |-> v])
                           /\ UNCHANGED conts
TnGet(x, k, i, j) == /\ On("tn") /\ TLive(x) /\ Filled(x) /\ TIn(x, k, i, j)
                     /\ op' = O("getTensorValue", "in", {R("tn", x)}, {}, {}, [x |-> x, k |-> k, i |-> i, j |-> j, ret |-> tn[x].m[k + 1].cell[i + 1][j + 1]])
                     /\ UNCHANGED conts
TnGetOor(x, k, i, j) == /\ On("tn") /\ TLive(x) /\ Filled(x) /\ ~TIn(x, k, i, j)
                        /\ op' = Oor("getTensorValue", {R("tn", x)}, [x |-> x, k |-> k, i |-> i, j |-> j])
                        /\ UNCHANGED conts
\* TensorAppendMatrix(t, m): a deep copy of m becomes the last layer; documented precondition: m has as many rows
\* as the current last layer (tensor.c:162). The operand is a matrix r x c with cells f built for the call.
TnAppendMatrix(x, r, c, f) == /\ On("tn") /\ TLive(x) /\ Filled(x) /\ Order(x) < MaxDim
                              /\ (Order(x) > 0 => tn[x].m[Order(x)].row = r)
                              /\ tn' = [tn EXCEPT ![x].m = Append(@, Mat(r, c, f))]
                              /\ op' = O("TensorAppendMatrix", IF Order(x) = 0 THEN "dst-empty" ELSE Rel(c, tn[x].m[Order(x)].col), {R("tn", x)}, {}, {R("tn", x)}, [x |-> x, r |-> r, c |-> c, f |-> f])
                              /\ UNCHANGED oTn
\* TensorAppendColumn(t, k, v) is MatrixAppendCol on layer k
TnAppendCol(x, k, v) == /\ On("tn") /\ TLive(x) /\ Filled(x) /\ k < Order(x) /\ tn[x].m[k + 1].col < MaxDim
                        /\ tn' = [tn EXCEPT ![x].m[k + 1] = MAppendCol(@, v)]
                        /\ op' = O("TensorAppendColumn", Rel(Len(v), tn[x].m[k + 1].row), {R("tn", x)}, {}, {R("tn", x)}, [x |-> x, k |-> k, vs |-> v])
                        /\ UNCHANGED oTn
TnFill(x, v) == /\ On("tn") /\ TLive(x) /\ Filled(x)
                /\ tn' = [tn EXCEPT ![x].m = [k \in 1..Len(@) |-> ConstM(@[k].row, @[k].col, v)]]
                /\ op' = O("TensorSet", "na", {R("tn", x)}, {}, {R("tn", x)}, [x |-> x, v |-> v])
                /\ UNCHANGED oTn
\* TensorCopy(src, &dst): dst (allocated: empty, same shape or another shape) becomes an independent equal of src
TnCopy(s, t) == /\ On("tn") /\ TLive(s) /\ TLive(t) /\ s # t /\ Filled(s) /\ Filled(t)
                /\ tn' = [tn EXCEPT ![t] = tn[s]]
                /\ op' = O("TensorCopy", TShapeRel(tn[t], tn[s]), {R("tn", s), R("tn", t)}, {}, {R("tn", t)}, [src |-> s, dst |-> t])
                /\ UNCHANGED oTn

(* ---------------------------------------------------------------- dvectorlist ----------------- *)
oDl == <<vec, sv, mx, tn>>
LLive(x) == dl[x].live
DlInit(x) == /\ On("dl") /\ ~LLive(x)
             /\ dl' = [dl EXCEPT ![x] = [live |-> TRUE, d |-> <<>>]]
             /\ op' = O("initDVectorList", "na", {}, {R("dl", x)}, {R("dl", x)}, [x |-> x])
             /\ UNCHANGED oDl
\* NewDVectorList(n) leaves n uninitialised pointers and there is no call that fills them: only n = 0 is usable
DlNew0(x) == /\ On("dl") /\ ~LLive(x)
             /\ dl' = [dl EXCEPT ![x] = [live |-> TRUE, d |-> <<>>]]
             /\ op' = O("NewDVectorList", "na", {}, {R("dl", x)}, {R("dl", x)}, [x |-> x, n |-> 0])
             /\ UNCHANGED oDl
\* NewDVectorList(n) followed by the only way the API offers to make the n slots valid: NewDVector(&l->d[q], len) on every slot
\* (the member is public; the python bindings do the same).  One composite call: the list then owns exactly n slots.
DlNewN(x, vs) == /\ On("dl") /\ ~LLive(x) /\ Len(vs) >= 1
                 /\ dl' = [dl EXCEPT ![x] = [live |-> TRUE, d |-> vs]]
                 /\ op' = O("NewDVectorListFilled", "na", {}, {R("dl", x)}, {R("dl", x)}, [x |-> x, vss |-> vs])
                 /\ UNCHANGED oDl
\* DVectorListAppend(l, v): a deep copy of v becomes the last element
DlAppend(x, v) == /\ On("dl") /\ LLive(x) /\ Len(dl[x].d) < MaxDim
                  /\ dl' = [dl EXCEPT ![x].d = Append(@, v)]
                  /\ op' = O("DVectorListAppend", IF Len(dl[x].d) = 0 THEN "dst-empty" ELSE Rel(Len(v), Len(dl[x].d[Len(dl[x].d)])), {R("dl", x)}, {}, {R("dl", x)}, [x |-> x, vs |-> v])
                  /\ UNCHANGED oDl
DlDel(x) == /\ On("dl") /\ LLive(x)
            /\ dl' = [dl EXCEPT ![x] = DeadL]
            /\ op' = O("DelDVectorList", "na", {R("dl", x)}, {}, {R("dl", x)}, [x |-> x])
            /\ UNCHANGED oDl

(* ---------------------------------------------------------------- full nondeterminism (MC) ---- *)
\* a family that is switched off costs nothing: its slots are not even enumerated (constant-level bounds)
PoolOn(k) == IF k \in Kinds THEN Pool ELSE {}
NextVec == \E k \in VKinds \cap Kinds, x \in Pool :
             \/ \E n \in Dims : VNew(k, x, n) \/ VResize(k, x, n)
             \/ VInit(k, x) \/ VDel(k, x) \/ VSort(k, x)
             \/ \E v \in Vals : VAppend(k, x, v) \/ VHas(k, x, v) \/ VIndexOf(k, x, v) \/ VFill(k, x, v)
             \/ \E i \in Idxs : VRemoveAt(k, x, i) \/ VGet(k, x, i) \/ VGetOor(k, x, i)
             \/ \E i \in Idxs, v \in Vals : VSet(k, x, i, v) \/ VSetOor(k, x, i, v)
             \/ \E y \in Pool : VCopy(k, x, y)
             \/ \E b, y \in Pool : VExtend(k, x, b, y)
             \/ \E f \in FarIdx : VGetOor(k, x, f) \/ VRemoveAt(k, x, f) \/ \E v \in Vals : VSetOor(k, x, f, v)
NextSv == \E x \in PoolOn("sv") :
             \/ SvInit(x) \/ SvDel(x)
             \/ \E n \in Dims : SvNew(x, n) \/ SvResize(x, n)
             \/ \E s \in StrVals : SvAppend(x, s)
             \/ \E v \in Vals : SvAppendInt(x, v) \/ SvAppendDouble(x, v)
             \/ \E i \in Idxs : SvGet(x, i) \/ \E s \in StrVals : SvSet(x, i, s)
             \/ \E b, y \in Pool : SvExtend(x, b, y)
NextMx == \E x \in PoolOn("mx") :
             \/ MxInit(x) \/ MxDel(x)
             \/ \E r, c \in Dims : MxNew(x, r, c) \/ MxResize(x, r, c)
             \/ \E v \in Vals : MxFill(x, v)
             \/ \E y \in Pool : MxCopy(x, y)
             \/ \E i, j \in Idxs : MxGet(x, i, j) \/ MxGetOor(x, i, j) \/ \E v \in Vals : MxSet(x, i, j, v) \/ MxSetOor(x, i, j, v)
             \/ \E i \in Idxs : MxGetRowOor(x, i) \/ MxGetColOor(x, i) \/ MxDelRow(x, i) \/ MxDelCol(x, i)
                               \/ \E y \in Pool : MxGetRow(x, i, y) \/ MxGetCol(x, i, y)
             \/ \E v \in VecsUpTo(MaxDim), ui \in BOOLEAN : MxAppendRow(x, v, ui) \/ MxAppendCol(x, v, ui)
             \/ \E f \in FarIdx : MxGetOor(x, f, 0) \/ MxGetOor(x, 0, f) \/ MxGetRowOor(x, f) \/ MxGetColOor(x, f)
                                  \/ \E v \in Vals : MxSetOor(x, f, 0, v) \/ MxSetOor(x, 0, f, v)
NextTn == \E x \in PoolOn("tn") :
             \/ TnInit(x) \/ TnDel(x)
             \/ \E n \in Dims : TnNew(x, n)
             \/ \E r, c \in Dims : TnAdd(x, r, c) \/ (\E k \in Idxs : TnNewMatrix(x, k, r, c)) \/ (\E f \in CellsOf(r, c) : TnAppendMatrix(x, r, c, f))
             \/ \E k, i, j \in Idxs : TnGet(x, k, i, j) \/ TnGetOor(x, k, i, j) \/ \E v \in Vals : TnSet(x, k, i, j, v) \/ TnSetOor(x, k, i, j, v)
             \/ \E k \in Idxs, v \in VecsUpTo(MaxDim) : TnAppendCol(x, k, v)
             \/ \E v \in Vals : TnFill(x, v)
             \/ \E y \in Pool : TnCopy(x, y)
             \/ \E f \in FarIdx : TnGetOor(x, f, 0, 0) \/ TnGetOor(x, 0, f, 0) \/ TnGetOor(x, 0, 0, f)
                                  \/ \E v \in Vals : TnSetOor(x, f, 0, 0, v) \/ TnSetOor(x, 0, f, 0, v) \/ TnSetOor(x, 0, 0, f, v)
NextDl == \E x \in PoolOn("dl") :
             \/ DlInit(x) \/ DlNew0(x) \/ DlDel(x)
             \/ \E v \in VecsUpTo(MaxDim) : DlAppend(x, v)
             \/ \E n \in 1..(MaxDim - 1) : \E vs \in [1..n -> VecsUpTo(MaxDim)] : DlNewN(x, vs)
Next == NextVec \/ NextSv \/ NextMx \/ NextTn \/ NextDl
Spec == Init /\ [][Next]_vars

(* ---------------------------------------------------------------- invariants (state) ---------- *)
WellShaped(m) == /\ DOMAIN m.cell = 1..m.row
                 /\ \A i \in 1..m.row : DOMAIN m.cell[i] = 1..m.col /\ \A j \in 1..m.col : m.cell[i][j] \in Vals
StrOK(s) == s = UNSET \/ s \in StrVals \/ \E v \in Vals : s = IntStr(v) \/ s = DblStr(v)
\* every matrix row has length col (matrices and tensor layers); sizes within bounds; a dead slot holds nothing
Shape == /\ \A x \in Pool : MLive(x) => WellShaped(mx[x]) /\ mx[x].row \in Dims /\ mx[x].col \in Dims
         /\ \A x \in Pool : TLive(x) => Order(x) \in Dims /\ \A k \in 1..Order(x) : tn[x].m[k].live => WellShaped(tn[x].m[k])
TypeOK == /\ \A k \in VKinds, x \in Pool : VLive(k, x) => Len(VD(k, x)) \in Dims /\ \A i \in 1..Len(VD(k, x)) : VD(k, x)[i] \in Vals
          /\ \A x \in Pool : SLive(x) => Len(sv[x].d) \in Dims /\ \A i \in 1..Len(sv[x].d) : StrOK(sv[x].d[i])
          /\ \A x \in Pool : LLive(x) => Len(dl[x].d) \in Dims /\ \A i \in 1..Len(dl[x].d) : dl[x].d[i] \in VecsUpTo(MaxDim)
DeadIsEmpty == /\ \A k \in VKinds, x \in Pool : ~VLive(k, x) => vec[k][x] = DeadV
               /\ \A x \in Pool : /\ ~SLive(x) => sv[x] = DeadV
                                  /\ ~MLive(x) => mx[x] = DeadM
                                  /\ ~TLive(x) => tn[x] = DeadT
                                  /\ ~LLive(x) => dl[x] = DeadL
\* a kind that is switched off is never populated
KindsOff == /\ \A k \in VKinds \ (Kinds \cup {"dv"}), x \in Pool : ~VLive(k, x)
            /\ ("sv" \notin Kinds => \A x \in Pool : ~SLive(x))
            /\ ("tn" \notin Kinds => \A x \in Pool : ~TLive(x))
            /\ ("dl" \notin Kinds => \A x \in Pool : ~LLive(x))

(* ---------------------------------------------------------------- laws (action properties) ---- *)
Slot(r) == CASE r[1] \in VKinds -> vec[r[1]][r[2]] [] r[1] = "sv" -> sv[r[2]] [] r[1] = "mx" -> mx[r[2]]
             [] r[1] = "tn" -> tn[r[2]] [] r[1] = "dl" -> dl[r[2]]
Refs == AllKinds \X Pool
\* no action is enabled on a dead container, none creates into a live slot
GuardLaw == [][(\A r \in op'.uses : Slot(r).live) /\ (\A r \in op'.fresh : ~Slot(r).live /\ Slot(r)'.live)]_vars
\* an action changes only what it declares; in particular mutating a copy never changes its source
FrameLaw == [][\A r \in Refs : r \notin op'.touched => Slot(r)' = Slot(r)]_vars
\* out-of-range accessors leave everything as it was
OorLaw == [][op'.oor => conts' = conts]_vars
\* copies: destination equals the source as it was, source untouched
CopyLaw == [][/\ op'.name = "DVectorCopy" => vec'["dv"][op'.a.dst] = vec["dv"][op'.a.src] /\ vec'["dv"][op'.a.src] = vec["dv"][op'.a.src]
              /\ op'.name = "MatrixCopy" => mx'[op'.a.dst] = mx[op'.a.src] /\ mx'[op'.a.src] = mx[op'.a.src]
              /\ op'.name = "TensorCopy" => tn'[op'.a.dst] = tn[op'.a.src] /\ tn'[op'.a.src] = tn[op'.a.src]]_vars
\* growth: old cells preserved, newly exposed cells zero, the operand lands in the new row / column
RowGrowth(o, n, v) == /\ n.row = o.row + 1 /\ n.col = Max(o.col, Len(v))
                      /\ \A i \in 1..o.row : \A j \in 1..n.col : n.cell[i][j] = IF j <= o.col THEN o.cell[i][j] ELSE 0
                      /\ \A j \in 1..n.col : n.cell[n.row][j] = IF j <= Len(v) THEN v[j] ELSE 0
ColGrowth(o, n, v) == /\ n.col = o.col + 1 /\ n.row = Max(o.row, Len(v))
                      /\ \A i \in 1..n.row : \A j \in 1..o.col : n.cell[i][j] = IF i <= o.row THEN o.cell[i][j] ELSE 0
                      /\ \A i \in 1..n.row : n.cell[i][n.col] = IF i <= Len(v) THEN v[i] ELSE 0
GrowthLaw == [][/\ op'.name \in {"MatrixAppendRow", "MatrixAppendUIRow"} => RowGrowth(mx[op'.a.x], mx'[op'.a.x], op'.a.vs)
                /\ op'.name \in {"MatrixAppendCol", "MatrixAppendUICol"} => ColGrowth(mx[op'.a.x], mx'[op'.a.x], op'.a.vs)
                /\ op'.name = "TensorAppendColumn" => ColGrowth(tn[op'.a.x].m[op'.a.k + 1], tn'[op'.a.x].m[op'.a.k + 1], op'.a.vs)
                /\ op'.name \in {"ResizeMatrix", "NewMatrix"} => mx'[op'.a.x] = ConstM(op'.a.r, op'.a.c, 0)
                /\ op'.name \in {"DVectorAppend", "UIVectorAppend", "IVectorAppend"} =>
                      \E k \in VKinds : /\ Fn[k].cAppend = op'.name
                                        /\ vec'[k][op'.a.x].d = vec[k][op'.a.x].d \o <<op'.a.v>>]_vars
\* shrink: exactly the addressed element / row / column disappears, order of the rest kept
ShrinkLaw == [][/\ op'.name = "MatrixDeleteRowAt" =>
                     LET o == mx[op'.a.x]  n == mx'[op'.a.x]  k == op'.a.k + 1
                     IN n.row = o.row - 1 /\ n.col = o.col /\ \A i \in 1..n.row : n.cell[i] = o.cell[IF i < k THEN i ELSE i + 1]
                /\ op'.name = "MatrixDeleteColAt" =>
                     LET o == mx[op'.a.x]  n == mx'[op'.a.x]  k == op'.a.k + 1
                     IN n.col = o.col - 1 /\ n.row = o.row /\ \A i \in 1..n.row, j \in 1..n.col : n.cell[i][j] = o.cell[i][IF j < k THEN j ELSE j + 1]
                /\ op'.name \in {"DVectorRemoveAt", "UIVectorRemoveAt", "IVectorRemoveAt"} /\ op'.rel = "in" =>
                     \E k \in VKinds : /\ Fn[k].cRemoveAt = op'.name
                                       /\ LET o == vec[k][op'.a.x].d  n == vec'[k][op'.a.x].d  p == op'.a.i + 1
                                          IN Len(n) = Len(o) - 1 /\ \A i \in 1..Len(n) : n[i] = o[IF i < p THEN i ELSE i + 1]]_vars

(* ---------------------------------------------------------------- MC plumbing ----------------- *)
DepthBound == op.n <= Depth                 \* every action is guarded by op.n < Depth (On): exhaustive to Depth calls
View == <<conts, op.n>>                     \* distinct states = distinct (pool contents, history length): exact for any worker count

(* ---------------------------------------------------------------- history generator (GEN) ----- *)
\* TLC's simulator is uniform over successor INSTANCES: one successor per operation kind, operands drawn with
\* RandomElement (bound through a singleton set so the drawn value is fixed before the action is evaluated).
Pick(S) == RandomElement(S)
LenRels(cur) == {"zero", "equal"} \cup (IF cur >= 2 THEN {"shorter"} ELSE {}) \cup (IF cur < MaxDim THEN {"longer"} ELSE {})
LenFor(rel, cur) == CASE rel = "zero" -> 0 [] rel = "equal" -> cur [] rel = "shorter" -> Pick(1..(cur - 1)) [] OTHER -> Pick((cur + 1)..MaxDim)
AroundLen(cur) == LenFor(Pick(LenRels(cur)), cur)           \* shorter / equal / longer / zero with equal weight
RandVec(n) == Pick(VecsOfLen(n))
RandIdx(n) == Pick(0..Max(n - 1, 0))                         \* an in-range index when n > 0
SizeDraw == IF Pick(1..4) = 1 THEN 0 ELSE Pick(1..MaxDim)    \* creation sizes: mostly non-empty
OutIdx(n) == Pick(n..(n + 1))                                \* just past the end, and one further
LiveV(k) == {x \in Pool : VLive(k, x)}
DeadVs(k) == {x \in Pool : ~VLive(k, x)}
One(S) == {Pick(S)}

GenVec(k) ==
  LET L == LiveV(k)  D == DeadVs(k)  NE == {x \in L : Len(VD(k, x)) > 0} IN
  \/ D # {} /\ \E x \in One(D), n \in {SizeDraw}, w \in One(1..4) : IF w = 1 THEN VInit(k, x) ELSE VNew(k, x, n)
  \/ L # {} /\ \E x \in One(L) : VDel(k, x)
  \/ L # {} /\ \E x \in One(L) : \E n \in {AroundLen(Len(VD(k, x)))} : VResize(k, x, n)
  \/ L # {} /\ \E x \in One(L), v \in One(Vals) : VAppend(k, x, v)
  \/ NE # {} /\ \E x \in One(NE) : \E i \in {RandIdx(Len(VD(k, x)))} : VRemoveAt(k, x, i)
  \/ L # {} /\ \E x \in One(L) : \E i \in {OutIdx(Len(VD(k, x)))} : VRemoveAt(k, x, i)
  \/ Cardinality(L) >= 2 /\ \E x \in One(L) : \E y \in One(L \ {x}) : VCopy(k, x, y)
  \/ L # {} /\ D # {} /\ \E a \in One(L), b \in One(L), y \in One(D) : VExtend(k, a, b, y)
  \/ NE # {} /\ \E x \in One(NE), v \in One(Vals) : \E i \in {RandIdx(Len(VD(k, x)))} : VSet(k, x, i, v)
  \/ L # {} /\ \E x \in One(L), v \in One(Vals) : \E i \in {OutIdx(Len(VD(k, x)))} : VSetOor(k, x, i, v)
  \/ NE # {} /\ \E x \in One(NE) : \E i \in {RandIdx(Len(VD(k, x)))} : VGet(k, x, i)
  \/ L # {} /\ \E x \in One(L) : \E i \in {OutIdx(Len(VD(k, x)))} : VGetOor(k, x, i)
  \/ L # {} /\ \E x \in One(L), v \in One(Vals), f \in One(FarIdx), w \in One(1..3) :
        IF w = 1 THEN VSetOor(k, x, f, v) ELSE IF w = 2 THEN VGetOor(k, x, f) ELSE VRemoveAt(k, x, f)
  \/ L # {} /\ \E x \in One(L), v \in One(Vals) : VHas(k, x, v)
  \/ L # {} /\ \E x \in One(L), v \in One(Vals) : VIndexOf(k, x, v)
  \/ L # {} /\ \E x \in One(L), v \in One(Vals) : VFill(k, x, v)
  \/ NE # {} /\ \E x \in One(NE) : VSort(k, x)            \* empty vectors made by init* have data = NULL: qsort(NULL, 0) trips UBSan's nonnull check without touching memory

GenSv ==
  LET L == {x \in Pool : SLive(x)}  D == {x \in Pool : ~SLive(x)}  NE == {x \in L : Len(sv[x].d) > 0}
      G == {x \in NE : \E i \in 1..Len(sv[x].d) : sv[x].d[i] # UNSET}  A == {x \in L : AllSet(x)} IN
  \/ D # {} /\ \E x \in One(D), n \in {SizeDraw}, w \in One(1..3) : IF w = 1 THEN SvNew(x, n) ELSE SvInit(x)
  \/ L # {} /\ \E x \in One(L) : SvDel(x)
  \/ L # {} /\ \E x \in One(L) : \E n \in {AroundLen(Len(sv[x].d))} : SvResize(x, n)
  \/ A # {} /\ \E x \in One(A), s \in One(StrVals) : SvAppend(x, s)
  \/ L # {} /\ \E x \in One(L), v \in One(Vals) : SvAppendInt(x, v)
  \/ L # {} /\ \E x \in One(L), v \in One(Vals) : SvAppendDouble(x, v)
  \/ NE # {} /\ \E x \in One(NE), s \in One(StrVals) : \E i \in {RandIdx(Len(sv[x].d))} : SvSet(x, i, s)
  \/ G # {} /\ \E x \in One(G) : \E i \in One({j \in 0..(Len(sv[x].d) - 1) : sv[x].d[j + 1] # UNSET}) : SvGet(x, i)
  \/ A # {} /\ D # {} /\ \E a \in One(IF A \cap NE # {} THEN A \cap NE ELSE A), b \in One(A), y \in One(D) : SvExtend(a, b, y)

GenMx ==
  LET L == {x \in Pool : MLive(x)}  D == {x \in Pool : ~MLive(x)}
      NE == {x \in L : mx[x].row > 0 /\ mx[x].col > 0}  DD == DeadVs("dv")
      R1 == {z \in L : mx[z].row > 0}  C1 == {z \in L : mx[z].col > 0} IN
  \/ D # {} /\ \E x \in One(D), r \in {SizeDraw}, c \in {SizeDraw}, w \in One(1..4) : IF w = 1 THEN MxInit(x) ELSE MxNew(x, r, c)
  \/ L # {} /\ \E x \in One(L) : MxDel(x)
  \/ L # {} /\ \E x \in One(L) : \E r \in {AroundLen(mx[x].row)}, c \in {AroundLen(mx[x].col)} : MxResize(x, r, c)
  \/ L # {} /\ \E x \in One(L), v \in One(Vals) : MxFill(x, v)
  \/ Cardinality(L) >= 2 /\ \E x \in One(L) : \E y \in One(L \ {x}) : MxCopy(x, y)
  \/ NE # {} /\ \E x \in One(NE), v \in One(Vals) : \E i \in {RandIdx(mx[x].row)}, j \in {RandIdx(mx[x].col)} : MxSet(x, i, j, v)
  \/ NE # {} /\ \E x \in One(NE) : \E i \in {RandIdx(mx[x].row)}, j \in {RandIdx(mx[x].col)} : MxGet(x, i, j)
  \/ L # {} /\ \E x \in One(L), v \in One(Vals), w \in One({1, 2, 3}) :
        \E i \in {IF w = 2 THEN RandIdx(mx[x].row) ELSE OutIdx(mx[x].row)}, j \in {IF w = 1 THEN RandIdx(mx[x].col) ELSE OutIdx(mx[x].col)} :
           MxSetOor(x, i, j, v)
  \/ L # {} /\ \E x \in One(L), w \in One({1, 2, 3}) :
        \E i \in {IF w = 2 THEN RandIdx(mx[x].row) ELSE OutIdx(mx[x].row)}, j \in {IF w = 1 THEN RandIdx(mx[x].col) ELSE OutIdx(mx[x].col)} :
           MxGetOor(x, i, j)
  \/ DD # {} /\ R1 # {} /\ \E x \in One(R1), y \in One(DD) : \E i \in {RandIdx(mx[x].row)} : MxGetRow(x, i, y)
  \/ DD # {} /\ C1 # {} /\ \E x \in One(C1), y \in One(DD) : \E j \in {RandIdx(mx[x].col)} : MxGetCol(x, j, y)
  \/ L # {} /\ \E x \in One(L), v \in One(Vals), f \in One(FarIdx), w \in One(1..6) :
        IF w = 1 THEN MxSetOor(x, f, 0, v) ELSE IF w = 2 THEN MxSetOor(x, 0, f, v) ELSE IF w = 3 THEN MxGetOor(x, f, 0)
        ELSE IF w = 4 THEN MxGetOor(x, 0, f) ELSE IF w = 5 THEN MxGetRowOor(x, f) ELSE MxGetColOor(x, f)
  \/ L # {} /\ \E x \in One(L) : \E i \in {OutIdx(mx[x].row)} : MxGetRowOor(x, i)
  \/ L # {} /\ \E x \in One(L) : \E j \in {OutIdx(mx[x].col)} : MxGetColOor(x, j)
  \/ L # {} /\ \E x \in One(L), ui \in One(BOOLEAN) : \E n \in {AroundLen(mx[x].col)} : \E v \in {RandVec(n)} : MxAppendRow(x, v, ui)
  \/ L # {} /\ \E x \in One(L), ui \in One(BOOLEAN) : \E n \in {AroundLen(mx[x].row)} : \E v \in {RandVec(n)} : MxAppendCol(x, v, ui)
  \/ R1 # {} /\ \E x \in One(R1) : \E k \in {RandIdx(mx[x].row)} : MxDelRow(x, k)
  \/ C1 # {} /\ \E x \in One(C1) : \E k \in {RandIdx(mx[x].col)} : MxDelCol(x, k)

GenTn ==
  LET L == {x \in Pool : TLive(x)}  D == {x \in Pool : ~TLive(x)}  F == {x \in L : Filled(x)}  U == L \ F
      NE == {x \in F : \E k \in 1..Order(x) : tn[x].m[k].row > 0 /\ tn[x].m[k].col > 0}
      O1 == {x \in F : Order(x) > 0} IN
  \/ D # {} /\ \E x \in One(D), n \in One(0..2), w \in One(1..3) : IF w = 1 THEN TnNew(x, n) ELSE TnInit(x)
  \/ U # {} /\ \E x \in One(U), r \in {SizeDraw}, c \in {SizeDraw} : \E k \in One({q \in 0..(Order(x) - 1) : ~tn[x].m[q + 1].live}) : TnNewMatrix(x, k, r, c)
  \/ F # {} /\ \E x \in One(F), r \in {SizeDraw}, c \in {SizeDraw} : TnAdd(x, r, c)
  \/ F # {} /\ \E x \in One(F) : TnDel(x)
  \/ NE # {} /\ \E x \in One(NE), v \in One(Vals) : \E k \in One({q \in 0..(Order(x) - 1) : tn[x].m[q + 1].row > 0 /\ tn[x].m[q + 1].col > 0}) :
        \E i \in {RandIdx(tn[x].m[k + 1].row)}, j \in {RandIdx(tn[x].m[k + 1].col)}, set \in One(BOOLEAN) : IF set THEN TnSet(x, k, i, j, v) ELSE TnGet(x, k, i, j)
  \/ F # {} /\ \E x \in One(F), v \in One(Vals), w \in One({1, 2, 3}), set \in One(BOOLEAN) :
        \E k \in {IF w = 1 \/ Order(x) = 0 THEN OutIdx(Order(x)) ELSE RandIdx(Order(x))} :
          \E i \in {IF w = 2 /\ k < Order(x) THEN OutIdx(tn[x].m[k + 1].row) ELSE 0}, j \in {IF w = 3 /\ k < Order(x) THEN OutIdx(tn[x].m[k + 1].col) ELSE 0} :
             IF set THEN TnSetOor(x, k, i, j, v) ELSE TnGetOor(x, k, i, j)
  \/ F # {} /\ \E x \in One(F), v \in One(Vals), f \in One(FarIdx), w \in One(1..6) :
        IF w = 1 THEN TnSetOor(x, f, 0, 0, v) ELSE IF w = 2 THEN TnSetOor(x, 0, f, 0, v) ELSE IF w = 3 THEN TnSetOor(x, 0, 0, f, v)
        ELSE IF w = 4 THEN TnGetOor(x, f, 0, 0) ELSE IF w = 5 THEN TnGetOor(x, 0, f, 0) ELSE TnGetOor(x, 0, 0, f)
  \/ F # {} /\ \E x \in One(F), c \in {SizeDraw} : \E r \in {IF Order(x) > 0 THEN tn[x].m[Order(x)].row ELSE SizeDraw} : \E f \in One(CellsOf(r, c)) : TnAppendMatrix(x, r, c, f)
  \/ O1 # {} /\ \E x \in One(O1) : \E k \in {RandIdx(Order(x))} : \E n \in {AroundLen(tn[x].m[k + 1].row)} : \E v \in {RandVec(n)} : TnAppendCol(x, k, v)
  \/ F # {} /\ \E x \in One(F), v \in One(Vals) : TnFill(x, v)
  \/ Cardinality(F) >= 2 /\ \E x \in One(F) : \E y \in One(F \ {x}) : TnCopy(x, y)

GenDl ==
  LET L == {x \in Pool : LLive(x)}  D == {x \in Pool : ~LLive(x)} IN
  \/ D # {} /\ \E x \in One(D), w \in One(BOOLEAN) : IF w THEN DlInit(x) ELSE DlNew0(x)
  \/ D # {} /\ MaxDim >= 2 /\ \E x \in One(D), n \in One(1..(MaxDim - 1)) : \E vs \in {[q \in 1..n |-> RandVec(Pick(0..MaxDim))]} : DlNewN(x, vs)
  \/ L # {} /\ \E x \in One(L) : DlDel(x)
  \/ L # {} /\ \E x \in One(L) : \E n \in {AroundLen(IF Len(dl[x].d) = 0 THEN 0 ELSE Len(dl[x].d[Len(dl[x].d)]))} : \E v \in {RandVec(n)} : DlAppend(x, v)

GenNext == (\E k \in VKinds : GenVec(k)) \/ GenSv \/ GenMx \/ GenTn \/ GenDl
GenSpec == Init /\ [][GenNext]_vars
\* every generated call is a step of the model-checked relation (checked on simulated behaviours, REF_Containers.cfg)
GenRefinesNext == [][Next]_vars

(* what the replay harness needs: the call, and the shadow value of every slot the call may have changed *)
Touched(k) == {x \in Pool : <<k, x>> \in op.touched}
Emit == PrintT("@@" \o ToJson([lvl |-> TLCGet("level"),
                                op |-> [name |-> op.name, rel |-> op.rel, oor |-> op.oor, a |-> op.a, n |-> op.n],
                                post |-> [dv |-> [x \in Touched("dv") |-> vec["dv"][x]], uv |-> [x \in Touched("uv") |-> vec["uv"][x]],
                                          iv |-> [x \in Touched("iv") |-> vec["iv"][x]], sv |-> [x \in Touched("sv") |-> sv[x]],
                                          mx |-> [x \in Touched("mx") |-> mx[x]], tn |-> [x \in Touched("tn") |-> tn[x]],
                                          dl |-> [x \in Touched("dl") |-> dl[x]]]]))
=============================================================================
