---------------------------- MODULE Containers ----------------------------
(* C14.  Shadow state machine of libscientific's heap-owning containers.                              *)
(*   vec["dv"|"uv"|"iv"]  dvector / uivector / ivector   (vector.h, vector.c)   size, cells            *)
(*   sv                   strvector                       (vector.c:44-159)     size, strings          *)
(*   mx                   matrix                          (matrix.c:34-609)     row, col, cells        *)
(*   tn                   tensor                          (tensor.c:34-290)     order, layers          *)
(*   dl                   dvectorlist                     (list.c)              size, vectors          *)
(* A pool of slots per kind; a slot is dead (no object) or live.  One action per public API call with  *)
(* the contract that header comments, the tests and property C14 give it: old cells preserved, newly   *)
(* exposed cells 0, counts updated, copies deep, out-of-range accessors leave the state unchanged.     *)
(* Only what the operations DEFINE is modelled - no allocation detail.  Index arguments recorded in    *)
(* `op` are the 0-based indices of the C API; sequences here are 1-based.                              *)
(*                                                                                                     *)
(* Two next-state relations over the same actions: Next (all operands; model checking, MC_Containers_*.cfg, *)
(* one run per container family selected by Kinds, histories of at most Depth calls) and GenNext (one     *)
(* call per operation kind with randomly drawn operands; simulate mode, GEN_Containers.cfg, exported by   *)
(* Emit).  REF_Containers.cfg checks on simulated behaviours that every GenNext step is a Next step.      *)
(*                                                                                                     *)
(* Alphabet discipline (DESIGN C14): an operation is an action only where its contract is unambiguous. *)
(* Left out on purpose (listed again in the evidence): TensorAppendRow, TensorAppendMatrixAt,          *)
(* NewDVectorList(n>0), DVectNorm, MatrixDeleteRowAt/ColAt/MatrixSort with an invalid index,           *)
(* setStr/getStr out of range, reading a slot of NewStrVector(n) before it is set, NewTensorMatrix on  *)
(* a filled or out-of-range layer, the arithmetic reductions (properties C11/C15).                     *)
(*                                                                                                     *)
(* Round 3 additions.  Cell values are CODES: the replay harness maps a code to the real cell value    *)
(* through a strictly increasing palette with 0 |-> 0 (identity, "huge": beyond 2^31 / 2^32, "frac":   *)
(* tenths), so order, equality and zero fill are decided here on small integers while the library runs *)
(* on magnitudes that do not fit TLC's 32-bit integers.  Pseudo-kinds in Kinds switch on: "neg" signed  *)
(* codes (not for uivector), "self" the self-aliased copies X.Copy(x, x) (modelled as the identity;     *)
(* outside the property's statement: deviations are EXTRA findings).  MaxDim > 16 is the block-size    *)
(* generator mode (sizes around 4/8/16/32/64, operands one off the current dimension).  New actions:   *)
(* MatrixSort / MatrixReverseSort (post-state = any key-ordered row permutation: SortContract, judged  *)
(* by TraceContainers.tla on the observed matrices), MatrixColumnMinMax, ValInMatrix, SplitString,     *)
(* Print* (read-only traversals), Get*Oor at mid-range indices, appends to emptied containers.          *)
EXTENDS Integers, Sequences, FiniteSets, TLC, Json, ContainerLaws

CONSTANTS Pool,      \* slot names, the same for every kind
          MaxDim,    \* bound on every size, row, col, order
          Vals,      \* numeric cell values (naturals; they are valid double, int and size_t values)
          Kinds,     \* kinds whose operations are enabled: subset of {"dv","uv","iv","sv","mx","tn","dl"} plus the switches "neg", "self"
          Depth      \* bound on the length of a history (number of calls)

VARIABLES vec, sv, mx, tn, dl,   \* the shadow containers
          op                      \* ghost: last action, its arguments, what it used / created / changed
conts == <<vec, sv, mx, tn, dl>>
vars  == <<vec, sv, mx, tn, dl, op>>

VKinds   == {"dv", "uv", "iv"}
AllKinds == VKinds \cup {"sv", "mx", "tn", "dl"}
LongS    == "long" \in Kinds       \* strings of 255 / 256 / 257 characters (the replay harness expands the codes): StrVectorResize hands out 256-byte buffers
StrVals  == {"", "a", "bc"} \cup (IF LongS THEN {"<L255>", "<L256>", "<L257>"} ELSE {})
\* K4 (long number text): numbers whose "%f" / "%d" text is long or degenerate.  A code "<D:v>" / "<I:v>" stands both for the
\* value handed to StrVectorAppendDouble / StrVectorAppendInt and for the cell the call must store: the "%f" ("%d") text of that value
\* (the replay harness expands the code with snprintf into a buffer of the required size and compares length and content).
\* Text lengths (measured): 1e24 31 characters, -1e24 32, 1e25 33, -1e30 39; 1e55 / 1e56 / 1e57 63 / 64 / 65; 1e120 / -1e120 / 1e121
\* 127 / 128 / 129; -1e247 / 1e248 / 1e250 255 / 256 / 257; 1e300 308; DBL_MAX 316, -DBL_MAX 317; DBL_MIN and 1e-300 print as "0.000000".
DblCodesAll == {"<D:1e24>", "<D:-1e24>", "<D:1e25>", "<D:-1e30>", "<D:1e55>", "<D:1e56>", "<D:1e57>", "<D:1e120>", "<D:-1e120>", "<D:1e121>",
                "<D:-1e247>", "<D:1e248>", "<D:1e250>", "<D:1e300>", "<D:DBL_MAX>", "<D:-DBL_MAX>", "<D:DBL_MIN>", "<D:1e-300>"}
IntCodesAll == {"<I:INT_MIN>", "<I:INT_MAX>", "<I:-2147483647>"}
\* switch "bignum": all of them (history generator); "bignum-mc": a small subset for the exhaustive runs
DblCodes == IF "bignum" \in Kinds THEN DblCodesAll ELSE IF "bignum-mc" \in Kinds THEN {"<D:-1e24>", "<D:1e-300>"} ELSE {}
IntCodes == IF "bignum" \in Kinds THEN IntCodesAll ELSE IF "bignum-mc" \in Kinds THEN {"<I:INT_MIN>"} ELSE {}
UNSET    == "<unset>"            \* slot of NewStrVector(n): one uninitialised byte, content undefined
Dims     == 0..MaxDim
Idxs     == 0..(MaxDim + 1)      \* API indices tried by accessors (in and out of range)
FarIdx   == {1000001, 1000002, 1000003, 1000004,    \* codes of far out-of-range indices: (size_t)-1, 2^63, 2^63+1, 2^32 (mapped by the replay harness)
             MaxDim + 8, MaxDim + 65}                \* and two literal mid-range ones: past any redzone, possibly inside another live allocation
Neg      == "neg" \in Kinds        \* signed value codes (dvector / ivector / matrix / tensor / list cells; never uivector)
Self     == "self" \in Kinds       \* self-aliased copies Copy(x, x) switched on
Big      == MaxDim > 16            \* block-size generator mode
MaxVal   == CHOOSE v \in Vals : \A w \in Vals : w <= v
ASSUME Vals = 0..MaxVal            \* value codes are contiguous (the generator indexes them arithmetically)
SVals    == IF Neg THEN (0 - MaxVal)..MaxVal ELSE Vals
ValsOf(k) == IF k = "uv" THEN Vals ELSE SVals

(* ---------------------------------------------------------------- values ---------------------- *)
DeadV == [live |-> FALSE, d |-> <<>>]
Vec(s) == [live |-> TRUE, d |-> s]
Fill(n, v) == [i \in 1..n |-> v]
DropAt(s, k) == [i \in 1..(Len(s) - 1) |-> IF i < k THEN s[i] ELSE s[i + 1]]
Has(s, v) == \E i \in 1..Len(s) : s[i] = v
FirstIdx(s, v) == IF Has(s, v) THEN (CHOOSE i \in 1..Len(s) : s[i] = v /\ \A j \in 1..(i - 1) : s[j] # v) - 1 ELSE -1
VecsOfLen(n) == [1..n -> SVals]                      \* dvector operands
VecsUpTo(n) == UNION {VecsOfLen(k) : k \in 0..n}
UVecsOfLen(n) == [1..n -> Vals]                      \* uivector operands
UVecsUpTo(n) == UNION {UVecsOfLen(k) : k \in 0..n}
OperandVecs(ui, n) == IF ui THEN UVecsUpTo(n) ELSE VecsUpTo(n)
SeqMin(s) == CHOOSE v \in {s[i] : i \in 1..Len(s)} : \A i \in 1..Len(s) : v <= s[i]
SeqMax(s) == CHOOSE v \in {s[i] : i \in 1..Len(s)} : \A i \in 1..Len(s) : v >= s[i]

DeadM == [live |-> FALSE, row |-> 0, col |-> 0, cell |-> <<>>]
Mat(r, c, f) == [live |-> TRUE, row |-> r, col |-> c, cell |-> f]       \* f \in [1..r -> [1..c -> Vals]]
ConstM(r, c, v) == Mat(r, c, [i \in 1..r |-> [j \in 1..c |-> v]])
DeadT == [live |-> FALSE, m |-> <<>>]                                     \* layers: matrices; live = FALSE is a NULL layer
DeadL == [live |-> FALSE, d |-> <<>>]

(* matrix algebra shared by matrix and tensor actions *)
\* MatrixAppendRow(m, v): one more row; columns grow to max(col, len v); old cells kept, missing cells 0
MAppendRow(m, v) ==
  LET r == m.row  c == m.col  nc == Max(c, Len(v))
  IN Mat(r + 1, nc, [i \in 1..(r + 1) |-> [j \in 1..nc |->
        IF i <= r THEN (IF j <= c THEN m.cell[i][j] ELSE 0) ELSE (IF j <= Len(v) THEN v[j] ELSE 0)]])
\* MatrixAppendCol(m, v): one more column; rows grow to max(row, len v); old cells kept, missing cells 0
MAppendCol(m, v) ==
  LET r == m.row  c == m.col  nr == Max(r, Len(v))
  IN Mat(nr, c + 1, [i \in 1..nr |-> [j \in 1..(c + 1) |->
        IF j <= c THEN (IF i <= r THEN m.cell[i][j] ELSE 0) ELSE (IF i <= Len(v) THEN v[i] ELSE 0)]])
MDelRow(m, k) == Mat(m.row - 1, m.col, [i \in 1..(m.row - 1) |-> m.cell[IF i < k THEN i ELSE i + 1]])
MDelCol(m, k) == Mat(m.row, m.col - 1, [i \in 1..m.row |-> [j \in 1..(m.col - 1) |-> m.cell[i][IF j < k THEN j ELSE j + 1]]])
MRow(m, i) == m.cell[i]
MCol(m, j) == [i \in 1..m.row |-> m.cell[i][j]]
SameShape(a, b) == a.row = b.row /\ a.col = b.col
CellsOf(r, c) == [1..r -> [1..c -> SVals]]
\* MatrixSort(m, j) / MatrixReverseSort(m, j): the rows reordered so that column j ascends / descends.  The order of rows
\* with EQUAL keys is not part of the contract (any sorting algorithm is allowed): SortContract (ContainerLaws.tla) is the whole
\* obligation.  MSortRows is the representative the shadow model continues with (whatever TLC's SortSeq does with ties).
MSortRows(m, j, rev) == Mat(m.row, m.col, SortSeq(m.cell, LAMBDA a, b : KeyBefore(a, b, j, rev)))
\* "tie-free": all keys differ; "tie-dup": equal keys only between identical rows (the result is still unique);
\* "tie-distinct": different rows share a key - several results satisfy the contract
TieRel(m, j) == IF \A a, b \in 1..m.row : a # b => m.cell[a][j] # m.cell[b][j] THEN "tie-free"
                ELSE IF \A a, b \in 1..m.row : m.cell[a][j] = m.cell[b][j] => m.cell[a] = m.cell[b] THEN "tie-dup" ELSE "tie-distinct"

(* size relation of an operand of length n against the current dimension cur (goes into signatures) *)
Rel(n, cur) == IF n = cur THEN "equal" ELSE IF n = 0 THEN "zero" ELSE IF n < cur THEN "shorter" ELSE "longer"
InOut(b) == IF b THEN "in" ELSE "out"

(* ---------------------------------------------------------------- ghost ----------------------- *)
\* uses: slots the call reads or mutates (must be live); fresh: slots it creates (must be dead);
\* touched: slots whose shadow value may change; oor: out-of-range accessor (any safe outcome accepted);
\* n: position of the call in the history
O(name, rel, uses, fresh, touched, args) ==
  [name |-> name, rel |-> rel, oor |-> FALSE, uses |-> uses, fresh |-> fresh, touched |-> touched, a |-> args, n |-> op.n + 1]
Oor(name, uses, args) ==
  [name |-> name, rel |-> "out", oor |-> TRUE, uses |-> uses, fresh |-> {}, touched |-> {}, a |-> args, n |-> op.n + 1]

Init == /\ vec = [k \in VKinds |-> [x \in Pool |-> DeadV]]
        /\ sv = [x \in Pool |-> DeadV]
        /\ mx = [x \in Pool |-> DeadM]
        /\ tn = [x \in Pool |-> DeadT]
        /\ dl = [x \in Pool |-> DeadL]
        /\ op = [name |-> "init", rel |-> "na", oor |-> FALSE, uses |-> {}, fresh |-> {}, touched |-> {}, a |-> [x |-> ""], n |-> 0]

(* ---------------------------------------------------------------- dvector / uivector / ivector *)
\* C names per kind; a call that a kind does not have is absent from its record
Fn == [dv |-> [cNew |-> "NewDVector", cInit |-> "initDVector", cDel |-> "DelDVector", cResize |-> "DVectorResize",
               cAppend |-> "DVectorAppend", cRemoveAt |-> "DVectorRemoveAt", cCopy |-> "DVectorCopy", cExtend |-> "DVectorExtend",
               cSet |-> "setDVectorValue", cGet |-> "getDVectorValue", cHas |-> "DVectorHasValue", cFill |-> "DVectorSet",
               cSort |-> "DVectorSort", cPrint |-> "PrintDVector"],
       uv |-> [cNew |-> "NewUIVector", cInit |-> "initUIVector", cDel |-> "DelUIVector", cResize |-> "UIVectorResize",
               cAppend |-> "UIVectorAppend", cRemoveAt |-> "UIVectorRemoveAt", cExtend |-> "UIVectorExtend",
               cSet |-> "setUIVectorValue", cGet |-> "getUIVectorValue", cHas |-> "UIVectorHasValue", cIndexOf |-> "UIVectorIndexOf",
               cFill |-> "UIVectorSet", cSort |-> "SortUIVector", cPrint |-> "PrintUIVector"],
       iv |-> [cNew |-> "NewIVector", cInit |-> "initIVector", cDel |-> "DelIVector",
               cAppend |-> "IVectorAppend", cRemoveAt |-> "IVectorRemoveAt", cExtend |-> "IVectorExtend",
               cSet |-> "setIVectorValue", cGet |-> "getIVectorValue", cHas |-> "IVectorHasValue", cFill |-> "IVectorSet",
               cPrint |-> "PrintIVector"]]
On(k) == k \in Kinds /\ op.n < Depth                        \* kind switched on, history not yet at its bound
Api(k, call) == On(k) /\ call \in DOMAIN Fn[k]
VLive(k, x) == vec[k][x].live
VD(k, x) == vec[k][x].d
R(k, x) == <<k, x>>
oVec == <<sv, mx, tn, dl>>

VNew(k, x, n) == /\ Api(k, "cNew") /\ ~VLive(k, x)
                 /\ vec' = [vec EXCEPT ![k][x] = Vec(Fill(n, 0))]
                 /\ op' = O(Fn[k].cNew, "na", {}, {R(k, x)}, {R(k, x)}, [x |-> x, n |-> n])
                 /\ UNCHANGED oVec
VInit(k, x) == /\ Api(k, "cInit") /\ ~VLive(k, x)
               /\ vec' = [vec EXCEPT ![k][x] = Vec(<<>>)]
               /\ op' = O(Fn[k].cInit, "na", {}, {R(k, x)}, {R(k, x)}, [x |-> x])
               /\ UNCHANGED oVec
VDel(k, x) == /\ Api(k, "cDel") /\ VLive(k, x)
              /\ vec' = [vec EXCEPT ![k][x] = DeadV]
              /\ op' = O(Fn[k].cDel, "na", {R(k, x)}, {}, {R(k, x)}, [x |-> x])
              /\ UNCHANGED oVec
\* Resize discards the content: n zeros
VResize(k, x, n) == /\ Api(k, "cResize") /\ VLive(k, x)
                    /\ vec' = [vec EXCEPT ![k][x] = Vec(Fill(n, 0))]
                    /\ op' = O(Fn[k].cResize, Rel(n, Len(VD(k, x))), {R(k, x)}, {}, {R(k, x)}, [x |-> x, n |-> n])
                    /\ UNCHANGED oVec
VAppend(k, x, v) == /\ Api(k, "cAppend") /\ VLive(k, x) /\ Len(VD(k, x)) < MaxDim
                    /\ vec' = [vec EXCEPT ![k][x].d = Append(@, v)]
                    /\ op' = O(Fn[k].cAppend, "na", {R(k, x)}, {}, {R(k, x)}, [x |-> x, v |-> v])
                    /\ UNCHANGED oVec
\* RemoveAt(i): removes element i and shifts the tail down; an index past the end is ignored (vector.c:261-272)
VRemoveAt(k, x, i) == /\ Api(k, "cRemoveAt") /\ VLive(k, x)
                      /\ vec' = IF i < Len(VD(k, x)) THEN [vec EXCEPT ![k][x].d = DropAt(@, i + 1)] ELSE vec
                      /\ op' = O(Fn[k].cRemoveAt, InOut(i < Len(VD(k, x))), {R(k, x)}, {}, {R(k, x)}, [x |-> x, i |-> i])
                      /\ UNCHANGED oVec
\* Copy(src, dst): dst becomes an independent equal of src whatever its previous size
CopyRel(dn, sn) == IF dn = 0 THEN "dst-empty" ELSE IF sn = 0 THEN "src-empty" ELSE IF dn = sn THEN "same-shape" ELSE "diff-shape"
\* Copy(x, x) ("self", only when switched on): the identity - a copy of x onto x leaves x as it was
VCopy(k, s, t) == /\ Api(k, "cCopy") /\ VLive(k, s) /\ VLive(k, t) /\ (IF Self THEN TRUE ELSE s # t)
                  /\ vec' = [vec EXCEPT ![k][t] = vec[k][s]]
                  /\ op' = O(Fn[k].cCopy, IF s = t THEN "self" ELSE CopyRel(Len(VD(k, t)), Len(VD(k, s))), {R(k, s), R(k, t)}, {}, {R(k, t)}, [src |-> s, dst |-> t])
                  /\ UNCHANGED oVec
\* Extend(a, b) returns a NEW vector a \o b (operands unchanged; a = b allowed: both are only read)
VExtend(k, a, b, y) == /\ Api(k, "cExtend") /\ VLive(k, a) /\ VLive(k, b) /\ ~VLive(k, y)
                       /\ Len(VD(k, a)) + Len(VD(k, b)) <= MaxDim
                       /\ vec' = [vec EXCEPT ![k][y] = Vec(VD(k, a) \o VD(k, b))]
                       /\ op' = O(Fn[k].cExtend, Rel(Len(VD(k, b)), Len(VD(k, a))), {R(k, a), R(k, b)}, {R(k, y)}, {R(k, y)}, [a |-> a, b |-> b, y |-> y])
                       /\ UNCHANGED oVec
VSet(k, x, i, v) == /\ Api(k, "cSet") /\ VLive(k, x) /\ i < Len(VD(k, x))
                    /\ vec' = [vec EXCEPT ![k][x].d[i + 1] = v]
                    /\ op' = O(Fn[k].cSet, "in", {R(k, x)}, {}, {R(k, x)}, [x |-> x, i |-> i, v |-> v])
                    /\ UNCHANGED oVec
VSetOor(k, x, i, v) == /\ Api(k, "cSet") /\ VLive(k, x) /\ i >= Len(VD(k, x))
                       /\ op' = Oor(Fn[k].cSet, {R(k, x)}, [x |-> x, i |-> i, v |-> v])
                       /\ UNCHANGED conts
VGet(k, x, i) == /\ Api(k, "cGet") /\ VLive(k, x) /\ i < Len(VD(k, x))
                 /\ op' = O(Fn[k].cGet, "in", {R(k, x)}, {}, {}, [x |-> x, i |-> i, ret |-> VD(k, x)[i + 1]])
                 /\ UNCHANGED conts
VGetOor(k, x, i) == /\ Api(k, "cGet") /\ VLive(k, x) /\ i >= Len(VD(k, x))
                    /\ op' = Oor(Fn[k].cGet, {R(k, x)}, [x |-> x, i |-> i])
                    /\ UNCHANGED conts
\* HasValue: 0 when present, 1 when absent (vector.h:162-166)
VHas(k, x, v) == /\ Api(k, "cHas") /\ VLive(k, x)
                 /\ op' = O(Fn[k].cHas, "na", {R(k, x)}, {}, {}, [x |-> x, v |-> v, ret |-> IF Has(VD(k, x), v) THEN 0 ELSE 1])
                 /\ UNCHANGED conts
VIndexOf(k, x, v) == /\ Api(k, "cIndexOf") /\ VLive(k, x)
                     /\ op' = O(Fn[k].cIndexOf, "na", {R(k, x)}, {}, {}, [x |-> x, v |-> v, ret |-> FirstIdx(VD(k, x), v)])
                     /\ UNCHANGED conts
VFill(k, x, v) == /\ Api(k, "cFill") /\ VLive(k, x)
                  /\ vec' = [vec EXCEPT ![k][x].d = Fill(Len(@), v)]
                  /\ op' = O(Fn[k].cFill, "na", {R(k, x)}, {}, {R(k, x)}, [x |-> x, v |-> v])
                  /\ UNCHANGED oVec
SeqTies(s) == IF \A a, b \in 1..Len(s) : a # b => s[a] # s[b] THEN "tie-free" ELSE "tie-dup"
VSort(k, x) == /\ Api(k, "cSort") /\ VLive(k, x)
               /\ vec' = [vec EXCEPT ![k][x].d = Sorted(@)]
               /\ op' = O(Fn[k].cSort, SeqTies(VD(k, x)), {R(k, x)}, {}, {R(k, x)}, [x |-> x])
               /\ UNCHANGED oVec
\* Print*: a read-only traversal (output discarded by the harness); nothing changes
VPrint(k, x) == /\ Api(k, "cPrint") /\ VLive(k, x)
                /\ op' = O(Fn[k].cPrint, "na", {R(k, x)}, {}, {}, [x |-> x])
                /\ UNCHANGED conts

(* ---------------------------------------------------------------- strvector ------------------- *)
oSv == <<vec, mx, tn, dl>>
SLive(x) == sv[x].live
AllSet(x) == \A i \in 1..Len(sv[x].d) : sv[x].d[i] # UNSET
IntStr(v) == ToString(v)
DblStr(v) == ToString(v) \o ".000000"                      \* "%f" of a small natural
SvInit(x) == /\ On("sv") /\ ~SLive(x)
             /\ sv' = [sv EXCEPT ![x] = Vec(<<>>)]
             /\ op' = O("initStrVector", "na", {}, {R("sv", x)}, {R("sv", x)}, [x |-> x])
             /\ UNCHANGED oSv
\* NewStrVector(n): n slots whose content is undefined until setStr (the test suite fills every slot first)
SvNew(x, n) == /\ On("sv") /\ ~SLive(x)
               /\ sv' = [sv EXCEPT ![x] = Vec(Fill(n, UNSET))]
               /\ op' = O("NewStrVector", "na", {}, {R("sv", x)}, {R("sv", x)}, [x |-> x, n |-> n])
               /\ UNCHANGED oSv
SvDel(x) == /\ On("sv") /\ SLive(x)
            /\ sv' = [sv EXCEPT ![x] = DeadV]
            /\ op' = O("DelStrVector", "na", {R("sv", x)}, {}, {R("sv", x)}, [x |-> x])
            /\ UNCHANGED oSv
\* StrVectorResize(n): n empty strings
SvResize(x, n) == /\ On("sv") /\ SLive(x)
                  /\ sv' = [sv EXCEPT ![x] = Vec(Fill(n, ""))]
                  /\ op' = O("StrVectorResize", Rel(n, Len(sv[x].d)), {R("sv", x)}, {}, {R("sv", x)}, [x |-> x, n |-> n])
                  /\ UNCHANGED oSv
\* StrVectorAppend re-reads every stored string: defined only when all slots are set
SvAppend(x, s) == /\ On("sv") /\ SLive(x) /\ AllSet(x) /\ Len(sv[x].d) < MaxDim
                  /\ sv' = [sv EXCEPT ![x].d = Append(@, s)]
                  /\ op' = O("StrVectorAppend", "na", {R("sv", x)}, {}, {R("sv", x)}, [x |-> x, s |-> s])
                  /\ UNCHANGED oSv
SvAppendInt(x, v) == /\ On("sv") /\ SLive(x) /\ Len(sv[x].d) < MaxDim
                     /\ sv' = [sv EXCEPT ![x].d = Append(@, IntStr(v))]
                     /\ op' = O("StrVectorAppendInt", "na", {R("sv", x)}, {}, {R("sv", x)}, [x |-> x, v |-> v])
                     /\ UNCHANGED oSv
SvAppendDouble(x, v) == /\ On("sv") /\ SLive(x) /\ Len(sv[x].d) < MaxDim
                        /\ sv' = [sv EXCEPT ![x].d = Append(@, DblStr(v))]
                        /\ op' = O("StrVectorAppendDouble", "na", {R("sv", x)}, {}, {R("sv", x)}, [x |-> x, v |-> v])
                        /\ UNCHANGED oSv
\* the same two calls with a number of the K4 set: the cell is the code (= the number's text, see DblCodes)
SvAppendIntBig(x, c) == /\ On("sv") /\ SLive(x) /\ Len(sv[x].d) < MaxDim /\ c \in IntCodes
                        /\ sv' = [sv EXCEPT ![x].d = Append(@, c)]
                        /\ op' = O("StrVectorAppendInt:big", "na", {R("sv", x)}, {}, {R("sv", x)}, [x |-> x, c |-> c])
                        /\ UNCHANGED oSv
SvAppendDoubleBig(x, c) == /\ On("sv") /\ SLive(x) /\ Len(sv[x].d) < MaxDim /\ c \in DblCodes
                           /\ sv' = [sv EXCEPT ![x].d = Append(@, c)]
                           /\ op' = O("StrVectorAppendDouble:big", "na", {R("sv", x)}, {}, {R("sv", x)}, [x |-> x, c |-> c])
                           /\ UNCHANGED oSv
SvSet(x, i, s) == /\ On("sv") /\ SLive(x) /\ i < Len(sv[x].d)
                  /\ sv' = [sv EXCEPT ![x].d[i + 1] = s]
                  /\ op' = O("setStr", "in", {R("sv", x)}, {}, {R("sv", x)}, [x |-> x, i |-> i, s |-> s])
                  /\ UNCHANGED oSv
SvGet(x, i) == /\ On("sv") /\ SLive(x) /\ i < Len(sv[x].d) /\ sv[x].d[i + 1] # UNSET
               /\ op' = O("getStr", "in", {R("sv", x)}, {}, {}, [x |-> x, i |-> i, rets |-> sv[x].d[i + 1]])
               /\ UNCHANGED conts
\* StrVectorExtend(a, b): a NEW strvector holding copies of a's then b's strings
SvExtend(a, b, y) == /\ On("sv") /\ SLive(a) /\ SLive(b) /\ ~SLive(y) /\ AllSet(a) /\ AllSet(b)
                     /\ Len(sv[a].d) + Len(sv[b].d) <= MaxDim
                     /\ sv' = [sv EXCEPT ![y] = Vec(sv[a].d \o sv[b].d)]
                     /\ op' = O("StrVectorExtend", Rel(Len(sv[b].d), Len(sv[a].d)), {R("sv", a), R("sv", b)}, {R("sv", y)}, {R("sv", y)}, [a |-> a, b |-> b, y |-> y])
                     /\ UNCHANGED oSv

\* the operand is one of the vector's OWN strings, as getStr hands it out (aliasing: the source lives inside the destination)
SvAppendOwn(x, k) == /\ On("sv") /\ SLive(x) /\ AllSet(x) /\ Len(sv[x].d) < MaxDim /\ k < Len(sv[x].d)
                     /\ sv' = [sv EXCEPT ![x].d = Append(@, @[k + 1])]
                     /\ op' = O("StrVectorAppend:own", "na", {R("sv", x)}, {}, {R("sv", x)}, [x |-> x, k |-> k])
                     /\ UNCHANGED oSv
SvSetOwn(x, i, k) == /\ On("sv") /\ SLive(x) /\ i < Len(sv[x].d) /\ k < Len(sv[x].d) /\ sv[x].d[k + 1] # UNSET
                     /\ sv' = [sv EXCEPT ![x].d[i + 1] = sv[x].d[k + 1]]
                     /\ op' = O("setStr:own", IF i = k THEN "same-cell" ELSE "other-cell", {R("sv", x)}, {}, {R("sv", x)}, [x |-> x, i |-> i, k |-> k])
                     /\ UNCHANGED oSv
SvPrint(x) == /\ On("sv") /\ SLive(x) /\ AllSet(x)
              /\ op' = O("PrintStrVector", "na", {R("sv", x)}, {}, {}, [x |-> x])
              /\ UNCHANGED conts
\* SplitString(str, sep, tokens) appends the non-empty fields of the trimmed string.  The string is given by its fields
\* (toks: non-empty, without blanks or separators) and a decoration the harness applies when it joins them with ";":
\* 0 plain, 1 blanks around the whole string, 2 empty fields (leading / doubled / trailing separators), 3 both.
SplitToks == {"a", "bc"}
SplitSeqs == UNION {[1..n -> SplitToks] : n \in 0..2}
SvSplit(x, toks, decor) == /\ On("sv") /\ SLive(x) /\ AllSet(x) /\ Len(sv[x].d) + Len(toks) <= MaxDim
                           /\ sv' = [sv EXCEPT ![x].d = @ \o toks]
                           /\ op' = O("SplitString", IF Len(toks) = 0 THEN "zero" ELSE "na", {R("sv", x)}, {}, {R("sv", x)}, [x |-> x, toks |-> toks, decor |-> decor])
                           /\ UNCHANGED oSv

(* ---------------------------------------------------------------- matrix ---------------------- *)
oMx == <<vec, sv, tn, dl>>
MLive(x) == mx[x].live
MShapeRel(d, s) == IF d.row = 0 /\ d.col = 0 THEN "dst-empty" ELSE IF SameShape(d, s) THEN "same-shape" ELSE "diff-shape"
MxInit(x) == /\ On("mx") /\ ~MLive(x)
             /\ mx' = [mx EXCEPT ![x] = ConstM(0, 0, 0)]
             /\ op' = O("initMatrix", "na", {}, {R("mx", x)}, {R("mx", x)}, [x |-> x])
             /\ UNCHANGED oMx
\* NewMatrix(r, c): r x c zeros; r > 0 /\ c = 0 and r = 0 /\ c > 0 are distinct legal shapes
MxNew(x, r, c) == /\ On("mx") /\ ~MLive(x)
                  /\ mx' = [mx EXCEPT ![x] = ConstM(r, c, 0)]
                  /\ op' = O("NewMatrix", "na", {}, {R("mx", x)}, {R("mx", x)}, [x |-> x, r |-> r, c |-> c])
                  /\ UNCHANGED oMx
MxDel(x) == /\ On("mx") /\ MLive(x)
            /\ mx' = [mx EXCEPT ![x] = DeadM]
            /\ op' = O("DelMatrix", "na", {R("mx", x)}, {}, {R("mx", x)}, [x |-> x])
            /\ UNCHANGED oMx
\* ResizeMatrix "deletes all the data stored inside the matrix" (matrix.h:57): r x c zeros
MxResize(x, r, c) == /\ On("mx") /\ MLive(x)
                     /\ mx' = [mx EXCEPT ![x] = ConstM(r, c, 0)]
                     /\ op' = O("ResizeMatrix", IF r = mx[x].row /\ c = mx[x].col THEN "same-shape" ELSE "diff-shape", {R("mx", x)}, {}, {R("mx", x)}, [x |-> x, r |-> r, c |-> c])
                     /\ UNCHANGED oMx
MxFill(x, v) == /\ On("mx") /\ MLive(x)
                /\ mx' = [mx EXCEPT ![x] = ConstM(@.row, @.col, v)]
                /\ op' = O("MatrixSet", "na", {R("mx", x)}, {}, {R("mx", x)}, [x |-> x, v |-> v])
                /\ UNCHANGED oMx
\* MatrixCopy(src, &dst): dst (allocated, any shape) becomes an independent equal of src
MxCopy(s, t) == /\ On("mx") /\ MLive(s) /\ MLive(t) /\ (IF Self THEN TRUE ELSE s # t)
                /\ mx' = [mx EXCEPT ![t] = mx[s]]
                /\ op' = O("MatrixCopy", IF s = t THEN "self" ELSE MShapeRel(mx[t], mx[s]), {R("mx", s), R("mx", t)}, {}, {R("mx", t)}, [src |-> s, dst |-> t])
                /\ UNCHANGED oMx
MxSet(x, i, j, v) == /\ On("mx") /\ MLive(x) /\ i < mx[x].row /\ j < mx[x].col
                     /\ mx' = [mx EXCEPT ![x].cell[i + 1][j + 1] = v]
                     /\ op' = O("setMatrixValue", "in", {R("mx", x)}, {}, {R("mx", x)}, [x |-> x, i |-> i, j |-> j, v |-> v])
                     /\ UNCHANGED oMx
MxSetOor(x, i, j, v) == /\ On("mx") /\ MLive(x) /\ ~(i < mx[x].row /\ j < mx[x].col)
                        /\ op' = Oor("setMatrixValue", {R("mx", x)}, [x |-> x, i |-> i, j |-> j, v |-> v])
                        /\ UNCHANGED conts
MxGet(x, i, j) == /\ On("mx") /\ MLive(x) /\ i < mx[x].row /\ j < mx[x].col
                  /\ op' = O("getMatrixValue", "in", {R("mx", x)}, {}, {}, [x |-> x, i |-> i, j |-> j, ret |-> mx[x].cell[i + 1][j + 1]])
                  /\ UNCHANGED conts
MxGetOor(x, i, j) == /\ On("mx") /\ MLive(x) /\ ~(i < mx[x].row /\ j < mx[x].col)
                     /\ op' = Oor("getMatrixValue", {R("mx", x)}, [x |-> x, i |-> i, j |-> j])
                     /\ UNCHANGED conts
\* getMatrixRow / getMatrixColumn return a NEW dvector (slot y of the dvector pool), NULL when out of range
MxGetRow(x, i, y) == /\ On("mx") /\ MLive(x) /\ i < mx[x].row /\ ~VLive("dv", y)
                     /\ vec' = [vec EXCEPT !["dv"][y] = Vec(MRow(mx[x], i + 1))]
                     /\ op' = O("getMatrixRow", "in", {R("mx", x)}, {R("dv", y)}, {R("dv", y)}, [x |-> x, i |-> i, y |-> y])
                     /\ UNCHANGED <<sv, mx, tn, dl>>
MxGetRowOor(x, i) == /\ On("mx") /\ MLive(x) /\ i >= mx[x].row
                     /\ op' = Oor("getMatrixRow", {R("mx", x)}, [x |-> x, i |-> i])
                     /\ UNCHANGED conts
MxGetCol(x, j, y) == /\ On("mx") /\ MLive(x) /\ j < mx[x].col /\ ~VLive("dv", y)
                     /\ vec' = [vec EXCEPT !["dv"][y] = Vec(MCol(mx[x], j + 1))]
                     /\ op' = O("getMatrixColumn", "in", {R("mx", x)}, {R("dv", y)}, {R("dv", y)}, [x |-> x, j |-> j, y |-> y])
                     /\ UNCHANGED <<sv, mx, tn, dl>>
MxGetColOor(x, j) == /\ On("mx") /\ MLive(x) /\ j >= mx[x].col
                     /\ op' = Oor("getMatrixColumn", {R("mx", x)}, [x |-> x, j |-> j])
                     /\ UNCHANGED conts
\* the operand v is a vector built for the call (dvector for Row/Col, uivector for UIRow/UICol), any length
MxAppendRow(x, v, ui) == /\ On("mx") /\ MLive(x) /\ mx[x].row < MaxDim
                         /\ mx' = [mx EXCEPT ![x] = MAppendRow(@, v)]
                         /\ op' = O(IF ui THEN "MatrixAppendUIRow" ELSE "MatrixAppendRow", Rel(Len(v), mx[x].col), {R("mx", x)}, {}, {R("mx", x)}, [x |-> x, vs |-> v, was |-> <<mx[x].row, mx[x].col>>])
                         /\ UNCHANGED oMx
MxAppendCol(x, v, ui) == /\ On("mx") /\ MLive(x) /\ mx[x].col < MaxDim
                         /\ mx' = [mx EXCEPT ![x] = MAppendCol(@, v)]
                         /\ op' = O(IF ui THEN "MatrixAppendUICol" ELSE "MatrixAppendCol", Rel(Len(v), mx[x].row), {R("mx", x)}, {}, {R("mx", x)}, [x |-> x, vs |-> v, was |-> <<mx[x].row, mx[x].col>>])
                         /\ UNCHANGED oMx
\* delete with a valid index only (an invalid one is outside "valid operations": it is not an accessor)
MxDelRow(x, k) == /\ On("mx") /\ MLive(x) /\ k < mx[x].row
                  /\ mx' = [mx EXCEPT ![x] = MDelRow(@, k + 1)]
                  /\ op' = O("MatrixDeleteRowAt", "in", {R("mx", x)}, {}, {R("mx", x)}, [x |-> x, k |-> k])
                  /\ UNCHANGED oMx
MxDelCol(x, k) == /\ On("mx") /\ MLive(x) /\ k < mx[x].col
                  /\ mx' = [mx EXCEPT ![x] = MDelCol(@, k + 1)]
                  /\ op' = O("MatrixDeleteColAt", "in", {R("mx", x)}, {}, {R("mx", x)}, [x |-> x, k |-> k])
                  /\ UNCHANGED oMx

\* sort the rows on key column j (valid column only: the routines do not check it)
MxSort(x, j, rev) == /\ On("mx") /\ MLive(x) /\ j < mx[x].col
                     /\ mx' = [mx EXCEPT ![x] = MSortRows(@, j + 1, rev)]
                     /\ op' = O(IF rev THEN "MatrixReverseSort" ELSE "MatrixSort", TieRel(mx[x], j + 1), {R("mx", x)}, {}, {R("mx", x)}, [x |-> x, j |-> j])
                     /\ UNCHANGED oMx
\* MatrixColumnMinMax(m, j, &min, &max): smallest and largest cell of column j; "Get Column Max Min Error" with both
\* results set to the missing-value sentinel when j is no column or the matrix has no row (an accessor: Oor)
MxColMinMax(x, j) == /\ On("mx") /\ MLive(x) /\ j < mx[x].col /\ mx[x].row > 0
                     /\ op' = O("MatrixColumnMinMax", "in", {R("mx", x)}, {}, {}, [x |-> x, j |-> j, lo |-> SeqMin(MCol(mx[x], j + 1)), hi |-> SeqMax(MCol(mx[x], j + 1))])
                     /\ UNCHANGED conts
MxColMinMaxOor(x, j) == /\ On("mx") /\ MLive(x) /\ ~(j < mx[x].col /\ mx[x].row > 0)
                        /\ op' = Oor("MatrixColumnMinMax", {R("mx", x)}, [x |-> x, j |-> j])
                        /\ UNCHANGED conts
\* ValInMatrix: 1 when some cell equals v, else 0 (matrix.c:139 - the opposite convention of *HasValue)
MxValIn(x, v) == /\ On("mx") /\ MLive(x)
                 /\ op' = O("ValInMatrix", "na", {R("mx", x)}, {}, {}, [x |-> x, v |-> v, ret |-> IF \E i \in 1..mx[x].row, j \in 1..mx[x].col : mx[x].cell[i][j] = v THEN 1 ELSE 0])
                 /\ UNCHANGED conts
MxPrint(x) == /\ On("mx") /\ MLive(x)
              /\ op' = O("PrintMatrix", "na", {R("mx", x)}, {}, {}, [x |-> x])
              /\ UNCHANGED conts

(* ---------------------------------------------------------------- tensor ---------------------- *)
oTn == <<vec, sv, mx, dl>>
TLive(x) == tn[x].live
Order(x) == Len(tn[x].m)
Filled(x) == \A k \in 1..Order(x) : tn[x].m[k].live           \* no NULL layer left by NewTensor(n)
TShapeRel(d, s) == IF Len(d.m) = 0 THEN "dst-empty"
                   ELSE IF Len(d.m) = Len(s.m) /\ \A k \in 1..Len(s.m) : SameShape(d.m[k], s.m[k]) THEN "same-shape" ELSE "diff-shape"
TnInit(x) == /\ On("tn") /\ ~TLive(x)
             /\ tn' = [tn EXCEPT ![x] = [live |-> TRUE, m |-> <<>>]]
             /\ op' = O("initTensor", "na", {}, {R("tn", x)}, {R("tn", x)}, [x |-> x])
             /\ UNCHANGED oTn
\* NewTensor(n): n NULL layers, each to be created by NewTensorMatrix before anything else touches the tensor
TnNew(x, n) == /\ On("tn") /\ ~TLive(x)
               /\ tn' = [tn EXCEPT ![x] = [live |-> TRUE, m |-> Fill(n, DeadM)]]
               /\ op' = O("NewTensor", "na", {}, {R("tn", x)}, {R("tn", x)}, [x |-> x, n |-> n])
               /\ UNCHANGED oTn
TnNewMatrix(x, k, r, c) == /\ On("tn") /\ TLive(x) /\ k < Order(x) /\ ~tn[x].m[k + 1].live
                           /\ tn' = [tn EXCEPT ![x].m[k + 1] = ConstM(r, c, 0)]
                           /\ op' = O("NewTensorMatrix", "na", {R("tn", x)}, {}, {R("tn", x)}, [x |-> x, k |-> k, r |-> r, c |-> c])
                           /\ UNCHANGED oTn
TnAdd(x, r, c) == /\ On("tn") /\ TLive(x) /\ Filled(x) /\ Order(x) < MaxDim
                  /\ tn' = [tn EXCEPT ![x].m = Append(@, ConstM(r, c, 0))]
                  /\ op' = O("AddTensorMatrix", "na", {R("tn", x)}, {}, {R("tn", x)}, [x |-> x, r |-> r, c |-> c])
                  /\ UNCHANGED oTn
TnDel(x) == /\ On("tn") /\ TLive(x) /\ Filled(x)
            /\ tn' = [tn EXCEPT ![x] = DeadT]
            /\ op' = O("DelTensor", "na", {R("tn", x)}, {}, {R("tn", x)}, [x |-> x])
            /\ UNCHANGED oTn
TIn(x, k, i, j) == k < Order(x) /\ i < tn[x].m[k + 1].row /\ j < tn[x].m[k + 1].col
TnSet(x, k, i, j, v) == /\ On("tn") /\ TLive(x) /\ Filled(x) /\ TIn(x, k, i, j)
                        /\ tn' = [tn EXCEPT ![x].m[k + 1].cell[i + 1][j + 1] = v]
                        /\ op' = O("setTensorValue", "in", {R("tn", x)}, {}, {R("tn", x)}, [x |-> x, k |-> k, i |-> i, j |-> j, v |-> v])
                        /\ UNCHANGED oTn
TnSetOor(x, k, i, j, v) == /\ On("tn") /\ TLive(x) /\ Filled(x) /\ ~TIn(x, k, i, j)
                           /\ op' = Oor("setTensorValue", {R("tn", x)}, [x |-> x, k |-> k, i |-> i, j |-> j, v |-> v])
                           /\ UNCHANGED conts
TnGet(x, k, i, j) == /\ On("tn") /\ TLive(x) /\ Filled(x) /\ TIn(x, k, i, j)
                     /\ op' = O("getTensorValue", "in", {R("tn", x)}, {}, {}, [x |-> x, k |-> k, i |-> i, j |-> j, ret |-> tn[x].m[k + 1].cell[i + 1][j + 1]])
                     /\ UNCHANGED conts
TnGetOor(x, k, i, j) == /\ On("tn") /\ TLive(x) /\ Filled(x) /\ ~TIn(x, k, i, j)
                        /\ op' = Oor("getTensorValue", {R("tn", x)}, [x |-> x, k |-> k, i |-> i, j |-> j])
                        /\ UNCHANGED conts
\* TensorAppendMatrix(t, m): a deep copy of m becomes the last layer; documented precondition: m has as many rows
\* as the current last layer (tensor.c:162). The operand is a matrix r x c with cells f built for the call.
TnAppendMatrix(x, r, c, f) == /\ On("tn") /\ TLive(x) /\ Filled(x) /\ Order(x) < MaxDim
                              /\ (Order(x) > 0 => tn[x].m[Order(x)].row = r)
                              /\ tn' = [tn EXCEPT ![x].m = Append(@, Mat(r, c, f))]
                              /\ op' = O("TensorAppendMatrix", IF Order(x) = 0 THEN "dst-empty" ELSE Rel(c, tn[x].m[Order(x)].col), {R("tn", x)}, {}, {R("tn", x)}, [x |-> x, r |-> r, c |-> c, f |-> f])
                              /\ UNCHANGED oTn
\* the operand is one of the tensor's OWN layers (aliasing: source inside the destination): a copy of layer k becomes the last layer
TnAppendOwn(x, k) == /\ On("tn") /\ TLive(x) /\ Filled(x) /\ Order(x) < MaxDim /\ k < Order(x)
                     /\ tn[x].m[Order(x)].row = tn[x].m[k + 1].row
                     /\ tn' = [tn EXCEPT ![x].m = Append(@, @[k + 1])]
                     /\ op' = O("TensorAppendMatrix:own", Rel(tn[x].m[k + 1].col, tn[x].m[Order(x)].col), {R("tn", x)}, {}, {R("tn", x)}, [x |-> x, k |-> k])
                     /\ UNCHANGED oTn
\* TensorAppendColumn(t, k, v) is MatrixAppendCol on layer k
TnAppendCol(x, k, v) == /\ On("tn") /\ TLive(x) /\ Filled(x) /\ k < Order(x) /\ tn[x].m[k + 1].col < MaxDim
                        /\ tn' = [tn EXCEPT ![x].m[k + 1] = MAppendCol(@, v)]
                        /\ op' = O("TensorAppendColumn", Rel(Len(v), tn[x].m[k + 1].row), {R("tn", x)}, {}, {R("tn", x)}, [x |-> x, k |-> k, vs |-> v])
                        /\ UNCHANGED oTn
TnFill(x, v) == /\ On("tn") /\ TLive(x) /\ Filled(x)
                /\ tn' = [tn EXCEPT ![x].m = [k \in 1..Len(@) |-> ConstM(@[k].row, @[k].col, v)]]
                /\ op' = O("TensorSet", "na", {R("tn", x)}, {}, {R("tn", x)}, [x |-> x, v |-> v])
                /\ UNCHANGED oTn
\* TensorCopy(src, &dst): dst (allocated: empty, same shape or another shape) becomes an independent equal of src
TnCopy(s, t) == /\ On("tn") /\ TLive(s) /\ TLive(t) /\ (IF Self THEN TRUE ELSE s # t) /\ Filled(s) /\ Filled(t)
                /\ tn' = [tn EXCEPT ![t] = tn[s]]
                /\ op' = O("TensorCopy", IF s = t THEN "self" ELSE TShapeRel(tn[t], tn[s]), {R("tn", s), R("tn", t)}, {}, {R("tn", t)}, [src |-> s, dst |-> t])
                /\ UNCHANGED oTn
TnPrint(x) == /\ On("tn") /\ TLive(x) /\ Filled(x)
              /\ op' = O("PrintTensor", "na", {R("tn", x)}, {}, {}, [x |-> x])
              /\ UNCHANGED conts

(* ---------------------------------------------------------------- dvectorlist ----------------- *)
oDl == <<vec, sv, mx, tn>>
LLive(x) == dl[x].live
DlInit(x) == /\ On("dl") /\ ~LLive(x)
             /\ dl' = [dl EXCEPT ![x] = [live |-> TRUE, d |-> <<>>]]
             /\ op' = O("initDVectorList", "na", {}, {R("dl", x)}, {R("dl", x)}, [x |-> x])
             /\ UNCHANGED oDl
\* NewDVectorList(n) leaves n uninitialised pointers and there is no call that fills them: only n = 0 is usable
DlNew0(x) == /\ On("dl") /\ ~LLive(x)
             /\ dl' = [dl EXCEPT ![x] = [live |-> TRUE, d |-> <<>>]]
             /\ op' = O("NewDVectorList", "na", {}, {R("dl", x)}, {R("dl", x)}, [x |-> x, n |-> 0])
             /\ UNCHANGED oDl
\* NewDVectorList(n) followed by the only way the API offers to make the n slots valid: NewDVector(&l->d[q], len) on every slot
\* (the member is public; the python bindings do the same).  One composite call: the list then owns exactly n slots.
DlNewN(x, vs) == /\ On("dl") /\ ~LLive(x) /\ Len(vs) >= 1
                 /\ dl' = [dl EXCEPT ![x] = [live |-> TRUE, d |-> vs]]
                 /\ op' = O("NewDVectorListFilled", "na", {}, {R("dl", x)}, {R("dl", x)}, [x |-> x, vss |-> vs])
                 /\ UNCHANGED oDl
\* DVectorListAppend(l, v): a deep copy of v becomes the last element
DlAppend(x, v) == /\ On("dl") /\ LLive(x) /\ Len(dl[x].d) < MaxDim
                  /\ dl' = [dl EXCEPT ![x].d = Append(@, v)]
                  /\ op' = O("DVectorListAppend", IF Len(dl[x].d) = 0 THEN "dst-empty" ELSE Rel(Len(v), Len(dl[x].d[Len(dl[x].d)])), {R("dl", x)}, {}, {R("dl", x)}, [x |-> x, vs |-> v])
                  /\ UNCHANGED oDl
\* the operand is one of the list's OWN elements (the slot table is reallocated while the operand lives in it)
DlAppendOwn(x, k) == /\ On("dl") /\ LLive(x) /\ Len(dl[x].d) < MaxDim /\ k < Len(dl[x].d)
                     /\ dl' = [dl EXCEPT ![x].d = Append(@, @[k + 1])]
                     /\ op' = O("DVectorListAppend:own", Rel(Len(dl[x].d[k + 1]), Len(dl[x].d[Len(dl[x].d)])), {R("dl", x)}, {}, {R("dl", x)}, [x |-> x, k |-> k])
                     /\ UNCHANGED oDl
DlDel(x) == /\ On("dl") /\ LLive(x)
            /\ dl' = [dl EXCEPT ![x] = DeadL]
            /\ op' = O("DelDVectorList", "na", {R("dl", x)}, {}, {R("dl", x)}, [x |-> x])
            /\ UNCHANGED oDl

(* ---------------------------------------------------------------- full nondeterminism (MC) ---- *)
\* a family that is switched off costs nothing: its slots are not even enumerated (constant-level bounds)
PoolOn(k) == IF k \in Kinds THEN Pool ELSE {}
NextVec == \E k \in VKinds \cap Kinds, x \in Pool :
             \/ \E n \in Dims : VNew(k, x, n) \/ VResize(k, x, n)
             \/ VInit(k, x) \/ VDel(k, x) \/ VSort(k, x) \/ VPrint(k, x)
             \/ \E v \in ValsOf(k) : VAppend(k, x, v) \/ VHas(k, x, v) \/ VIndexOf(k, x, v) \/ VFill(k, x, v)
             \/ \E i \in Idxs : VRemoveAt(k, x, i) \/ VGet(k, x, i) \/ VGetOor(k, x, i)
             \/ \E i \in Idxs, v \in ValsOf(k) : VSet(k, x, i, v) \/ VSetOor(k, x, i, v)
             \/ \E y \in Pool : VCopy(k, x, y)
             \/ \E b, y \in Pool : VExtend(k, x, b, y)
             \/ \E f \in FarIdx : VGetOor(k, x, f) \/ VRemoveAt(k, x, f) \/ \E v \in ValsOf(k) : VSetOor(k, x, f, v)
NextSv == \E x \in PoolOn("sv") :
             \/ SvInit(x) \/ SvDel(x) \/ SvPrint(x)
             \/ \E toks \in SplitSeqs, decor \in 0..3 : SvSplit(x, toks, decor)
             \/ \E n \in Dims : SvNew(x, n) \/ SvResize(x, n)
             \/ \E s \in StrVals : SvAppend(x, s)
             \/ \E v \in SVals : SvAppendInt(x, v) \/ SvAppendDouble(x, v)
             \/ \E c \in IntCodes : SvAppendIntBig(x, c)
             \/ \E c \in DblCodes : SvAppendDoubleBig(x, c)
             \/ \E i \in Idxs : SvGet(x, i) \/ SvAppendOwn(x, i) \/ (\E s \in StrVals : SvSet(x, i, s)) \/ (\E k \in Idxs : SvSetOwn(x, i, k))
             \/ \E b, y \in Pool : SvExtend(x, b, y)
NextMx == \E x \in PoolOn("mx") :
             \/ MxInit(x) \/ MxDel(x) \/ MxPrint(x)
             \/ \E r, c \in Dims : MxNew(x, r, c) \/ MxResize(x, r, c)
             \/ \E v \in SVals : MxFill(x, v) \/ MxValIn(x, v)
             \/ \E y \in Pool : MxCopy(x, y)
             \/ \E i, j \in Idxs : MxGet(x, i, j) \/ MxGetOor(x, i, j) \/ \E v \in SVals : MxSet(x, i, j, v) \/ MxSetOor(x, i, j, v)
             \/ \E i \in Idxs : MxGetRowOor(x, i) \/ MxGetColOor(x, i) \/ MxDelRow(x, i) \/ MxDelCol(x, i)
                               \/ MxColMinMax(x, i) \/ MxColMinMaxOor(x, i) \/ (\E rev \in BOOLEAN : MxSort(x, i, rev))
                               \/ \E y \in Pool : MxGetRow(x, i, y) \/ MxGetCol(x, i, y)
             \/ \E ui \in BOOLEAN : \E v \in OperandVecs(ui, MaxDim) : MxAppendRow(x, v, ui) \/ MxAppendCol(x, v, ui)
             \/ \E f \in FarIdx : MxGetOor(x, f, 0) \/ MxGetOor(x, 0, f) \/ MxGetRowOor(x, f) \/ MxGetColOor(x, f) \/ MxColMinMaxOor(x, f)
                                  \/ \E v \in SVals : MxSetOor(x, f, 0, v) \/ MxSetOor(x, 0, f, v)
NextTn == \E x \in PoolOn("tn") :
             \/ TnInit(x) \/ TnDel(x) \/ TnPrint(x)
             \/ \E n \in Dims : TnNew(x, n)
             \/ \E r, c \in Dims : TnAdd(x, r, c) \/ (\E k \in Idxs : TnNewMatrix(x, k, r, c)) \/ (\E f \in CellsOf(r, c) : TnAppendMatrix(x, r, c, f))
             \/ \E k, i, j \in Idxs : TnGet(x, k, i, j) \/ TnGetOor(x, k, i, j) \/ \E v \in SVals : TnSet(x, k, i, j, v) \/ TnSetOor(x, k, i, j, v)
             \/ \E k \in Idxs, v \in VecsUpTo(MaxDim) : TnAppendCol(x, k, v)
             \/ \E k \in Idxs : TnAppendOwn(x, k)
             \/ \E v \in SVals : TnFill(x, v)
             \/ \E y \in Pool : TnCopy(x, y)
             \/ \E f \in FarIdx : TnGetOor(x, f, 0, 0) \/ TnGetOor(x, 0, f, 0) \/ TnGetOor(x, 0, 0, f)
                                  \/ \E v \in SVals : TnSetOor(x, f, 0, 0, v) \/ TnSetOor(x, 0, f, 0, v) \/ TnSetOor(x, 0, 0, f, v)
NextDl == \E x \in PoolOn("dl") :
             \/ DlInit(x) \/ DlNew0(x) \/ DlDel(x)
             \/ \E v \in VecsUpTo(MaxDim) : DlAppend(x, v)
             \/ \E k \in Idxs : DlAppendOwn(x, k)
             \/ \E n \in 1..(MaxDim - 1) : \E vs \in [1..n -> VecsUpTo(MaxDim)] : DlNewN(x, vs)
Next == NextVec \/ NextSv \/ NextMx \/ NextTn \/ NextDl
Spec == Init /\ [][Next]_vars

(* ---------------------------------------------------------------- invariants (state) ---------- *)
WellShaped(m) == /\ DOMAIN m.cell = 1..m.row
                 /\ \A i \in 1..m.row : DOMAIN m.cell[i] = 1..m.col /\ \A j \in 1..m.col : m.cell[i][j] \in SVals
StrOK(s) == s = UNSET \/ s \in StrVals \/ s \in SplitToks \/ s \in DblCodes \/ s \in IntCodes \/ \E v \in SVals : s = IntStr(v) \/ s = DblStr(v)
\* every matrix row has length col (matrices and tensor layers); sizes within bounds; a dead slot holds nothing
Shape == /\ \A x \in Pool : MLive(x) => WellShaped(mx[x]) /\ mx[x].row \in Dims /\ mx[x].col \in Dims
         /\ \A x \in Pool : TLive(x) => Order(x) \in Dims /\ \A k \in 1..Order(x) : tn[x].m[k].live => WellShaped(tn[x].m[k])
TypeOK == /\ \A k \in VKinds, x \in Pool : VLive(k, x) => Len(VD(k, x)) \in Dims /\ \A i \in 1..Len(VD(k, x)) : VD(k, x)[i] \in ValsOf(k)
          /\ \A x \in Pool : SLive(x) => Len(sv[x].d) \in Dims /\ \A i \in 1..Len(sv[x].d) : StrOK(sv[x].d[i])
          /\ \A x \in Pool : LLive(x) => Len(dl[x].d) \in Dims /\ \A i \in 1..Len(dl[x].d) : dl[x].d[i] \in VecsUpTo(MaxDim)
DeadIsEmpty == /\ \A k \in VKinds, x \in Pool : ~VLive(k, x) => vec[k][x] = DeadV
               /\ \A x \in Pool : /\ ~SLive(x) => sv[x] = DeadV
                                  /\ ~MLive(x) => mx[x] = DeadM
                                  /\ ~TLive(x) => tn[x] = DeadT
                                  /\ ~LLive(x) => dl[x] = DeadL
\* a kind that is switched off is never populated
KindsOff == /\ \A k \in VKinds \ (Kinds \cup {"dv"}), x \in Pool : ~VLive(k, x)
            /\ ("sv" \notin Kinds => \A x \in Pool : ~SLive(x))
            /\ ("tn" \notin Kinds => \A x \in Pool : ~TLive(x))
            /\ ("dl" \notin Kinds => \A x \in Pool : ~LLive(x))

(* ---------------------------------------------------------------- laws (action properties) ---- *)
Slot(r) == CASE r[1] \in VKinds -> vec[r[1]][r[2]] [] r[1] = "sv" -> sv[r[2]] [] r[1] = "mx" -> mx[r[2]]
             [] r[1] = "tn" -> tn[r[2]] [] r[1] = "dl" -> dl[r[2]]
Refs == AllKinds \X Pool
\* no action is enabled on a dead container, none creates into a live slot
GuardLaw == [][(\A r \in op'.uses : Slot(r).live) /\ (\A r \in op'.fresh : ~Slot(r).live /\ Slot(r)'.live)]_vars
\* an action changes only what it declares; in particular mutating a copy never changes its source
FrameLaw == [][\A r \in Refs : r \notin op'.touched => Slot(r)' = Slot(r)]_vars
\* out-of-range accessors leave everything as it was
OorLaw == [][op'.oor => conts' = conts]_vars
\* copies: destination equals the source as it was, source untouched
CopyLaw == [][/\ op'.name = "DVectorCopy" => vec'["dv"][op'.a.dst] = vec["dv"][op'.a.src] /\ vec'["dv"][op'.a.src] = vec["dv"][op'.a.src]
              /\ op'.name = "MatrixCopy" => mx'[op'.a.dst] = mx[op'.a.src] /\ mx'[op'.a.src] = mx[op'.a.src]
              /\ op'.name = "TensorCopy" => tn'[op'.a.dst] = tn[op'.a.src] /\ tn'[op'.a.src] = tn[op'.a.src]]_vars
\* growth: old cells preserved, newly exposed cells zero, the operand lands in the new row / column
RowGrowth(o, n, v) == /\ n.row = o.row + 1 /\ n.col = Max(o.col, Len(v))
                      /\ \A i \in 1..o.row : \A j \in 1..n.col : n.cell[i][j] = IF j <= o.col THEN o.cell[i][j] ELSE 0
                      /\ \A j \in 1..n.col : n.cell[n.row][j] = IF j <= Len(v) THEN v[j] ELSE 0
ColGrowth(o, n, v) == /\ n.col = o.col + 1 /\ n.row = Max(o.row, Len(v))
                      /\ \A i \in 1..n.row : \A j \in 1..o.col : n.cell[i][j] = IF i <= o.row THEN o.cell[i][j] ELSE 0
                      /\ \A i \in 1..n.row : n.cell[i][n.col] = IF i <= Len(v) THEN v[i] ELSE 0
GrowthLaw == [][/\ op'.name \in {"MatrixAppendRow", "MatrixAppendUIRow"} => RowGrowth(mx[op'.a.x], mx'[op'.a.x], op'.a.vs)
                /\ op'.name \in {"MatrixAppendCol", "MatrixAppendUICol"} => ColGrowth(mx[op'.a.x], mx'[op'.a.x], op'.a.vs)
                /\ op'.name = "TensorAppendColumn" => ColGrowth(tn[op'.a.x].m[op'.a.k + 1], tn'[op'.a.x].m[op'.a.k + 1], op'.a.vs)
                /\ op'.name \in {"ResizeMatrix", "NewMatrix"} => mx'[op'.a.x] = ConstM(op'.a.r, op'.a.c, 0)
                /\ op'.name \in {"DVectorAppend", "UIVectorAppend", "IVectorAppend"} =>
                      \E k \in VKinds : /\ Fn[k].cAppend = op'.name
                                        /\ vec'[k][op'.a.x].d = vec[k][op'.a.x].d \o <<op'.a.v>>]_vars
\* shrink: exactly the addressed element / row / column disappears, order of the rest kept
ShrinkLaw == [][/\ op'.name = "MatrixDeleteRowAt" =>
                     LET o == mx[op'.a.x]  n == mx'[op'.a.x]  k == op'.a.k + 1
                     IN n.row = o.row - 1 /\ n.col = o.col /\ \A i \in 1..n.row : n.cell[i] = o.cell[IF i < k THEN i ELSE i + 1]
                /\ op'.name = "MatrixDeleteColAt" =>
                     LET o == mx[op'.a.x]  n == mx'[op'.a.x]  k == op'.a.k + 1
                     IN n.col = o.col - 1 /\ n.row = o.row /\ \A i \in 1..n.row, j \in 1..n.col : n.cell[i][j] = o.cell[i][IF j < k THEN j ELSE j + 1]
                /\ op'.name \in {"DVectorRemoveAt", "UIVectorRemoveAt", "IVectorRemoveAt"} /\ op'.rel = "in" =>
                     \E k \in VKinds : /\ Fn[k].cRemoveAt = op'.name
                                       /\ LET o == vec[k][op'.a.x].d  n == vec'[k][op'.a.x].d  p == op'.a.i + 1
                                          IN Len(n) = Len(o) - 1 /\ \A i \in 1..Len(n) : n[i] = o[IF i < p THEN i ELSE i + 1]]_vars

\* sort: the rows (elements) are a permutation of the old ones and the key column (the vector) is ordered
SortLaw == [][/\ op'.name \in {"MatrixSort", "MatrixReverseSort"} =>
                   LET o == mx[op'.a.x]  n == mx'[op'.a.x]
                   IN n.row = o.row /\ n.col = o.col /\ SortContract(o.cell, n.cell, op'.a.j + 1, op'.name = "MatrixReverseSort")
              /\ op'.name \in {"DVectorSort", "SortUIVector"} =>
                   \E k \in {"dv", "uv"} : /\ Fn[k].cSort = op'.name
                                           /\ LET o == vec[k][op'.a.x].d  n == vec'[k][op'.a.x].d
                                              IN IsSeqPerm(o, n) /\ \A i \in 1..(Len(n) - 1) : n[i] <= n[i + 1]]_vars
\* a call that declares no touched slot (getters, queries, Print*, out-of-range accessors) and a self-copy change nothing
ReadOnlyLaw == [][(op'.touched = {} \/ op'.rel = "self") => conts' = conts]_vars
\* extend: a NEW container holding a's cells then b's; operands untouched (also when a = b)
ExtendLaw == [][/\ op'.name \in {"DVectorExtend", "UIVectorExtend", "IVectorExtend"} =>
                     \E k \in VKinds : /\ Fn[k].cExtend = op'.name
                                       /\ vec'[k][op'.a.y].d = vec[k][op'.a.a].d \o vec[k][op'.a.b].d
                                       /\ vec'[k][op'.a.a] = vec[k][op'.a.a] /\ vec'[k][op'.a.b] = vec[k][op'.a.b]
                /\ op'.name = "StrVectorExtend" => sv'[op'.a.y].d = sv[op'.a.a].d \o sv[op'.a.b].d /\ sv'[op'.a.a] = sv[op'.a.a] /\ sv'[op'.a.b] = sv[op'.a.b]
                /\ op'.name = "StrVectorAppend:own" => sv'[op'.a.x].d = Append(sv[op'.a.x].d, sv[op'.a.x].d[op'.a.k + 1])
                /\ op'.name \in {"StrVectorAppendInt:big", "StrVectorAppendDouble:big"} => sv'[op'.a.x].d = Append(sv[op'.a.x].d, op'.a.c)
                /\ op'.name = "SplitString" => sv'[op'.a.x].d = sv[op'.a.x].d \o op'.a.toks
                /\ op'.name = "DVectorListAppend" => dl'[op'.a.x].d = Append(dl[op'.a.x].d, op'.a.vs)
                /\ op'.name = "DVectorListAppend:own" => dl'[op'.a.x].d = Append(dl[op'.a.x].d, dl[op'.a.x].d[op'.a.k + 1])
                /\ op'.name = "TensorAppendMatrix:own" => tn'[op'.a.x].m = Append(tn[op'.a.x].m, tn[op'.a.x].m[op'.a.k + 1])
                /\ op'.name = "TensorAppendMatrix" => /\ Len(tn'[op'.a.x].m) = Len(tn[op'.a.x].m) + 1
                                                       /\ \A q \in 1..Len(tn[op'.a.x].m) : tn'[op'.a.x].m[q] = tn[op'.a.x].m[q]
                                                       /\ tn'[op'.a.x].m[Len(tn'[op'.a.x].m)] = Mat(op'.a.r, op'.a.c, op'.a.f)]_vars
\* resize / create: exactly the requested size, every cell zero (empty string), whatever the container held before
ResizeLaw == [][/\ op'.name \in {"DVectorResize", "UIVectorResize", "NewDVector", "NewUIVector", "NewIVector"} =>
                     \E k \in VKinds : /\ op'.name \in {Fn[k].cNew} \cup (IF "cResize" \in DOMAIN Fn[k] THEN {Fn[k].cResize} ELSE {})
                                       /\ vec'[k][op'.a.x] = Vec(Fill(op'.a.n, 0))
                /\ op'.name = "StrVectorResize" => sv'[op'.a.x] = Vec(Fill(op'.a.n, ""))
                /\ op'.name = "AddTensorMatrix" => tn'[op'.a.x].m = Append(tn[op'.a.x].m, ConstM(op'.a.r, op'.a.c, 0))]_vars

(* ---------------------------------------------------------------- theorems (checked on every reachable state) *)
\* the algebra the actions are built from: append then delete is the identity when the operand fits, the sort representative
\* satisfies the sort contract and sorting is idempotent, delete and sort never change the other dimension
MatTheorems(m) ==
  /\ \A v \in VecsUpTo(m.col) : MDelRow(MAppendRow(m, v), m.row + 1) = m
  /\ \A v \in VecsUpTo(m.row) : MDelCol(MAppendCol(m, v), m.col + 1) = m
  /\ \A v \in VecsUpTo(MaxDim) : RowGrowth(m, MAppendRow(m, v), v) /\ ColGrowth(m, MAppendCol(m, v), v)
  /\ \A j \in 1..m.col, rev \in BOOLEAN :
        LET t == MSortRows(m, j, rev)
        IN SortContract(m.cell, t.cell, j, rev) /\ MSortRows(t, j, rev) = t /\ WellShaped(t)
           /\ (TieRel(m, j) # "tie-distinct" => \A u \in CellsOf(m.row, m.col) : SortContract(m.cell, u, j, rev) => u = t.cell)
Theorems == /\ \A x \in Pool : MLive(x) => MatTheorems(mx[x])
            /\ \A k \in VKinds, x \in Pool : VLive(k, x) =>
                  /\ Sorted(Sorted(VD(k, x))) = Sorted(VD(k, x)) /\ IsSeqPerm(VD(k, x), Sorted(VD(k, x)))
                  /\ \A v \in ValsOf(k) : DropAt(Append(VD(k, x), v), Len(VD(k, x)) + 1) = VD(k, x)
                  /\ \A v \in ValsOf(k) : Has(VD(k, x), v) <=> FirstIdx(VD(k, x), v) >= 0

(* ---------------------------------------------------------------- MC plumbing ----------------- *)
DepthBound == op.n <= Depth                 \* every action is guarded by op.n < Depth (On): exhaustive to Depth calls
View == <<conts, op.n>>                     \* distinct states = distinct (pool contents, history length): exact for any worker count

(* ---------------------------------------------------------------- history generator (GEN) ----- *)
\* TLC's simulator is uniform over successor INSTANCES: one successor per operation kind, operands drawn with
\* RandomElement (bound through a singleton set so the drawn value is fixed before the action is evaluated).
Pick(S) == RandomElement(S)
One(S) == {Pick(S)}
\* K2 (block-size boundaries): with MaxDim > 16 sizes are drawn at 4/8/16/32/64 and one off, operands one off the current dimension
Blocks == {4, 8, 16, 32, 64}
NearBlock == UNION {{b - 1, b, b + 1} : b \in Blocks}
SizeSet == IF Big THEN {n \in NearBlock \cup {1, 2} : n <= MaxDim} ELSE 1..MaxDim
BigSizes == {n \in {31, 32, 33, 63, 64, 65} : n <= MaxDim}
ShorterSet(cur) == IF Big THEN {n \in {1, cur \div 2, cur - 1} \cup NearBlock : n >= 1 /\ n < cur} ELSE 1..(cur - 1)
LongerSet(cur) == IF Big THEN {n \in {cur + 1, cur + 2} \cup NearBlock : n > cur /\ n <= MaxDim} ELSE (cur + 1)..MaxDim
LenRels(cur) == {"zero", "equal"} \cup (IF cur >= 2 THEN {"shorter"} ELSE {}) \cup (IF cur < MaxDim THEN {"longer"} ELSE {})
LenFor(rel, cur) == CASE rel = "zero" -> 0 [] rel = "equal" -> cur [] rel = "shorter" -> Pick(ShorterSet(cur)) [] OTHER -> Pick(LongerSet(cur))
\* shorter / equal / longer / zero with equal weight; in block-size mode every second draw lands on 31..33 / 63..65 whatever the relation
AroundLen(cur) == IF Big /\ BigSizes # {} /\ Pick(1..2) = 1 THEN Pick(BigSizes) ELSE LenFor(Pick(LenRels(cur)), cur)
\* operands: uniform over all vectors while that set is small; beyond, a fixed function of a drawn seed (RandomElement
\* degenerates on sets with more than 2^31 elements, and a seed keeps the lazily evaluated function deterministic)
Seeds == 0..9972
LoOf(ui) == IF ui \/ ~Neg THEN 0 ELSE 0 - MaxVal
CardOf(ui) == IF ui \/ ~Neg THEN MaxVal + 1 ELSE 2 * MaxVal + 1
MkVec(n, s, ui) == [i \in 1..n |-> LoOf(ui) + ((s \div (1 + (i % 3)) + i * (s % 11) + (i * i) \div 7) % CardOf(ui))]
RandVec(n, s, ui) == IF n <= 6 THEN Pick(IF ui THEN UVecsOfLen(n) ELSE VecsOfLen(n)) ELSE MkVec(n, s, ui)
MkCells(r, c, s) == [i \in 1..r |-> [j \in 1..c |-> LoOf(FALSE) + ((s \div (1 + (j % 3)) + 3 * i + j * (s % 7) + (i * j) \div 2) % CardOf(FALSE))]]
RandCells(r, c, s) == IF r * c <= 9 THEN Pick(CellsOf(r, c)) ELSE MkCells(r, c, s)
RandIdx(n) == Pick(0..Max(n - 1, 0))                         \* an in-range index when n > 0
EdgeIdx(n) == Pick({0, Max(n - 1, 0), RandIdx(n)})           \* first / last / anywhere
SizeDraw == IF Pick(1..4) = 1 THEN 0 ELSE IF Big /\ BigSizes # {} /\ Pick(1..2) = 1 THEN Pick(BigSizes) ELSE Pick(SizeSet)      \* creation sizes: mostly non-empty
OutIdx(n) == Pick(n..(n + 1))                                \* just past the end, and one further
LiveV(k) == {x \in Pool : VLive(k, x)}
DeadVs(k) == {x \in Pool : ~VLive(k, x)}

GenVec(k) ==
  LET L == LiveV(k)  D == DeadVs(k)  NE == {x \in L : Len(VD(k, x)) > 0}  E == L \ NE  V == ValsOf(k) IN
  \/ D # {} /\ \E x \in One(D), n \in {SizeDraw}, w \in One(1..4) : IF w = 1 THEN VInit(k, x) ELSE VNew(k, x, n)
  \/ L # {} /\ \E x \in One(L) : VDel(k, x)
  \/ L # {} /\ \E x \in One(L) : \E n \in {AroundLen(Len(VD(k, x)))} : VResize(k, x, n)
  \/ L # {} /\ \E x \in One(L), v \in One(V) : VAppend(k, x, v)
  \/ E # {} /\ \E x \in One(E), v \in One(V) : VAppend(k, x, v)                    \* onto an emptied / never filled vector
  \/ NE # {} /\ \E x \in One(NE) : \E i \in {EdgeIdx(Len(VD(k, x)))} : VRemoveAt(k, x, i)
  \/ L # {} /\ \E x \in One(L) : \E i \in {OutIdx(Len(VD(k, x)))} : VRemoveAt(k, x, i)
  \/ Cardinality(L) >= 2 /\ \E x \in One(L) : \E y \in One(L \ {x}) : VCopy(k, x, y)
  \/ Self /\ L # {} /\ \E x \in One(L) : VCopy(k, x, x)
  \/ L # {} /\ D # {} /\ \E a \in One(L), b \in One(L), y \in One(D) : VExtend(k, a, b, y)
  \/ L # {} /\ D # {} /\ \E a \in One(L), y \in One(D) : VExtend(k, a, a, y)      \* both operands the same vector
  \/ NE # {} /\ \E x \in One(NE), v \in One(V) : \E i \in {EdgeIdx(Len(VD(k, x)))} : VSet(k, x, i, v)
  \/ L # {} /\ \E x \in One(L), v \in One(V) : \E i \in {OutIdx(Len(VD(k, x)))} : VSetOor(k, x, i, v)
  \/ NE # {} /\ \E x \in One(NE) : \E i \in {EdgeIdx(Len(VD(k, x)))} : VGet(k, x, i)
  \/ L # {} /\ \E x \in One(L) : \E i \in {OutIdx(Len(VD(k, x)))} : VGetOor(k, x, i)
  \/ L # {} /\ \E x \in One(L), v \in One(V), f \in One(FarIdx), w \in One(1..3) :
        IF w = 1 THEN VSetOor(k, x, f, v) ELSE IF w = 2 THEN VGetOor(k, x, f) ELSE VRemoveAt(k, x, f)
  \/ L # {} /\ \E x \in One(L), v \in One(V) : VHas(k, x, v)
  \/ L # {} /\ \E x \in One(L), v \in One(V) : VIndexOf(k, x, v)
  \/ L # {} /\ \E x \in One(L), v \in One(V) : VFill(k, x, v)
  \/ L # {} /\ \E x \in One(L) : VPrint(k, x)
  \/ NE # {} /\ \E x \in One(NE) : VSort(k, x)            \* empty vectors made by init* have data = NULL: qsort(NULL, 0) trips UBSan's nonnull check without touching memory

GenSv ==
  LET L == {x \in Pool : SLive(x)}  D == {x \in Pool : ~SLive(x)}  NE == {x \in L : Len(sv[x].d) > 0}
      G == {x \in NE : \E i \in 1..Len(sv[x].d) : sv[x].d[i] # UNSET}  A == {x \in L : AllSet(x)}
      AE == {x \in A : Len(sv[x].d) = 0}  Room == {x \in A : Len(sv[x].d) + 2 <= MaxDim} IN
  \/ D # {} /\ \E x \in One(D), n \in {SizeDraw}, w \in One(1..3) : IF w = 1 THEN SvNew(x, n) ELSE SvInit(x)
  \/ L # {} /\ \E x \in One(L) : SvDel(x)
  \/ L # {} /\ \E x \in One(L) : \E n \in {AroundLen(Len(sv[x].d))} : SvResize(x, n)
  \/ A # {} /\ \E x \in One(A), s \in One(StrVals) : SvAppend(x, s)
  \/ AE # {} /\ \E x \in One(AE), s \in One(StrVals) : SvAppend(x, s)              \* onto an emptied / never filled strvector
  \/ L # {} /\ \E x \in One(L), v \in One(SVals) : SvAppendInt(x, v)
  \/ L # {} /\ \E x \in One(L), v \in One(SVals) : SvAppendDouble(x, v)
  \/ L # {} /\ IntCodes # {} /\ \E x \in One(L), c \in One(IntCodes) : SvAppendIntBig(x, c)
  \/ L # {} /\ DblCodes # {} /\ \E x \in One(L), c \in One(DblCodes) : SvAppendDoubleBig(x, c)
  \/ NE # {} /\ \E x \in One(NE), s \in One(StrVals) : \E i \in {EdgeIdx(Len(sv[x].d))} : SvSet(x, i, s)
  \/ G # {} /\ \E x \in One(G) : \E i \in One({j \in 0..(Len(sv[x].d) - 1) : sv[x].d[j + 1] # UNSET}) : SvGet(x, i)
  \/ A # {} /\ D # {} /\ \E a \in One(IF A \cap NE # {} THEN A \cap NE ELSE A), b \in One(A), y \in One(D) : SvExtend(a, b, y)
  \/ A # {} /\ D # {} /\ \E a \in One(A), y \in One(D) : SvExtend(a, a, y)
  \/ A # {} /\ \E x \in One(A) : SvPrint(x)
  \/ A \cap NE # {} /\ \E x \in One(A \cap NE) : \E k \in {EdgeIdx(Len(sv[x].d))} : SvAppendOwn(x, k)
  \/ G # {} /\ \E x \in One(G) : \E k \in One({j \in 0..(Len(sv[x].d) - 1) : sv[x].d[j + 1] # UNSET}) : \E i \in {IF Pick(1..3) = 1 THEN k ELSE EdgeIdx(Len(sv[x].d))} : SvSetOwn(x, i, k)
  \/ Room # {} /\ \E x \in One(Room), toks \in One(SplitSeqs), decor \in One(0..3) : SvSplit(x, toks, decor)

GenMx ==
  LET L == {x \in Pool : MLive(x)}  D == {x \in Pool : ~MLive(x)}
      NE == {x \in L : mx[x].row > 0 /\ mx[x].col > 0}  DD == DeadVs("dv")  EM == L \ NE
      R1 == {z \in L : mx[z].row > 0}  C1 == {z \in L : mx[z].col > 0} IN
  \/ D # {} /\ \E x \in One(D), r \in {SizeDraw}, c \in {SizeDraw}, w \in One(1..4) : IF w = 1 THEN MxInit(x) ELSE MxNew(x, r, c)
  \/ L # {} /\ \E x \in One(L) : MxDel(x)
  \/ L # {} /\ \E x \in One(L) : \E r \in {AroundLen(mx[x].row)}, c \in {AroundLen(mx[x].col)} : MxResize(x, r, c)
  \/ L # {} /\ \E x \in One(L), v \in One(SVals) : MxFill(x, v)
  \/ Cardinality(L) >= 2 /\ \E x \in One(L) : \E y \in One(L \ {x}) : MxCopy(x, y)
  \/ Self /\ L # {} /\ \E x \in One(L) : MxCopy(x, x)
  \/ NE # {} /\ \E x \in One(NE), v \in One(SVals) : \E i \in {EdgeIdx(mx[x].row)}, j \in {EdgeIdx(mx[x].col)} : MxSet(x, i, j, v)
  \/ NE # {} /\ \E x \in One(NE) : \E i \in {EdgeIdx(mx[x].row)}, j \in {EdgeIdx(mx[x].col)} : MxGet(x, i, j)
  \/ L # {} /\ \E x \in One(L), v \in One(SVals), w \in One({1, 2, 3}) :
        \E i \in {IF w = 2 THEN RandIdx(mx[x].row) ELSE OutIdx(mx[x].row)}, j \in {IF w = 1 THEN RandIdx(mx[x].col) ELSE OutIdx(mx[x].col)} :
           MxSetOor(x, i, j, v)
  \/ L # {} /\ \E x \in One(L), w \in One({1, 2, 3}) :
        \E i \in {IF w = 2 THEN RandIdx(mx[x].row) ELSE OutIdx(mx[x].row)}, j \in {IF w = 1 THEN RandIdx(mx[x].col) ELSE OutIdx(mx[x].col)} :
           MxGetOor(x, i, j)
  \/ DD # {} /\ R1 # {} /\ \E x \in One(R1), y \in One(DD) : \E i \in {EdgeIdx(mx[x].row)} : MxGetRow(x, i, y)
  \/ DD # {} /\ C1 # {} /\ \E x \in One(C1), y \in One(DD) : \E j \in {EdgeIdx(mx[x].col)} : MxGetCol(x, j, y)
  \/ L # {} /\ \E x \in One(L), v \in One(SVals), f \in One(FarIdx), w \in One(1..7) :
        IF w = 1 THEN MxSetOor(x, f, 0, v) ELSE IF w = 2 THEN MxSetOor(x, 0, f, v) ELSE IF w = 3 THEN MxGetOor(x, f, 0)
        ELSE IF w = 4 THEN MxGetOor(x, 0, f) ELSE IF w = 5 THEN MxGetRowOor(x, f) ELSE IF w = 6 THEN MxGetColOor(x, f) ELSE MxColMinMaxOor(x, f)
  \/ L # {} /\ \E x \in One(L) : \E i \in {OutIdx(mx[x].row)} : MxGetRowOor(x, i)
  \/ L # {} /\ \E x \in One(L) : \E j \in {OutIdx(mx[x].col)} : MxGetColOor(x, j)
  \/ L # {} /\ \E x \in One(L), ui \in One(BOOLEAN), s \in One(Seeds) : \E n \in {AroundLen(mx[x].col)} : \E v \in {RandVec(n, s, ui)} : MxAppendRow(x, v, ui)
  \/ L # {} /\ \E x \in One(L), ui \in One(BOOLEAN), s \in One(Seeds) : \E n \in {AroundLen(mx[x].row)} : \E v \in {RandVec(n, s, ui)} : MxAppendCol(x, v, ui)
  \/ EM # {} /\ \E x \in One(EM), ui \in One(BOOLEAN), s \in One(Seeds), w \in One(BOOLEAN) :          \* onto a matrix with an empty dimension
        \E n \in {IF w THEN AroundLen(mx[x].col) ELSE AroundLen(mx[x].row)} : \E v \in {RandVec(n, s, ui)} : IF w THEN MxAppendRow(x, v, ui) ELSE MxAppendCol(x, v, ui)
  \/ R1 \ C1 # {} /\ \E x \in One(R1 \ C1), ui \in One(BOOLEAN), s \in One(Seeds) :                       \* rows but no column yet: the old rows must be widened and zero-filled
        \E n \in {IF Big /\ Pick(1..2) = 1 THEN Pick(BigSizes) ELSE Pick(1..Min(MaxDim, 3))} : \E v \in {RandVec(n, s, ui)} : MxAppendRow(x, v, ui)
  \/ C1 \ R1 # {} /\ \E x \in One(C1 \ R1), ui \in One(BOOLEAN), s \in One(Seeds) :                       \* columns but no row yet: the new rows must be zero-filled left of the new column
        \E n \in {IF Big /\ Pick(1..2) = 1 THEN Pick(BigSizes) ELSE Pick(1..Min(MaxDim, 3))} : \E v \in {RandVec(n, s, ui)} : MxAppendCol(x, v, ui)
  \/ R1 # {} /\ \E x \in One(R1) : \E k \in {EdgeIdx(mx[x].row)} : MxDelRow(x, k)
  \/ C1 # {} /\ \E x \in One(C1) : \E k \in {EdgeIdx(mx[x].col)} : MxDelCol(x, k)
  \/ C1 # {} /\ \E x \in One(C1), rev \in One(BOOLEAN) : \E j \in {EdgeIdx(mx[x].col)} : MxSort(x, j, rev)
  \/ NE # {} /\ \E x \in One(NE), rev \in One(BOOLEAN) : \E j \in {EdgeIdx(mx[x].col)} : MxSort(x, j, rev)
  \/ NE # {} /\ \E x \in One(NE) : \E j \in {EdgeIdx(mx[x].col)} : MxColMinMax(x, j)
  \/ L # {} /\ \E x \in One(L) : \E j \in {IF mx[x].row = 0 THEN RandIdx(mx[x].col) ELSE OutIdx(mx[x].col)} : MxColMinMaxOor(x, j)
  \/ L # {} /\ \E x \in One(L), v \in One(SVals) : MxValIn(x, v)
  \/ L # {} /\ \E x \in One(L) : MxPrint(x)

GenTn ==
  LET L == {x \in Pool : TLive(x)}  D == {x \in Pool : ~TLive(x)}  F == {x \in L : Filled(x)}  U == L \ F
      NE == {x \in F : \E k \in 1..Order(x) : tn[x].m[k].row > 0 /\ tn[x].m[k].col > 0}
      O1 == {x \in F : Order(x) > 0} IN
  \/ D # {} /\ \E x \in One(D), n \in One(0..2), w \in One(1..3) : IF w = 1 THEN TnNew(x, n) ELSE TnInit(x)
  \/ U # {} /\ \E x \in One(U), r \in {SizeDraw}, c \in {SizeDraw} : \E k \in One({q \in 0..(Order(x) - 1) : ~tn[x].m[q + 1].live}) : TnNewMatrix(x, k, r, c)
  \/ F # {} /\ \E x \in One(F), r \in {SizeDraw}, c \in {SizeDraw} : TnAdd(x, r, c)
  \/ F # {} /\ \E x \in One(F) : TnDel(x)
  \/ NE # {} /\ \E x \in One(NE), v \in One(SVals) : \E k \in One({q \in 0..(Order(x) - 1) : tn[x].m[q + 1].row > 0 /\ tn[x].m[q + 1].col > 0}) :
        \E i \in {EdgeIdx(tn[x].m[k + 1].row)}, j \in {EdgeIdx(tn[x].m[k + 1].col)}, set \in One(BOOLEAN) : IF set THEN TnSet(x, k, i, j, v) ELSE TnGet(x, k, i, j)
  \/ F # {} /\ \E x \in One(F), v \in One(SVals), w \in One({1, 2, 3}), set \in One(BOOLEAN) :
        \E k \in {IF w = 1 \/ Order(x) = 0 THEN OutIdx(Order(x)) ELSE RandIdx(Order(x))} :
          \E i \in {IF w = 2 /\ k < Order(x) THEN OutIdx(tn[x].m[k + 1].row) ELSE 0}, j \in {IF w = 3 /\ k < Order(x) THEN OutIdx(tn[x].m[k + 1].col) ELSE 0} :
             IF set THEN TnSetOor(x, k, i, j, v) ELSE TnGetOor(x, k, i, j)
  \/ F # {} /\ \E x \in One(F), v \in One(SVals), f \in One(FarIdx), w \in One(1..6) :
        IF w = 1 THEN TnSetOor(x, f, 0, 0, v) ELSE IF w = 2 THEN TnSetOor(x, 0, f, 0, v) ELSE IF w = 3 THEN TnSetOor(x, 0, 0, f, v)
        ELSE IF w = 4 THEN TnGetOor(x, f, 0, 0) ELSE IF w = 5 THEN TnGetOor(x, 0, f, 0) ELSE TnGetOor(x, 0, 0, f)
  \/ F # {} /\ \E x \in One(F), c \in {SizeDraw}, s \in One(Seeds) : \E r \in {IF Order(x) > 0 THEN tn[x].m[Order(x)].row ELSE SizeDraw} : \E f \in {RandCells(r, c, s)} : TnAppendMatrix(x, r, c, f)
  \/ O1 # {} /\ \E x \in One(O1), s \in One(Seeds) : \E k \in {EdgeIdx(Order(x))} : \E n \in {AroundLen(tn[x].m[k + 1].row)} : \E v \in {RandVec(n, s, FALSE)} : TnAppendCol(x, k, v)
  \/ O1 # {} /\ \E x \in One(O1) : LET K == {q \in 0..(Order(x) - 1) : tn[x].m[q + 1].row = tn[x].m[Order(x)].row} IN \E k \in One(K) : TnAppendOwn(x, k)
  \/ F # {} /\ \E x \in One(F), v \in One(SVals) : TnFill(x, v)
  \/ Cardinality(F) >= 2 /\ \E x \in One(F) : \E y \in One(F \ {x}) : TnCopy(x, y)
  \/ Self /\ F # {} /\ \E x \in One(F) : TnCopy(x, x)
  \/ F # {} /\ \E x \in One(F) : TnPrint(x)

GenDl ==
  LET L == {x \in Pool : LLive(x)}  D == {x \in Pool : ~LLive(x)}  LenDraw == IF Big THEN SizeDraw ELSE Pick(0..MaxDim) IN
  \/ D # {} /\ \E x \in One(D), w \in One(BOOLEAN) : IF w THEN DlInit(x) ELSE DlNew0(x)
  \/ D # {} /\ MaxDim >= 2 /\ \E x \in One(D), n \in One(1..Min(MaxDim - 1, 5)), s \in One(Seeds) : \E vs \in {[q \in 1..n |-> RandVec(LenDraw, s + q, FALSE)]} : DlNewN(x, vs)
  \/ L # {} /\ \E x \in One(L) : DlDel(x)
  \/ L # {} /\ \E x \in One(L), s \in One(Seeds) : \E n \in {AroundLen(IF Len(dl[x].d) = 0 THEN 0 ELSE Len(dl[x].d[Len(dl[x].d)]))} : \E v \in {RandVec(n, s, FALSE)} : DlAppend(x, v)

GenDlOwn == LET N == {x \in Pool : LLive(x) /\ Len(dl[x].d) > 0} IN N # {} /\ \E x \in One(N) : \E k \in {EdgeIdx(Len(dl[x].d))} : DlAppendOwn(x, k)

GenNext == (\E k \in VKinds : GenVec(k)) \/ GenSv \/ GenMx \/ GenTn \/ GenDl \/ GenDlOwn
GenSpec == Init /\ [][GenNext]_vars
\* every generated call is a step of the model-checked relation (checked on simulated behaviours, REF_Containers.cfg)
GenRefinesNext == [][Next]_vars

(* ---------------------------------------------------------------- input classes (INPUT-CLASSES.md) *)
\* class tags of a call, computed from the call and the state it leaves: K1 shape relations, K2 block-size boundaries,
\* K7 aliasing, K8 ties / degenerate content; counted per executed call into coverage.classes
Tag(b, t) == IF b THEN {t} ELSE {}
LenTags(n) == Tag(n \in NearBlock /\ n >= 3, "K2:size" \o ToString(n)) \cup Tag(n = 0, "K1:empty")
MatTags(m) == IF ~m.live THEN {} ELSE
                Tag(m.row > m.col /\ m.col > 0, "K1:tall") \cup Tag(m.row < m.col /\ m.row > 0, "K1:wide") \cup Tag(m.row = m.col /\ m.row > 1, "K1:square")
                \cup Tag(m.row = 1 /\ m.col >= 1, "K1:single-row") \cup Tag(m.col = 1 /\ m.row >= 1, "K1:single-col")
                \cup Tag(m.row = 0 /\ m.col > 0, "K1:rows0") \cup Tag(m.row > 0 /\ m.col = 0, "K1:cols0") \cup Tag(m.row = 0 /\ m.col = 0, "K1:empty")
                \cup Tag((m.row = m.col + 1 \/ m.col = m.row + 1) /\ m.row > 0 /\ m.col > 0, "K1:n=p+-1")
                \cup Tag(m.row \in NearBlock /\ m.row >= 3, "K2:rows" \o ToString(m.row)) \cup Tag(m.col \in NearBlock /\ m.col >= 3, "K2:cols" \o ToString(m.col))
                \cup Tag(\E a, b \in 1..m.row : a # b /\ m.cell[a] = m.cell[b] /\ m.col > 0, "K8:duplicate-rows")
SlotTags(r) == LET k == r[1]  x == r[2] IN
  CASE k \in VKinds -> IF vec[k][x].live THEN LenTags(Len(vec[k][x].d)) ELSE {}
    [] k = "sv" -> IF sv[x].live THEN LenTags(Len(sv[x].d)) \cup Tag(\E i \in 1..Len(sv[x].d) : sv[x].d[i] = "", "K8:empty-string")
                                      \cup Tag(\E i \in 1..Len(sv[x].d) : sv[x].d[i] \in {"<L255>", "<L256>", "<L257>"}, "K2:string-256") ELSE {}
    [] k = "mx" -> MatTags(mx[x])
    [] k = "tn" -> IF tn[x].live THEN UNION {MatTags(tn[x].m[q]) : q \in 1..Len(tn[x].m)}
                                      \cup Tag(\E p, q \in 1..Len(tn[x].m) : tn[x].m[p].live /\ tn[x].m[q].live /\ ~SameShape(tn[x].m[p], tn[x].m[q]), "K1:layers-differ")
                                      \cup Tag(Len(tn[x].m) = 0, "K1:empty")
                   ELSE {}
    [] k = "dl" -> IF dl[x].live THEN UNION {LenTags(Len(dl[x].d[q])) : q \in 1..Len(dl[x].d)} \cup Tag(Len(dl[x].d) = 0, "K1:empty") ELSE {}
OpTags == Tag(op.rel = "self", "K7:self-copy")
          \cup Tag("a" \in DOMAIN op.a /\ "b" \in DOMAIN op.a /\ op.a.a = op.a.b, "K7:extend-self")
          \cup Tag(op.name \in {"TensorAppendMatrix:own", "DVectorListAppend:own", "StrVectorAppend:own", "setStr:own"}, "K7:operand-inside-destination")
          \cup Tag(op.rel \in {"tie-dup", "tie-distinct"}, "K8:sort-" \o op.rel)
          \cup Tag(op.name \in {"StrVectorAppendInt:big", "StrVectorAppendDouble:big"}, "K4:long-number-text")
          \cup Tag(op.name \in {"MatrixAppendRow", "MatrixAppendUIRow"} /\ op.a.was[1] > 0 /\ op.a.was[2] = 0 /\ Len(op.a.vs) > 0, "K1:append-row-onto-cols0")
          \cup Tag(op.name \in {"MatrixAppendCol", "MatrixAppendUICol"} /\ op.a.was[1] = 0 /\ op.a.was[2] > 0 /\ Len(op.a.vs) > 0, "K1:append-col-onto-rows0")
          \cup Tag(op.name \in {"MatrixDeleteRowAt", "MatrixDeleteColAt"} /\ op.a.k = 0, "K1:delete-first")
          \cup Tag(op.name = "MatrixDeleteRowAt" /\ op.a.k = mx[op.a.x].row /\ op.a.k > 0, "K1:delete-last")
          \cup Tag(op.name = "MatrixDeleteColAt" /\ op.a.k = mx[op.a.x].col /\ op.a.k > 0, "K1:delete-last")
          \cup Tag(op.name = "MatrixDeleteRowAt" /\ mx[op.a.x].row = 0, "K1:delete-only")
          \cup Tag(op.name = "MatrixDeleteColAt" /\ mx[op.a.x].col = 0, "K1:delete-only")
          \cup Tag(op.oor /\ \E f \in {"i", "j", "k"} \cap DOMAIN op.a : op.a[f] \in {MaxDim + 8, MaxDim + 65}, "K2:oor-mid-range")
          \cup Tag(op.oor /\ \E f \in {"i", "j", "k"} \cap DOMAIN op.a : op.a[f] \in 1000001..1000004, "K4:oor-far-index")
ClassTags == OpTags \cup UNION {SlotTags(r) : r \in op.touched}

(* what the replay harness needs: the call, and the shadow value of every slot the call may have changed *)
Touched(k) == {x \in Pool : <<k, x>> \in op.touched}
Emit == PrintT("@@" \o ToJson([lvl |-> TLCGet("level"),
                                op |-> [name |-> op.name, rel |-> op.rel, oor |-> op.oor, a |-> op.a, n |-> op.n],
                                cls |-> ClassTags,
                                post |-> [dv |-> [x \in Touched("dv") |-> vec["dv"][x]], uv |-> [x \in Touched("uv") |-> vec["uv"][x]],
                                          iv |-> [x \in Touched("iv") |-> vec["iv"][x]], sv |-> [x \in Touched("sv") |-> sv[x]],
                                          mx |-> [x \in Touched("mx") |-> mx[x]], tn |-> [x \in Touched("tn") |-> tn[x]],
                                          dl |-> [x \in Touched("dl") |-> dl[x]]]]))
=============================================================================
