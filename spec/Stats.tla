---- MODULE Stats ----
(* C15.  Exact reference semantics of the figures of merit of statistic.c / numeric.c and of the tables that   *)
(* pls.c / mlr.c assemble from them.  TLC is the ORACLE: it enumerates a small input space exhaustively,        *)
(* checks the theorems of the property as invariants, and prints every case with its exact expected results     *)
(* ("@@" JSON lines) for harness/c15_replay.c; TraceStats.tla reuses the same operators to recompute what the    *)
(* real library returned on long random inputs.                                                                *)
(*                                                                                                             *)
(* Classification.  y is the truth vector over {0, 1, 2}: 1 = positive, 0 = negative, 2 = missing-coded         *)
(* (skipped).  Scores are abstracted to their strict ORDER: ord[r] = object at rank r by descending score       *)
(* (no ties - the property's quantifier).  ROC points are COUNTS <<fp, tp>> (the curve is (fp/N, tp/P)),          *)
(* AUC = Area2 / (2 P N) by trapezoids.  PR points are <<tp, k>> with k objects seen: recall tp/P, precision     *)
(* tp/k, first point (recall 0, precision 1); the area is an exact rational.                                    *)
(* Regression.  yt, yp integer vectors, MissCode in yt = missing-coded truth (skipped).  With m present cells:   *)
(*   MSE = SSE/m   MAE = SAE/m   RMSE^2 = MSE   R2 = 1 - SSE/SST = (D - m SSE)/D,  D = m Syy - Sy^2 = m SST       *)
(*   BIAS = |1 - slope| , slope = sum yp (yt - mean) / sum yt (yt - mean) = (m Spy - Sy Sp)/D                    *)
EXTENDS Integers, Sequences, FiniteSets, TLC, Json, Rat, StatsOut
CONSTANTS FamSet,          \* case families to enumerate: "Roc", "Reg", "PlsReg", "Mlr", "PlsDa"
          MaxN,            \* Roc: truth vectors x score orders for 2..MaxN objects
          MaxNMiss,        \* Roc: a missing-coded truth is allowed up to this length
          RegN,            \* Reg: all pairs of vectors over -2..2 of length 1..RegN, at most one missing truth
          RegEmitN,        \* Reg: every case is printed up to this length, a fixed sub-family beyond
          MaxNy, MaxNlv,   \* tables: responses 1..MaxNy, latent variables 1..MaxNlv
          DoEmit

MissCode == 99
Abs(x) == IF x < 0 THEN -x ELSE x
Perms(n) == {f \in [1..n -> 1..n] : \A a, b \in 1..n : a # b => f[a] # f[b]}

(* ---- classification ------------------------------------------------------------------------------ *)
P(y) == Cardinality({i \in DOMAIN y : y[i] = 1})
N(y) == Cardinality({i \in DOMAIN y : y[i] = 0})
RECURSIVE RocAcc(_, _, _, _, _, _)
RocAcc(y, ord, r, fp, tp, acc) ==
  IF r > Len(ord) THEN acc
  ELSE LET t == y[ord[r]] IN
       IF t = 2 THEN RocAcc(y, ord, r + 1, fp, tp, acc)
       ELSE LET nfp == IF t = 1 THEN fp ELSE fp + 1
                ntp == IF t = 1 THEN tp + 1 ELSE tp
            IN RocAcc(y, ord, r + 1, nfp, ntp, Append(acc, <<nfp, ntp>>))
Roc(y, ord) == RocAcc(y, ord, 1, 0, 0, <<<<0, 0>>>>)
RECURSIVE Area2From(_, _)
Area2From(c, i) == IF i >= Len(c) THEN 0 ELSE (c[i + 1][1] - c[i][1]) * (c[i][2] + c[i + 1][2]) + Area2From(c, i + 1)
Area2(c) == Area2From(c, 1)                                    \* AUC = Area2 / (2 P N)
RECURSIVE PrAcc(_, _, _, _, _, _)
PrAcc(y, ord, r, kk, tp, acc) ==
  IF r > Len(ord) THEN acc
  ELSE LET t == y[ord[r]] IN
       IF t = 2 THEN PrAcc(y, ord, r + 1, kk, tp, acc)
       ELSE LET ntp == IF t = 1 THEN tp + 1 ELSE tp
            IN PrAcc(y, ord, r + 1, kk + 1, ntp, Append(acc, <<ntp, kk + 1>>))
Pr(y, ord) == PrAcc(y, ord, 1, 0, 0, <<>>)                      \* without the conventional first point (0, 1)
Prec(pt) == <<pt[1], pt[2]>>                                     \* precision tp/k as a (non-normalised) pair
RECURSIVE ApFrom(_, _, _)                                        \* 2 P * area = sum over positive steps of (prec_before + prec_after)
ApFrom(c, i, prev) == IF i > Len(c) THEN RZero
                      ELSE LET cur == RNorm(c[i][1], c[i][2])
                               step == IF c[i][1] > (IF i = 1 THEN 0 ELSE c[i - 1][1]) THEN RAdd(prev, cur) ELSE RZero
                           IN RAdd(step, ApFrom(c, i + 1, cur))
PrArea(y, ord) == RMul(ApFrom(Pr(y, ord), 1, ROne), RNorm(1, 2 * P(y)))
(* the rank-statistic definition, independent of the curve: pairs (positive, negative) with the positive ranked first *)
RankOf(ord) == [o \in 1..Len(ord) |-> CHOOSE r \in 1..Len(ord) : ord[r] = o]
Wins(y, ord) == LET rk == RankOf(ord) IN
                Cardinality({pr \in (DOMAIN y) \X (DOMAIN y) : y[pr[1]] = 1 /\ y[pr[2]] = 0 /\ rk[pr[1]] < rk[pr[2]]})
Rev(ord) == [r \in DOMAIN ord |-> ord[Len(ord) + 1 - r]]
(* scores behind an order, and the order behind tie-free scores *)
ScoreOf(ord) == LET rk == RankOf(ord) IN [o \in 1..Len(ord) |-> Len(ord) + 1 - rk[o]]
OrdOf(s) == [r \in 1..Len(s) |-> CHOOSE o \in 1..Len(s) : Cardinality({q \in 1..Len(s) : s[q] > s[o]}) = r - 1]
MonotoneCurve(c, y) == /\ c[1] = <<0, 0>> /\ c[Len(c)] = <<N(y), P(y)>>
                       /\ \A i \in 1..(Len(c) - 1) : c[i + 1][1] >= c[i][1] /\ c[i + 1][2] >= c[i][2]
RecallCurve(c, y) == /\ Len(c) = P(y) + N(y)
                     /\ \A i \in 1..Len(c) : c[i][2] = i /\ c[i][1] >= (IF i = 1 THEN 0 ELSE c[i - 1][1]) /\ c[i][1] <= i
                     /\ (Len(c) > 0 => c[Len(c)][1] = P(y))

(* ---- regression ---------------------------------------------------------------------------------- *)
Present(yt) == {i \in DOMAIN yt : yt[i] # MissCode}
RECURSIVE SumOver(_, _)
SumOver(f, S) == IF S = {} THEN 0 ELSE LET i == CHOOSE x \in S : TRUE IN f[i] + SumOver(f, S \ {i})
Cnt(yt) == Cardinality(Present(yt))
SSE(yt, yp) == SumOver([i \in DOMAIN yt |-> (yp[i] - yt[i]) * (yp[i] - yt[i])], Present(yt))
SAE(yt, yp) == SumOver([i \in DOMAIN yt |-> Abs(yp[i] - yt[i])], Present(yt))
Sy(yt) == SumOver(yt, Present(yt))
Syy(yt) == SumOver([i \in DOMAIN yt |-> yt[i] * yt[i]], Present(yt))
Sp(yt, yp) == SumOver(yp, Present(yt))
Spy(yt, yp) == SumOver([i \in DOMAIN yt |-> yp[i] * yt[i]], Present(yt))
DD(yt) == Cnt(yt) * Syy(yt) - Sy(yt) * Sy(yt)                    \* m * SST; 0 iff the present truths are constant
(* results as pairs <<numerator, denominator>>; denominator 0 = undefined for this input *)
MSEq(yt, yp) == <<SSE(yt, yp), Cnt(yt)>>
MAEq(yt, yp) == <<SAE(yt, yp), Cnt(yt)>>
R2q(yt, yp) == <<DD(yt) - Cnt(yt) * SSE(yt, yp), DD(yt)>>
BIASq(yt, yp) == <<Abs(DD(yt) - (Cnt(yt) * Spy(yt, yp) - Sy(yt) * Sp(yt, yp))), DD(yt)>>
RegAll(yt, yp) == <<MSEq(yt, yp), MAEq(yt, yp), R2q(yt, yp), BIASq(yt, yp)>>
Drop(v, i) == [q \in 1..(Len(v) - 1) |-> IF q < i THEN v[q] ELSE v[q + 1]]

(* ---- the enumerated case space ------------------------------------------------------------------- *)
VARIABLES fam, n, y, z, ny, nlv, st       \* y: truths (Roc) / yt (Reg);  z: score order (Roc) / yp (Reg);  st 0 -> 1
vars == <<fam, n, y, z, ny, nlv, st>>
L == INSTANCE Layout WITH ResidualIndex <- "mod_ny"            \* the column layout shared with C03: L!Col(lv, j) = ny*(lv-1) + j
Vals == -2..2
RocTruths(nn) == {t \in [1..nn -> {0, 1, 2}] : /\ P(t) > 0 /\ N(t) > 0
                                                /\ Cardinality({i \in 1..nn : t[i] = 2}) <= (IF nn <= MaxNMiss THEN 1 ELSE 0)}
RegTruths(nn) == {t \in [1..nn -> Vals \cup {MissCode}] : Cardinality({i \in 1..nn : t[i] = MissCode}) <= 1 /\ Cnt(t) >= 1}
Tables == {"PlsReg", "Mlr", "PlsDa"}
Init == /\ fam \in FamSet /\ st = 0 /\ z = <<>>
        /\ \/ fam = "Roc" /\ n \in 2..MaxN /\ y \in RocTruths(n) /\ ny = 1 /\ nlv = 1
           \/ fam = "Reg" /\ n \in 1..RegN /\ y \in RegTruths(n) /\ ny = 1 /\ nlv = 1
           \/ fam \in Tables /\ n \in {4, 5} /\ y = <<>> /\ ny \in 1..MaxNy /\ nlv \in (IF fam = "Mlr" THEN {1} ELSE 1..MaxNlv)
Next == /\ st = 0 /\ st' = 1 /\ UNCHANGED <<fam, n, y, ny, nlv>>
        /\ \/ fam = "Roc" /\ z' \in Perms(n)
           \/ fam = "Reg" /\ z' \in [1..n -> Vals]
           \/ fam \in Tables /\ z' = <<>>
Spec == Init /\ [][Next]_vars

(* ---- table cases: data from a fixed fill, expected entries from the scalar definitions at column L!Col(lv, j) ---- *)
TFill(s, i, j) == (((3 * i * i + 5 * j * j + 7 * i * j + 2 * i + 6 * j + s * s + 4 * s) % 31) % 5) - 2
TRows == IF fam = "PlsDa" THEN n + 1 ELSE n                       \* 5 or 6 objects for the classification tables
TrueCol(j) == IF fam = "PlsDa" THEN [i \in 1..TRows |-> IF (i + j) % 3 = 0 \/ (i * j) % 4 = 1 THEN 1 ELSE 0]                  \* j \in 1..ny
              ELSE [i \in 1..TRows |-> IF n = 5 /\ i = 2 /\ j = 1 THEN MissCode ELSE TFill(1, i, j)]                      \* one missing truth when n = 5
PredCol(cidx) == IF fam = "PlsDa" THEN [i \in 1..TRows |-> ((i * (1 + (cidx % 6)) + 3 * cidx) % 7)]                            \* cidx 0-based; a permutation of residues mod 7: tie-free
                 ELSE [i \in 1..TRows |-> TFill(2, i, cidx + 1)]
TrueMat == [i \in 1..TRows |-> [j \in 1..ny |-> TrueCol(j)[i]]]
PredMat == [i \in 1..TRows |-> [cc \in 1..(ny * nlv) |-> PredCol(cc - 1)[i]]]
RegEntry(lv, j) == RegAll(TrueCol(j), PredCol(L!Col(lv, j - 1)))                                   \* lv \in 1..nlv, j \in 1..ny
DaOrd(lv, j) == OrdOf(PredCol(L!Col(lv, j - 1)))
DaEntry(lv, j) == LET t == TrueCol(j)  o == DaOrd(lv, j) IN
                  [auc2 |-> Area2(Roc(t, o)), p |-> P(t), nn |-> N(t), ap |-> PrArea(t, o), roc |-> Roc(t, o), pr |-> Pr(t, o)]

(* ---- what is printed ------------------------------------------------------------------------------ *)
RegSub == \/ n <= RegEmitN
          \/ (\A i \in 1..n : y[i] # MissCode) /\ (\A i \in 1..n : z[i] \in {-2, 0, 1})
          \/ (\E i \in 1..n : y[i] = MissCode) /\ (\A i \in 1..n : z[i] \in {-1, 2})
CaseRec ==
  CASE fam = "Roc" -> [fam |-> fam, n |-> n, y |-> y, ord |-> z, p |-> P(y), nn |-> N(y), roc |-> Roc(y, z), auc2 |-> Area2(Roc(y, z)),
                       pr |-> Pr(y, z), ap |-> PrArea(y, z)]
    [] fam = "Reg" -> [fam |-> fam, n |-> n, yt |-> y, yp |-> z, q |-> RegAll(y, z)]
    [] fam \in {"PlsReg", "Mlr"} -> [fam |-> fam, n |-> TRows, ny |-> ny, nlv |-> nlv, mt |-> TrueMat, mp |-> PredMat,
                                     q |-> [lv \in 1..nlv |-> [j \in 1..ny |-> RegEntry(lv, j)]]]
    [] fam = "PlsDa" -> [fam |-> fam, n |-> TRows, ny |-> ny, nlv |-> nlv, mt |-> TrueMat, mp |-> PredMat,
                         q |-> [lv \in 1..nlv |-> [j \in 1..ny |-> DaEntry(lv, j)]]]
EmitCase == (DoEmit /\ st = 1 /\ (fam = "Reg" => RegSub)) => PrintT("@@" \o ToJson(CaseRec))

(* ---- theorems (invariants over the enumerated space) ---------------------------------------------- *)
On(f) == st = 1 /\ fam = f
ThMannWhitney == On("Roc") => Area2(Roc(y, z)) = 2 * Wins(y, z)                      \* AUC = P(score+ > score-)
ThRocMonotone == On("Roc") => MonotoneCurve(Roc(y, z), y) /\ Len(Roc(y, z)) = P(y) + N(y) + 1
ThComplement == On("Roc") => Area2(Roc(y, Rev(z))) = 2 * P(y) * N(y) - Area2(Roc(y, z))     \* negated scores: 1 - AUC
ThAucRange == On("Roc") => Area2(Roc(y, z)) \in 0..(2 * P(y) * N(y))
ThOrderOfScores == On("Roc") => LET s == ScoreOf(z) IN                                 \* same order under strictly increasing maps, reversed under negation
                   /\ OrdOf(s) = z /\ OrdOf([o \in 1..n |-> 3 * s[o] - 7]) = z /\ OrdOf([o \in 1..n |-> s[o] * s[o] * s[o]]) = z
                   /\ OrdOf([o \in 1..n |-> -s[o]]) = Rev(z)
Generators(nn) == {[i \in 1..nn |-> IF i = a THEN a + 1 ELSE IF i = a + 1 THEN a ELSE i] : a \in 1..(nn - 1)}
ThReorder == On("Roc") => \A g \in Generators(n) :                                     \* object reordering (adjacent swaps generate all)
                LET y2 == [i \in 1..n |-> y[g[i]]]  s2 == [i \in 1..n |-> ScoreOf(z)[g[i]]]
                IN Roc(y2, OrdOf(s2)) = Roc(y, z) /\ Pr(y2, OrdOf(s2)) = Pr(y, z)
ThPrecisionRecall == On("Roc") => /\ RecallCurve(Pr(y, z), y)
                                  /\ RLe(RZero, PrArea(y, z)) /\ RLe(PrArea(y, z), ROne)
ThRegPerfect == (On("Reg") /\ \A i \in Present(y) : z[i] = y[i]) =>
                   /\ SSE(y, z) = 0 /\ SAE(y, z) = 0
                   /\ (DD(y) > 0 => R2q(y, z)[1] = R2q(y, z)[2] /\ BIASq(y, z)[1] = 0)
ThRegBounds == On("Reg") => /\ DD(y) >= 0 /\ SSE(y, z) >= 0
                            /\ (DD(y) > 0 => R2q(y, z)[1] <= R2q(y, z)[2])                  \* R2 <= 1
                            /\ SAE(y, z) * SAE(y, z) <= Cnt(y) * SSE(y, z)                \* MAE <= RMSE
                            /\ (SSE(y, z) = 0 <=> \A i \in Present(y) : z[i] = y[i])
ThMissingIgnored == (On("Reg") /\ \E i \in 1..n : y[i] = MissCode) =>
                       LET i == CHOOSE q \in 1..n : y[q] = MissCode IN RegAll(y, z) = RegAll(Drop(y, i), Drop(z, i))
(* translation and scale laws: every figure is a function of the DEVIATIONS only.  A common shift c of truths and predictions      *)
(* leaves SSE, SAE, m*SST and the slope's numerator m*Spy - Sy*Sp unchanged, hence MSE, MAE, RMSE, R2 and BIAS; a common factor s   *)
(* multiplies MSE by s^2 and MAE (RMSE) by |s| and leaves R2 and BIAS unchanged.  This is what entitles the replay to compare the  *)
(* library at large common offsets / dyadic scales with the SAME exact value (an implementation that forms sum y^2 - (sum y)^2/n    *)
(* or sum yp*(y - mean) on uncentred data agrees on small numbers and loses every digit when |mean| >> spread).                    *)
ShiftV(v, cc) == [i \in DOMAIN v |-> IF v[i] = MissCode THEN MissCode ELSE v[i] + cc]
ScaleV(v, s) == [i \in DOMAIN v |-> IF v[i] = MissCode THEN MissCode ELSE s * v[i]]
ThShiftInvariant == On("Reg") => \A cc \in {-7, 5, 1000} : RegAll(ShiftV(y, cc), ShiftV(z, cc)) = RegAll(y, z)
ThScaleLaw == On("Reg") => \A s \in {2, -3, 10} :
                 LET a == RegAll(ScaleV(y, s), ScaleV(z, s))  b == RegAll(y, z) IN
                 /\ a[1] = <<s * s * b[1][1], b[1][2]>>                               \* MSE * s^2
                 /\ a[2] = <<Abs(s) * b[2][1], b[2][2]>>                              \* MAE * |s|
                 /\ a[3] = <<s * s * b[3][1], s * s * b[3][2]>>                       \* R2 unchanged (both terms * s^2)
                 /\ a[4] = <<s * s * b[4][1], s * s * b[4][2]>>                       \* BIAS unchanged
ThLayout == (st = 1 /\ fam \in Tables) => /\ L!LayoutBijective
                                           /\ \A j \in 1..ny : IF fam = "PlsDa" THEN P(TrueCol(j)) > 0 /\ N(TrueCol(j)) > 0 ELSE DD(TrueCol(j)) > 0
                                           /\ (fam = "PlsDa" => \A cc \in 0..(ny * nlv - 1) : Cardinality({PredCol(cc)[i] : i \in 1..TRows}) = TRows)
ThTablesDistinguish == (st = 1 /\ fam \in {"PlsReg", "PlsDa"} /\ ny > 1 /\ nlv > 1) =>         \* the data tell the LV-major layout from the transposed one
                       \E lv \in 1..nlv, j \in 1..ny : PredCol(L!Col(lv, j - 1)) # PredCol(nlv * (j - 1) + lv - 1)

(* ---- further theorems of the definitions (round 3) -------------------------------------------------- *)
Flip(t) == [i \in DOMAIN t |-> IF t[i] = 2 THEN 2 ELSE 1 - t[i]]
Swap(c) == [i \in DOMAIN c |-> <<c[i][2], c[i][1]>>]
ThLabelSwap == On("Roc") => /\ Roc(Flip(y), z) = Swap(Roc(y, z))                                   \* exchanging the two classes mirrors the curve
                            /\ Area2(Roc(Flip(y), z)) = 2 * P(y) * N(y) - Area2(Roc(y, z))        \* ... and gives 1 - AUC
Separated(t, o) == \A a, b \in 1..Len(o) : (t[o[a]] = 0 /\ t[o[b]] = 1) => b < a                   \* every positive ranked above every negative
ThPerfectRanking == On("Roc") => /\ (Area2(Roc(y, z)) = 2 * P(y) * N(y) <=> Separated(y, z))      \* AUC = 1 iff the scores separate the classes
                                 /\ (Area2(Roc(y, z)) = 0 <=> Separated(y, Rev(z)))               \* AUC = 0 iff they separate them the wrong way round
ThMissingTransparent == (On("Roc") /\ \E i \in 1..n : y[i] = 2) =>                                 \* a missing-coded object changes nothing, wherever it is ranked
                        LET i == CHOOSE q \in 1..n : y[q] = 2
                            s == ScoreOf(z)
                            s2 == [q \in 1..(n - 1) |-> IF q < i THEN s[q] ELSE s[q + 1]]
                        IN Roc(Drop(y, i), OrdOf(s2)) = Roc(y, z) /\ Pr(Drop(y, i), OrdOf(s2)) = Pr(y, z)
ThPrPoints == On("Roc") => \A i \in 1..Len(Pr(y, z)) : LET c == Pr(y, z) IN                        \* precision in [0,1]; recall steps exactly where the truth is positive
                              /\ c[i][1] <= c[i][2]
                              /\ c[i][1] - (IF i = 1 THEN 0 ELSE c[i - 1][1]) \in {0, 1}
(* the sums over the present cells computed by index recursion (what TraceStats uses for long vectors) agree with the set recursion *)
RECURSIVE SumIdx(_, _, _)
SumIdx(f, yt, i) == IF i = 0 THEN 0 ELSE (IF yt[i] = MissCode THEN 0 ELSE f[i]) + SumIdx(f, yt, i - 1)
ThSumIdx == On("Reg") => /\ SumIdx([i \in 1..n |-> (z[i] - y[i]) * (z[i] - y[i])], y, n) = SSE(y, z)
                         /\ SumIdx([i \in 1..n |-> 1], y, n) = Cnt(y)

(* ---- tolerances of the validate direction (units of 1e-12), functions of the LOGGED input ----------- *)
(* Inputs are integers v fed as (v + off) * 2^ex: sums, differences yp - yt and squares are exact in binary64, so MSE / MAE / RMSE   *)
(* carry only the final division (Tol).  R2 and BIAS centre on the mean: the mean of values near off is rounded to                  *)
(* delta <= |off| * 2^-53 (in input units), the centred sums absorb it to SECOND order: sum (d_i - delta)^2 = SST + m delta^2, so    *)
(* the relative error of SST (and of the slope's denominator) is  m delta^2 / SST = m^2 delta^2 / D  with D = m Syy - Sy^2 = m SST. *)
(* In units of 1e-12:  m^2 off^2 2^-106 1e12 / D  <=  OffUnits(off, m) / D  with OffUnits = m^2 off^2 2^-66 (rounded up in stages   *)
(* that keep every product inside 32 bits); a factor 2 covers the same effect on the numerator sums.  Without an offset the          *)
(* allowance is 0: the tolerance of the classes that existed before is not touched.  The result's absolute error scales with         *)
(* |1 - result| (R2 = 1 - SSE/SST), hence the factor RelTo.                                                                         *)
OffUnits(off, m) == LET a == Abs(off) \div 32768
                        A == (a * a) \div 65536 + 1
                    IN (A * m * m) \div 1048576 + 1
OffAllow(off, m, d) == IF off = 0 THEN 0 ELSE (2 * OffUnits(off, m)) \div d + 1
RelTo(num, d) == 2 + Abs(num) \div d
FineTol(tol, off, m, d, num) == IF RelTo(num, d) > 1000000 THEN 2000000000 ELSE (tol + OffAllow(off, m, d)) * RelTo(num, d)
TolLaws == \A off \in {0, 1000, 1048576, 250000000, 1073741824}, m \in {2, 30, 200}, d \in {1, 199, 1000000} :
             /\ OffAllow(0, m, d) = 0 /\ FineTol(1, 0, m, d, d) = 3                                   \* no offset: nothing added (R2 = 1: 3e-12 absolute)
             /\ OffAllow(-off, m, d) = OffAllow(off, m, d)
             /\ OffAllow(off, m, d) <= OffAllow(1073741824, m, d)                                     \* monotone in the offset ...
             /\ OffAllow(off, m, d) <= OffAllow(off, 200, d)                                          \* ... and in the length
             /\ OffAllow(off, m, d) >= OffAllow(off, m, 1000000)                                      \* better conditioned (larger D) -> tighter
             /\ OffAllow(1073741824, 200, 199) <= 8                                                    \* worst case of the generator: 8e-12
             /\ FineTol(1, off, m, d, 2000000000) <= 2000000000                                        \* never overflows 32 bits
ASSUME TolLaws
====
