SPECIFICATION Spec
CONSTANTS
  NW = 2
  K = 1
  PerThread = TRUE
  Shape = "foreign"
INVARIANT StreamIsolation
INVARIANT NoClock
INVARIANT SeedDrawStream
INVARIANT EqualsSequential
INVARIANT WordPrivate
INVARIANT ForeignTwin
VIEW NoSched
CHECK_DEADLOCK FALSE
