---- MODULE CvDomain ----
(* C05.  The property's QUANTIFIER, the learners' own domains and the input / history CLASSES (INPUT-CLASSES.md K1..K10) as   *)
(* TLA+ definitions over a case record [scheme, algo, n, p, ny, nlv, xs, k, groups, iters, nth, dcls, sens, nproc, dseed, lab]. *)
(* Used by the case generator (CvCases.tla) and by the trace specification (TraceCv.tla re-checks Admissible on every Run).    *)
EXTENDS CvFolds
(* the quantifier of the property: data sets 6..30 x 1..6 x 1..3, group counts 1..objects, iterations 1..12,        *)
(* thread counts 1..8, user label vectors for k-fold                                                                 *)
InQuantifier(x) ==
  /\ x.n \in 6..30 /\ x.p \in 1..6 /\ x.ny \in 1..3 /\ x.nth \in 1..8
  /\ (x.scheme = "boot" => x.iters \in 1..12 /\ x.groups \in 1..x.n)
  /\ (x.scheme = "kfold" => Len(x.lab) = x.n /\ \A i \in 1..x.n : x.lab[i] >= 0)

MaxCount(lab) == MaxOf({Cardinality(Members(lab, g)) : g \in Range(lab)})
TestMax(x) == CASE x.scheme = "boot" -> CeilDiv(x.n, x.groups) [] x.scheme = "loo" -> 1 [] OTHER -> MaxCount(x.lab)
MinTrain(x) == x.n - TestMax(x)                \* the smallest training set any fold of the run fits on
WorkItems(x) == CASE x.scheme = "boot" -> x.iters [] x.scheme = "loo" -> x.n [] OTHER -> MaxOf(Range(x.lab)) + 1

(* every fit of the run stays inside the learner's OWN domain (C03 / C07 / C08 own those): no false alarms           *)
LearnerDomain(x) ==
  /\ MinTrain(x) >= 3
  /\ (x.scheme = "boot" => x.groups >= 2)                                  \* one group = empty training set
  /\ (x.scheme = "kfold" => Cardinality(Range(x.lab)) >= 2 /\ MaxOf(Range(x.lab)) <= 39)
  /\ (x.algo = "PLS" => x.nlv \in 1..x.p /\ x.nlv <= MinTrain(x) - 2)
  /\ (x.algo = "MLR" => x.nlv = 1 /\ x.p <= MinTrain(x) - 3 /\ x.dcls \notin {5, 6})      \* full column rank with the intercept
  /\ (x.algo = "LDA" => /\ x.nlv = 1 /\ x.ny = 1 /\ x.p \in 2..4 /\ x.k \in 2..3 /\ x.dcls = 0
                        /\ x.scheme # "kfold"                              \* KFoldCV never creates LDA workers (it would join threads it never made)
                        /\ (x.n \div x.k) - TestMax(x) >= 3)               \* >= 3 training members per class
  /\ (x.algo # "LDA" => x.k = 0)
  /\ x.xs \in 0..1 /\ x.ys \in 0..1 /\ (x.algo # "PLS" => x.ys = 0)                  \* response scaling is a PLS parameter
  /\ (x.ys = 1 => x.dcls # 7)                                                        \* scaling a constant response: C03's business
Admissible(x) == InQuantifier(x) /\ LearnerDomain(x)

---------------------------------------------------------------------------------------------------------------------
(* label alphabets (K10)                                                                                             *)
LabGap(lab) == \E g \in 0..MaxOf(Range(lab)) : g \notin Range(lab)
LabNoZero(lab) == 0 \notin Range(lab)
LabOnce(lab) == \E g \in Range(lab) : Cardinality(Members(lab, g)) = 1
LabUnsorted(lab) == \E i \in 1..(Len(lab) - 1) : lab[i] > lab[i + 1]
LabNonContig(lab) == \E i, j, k2 \in 1..Len(lab) : i < j /\ j < k2 /\ lab[i] = lab[k2] /\ lab[j] # lab[i]
LabUnbalanced(lab) == \E g, h \in Range(lab) : Cardinality(Members(lab, g)) # Cardinality(Members(lab, h))
LabClasses(lab) ==
  (IF LabGap(lab) THEN {"K10:label-gap"} ELSE {}) \cup (IF LabNoZero(lab) THEN {"K10:labels-not-from-0"} ELSE {})
  \cup (IF LabOnce(lab) THEN {"K10:label-used-once"} ELSE {}) \cup (IF LabUnsorted(lab) THEN {"K10:unsorted"} ELSE {})
  \cup (IF LabNonContig(lab) THEN {"K10:non-contiguous"} ELSE {}) \cup (IF LabUnbalanced(lab) THEN {"K10:unbalanced"} ELSE {"K10:balanced"})
  \cup (IF MaxOf(Range(lab)) >= 8 THEN {"K10:large-label"} ELSE {})

DataClass(d) == CASE d = 0 -> {} [] d = 1 -> {"K3:offset-1e6"} [] d = 2 -> {"K4:scale-1e-6"} [] d = 3 -> {"K4:scale-1e6"}
                  [] d = 4 -> {"K8:duplicate-rows"} [] d = 5 -> {"K5:constant-column-0.1", "K8:constant-column"}
                  [] d = 6 -> {"K8:fold-constant-column"} [] OTHER -> {"K8:constant-response"}

(* the classes one case belongs to *)
Classes(x) ==
  LET it == WorkItems(x)  mt == MinTrain(x)  w == IF x.scheme = "boot" THEN CeilDiv(x.n, x.groups) ELSE 0 IN
  {IF x.ny = 1 THEN "K1:ny=1" ELSE "K1:ny>1"}
  \cup (IF x.ny > x.p THEN {"K1:ny>p"} ELSE {}) \cup (IF x.p = 1 THEN {"K1:p=1"} ELSE {}) \cup (IF x.p = 6 THEN {"K1:p=6"} ELSE {})
  \cup (IF x.algo = "PLS" THEN {IF x.nlv = 1 THEN "K1:nlv=1" ELSE IF x.nlv = x.p THEN "K1:nlv=p" ELSE "K1:1<nlv<p"} ELSE {})
  \cup {IF x.p >= mt THEN "K1:train-wide-or-square" ELSE IF x.p + 1 = mt THEN "K1:train-n=p+1" ELSE "K1:train-tall"}
  \cup (IF x.scheme = "boot" THEN {IF x.n % x.groups = 0 THEN "K2:groups-divide-n" ELSE "K2:groups-not-divide-n"} ELSE {})
  \cup (IF x.scheme = "boot" /\ x.groups * w - x.n >= w THEN {"K2:empty-group-rows"} ELSE {})
  \cup (IF x.scheme = "loo" /\ x.nth > 1 /\ x.n % x.nth = 0 THEN {"K2:n=k*nth"} ELSE {})
  \cup (IF x.scheme = "loo" /\ x.nth > 1 /\ x.n % x.nth = 1 THEN {"K2:n=k*nth+1"} ELSE {})
  \cup (IF x.scheme = "loo" /\ x.nth > 2 /\ (x.n + 1) % x.nth = 0 THEN {"K2:n=k*nth-1"} ELSE {})
  \cup (IF x.n % 4 = 0 THEN {"K2:n-multiple-of-4"} ELSE IF x.n % 4 = 1 THEN {"K2:n=4k+1"} ELSE IF x.n % 4 = 3 THEN {"K2:n=4k-1"} ELSE {})
  \cup {"K6:" \o x.scheme \o ":" \o x.algo \o ":nth=" \o ToString(x.nth)}
  \cup (IF x.nth > it THEN {"K6:" \o x.scheme \o ":nth>items"} ELSE {})
  \cup (IF x.nth > 1 /\ x.nth < it /\ it % x.nth # 0 THEN {"K6:" \o x.scheme \o ":nth-not-divide-items"} ELSE {})
  \cup (IF x.nth > 1 /\ it % x.nth = 0 THEN {"K6:" \o x.scheme \o ":nth-divides-items"} ELSE {})
  \cup (IF x.scheme = "loo" /\ x.nth > x.n THEN {"K6:loo:nth>objects"} ELSE {})
  \cup (IF x.nproc > 1 THEN {"K6:kernel-nproc=" \o ToString(x.nproc)} ELSE {})
  \cup (IF x.scheme = "boot" THEN {"IT:iters=" \o ToString(x.iters)} ELSE {})
  \cup (IF x.scheme = "boot" /\ x.groups = x.n THEN {"G:groups=n"} ELSE {})
  \cup (IF x.scheme = "boot" /\ x.groups = x.n - 1 THEN {"G:groups=n-1"} ELSE {})
  \cup (IF x.scheme = "boot" /\ x.groups = 2 THEN {"G:groups=2"} ELSE {})
  \cup (IF x.scheme = "kfold" THEN LabClasses(x.lab) ELSE {})
  \cup DataClass(x.dcls)
  \cup (IF x.xs = 1 THEN {"P:x-autoscaling:" \o x.scheme} ELSE {}) \cup (IF x.ys = 1 THEN {"P:y-autoscaling:" \o x.scheme} ELSE {})
  \cup (IF x.sens = 1 THEN {"S:own-response-every-object:" \o x.scheme \o ":" \o x.algo} ELSE {})
  \cup (IF x.ny > 1 /\ x.nlv > 1 THEN {"R:residual-ny>1-nlv>1:" \o x.scheme} ELSE IF x.ny > 1 THEN {"R:residual-ny>1:" \o x.scheme} ELSE {})
(* history classes of position i of a chain *)
SameShape(a, b) == a.n = b.n /\ a.p = b.p /\ a.ny = b.ny /\ a.nlv = b.nlv /\ a.algo = b.algo /\ a.scheme = b.scheme
HistClasses(s, i) ==
  IF i = 1 THEN {} ELSE
  {"K7:run-" \o ToString(i) \o "-in-process", "K7:outputs-already-sized"}
  \cup (IF SameShape(s[i], s[i - 1]) /\ s[i].dseed # s[i - 1].dseed THEN {"K7:same-shape-other-data:" \o s[i].scheme} ELSE {})
  \cup (IF ~SameShape(s[i], s[i - 1]) THEN {"K7:other-shape"} ELSE {})
  \cup (IF \E j \in 1..(i - 2) : SameShape(s[i], s[j]) /\ s[i].dseed = s[j].dseed THEN {"K7:first-again"} ELSE {})
====
