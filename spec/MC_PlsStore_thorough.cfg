SPECIFICATION SSpec
CONSTANTS
  MaxN = 120
  MaxP = 60
  MaxNy = 8
  StoreLoop = "own"
INVARIANT EveryCellStored
INVARIANT ThLost
INVARIANT ThFusedOnlyWide
CHECK_DEADLOCK FALSE
