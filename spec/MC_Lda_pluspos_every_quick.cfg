\* with the pinned tree's mapping: wrong label and negative table row for EVERY 1-based label vector, correct for every 0-based one
SPECIFICATION Spec
CONSTANTS
  MaxN = 6
  MaxK = 3
  NPat = 1
  LabelMap = "plus_pos"
INVARIANT PlusPosBreaksEvery1Based
INVARIANT PlusPosRightFor0Based
