SPECIFICATION TSpec
CONSTANTS
  MaxRank = 3
  MaxNpc = 6
  MaxIter = 2000000
  Guarded = TRUE
  Sites = {"PCA"}
  PropOnly = TRUE
  TolAlg = 10000
  TolVar = 1000
  TolGap = 1000000
INVARIANT BeyondRankZero
CONSTRAINT Diag
POSTCONDITION TraceAccepted
CHECK_DEADLOCK FALSE
