SPECIFICATION MFairSpec
CONSTANTS
  MaxRank = 3
  MaxNpc = 5
  MaxIter = 3
  Guarded = TRUE
  Sites = {"PLS"}
  NProcs = {1}
  FilterSerial = TRUE
  FilterMT = TRUE
  Capped = FALSE
  CapIter = 2
PROPERTY Terminates
INVARIANT BeyondRankZero
CHECK_DEADLOCK FALSE
