SPECIFICATION TSpec
CONSTANTS
  Families = {}
  Pivoting = TRUE
  Mod = 1
  Res = 0
  PropOnly = TRUE
CONSTRAINT Diag
POSTCONDITION TraceAccepted
CHECK_DEADLOCK FALSE
