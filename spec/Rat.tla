---- MODULE Rat ----
(* Exact rationals as normalised pairs <<n, d>> with d > 0 and gcd(|n|, d) = 1 (zero is <<0, 1>>).       *)
(* TLC integers are 32-bit and TLC raises an error on overflow instead of wrapping: configurations keep  *)
(* every intermediate product inside the range; an overflow is an infrastructure failure, never a verdict. *)
EXTENDS Integers, Sequences
RAbsI(x) == IF x < 0 THEN -x ELSE x
RECURSIVE RGcd(_, _)
RGcd(a, b) == IF b = 0 THEN a ELSE RGcd(b, a % b)
RNorm(n, d) == IF n = 0 THEN <<0, 1>>
               ELSE LET g == RGcd(RAbsI(n), RAbsI(d))
                        s == IF d < 0 THEN -1 ELSE 1
                    IN <<(s * n) \div g, (s * d) \div g>>
RI(x) == <<x, 1>>
RZero == <<0, 1>>
ROne == <<1, 1>>
\* cross-cancel before multiplying so that products of reduced fractions stay small
RMul(a, b) == LET g1 == RGcd(RAbsI(a[1]), b[2])
                  g2 == RGcd(RAbsI(b[1]), a[2])
              IN IF a[1] = 0 \/ b[1] = 0 THEN RZero
                 ELSE RNorm((a[1] \div g1) * (b[1] \div g2), (a[2] \div g2) * (b[2] \div g1))
RAdd(a, b) == LET g == RGcd(a[2], b[2]) IN RNorm(a[1] * (b[2] \div g) + b[1] * (a[2] \div g), (a[2] \div g) * b[2])
RNeg(a) == <<-a[1], a[2]>>
RSub(a, b) == RAdd(a, RNeg(b))
RInv(a) == IF a[1] < 0 THEN <<-a[2], -a[1]>> ELSE <<a[2], a[1]>>          \* a # 0
RDiv(a, b) == RMul(a, RInv(b))                                             \* b # 0
RIsZero(a) == a[1] = 0
RSign(a) == IF a[1] > 0 THEN 1 ELSE IF a[1] < 0 THEN -1 ELSE 0
RLt(a, b) == a[1] * b[2] < b[1] * a[2]
RLe(a, b) == a[1] * b[2] <= b[1] * a[2]
RAbs(a) == <<RAbsI(a[1]), a[2]>>
RECURSIVE RPow(_, _)
RPow(a, k) == IF k = 0 THEN ROne ELSE RMul(a, RPow(a, k - 1))
RECURSIVE RSumSeq(_, _)
RSumSeq(s, k) == IF k = 0 THEN RZero ELSE RAdd(s[k], RSumSeq(s, k - 1))    \* sum of s[1..k]
RSum(s) == RSumSeq(s, Len(s))
====
