---- MODULE Unroll ----
(* C11.  Index model of MatrixDotProduct's dispatch and of the inner loop of                               *)
(* MatrixDotProduct_LOOP_UNROLLING (matrix.c:892-944):                                                     *)
(*     for(k = 0; k < col-3; k += 4) { terms k, k+1, k+2, k+3 }                                            *)
(*     for(k = col - col%4; k < col; k++) { term k }                                                        *)
(*     dispatch: (int)col - 3 > 0 ? unrolled : plain                                                        *)
(* Design check: every term of the inner product is visited exactly once for every inner dimension, and    *)
(* the sum over the visited terms is the inner product.  TailFrom selects where the clean-up loop starts:   *)
(* "col_minus_mod" is what the tree does; "mod" is the classic slip (start at col%4) and must be REFUTED -   *)
(* the check runs it as a self-test that the model has teeth.                                                *)
EXTENDS Integers, Sequences, FiniteSets, TLC
CONSTANTS MaxCol, TailFrom   \* TailFrom \in {"col_minus_mod", "mod"}
RECURSIVE Main(_, _)          \* indices visited by: for(k = 0; k < col-3; k += 4) { k, k+1, k+2, k+3 }
Main(k, col) == IF k < col - 3 THEN <<k, k + 1, k + 2, k + 3>> \o Main(k + 4, col) ELSE <<>>
CleanUp(col) == LET s == IF TailFrom = "col_minus_mod" THEN col - (col % 4) ELSE col % 4 IN [i \in 1..(col - s) |-> s + i - 1]
Unrolled(col) == Main(0, col) \o CleanUp(col)
Plain(col) == [i \in 1..col |-> i - 1]
Visited(col) == IF col - 3 > 0 THEN Unrolled(col) ELSE Plain(col)      \* dispatch: (int)a->col-3 > 0
Count(seq, k) == Cardinality({i \in 1..Len(seq) : seq[i] = k})
(* value level: two fixed integer vectors, inner product by definition and in the order the loop visits terms *)
X(i) == ((7 * i * i + 3 * i + 1) % 11) - 5
Y(i) == ((5 * i * i + i + 4) % 11) - 5
RECURSIVE SumSeq(_, _)
SumSeq(seq, n) == IF n = 0 THEN 0 ELSE X(seq[n]) * Y(seq[n]) + SumSeq(seq, n - 1)
RECURSIVE DotDef(_)
DotDef(n) == IF n = 0 THEN 0 ELSE X(n - 1) * Y(n - 1) + DotDef(n - 1)
VARIABLE col
Init == col \in 0..MaxCol
Next == UNCHANGED col
Spec == Init /\ [][Next]_col
EachTermOnce == /\ \A k \in 0..(col - 1) : Count(Visited(col), k) = 1
                /\ \A i \in 1..Len(Visited(col)) : Visited(col)[i] \in 0..(col - 1)
UnrolledIsDot == SumSeq(Visited(col), Len(Visited(col))) = DotDef(col)
====
