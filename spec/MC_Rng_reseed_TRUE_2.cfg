SPECIFICATION Spec
CONSTANTS
  NW = 2
  K = 1
  PerThread = TRUE
  Shape = "reseed"
INVARIANT StreamIsolation
INVARIANT NoClock
INVARIANT WordPrivate
INVARIANT EqualsSequential
CHECK_DEADLOCK FALSE
