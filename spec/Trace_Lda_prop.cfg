SPECIFICATION TSpec
CONSTANTS
  MaxN = 2
  MaxK = 2
  NPat = 1
  LabelMap = "plus_start"
  PropOnly = TRUE
  TolExact = 1000
  TolAlg = 10000
  TolPair = 100000
  PairPerKf = 10000
  KfMax = 100000
  ShiftC = 32
CONSTRAINT Diag
POSTCONDITION TraceAccepted
CHECK_DEADLOCK FALSE
