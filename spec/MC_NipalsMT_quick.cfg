SPECIFICATION MFairSpec
CONSTANTS
  MaxRank = 3
  MaxNpc = 5
  MaxIter = 3
  Guarded = TRUE
  Sites = {"PCA", "PLS", "CPCA", "KMEANS", "NM", "MLRLOO"}
  NProcs = {1, 2, 3, 16}
  FilterSerial = TRUE
  FilterMT = TRUE
  Capped = TRUE
  CapIter = 2
  CapRule = "passes"
PROPERTY Terminates
INVARIANT BeyondRankZero
INVARIANT NprocInvisible
INVARIANT MTypeOK
CHECK_DEADLOCK FALSE
