SPECIFICATION Spec
CONSTANTS
  Paths = {"p1", "p2"}
  MaxHist = 4
  DropTables = TRUE
  SaveAll = TRUE
  ReadBlock = 0
  SizeSet = {1, 2, 3}
  Rewrites = FALSE
  Shape = "reuse"
  Reuse = "appends"
INVARIANT ReadsLast
INVARIANT ReusedReadsLast
VIEW MCView
CHECK_DEADLOCK FALSE
