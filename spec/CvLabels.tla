---- MODULE CvLabels ----
(* C05.  Label-driven folds of KFoldCV for ALL label vectors (gaps, unbalanced, non-contiguous).          *)
EXTENDS CvFolds, Json
CONSTANTS MaxN, MaxLab
VARIABLE lab
LInit == lab \in UNION {[1..m -> 0..MaxLab] : m \in 1..MaxN}
LNext == UNCHANGED lab
LSpec == LInit /\ [][LNext]_lab
LabelFolds == LET G == LabelGid(lab) IN
   /\ ByLabel(G, lab)
   /\ \A q \in 0..(Len(G) - 1) : SplitIsSound(TrainOf(G, q), TestOf(G, q), Len(lab))
   /\ \A q \in 0..(Len(G) - 1) : Range(TestOf(G, q)) = Members(lab, q)
\* GEN: every label vector, for replay through the real KFoldCV
Emit == PrintT("@@" \o ToJson([lab |-> lab]))
====
