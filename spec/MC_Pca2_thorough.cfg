SPECIFICATION Spec2
CONSTANTS
  Budget = 20
  MaxRank = 4
  Ns = {2, 8, 38, 60}
  Fault = "none"
  Alphabet = {1}
  MaxLen = 1
  ShapeSet = "none"
  StartRule = "argmax"
  Fault2 = "none"
  ResizeZeroes = TRUE
INVARIANT LedgerAccepts2
INVARIANT BudgetExact2
INVARIANT Closure2
INVARIANT Type2
INVARIANT StartTheorems
CHECK_DEADLOCK FALSE
