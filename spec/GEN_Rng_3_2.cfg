SPECIFICATION Spec
CONSTANTS
  NW = 3
  K = 2
  PerThread = TRUE
  Shape = "seedDraw"
CONSTRAINT Emit
CHECK_DEADLOCK FALSE
